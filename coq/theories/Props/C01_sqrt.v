(* C01 (2/3) -- the square-root carrying constructors: axis-angle / Euler-vector / exponential (Rodrigues on the
   NORMALISED axis), two-vector frames (oa2r, trnorm), normalising unit-quaternion constructors and operators,
   random members as functions of their uniform variates.
   The tr_* definitions are concolic traces of the real code, regenerated on every run: comparisons met on the way are
   decided under a shadow valuation and emitted as the path condition pc_* (a conjunction of ltb/leb atoms).  Every
   theorem has the form  pc_f x -> member (tr_f x); coverage theorems show that the property's input domain (axis
   lengths >= 1e-3) lies inside the traced path.  Per-function results are Lemmas; the property theorems, each
   followed by Print Assumptions, conjoin them. *)
From Coq Require Import Reals ZArith Lra Nsatz.
From SM Require Import Base.Ops Base.Lin Base.RInst Base.RLin Model.C01_Lemmas.
From SMgen Require Import Traces_C01.
Open Scope R_scope.

Ltac open_tr := intros; destruct_tuples; autounfold with smgen in *; unfold SE3, SE2, t2r3, t2r2, lastrow4, lastrow3; sm_simpl.
Ltac conjs := intros; repeat match goal with |- _ /\ _ => split end.
(* one boolean atom of a path condition (ltb or leb, true or false -- whichever comparison the code uses) from an order fact *)
Ltac pc_atom := lazymatch goal with
  | |- Rltb _ _ = true => apply Rltb_true | |- Rltb _ _ = false => apply Rltb_false
  | |- Rleb _ _ = true => apply Rleb_true | |- Rleb _ _ = false => apply Rleb_false end; lra.

(* ---------- Rodrigues family: trace = rodrigues_cs (v/|v|) c s, hence in SO(3) ---------- *)
Ltac rod_core :=
  cs_gen;
  let n := fresh "n" in sqrt_name n;
  match goal with Hsq : n * n = ?x*?x + ?y*?y + ?z*?z, Hcs : ?c * ?c + ?s * ?s = 1 |- SO3 ?M =>
    replace M with (rodrigues_cs (x/n, y/n, z/n) c s);
    [ apply SO3_rodrigues_cs; [ apply unit_of_sqrt; assumption | assumption ]
    | rewrite <- Hsq; unfold rodrigues_cs; tuple_eq ltac:(field; assumption) ] end.
Ltac rod_so3 := open_tr; pc_facts; rod_core.
Ltac rod_se3 := open_tr; pc_facts; split; [ rod_core | reflexivity ].

Lemma C01_angvec2r : forall th v, (pc_tr_angvec2r_rad Rops th v -> SO3 (tr_angvec2r_rad Rops th v)) /\
                                  (pc_tr_angvec2r_deg Rops th v -> SO3 (tr_angvec2r_deg Rops th v)).
Proof. conjs; rod_so3. Qed.
(* the other path: a (near-)zero axis gives the identity *)
Lemma C01_angvec2r_zero_axis : forall th v, pc_tr_angvec2r_zero Rops th v -> SO3 (tr_angvec2r_zero Rops th v).
Proof. open_tr. unfold SO3. repeat split; ring. Qed.
Lemma C01_angvec2tr : forall th v, pc_tr_angvec2tr_rad Rops th v -> SE3 (tr_angvec2tr_rad Rops th v).
Proof. rod_se3. Qed.
Lemma C01_SO3_AngVec : forall th v, (pc_tr_SO3_AngVec_rad Rops th v -> SO3 (tr_SO3_AngVec_rad Rops th v)) /\
                                    (pc_tr_SO3_AngVec_deg Rops th v -> SO3 (tr_SO3_AngVec_deg Rops th v)).
Proof. conjs; rod_so3. Qed.
Lemma C01_SE3_AngVec : forall th v, (pc_tr_SE3_AngVec_rad Rops th v -> SE3 (tr_SE3_AngVec_rad Rops th v)) /\
                                    (pc_tr_SE3_AngVec_deg Rops th v -> SE3 (tr_SE3_AngVec_deg Rops th v)).
Proof. conjs; rod_se3. Qed.
Lemma C01_EulerVec : forall w, (pc_tr_SO3_EulerVec Rops w -> SO3 (tr_SO3_EulerVec Rops w)) /\
                               (pc_tr_SE3_EulerVec Rops w -> SE3 (tr_SE3_EulerVec Rops w)).
Proof. conjs; [ rod_so3 | rod_se3 ]. Qed.
Lemma C01_rodrigues : forall w, (pc_tr_rodrigues Rops w -> SO3 (tr_rodrigues Rops w)) /\
                                (pc_tr_trexp3 Rops w -> SO3 (tr_trexp3 Rops w)) /\
                                (pc_tr_SO3_Exp Rops w -> SO3 (tr_SO3_Exp Rops w)).
Proof. conjs; rod_so3. Qed.
(* rodrigues(w, theta) with theta given does not normalise: its contract is a unit axis *)
Lemma C01_rodrigues_theta_unit_axis : forall w th, normsq3 Rops w = 1 -> SO3 (tr_rodrigues_th Rops w th).
Proof. intros w th H. destruct_tuples. autounfold with smgen smlin in *. sm_simpl. cs_gen. unfold SO3. repeat split; nsatz. Qed.
Example C01_rodrigues_theta_nonvacuous : normsq3 Rops (3/5, 0, 4/5) = 1.
Proof. lin_simpl. lra. Qed.
Lemma C01_SE3_Exp : forall S, pc_tr_SE3_Exp Rops S -> SE3 (tr_SE3_Exp Rops S).
Proof. rod_se3. Qed.

(* coverage of the property's domain: every axis of length >= 1e-3 (any angle) is on the traced path *)
Lemma C01_axis_domain_on_path : forall th v, 1/1000 <= sqrt (normsq3 Rops v) ->
  pc_tr_angvec2r_rad Rops th v /\ pc_tr_angvec2r_deg Rops th v /\ pc_tr_angvec2tr_rad Rops th v /\
  pc_tr_SO3_AngVec_rad Rops th v /\ pc_tr_SO3_AngVec_deg Rops th v /\ pc_tr_SE3_AngVec_rad Rops th v /\ pc_tr_SE3_AngVec_deg Rops th v /\
  pc_tr_SO3_EulerVec Rops v /\ pc_tr_SE3_EulerVec Rops v /\ pc_tr_rodrigues Rops v /\ pc_tr_trexp3 Rops v /\ pc_tr_SO3_Exp Rops v.
Proof.
  intros th v H. destruct_tuples. autounfold with smgen smlin in *. sm_simpl.
  repeat match goal with |- _ /\ _ => split end; pc_atom.
Qed.
Example C01_axis_domain_nonvacuous : 1/1000 <= sqrt (normsq3 Rops (2, 0, 0)).
Proof. lin_simpl. replace (2*2+0*0+0*0) with (2*2) by ring. rewrite sqrt_square; lra. Qed.

Theorem C01_axis_angle_constructors : forall (th : R) (v : V3 R) (S : V6 R), 1/1000 <= sqrt (normsq3 Rops v) ->
  SO3 (tr_angvec2r_rad Rops th v) /\ SO3 (tr_angvec2r_deg Rops th v) /\ SE3 (tr_angvec2tr_rad Rops th v) /\
  SO3 (tr_SO3_AngVec_rad Rops th v) /\ SO3 (tr_SO3_AngVec_deg Rops th v) /\ SE3 (tr_SE3_AngVec_rad Rops th v) /\ SE3 (tr_SE3_AngVec_deg Rops th v) /\
  SO3 (tr_SO3_EulerVec Rops v) /\ SE3 (tr_SE3_EulerVec Rops v) /\ SO3 (tr_rodrigues Rops v) /\ SO3 (tr_trexp3 Rops v) /\ SO3 (tr_SO3_Exp Rops v) /\
  (pc_tr_SE3_Exp Rops S -> SE3 (tr_SE3_Exp Rops S)) /\
  (pc_tr_angvec2r_zero Rops th v -> SO3 (tr_angvec2r_zero Rops th v)).
Proof.
  intros th v S H. pose proof (C01_axis_domain_on_path th v H) as P. decompose [and] P.
  pose proof (C01_angvec2r th v). pose proof (C01_angvec2tr th v). pose proof (C01_SO3_AngVec th v). pose proof (C01_SE3_AngVec th v).
  pose proof (C01_EulerVec v). pose proof (C01_rodrigues v). pose proof (C01_SE3_Exp S). pose proof (C01_angvec2r_zero_axis th v).
  tauto.
Qed.
Print Assumptions C01_axis_angle_constructors.

(* ---------- two-vector frames: columns n/|n|, o'/|o'|, a/|a| with n = o x a, o' = a x n ---------- *)
Ltac inv_of e := match e with context [1 / ?p] => p end.
Ltac frame_core o a :=
  sqrt_all;
  match goal with |- SO3 ((?e0, ?e1, ?e2), _, _) =>
    let pn := inv_of e0 in let po := inv_of e1 in let pa := inv_of e2 in
    replace (SO3 _) with (SO3 (frame_cols (cross3 Rops o a) (cross3 Rops a (cross3 Rops o a)) a pn po pa));
    [ apply SO3_frame; try assumption; lin_simpl;
      match goal with H : ?n * ?n = _ |- ?n * ?n = _ => rewrite H; ring end
    | f_equal; unfold frame_cols; lin_simpl; tuple_eq ltac:(field; assumption) ] end.

Lemma C01_oa2r : forall o a, (pc_tr_oa2r Rops o a -> SO3 (tr_oa2r Rops o a)) /\ (pc_tr_SO3_OA Rops o a -> SO3 (tr_SO3_OA Rops o a)).
Proof. intros [[o0 o1] o2] [[a0 a1] a2]. split; open_tr; pc_facts; frame_core (o0,o1,o2) (a0,a1,a2). Qed.
Lemma C01_oa2tr : forall o a, (pc_tr_oa2tr Rops o a -> SE3 (tr_oa2tr Rops o a)) /\ (pc_tr_SE3_OA Rops o a -> SE3 (tr_SE3_OA Rops o a)).
Proof. intros [[o0 o1] o2] [[a0 a1] a2]. split; open_tr; pc_facts; (split; [ frame_core (o0,o1,o2) (a0,a1,a2) | reflexivity ]). Qed.
(* trnorm rebuilds the frame from the 2nd and 3rd columns of ANY matrix on the path (no hypothesis that X is nearly orthonormal) *)
Lemma C01_trnorm3 : forall X, pc_tr_trnorm3 Rops X -> SO3 (tr_trnorm3 Rops X).
Proof. intros [[[[x00 x01] x02] [[x10 x11] x12]] [[x20 x21] x22]]. open_tr. pc_facts. frame_core (x01,x11,x21) (x02,x12,x22). Qed.
Lemma C01_trnorm4 : forall X, pc_tr_trnorm4 Rops X -> SE3 (tr_trnorm4 Rops X).
Proof.
  intros [[[ [[[x00 x01] x02] x03] [[[x10 x11] x12] x13] ] [[[x20 x21] x22] x23] ] [[[x30 x31] x32] x33] ].
  open_tr. pc_facts. split; [ frame_core (x01,x11,x21) (x02,x12,x22) | reflexivity ].
Qed.
(* the path condition is met by every non-parallel pair *)
Example C01_oa_path_nonvacuous : pc_tr_oa2r Rops (0,1,0) (0,0,1).
Proof.
  autounfold with smgen. sm_simpl.
  repeat match goal with |- context [sqrt ?X] => let v := fresh in
     assert (v : sqrt X = 1) by (replace X with 1 by ring; apply sqrt_1); rewrite v; clear v end.
  repeat match goal with |- _ /\ _ => split end; pc_atom.
Qed.

(* 2-D normalisation trnorm2 (added to /repo by fix 7bb8ca6; SO2.norm() / SE2.norm() call it): the unit vector along the
   second column and its perpendicular, for ANY matrix on the path (second column not (nearly) zero) *)
Ltac so2_norm_core := sqrt_all; unfold SO2; repeat split; (field_simplify_eq; [ poly_nsatz | auto ]).
Lemma C01_trnorm2 : forall (X2 : M22 R) (X3 : M33 R),
  (pc_tr_trnorm2_so2 Rops X2 -> SO2 (tr_trnorm2_so2 Rops X2)) /\ (pc_tr_trnorm2_se2 Rops X3 -> SE2 (tr_trnorm2_se2 Rops X3)).
Proof.
  intros X2 X3. split.
  - open_tr. pc_facts. so2_norm_core.
  - open_tr. pc_facts. split; [ so2_norm_core | reflexivity ].
Qed.
Theorem C01_norm2_constructors : forall (X2 : M22 R) (X3 : M33 R),
  (pc_tr_trnorm2_so2 Rops X2 -> SO2 (tr_trnorm2_so2 Rops X2)) /\ (pc_tr_trnorm2_se2 Rops X3 -> SE2 (tr_trnorm2_se2 Rops X3)).
Proof. exact C01_trnorm2. Qed.
Print Assumptions C01_norm2_constructors.
Example C01_trnorm2_path_nonvacuous : pc_tr_trnorm2_so2 Rops ((1, 0), (0, 2)).
Proof.
  autounfold with smgen. sm_simpl.
  assert (v : sqrt (0 * 0 + 2 * 2) = 2) by (replace (0*0+2*2) with (2*2) by ring; apply sqrt_square; lra).
  rewrite v. pc_atom.
Qed.

Theorem C01_frame_constructors : forall (o a : V3 R) (X3 : M33 R) (X4 : M44 R),
  (pc_tr_oa2r Rops o a -> SO3 (tr_oa2r Rops o a)) /\ (pc_tr_SO3_OA Rops o a -> SO3 (tr_SO3_OA Rops o a)) /\
  (pc_tr_oa2tr Rops o a -> SE3 (tr_oa2tr Rops o a)) /\ (pc_tr_SE3_OA Rops o a -> SE3 (tr_SE3_OA Rops o a)) /\
  (pc_tr_trnorm3 Rops X3 -> SO3 (tr_trnorm3 Rops X3)) /\ (pc_tr_trnorm4 Rops X4 -> SE3 (tr_trnorm4 Rops X4)).
Proof.
  intros. pose proof (C01_oa2r o a). pose proof (C01_oa2tr o a). pose proof (C01_trnorm3 X3). pose proof (C01_trnorm4 X4). tauto.
Qed.
Print Assumptions C01_frame_constructors.

(* ---------- unit quaternions: the trace is y / sqrt(y.y) (possibly nested), so its norm is 1 ---------- *)
Ltac split_inv e k := match e with
  | ?y * (1 / ?m) => k y m
  | 1 / ?m * ?y => k y m end.
Ltac unit_tr_main :=
  match goal with |- UnitQ (?e0, ?e1, ?e2, ?e3) =>
    split_inv e0 ltac:(fun y0 m => split_inv e1 ltac:(fun y1 m1 => split_inv e2 ltac:(fun y2 m2 => split_inv e3 ltac:(fun y3 m3 =>
      replace (e0,e1,e2,e3) with (y0/m, y1/m, y2/m, y3/m) by (tuple_eq ltac:(field; auto));
      apply unit4_of_sqrt; [ | assumption ];
      match goal with H : m * m = _ |- _ => rewrite H; clear H end;
      repeat match goal with H : ?n * ?n = _ |- _ => rewrite <- H; clear H end;
      field; auto)))) end.
Ltac unit_poly := unfold UnitQ; first [ solve [poly_nsatz] | solve [field_simplify_eq; [ poly_nsatz | auto ]] | solve [field_simplify_eq; poly_nsatz] ].
(* the same, independent of how the quotient is written: with m the outer root (m*m = Y), the scaled entries e_i*m are the
   un-normalised components, their squares sum to Y (field), hence the squares of the e_i sum to 1 *)
Ltac unit_sem :=
  match goal with Hm : ?m * ?m = ?Y |- UnitQ (?e0, ?e1, ?e2, ?e3) =>
    let E := fresh "Esum" in
    assert (E : (e0*m)*(e0*m) + (e1*m)*(e1*m) + (e2*m)*(e2*m) + (e3*m)*(e3*m) = Y)
      by (clear Hm; repeat match goal with H : ?n * ?n = ?X |- context [?X] => rewrite <- H end; field; auto);
    rewrite <- Hm in E; unfold UnitQ;
    let F := fresh "Fsum" in
    assert (F : (e0*e0 + e1*e1 + e2*e2 + e3*e3) * (m * m) = (e0*m)*(e0*m) + (e1*m)*(e1*m) + (e2*m)*(e2*m) + (e3*m)*(e3*m)) by ring;
    rewrite E in F;
    apply (Rmult_eq_reg_r (m * m)); [ rewrite F; ring | apply Rmult_integral_contrapositive_currified; assumption ]
  end.
(* a named root m (m*m = Y, m > 0) whose radicand Y is identically 1 under the polynomial hypotheses: m*m = 1 *)
Ltac sqrt_sq_one :=
  match goal with H : ?m * ?m = ?Y |- _ =>
    let E := fresh "Eone" in
    assert (E : m * m = 1) by (rewrite H; clear H; first [ solve [poly_nsatz] | solve [field_simplify_eq; [ poly_nsatz | auto ]] ]);
    clear H end.
Ltac unit_tr := open_tr; pc_facts; cs_gen; sqrt_all; first [ unit_tr_main | unfold UnitQ; lra | unit_sem | unit_poly ].

Lemma C01_unit : forall q, pc_tr_unit Rops q -> UnitQ (tr_unit Rops q).
Proof. unit_tr. Qed.
Lemma C01_UQ_ctor : forall s v q, (pc_tr_UQ_sv Rops s v -> UnitQ (tr_UQ_sv Rops s v)) /\ (pc_tr_UQ_list Rops q -> UnitQ (tr_UQ_list Rops q)) /\
  (pc_tr_UQ_vec Rops q -> UnitQ (tr_UQ_vec Rops q)).   (* ndarray form: normalised since fix d0fc1b2 *)
Proof. conjs; unit_tr. Qed.
Lemma C01_UQ_Rxyz : forall a,
  (pc_tr_UQ_Rx_rad Rops a -> UnitQ (tr_UQ_Rx_rad Rops a)) /\ (pc_tr_UQ_Rx_deg Rops a -> UnitQ (tr_UQ_Rx_deg Rops a)) /\
  (pc_tr_UQ_Ry_rad Rops a -> UnitQ (tr_UQ_Ry_rad Rops a)) /\ (pc_tr_UQ_Ry_deg Rops a -> UnitQ (tr_UQ_Ry_deg Rops a)) /\
  (pc_tr_UQ_Rz_rad Rops a -> UnitQ (tr_UQ_Rz_rad Rops a)) /\ (pc_tr_UQ_Rz_deg Rops a -> UnitQ (tr_UQ_Rz_deg Rops a)).
Proof. conjs; unit_tr. Qed.
(* for the axis constructors the path condition holds for EVERY angle: sqrt(cos^2+sin^2) = 1 is not below 10 eps *)
Lemma C01_UQ_Rxyz_total : forall a, pc_tr_UQ_Rx_rad Rops a /\ pc_tr_UQ_Rx_deg Rops a /\ pc_tr_UQ_Ry_rad Rops a /\ pc_tr_UQ_Ry_deg Rops a /\
  pc_tr_UQ_Rz_rad Rops a /\ pc_tr_UQ_Rz_deg Rops a.
Proof.
  intros a. autounfold with smgen. sm_simpl.
  repeat match goal with |- context [sqrt (cos ?t * cos ?t + sin ?t * sin ?t)] => rewrite (cs_unit t), sqrt_1 end.
  repeat match goal with |- _ /\ _ => split end; pc_atom.
Qed.
Lemma C01_UQ_EulerVec : forall w, pc_tr_UQ_EulerVec Rops w -> UnitQ (tr_UQ_EulerVec Rops w).
Proof. open_tr. pc_facts. cs_gen. sqrt_all. sqrt_sq_one. unit_poly. Qed.

Theorem C01_unit_quaternion_constructors : forall (a s : R) (v w : V3 R) (q : V4 R),
  UnitQ (tr_UQ_Rx_rad Rops a) /\ UnitQ (tr_UQ_Rx_deg Rops a) /\ UnitQ (tr_UQ_Ry_rad Rops a) /\ UnitQ (tr_UQ_Ry_deg Rops a) /\
  UnitQ (tr_UQ_Rz_rad Rops a) /\ UnitQ (tr_UQ_Rz_deg Rops a) /\
  (pc_tr_unit Rops q -> UnitQ (tr_unit Rops q)) /\ (pc_tr_UQ_sv Rops s v -> UnitQ (tr_UQ_sv Rops s v)) /\
  (pc_tr_UQ_list Rops q -> UnitQ (tr_UQ_list Rops q)) /\ (pc_tr_UQ_vec Rops q -> UnitQ (tr_UQ_vec Rops q)) /\
  (pc_tr_UQ_EulerVec Rops w -> UnitQ (tr_UQ_EulerVec Rops w)).
Proof.
  intros. pose proof (C01_UQ_Rxyz a). pose proof (C01_UQ_Rxyz_total a). pose proof (C01_unit q). pose proof (C01_UQ_ctor s v q).
  pose proof (C01_UQ_EulerVec w). tauto.
Qed.
Print Assumptions C01_unit_quaternion_constructors.
(* the normalising path is taken by every quaternion that is not (nearly) zero *)
Example C01_unit_path_nonvacuous : pc_tr_unit Rops (3, 0, 4, 0) /\ pc_tr_UQ_sv Rops 3 (0, 4, 0).
Proof.
  autounfold with smgen. sm_simpl.
  repeat match goal with |- context [sqrt ?X] => let v := fresh in
     assert (v : sqrt X = 5) by (replace X with (5*5) by ring; apply sqrt_square; lra); rewrite v; clear v end.
  repeat match goal with |- _ /\ _ => split end; pc_atom.
Qed.

(* ---------- UnitQuaternion.AngVec: (cos(th/2), sin(th/2) v/|v|) -- the axis is normalised (repaired in /repo by
   50fbf86; before, the trace used v as given and the statement below was refuted by th = pi, v = (2,0,0)) ---------- *)
Lemma C01_UQ_AngVec : forall th v,
  (pc_tr_UQ_AngVec_rad Rops th v -> UnitQ (tr_UQ_AngVec_rad Rops th v)) /\
  (pc_tr_UQ_AngVec_deg Rops th v -> UnitQ (tr_UQ_AngVec_deg Rops th v)) /\
  (pc_tr_UQ_AngVec_zero Rops th v -> UnitQ (tr_UQ_AngVec_zero Rops th v)).
Proof. conjs; unit_tr. Qed.
Lemma C01_UQ_AngVec_domain_on_path : forall th v, 1/1000 <= sqrt (normsq3 Rops v) ->
  pc_tr_UQ_AngVec_rad Rops th v /\ pc_tr_UQ_AngVec_deg Rops th v.
Proof.
  intros th v H. destruct_tuples. autounfold with smgen smlin in *. sm_simpl.
  repeat match goal with |- _ /\ _ => split end; pc_atom.
Qed.
(* full strength: every axis of the property's domain (any length >= 1e-3), every angle, both units; zero axis -> identity *)
Theorem C01_UQ_AngVec_closed : forall th v,
  (1/1000 <= sqrt (normsq3 Rops v) -> UnitQ (tr_UQ_AngVec_rad Rops th v) /\ UnitQ (tr_UQ_AngVec_deg Rops th v)) /\
  (pc_tr_UQ_AngVec_zero Rops th v -> UnitQ (tr_UQ_AngVec_zero Rops th v)).
Proof.
  intros th v. pose proof (C01_UQ_AngVec th v) as (A & B & C). split; [|exact C].
  intros H. destruct (C01_UQ_AngVec_domain_on_path th v H). split; auto.
Qed.
Print Assumptions C01_UQ_AngVec_closed.
(* the former counterexample is inside the domain *)
Example C01_UQ_AngVec_nonvacuous : 1/1000 <= sqrt (normsq3 Rops (2, 0, 0)) /\ UnitQ (tr_UQ_AngVec_rad Rops PI (2, 0, 0)).
Proof.
  assert (H : 1/1000 <= sqrt (normsq3 Rops (2, 0, 0))) by
    (lin_simpl; replace (2*2+0*0+0*0) with (2*2) by ring; rewrite sqrt_square; lra).
  split; [exact H|]. apply (C01_UQ_AngVec_closed PI (2,0,0)). exact H.
Qed.

(* ---------- operators through the UnitQuaternion class: * / inv ** re-normalise their result ---------- *)
Lemma C01_UQ_mul_div_inv : forall p q,
  (pc_tr_UQ_mul Rops p q -> UnitQ (tr_UQ_mul Rops p q)) /\ (pc_tr_UQ_div Rops p q -> UnitQ (tr_UQ_div Rops p q)) /\
  (pc_tr_UQ_inv Rops q -> UnitQ (tr_UQ_inv Rops q)).
Proof. conjs; unit_tr. Qed.
Lemma C01_UQ_pow : forall q,
  (pc_tr_UQ_pow0 Rops q -> UnitQ (tr_UQ_pow0 Rops q)) /\ (pc_tr_UQ_pow1 Rops q -> UnitQ (tr_UQ_pow1 Rops q)) /\
  (pc_tr_UQ_pow2 Rops q -> UnitQ (tr_UQ_pow2 Rops q)) /\ (pc_tr_UQ_pow3 Rops q -> UnitQ (tr_UQ_pow3 Rops q)) /\
  (pc_tr_UQ_powm1 Rops q -> UnitQ (tr_UQ_powm1 Rops q)) /\ (pc_tr_UQ_powm2 Rops q -> UnitQ (tr_UQ_powm2 Rops q)).
Proof. conjs; unit_tr. Qed.
(* the kernels themselves preserve the unit norm exactly (no renormalisation needed in L-real) *)
Lemma C01_qqmul_conj_unit : forall p q, UnitQ p -> UnitQ q -> UnitQ (tr_qqmul Rops p q) /\ UnitQ (tr_conj Rops q).
Proof. intros p q Hp Hq. destruct_tuples. unfold UnitQ in *. autounfold with smgen. sm_simpl. split; nsatz. Qed.

Theorem C01_unit_quaternion_operators : forall p q : V4 R,
  (UnitQ p -> UnitQ q -> UnitQ (tr_qqmul Rops p q) /\ UnitQ (tr_conj Rops q)) /\
  (pc_tr_UQ_mul Rops p q -> UnitQ (tr_UQ_mul Rops p q)) /\ (pc_tr_UQ_div Rops p q -> UnitQ (tr_UQ_div Rops p q)) /\
  (pc_tr_UQ_inv Rops q -> UnitQ (tr_UQ_inv Rops q)) /\
  (pc_tr_UQ_pow0 Rops q -> UnitQ (tr_UQ_pow0 Rops q)) /\ (pc_tr_UQ_pow1 Rops q -> UnitQ (tr_UQ_pow1 Rops q)) /\
  (pc_tr_UQ_pow2 Rops q -> UnitQ (tr_UQ_pow2 Rops q)) /\ (pc_tr_UQ_pow3 Rops q -> UnitQ (tr_UQ_pow3 Rops q)) /\
  (pc_tr_UQ_powm1 Rops q -> UnitQ (tr_UQ_powm1 Rops q)) /\ (pc_tr_UQ_powm2 Rops q -> UnitQ (tr_UQ_powm2 Rops q)).
Proof.
  intros. pose proof (C01_UQ_mul_div_inv p q). pose proof (C01_UQ_pow q). pose proof (C01_qqmul_conj_unit p q). tauto.
Qed.
Print Assumptions C01_unit_quaternion_operators.
Example C01_unit_operands_nonvacuous : UnitQ (3/5, 0, 4/5, 0) /\ UnitQ (0, 0, 0, 1).
Proof. unfold UnitQ. split; lra. Qed.

(* ---------- random members as functions of their uniform variates u in [0,1]^3 ---------- *)
Lemma C01_rand_unit : forall u, 0 <= fst (fst u) <= 1 -> UnitQ (tr_rand Rops u).
Proof. open_tr. pc_facts. cs_gen. repeat (let n := fresh "n" in sqrt_nonneg n). unfold UnitQ. poly_nsatz. Qed.
Lemma C01_UQ_Rand_unit : forall u, 0 <= fst (fst u) <= 1 -> pc_tr_UQ_Rand Rops u -> UnitQ (tr_UQ_Rand Rops u).
Proof. open_tr. pc_facts. cs_gen. sqrt_all. sqrt_sq_one. repeat (let n := fresh "n" in sqrt_nonneg n). unit_poly. Qed.
Lemma C01_SO3_Rand_SO3 : forall u, 0 <= fst (fst u) <= 1 -> SO3 (tr_SO3_Rand Rops u).
Proof. open_tr. pc_facts. cs_gen. repeat (let n := fresh "n" in sqrt_nonneg n). unfold SO3. repeat split; poly_nsatz. Qed.

Theorem C01_random_members : forall u : V3 R, 0 <= fst (fst u) <= 1 ->
  UnitQ (tr_rand Rops u) /\ (pc_tr_UQ_Rand Rops u -> UnitQ (tr_UQ_Rand Rops u)) /\ SO3 (tr_SO3_Rand Rops u).
Proof. intros u H. pose proof (C01_rand_unit u H). pose proof (C01_UQ_Rand_unit u H). pose proof (C01_SO3_Rand_SO3 u H). tauto. Qed.
Print Assumptions C01_random_members.
Example C01_random_nonvacuous : 0 <= fst (fst (1/4, 1/3, 1/2)) <= 1.
Proof. simpl. lra. Qed.
