(* C19 (a) -- Pluecker lines: constructors, Pluecker constraint, incidence of the defining points, principal point,
   point(lam), closest(x).
   Statements are fixed; the tr_* / pc_* definitions are regenerated from /repo/spatialmath/geom3d.py on every run (the
   library itself executed on symbols; pc_* are the comparisons the code made on the traced path: a strict test <-> 0 < pc, a non-strict one (unitvec: n >= 10 eps) <-> 0 <= pc).
   Conventions of the code (proved below): a line is the 6-vector (v, w), w its direction, v = w x (point on the line);
   x lies on the line iff  w x x = v. *)
From Coq Require Import Reals ZArith Lra Lia Nsatz Psatz.
From SM Require Import Base.Ops Base.Lin Base.RInst Base.RLin.
From SMgen Require Import Traces_C19.
Open Scope R_scope.

Definition lv (L : V6 R) : V3 R := let '(a,b,c,_,_,_) := L in (a,b,c).
Definition lw (L : V6 R) : V3 R := let '(_,_,_,d,e,f) := L in (d,e,f).
Definition mk6 (v w : V3 R) : V6 R := let '(a,b,c) := v in let '(d,e,f) := w in (a,b,c,d,e,f).
Definition is_line (L : V6 R) : Prop := dot3 Rops (lv L) (lw L) = 0.

Ltac unf := unfold is_line in *; autounfold with smgen smlin in *; unfold lv, lw, mk6 in *; sm_simpl.
Ltac gen_ring := intros; destruct_tuples; unf; tuple_eq ltac:(ring).

Ltac sq_nonneg :=
  lazymatch goal with
  | |- 0 <= ?a + ?b => apply Rplus_le_le_0_compat; sq_nonneg
  | |- 0 <= ?x * ?x => apply Rle_0_sqr
  | |- _ => nra
  end.
(* abstract every sqrt: s with s*s = e, 0 <= s *)
Ltac abs_sqrt :=
  repeat match goal with
  | |- context [sqrt ?e] =>
      let s := fresh "s" in let H1 := fresh "Hss" in let H2 := fresh "Hs0" in let Hq := fresh "Hq" in
      assert (H1 : sqrt e * sqrt e = e) by (apply sqrt_sqrt; sq_nonneg);
      pose proof (sqrt_pos e) as H2;
      remember (sqrt e) as s eqn:Hq; clear Hq
  | H : context [sqrt ?e] |- _ =>
      let s := fresh "s" in let H1 := fresh "Hss" in let H2 := fresh "Hs0" in let Hq := fresh "Hq" in
      assert (H1 : sqrt e * sqrt e = e) by (apply sqrt_sqrt; sq_nonneg);
      pose proof (sqrt_pos e) as H2;
      remember (sqrt e) as s eqn:Hq; clear Hq
  end.
Ltac nz := assumption || lra || nra.
(* abstract every reciprocal 1/d: i with i*d = 1 *)
Ltac abs_inv :=
  repeat match goal with
  | |- context [1 / ?d] =>
      let i := fresh "i" in let Hi := fresh "Hi" in let Hq := fresh "Hq" in
      assert (Hi : (1 / d) * d = 1) by (field; nz);
      remember (1 / d) as i eqn:Hq; clear Hq
  | H : context [1 / ?d] |- _ =>
      let i := fresh "i" in let Hi := fresh "Hi" in let Hq := fresh "Hq" in
      assert (Hi : (1 / d) * d = 1) by (field; nz);
      remember (1 / d) as i eqn:Hq; clear Hq
  end.
Ltac fld := field; repeat split; nz.
(* nsatz is confused by order hypotheses: keep equalities only *)
Ltac nsz := repeat match goal with H : _ <= _ |- _ => clear H | H : _ < _ |- _ => clear H | H : _ <> _ |- _ => clear H end; nsatz.
(* from a taken test  sqrt e > c  (c a positive literal): 0 < sqrt e, e <> 0 *)
Ltac pos_sqrt :=
  repeat match goal with
  | H : 0 < _ + ?s, Hss : ?s * ?s = ?e |- _ =>
      lazymatch goal with
      | _ : 0 < s |- _ => fail
      | _ => assert (0 < s) by lra; assert (e <> 0) by nra
      end
  | H : 0 <= _ + ?s, Hss : ?s * ?s = ?e |- _ =>
      lazymatch goal with
      | _ : 0 < s |- _ => fail
      | _ => assert (0 < s) by lra; assert (e <> 0) by nra
      end
  end.

Definition plane_res (a : V4 R) (x : V3 R) : R := let '(a0,a1,a2,a3) := a in let '(x0,x1,x2) := x in a0*x0 + a1*x1 + a2*x2 + a3.
Definition pn (a : V4 R) : V3 R := let '(a0,a1,a2,_) := a in (a0,a1,a2).
Definition pd (a : V4 R) : R := let '(_,_,_,a3) := a in a3.
Ltac unf2 := unfold plane_res, pn, pd in *; unf.

(* 1. direction and moment satisfy the Pluecker constraint, for every constructor *)
Theorem C19_plucker_constraint : forall (P Q p d : V3 R) (a b : V4 R),
  is_line (tr_PQ Rops P Q) /\ is_line (tr_PointDir Rops p d) /\ is_line (tr_Planes Rops a b).
Proof. intros; destruct_tuples; unf; repeat split; ring. Qed.
Print Assumptions C19_plucker_constraint.

(* 2. what the constructors store: direction w and moment v = w x (point on the line) *)
Theorem C19_constructor_data : forall (P Q p d : V3 R) (a b : V4 R),
  tr_PQ Rops P Q = mk6 (cross3 Rops (vsub3 Rops P Q) P) (vsub3 Rops P Q) /\
  tr_PointDir Rops p d = mk6 (cross3 Rops d p) d /\
  tr_Planes Rops a b = mk6 (vsub3 Rops (vscale3 Rops (pd b) (pn a)) (vscale3 Rops (pd a) (pn b))) (cross3 Rops (pn a) (pn b)) /\
  tr_Planes_raw Rops a b = tr_Planes Rops a b.
Proof. intros; repeat split; destruct_tuples; unf2; tuple_eq ltac:(ring). Qed.
Print Assumptions C19_constructor_data.

(* 3. incidence of the defining points: x is on the line (v,w) iff w x x = v *)
Theorem C19_defining_points_incident : forall (P Q p d : V3 R) (t : R),
  cross3 Rops (lw (tr_PQ Rops P Q)) P = lv (tr_PQ Rops P Q) /\
  cross3 Rops (lw (tr_PQ Rops P Q)) Q = lv (tr_PQ Rops P Q) /\
  cross3 Rops (lw (tr_PointDir Rops p d)) (vadd3 Rops p (vscale3 Rops t d)) = lv (tr_PointDir Rops p d).
Proof. intros; repeat split; destruct_tuples; unf; tuple_eq ltac:(ring). Qed.
Print Assumptions C19_defining_points_incident.

(* 4. the residual contains() compares with its tolerance is the distance-like quantity |w x x - v| *)
Theorem C19_contains_residual : forall (L : V6 R) (x : V3 R), normsq3 Rops (lw L) <> 0 -> is_line L ->
  tr_contains_res Rops L x = sqrt (normsq3 Rops (vsub3 Rops (cross3 Rops (lw L) x) (lv L))).
Proof. intros L x Hw HL; destruct_tuples; unf. f_equal. abs_inv. nsatz. Qed.
Print Assumptions C19_contains_residual.

Theorem C19_contains_defining_points : forall (P Q p d : V3 R) (t : R),
  (normsq3 Rops (vsub3 Rops P Q) <> 0 ->
     tr_contains_res Rops (tr_PQ Rops P Q) P = 0 /\ tr_contains_res Rops (tr_PQ Rops P Q) Q = 0) /\
  (normsq3 Rops d <> 0 -> tr_contains_res Rops (tr_PointDir Rops p d) (vadd3 Rops p (vscale3 Rops t d)) = 0).
Proof.
  intros P Q p d t. destruct (C19_plucker_constraint P Q p d (0,0,0,0) (0,0,0,0)) as (H1 & H2 & _).
  destruct (C19_defining_points_incident P Q p d t) as (I1 & I2 & I3).
  assert (Z : sqrt (normsq3 Rops (0,0,0)) = 0) by (unf; replace (0*0+0*0+0*0) with 0 by ring; apply sqrt_0).
  assert (S : forall v : V3 R, vsub3 Rops v v = (0,0,0)) by (intros; destruct_tuples; unf; tuple_eq ltac:(ring)).
  assert (WPQ : lw (tr_PQ Rops P Q) = vsub3 Rops P Q) by (destruct_tuples; unf; tuple_eq ltac:(ring)).
  assert (WPD : lw (tr_PointDir Rops p d) = d) by (destruct_tuples; unf; tuple_eq ltac:(ring)).
  split.
  - intros Hw. rewrite <- WPQ in Hw. split; rewrite (C19_contains_residual _ _ Hw H1); [rewrite I1 | rewrite I2]; rewrite S; exact Z.
  - intros Hw. rewrite <- WPD in Hw. rewrite (C19_contains_residual _ _ Hw H2), I3, S. exact Z.
Qed.
Print Assumptions C19_contains_defining_points.

(* 5. a line built from two planes lies in both planes *)
Theorem C19_planes_line_in_planes : forall (a b : V4 R) (k : R), 0 <= pc_point_0 Rops (tr_Planes Rops a b) k ->
  plane_res a (tr_point Rops (tr_Planes Rops a b) k) = 0 /\ plane_res b (tr_point Rops (tr_Planes Rops a b) k) = 0.
Proof.
  intros a b k H; destruct_tuples; unf2. abs_sqrt. pos_sqrt. abs_inv. split; nsatz.
Qed.
Print Assumptions C19_planes_line_in_planes.

(* 6. principal point *)
Theorem C19_pp_orthogonal : forall L : V6 R, normsq3 Rops (lw L) <> 0 -> dot3 Rops (tr_pp Rops L) (lw L) = 0.
Proof. intros; destruct_tuples; unf. abs_inv. nsatz. Qed.
Print Assumptions C19_pp_orthogonal.

Theorem C19_pp_on_line : forall L : V6 R, normsq3 Rops (lw L) <> 0 -> is_line L ->
  cross3 Rops (lw L) (tr_pp Rops L) = lv L.
Proof. intros L Hw HL; destruct_tuples; unf. abs_inv. tuple_eq ltac:(nsatz). Qed.
Print Assumptions C19_pp_on_line.

Theorem C19_pp_closest_to_origin : forall (L : V6 R) (x : V3 R), normsq3 Rops (lw L) <> 0 -> is_line L ->
  cross3 Rops (lw L) x = lv L ->
  normsq3 Rops x = normsq3 Rops (tr_pp Rops L) + normsq3 Rops (vsub3 Rops x (tr_pp Rops L)) /\
  normsq3 Rops (tr_pp Rops L) <= normsq3 Rops x.
Proof.
  intros L x Hw HL Hx. destruct_tuples. unf. injection Hx; clear Hx; intros E3 E2 E1. subst.
  abs_inv.
  match goal with |- ?A = ?B + ?C /\ _ => assert (EQ : A = B + C) by nsatz; split; [exact EQ|]; assert (0 <= C) by sq_nonneg; lra end.
Qed.
Print Assumptions C19_pp_closest_to_origin.

Theorem C19_ppd_is_norm_pp : forall L : V6 R, normsq3 Rops (lw L) <> 0 -> is_line L ->
  tr_ppd Rops L = sqrt (normsq3 Rops (tr_pp Rops L)).
Proof.
  intros L Hw HL. destruct_tuples. unf.
  match goal with |- sqrt ?a * (1 / sqrt ?b) = sqrt ?c =>
    assert (Ha : 0 <= a) by nra; assert (Hb : 0 < b) by nra;
    assert (E : c = a * (1 / b)) by (clear Ha Hb; abs_inv; nsatz);
    rewrite E; unfold Rdiv; rewrite !Rmult_1_l, sqrt_mult_alt by exact Ha; rewrite sqrt_inv by exact Hb; reflexivity end.
Qed.
Print Assumptions C19_ppd_is_norm_pp.

(* 7. point(lam): unit-speed parametrisation starting at the principal point; on the line *)
Theorem C19_point_param : forall (L : V6 R) (k : R), 0 <= pc_point_0 Rops L k ->
  tr_point Rops L k = vadd3 Rops (tr_pp Rops L) (vscale3 Rops (k / sqrt (normsq3 Rops (lw L))) (lw L)).
Proof.
  intros L k H; destruct_tuples; unf. abs_sqrt. pos_sqrt. tuple_eq ltac:(fld).
Qed.
Print Assumptions C19_point_param.

Theorem C19_point_on_line : forall (L : V6 R) (k : R), 0 <= pc_point_0 Rops L k -> is_line L ->
  cross3 Rops (lw L) (tr_point Rops L k) = lv L /\ normsq3 Rops (vsub3 Rops (tr_point Rops L k) (tr_pp Rops L)) = k * k.
Proof.
  intros L k H HL; destruct_tuples; unf. abs_sqrt. pos_sqrt. abs_inv. split; [tuple_eq ltac:(nsz) | nsz].
Qed.
Print Assumptions C19_point_on_line.

(* 8. closest(x): orthogonal projection, with the reported distance and parameter *)
Theorem C19_closest_is_projection : forall (L : V6 R) (x : V3 R), 0 <= pc_closest_0 Rops L x ->
  let p := tr_closest_p Rops L x in let lam := tr_closest_lam Rops L x in let d := tr_closest_d Rops L x in
  p = tr_point Rops L lam /\ lam = dot3 Rops (vsub3 Rops x (tr_pp Rops L)) (lw L) / sqrt (normsq3 Rops (lw L)) /\ dot3 Rops (vsub3 Rops x p) (lw L) = 0 /\ d = sqrt (normsq3 Rops (vsub3 Rops x p)).
Proof.
  intros L x H; destruct_tuples; unf. repeat split; [ | | | f_equal]; abs_sqrt; pos_sqrt.
  - tuple_eq ltac:(fld).
  - fld.
  - abs_inv. nsz.
  - fld.
Qed.
Print Assumptions C19_closest_is_projection.

Theorem C19_closest_minimal : forall (L : V6 R) (x : V3 R) (k : R), 0 <= pc_closest_0 Rops L x ->
  let p := tr_closest_p Rops L x in let lam := tr_closest_lam Rops L x in
  normsq3 Rops (vsub3 Rops x (tr_point Rops L k)) = normsq3 Rops (vsub3 Rops x p) + (k - lam) * (k - lam) /\ normsq3 Rops (vsub3 Rops x p) <= normsq3 Rops (vsub3 Rops x (tr_point Rops L k)).
Proof.
  intros L x k H; destruct_tuples; unf. abs_sqrt. pos_sqrt. abs_inv.
  match goal with |- ?A = ?B + ?C /\ _ => assert (EQ : A = B + C) by nsz; split; [exact EQ|]; assert (0 <= C) by sq_nonneg; lra end.
Qed.
Print Assumptions C19_closest_minimal.

(* non-vacuity: the line through (0,0,1) along x, a point off it, two non-parallel planes *)
Example C19_a_nonvacuous :
  let L := (0, -1, 0, 1, 0, 0) in
  is_line L /\ normsq3 Rops (lw L) <> 0 /\ 0 <= pc_point_0 Rops L 2 /\ 0 <= pc_closest_0 Rops L (1,2,3) /\
  cross3 Rops (lw L) (5,0,1) = lv L /\ tr_pp Rops L = (0,0,1) /\
  0 <= pc_point_0 Rops (tr_Planes Rops (1,0,0,-1) (0,1,0,-2)) 3 /\
  normsq3 Rops (vsub3 Rops (1,2,3) (4,-1,2)) <> 0.
Proof.
  unf. replace (1*1+0*0+0*0) with 1 by ring.
  replace ((0 * 0 + -1 * 0 * 1) * (0 * 0 + -1 * 0 * 1) + (0 * 0 + -1 * 1 * 0) * (0 * 0 + -1 * 1 * 0) + (1 * 1 + -1 * 0 * 0) * (1 * 1 + -1 * 0 * 0)) with 1 by ring.
  rewrite sqrt_1. repeat split; try lra; try (tuple_eq ltac:(field)).
Qed.
