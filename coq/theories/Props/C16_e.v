(* C16 (e) -- simplify() on generic symbolic / mixed pose values, and pose OP scalar with a symbolic / mixed scalar.
   simplify() must be the identity on VALUES (in particular it must keep a non-zero translation); on a matrix of plain
   symbols it must return the matrix itself (conversion, abstract ops record).
   pose * s, s * pose, pose / s, pose + s, s + pose, pose - s, s - pose with a SymPy scalar s act elementwise on the matrix
   exactly as with a numeric scalar ("accepts the same call forms as the numeric path"). *)
From Coq Require Import Reals ZArith Lra List.
From SM Require Import Base.Ops Base.Lin Base.RInst Base.RLin Model.C16_struct Model.C16_ref.
From SMgen Require Import Traces_C16.
Import ListNotations.
Open Scope R_scope.

Ltac gen_unf := intros; destruct_tuples; autounfold with smgen smref smlin; sm_simpl.
Ltac gen_ring := gen_unf; tuple_eq ltac:(ring).
Ltac gen_field := gen_unf; tuple_eq ltac:(field; assumption).

(* ------------------------------------------------------------------ simplify *)
Theorem C16_simplify_generic_identity : forall (T : Type) (O : ops T) (X Y : M44 T) (E F : M33 T) (Rm : M33 T) (A : M22 T),
  tr_simplify_SE3 O X = as_pose4 O X /\ tr_simplify_SE3_seq O X Y = as_pose4 O Y /\
  tr_simplify_SE2 O E = as_pose3 O E /\ tr_simplify_SE2_seq O E F = as_pose3 O F /\
  tr_simplify_SO3 O Rm = Rm /\ tr_simplify_SO2 O A = A /\
  (* in particular the translation survives *)
  transl3 (tr_simplify_SE3 O X) = transl3 X /\ transl2 (tr_simplify_SE2 O E) = transl2 E.
Proof. intros; destruct_tuples; repeat split; reflexivity. Qed.
Print Assumptions C16_simplify_generic_identity.

Theorem C16_simplify_mixed_value : forall a x z : R,
  tr_simplify_Rx_t Rops a x z = tr_SE3_Rx_t Rops a (x,2,z).
Proof. gen_ring. Qed.
Print Assumptions C16_simplify_mixed_value.

Theorem C16_simplify_mixed_structural : forall (T : Type) (O : ops T) (a x z : T),
  matches O (hom44 pat_rotx txxx) (fl44 (tr_simplify_Rx_t O a x z)) /\
  (let '(t0,_,t2) := transl3 (tr_simplify_Rx_t O a x z) in (t0,t2)) = (x,z).
Proof. intros; repeat split; reflexivity. Qed.
Print Assumptions C16_simplify_mixed_structural.

(* ------------------------------------------------------------------ pose OP scalar, SE3 *)
Theorem C16_SE3_scalar_value : forall (X : M44 R) (s : R),
  tr_SE3_smul Rops X s = mmap44 (fun x => x * s) (as_pose4 Rops X) /\
  tr_SE3_srmul Rops X s = mmap44 (fun x => s * x) (as_pose4 Rops X) /\
  tr_SE3_sadd Rops X s = mmap44 (fun x => x + s) (as_pose4 Rops X) /\
  tr_SE3_sradd Rops X s = mmap44 (fun x => s + x) (as_pose4 Rops X) /\
  tr_SE3_ssub Rops X s = mmap44 (fun x => x - s) (as_pose4 Rops X) /\
  tr_SE3_srsub Rops X s = mmap44 (fun x => s - x) (as_pose4 Rops X).
Proof. intros; repeat split; gen_ring. Qed.
Print Assumptions C16_SE3_scalar_value.

Theorem C16_SE3_scalar_div_value : forall (X : M44 R) (s : R), s <> 0 ->
  tr_SE3_sdiv Rops X s = mmap44 (fun x => x / s) (as_pose4 Rops X).
Proof. intros X s Hs. gen_field. Qed.
Print Assumptions C16_SE3_scalar_div_value.
Example C16_scalar_div_nonvacuous : (2 : R) <> 0. Proof. lra. Qed.

(* scaling keeps the structural zeros of the last row; s*X is the same array as X*s *)
Theorem C16_SE3_scalar_structural : forall (T : Type) (O : ops T) (X : M44 T) (s : T),
  matches O [Px;Px;Px;Px; Px;Px;Px;Px; Px;Px;Px;Px; P0;P0;P0;Px] (fl44 (tr_SE3_smul O X s)) /\
  matches O [Px;Px;Px;Px; Px;Px;Px;Px; Px;Px;Px;Px; P0;P0;P0;Px] (fl44 (tr_SE3_sdiv O X s)) /\
  tr_SE3_srmul O X s = tr_SE3_smul O X s /\ tr_SE3_sradd O X s = tr_SE3_sadd O X s /\
  lastrow4 (tr_SE3_smul O X s) = (zero O, zero O, zero O, s).
Proof. intros; destruct_tuples; repeat split; reflexivity. Qed.
Print Assumptions C16_SE3_scalar_structural.

(* mixed: numeric scalar / symbolic pose, expression scalar, sequence, numeric pose / symbolic scalar *)
Theorem C16_SE3_scalar_mixed : forall (X Y : M44 R) (s : R),
  tr_SE3_smul_05 Rops X = tr_SE3_smul Rops X (1/2) /\ tr_SE3_srmul_05 Rops X = tr_SE3_srmul Rops X (1/2) /\
  tr_SE3_sdiv_05 Rops X = tr_SE3_sdiv Rops X (1/2) /\
  tr_SE3_sadd_05 Rops X = tr_SE3_sadd Rops X (1/2) /\ tr_SE3_sradd_05 Rops X = tr_SE3_sradd Rops X (1/2) /\
  tr_SE3_ssub_05 Rops X = tr_SE3_ssub Rops X (1/2) /\ tr_SE3_srsub_05 Rops X = tr_SE3_srsub Rops X (1/2) /\
  tr_SE3_smul_expr Rops X s = tr_SE3_smul Rops X (s + 1) /\
  tr_SE3_smul_seq Rops X Y s = tr_SE3_smul Rops Y s /\
  tr_SE3_num_smul Rops s = tr_SE3_smul Rops (rt2tr3 Rops (rotx_cs Rops (k_cos03 Rops) (k_sin03 Rops)) (1,2,3)) s.
Proof. intros; repeat split; gen_unf; tuple_eq ltac:(field). Qed.
Print Assumptions C16_SE3_scalar_mixed.

(* ------------------------------------------------------------------ pose OP scalar, SO3 / SE2 / SO2 *)
Theorem C16_SO3_SE2_SO2_scalar_value : forall (Rm : M33 R) (E : M33 R) (A : M22 R) (s : R),
  tr_SO3_smul Rops Rm s = mmap33 (fun x => x * s) Rm /\ tr_SO3_srmul Rops Rm s = mmap33 (fun x => s * x) Rm /\
  tr_SO3_sadd Rops Rm s = mmap33 (fun x => x + s) Rm /\ tr_SO3_sradd Rops Rm s = mmap33 (fun x => s + x) Rm /\
  tr_SO3_ssub Rops Rm s = mmap33 (fun x => x - s) Rm /\ tr_SO3_srsub Rops Rm s = mmap33 (fun x => s - x) Rm /\
  tr_SE2_smul Rops E s = mmap33 (fun x => x * s) (as_pose3 Rops E) /\ tr_SE2_srmul Rops E s = mmap33 (fun x => s * x) (as_pose3 Rops E) /\
  tr_SE2_sadd Rops E s = mmap33 (fun x => x + s) (as_pose3 Rops E) /\ tr_SE2_sradd Rops E s = mmap33 (fun x => s + x) (as_pose3 Rops E) /\
  tr_SE2_ssub Rops E s = mmap33 (fun x => x - s) (as_pose3 Rops E) /\ tr_SE2_srsub Rops E s = mmap33 (fun x => s - x) (as_pose3 Rops E) /\
  tr_SO2_smul Rops A s = mmap22 (fun x => x * s) A /\ tr_SO2_srmul Rops A s = mmap22 (fun x => s * x) A /\
  tr_SO2_sadd Rops A s = mmap22 (fun x => x + s) A /\ tr_SO2_sradd Rops A s = mmap22 (fun x => s + x) A /\
  tr_SO2_ssub Rops A s = mmap22 (fun x => x - s) A /\ tr_SO2_srsub Rops A s = mmap22 (fun x => s - x) A.
Proof. intros; repeat split; gen_ring. Qed.
Print Assumptions C16_SO3_SE2_SO2_scalar_value.

Theorem C16_SO3_SE2_SO2_scalar_div_value : forall (Rm : M33 R) (E : M33 R) (A : M22 R) (s : R), s <> 0 ->
  tr_SO3_sdiv Rops Rm s = mmap33 (fun x => x / s) Rm /\ tr_SE2_sdiv Rops E s = mmap33 (fun x => x / s) (as_pose3 Rops E) /\
  tr_SO2_sdiv Rops A s = mmap22 (fun x => x / s) A.
Proof. intros Rm E A s Hs. repeat split; gen_field. Qed.
Print Assumptions C16_SO3_SE2_SO2_scalar_div_value.
