(* C02 (part a) -- group laws of the 3-D pose classes SO3 and SE3 and of base.trinv.
   Statements are fixed; every tr_* definition is regenerated from /repo on each run by executing the
   class-level operators (`*`, `/`, `.inv()`, default constructor) on symbolic matrices.
   An SE3 operand is a matrix whose last row is the constant (0,0,0,1) with ARBITRARY R and t (aff4 X);
   the laws that are ring identities are therefore proved for all matrices, the inverse laws under SO(3). *)
From Coq Require Import Reals ZArith Lra Lia Nsatz.
From SM Require Import Base.Ops Base.Lin Base.RInst Base.RLin Model.C02_Pow.
From SMgen Require Import Traces_C02.
Open Scope R_scope.

Ltac gen_unfold := autounfold with smgen smlin c02 in *; sm_simpl.
Ltac gen_ring := cbv zeta; intros; destruct_tuples; unfold trinv_ref; gen_unfold; tuple_eq ltac:(ring).

(* only the facts nsatz needs for adjugate/determinant goals: every entry equals its cofactor, det = 1 *)
Ltac so3_cof H :=
  let C := fresh "Hcof" in
  pose proof (SO3_cofactors _ _ _ _ _ _ _ _ _ H) as C; unfold SO3 in H;
  let D := fresh "Hdet" in destruct H as (_&_&_&_&_&_&D); decompose [and] C; clear C.

(* ================================================================== SO3 *)
Theorem C02_SO3_mul_is_matmul : forall X Y : M33 R, tr_SO3_mul Rops X Y = mmul33 Rops X Y.
Proof. gen_ring. Qed.
Print Assumptions C02_SO3_mul_is_matmul.

(* associativity, for ALL 3x3 matrices: composition of the traced operator, and the two whole expressions
   (X*Y)*Z, X*(Y*Z) traced through the class (intermediate objects included) *)
Theorem C02_SO3_assoc : forall X Y Z : M33 R,
  tr_SO3_mul Rops (tr_SO3_mul Rops X Y) Z = tr_SO3_mul Rops X (tr_SO3_mul Rops Y Z) /\
  tr_SO3_assoc_l Rops X Y Z = tr_SO3_assoc_r Rops X Y Z /\
  tr_SO3_assoc_l Rops X Y Z = tr_SO3_mul Rops (tr_SO3_mul Rops X Y) Z.
Proof. intros; repeat split; gen_ring. Qed.
Print Assumptions C02_SO3_assoc.

(* the default-constructed object is a two-sided identity, for ALL matrices *)
Theorem C02_SO3_identity : forall X : M33 R, tr_SO3_id_r Rops X = X /\ tr_SO3_id_l Rops X = X.
Proof. intros; split; gen_ring. Qed.
Print Assumptions C02_SO3_identity.

Theorem C02_SO3_inv_is_transpose : forall X : M33 R, tr_SO3_inv Rops X = mtr33 X.
Proof. gen_ring. Qed.
Print Assumptions C02_SO3_inv_is_transpose.

(* defect form, ALL matrices: X * X.inv() is exactly X X' (so the residual is the orthogonality defect of X) *)
Theorem C02_SO3_inverse_defect : forall X : M33 R,
  tr_SO3_x_xinv Rops X = mmul33 Rops X (mtr33 X) /\ tr_SO3_xinv_x Rops X = mmul33 Rops (mtr33 X) X /\
  tr_SO3_mul Rops X (tr_SO3_inv Rops X) = tr_SO3_x_xinv Rops X /\
  tr_SO3_mul Rops (tr_SO3_inv Rops X) X = tr_SO3_xinv_x Rops X.
Proof. intros; repeat split; gen_ring. Qed.
Print Assumptions C02_SO3_inverse_defect.

(* inv() is a two-sided inverse on SO(3) *)
Theorem C02_SO3_inverse : forall X : M33 R, SO3 X ->
  tr_SO3_mul Rops X (tr_SO3_inv Rops X) = I33 Rops /\ tr_SO3_mul Rops (tr_SO3_inv Rops X) X = I33 Rops /\
  tr_SO3_x_xinv Rops X = I33 Rops /\ tr_SO3_xinv_x Rops X = I33 Rops.
Proof.
  intros X H. destruct (C02_SO3_inverse_defect X) as (E1 & E2 & E3 & E4).
  rewrite E3, E4, E1, E2, (SO3_inv_r X H), (SO3_inv_l X H). repeat split.
Qed.
Print Assumptions C02_SO3_inverse.

(* (X*Y).inv() = Y.inv() * X.inv(), for ALL matrices *)
Theorem C02_SO3_inv_antihom : forall X Y : M33 R,
  tr_SO3_inv_of_mul Rops X Y = tr_SO3_mul_of_inv Rops X Y /\
  tr_SO3_inv Rops (tr_SO3_mul Rops X Y) = tr_SO3_mul Rops (tr_SO3_inv Rops Y) (tr_SO3_inv Rops X) /\
  tr_SO3_inv_of_mul Rops X Y = tr_SO3_inv Rops (tr_SO3_mul Rops X Y).
Proof. intros; repeat split; gen_ring. Qed.
Print Assumptions C02_SO3_inv_antihom.

(* X / Y = X * Y.inv(), for ALL matrices *)
Theorem C02_SO3_div : forall X Y : M33 R, tr_SO3_div Rops X Y = tr_SO3_mul Rops X (tr_SO3_inv Rops Y).
Proof. gen_ring. Qed.
Print Assumptions C02_SO3_div.

(* inv() is the true matrix inverse (adjugate / determinant) on SO(3) *)
Theorem C02_SO3_inv_is_matrix_inverse : forall X : M33 R, SO3 X -> tr_SO3_inv Rops X = minv33 Rops X.
Proof.
  intros X H. destruct_tuples. so3_cof H. gen_unfold.
  match goal with |- context [_ / ?d] => replace d with 1 by lra end.
  tuple_eq ltac:(lra).
Qed.
Print Assumptions C02_SO3_inv_is_matrix_inverse.

(* ================================================================== SE3 *)
Theorem C02_SE3_mul_is_matmul : forall X Y : M44 R, tr_SE3_mul Rops X Y = mmul44 Rops (aff4 Rops X) (aff4 Rops Y).
Proof. gen_ring. Qed.
Print Assumptions C02_SE3_mul_is_matmul.

Theorem C02_SE3_assoc : forall X Y Z : M44 R,
  tr_SE3_mul Rops (tr_SE3_mul Rops X Y) Z = tr_SE3_mul Rops X (tr_SE3_mul Rops Y Z) /\
  tr_SE3_assoc_l Rops X Y Z = tr_SE3_assoc_r Rops X Y Z /\
  tr_SE3_assoc_l Rops X Y Z = tr_SE3_mul Rops (tr_SE3_mul Rops X Y) Z.
Proof. intros; repeat split; gen_ring. Qed.
Print Assumptions C02_SE3_assoc.

Theorem C02_SE3_identity : forall X : M44 R,
  tr_SE3_id_r Rops X = aff4 Rops X /\ tr_SE3_id_l Rops X = aff4 Rops X.
Proof. intros; split; gen_ring. Qed.
Print Assumptions C02_SE3_identity.

Lemma aff4_SE3 : forall X : M44 R, SE3 X -> aff4 Rops X = X.
Proof. intros X H. symmetry. apply SE3_decompose. exact H. Qed.

(* the class inverse and base.trinv are both the structured inverse [R', -R' t] (for ALL R, t) *)
Theorem C02_SE3_inv_is_trinv : forall X : M44 R,
  tr_SE3_inv Rops X = trinv_ref X /\ tr_trinv Rops X = trinv_ref X.
Proof. intros; split; gen_ring. Qed.
Print Assumptions C02_SE3_inv_is_trinv.

(* defect form, ALL R, t:  T * trinv(T) = [[R R', (I - R R') t],[0 1]]   and   trinv(T) * T = [[R' R, 0],[0 1]] *)
Theorem C02_SE3_inverse_defect : forall X : M44 R,
  let Rm := t2r3 X in let t := transl3 X in
  tr_SE3_x_xinv Rops X = rt2tr3 Rops (mmul33 Rops Rm (mtr33 Rm))
                           (mv33 Rops (msub33 Rops (I33 Rops) (mmul33 Rops Rm (mtr33 Rm))) t) /\
  tr_SE3_xinv_x Rops X = rt2tr3 Rops (mmul33 Rops (mtr33 Rm) Rm) (0, 0, 0) /\
  tr_SE3_mul Rops X (tr_SE3_inv Rops X) = tr_SE3_x_xinv Rops X /\
  tr_SE3_mul Rops (tr_SE3_inv Rops X) X = tr_SE3_xinv_x Rops X.
Proof. cbv zeta; intros; repeat split; gen_ring. Qed.
Print Assumptions C02_SE3_inverse_defect.

(* inv() is a two-sided inverse on SE(3) *)
Theorem C02_SE3_inverse : forall X : M44 R, SE3 X ->
  tr_SE3_mul Rops X (tr_SE3_inv Rops X) = I44 Rops /\ tr_SE3_mul Rops (tr_SE3_inv Rops X) X = I44 Rops /\
  tr_SE3_x_xinv Rops X = I44 Rops /\ tr_SE3_xinv_x Rops X = I44 Rops.
Proof.
  intros X [H _]. pose proof (C02_SE3_inverse_defect X) as E. cbv zeta in E. destruct E as (E1 & E2 & E3 & E4).
  rewrite E3, E4, E1, E2, (SO3_inv_r _ H), (SO3_inv_l _ H). generalize (transl3 X). intros t.
  destruct_tuples. lin_simpl. repeat split; tuple_eq ltac:(ring).
Qed.
Print Assumptions C02_SE3_inverse.

(* the structured inverse trinv(T) is the true two-sided matrix inverse of T in SE(3), and equals adj/det *)
Theorem C02_trinv_is_matrix_inverse : forall X : M44 R, SE3 X ->
  mmul44 Rops X (tr_trinv Rops X) = I44 Rops /\ mmul44 Rops (tr_trinv Rops X) X = I44 Rops /\
  tr_trinv Rops X = minv_aff4 Rops X.
Proof.
  intros X H. destruct (C02_SE3_inv_is_trinv X) as [_ ->]. repeat split.
  - apply SE3_inv_r; exact H.
  - apply SE3_inv_l; exact H.
  - destruct H as [H _]. destruct_tuples. unfold t2r3 in H. so3_cof H. unfold trinv_ref. gen_unfold.
    match goal with |- context [_ / ?d] => replace d with 1 by lra end.
    unfold Rdiv; rewrite ?Rinv_1, ?Rmult_1_r. tuple_eq ltac:(try lra; nsatz).
Qed.
Print Assumptions C02_trinv_is_matrix_inverse.

(* (X*Y).inv() vs Y.inv()*X.inv(), defect form for ALL matrices: the rotation blocks and last rows agree and the
   translations differ by exactly  R2'(I - R1'R1) t2 *)
Theorem C02_SE3_inv_antihom_defect : forall X Y : M44 R,
  let R1 := t2r3 X in let R2 := t2r3 Y in let t2 := transl3 Y in
  t2r3 (tr_SE3_inv_of_mul Rops X Y) = t2r3 (tr_SE3_mul_of_inv Rops X Y) /\
  lastrow4 (tr_SE3_inv_of_mul Rops X Y) = lastrow4 (tr_SE3_mul_of_inv Rops X Y) /\
  vsub3 Rops (transl3 (tr_SE3_inv_of_mul Rops X Y)) (transl3 (tr_SE3_mul_of_inv Rops X Y)) =
    mv33 Rops (mmul33 Rops (mtr33 R2) (msub33 Rops (I33 Rops) (mmul33 Rops (mtr33 R1) R1))) t2 /\
  tr_SE3_inv Rops (tr_SE3_mul Rops X Y) = tr_SE3_inv_of_mul Rops X Y /\
  tr_SE3_mul Rops (tr_SE3_inv Rops Y) (tr_SE3_inv Rops X) = tr_SE3_mul_of_inv Rops X Y.
Proof. cbv zeta; intros; repeat split; gen_ring. Qed.
Print Assumptions C02_SE3_inv_antihom_defect.

Lemma M44_blocks_eq : forall A B : M44 R, t2r3 A = t2r3 B -> lastrow4 A = lastrow4 B ->
  vsub3 Rops (transl3 A) (transl3 B) = (0, 0, 0) -> A = B.
Proof.
  intros A B H1 H2 H3. destruct_tuples. lin_simpl. injection H1; injection H2; injection H3; intros; subst.
  tuple_eq ltac:(lra).
Qed.

(* (X*Y).inv() = Y.inv() * X.inv(): the translation block needs R1'R1 = I, i.e. X in SE(3); Y is ANY affine matrix *)
Theorem C02_SE3_inv_antihom : forall X Y : M44 R, SO3 (t2r3 X) ->
  tr_SE3_inv_of_mul Rops X Y = tr_SE3_mul_of_inv Rops X Y /\
  tr_SE3_inv Rops (tr_SE3_mul Rops X Y) = tr_SE3_mul Rops (tr_SE3_inv Rops Y) (tr_SE3_inv Rops X).
Proof.
  intros X Y H. pose proof (C02_SE3_inv_antihom_defect X Y) as E. cbv zeta in E. destruct E as (E1 & E2 & E3 & E4 & E5).
  assert (E : tr_SE3_inv_of_mul Rops X Y = tr_SE3_mul_of_inv Rops X Y).
  { apply M44_blocks_eq; try assumption. rewrite E3, (SO3_inv_l _ H).
    generalize (t2r3 Y) (transl3 Y). intros. destruct_tuples. lin_simpl. tuple_eq ltac:(ring). }
  split; [exact E|]. rewrite E4, E5. exact E.
Qed.
Print Assumptions C02_SE3_inv_antihom.

(* the SO(3) hypothesis on X is needed: the full statement "for ALL affine X, Y" is false (this is about operands
   outside the group, not a defect of the code); _partial is C02_SE3_inv_antihom above *)
Theorem C02_SE3_inv_antihom_all_matrices_refuted : exists X Y : M44 R,
  tr_SE3_inv_of_mul Rops X Y <> tr_SE3_mul_of_inv Rops X Y.
Proof.
  exists ((2,0,0,0),(0,2,0,0),(0,0,2,0),(0,0,0,1)), ((1,0,0,1),(0,1,0,0),(0,0,1,0),(0,0,0,1)).
  gen_unfold. intro H. injection H. intros. lra.
Qed.
Print Assumptions C02_SE3_inv_antihom_all_matrices_refuted.

Theorem C02_SE3_div : forall X Y : M44 R, tr_SE3_div Rops X Y = tr_SE3_mul Rops X (tr_SE3_inv Rops Y).
Proof. gen_ring. Qed.
Print Assumptions C02_SE3_div.

(* closure (needed to iterate the laws): products and inverses of SE(3) elements are in SE(3) *)
Theorem C02_SE3_closed : forall X Y : M44 R, SE3 X -> SE3 Y ->
  SE3 (tr_SE3_mul Rops X Y) /\ SE3 (tr_SE3_inv Rops X) /\ SE3 (tr_SE3_div Rops X Y).
Proof.
  intros X Y HX HY.
  assert (Hm : forall A B, SE3 A -> SE3 B -> SE3 (tr_SE3_mul Rops A B)).
  { intros A B HA HB. rewrite C02_SE3_mul_is_matmul, (aff4_SE3 A HA), (aff4_SE3 B HB). apply SE3_mul; assumption. }
  assert (Hi : forall A, SE3 A -> SE3 (tr_SE3_inv Rops A)).
  { intros A HA. destruct (C02_SE3_inv_is_trinv A) as [-> _]. apply SE3_inv; exact HA. }
  repeat split; try (apply Hm; assumption); try (apply Hi; assumption).
  - rewrite C02_SE3_div. apply Hm; [assumption|apply Hi; assumption].
  - rewrite C02_SE3_div. apply Hm; [assumption|apply Hi; assumption].
Qed.
Print Assumptions C02_SE3_closed.

(* non-vacuity: a non-trivial rotation / rigid motion satisfies the hypotheses used above *)
Example C02_a_nonvacuous :
  SO3 ((3/5, -4/5, 0), (4/5, 3/5, 0), (0, 0, 1)) /\
  SE3 ((3/5, -4/5, 0, 7), (4/5, 3/5, 0, -2), (0, 0, 1, 1/3), (0, 0, 0, 1)) /\
  tr_SE3_mul Rops ((3/5, -4/5, 0, 7), (4/5, 3/5, 0, -2), (0, 0, 1, 1/3), (0, 0, 0, 1))
                  ((3/5, -4/5, 0, 7), (4/5, 3/5, 0, -2), (0, 0, 1, 1/3), (0, 0, 0, 1)) <> I44 Rops.
Proof.
  split; [|split].
  - unfold SO3. repeat split; lra.
  - unfold SE3, SO3. lin_simpl. repeat split; try lra.
  - gen_unfold. intro H. injection H. intros. lra.
Qed.
