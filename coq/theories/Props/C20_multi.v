(* C20 -- multi-valued right operands: SE3 * x, v.cross(x), inertia * x act element-wise.
   The tr_*_2_k definitions are regenerated on every run: the library is run on a TWO-valued symbolic right
   operand and element k of the result is traced; each must be the single-valued trace applied to element k
   (and must not depend on the other element).  Lengths 0, 1, 2, 3, 6 are run on the implementation by the
   table part (C20_tab.v / props/C20.py); before /repo 0da5cb1 these products used the list of values as a
   matrix (wrong values for six elements, ValueError otherwise). *)
From Coq Require Import Reals ZArith Lra.
From SM Require Import Base.Ops Base.Lin Base.RInst Model.C20_Inertia.
From SMgen Require Import Traces_C20.
Open Scope R_scope.

Ltac gen_ring := intros; destruct_tuples; autounfold with smgen smlin; sm_simpl; tuple_eq ltac:(ring).

Theorem C20_se3_multi_elementwise : forall (X : M44 R) (a b : V6 R),
  tr_se3_Vel_2_0 Rops X a b = tr_se3_Vel Rops X a /\ tr_se3_Vel_2_1 Rops X a b = tr_se3_Vel Rops X b /\
  tr_se3_Frc_2_0 Rops X a b = tr_se3_Frc Rops X a /\ tr_se3_Frc_2_1 Rops X a b = tr_se3_Frc Rops X b.
Proof. intros; repeat split; gen_ring. Qed.
Print Assumptions C20_se3_multi_elementwise.

Theorem C20_cross_multi_elementwise : forall (v a b : V6 R),
  tr_crm_2_0 Rops v a b = tr_crm Rops v a /\ tr_crm_2_1 Rops v a b = tr_crm Rops v b /\
  tr_crf_2_0 Rops v a b = tr_crf_Mom Rops v a /\ tr_crf_2_1 Rops v a b = tr_crf_Mom Rops v b.
Proof. intros; repeat split; gen_ring. Qed.
Print Assumptions C20_cross_multi_elementwise.

Theorem C20_inertia_mul_multi_elementwise : forall (J : M66 R) (a b : V6 R),
  tr_I_acc_2_0 Rops J a b = mv66 Rops J a /\ tr_I_acc_2_1 Rops J a b = mv66 Rops J b /\
  tr_I_vel_2_0 Rops J a b = mv66 Rops J a /\ tr_I_vel_2_1 Rops J a b = mv66 Rops J b.
Proof. intros; repeat split; gen_ring. Qed.
Print Assumptions C20_inertia_mul_multi_elementwise.
