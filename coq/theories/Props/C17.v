(* C17 -- functions and operators never modify their arguments.

   Kind C (effects).  The model is the effect language of Model/C17_Effects.v; the programs [prog_C17], the claimed
   fresh set [fresh_C17] and the names [names_C17] are REGENERATED from the working tree of the library on every run
   (props/C17.py, fail-closed `ast` translator) into gen/EffProgs_C17.v.  This file is fixed.

   Full statement (what C17 asks, in the model):

       check_prog prog_C17 fresh_C17 = true
       and hence, by run_sound: for every call depth, every pure function f of the library, all argument objects, every
       execution:  every object that existed at entry is unmodified at exit.

   The full statement holds on the final tree (theorems C17_all_functions_accepted, C17_no_argument_is_modified).
   History: until commit 6a82e3e of the library SMPose._string_matrix stored a lazily created formatter into an attribute
   of its receiver; the development then carried a _refuted / _partial pair with that function exempt.  *)
From Coq Require Import List String Bool Arith Lia.
Import ListNotations.
From SM Require Import Model.C17_Effects.
From SMgen Require Import EffProgs_C17.
Open Scope string_scope.

(* ---------------------------------------------------------------------------------------------- soundness *)
(* for ANY program and ANY claimed fresh set that pass the checker: real calls, every depth, every execution *)
Theorem C17_checker_sound : forall P FS, check_prog P FS = true -> forall n, spec P FS (run P n).
Proof. exact run_sound. Qed.
Print Assumptions C17_checker_sound.

(* the relation [run] is inhabited (the theorem is not vacuous): a trnorm-like function called on object 0 *)
Example C17_run_inhabited :
  let P := [mkfunc 1 false [Def 1 Other; Def 2 Fresh; Write 2; Ret 2]] in
  check_prog P [0] = true /\
  forall h, exists h' nx' r, run P 1 0 [0] h 1 h' nx' r /\ h' 0 = h 0 /\ 1 <= r.
Proof.
  split; [reflexivity|]. intros h. exists (upd h 1 7), 2, 1. split; [|split; [reflexivity|lia]].
  cbn. eexists. eexists. split; [reflexivity|]. split.
  - eapply EStmt; [right; left; reflexivity| apply SFresh; reflexivity |].
    eapply EStmt; [right; right; left; reflexivity| |apply ENil].
    apply (SWrite _ _ 2 1 7). reflexivity.
  - cbn. repeat split. exists 2. split; [right; right; right; left; reflexivity|reflexivity].
Qed.

(* the checker accepts the discipline the library follows and rejects the in-place shortcuts *)
(* trnorm-like: read views of the parameter, build a new matrix, return a library builder applied to it *)
Example C17_trnorm_like_accepted :
  check_prog [ mkfunc 1 false [Def 1 Other; Def 2 Other; Def 3 Fresh; Def 4 (FreshCall 1); Ret 4];
               mkfunc 2 false [Def 2 Fresh; Write 2; Ret 2] ] [0; 1] = true.
Proof. reflexivity. Qed.
(* T[:3,:3] = R; return T   on the parameter T *)
Example C17_write_to_parameter_rejected :
  check_prog [ mkfunc 1 false [Def 1 Fresh; Write 0; Ret 0] ] [] = false.
Proof. reflexivity. Qed.
(* o = T[:3,1]; o /= norm(o)   on a view of the parameter *)
Example C17_write_to_view_rejected :
  check_prog [ mkfunc 1 false [Def 1 Other; Write 1; Def 2 Fresh; Ret 2] ] [] = false.
Proof. reflexivity. Qed.
(* x = getmatrix(T); x[0,0] = 1   where the library function may return its argument: not in the fresh set *)
Example C17_write_to_nonfresh_call_rejected :
  check_prog [ mkfunc 1 false [Def 1 (FreshCall 1); Write 1; Def 2 Fresh; Ret 2];
               mkfunc 1 false [Ret 0; Def 1 Fresh; Ret 1] ] [] = false.
Proof. reflexivity. Qed.
(* ... and claiming that such a callee returns a fresh object is refused by the re-check of the fresh set *)
Example C17_false_fresh_claim_rejected :
  check_prog [ mkfunc 1 false [Def 1 (FreshCall 1); Write 1; Def 2 Fresh; Ret 2];
               mkfunc 1 false [Ret 0; Def 1 Fresh; Ret 1] ] [1] = false.
Proof. reflexivity. Qed.
(* X.append(Y) on a parameter X in a function that is not a documented mutator *)
Example C17_mutator_on_parameter_rejected :
  check_prog [ mkfunc 2 false [MutCall 0; Def 2 Fresh; Ret 2] ] [] = false.
Proof. reflexivity. Qed.
(* a constructor may write self, but nothing else, and may not rebind self first *)
Example C17_constructor_accepted : check_prog [ mkfunc 2 true [Write 0; MutCall 0; Def 2 Fresh; Ret 2] ] [] = true.
Proof. reflexivity. Qed.
Example C17_constructor_writing_argument_rejected : check_prog [ mkfunc 2 true [Write 1; Def 2 Fresh; Ret 2] ] [] = false.
Proof. reflexivity. Qed.
Example C17_constructor_rebinding_self_rejected : check_prog [ mkfunc 2 true [Def 0 Other; Write 0; Def 2 Fresh; Ret 2] ] [] = false.
Proof. reflexivity. Qed.
(* and a rejected program really has a mutating execution *)
Example C17_rejection_is_not_spurious :
  forall h, exists args nx h' nx' r, args_ok args nx /\
    run [mkfunc 1 false [Def 1 Fresh; Write 0; Ret 1]] 1 0 args h nx h' nx' r /\ exists id, id < nx /\ h' id <> h id.
Proof. eapply param_write_mutates; [reflexivity|reflexivity]. Qed.

(* ---------------------------------------------------------------------------------------------- the library *)
Example C17_names_cover_programs : List.length names_C17 = List.length prog_C17.
Proof. vm_compute. reflexivity. Qed.

(* full statement (holds since the fix of SMPose._string_matrix): every function / method / nested function / lambda of the
   library is accepted by the verified checker *)
Theorem C17_all_functions_accepted : check_prog prog_C17 fresh_C17 = true.
Proof. vm_compute. reflexivity. Qed.
Print Assumptions C17_all_functions_accepted.

(* C17 for the library: a call of any pure function (any depth of nested library calls, any branch / loop / order,
   any arguments) leaves every object that existed at entry unmodified *)
Theorem C17_no_argument_is_modified :
  forall n f F args h nx h' nx' r,
    nth_error prog_C17 f = Some F -> fself F = false -> args_ok args nx ->
    run prog_C17 n f args h nx h' nx' r ->
    forall id, id < nx -> h' id = h id.
Proof. intros. eapply pure_call_no_mutation; eauto. exact C17_all_functions_accepted. Qed.
Print Assumptions C17_no_argument_is_modified.

(* constructors and the documented list mutators modify at most their receiver *)
Theorem C17_mutators_touch_only_receiver :
  forall n f F args h nx h' nx' r,
    nth_error prog_C17 f = Some F -> args_ok args nx ->
    run prog_C17 n f args h nx h' nx' r ->
    forall id, id < nx -> nth_error args 0 <> Some id -> h' id = h id.
Proof. intros. eapply selfwriter_call_only_receiver; eauto. exact C17_all_functions_accepted. Qed.
Print Assumptions C17_mutators_touch_only_receiver.

(* functions of the regenerated fresh set return an object allocated during the call (no alias of an argument) *)
Theorem C17_fresh_functions_return_new_objects :
  forall n f args h nx h' nx' r,
    In f fresh_C17 -> args_ok args nx -> run prog_C17 n f args h nx h' nx' r -> nx <= r.
Proof. intros. eapply fresh_call_returns_new; eauto. exact C17_all_functions_accepted. Qed.
Print Assumptions C17_fresh_functions_return_new_objects.

(* the defect repaired by 6a82e3e, kept as a regression example: the effect program of the old SMPose._string_matrix
   (self._ansiformatter = ANSIMatrix(..); return self._ansiformatter.str(self.A)) is rejected, and it really mutates *)
Example C17_old_string_matrix_rejected :
  check_prog [ mkfunc 1 false [Def 1 Fresh; Write 0; Def 2 Other; Ret 2; Def 3 Fresh; Ret 3] ] [] = false /\
  forall h, exists args nx h' nx' r, args_ok args nx /\
    run [ mkfunc 1 false [Def 1 Fresh; Write 0; Def 2 Other; Ret 2; Def 3 Fresh; Ret 3] ] 1 0 args h nx h' nx' r /\
    exists id, id < nx /\ h' id <> h id.
Proof. split; [reflexivity|]. eapply param_write_mutates; [reflexivity|reflexivity]. Qed.

(* the hypotheses are met by real data, and the regenerated fresh set is a CHECKED EXPECTATION for the public
   constructors-of-values: each of them returns an object allocated during the call (never a module-level, cached or
   argument-owned object); a change that makes one of them hand out shared storage drops it from the fresh set and
   breaks this obligation *)
Example C17_builders_are_fresh :
  forallb (fun nm => match find_idx nm names_C17 0 with Some k => memb k fresh_C17 | None => false end)
    ["spatialmath.base.transformsNd:rt2tr"; "spatialmath.base.transformsNd:r2t"; "spatialmath.base.transforms3d:trinv";
     "spatialmath.base.transforms3d:rotx"; "spatialmath.base.transforms3d:rpy2r"; "spatialmath.base.transforms2d:trinv2";
     "spatialmath.base.transforms3d:trnorm"; "spatialmath.base.transforms3d:tr2eul"; "spatialmath.base.transforms3d:tr2rpy";
     "spatialmath.base.transformsNd:skewa"; "spatialmath.base.quaternions:qqmul"] = true.
Proof. vm_compute. reflexivity. Qed.

Example C17_value_constructors_are_fresh :
  forallb (fun nm => match find_idx nm names_C17 0 with Some k => memb k fresh_C17 | None => false end)
    ["spatialmath.base.transforms3d:rotx"; "spatialmath.base.transforms3d:roty"; "spatialmath.base.transforms3d:rotz";
     "spatialmath.base.transforms2d:trnorm2"; "spatialmath.base.transforms3d:trnorm"; "spatialmath.base.transforms2d:rot2"; "spatialmath.base.transforms3d:trotx"; "spatialmath.base.transforms3d:troty";
     "spatialmath.base.transforms3d:trotz"; "spatialmath.base.transforms2d:trot2"; "spatialmath.base.transformsNd:rodrigues";
     "spatialmath.base.transforms3d:trexp"; "spatialmath.base.transforms2d:trexp2"; "spatialmath.base.transforms3d:angvec2r";
     "spatialmath.base.transforms3d:angvec2tr"; "spatialmath.base.quaternions:q2r"; "spatialmath.base.quaternions:r2q";
     "spatialmath.base.transforms3d:rpy2tr"; "spatialmath.base.transforms3d:eul2r"; "spatialmath.base.transforms3d:eul2tr";
     "spatialmath.base.transforms3d:oa2r"; "spatialmath.base.transforms3d:oa2tr"; "spatialmath.base.transformsNd:skew";
     "spatialmath.base.transforms3d:delta2tr"; "spatialmath.base.transforms2d:xyt2tr"; "spatialmath.base.transformsNd:Ab2M";
     "spatialmath.base.quaternions:conj"; "spatialmath.base.quaternions:pure"; "spatialmath.base.quaternions:eye";
     "spatialmath.base.transforms3d:trlog"; "spatialmath.base.transformsNd:vex"; "spatialmath.base.transformsNd:vexa";
     "spatialmath.base.transformsNd:e2h"; "spatialmath.base.transformsNd:h2e"; "spatialmath.base.vectors:unitvec"] = true.
Proof. vm_compute. reflexivity. Qed.
