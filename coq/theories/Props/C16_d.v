(* C16 (d) -- "accepts the same call forms as the numeric path".
   [callforms] is the table observed on this run: every documented call form of every entry tagged ':SymPy: supported'
   (and of the pose-class operators over them), with what happened when it was called with symbolic arguments
   (Ok / SymRaises: only the symbolic path raises / BothRaise: the numeric path raises too / NumRaises).

   FULL STATEMENT (false on the unchanged tree because of genuine defects of the code, see known/C16.json):
       forall e f st, In (e, f, st) callforms -> st = Ok.
   It is refuted by a witness, and proved outside the listed root causes: a call form that STARTS failing is not in
   the list and breaks C16_callforms_partial.  The domain is the finite table; vm_compute is a proof here. *)
From Coq Require Import String List Bool.
From SMgen Require Import Traces_C16.
Import ListNotations.
Open Scope string_scope.

Definition is_ok (s : form_status) : bool := match s with Ok => true | _ => false end.
Definition pair_eqb (a b : string * string) : bool := (String.eqb (fst a) (fst b) && String.eqb (snd a) (snd b))%bool.
Definition mem (x : string * string) (l : list (string * string)) : bool := existsb (pair_eqb x) l.

(* the call forms that fail today, grouped by root cause *)
Definition failing_getunit_deg :=      (* getunit: np.isscalar(symbol) is False, the 'deg' branch iterates the symbol *)
  [("base.rotx","theta,deg"); ("base.roty","theta,deg"); ("base.rotz","theta,deg");
   ("base.trotx","theta,deg"); ("base.troty","theta,deg"); ("base.trotz","theta,deg");
   ("SE3.Rx","theta,deg"); ("SE3.Ry","theta,deg"); ("SE3.Rz","theta,deg")].
Definition failing_eul_scalars :=      (* eul2r: np.isscalar(phi) is False for a symbol: the 3-scalar form is taken for a vector *)
  [("base.eul2r","phi,theta,psi"); ("base.eul2r","phi,0.2,0.3"); ("base.eul2tr","phi,theta,psi"); ("base.eul2tr","phi,0.2,0.3")].
Definition failing_float_alloc :=      (* symbolic entries stored into a float64 array (trot*(num, t=sym); rt2tr in SE2.inv) *)
  [("base.trotx","0.3,t=list"); ("base.troty","0.3,t=list"); ("base.trotz","0.3,t=list");
   ("op.SE2.inv","inv"); ("op.SE2/SE2","X/Y")].
Definition failing_check_true :=       (* result built with check=True: isR -> np.linalg.norm on an object array *)
  [("SE3.Delta","array"); ("op.SO2.inv","inv"); ("op.SO2/SO2","A/B")].
Definition failing_linalg :=           (* np.linalg.matrix_power / inv on an object array *)
  [("op.SE3**n","X**-1")].
Definition failing_both_paths :=       (* broken on the numeric path as well *)
  [("Twist3.Rx","theta"); ("Twist3.Ry","theta"); ("Twist3.Rz","theta")].   (* SE3.jacob was here until fix 5493c9a *)
Definition expected_failing :=
  (failing_getunit_deg ++ failing_eul_scalars ++ failing_float_alloc ++ failing_check_true ++ failing_linalg ++ failing_both_paths)%list.

Theorem C16_callforms_refuted : exists e f, In (e, f, SymRaises) callforms.
Proof.
  assert (H : existsb (fun r => match r with (_, _, SymRaises) => true | _ => false end) callforms = true) by (vm_compute; reflexivity).
  apply existsb_exists in H. destruct H as [[[e f] st] [Hin Hst]]. exists e, f. destruct st; try discriminate. exact Hin.
Qed.
Print Assumptions C16_callforms_refuted.

Theorem C16_callforms_partial : forall e f st, In (e, f, st) callforms -> mem (e, f) expected_failing = false -> st = Ok.
Proof.
  assert (H : forallb (fun r => match r with (e, f, st) => (is_ok st || mem (e, f) expected_failing)%bool end) callforms = true)
    by (vm_compute; reflexivity).
  intros e f st Hin Hm. rewrite forallb_forall in H. specialize (H _ Hin). cbv beta iota in H.
  rewrite Hm, orb_false_r in H. destruct st; try discriminate; reflexivity.
Qed.
Print Assumptions C16_callforms_partial.

(* non-vacuity: most of the table is outside the list and therefore proved Ok; every tabled entry has a working form *)
Example C16_callforms_nonvacuous :
  Nat.leb 100 (length (filter (fun r => match r with (e, f, _) => negb (mem (e, f) expected_failing) end) callforms)) = true /\
  existsb (fun r => match r with (e, f, Ok) => pair_eqb (e, f) ("base.rotx", "theta") | _ => false end) callforms = true /\
  existsb (fun r => match r with (e, f, Ok) => pair_eqb (e, f) ("op.SE3*SE3", "X*Y") | _ => false end) callforms = true /\
  (* repaired entry: must stay Ok (it is no longer in the list, so C16_callforms_partial covers it) *)
  existsb (fun r => match r with (e, f, Ok) => pair_eqb (e, f) ("SE3.jacob", "jacob") | _ => false end) callforms = true.
Proof. repeat split; vm_compute; reflexivity. Qed.

(* the numeric path never rejects a form that the symbolic path accepts *)
Theorem C16_no_numeric_only_failure : forall e f, ~ In (e, f, NumRaises) callforms.
Proof.
  assert (H : forallb (fun r => match r with (_, _, NumRaises) => false | _ => true end) callforms = true) by (vm_compute; reflexivity).
  intros e f Hin. rewrite forallb_forall in H. specialize (H _ Hin). discriminate H.
Qed.
Print Assumptions C16_no_numeric_only_failure.
