(* C16 (d) -- "accepts the same call forms as the numeric path".
   [callforms] is the table observed on this run: every documented call form of every entry tagged ':SymPy: supported'
   (and of the pose-class operators over them), with what happened when it was called with symbolic arguments
   (Ok / SymRaises: only the symbolic path raises / BothRaise: the numeric path raises too / NumRaises).

   FULL STATEMENT (false on the unchanged tree because of genuine defects of the code, see known/C16.json):
       forall e f st, In (e, f, st) callforms -> st = Ok.
   It is refuted by a witness, and proved outside the listed root causes: a call form that STARTS failing is not in
   the list and breaks C16_callforms_partial.  The domain is the finite table; vm_compute is a proof here. *)
From Coq Require Import String List Bool.
From SMgen Require Import Traces_C16.
Import ListNotations.
Open Scope string_scope.

Definition is_ok (s : form_status) : bool := match s with Ok => true | _ => false end.
Definition pair_eqb (a b : string * string) : bool := (String.eqb (fst a) (fst b) && String.eqb (snd a) (snd b))%bool.
Definition mem (x : string * string) (l : list (string * string)) : bool := existsb (pair_eqb x) l.

(* the call forms that still fail.  Repaired since the first rounds (and therefore REQUIRED to be Ok by
   C16_callforms_partial): rot*/trot*/SE3.R*(sym,'deg') 61ca10f, eul2r/eul2tr scalars eb98c88, trot*(num, t=sym) e615f54,
   SE2.inv, SE2/SE2, SO2.inv, SO2/SO2 d486d19 + 1c511ed, SE3.jacob 5493c9a, Twist3.R*(scalar) e531d4d *)
Definition failing_not_symbolic :=     (* SE3.Delta normalises with trnorm -> unitvec compares a symbolic norm with a threshold *)
  [("SE3.Delta","array")].
Definition failing_linalg :=           (* np.linalg.matrix_power / inv on an object array *)
  [("op.SE3**n","X**-1")].
Definition expected_failing := (failing_not_symbolic ++ failing_linalg)%list.

Theorem C16_callforms_refuted : exists e f, In (e, f, SymRaises) callforms.
Proof.
  assert (H : existsb (fun r => match r with (_, _, SymRaises) => true | _ => false end) callforms = true) by (vm_compute; reflexivity).
  apply existsb_exists in H. destruct H as [[[e f] st] [Hin Hst]]. exists e, f. destruct st; try discriminate. exact Hin.
Qed.
Print Assumptions C16_callforms_refuted.

Theorem C16_callforms_partial : forall e f st, In (e, f, st) callforms -> mem (e, f) expected_failing = false -> st = Ok.
Proof.
  assert (H : forallb (fun r => match r with (e, f, st) => (is_ok st || mem (e, f) expected_failing)%bool end) callforms = true)
    by (vm_compute; reflexivity).
  intros e f st Hin Hm. rewrite forallb_forall in H. specialize (H _ Hin). cbv beta iota in H.
  rewrite Hm, orb_false_r in H. destruct st; try discriminate; reflexivity.
Qed.
Print Assumptions C16_callforms_partial.

(* non-vacuity: most of the table is outside the list and therefore proved Ok; every tabled entry has a working form *)
Example C16_callforms_nonvacuous :
  Nat.leb 100 (length (filter (fun r => match r with (e, f, _) => negb (mem (e, f) expected_failing) end) callforms)) = true /\
  existsb (fun r => match r with (e, f, Ok) => pair_eqb (e, f) ("base.rotx", "theta") | _ => false end) callforms = true /\
  existsb (fun r => match r with (e, f, Ok) => pair_eqb (e, f) ("op.SE3*SE3", "X*Y") | _ => false end) callforms = true /\
  (* repaired entries: must stay Ok (they are no longer in the list, so C16_callforms_partial covers them) *)
  forallb (fun p => existsb (fun r => match r with (e, f, Ok) => pair_eqb (e, f) p | _ => false end) callforms)
    [("SE3.jacob", "X.jacob()"); ("base.rotx","theta,'deg'"); ("base.trotz","theta,'deg'"); ("SE3.Ry","theta,'deg'");
     ("base.eul2r","phi,theta,psi (3 scalars)"); ("base.eul2tr","phi,0.2,0.3 (scalars)"); ("base.trotx","0.3,t=[x,y,z]");
     ("Twist3.Rx","theta (scalar)"); ("op.SE2.inv","X.inv()"); ("op.SE2/SE2","X / Y"); ("op.SO2.inv","A.inv()");
     ("op.SO2/SO2","A / B")] = true.
(* (the form names of the repaired entries were changed when they were repaired, so that no stale known-finding key of the
   earlier rounds can match a regression) *)
Proof. repeat split; vm_compute; reflexivity. Qed.

(* the numeric path never rejects a form that the symbolic path accepts *)
Theorem C16_no_numeric_only_failure : forall e f, ~ In (e, f, NumRaises) callforms.
Proof.
  assert (H : forallb (fun r => match r with (_, _, NumRaises) => false | _ => true end) callforms = true) by (vm_compute; reflexivity).
  intros e f Hin. rewrite forallb_forall in H. specialize (H _ Hin). discriminate H.
Qed.
Print Assumptions C16_no_numeric_only_failure.

(* FULL statement for the both-paths class (Twist3.R*(scalar), SE3.jacob are repaired): no call form is rejected by
   both paths any more *)
Theorem C16_no_both_paths_failure : forall e f, ~ In (e, f, BothRaise) callforms.
Proof.
  assert (H : forallb (fun r => match r with (_, _, BothRaise) => false | _ => true end) callforms = true) by (vm_compute; reflexivity).
  intros e f Hin. rewrite forallb_forall in H. specialize (H _ Hin). discriminate H.
Qed.
Print Assumptions C16_no_both_paths_failure.
