(* C16 (d) -- "accepts the same call forms as the numeric path".
   [callforms] is the table observed on this run: every documented call form of every entry tagged ':SymPy: supported'
   (and of the pose-class operators over them), with what happened when it was called with symbolic arguments
   (Ok / SymRaises: only the symbolic path raises / BothRaise: the numeric path raises too / NumRaises).

   FULL STATEMENT, proved since HEAD 66a8f3b (C16_callforms_all_ok):
       forall e f st, In (e, f, st) callforms -> st = Ok.
   The domain is the finite table regenerated on every run; vm_compute is a proof here. *)
From Coq Require Import String List Bool.
From SMgen Require Import Traces_C16.
Import ListNotations.
Open Scope string_scope.

Definition is_ok (s : form_status) : bool := match s with Ok => true | _ => false end.
Definition pair_eqb (a b : string * string) : bool := (String.eqb (fst a) (fst b) && String.eqb (snd a) (snd b))%bool.
Definition mem (x : string * string) (l : list (string * string)) : bool := existsb (pair_eqb x) l.

(* Every defect that made a call form fail has been repaired in /repo (last: X ** -n fbf47d0, SE3.Delta 2d89a18), so the
   FULL statement is proved; the _refuted/_partial pair of the earlier rounds is gone.  A call form that starts failing
   (on either path) breaks this theorem. *)
Definition expected_failing : list (string * string) := [].

Theorem C16_callforms_all_ok : forall e f st, In (e, f, st) callforms -> st = Ok.
Proof.
  assert (H : forallb (fun r => match r with (_, _, st) => is_ok st end) callforms = true) by (vm_compute; reflexivity).
  intros e f st Hin. rewrite forallb_forall in H. specialize (H _ Hin). cbv beta iota in H.
  destruct st; try discriminate; reflexivity.
Qed.
Print Assumptions C16_callforms_all_ok.

(* non-vacuity: the table is large and contains the forms named below *)
Example C16_callforms_nonvacuous :
  Nat.leb 250 (length callforms) = true /\
  existsb (fun r => match r with (e, f, Ok) => pair_eqb (e, f) ("base.rotx", "theta") | _ => false end) callforms = true /\
  existsb (fun r => match r with (e, f, Ok) => pair_eqb (e, f) ("op.SE3*SE3", "X*Y") | _ => false end) callforms = true /\
  (* the table really contains the repaired forms (so C16_callforms_all_ok is about them) *)
  forallb (fun p => existsb (fun r => match r with (e, f, Ok) => pair_eqb (e, f) p | _ => false end) callforms)
    [("SE3.jacob", "X.jacob()"); ("base.rotx","theta,'deg'"); ("base.trotz","theta,'deg'"); ("SE3.Ry","theta,'deg'");
     ("base.eul2r","phi,theta,psi (3 scalars)"); ("base.eul2tr","phi,0.2,0.3 (scalars)"); ("base.trotx","0.3,t=[x,y,z]");
     ("Twist3.Rx","theta (scalar)"); ("op.SE2.inv","X.inv()"); ("op.SE2/SE2","X / Y"); ("op.SO2.inv","A.inv()");
     ("op.SO2/SO2","A / B"); ("SE3.Delta","d (array)"); ("SE3.Delta","[x,0.2,0.3,a,0.1,c]"); ("op.SE3**n","X ** -1");
     ("op.SE3**n","X ** -2"); ("op.SO2**n","A ** -1"); ("op.SE3 scalar","X*s (mul)"); ("op.SO2 scalar","s-X (rsub)")] = true.
(* (the form names of the repaired entries were changed when they were repaired, so that no stale known-finding key of the
   earlier rounds can match a regression) *)
Proof. repeat split; vm_compute; reflexivity. Qed.

(* the numeric path never rejects a form that the symbolic path accepts *)
Theorem C16_no_numeric_only_failure : forall e f, ~ In (e, f, NumRaises) callforms.
Proof.
  assert (H : forallb (fun r => match r with (_, _, NumRaises) => false | _ => true end) callforms = true) by (vm_compute; reflexivity).
  intros e f Hin. rewrite forallb_forall in H. specialize (H _ Hin). discriminate H.
Qed.
Print Assumptions C16_no_numeric_only_failure.

(* FULL statement for the both-paths class (Twist3.R*(scalar), SE3.jacob are repaired): no call form is rejected by
   both paths any more *)
Theorem C16_no_both_paths_failure : forall e f, ~ In (e, f, BothRaise) callforms.
Proof.
  assert (H : forallb (fun r => match r with (_, _, BothRaise) => false | _ => true end) callforms = true) by (vm_compute; reflexivity).
  intros e f Hin. rewrite forallb_forall in H. specialize (H _ Hin). discriminate H.
Qed.
Print Assumptions C16_no_both_paths_failure.
