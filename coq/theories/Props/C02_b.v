(* C02 (part b) -- group laws of the 2-D pose classes SO2 and SE2 and of base.trinv2.
   Since /repo 1c511ed SO2.inv() / SE2.inv() build their result with check=False, like the 3-D classes: their traces
   are the plain transpose / structured inverse for ALL matrices, with no validity path condition (props/C02.py fails
   closed if a comparison is recorded while tracing a pose class), so every statement below has exactly the shape
   of its 3-D counterpart in C02_a.v. *)
From Coq Require Import Reals ZArith Lra Lia Nsatz.
From SM Require Import Base.Ops Base.Lin Base.RInst Base.RLin Model.C02_Pow.
From SMgen Require Import Traces_C02.
Open Scope R_scope.

Ltac gen_unfold := autounfold with smgen smlin c02 in *; sm_simpl.
Ltac gen_ring := cbv zeta; intros; destruct_tuples; gen_unfold; tuple_eq ltac:(ring).

Lemma SO2_inv_r (A : M22 R) : SO2 A -> mmul22 Rops A (mtr22 A) = I22 Rops.
Proof. intros H. apply SO2_matrix in H. tauto. Qed.
Lemma SO2_inv_l (A : M22 R) : SO2 A -> mmul22 Rops (mtr22 A) A = I22 Rops.
Proof.
  intros H. destruct_tuples. pose proof (SO2_columns _ _ _ _ H) as (?&?&?). unfold SO2 in H. destruct H as (?&?&?&?).
  lin_simpl. tuple_eq ltac:(nsatz).
Qed.

(* ================================================================== SO2 *)
Theorem C02_SO2_mul_is_matmul : forall X Y : M22 R, tr_SO2_mul Rops X Y = mmul22 Rops X Y.
Proof. gen_ring. Qed.
Print Assumptions C02_SO2_mul_is_matmul.

Theorem C02_SO2_assoc : forall X Y Z : M22 R,
  tr_SO2_mul Rops (tr_SO2_mul Rops X Y) Z = tr_SO2_mul Rops X (tr_SO2_mul Rops Y Z) /\
  tr_SO2_assoc_l Rops X Y Z = tr_SO2_assoc_r Rops X Y Z /\
  tr_SO2_assoc_l Rops X Y Z = tr_SO2_mul Rops (tr_SO2_mul Rops X Y) Z.
Proof. intros; repeat split; gen_ring. Qed.
Print Assumptions C02_SO2_assoc.

Theorem C02_SO2_identity : forall X : M22 R, tr_SO2_id_r Rops X = X /\ tr_SO2_id_l Rops X = X.
Proof. intros; split; gen_ring. Qed.
Print Assumptions C02_SO2_identity.

Theorem C02_SO2_inv_is_transpose : forall X : M22 R, tr_SO2_inv Rops X = mtr22 X.
Proof. gen_ring. Qed.
Print Assumptions C02_SO2_inv_is_transpose.

Theorem C02_SO2_inverse_defect : forall X : M22 R,
  tr_SO2_x_xinv Rops X = mmul22 Rops X (mtr22 X) /\ tr_SO2_xinv_x Rops X = mmul22 Rops (mtr22 X) X /\
  tr_SO2_mul Rops X (tr_SO2_inv Rops X) = tr_SO2_x_xinv Rops X /\
  tr_SO2_mul Rops (tr_SO2_inv Rops X) X = tr_SO2_xinv_x Rops X.
Proof. intros; repeat split; gen_ring. Qed.
Print Assumptions C02_SO2_inverse_defect.

Theorem C02_SO2_inverse : forall X : M22 R, SO2 X ->
  tr_SO2_mul Rops X (tr_SO2_inv Rops X) = I22 Rops /\ tr_SO2_mul Rops (tr_SO2_inv Rops X) X = I22 Rops /\
  tr_SO2_x_xinv Rops X = I22 Rops /\ tr_SO2_xinv_x Rops X = I22 Rops.
Proof.
  intros X H. destruct (C02_SO2_inverse_defect X) as (E1 & E2 & E3 & E4).
  rewrite E3, E4, E1, E2, (SO2_inv_r X H), (SO2_inv_l X H). repeat split.
Qed.
Print Assumptions C02_SO2_inverse.

Theorem C02_SO2_inv_antihom : forall X Y : M22 R,
  tr_SO2_inv_of_mul Rops X Y = tr_SO2_mul_of_inv Rops X Y /\
  tr_SO2_inv Rops (tr_SO2_mul Rops X Y) = tr_SO2_mul Rops (tr_SO2_inv Rops Y) (tr_SO2_inv Rops X) /\
  tr_SO2_inv_of_mul Rops X Y = tr_SO2_inv Rops (tr_SO2_mul Rops X Y).
Proof. intros; repeat split; gen_ring. Qed.
Print Assumptions C02_SO2_inv_antihom.

Theorem C02_SO2_div : forall X Y : M22 R, tr_SO2_div Rops X Y = tr_SO2_mul Rops X (tr_SO2_inv Rops Y).
Proof. gen_ring. Qed.
Print Assumptions C02_SO2_div.

Theorem C02_SO2_inv_is_matrix_inverse : forall X : M22 R, SO2 X -> tr_SO2_inv Rops X = minv22 Rops X.
Proof.
  intros X H. destruct_tuples. pose proof (SO2_columns _ _ _ _ H) as (?&?&?). unfold SO2 in H. destruct H as (?&?&?&?).
  gen_unfold. match goal with |- context [_ / ?d] => replace d with 1 by lra end.
  unfold Rdiv; rewrite ?Rinv_1, ?Rmult_1_r. tuple_eq ltac:(lra).
Qed.
Print Assumptions C02_SO2_inv_is_matrix_inverse.

(* ================================================================== SE2 *)
Definition trinv2_ref (A : M33 R) : M33 R :=
  rt2tr2 Rops (mtr22 (t2r2 A)) (vneg2 Rops (mv22 Rops (mtr22 (t2r2 A)) (transl2 A))).

Theorem C02_SE2_mul_is_matmul : forall X Y : M33 R, tr_SE2_mul Rops X Y = mmul33 Rops (aff3 Rops X) (aff3 Rops Y).
Proof. gen_ring. Qed.
Print Assumptions C02_SE2_mul_is_matmul.

Theorem C02_SE2_assoc : forall X Y Z : M33 R,
  tr_SE2_mul Rops (tr_SE2_mul Rops X Y) Z = tr_SE2_mul Rops X (tr_SE2_mul Rops Y Z) /\
  tr_SE2_assoc_l Rops X Y Z = tr_SE2_assoc_r Rops X Y Z /\
  tr_SE2_assoc_l Rops X Y Z = tr_SE2_mul Rops (tr_SE2_mul Rops X Y) Z.
Proof. intros; repeat split; gen_ring. Qed.
Print Assumptions C02_SE2_assoc.

Theorem C02_SE2_identity : forall X : M33 R,
  tr_SE2_id_r Rops X = aff3 Rops X /\ tr_SE2_id_l Rops X = aff3 Rops X.
Proof. intros; split; gen_ring. Qed.
Print Assumptions C02_SE2_identity.

Lemma aff3_SE2 : forall X : M33 R, SE2 X -> aff3 Rops X = X.
Proof. intros X [_ H]. destruct_tuples. gen_unfold. injection H; intros; subst. reflexivity. Qed.

Theorem C02_SE2_inv_is_trinv2 : forall X : M33 R,
  tr_SE2_inv Rops X = trinv2_ref X /\ tr_trinv2 Rops X = trinv2_ref X.
Proof. intros; split; unfold trinv2_ref; gen_ring. Qed.
Print Assumptions C02_SE2_inv_is_trinv2.

Theorem C02_SE2_inverse_defect : forall X : M33 R,
  let Rm := t2r2 X in let t := transl2 X in
  tr_SE2_x_xinv Rops X = rt2tr2 Rops (mmul22 Rops Rm (mtr22 Rm))
                           (vsub2 Rops t (mv22 Rops (mmul22 Rops Rm (mtr22 Rm)) t)) /\
  tr_SE2_xinv_x Rops X = rt2tr2 Rops (mmul22 Rops (mtr22 Rm) Rm) (0, 0) /\
  tr_SE2_mul Rops X (tr_SE2_inv Rops X) = tr_SE2_x_xinv Rops X /\
  tr_SE2_mul Rops (tr_SE2_inv Rops X) X = tr_SE2_xinv_x Rops X.
Proof. cbv zeta; intros; repeat split; gen_ring. Qed.
Print Assumptions C02_SE2_inverse_defect.

Theorem C02_SE2_inverse : forall X : M33 R, SE2 X ->
  tr_SE2_mul Rops X (tr_SE2_inv Rops X) = I33 Rops /\ tr_SE2_mul Rops (tr_SE2_inv Rops X) X = I33 Rops /\
  tr_SE2_x_xinv Rops X = I33 Rops /\ tr_SE2_xinv_x Rops X = I33 Rops.
Proof.
  intros X [H _]. pose proof (C02_SE2_inverse_defect X) as E. cbv zeta in E. destruct E as (E1 & E2 & E3 & E4).
  rewrite E3, E4, E1, E2, (SO2_inv_r _ H), (SO2_inv_l _ H). generalize (transl2 X). intros t.
  destruct_tuples. lin_simpl. repeat split; tuple_eq ltac:(ring).
Qed.
Print Assumptions C02_SE2_inverse.

(* trinv2(T) is the true two-sided matrix inverse of T in SE(2), and equals adjugate / determinant *)
Theorem C02_trinv2_is_matrix_inverse : forall X : M33 R, SE2 X ->
  mmul33 Rops X (tr_trinv2 Rops X) = I33 Rops /\ mmul33 Rops (tr_trinv2 Rops X) X = I33 Rops /\
  tr_trinv2 Rops X = minv_aff3 Rops X.
Proof.
  intros X H. destruct (C02_SE2_inv_is_trinv2 X) as [Ei Et]. rewrite Et.
  destruct (C02_SE2_inverse X H) as (I1 & I2 & _). rewrite Ei in I1, I2.
  rewrite C02_SE2_mul_is_matmul in I1, I2. rewrite (aff3_SE2 X H) in I1, I2.
  assert (Ha : aff3 Rops (trinv2_ref X) = trinv2_ref X) by (destruct_tuples; unfold trinv2_ref; gen_unfold; reflexivity).
  rewrite Ha in I1, I2. repeat split; try assumption.
  destruct H as [H _]. destruct_tuples. unfold t2r2 in H.
  pose proof (SO2_columns _ _ _ _ H) as (?&?&?). unfold SO2 in H. destruct H as (?&?&?&?).
  unfold trinv2_ref. gen_unfold. match goal with |- context [_ / ?d] => replace d with 1 by lra end.
  unfold Rdiv; rewrite ?Rinv_1, ?Rmult_1_r. subst. tuple_eq ltac:(try lra; nsatz).
Qed.
Print Assumptions C02_trinv2_is_matrix_inverse.

Theorem C02_SE2_inv_antihom_defect : forall X Y : M33 R,
  let R1 := t2r2 X in let R2 := t2r2 Y in let t2 := transl2 Y in
  t2r2 (tr_SE2_inv_of_mul Rops X Y) = t2r2 (tr_SE2_mul_of_inv Rops X Y) /\
  lastrow3 (tr_SE2_inv_of_mul Rops X Y) = lastrow3 (tr_SE2_mul_of_inv Rops X Y) /\
  vsub2 Rops (transl2 (tr_SE2_inv_of_mul Rops X Y)) (transl2 (tr_SE2_mul_of_inv Rops X Y)) =
    vsub2 Rops (mv22 Rops (mtr22 R2) t2) (mv22 Rops (mmul22 Rops (mtr22 R2) (mmul22 Rops (mtr22 R1) R1)) t2) /\
  tr_SE2_inv Rops (tr_SE2_mul Rops X Y) = tr_SE2_inv_of_mul Rops X Y /\
  tr_SE2_mul Rops (tr_SE2_inv Rops Y) (tr_SE2_inv Rops X) = tr_SE2_mul_of_inv Rops X Y.
Proof. cbv zeta; intros; repeat split; gen_ring. Qed.
Print Assumptions C02_SE2_inv_antihom_defect.

Lemma M33_blocks_eq : forall A B : M33 R, t2r2 A = t2r2 B -> lastrow3 A = lastrow3 B ->
  vsub2 Rops (transl2 A) (transl2 B) = (0, 0) -> A = B.
Proof.
  intros A B H1 H2 H3. destruct_tuples. lin_simpl. injection H1; injection H2; injection H3; intros; subst.
  tuple_eq ltac:(lra).
Qed.

(* (X*Y).inv() = Y.inv() * X.inv() for X in SE(2) and ANY affine Y *)
Theorem C02_SE2_inv_antihom : forall X Y : M33 R, SO2 (t2r2 X) ->
  tr_SE2_inv_of_mul Rops X Y = tr_SE2_mul_of_inv Rops X Y /\
  tr_SE2_inv Rops (tr_SE2_mul Rops X Y) = tr_SE2_mul Rops (tr_SE2_inv Rops Y) (tr_SE2_inv Rops X).
Proof.
  intros X Y H. pose proof (C02_SE2_inv_antihom_defect X Y) as E. cbv zeta in E. destruct E as (E1 & E2 & E3 & E4 & E5).
  assert (E : tr_SE2_inv_of_mul Rops X Y = tr_SE2_mul_of_inv Rops X Y).
  { apply M33_blocks_eq; try assumption. rewrite E3, (SO2_inv_l _ H).
    generalize (t2r2 Y) (transl2 Y). intros. destruct_tuples. lin_simpl. tuple_eq ltac:(ring). }
  split; [exact E|]. rewrite E4, E5. exact E.
Qed.
Print Assumptions C02_SE2_inv_antihom.

Theorem C02_SE2_div : forall X Y : M33 R, tr_SE2_div Rops X Y = tr_SE2_mul Rops X (tr_SE2_inv Rops Y).
Proof. gen_ring. Qed.
Print Assumptions C02_SE2_div.

Example C02_b_nonvacuous :
  SO2 ((3/5, -4/5), (4/5, 3/5)) /\ SE2 ((3/5, -4/5, 7), (4/5, 3/5, -2), (0, 0, 1)) /\
  tr_SE2_mul Rops ((3/5, -4/5, 7), (4/5, 3/5, -2), (0, 0, 1)) ((3/5, -4/5, 7), (4/5, 3/5, -2), (0, 0, 1)) <> I33 Rops.
Proof.
  split; [|split].
  - unfold SO2. repeat split; lra.
  - unfold SE2, SO2. lin_simpl. repeat split; try lra.
  - gen_unfold. intro H. injection H. intros. lra.
Qed.
