(* C08 -- the clauses of the property text in readable form, for the hierarchy regenerated from /repo.
   See Props/C08.v for the table theorems and the conventions. *)
From Coq Require Import List Bool Arith NArith.
Import ListNotations.
From SM Require Import Model.C08_Ops.
From SMgen Require Import Hierarchy_C08.

Ltac table := apply table_forall; vm_compute; reflexivity.

(* ------------------------------------------------------------------ the property text, clause by clause (readable forms) *)
Definition both_lengths (P : nat -> bool) : bool := forallb P lengths.

(* composition of two objects of the same pose / quaternion / twist class stays in that class; so does / where defined *)
Theorem C08_same_class_composition :
  forallb (fun X => both_lengths (fun n => outcome_beq (binop H n Mul (Obj X) (Obj X)) (Value (RObj X) Computed)))
          [SO2; SE2; SO3; SE3; Quaternion; UnitQuaternion; Twist2; Twist3] = true /\
  forallb (fun X => both_lengths (fun n => outcome_beq (binop H n Div (Obj X) (Obj X)) (Value (RObj X) Computed)))
          [SO2; SE2; SO3; SE3; UnitQuaternion] = true.
Proof. vm_compute. split; reflexivity. Qed.
Print Assumptions C08_same_class_composition.

(* + - and scalar * / on poses give plain arrays (a list of arrays for a multi-valued pose) *)
Theorem C08_pose_arrays :
  forallb (fun X => both_lengths (fun n =>
     forallb (fun o => outcome_beq (binop H n o (Obj X) (Obj X)) (Value (arr n) Computed)) [Add; Sub]
     && forallb (fun s => outcome_beq (binop H n Mul (Obj X) s) (Value (arr n) Computed)
                          && outcome_beq (binop H n Mul s (Obj X)) (Value (arr n) Computed)
                          && outcome_beq (binop H n Div (Obj X) s) (Value (arr n) Computed)) [KFloat; KInt]))
    [SO2; SE2; SO3; SE3] = true.
Proof. vm_compute. reflexivity. Qed.
Print Assumptions C08_pose_arrays.

(* Quaternion with UnitQuaternion gives Quaternion; Twist*SE gives SE; SE3*Plucker gives Plucker; SE3 times a spatial vector
   gives that spatial-vector class (the last two for single-valued operands, which is all their code handles) *)
Theorem C08_mixed_documented :
  both_lengths (fun n => outcome_beq (binop H n Mul (Obj Quaternion) (Obj UnitQuaternion)) (Value (RObj Quaternion) Computed)
                      && outcome_beq (binop H n Mul (Obj UnitQuaternion) (Obj Quaternion)) (Value (RObj Quaternion) Computed)
                      && outcome_beq (binop H n Mul (Obj Twist3) (Obj SE3)) (Value (RObj SE3) Computed)
                      && outcome_beq (binop H n Mul (Obj Twist2) (Obj SE2)) (Value (RObj SE2) Computed)) = true /\
  binop H 1 Mul (Obj SE3) (Obj Plucker) = Value (RObj Plucker) Computed /\
  forallb (fun V => outcome_beq (binop H 1 Mul (Obj SE3) (Obj V)) (Value (RObj V) Computed))
          [SpatialVelocity; SpatialAcceleration; SpatialForce; SpatialMomentum] = true.
Proof. vm_compute. repeat split; reflexivity. Qed.
Print Assumptions C08_mixed_documented.

(* 2D with 3D, a rotation class with a rigid-motion class, matrices with quaternions or twists, unrelated spatial-vector
   classes: EVERY arithmetic operator raises, in both orders (before the fixes + and - returned None for a pose on the left,
   SE3 * SO3 an identity, Twist3 + Plucker a Twist3 holding foreign elements) *)
Definition all_arith : list op := [Mul; Div; Add; Sub; Pow; MatMul].
Definition raises_both_orders (ops : list op) (xs ys : list cls) : bool :=
  forallb (fun a => forallb (fun b => forallb (fun o => both_lengths (fun n =>
     outcome_beq (binop H n o (Obj a) (Obj b)) Raise && outcome_beq (binop H n o (Obj b) (Obj a)) Raise)) ops) ys) xs.
Theorem C08_unrelated_pairs_raise :
  raises_both_orders all_arith [SO2; SE2] [SO3; SE3] = true /\
  raises_both_orders all_arith [SO2; SO3] [SE2; SE3] = true /\
  raises_both_orders all_arith [SO2; SE2; SO3; SE3] [Quaternion; UnitQuaternion; SpatialInertia; DualQuaternion; UnitDualQuaternion] = true /\
  raises_both_orders all_arith [SO2; SE2; SO3] [Plucker; SpatialVelocity; SpatialAcceleration; SpatialForce; SpatialMomentum] = true /\
  raises_both_orders [Div; Add; Sub; Pow; MatMul] [SO2; SE2; SO3; SE3] [Twist2; Twist3] = true /\
  raises_both_orders [Mul] [SO2; SO3] [Twist2; Twist3] = true /\
  raises_both_orders all_arith [Quaternion; UnitQuaternion] [Twist2; Twist3; Plucker; DualQuaternion] = true /\
  raises_both_orders all_arith [Twist2] [Twist3; Plucker] = true /\ raises_both_orders all_arith [Twist3] [Plucker] = true /\
  raises_both_orders [Mul; Div; Add; Sub; Pow] [SpatialVelocity; SpatialAcceleration] [SpatialForce; SpatialMomentum] = true /\
  raises_both_orders all_arith [SpatialAcceleration] [SpatialForce; SpatialMomentum] = true /\
  raises_both_orders [Mul; Div; Add; Sub; Pow] [SpatialAcceleration] [SpatialVelocity] = true.
Proof. vm_compute. repeat split; reflexivity. Qed.
Print Assumptions C08_unrelated_pairs_raise.

(* == and != between operands of one class return booleans (a list for a multi-valued sequence) without raising: FULL, for
   all 16 classes (a4db0b4 repaired single-valued pose !=, fb8fbdb the spatial-vector classes and SpatialInertia, 2ec0dbf
   multi-valued Plucker).  The dual-quaternion classes are not sequences: one bool whatever their parts hold. *)
Theorem C08_same_class_comparison :
  forallb (fun X => both_lengths (fun n => forallb (fun o => outcome_beq (binop H n o (Obj X) (Obj X)) (Value (bools n) Computed)) [Eq; Ne]))
          [SO2; SE2; SO3; SE3; Quaternion; UnitQuaternion; Twist2; Twist3; Plucker;
           SpatialVelocity; SpatialAcceleration; SpatialForce; SpatialMomentum; SpatialInertia] = true /\
  forallb (fun X => both_lengths (fun n => forallb (fun o => outcome_beq (binop H n o (Obj X) (Obj X)) (Value RBool Computed)) [Eq; Ne]))
          [DualQuaternion; UnitDualQuaternion] = true.
Proof. vm_compute. split; reflexivity. Qed.
Print Assumptions C08_same_class_comparison.

(* (was _refuted before fix 56d2f84)  the product of two dual quaternions is a UnitDualQuaternion exactly when both factors are *)
Theorem C08_dual_quaternion_product_class :
  both_lengths (fun n =>
     outcome_beq (binop H n Mul (Obj UnitDualQuaternion) (Obj UnitDualQuaternion)) (Value (RObj UnitDualQuaternion) Computed)
  && outcome_beq (binop H n Mul (Obj UnitDualQuaternion) (Obj DualQuaternion)) (Value (RObj DualQuaternion) Computed)
  && outcome_beq (binop H n Mul (Obj DualQuaternion) (Obj UnitDualQuaternion)) (Value (RObj DualQuaternion) Computed)
  && outcome_beq (binop H n Mul (Obj DualQuaternion) (Obj DualQuaternion)) (Value (RObj DualQuaternion) Computed)) = true.
Proof. vm_compute. reflexivity. Qed.
Print Assumptions C08_dual_quaternion_product_class.

(* (was _refuted before fixes 11978d3 + d78118f)  scalar * twist and twist * scalar give the twist class, freshly computed,
   for EVERY length n (not only the table's 1 and 3) and either kind of scalar *)
Theorem C08_scalar_times_twist : forall (n : nat) (X : cls) (s : kind),
  In X [Twist2; Twist3] -> In s [KFloat; KInt] ->
  binop H n Mul s (Obj X) = Value (RObj X) Computed /\ binop H n Mul (Obj X) s = Value (RObj X) Computed.
Proof.
  intros n X s HX Hs. simpl in HX, Hs.
  destruct HX as [<- | [<- | []]]; destruct Hs as [<- | [<- | []]]; split; vm_compute; reflexivity.
Qed.
Print Assumptions C08_scalar_times_twist.

(* (raised AttributeError before fix 2cebac9)  SpatialInertia + SpatialInertia, single-valued *)
Theorem C08_spatial_inertia_add :
  binop H 1 Add (Obj SpatialInertia) (Obj SpatialInertia) = Value (RObj SpatialInertia) Computed.
Proof. vm_compute. reflexivity. Qed.
Print Assumptions C08_spatial_inertia_add.

(* (raised TypeError before fix 66a8f3b)  the spatial cross product  velocity @ motion vector  is a SpatialAcceleration,
   velocity @ force vector a SpatialForce (single-valued operands); acceleration @ anything has no such operator *)
Theorem C08_spatial_cross_product :
  forallb (fun X => outcome_beq (binop H 1 MatMul (Obj SpatialVelocity) (Obj X)) (Value (RObj SpatialAcceleration) Computed))
          [SpatialVelocity; SpatialAcceleration] = true /\
  forallb (fun X => outcome_beq (binop H 1 MatMul (Obj SpatialVelocity) (Obj X)) (Value (RObj SpatialForce) Computed))
          [SpatialForce; SpatialMomentum] = true /\
  forallb (fun X => both_lengths (fun n => outcome_beq (binop H n MatMul (Obj SpatialAcceleration) (Obj X)) Raise))
          [SpatialVelocity; SpatialAcceleration; SpatialForce; SpatialMomentum] = true.
Proof. vm_compute. repeat split; reflexivity. Qed.
Print Assumptions C08_spatial_cross_product.

