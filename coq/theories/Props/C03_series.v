(* C03 -- the closed form computed by trexp on so(3) IS the matrix exponential as defined by its power series (L-real).
   For a unit axis u and EVERY theta, entry by entry,
        Sum_{k>=0}  theta^k / k! * ([u]x^k)_ij   =   (rodrigues_th u theta)_ij        (Coquelicot [is_pseries] over Coq's Reals)
   where rodrigues_th is the so(3) branch of the hand model of trexp (Model/C03_ExpLog.v; tied to base.trexp / base.rodrigues on
   every run by the extracted-float correspondence and by bridge theorems to the concolic traces in Props/C03.v).
   This upgrades, for the rotation block, C03_trexp_is_expm_partial / the ODE characterisation of Props/C03_ode.v: no appeal to
   uniqueness of ODE solutions is needed.  C03_trexp_se3_is_expm_series does the same for all 16 entries of the se(3) case.
   Lemma library: theories/Model/C03_Series.v (fixed, built at setup). *)
From Coq Require Import Reals ZArith Lra Lia.
From Coquelicot Require Import Coquelicot.
From SM Require Import Base.Ops Base.Lin Base.RInst Base.RLin Model.C03_ExpLog Model.C03_Lemmas Model.C03_Ode Model.C03_Series.
From SMgen Require Import Consts_C03.
Open Scope R_scope.

Theorem C03_trexp_so3_is_expm_series : forall (u : V3 R) (th : R), normsq3 Rops u = 1 ->
  forall i j, (i < 3)%nat -> (j < 3)%nat ->
  is_pseries (fun k => e33 (mpow33 (skew3 Rops u) k) i j / INR (fact k)) th (e33 (rodrigues_th Rops u th) i j).
Proof. intros u th Hu i j Hi Hj. exact (rodrigues_is_expm_series u th i j Hu Hi Hj). Qed.
Print Assumptions C03_trexp_so3_is_expm_series.

(* the same statement in the standard library's own vocabulary (Pser = infinite_sum of a_k * x^k) *)
Theorem C03_trexp_so3_is_expm_series_Reals : forall (u : V3 R) (th : R), normsq3 Rops u = 1 ->
  forall i j, (i < 3)%nat -> (j < 3)%nat ->
  Pser (fun k => e33 (mpow33 (skew3 Rops u) k) i j / INR (fact k)) th (e33 (rodrigues_th Rops u th) i j).
Proof. intros u th Hu i j Hi Hj. apply is_pseries_Reals. exact (rodrigues_is_expm_series u th i j Hu Hi Hj). Qed.
Print Assumptions C03_trexp_so3_is_expm_series_Reals.

(* the same for the generator given WITHOUT theta: W = [theta u]x, any theta, |u| = 1 -- the exponential series of the matrix W itself
   (power series evaluated at 1) sums to Rodrigues(u, theta), which is what trexp returns for the vector w = theta u *)
Theorem C03_trexp_so3_general_is_expm_series : forall (u : V3 R) (th : R), normsq3 Rops u = 1 ->
  forall i j, (i < 3)%nat -> (j < 3)%nat ->
  is_series (fun k => e33 (mpow33 (skew3 Rops (vscale3 Rops th u)) k) i j / INR (fact k)) (e33 (rodrigues_th Rops u th) i j).
Proof.
  intros u th Hu i j Hi Hj. pose proof (rodrigues_is_exp_of_scaled_generator u th i j Hu Hi Hj) as H.
  apply is_pseries_R in H. apply is_series_ext with (2 := H). intro n. unfold expm_coeff. rewrite pow1. apply Rmult_1_r.
Qed.
Print Assumptions C03_trexp_so3_general_is_expm_series.

(* se(3), all 16 entries: trexp(S, theta) on a unit twist S = (v, w), |w| = 1 (the model's [trexp_unit]: rotation block Rodrigues,
   translation V(theta) v, last row 0 0 0 1) is the sum of the exponential series of theta [S], [S] = se3_hat S the 4x4 twist matrix *)
Theorem C03_trexp_se3_is_expm_series : forall (v0 v1 v2 w0 w1 w2 th : R),
  normsq3 Rops (w0,w1,w2) = 1 ->
  let S := (v0,v1,v2,w0,w1,w2) in
  forall i j, (i < 4)%nat -> (j < 4)%nat ->
  is_pseries (fun k => e44 (mpow44 (se3_hat S) k) i j / INR (fact k)) th (e44 (trexp_unit Rops C03_thr S th) i j).
Proof.
  intros v0 v1 v2 w0 w1 w2 th Hw S i j Hi Hj.
  assert (HK : thr_ok C03_thr) by (unfold thr_ok, C03_thr; cbn; repeat split; lra).
  exact (trexp_unit_is_expm_series C03_thr v0 v1 v2 w0 w1 w2 th HK Hw i j Hi Hj).
Qed.
Print Assumptions C03_trexp_se3_is_expm_series.

(* ... and for the twist given WITHOUT theta: the exponential series of the 4x4 matrix [theta S] itself sums to trexp(S, theta), S a unit twist *)
Theorem C03_trexp_se3_general_is_expm_series : forall (v0 v1 v2 w0 w1 w2 th : R),
  normsq3 Rops (w0,w1,w2) = 1 ->
  forall i j, (i < 4)%nat -> (j < 4)%nat ->
  is_series (fun k => e44 (mpow44 (se3_hat (vscale6r th (v0,v1,v2,w0,w1,w2))) k) i j / INR (fact k))
            (e44 (trexp_unit Rops C03_thr (v0,v1,v2,w0,w1,w2) th) i j).
Proof.
  intros v0 v1 v2 w0 w1 w2 th Hw i j Hi Hj.
  assert (HK : thr_ok C03_thr) by (unfold thr_ok, C03_thr; cbn; repeat split; lra).
  exact (trexp_unit_is_exp_of_scaled_twist C03_thr v0 v1 v2 w0 w1 w2 th i j HK Hw Hi Hj).
Qed.
Print Assumptions C03_trexp_se3_general_is_expm_series.

(* 2-D: trexp2(S, theta) on a unit se(2) twist S = (t0, t1, w), w = +-1, all 9 entries; [S] = se2_hat S *)
Theorem C03_trexp2_is_expm_series : forall (t0 t1 w th : R), w * w = 1 ->
  let S := (t0,t1,w) in
  forall i j, (i < 3)%nat -> (j < 3)%nat ->
  is_pseries (fun k => e33 (mpow33 (se2_hat S) k) i j / INR (fact k)) th (e33 (trexp2_unit Rops C03_thr S th) i j).
Proof.
  intros t0 t1 w th Hw S i j Hi Hj.
  assert (HK : thr_ok C03_thr) by (unfold thr_ok, C03_thr; cbn; repeat split; lra).
  exact (trexp2_unit_is_expm_series C03_thr t0 t1 w th HK Hw i j Hi Hj).
Qed.
Print Assumptions C03_trexp2_is_expm_series.

(* non-vacuity: a unit axis, and the first terms of one entry: about z, entry (0,1) is -sin theta = -theta + theta^3/6 - ... *)
Example C03_series_nonvacuous :
  normsq3 Rops (0, 3/5, 4/5) = 1 /\
  e33 (mpow33 (skew3 Rops (0,0,1)) 1) 0 1 / INR (fact 1) = -1 /\
  e33 (mpow33 (skew3 Rops (0,0,1)) 2) 0 1 / INR (fact 2) = 0 /\
  e33 (mpow33 (skew3 Rops (0,0,1)) 3) 0 1 / INR (fact 3) = 1/6.
Proof.
  split; [autounfold with smlin; sm_simpl; field|].
  repeat split; cbn [mpow33]; autounfold with smlin; sm_simpl; cbn [e33 fact Nat.mul Nat.add INR]; simpl; field.
Qed.
