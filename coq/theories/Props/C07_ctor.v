(* C07 (part 2) -- what the constructors let into an object.  Model: theories/Model/C07_Ctor.v (hand-written, mirrors
   SMUserList.arghandler + the per-class constructor fall-through as they are; tied to /repo on every run by the
   exhaustive table run of props/C07.py: class x container form x shape x defect kind x position of the bad item).
   Kind B: lists and finite enumerations, no real numbers -- every theorem here is axiom-free.

   FULL statement of the property:

     forall c a d, wf c a = true -> ctor c a = Ok d -> all_valid d.

   i.e. whenever a constructor returns an object, every element of .data is (derived from) a member of the group.
   Before the fixes 8457767 (isR), f16dbda (list path), 21d6c6d (UnitQuaternion N x 4), c16e6a7 (transl2) it was refuted four
   times; it is now proved at full strength for every class and every argument form (C07_ctor_sound), with no guard.
   UnitQuaternion(ndarray 4x4) is modelled explicitly: a 4x4 that passes ishom gives ONE quaternion (from its rotation
   block); any other 4x4 array is the documented N x 4 form with N = 4: four quaternion rows, normalised; an N x 4 array
   with a (near-)zero row is rejected with ValueError (C07_ctor_uq_4x4, C07_ctor_uq_stack). *)
From Coq Require Import List Bool Arith Lia.
Import ListNotations.
From SM Require Import Model.C07_Ctor.

Definition all_valid (d : list slot) : Prop := Forall (fun x => valid_slot x = true) d.

Ltac nat7 n := destruct n as [|[|[|[|[|[|[|n]]]]]]].
Ltac shape_cases s :=
  let n := fresh "n" in let r := fresh "r" in let c := fresh "c" in
  destruct s as [n|n|r c|]; [nat7 n | nat7 n | nat7 r; nat7 c | ].

Lemma all_valid_repeat_made n : all_valid (repeat Made n).
Proof. induction n; simpl; constructor; auto. Qed.
Lemma not_all_valid_none d1 d2 : ~ all_valid (d1 ++ NoneElt :: d2).
Proof. intros H. apply Forall_app in H. destruct H as [_ H]. inversion H; subst. discriminate. Qed.

(* ------------------------------------------------------------------ UnitQuaternion(N x 4 array), N = 4 included *)
Theorem C07_ctor_uq_4x4 :
  ctor cUQ (Bare (Arr (Sq 4) Valid)) = Ok [Conv (Arr (Sq 4) Valid)] /\
  (forall t, hom_ok t = false -> t <> ZeroRow -> ctor cUQ (Bare (Arr (Sq 4) t)) = Ok (repeat Made 4)) /\
  ctor cUQ (Bare (Arr (Sq 4) ZeroRow)) = Err ValueError.
Proof. repeat split. intros t H Hz. destruct t; try discriminate; try reflexivity. contradiction. Qed.
Print Assumptions C07_ctor_uq_4x4.
(* UnitQuaternion(ndarray of 4 numbers): stored if unit, otherwise normalised like the list form (fix d0fc1b2); the zero vector is rejected *)
Theorem C07_ctor_uq_vec4 :
  ctor cUQ (Bare (Arr (Vec 4) Valid)) = Ok [Elt (Arr (Vec 4) Valid)] /\
  ctor cUQ (Bare (Arr (Vec 4) AltForm)) = Ok [Made] /\ ctor cUQ (Bare (Arr (Vec 4) ZeroRow)) = Err ValueError.
Proof. repeat split. Qed.
Print Assumptions C07_ctor_uq_vec4.
Theorem C07_ctor_uq_stack : forall r t, r <> 4 ->
  ctor cUQ (Bare (Arr (Rect r 4) t)) = if tag_eqb t ZeroRow then Err ValueError else Ok (repeat Made r).
Proof. intros r t H. nat7 r; try reflexivity; contradiction. Qed.
Print Assumptions C07_ctor_uq_stack.

(* ------------------------------------------------------------------ all outcomes of the bare-ndarray path *)
Inductive bare_outcome (c : cls) (it : item) : result (list slot) -> Prop :=
| bo_acc : accept c it = true -> bare_outcome c it (Ok [stored c it])
| bo_err : forall e, accept c it = false -> bare_outcome c it (Err e)
| bo_made : forall n, accept c it = false -> bare_outcome c it (Ok (repeat Made n))
| bo_conv : c = cUQ -> rot_ok (itag it) = true -> bare_outcome c it (Ok [Conv it]).
Lemma bare_outcome_spec : forall c it, bare_outcome c it (ctor c (Bare it)).
Proof.
  intros c [s t]. unfold ctor. destruct (accept c (Arr s t)) eqn:Ea; [apply bo_acc; exact Ea|].
  destruct c; cbn [is_twist]; try (apply bo_err; exact Ea).
  - (* SO2 *) cbn [fallthrough]. destruct (any_vec s); [apply bo_made | apply bo_err]; exact Ea.
  - (* SE2 *) shape_cases s; cbn; try (apply bo_err; exact Ea); try (apply (bo_made _ _ 1); exact Ea).
  - (* SE3 *) cbn [fallthrough]. destruct (is_vec s 3); [apply (bo_made _ _ 1); exact Ea|].
    shape_cases s; cbn -[repeat]; try (apply bo_err; exact Ea); try (apply bo_made; exact Ea).
  - (* UQ *) shape_cases s; cbn -[repeat]; try (apply bo_err; exact Ea);
      destruct t; cbn -[repeat]; try (apply bo_err; exact Ea); try (apply bo_made; exact Ea); try (apply bo_conv; reflexivity).
Qed.

Lemma accept_valid : forall c it, accept c it = true -> applicable c it = true -> valid_slot (stored c it) = true.
Proof.
  intros c [s t] Ha Hp. destruct c; cbn in *.
  1-5: destruct t; try discriminate; try reflexivity; rewrite ?andb_false_r in Ha; discriminate.
  - unfold stored. cbn [ish]. destruct (is_sq s 3); cbn; destruct (dims_eqb (dims s) [3]); destruct t; cbn in *; try discriminate; reflexivity.
  - unfold stored. cbn [ish]. destruct (is_sq s 4); cbn; destruct (dims_eqb (dims s) [6]); destruct t; cbn in *; try discriminate; reflexivity.
Qed.
Lemma all_valid_stored c l : Forall (fun it => accept c it = true /\ applicable c it = true) l -> all_valid (map (stored c) l).
Proof. induction 1 as [|it l [Ha Hp] _ IH]; simpl; constructor; auto. apply accept_valid; auto. Qed.
Lemma forallb_and2 (f g : item -> bool) l : forallb f l = true -> forallb g l = true -> Forall (fun it => f it = true /\ g it = true) l.
Proof.
  induction l; simpl; intros; constructor.
  - apply andb_true_iff in H, H0. tauto.
  - apply andb_true_iff in H, H0. apply IHl; tauto.
Qed.

(* lists and tuples: the FULL statement, every class, every length, no guard *)
Theorem C07_ctor_sound_seq : forall c l d, wf c (Seq l) = true -> ctor c (Seq l) = Ok d -> all_valid d.
Proof.
  intros c l d Hwf Hc. destruct l as [|h l]; [injection Hc as <-; constructor|]. unfold ctor in Hc.
  cbn [wf] in Hwf. apply andb_true_iff in Hwf. destruct Hwf as [_ Hp].
  set (L := h :: l) in *. clearbody L.
  assert (K : forall e, (if forallb (accept c) L then Ok (map (stored c) L) else Err e) = Ok d -> all_valid d).
  { intros e. destruct (forallb (accept c) L) eqn:Ea; [|discriminate]. intros H. injection H as <-.
    apply all_valid_stored. apply forallb_and2; assumption. }
  destruct (is_twist c); [eapply K; eassumption|]. destruct (is_pose c); [eapply K; eassumption|].
  destruct (negb (forallb (fun it => is_array (ish it)) L)); [discriminate | eapply K; eassumption].
Qed.
Print Assumptions C07_ctor_sound_seq.
Example C07_ctor_sound_seq_nonvacuous :
  wf cSE3 (Seq [Arr (Sq 4) Valid; Arr (Sq 4) Valid]) = true /\ (exists d, ctor cSE3 (Seq [Arr (Sq 4) Valid; Arr (Sq 4) Valid]) = Ok d) /\
  wf cTw3 (Seq [Arr (Vec 6) Valid; Arr (Sq 4) Valid]) = true /\ (exists d, ctor cTw3 (Seq [Arr (Vec 6) Valid; Arr (Sq 4) Valid]) = Ok d).
Proof. repeat split; eexists; reflexivity. Qed.

(* THE FULL STATEMENT: every class, every argument form, no guard *)
Theorem C07_ctor_sound : forall c a d, wf c a = true -> ctor c a = Ok d -> all_valid d.
Proof.
  intros c a d Hwf Hc. destruct a as [it|l]; [|eapply C07_ctor_sound_seq; eassumption].
  pose proof (bare_outcome_spec c it) as B. rewrite Hc in B. cbn in Hwf. apply andb_true_iff in Hwf. destruct Hwf as [_ Hp].
  inversion B; subst.
  - constructor; [|constructor]. apply accept_valid; auto.
  - apply all_valid_repeat_made.
  - constructor; [|constructor]. cbn. destruct it as [s t]. cbn in *. destruct t; try discriminate; reflexivity.
Qed.
Print Assumptions C07_ctor_sound.
Example C07_ctor_sound_nonvacuous :
  wf cSE3 (Bare (Arr (Sq 4) Valid)) = true /\ (exists d, ctor cSE3 (Bare (Arr (Sq 4) Valid)) = Ok d) /\
  wf cUQ (Bare (Arr (Rect 3 4) AltForm)) = true /\ (exists d, ctor cUQ (Bare (Arr (Rect 3 4) AltForm)) = Ok d) /\
  wf cUQ (Bare (Arr (Sq 4) AltForm)) = true /\ (exists d, ctor cUQ (Bare (Arr (Sq 4) AltForm)) = Ok d) /\
  wf cUQ (Bare (Arr (Sq 4) Valid)) = true /\ (exists d, ctor cUQ (Bare (Arr (Sq 4) Valid)) = Ok d).
Proof. repeat split; eexists; reflexivity. Qed.

(* ------------------------------------------------------------------ rejection, universally *)
(* a rejected element at any position of any list / tuple makes every constructor raise (fix f16dbda for the pose classes) *)
Theorem C07_ctor_list_rejects : forall c l it, In it l -> accept c it = false -> exists e, ctor c (Seq l) = Err e.
Proof.
  intros c l it Hin Ha. destruct l as [|h l]; [contradiction|]. unfold ctor.
  assert (E : forallb (accept c) (h :: l) = false).
  { destruct (forallb (accept c) (h :: l)) eqn:E; auto. rewrite forallb_forall in E. rewrite (E _ Hin) in Ha. discriminate. }
  rewrite E. destruct (is_twist c); [eexists; reflexivity|]. destruct (is_pose c); [eexists; reflexivity|]. destruct (negb _); eexists; reflexivity.
Qed.
Print Assumptions C07_ctor_list_rejects.
Example C07_ctor_list_rejects_nonvacuous :
  accept cSO3 (Arr (Sq 3) NotOrtho) = false /\ accept cSO3 (Arr (Sq 3) Reflect) = false /\ accept cSE3 (Arr (Sq 4) BadRow) = false /\
  accept cSO3 (Arr NonArray WrongShape) = false /\ accept cTw3 (Arr (Sq 4) NotAlgebra) = false /\ accept cUQ (Arr (Vec 4) AltForm) = false.
Proof. repeat split. Qed.
(* no constructor ever yields a None or a float element *)
Theorem C07_ctor_no_none : forall c a d, ctor c a = Ok d -> ~ In NoneElt d /\ ~ In NormFloat d.
Proof.
  assert (S : forall c l, ~ In NoneElt (map (stored c) l) /\ ~ In NormFloat (map (stored c) l)).
  { intros c l. split; intros H; apply in_map_iff in H; destruct H as [x [H _]]; unfold stored in H;
      destruct c; try discriminate; destruct (is_sq _ _); discriminate. }
  assert (Rp : forall x n, x <> NoneElt -> x <> NormFloat -> ~ In NoneElt (repeat x n) /\ ~ In NormFloat (repeat x n)).
  { intros x n H1 H2. split; intros H; apply repeat_spec in H; congruence. }
  intros c a d Hc. destruct a as [it|l].
  - pose proof (bare_outcome_spec c it) as B. rewrite Hc in B. inversion B; subst.
    + apply (S c [it]).
    + apply Rp; discriminate.
    + apply (Rp (Conv it) 1); discriminate.
  - destruct l as [|h l]; [injection Hc as <-; split; intros []|]. unfold ctor in Hc. set (L := h :: l) in *. clearbody L.
    assert (K : forall e, (if forallb (accept c) L then Ok (map (stored c) L) else Err e) = Ok d -> ~ In NoneElt d /\ ~ In NormFloat d).
    { intros e. destruct (forallb (accept c) L); [|discriminate]. intros H. injection H as <-. apply S. }
    destruct (is_twist c); [eapply K; eassumption|]. destruct (is_pose c); [eapply K; eassumption|].
    destruct (negb _); [discriminate | eapply K; eassumption].
Qed.
Print Assumptions C07_ctor_no_none.
(* bare arrays of the native shape that are reflections / not orthonormal / have a bad last row / are not of algebra form are rejected *)
Theorem C07_ctor_bare_rejects :
  (forall t, In t [NotOrtho; Reflect] -> exists e, ctor cSO2 (Bare (Arr (Sq 2) t)) = Err e) /\
  (forall t, In t [NotOrtho; Reflect] -> exists e, ctor cSO3 (Bare (Arr (Sq 3) t)) = Err e) /\
  (forall t, In t [NotOrtho; Reflect; BadRow] -> exists e, ctor cSE2 (Bare (Arr (Sq 3) t)) = Err e) /\
  (forall t, In t [NotOrtho; Reflect; BadRow] -> exists e, ctor cSE3 (Bare (Arr (Sq 4) t)) = Err e) /\
  (exists e, ctor cUQ (Bare (Arr (Vec 4) ZeroRow)) = Err e) /\
  (forall t, In t [NotOrtho; Reflect] -> exists e, ctor cUQ (Bare (Arr (Sq 3) t)) = Err e) /\
  (exists e, ctor cTw3 (Bare (Arr (Sq 4) NotAlgebra)) = Err e) /\ (exists e, ctor cTw2 (Bare (Arr (Sq 3) NotAlgebra)) = Err e) /\
  (forall k, exists e, ctor cSE2 (Bare (Arr (Rect 2 (S (S k))) WrongShape)) = Err e).
Proof.
  repeat split; try (eexists; reflexivity); try (intros t Ht; cbn in Ht; repeat destruct Ht as [<-|Ht]; try contradiction; eexists; reflexivity);
    try (intros k; destruct k as [|[|k]]; eexists; reflexivity).
Qed.
Print Assumptions C07_ctor_bare_rejects.
(* ------------------------------------------------------------------ completeness: members are taken, bare or in a list of any length, in order *)
(* the empty list / tuple gives the empty object for every class (fix 1105ad0) *)
Theorem C07_ctor_empty : forall c, ctor c (Seq []) = Ok [].
Proof. reflexivity. Qed.
Print Assumptions C07_ctor_empty.
Theorem C07_ctor_accepts_members :
  accept cSO2 (Arr (Sq 2) Valid) = true /\ accept cSE2 (Arr (Sq 3) Valid) = true /\ accept cSO3 (Arr (Sq 3) Valid) = true /\
  accept cSE3 (Arr (Sq 4) Valid) = true /\ accept cUQ (Arr (Vec 4) Valid) = true /\ accept cTw3 (Arr (Vec 6) Valid) = true /\
  accept cTw3 (Arr (Sq 4) Valid) = true /\ accept cTw2 (Arr (Vec 3) Valid) = true /\ accept cTw2 (Arr (Sq 3) Valid) = true.
Proof. repeat split. Qed.
Print Assumptions C07_ctor_accepts_members.
Theorem C07_ctor_complete : forall c l, l <> [] -> forallb (accept c) l = true ->
  ctor c (Seq l) = Ok (map (stored c) l) /\ (forall it, accept c it = true -> ctor c (Bare it) = Ok [stored c it]).
Proof.
  intros c l Hl Ha. split.
  - destruct l as [|h l]; [contradiction|]. unfold ctor. rewrite Ha.
    destruct (is_twist c) eqn:Et; [reflexivity|]. destruct (is_pose c) eqn:Ep; [reflexivity|].
    assert (Hr : forallb (fun it => is_array (ish it)) (h :: l) = true).
    { rewrite forallb_forall in *. intros [s t] Hx. specialize (Ha _ Hx). destruct c; try discriminate. destruct s; cbn in *; try reflexivity. discriminate. }
    rewrite Hr. reflexivity.
  - intros it H. unfold ctor. rewrite H. reflexivity.
Qed.
Print Assumptions C07_ctor_complete.
