(* C07 (part 2) -- what the constructors let into an object.  Model: theories/Model/C07_Ctor.v (hand-written, mirrors
   SMUserList.arghandler + the per-class constructor fall-through as they are; tied to /repo on every run by the
   exhaustive table run of props/C07.py: class x container form x shape x defect kind x position of the bad item).
   Kind B: lists and finite enumerations, no real numbers -- every theorem here is axiom-free.

   FULL statement of the property (false of the code as it is; kept here, refuted below, proved under a guard):

     forall c a d, wf c a = true -> ctor c a = Ok d -> all_valid d.

   i.e. whenever a constructor returns an object, every element of .data is (derived from) a member of the group. *)
From Coq Require Import List Bool Arith Lia.
Import ListNotations.
From SM Require Import Model.C07_Ctor.

Definition all_valid (d : list slot) : Prop := Forall (fun x => valid_slot x = true) d.

Ltac nat7 n := destruct n as [|[|[|[|[|[|[|n]]]]]]].
Ltac shape_cases s :=
  let n := fresh "n" in let r := fresh "r" in let c := fresh "c" in
  destruct s as [n|n|r c|]; [nat7 n | nat7 n | nat7 r; nat7 c | ].

Lemma all_valid_repeat_made n : all_valid (repeat Made n).
Proof. induction n; simpl; constructor; auto. Qed.
Lemma not_all_valid_none d1 d2 : ~ all_valid (d1 ++ NoneElt :: d2).
Proof. intros H. apply Forall_app in H. destruct H as [_ H]. inversion H; subst. discriminate. Qed.

(* ------------------------------------------------------------------ the four holes, as refutations of the full statement *)
Theorem C07_ctor_sound_refuted_reflection : exists c a d, wf c a = true /\ ctor c a = Ok d /\ ~ all_valid d.
Proof.
  exists cSO3, (Bare (Arr (Sq 3) Reflect)), [Elt (Arr (Sq 3) Reflect)]. repeat split.
  intros H. inversion H; subst. discriminate.
Qed.
Print Assumptions C07_ctor_sound_refuted_reflection.
Theorem C07_ctor_sound_refuted_list_none : exists c a d, wf c a = true /\ ctor c a = Ok d /\ ~ all_valid d /\ In NoneElt d.
Proof.
  exists cSO3, (Seq [Arr (Sq 3) Valid; Arr (Sq 3) NotOrtho]), [Elt (Arr (Sq 3) Valid); NoneElt]. repeat split.
  - apply (not_all_valid_none [Elt (Arr (Sq 3) Valid)] []).
  - simpl; auto.
Qed.
Print Assumptions C07_ctor_sound_refuted_list_none.
Theorem C07_ctor_sound_refuted_uq_stack : exists a d, wf cUQ a = true /\ ctor cUQ a = Ok d /\ ~ all_valid d /\ In NormFloat d.
Proof.
  exists (Bare (Arr (Rect 2 4) Valid)), [NormFloat; NormFloat]. repeat split.
  - intros H. inversion H; subst. discriminate.
  - simpl; auto.
Qed.
Print Assumptions C07_ctor_sound_refuted_uq_stack.
Theorem C07_ctor_sound_refuted_se2_matrix : exists a d, wf cSE2 a = true /\ ctor cSE2 a = Ok d /\ ~ all_valid d /\ In NoneElt d.
Proof.
  exists (Bare (Arr (Sq 2) WrongShape)), [NoneElt]. repeat split.
  - apply (not_all_valid_none [] []).
  - simpl; auto.
Qed.
Print Assumptions C07_ctor_sound_refuted_se2_matrix.

(* ------------------------------------------------------------------ the holes, universally quantified *)
(* the list / tuple path of the pose classes never raises: every rejected element becomes None, at any position *)
Theorem C07_ctor_pose_list_never_raises : forall c l, is_pose c = true -> l <> [] -> ctor c (Seq l) = Ok (map (import_pose c) l).
Proof. intros c l Hc Hl. destruct l; [contradiction|]. unfold ctor. rewrite Hc. reflexivity. Qed.
Print Assumptions C07_ctor_pose_list_never_raises.
Theorem C07_ctor_pose_list_none : forall c l it, is_pose c = true -> In it l -> accept c it = false ->
  exists d, ctor c (Seq l) = Ok d /\ length d = length l /\ In NoneElt d.
Proof.
  intros c l it Hc Hin Hacc. exists (map (import_pose c) l). split; [|split].
  - apply C07_ctor_pose_list_never_raises; auto. intros ->. contradiction.
  - apply map_length.
  - apply in_map_iff. exists it. split; auto. unfold import_pose. rewrite Hacc. reflexivity.
Qed.
Print Assumptions C07_ctor_pose_list_none.
Example C07_ctor_pose_list_none_nonvacuous : is_pose cSE3 = true /\ accept cSE3 (Arr (Sq 4) BadRow) = false.
Proof. split; reflexivity. Qed.
(* every pose class takes a bare reflection of its native shape *)
Theorem C07_ctor_reflection_accepted :
  ctor cSO2 (Bare (Arr (Sq 2) Reflect)) = Ok [Elt (Arr (Sq 2) Reflect)] /\ ctor cSE2 (Bare (Arr (Sq 3) Reflect)) = Ok [Elt (Arr (Sq 3) Reflect)] /\
  ctor cSO3 (Bare (Arr (Sq 3) Reflect)) = Ok [Elt (Arr (Sq 3) Reflect)] /\ ctor cSE3 (Bare (Arr (Sq 4) Reflect)) = Ok [Elt (Arr (Sq 4) Reflect)] /\
  ctor cUQ (Bare (Arr (Sq 3) Reflect)) = Ok [Conv (Arr (Sq 3) Reflect)] /\ ctor cUQ (Bare (Arr (Sq 4) Reflect)) = Ok [Conv (Arr (Sq 4) Reflect)].
Proof. repeat split. Qed.
Print Assumptions C07_ctor_reflection_accepted.
(* UnitQuaternion(ndarray of shape (N,4)) stores N floats, whatever the rows are (N <> 4, or a 4x4 that is not a valid homogeneous matrix) *)
Theorem C07_ctor_uq_stack_norms : forall r t, r <> 4 -> ctor cUQ (Bare (Arr (Rect r 4) t)) = Ok (repeat NormFloat r).
Proof. intros r t H. nat7 r; try reflexivity; contradiction. Qed.
Print Assumptions C07_ctor_uq_stack_norms.

(* ------------------------------------------------------------------ what does hold *)
(* all outcomes of the bare-ndarray path *)
Definition se2_hole (s : shape) : bool := match dims s with [2; 1] => false | [2; _] => true | _ => false end.
Definition uq_hole (it : item) : bool :=
  let '(Arr s t) := it in match dims s with [4; 4] => negb (hom_ok t) | [_; 4] => true | _ => false end.
Inductive bare_outcome (c : cls) (it : item) : result (list slot) -> Prop :=
| bo_acc : accept c it = true -> bare_outcome c it (Ok [stored c it])
| bo_err : forall e, accept c it = false -> bare_outcome c it (Err e)
| bo_made : forall n, accept c it = false -> bare_outcome c it (Ok (repeat Made n))
| bo_none : c = cSE2 -> se2_hole (ish it) = true -> bare_outcome c it (Ok [NoneElt])
| bo_conv : c = cUQ -> rot_ok (itag it) = true -> bare_outcome c it (Ok [Conv it])
| bo_norm : forall r, c = cUQ -> uq_hole it = true -> bare_outcome c it (Ok (repeat NormFloat r)).
Lemma bare_outcome_spec : forall c it, bare_outcome c it (ctor c (Bare it)).
Proof.
  intros c [s t]. unfold ctor. destruct (accept c (Arr s t)) eqn:Ea; [apply bo_acc; exact Ea|].
  destruct c; cbn [is_twist]; try (apply bo_err; exact Ea).
  - (* SO2 *) cbn [fallthrough]. destruct (any_vec s); [apply bo_made | apply bo_err]; exact Ea.
  - (* SE2 *) shape_cases s; cbn; try (apply bo_err; exact Ea); try (apply (bo_made _ _ 1); exact Ea); try (apply bo_none; reflexivity).
  - (* SE3 *) cbn [fallthrough]. destruct (is_vec s 3); [apply (bo_made _ _ 1); exact Ea|].
    shape_cases s; cbn -[repeat]; try (apply bo_err; exact Ea); try (apply bo_made; exact Ea).
  - (* UQ *) shape_cases s; cbn -[repeat]; try (apply bo_err; exact Ea); try (apply (bo_norm _ _ _ eq_refl); reflexivity);
      destruct t; cbn -[repeat]; try (apply bo_err; exact Ea); try (apply bo_conv; reflexivity); try (apply (bo_norm _ _ 4 eq_refl); reflexivity).
Qed.

Definition items (a : argform) : list item := match a with Bare it => [it] | Seq l => l end.
Definition no_reflect (a : argform) : bool := forallb (fun it => negb (tag_eqb (itag it) Reflect)) (items a).
(* the guard excludes exactly the four holes: reflections (base.isR), the list path of the pose classes, SE2 given a 2 x k
   matrix, UnitQuaternion given an N x 4 array *)
Definition guard (c : cls) (a : argform) : bool :=
  no_reflect a &&
  match a with
  | Seq _ => negb (is_pose c)
  | Bare it => match c with cSE2 => negb (se2_hole (ish it)) | cUQ => negb (uq_hole it) | _ => true end
  end.

Lemma accept_valid : forall c it, accept c it = true -> applicable c it = true -> tag_eqb (itag it) Reflect = false ->
  valid_slot (stored c it) = true.
Proof.
  intros c [s t] Ha Hp Hr. destruct c; cbn in *.
  1-5: destruct t; try discriminate; try reflexivity; rewrite ?andb_false_r in Ha; discriminate.
  - unfold stored. cbn [ish]. destruct (is_sq s 3); cbn; destruct (dims_eqb (dims s) [3]); destruct t; cbn in *; try discriminate; reflexivity.
  - unfold stored. cbn [ish]. destruct (is_sq s 4); cbn; destruct (dims_eqb (dims s) [6]); destruct t; cbn in *; try discriminate; reflexivity.
Qed.
Lemma all_valid_stored c l : Forall (fun it => accept c it = true /\ applicable c it = true /\ tag_eqb (itag it) Reflect = false) l ->
  all_valid (map (stored c) l).
Proof. induction 1 as [|it l [Ha [Hp Hr]] _ IH]; simpl; constructor; auto. apply accept_valid; auto. Qed.
Lemma forallb_and3 (f g h : item -> bool) l : forallb f l = true -> forallb g l = true -> forallb h l = true ->
  Forall (fun it => f it = true /\ g it = true /\ h it = true) l.
Proof.
  induction l; simpl; intros; constructor.
  - apply andb_true_iff in H, H0, H1. tauto.
  - apply andb_true_iff in H, H0, H1. apply IHl; tauto.
Qed.

Theorem C07_ctor_sound_partial : forall c a d, wf c a = true -> guard c a = true -> ctor c a = Ok d -> all_valid d.
Proof.
  intros c a d Hwf Hg Hc. unfold guard in Hg. apply andb_true_iff in Hg. destruct Hg as [Hr Hg]. destruct a as [it|l].
  - (* bare *)
    pose proof (bare_outcome_spec c it) as B. rewrite Hc in B. cbn in Hwf, Hr. rewrite andb_true_r in Hr.
    apply andb_true_iff in Hwf. destruct Hwf as [_ Hp]. apply negb_true_iff in Hr.
    inversion B; subst.
    + constructor; [|constructor]. apply accept_valid; auto.
    + apply all_valid_repeat_made.
    + rewrite H1 in Hg. discriminate.
    + constructor; [|constructor]. cbn. destruct it as [s t]. cbn in *. destruct t; try discriminate; reflexivity.
    + rewrite H1 in Hg. discriminate.
  - (* list / tuple: only the classes whose import raises *)
    apply negb_true_iff in Hg. destruct l as [|h l]; [discriminate|]. unfold ctor in Hc. rewrite Hg in Hc.
    cbn [wf] in Hwf. apply andb_true_iff in Hwf. destruct Hwf as [_ Hp]. unfold no_reflect in Hr. cbn [items] in Hr.
    set (L := h :: l) in *. clearbody L.
    destruct (is_twist c).
    + destruct (forallb (accept c) L) eqn:Ea; [|discriminate]. injection Hc as <-. apply all_valid_stored.
      eapply Forall_impl; [|apply (forallb_and3 _ _ _ _ Ea Hp Hr)]. cbn. intros it [? [? ?]]. repeat split; auto. apply negb_true_iff; auto.
    + destruct (negb (forallb (fun it => is_array (ish it)) L)); [discriminate|].
      destruct (forallb (accept c) L) eqn:Ea; [|discriminate]. injection Hc as <-. apply all_valid_stored.
      eapply Forall_impl; [|apply (forallb_and3 _ _ _ _ Ea Hp Hr)]. cbn. intros it [? [? ?]]. repeat split; auto. apply negb_true_iff; auto.
Qed.
Print Assumptions C07_ctor_sound_partial.
Example C07_ctor_sound_partial_nonvacuous :
  wf cSE3 (Bare (Arr (Sq 4) Valid)) = true /\ guard cSE3 (Bare (Arr (Sq 4) Valid)) = true /\ (exists d, ctor cSE3 (Bare (Arr (Sq 4) Valid)) = Ok d) /\
  wf cTw3 (Seq [Arr (Vec 6) Valid; Arr (Sq 4) Valid]) = true /\ guard cTw3 (Seq [Arr (Vec 6) Valid; Arr (Sq 4) Valid]) = true /\
  (exists d, ctor cTw3 (Seq [Arr (Vec 6) Valid; Arr (Sq 4) Valid]) = Ok d).
Proof. repeat split; eexists; reflexivity. Qed.

(* the twist classes satisfy the FULL statement: no guard *)
Theorem C07_ctor_sound_twist : forall c a d, is_twist c = true -> wf c a = true -> ctor c a = Ok d -> all_valid d.
Proof.
  intros c a d Ht Hwf Hc. apply (C07_ctor_sound_partial c a d Hwf); auto. unfold guard. apply andb_true_iff. split.
  - (* wf: no tag of a twist argument is Reflect *)
    assert (Hp : forallb (applicable c) (items a) = true).
    { destruct a as [it|l]; cbn in *; [apply andb_true_iff in Hwf; destruct Hwf as [_ ->]; reflexivity | apply andb_true_iff in Hwf; tauto]. }
    unfold no_reflect. revert Hp. generalize (items a). induction l as [|[s t] l IH]; cbn; auto. intros H. apply andb_true_iff in H. destruct H as [H1 H2].
    rewrite (IH H2), andb_true_r. destruct c; try discriminate; cbn in H1;
      repeat match type of H1 with context [if ?b then _ else _] => destruct b end; destruct t; cbn in *; try discriminate; reflexivity.
  - destruct a; destruct c; try discriminate; reflexivity.
Qed.
Print Assumptions C07_ctor_sound_twist.
(* UnitQuaternion: lists and tuples of 4-vectors are sound (a rejected element makes base.unit(None) raise) *)
Theorem C07_ctor_sound_uq_seq : forall l d, ctor cUQ (Seq l) = Ok d -> all_valid d.
Proof.
  intros l d Hc. destruct l as [|h l]; [discriminate|]. unfold ctor in Hc. cbn [is_pose is_twist] in Hc.
  set (L := h :: l) in *. clearbody L.
  destruct (negb (forallb (fun it => is_array (ish it)) L)); [discriminate|].
  destruct (forallb (accept cUQ) L) eqn:Ea; [|discriminate]. injection Hc as <-.
  rewrite forallb_forall in Ea. apply Forall_forall. intros x Hx. apply in_map_iff in Hx. destruct Hx as [[s t] [<- Hin]].
  specialize (Ea _ Hin). cbn in Ea. apply andb_true_iff in Ea. destruct Ea as [_ Ea]. destruct t; try discriminate. reflexivity.
Qed.
Print Assumptions C07_ctor_sound_uq_seq.
(* outside the pose classes a rejected element anywhere in a list makes the constructor raise *)
Theorem C07_ctor_nonpose_list_rejects : forall c l it, is_pose c = false -> In it l -> accept c it = false -> exists e, ctor c (Seq l) = Err e.
Proof.
  intros c l it Hc Hin Ha. destruct l as [|h l]; [contradiction|]. unfold ctor. rewrite Hc.
  assert (E : forallb (accept c) (h :: l) = false).
  { destruct (forallb (accept c) (h :: l)) eqn:E; auto. rewrite forallb_forall in E. rewrite (E _ Hin) in Ha. discriminate. }
  rewrite E. destruct (is_twist c); [eexists; reflexivity|]. destruct (negb _); eexists; reflexivity.
Qed.
Print Assumptions C07_ctor_nonpose_list_rejects.
Example C07_ctor_nonpose_list_rejects_nonvacuous : is_pose cTw3 = false /\ accept cTw3 (Arr (Sq 4) NotAlgebra) = false /\ accept cUQ (Arr (Vec 4) NotOrtho) = false.
Proof. repeat split. Qed.

(* bare arrays of the native shape that are not orthonormal / have a bad last row / are not of algebra form ARE rejected *)
Theorem C07_ctor_bare_rejects :
  (forall t, In t [NotOrtho] -> exists e, ctor cSO2 (Bare (Arr (Sq 2) t)) = Err e) /\
  (forall t, In t [NotOrtho] -> exists e, ctor cSO3 (Bare (Arr (Sq 3) t)) = Err e) /\
  (forall t, In t [NotOrtho; BadRow] -> exists e, ctor cSE2 (Bare (Arr (Sq 3) t)) = Err e) /\
  (forall t, In t [NotOrtho; BadRow] -> exists e, ctor cSE3 (Bare (Arr (Sq 4) t)) = Err e) /\
  (exists e, ctor cUQ (Bare (Arr (Vec 4) NotOrtho)) = Err e) /\ (exists e, ctor cUQ (Bare (Arr (Sq 3) NotOrtho)) = Err e) /\
  (exists e, ctor cTw3 (Bare (Arr (Sq 4) NotAlgebra)) = Err e) /\ (exists e, ctor cTw2 (Bare (Arr (Sq 3) NotAlgebra)) = Err e).
Proof.
  repeat split; try (eexists; reflexivity); intros t Ht; cbn in Ht; repeat destruct Ht as [<-|Ht]; try contradiction; eexists; reflexivity.
Qed.
Print Assumptions C07_ctor_bare_rejects.

(* completeness: members are taken, bare or in a list of any length, and stored in order *)
Theorem C07_ctor_accepts_members :
  accept cSO2 (Arr (Sq 2) Valid) = true /\ accept cSE2 (Arr (Sq 3) Valid) = true /\ accept cSO3 (Arr (Sq 3) Valid) = true /\
  accept cSE3 (Arr (Sq 4) Valid) = true /\ accept cUQ (Arr (Vec 4) Valid) = true /\ accept cTw3 (Arr (Vec 6) Valid) = true /\
  accept cTw3 (Arr (Sq 4) Valid) = true /\ accept cTw2 (Arr (Vec 3) Valid) = true /\ accept cTw2 (Arr (Sq 3) Valid) = true.
Proof. repeat split. Qed.
Print Assumptions C07_ctor_accepts_members.
Theorem C07_ctor_complete : forall c l, l <> [] -> forallb (accept c) l = true ->
  ctor c (Seq l) = Ok (map (stored c) l) /\ (forall it, accept c it = true -> ctor c (Bare it) = Ok [stored c it]).
Proof.
  intros c l Hl Ha. split.
  - destruct l as [|h l]; [contradiction|]. unfold ctor. rewrite Ha.
    assert (Hm : map (import_pose c) (h :: l) = map (stored c) (h :: l)).
    { apply map_ext_in. intros x Hx. rewrite forallb_forall in Ha. unfold import_pose. rewrite (Ha _ Hx). reflexivity. }
    rewrite Hm. destruct (is_pose c) eqn:Ep; [reflexivity|]. destruct (is_twist c) eqn:Et; [reflexivity|].
    assert (Hr : forallb (fun it => is_array (ish it)) (h :: l) = true).
    { rewrite forallb_forall in *. intros [s t] Hx. specialize (Ha _ Hx). destruct c; try discriminate. destruct s; cbn in *; try reflexivity. discriminate. }
    rewrite Hr. reflexivity.
  - intros it H. unfold ctor. rewrite H. reflexivity.
Qed.
Print Assumptions C07_ctor_complete.
