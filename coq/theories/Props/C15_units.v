(* C15 (part 2) -- units and call forms are interchangeable.
   The tr_* definitions are REGENERATED on every run by executing the library on SymPy symbols
   (props/C15.py build(); math.pi is traced as the symbol pi_f of the ops record).
   Statements are fixed.  L-real: pi_f is PI.
     deg/rad    : f(a, unit='deg') and f(a*pi/180, unit='rad') are the same function of a
     call forms : separate scalars, list, tuple and ndarray give the same matrix
     aliases    : 'arm'='xyz', 'vehicle'='zyx', 'camera'='yxz' *)
From Coq Require Import Reals ZArith Lra.
From SM Require Import Base.Ops Base.Lin Base.RInst Model.C15_ArgCheck.
From SMgen Require Import Traces_C15.
Open Scope R_scope.

(* bring every sin/cos argument that equals a*(PI/180) to that syntactic form, then compare entrywise with ring *)
Ltac fix_arg a :=
  repeat match goal with
  | |- context [sin ?x] => lazymatch x with (a * (PI / 180)) => fail | _ => replace x with (a * (PI / 180)) by field end
  | |- context [cos ?x] => lazymatch x with (a * (PI / 180)) => fail | _ => replace x with (a * (PI / 180)) by field end
  end.
Ltac open_traces := intros; destruct_tuples; autounfold with smgen; sm_simpl.
Ltac units1 a := open_traces; fix_arg a; tuple_eq ltac:(ring).
Ltac units3 a b c := open_traces; fix_arg a; fix_arg b; fix_arg c; tuple_eq ltac:(ring).
Ltac same := open_traces; tuple_eq ltac:(ring).

Theorem C15_deg_rad_rot3 :
  forall a : R,
  tr_rotx_deg Rops a = tr_rotx_rad Rops (a * PI / 180) /\
  tr_roty_deg Rops a = tr_roty_rad Rops (a * PI / 180) /\
  tr_rotz_deg Rops a = tr_rotz_rad Rops (a * PI / 180).
Proof. intros; repeat split; units1 a. Qed.
Print Assumptions C15_deg_rad_rot3.

Theorem C15_deg_rad_rot2 :
  forall a : R,
  tr_rot2_deg Rops a = tr_rot2_rad Rops (a * PI / 180) /\
  tr_trot2_deg Rops a = tr_trot2_rad Rops (a * PI / 180) /\
  tr_SO2_deg Rops a = tr_SO2_rad Rops (a * PI / 180) /\
  tr_SE2_theta_deg Rops a = tr_SE2_theta_rad Rops (a * PI / 180).
Proof. intros; repeat split; units1 a. Qed.
Print Assumptions C15_deg_rad_rot2.

Theorem C15_deg_rad_trot3 :
  forall a : R,
  tr_trotx_deg Rops a = tr_trotx_rad Rops (a * PI / 180) /\
  tr_troty_deg Rops a = tr_troty_rad Rops (a * PI / 180) /\
  tr_trotz_deg Rops a = tr_trotz_rad Rops (a * PI / 180).
Proof. intros; repeat split; units1 a. Qed.
Print Assumptions C15_deg_rad_trot3.

Theorem C15_deg_rad_SO3_R :
  forall a : R,
  tr_SO3_Rx_deg Rops a = tr_SO3_Rx_rad Rops (a * PI / 180) /\
  tr_SO3_Ry_deg Rops a = tr_SO3_Ry_rad Rops (a * PI / 180) /\
  tr_SO3_Rz_deg Rops a = tr_SO3_Rz_rad Rops (a * PI / 180).
Proof. intros; repeat split; units1 a. Qed.
Print Assumptions C15_deg_rad_SO3_R.

Theorem C15_deg_rad_SE3_R :
  forall a : R,
  tr_SE3_Rx_deg Rops a = tr_SE3_Rx_rad Rops (a * PI / 180) /\
  tr_SE3_Ry_deg Rops a = tr_SE3_Ry_rad Rops (a * PI / 180) /\
  tr_SE3_Rz_deg Rops a = tr_SE3_Rz_rad Rops (a * PI / 180).
Proof. intros; repeat split; units1 a. Qed.
Print Assumptions C15_deg_rad_SE3_R.

Theorem C15_getunit_deg :
  forall a : R, tr_getunit_deg Rops a = a * PI / 180.
Proof. open_traces; field. Qed.
Print Assumptions C15_getunit_deg.

Theorem C15_getunit_vec_deg :
  forall g0 g1 g2 : R,
  tr_getunit_nd_deg Rops (g0, g1, g2) = (g0 * PI / 180, g1 * PI / 180, g2 * PI / 180) /\
  tr_getunit_list_deg Rops (g0, g1, g2) = tr_getunit_nd_deg Rops (g0, g1, g2).
Proof. intros; split; open_traces; tuple_eq ltac:(field). Qed.
Print Assumptions C15_getunit_vec_deg.

Theorem C15_deg_rad_with_translation :
  forall (a : R) (t : V3 R) (t2 : V2 R),
  tr_trotx_t_deg Rops a t = tr_trotx_t_rad Rops (a * PI / 180) t /\
  tr_troty_t_deg Rops a t = tr_troty_t_rad Rops (a * PI / 180) t /\
  tr_trotz_t_deg Rops a t = tr_trotz_t_rad Rops (a * PI / 180) t /\
  tr_SE3_Rx_t_deg Rops a t = tr_SE3_Rx_t_rad Rops (a * PI / 180) t /\
  tr_trot2_t_deg Rops a t2 = tr_trot2_t_rad Rops (a * PI / 180) t2.
Proof. intros; repeat split; units1 a. Qed.
Print Assumptions C15_deg_rad_with_translation.

Theorem C15_deg_rad_rpy2r :
  forall g0 g1 g2 : R,
  tr_rpy2r_zyx_deg Rops (g0, g1, g2) = tr_rpy2r_zyx_rad Rops (g0 * PI / 180, g1 * PI / 180, g2 * PI / 180) /\
  tr_rpy2r_xyz_deg Rops (g0, g1, g2) = tr_rpy2r_xyz_rad Rops (g0 * PI / 180, g1 * PI / 180, g2 * PI / 180) /\
  tr_rpy2r_yxz_deg Rops (g0, g1, g2) = tr_rpy2r_yxz_rad Rops (g0 * PI / 180, g1 * PI / 180, g2 * PI / 180).
Proof. intros; repeat split; units3 g0 g1 g2. Qed.
Print Assumptions C15_deg_rad_rpy2r.

Theorem C15_deg_rad_rpy2tr :
  forall g0 g1 g2 : R,
  tr_rpy2tr_zyx_deg Rops (g0, g1, g2) = tr_rpy2tr_zyx_rad Rops (g0 * PI / 180, g1 * PI / 180, g2 * PI / 180) /\
  tr_rpy2tr_xyz_deg Rops (g0, g1, g2) = tr_rpy2tr_xyz_rad Rops (g0 * PI / 180, g1 * PI / 180, g2 * PI / 180) /\
  tr_rpy2tr_yxz_deg Rops (g0, g1, g2) = tr_rpy2tr_yxz_rad Rops (g0 * PI / 180, g1 * PI / 180, g2 * PI / 180).
Proof. intros; repeat split; units3 g0 g1 g2. Qed.
Print Assumptions C15_deg_rad_rpy2tr.

Theorem C15_deg_rad_eul :
  forall g0 g1 g2 : R,
  tr_eul2r_deg Rops (g0, g1, g2) = tr_eul2r_rad Rops (g0 * PI / 180, g1 * PI / 180, g2 * PI / 180) /\
  tr_eul2tr_deg Rops (g0, g1, g2) = tr_eul2tr_rad Rops (g0 * PI / 180, g1 * PI / 180, g2 * PI / 180) /\
  tr_SO3_Eul_deg Rops (g0, g1, g2) = tr_SO3_Eul_rad Rops (g0 * PI / 180, g1 * PI / 180, g2 * PI / 180) /\
  tr_SE3_Eul_deg Rops (g0, g1, g2) = tr_SE3_Eul_rad Rops (g0 * PI / 180, g1 * PI / 180, g2 * PI / 180).
Proof. intros; repeat split; units3 g0 g1 g2. Qed.
Print Assumptions C15_deg_rad_eul.

Theorem C15_deg_rad_SO3_RPY :
  forall g0 g1 g2 : R,
  tr_SO3_RPY_zyx_deg Rops (g0, g1, g2) = tr_SO3_RPY_zyx_rad Rops (g0 * PI / 180, g1 * PI / 180, g2 * PI / 180) /\
  tr_SO3_RPY_xyz_deg Rops (g0, g1, g2) = tr_SO3_RPY_xyz_rad Rops (g0 * PI / 180, g1 * PI / 180, g2 * PI / 180) /\
  tr_SO3_RPY_yxz_deg Rops (g0, g1, g2) = tr_SO3_RPY_yxz_rad Rops (g0 * PI / 180, g1 * PI / 180, g2 * PI / 180).
Proof. intros; repeat split; units3 g0 g1 g2. Qed.
Print Assumptions C15_deg_rad_SO3_RPY.

Theorem C15_deg_rad_SE3_RPY :
  forall g0 g1 g2 : R,
  tr_SE3_RPY_zyx_deg Rops (g0, g1, g2) = tr_SE3_RPY_zyx_rad Rops (g0 * PI / 180, g1 * PI / 180, g2 * PI / 180) /\
  tr_SE3_RPY_xyz_deg Rops (g0, g1, g2) = tr_SE3_RPY_xyz_rad Rops (g0 * PI / 180, g1 * PI / 180, g2 * PI / 180) /\
  tr_SE3_RPY_yxz_deg Rops (g0, g1, g2) = tr_SE3_RPY_yxz_rad Rops (g0 * PI / 180, g1 * PI / 180, g2 * PI / 180).
Proof. intros; repeat split; units3 g0 g1 g2. Qed.
Print Assumptions C15_deg_rad_SE3_RPY.

Theorem C15_deg_rad_xyt :
  forall x y a : R,
  tr_xyt2tr_deg Rops (x, y, a) = tr_xyt2tr_rad Rops (x, y, a * PI / 180) /\
  tr_SE2_list_deg Rops (x, y, a) = tr_SE2_list_rad Rops (x, y, a * PI / 180) /\
  tr_SE2_s_deg Rops x y a = tr_SE2_s_rad Rops x y (a * PI / 180).
Proof. intros; repeat split; units1 a. Qed.
Print Assumptions C15_deg_rad_xyt.

Theorem C15_deg_rad_angvec :
  forall (a : R) (v : V3 R),
  tr_angvec2r_deg Rops a v = tr_angvec2r_rad Rops (a * PI / 180) v /\
  tr_SO3_AngVec_deg Rops a v = tr_SO3_AngVec_rad Rops (a * PI / 180) v.
Proof. intros; repeat split; units1 a. Qed.
Print Assumptions C15_deg_rad_angvec.

Theorem C15_order_aliases_rad :
  forall g : V3 R,
  tr_rpy2r_vehicle_rad Rops g = tr_rpy2r_zyx_rad Rops g /\
  tr_rpy2r_arm_rad Rops g = tr_rpy2r_xyz_rad Rops g /\
  tr_rpy2r_camera_rad Rops g = tr_rpy2r_yxz_rad Rops g /\
  tr_rpy2tr_vehicle_rad Rops g = tr_rpy2tr_zyx_rad Rops g /\
  tr_rpy2tr_arm_rad Rops g = tr_rpy2tr_xyz_rad Rops g /\
  tr_rpy2tr_camera_rad Rops g = tr_rpy2tr_yxz_rad Rops g.
Proof. intros; repeat split; same. Qed.
Print Assumptions C15_order_aliases_rad.

Theorem C15_order_aliases_deg :
  forall g : V3 R,
  tr_rpy2r_vehicle_deg Rops g = tr_rpy2r_zyx_deg Rops g /\
  tr_rpy2r_arm_deg Rops g = tr_rpy2r_xyz_deg Rops g /\
  tr_rpy2r_camera_deg Rops g = tr_rpy2r_yxz_deg Rops g /\
  tr_rpy2tr_vehicle_deg Rops g = tr_rpy2tr_zyx_deg Rops g /\
  tr_rpy2tr_arm_deg Rops g = tr_rpy2tr_xyz_deg Rops g /\
  tr_rpy2tr_camera_deg Rops g = tr_rpy2tr_yxz_deg Rops g.
Proof. intros; repeat split; same. Qed.
Print Assumptions C15_order_aliases_deg.

Example C15_orders_distinct : tr_rpy2r_zyx_rad Rops (PI/2, PI/2, 0) <> tr_rpy2r_xyz_rad Rops (PI/2, PI/2, 0).
Proof.
  autounfold with smgen; sm_simpl. rewrite ?sin_PI2, ?cos_PI2, ?sin_0, ?cos_0. intros H.
  apply (f_equal (fun m => fst (fst (snd m)))) in H. cbn in H. lra.
Qed.

Theorem C15_scalars_vs_packed_angles_rad :
  forall r p y : R,
  tr_rpy2r_s_zyx_rad Rops r p y = tr_rpy2r_zyx_rad Rops (r, p, y) /\
  tr_rpy2r_s_xyz_rad Rops r p y = tr_rpy2r_xyz_rad Rops (r, p, y) /\
  tr_rpy2r_s_yxz_rad Rops r p y = tr_rpy2r_yxz_rad Rops (r, p, y) /\
  tr_rpy2tr_s_zyx_rad Rops r p y = tr_rpy2tr_zyx_rad Rops (r, p, y) /\
  tr_rpy2tr_s_xyz_rad Rops r p y = tr_rpy2tr_xyz_rad Rops (r, p, y) /\
  tr_rpy2tr_s_yxz_rad Rops r p y = tr_rpy2tr_yxz_rad Rops (r, p, y) /\
  tr_eul2r_s_rad Rops r p y = tr_eul2r_rad Rops (r, p, y) /\
  tr_eul2tr_s_rad Rops r p y = tr_eul2tr_rad Rops (r, p, y).
Proof. intros; repeat split; same. Qed.
Print Assumptions C15_scalars_vs_packed_angles_rad.

Theorem C15_scalars_vs_packed_angles_deg :
  forall r p y : R,
  tr_rpy2r_s_zyx_deg Rops r p y = tr_rpy2r_zyx_deg Rops (r, p, y) /\
  tr_rpy2r_s_xyz_deg Rops r p y = tr_rpy2r_xyz_deg Rops (r, p, y) /\
  tr_rpy2r_s_yxz_deg Rops r p y = tr_rpy2r_yxz_deg Rops (r, p, y) /\
  tr_rpy2tr_s_zyx_deg Rops r p y = tr_rpy2tr_zyx_deg Rops (r, p, y) /\
  tr_rpy2tr_s_xyz_deg Rops r p y = tr_rpy2tr_xyz_deg Rops (r, p, y) /\
  tr_rpy2tr_s_yxz_deg Rops r p y = tr_rpy2tr_yxz_deg Rops (r, p, y) /\
  tr_eul2r_s_deg Rops r p y = tr_eul2r_deg Rops (r, p, y) /\
  tr_eul2tr_s_deg Rops r p y = tr_eul2tr_deg Rops (r, p, y).
Proof. intros; repeat split; same. Qed.
Print Assumptions C15_scalars_vs_packed_angles_deg.

Theorem C15_scalars_vs_packed_transl :
  forall x y z : R,
  tr_transl_s Rops x y z = tr_transl_v Rops (x, y, z) /\
  tr_transl_list Rops (x, y, z) = tr_transl_v Rops (x, y, z) /\
  tr_transl2_s Rops x y = tr_transl2_v Rops (x, y) /\
  tr_transl2_list Rops (x, y) = tr_transl2_v Rops (x, y).
Proof. intros; repeat split; same. Qed.
Print Assumptions C15_scalars_vs_packed_transl.

Theorem C15_scalars_vs_packed_SE3 :
  forall x y z : R,
  tr_SE3_s Rops x y z = tr_SE3_nd Rops (x, y, z) /\
  tr_SE3_list Rops (x, y, z) = tr_SE3_nd Rops (x, y, z) /\
  tr_SE3_nd Rops (x, y, z) = tr_transl_v Rops (x, y, z).
Proof. intros; repeat split; same. Qed.
Print Assumptions C15_scalars_vs_packed_SE3.

Theorem C15_scalars_vs_packed_SE2_rad :
  forall x y a : R,
  tr_SE2_s_rad Rops x y a = tr_SE2_nd_rad Rops (x, y, a) /\
  tr_SE2_list_rad Rops (x, y, a) = tr_SE2_nd_rad Rops (x, y, a) /\
  tr_SE2_tuple_rad Rops (x, y, a) = tr_SE2_nd_rad Rops (x, y, a) /\
  tr_SE2_nd_rad Rops (x, y, a) = tr_xyt2tr_rad Rops (x, y, a).
Proof. intros; repeat split; same. Qed.
Print Assumptions C15_scalars_vs_packed_SE2_rad.

Theorem C15_scalars_vs_packed_SE2_deg :
  forall x y a : R,
  tr_SE2_s_deg Rops x y a = tr_SE2_nd_deg Rops (x, y, a) /\
  tr_SE2_list_deg Rops (x, y, a) = tr_SE2_nd_deg Rops (x, y, a) /\
  tr_SE2_tuple_deg Rops (x, y, a) = tr_SE2_nd_deg Rops (x, y, a) /\
  tr_SE2_nd_deg Rops (x, y, a) = tr_xyt2tr_deg Rops (x, y, a).
Proof. intros; repeat split; same. Qed.
Print Assumptions C15_scalars_vs_packed_SE2_deg.

Theorem C15_scalars_vs_packed_SE2_xy :
  forall x y : R,
  tr_SE2_xy_s Rops x y = tr_SE2_xy_list Rops (x, y) /\ tr_SE2_xy_list Rops (x, y) = tr_transl2_v Rops (x, y).
Proof. intros; repeat split; same. Qed.
Print Assumptions C15_scalars_vs_packed_SE2_xy.

Theorem C15_class_is_base_rad :
  forall g : V3 R,
  tr_SO3_RPY_nd_zyx_rad Rops g = tr_SO3_RPY_zyx_rad Rops g /\ tr_SO3_RPY_zyx_rad Rops g = tr_rpy2r_zyx_rad Rops g /\ tr_SE3_RPY_zyx_rad Rops g = tr_rpy2tr_zyx_rad Rops g /\
  tr_SO3_RPY_nd_xyz_rad Rops g = tr_SO3_RPY_xyz_rad Rops g /\ tr_SO3_RPY_xyz_rad Rops g = tr_rpy2r_xyz_rad Rops g /\ tr_SE3_RPY_xyz_rad Rops g = tr_rpy2tr_xyz_rad Rops g /\
  tr_SO3_RPY_nd_yxz_rad Rops g = tr_SO3_RPY_yxz_rad Rops g /\ tr_SO3_RPY_yxz_rad Rops g = tr_rpy2r_yxz_rad Rops g /\ tr_SE3_RPY_yxz_rad Rops g = tr_rpy2tr_yxz_rad Rops g /\
  tr_SO3_Eul_rad Rops g = tr_eul2r_rad Rops g /\
  tr_SE3_Eul_rad Rops g = tr_eul2tr_rad Rops g.
Proof. intros; repeat split; same. Qed.
Print Assumptions C15_class_is_base_rad.

Theorem C15_class_is_base_deg :
  forall g : V3 R,
  tr_SO3_RPY_nd_zyx_deg Rops g = tr_SO3_RPY_zyx_deg Rops g /\ tr_SO3_RPY_zyx_deg Rops g = tr_rpy2r_zyx_deg Rops g /\ tr_SE3_RPY_zyx_deg Rops g = tr_rpy2tr_zyx_deg Rops g /\
  tr_SO3_RPY_nd_xyz_deg Rops g = tr_SO3_RPY_xyz_deg Rops g /\ tr_SO3_RPY_xyz_deg Rops g = tr_rpy2r_xyz_deg Rops g /\ tr_SE3_RPY_xyz_deg Rops g = tr_rpy2tr_xyz_deg Rops g /\
  tr_SO3_RPY_nd_yxz_deg Rops g = tr_SO3_RPY_yxz_deg Rops g /\ tr_SO3_RPY_yxz_deg Rops g = tr_rpy2r_yxz_deg Rops g /\ tr_SE3_RPY_yxz_deg Rops g = tr_rpy2tr_yxz_deg Rops g /\
  tr_SO3_Eul_deg Rops g = tr_eul2r_deg Rops g /\
  tr_SE3_Eul_deg Rops g = tr_eul2tr_deg Rops g.
Proof. intros; repeat split; same. Qed.
Print Assumptions C15_class_is_base_deg.

(* bridge to the hand model of getunit (Model/C15_ArgCheck.v): the traced conversion IS the model's, for every angle *)
Theorem C15_getunit_model_bridge : forall a : R,
  getunit Rops a UDeg = Ok (tr_getunit_deg Rops a) /\ getunit Rops a URad = Ok a.
Proof. intros; split; [|reflexivity]. unfold getunit, deg2rad; f_equal. open_traces; field. Qed.
Print Assumptions C15_getunit_model_bridge.

(* returned angle: tr2xyt(T, unit='deg') is tr2xyt(T) with the angle times 180/pi (x, y untouched) *)
Theorem C15_deg_rad_tr2xyt : forall X : M33 R,
  tr_tr2xyt_deg Rops X =
  (let '(x, y, a) := tr_tr2xyt_rad Rops X in (x, y, a * 180 / PI)).
Proof. open_traces. tuple_eq ltac:(try reflexivity). field. apply PI_neq0. Qed.
Print Assumptions C15_deg_rad_tr2xyt.
