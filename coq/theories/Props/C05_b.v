(* C05 (part b: extraction) -- angle-set extraction is a right inverse of construction.
   Fixed statements.  The tr_* constructors are regenerated on every run by executing /repo's rpy2r / eul2r / rot2 /
   xyt2tr / angvec2r (and the class constructors) on symbols; c_* are the threshold factors re-read from the source AST;
   m_* are the hand models of Model/C05_Angles.v (tied to the implementation by the float correspondence run)
   instantiated with those factors.  The lemma library Model/C05_Proofs.v is parametric in the thresholds. *)
From Coq Require Import Reals ZArith Lra Lia Psatz.
From SM Require Import Base.Ops Base.Lin Base.RInst Base.RLin Model.C05_Trig Model.C05_Angles Model.C05_Proofs.
From SMgen Require Import Consts_C05 Traces_C05.
Open Scope R_scope.

Ltac gen_ring := intros; destruct_tuples; autounfold with smgen c05 smlin; sm_simpl; tuple_eq ltac:(ring).

(* the documented axis orders of the traced constructors (also stated in C05_a.v; Props files do not import each other) *)
Lemma C05_rpy2r_zyx_order : forall r p y : R,
  tr_rpy2r_zyx Rops r p y = mmul33 Rops (Rz Rops y) (mmul33 Rops (Ry Rops p) (Rx Rops r)).
Proof. gen_ring. Qed.
Lemma C05_rpy2r_xyz_order : forall r p y : R,
  tr_rpy2r_xyz Rops r p y = mmul33 Rops (Rx Rops y) (mmul33 Rops (Ry Rops p) (Rz Rops r)).
Proof. gen_ring. Qed.
Lemma C05_rpy2r_yxz_order : forall r p y : R,
  tr_rpy2r_yxz Rops r p y = mmul33 Rops (Ry Rops y) (mmul33 Rops (Rx Rops p) (Rz Rops r)).
Proof. gen_ring. Qed.
Lemma C05_eul2r_order : forall f t s : R,
  tr_eul2r Rops f t s = mmul33 Rops (Rz Rops f) (mmul33 Rops (Ry Rops t) (Rz Rops s)).
Proof. gen_ring. Qed.
Lemma C05_planar_constructors : forall x y t : R,
  tr_rot2 Rops t = rot2_cs Rops (cos t) (sin t) /\ tr_xyt2tr Rops (x,y,t) = xyt2tr_ref Rops (x,y,t).
Proof. intros; repeat split; gen_ring. Qed.
Lemma C05_constructors_in_SO3 : forall r p y : R,
  SO3 (tr_rpy2r_zyx Rops r p y) /\ SO3 (tr_rpy2r_xyz Rops r p y) /\ SO3 (tr_rpy2r_yxz Rops r p y) /\ SO3 (tr_eul2r Rops r p y).
Proof.
  intros. rewrite C05_rpy2r_zyx_order, C05_rpy2r_xyz_order, C05_rpy2r_yxz_order, C05_eul2r_order.
  unfold Rz, Ry, Rx. sm_simpl.
  split; [|split; [|split]]; repeat apply SO3_mul; first [apply SO3_rotx|apply SO3_roty|apply SO3_rotz]; apply cs_unit.
Qed.

(* ============================================================ thresholds regenerated from the source *)
(* side conditions the theorems below need: the band is non-empty (so exact singular inputs take the singular branch)
   and narrow (sqrt(2 k eps) stays far below the 1e-6 of the property) *)
Lemma C05_thresholds_ok :
  0 < IZR c_tr2rpy_zyx /\ 0 < IZR c_tr2rpy_xyz /\ 0 < IZR c_tr2rpy_yxz /\ 0 < IZR c_tr2eul_1 /\ 0 < IZR c_tr2eul_2 /\
  IZR c_tr2rpy_zyx * eps Rops <= 1/10^13 /\ IZR c_tr2rpy_xyz * eps Rops <= 1/10^13 /\ IZR c_tr2rpy_yxz * eps Rops <= 1/10^13 /\
  IZR c_tr2eul_1 * eps Rops <= 1/10^13 /\ IZR c_tr2eul_2 * eps Rops <= 1/10^13.
Proof. unfold c_tr2rpy_zyx, c_tr2rpy_xyz, c_tr2rpy_yxz, c_tr2eul_1, c_tr2eul_2. cbn. repeat split; lra. Qed.
Print Assumptions C05_thresholds_ok.

Ltac thr := first [apply C05_thresholds_ok | pose proof C05_thresholds_ok; tauto].

Lemma eps_val : eps Rops = / 4503599627370496.
Proof. reflexivity. Qed.

(* the instantiated models are the parametric ones *)
Lemma m_zyx M : m_tr2rpy_zyx_rad Rops M = tr2rpy_zyx Rops (IZR c_tr2rpy_zyx) M.
Proof. unfold m_tr2rpy_zyx_rad, tr2rpy_zyx_u. cbn [of_Z Rops scale_unit]. reflexivity. Qed.
Lemma m_xyz M : m_tr2rpy_xyz_rad Rops M = tr2rpy_xyz Rops (IZR c_tr2rpy_xyz) M.
Proof. unfold m_tr2rpy_xyz_rad, tr2rpy_xyz_u. cbn [of_Z Rops scale_unit]. reflexivity. Qed.
Lemma m_yxz M : m_tr2rpy_yxz_rad Rops M = tr2rpy_yxz Rops (IZR c_tr2rpy_yxz) M.
Proof. unfold m_tr2rpy_yxz_rad, tr2rpy_yxz_u. cbn [of_Z Rops scale_unit]. reflexivity. Qed.
Lemma m_eul (flip : bool) (M : M33 R) : (if flip then m_tr2eul_flip_rad Rops M else m_tr2eul_noflip_rad Rops M)
   = tr2eul Rops (IZR c_tr2eul_1) (IZR c_tr2eul_2) flip M.
Proof. destruct flip; unfold m_tr2eul_flip_rad, m_tr2eul_noflip_rad, tr2eul_u; cbn [of_Z Rops scale_unit]; reflexivity. Qed.

(* "R is outside the singular band of the code": the test the code itself makes, in L-real *)
Definition off_band (k : Z) (x : R) : Prop := ~ Rabs (Rabs x - 1) < IZR k * eps Rops.

(* ============================================================ RIGHT INVERSE, roll-pitch-yaw *)
(* Full statement (for every rotation R, exactly):  m_tr2rpy R = (r,p,y) -> rpy2r r p y = R.
   It is FALSE of the faithful model strictly inside the singular band (the code forces roll = 0 there): see
   C05_rpy_zyx_exact_in_band_refuted.  Proved: outside the band for whichever formula argmax selects (and for each of
   the four formulas separately), and at the exact singularity. *)
Theorem C05_rpy_zyx_right_inverse_partial : forall (M : M33 R) r p y,
  SO3 M -> (let '((r00,r01,r02),(r10,r11,r12),(r20,r21,r22)) := M in off_band c_tr2rpy_zyx r20) ->
  m_tr2rpy_zyx_rad Rops M = (r, p, y) -> tr_rpy2r_zyx Rops r p y = M.
Proof.
  intros M r p y H Hb E. rewrite m_zyx in E. rewrite C05_rpy2r_zyx_order.
  pose proof (tr2rpy_zyx_right_inverse (IZR c_tr2rpy_zyx) M H) as RI. rewrite E in RI. apply RI; [thr|].
  destruct M as [[[[? ?] ?] [[? ?] ?]] [[? ?] ?]]. apply is_sing_false. exact Hb.
Qed.
Print Assumptions C05_rpy_zyx_right_inverse_partial.

Theorem C05_rpy_xyz_right_inverse_partial : forall (M : M33 R) r p y,
  SO3 M -> (let '((r00,r01,r02),(r10,r11,r12),(r20,r21,r22)) := M in off_band c_tr2rpy_xyz r02) ->
  m_tr2rpy_xyz_rad Rops M = (r, p, y) -> tr_rpy2r_xyz Rops r p y = M.
Proof.
  intros M r p y H Hb E. rewrite m_xyz in E. rewrite C05_rpy2r_xyz_order.
  pose proof (tr2rpy_xyz_right_inverse (IZR c_tr2rpy_xyz) M H) as RI. rewrite E in RI. apply RI; [thr|].
  destruct M as [[[[? ?] ?] [[? ?] ?]] [[? ?] ?]]. apply is_sing_false. exact Hb.
Qed.
Print Assumptions C05_rpy_xyz_right_inverse_partial.

Theorem C05_rpy_yxz_right_inverse_partial : forall (M : M33 R) r p y,
  SO3 M -> (let '((r00,r01,r02),(r10,r11,r12),(r20,r21,r22)) := M in off_band c_tr2rpy_yxz r12) ->
  m_tr2rpy_yxz_rad Rops M = (r, p, y) -> tr_rpy2r_yxz Rops r p y = M.
Proof.
  intros M r p y H Hb E. rewrite m_yxz in E. rewrite C05_rpy2r_yxz_order.
  pose proof (tr2rpy_yxz_right_inverse (IZR c_tr2rpy_yxz) M H) as RI. rewrite E in RI. apply RI; [thr|].
  destruct M as [[[[? ?] ?] [[? ?] ?]] [[? ?] ?]]. apply is_sing_false. exact Hb.
Qed.
Print Assumptions C05_rpy_yxz_right_inverse_partial.

(* non-vacuity: a generic rotation is outside the band and the model returns angles for it *)
Example C05_rpy_right_inverse_nonvacuous :
  let M := tr_rpy2r_zyx Rops 0 0 0 in
  SO3 M /\ (let '((r00,r01,r02),(r10,r11,r12),(r20,r21,r22)) := M in off_band c_tr2rpy_zyx r20).
Proof.
  cbv zeta. split; [apply C05_constructors_in_SO3|].
  autounfold with smgen. sm_simpl. unfold off_band. rewrite sin_0. replace (-1 * 0) with 0 by ring.
  rewrite Rabs_R0. replace (0 - 1) with (-1) by ring. rewrite Rabs_left by lra. unfold c_tr2rpy_zyx. cbn. lra.
Qed.

(* every one of the four argmax-selected formulas is a right inverse wherever its own denominator is non-zero:
   argmax is only a conditioning choice *)
Theorem C05_rpy_each_formula_right_inverse : forall (M : M33 R) (k : nat), SO3 M ->
  (nonsing_zyx M -> den_zyx k M <> 0 -> let '(r,p,y) := rpy_zyx_ns Rops k M in tr_rpy2r_zyx Rops r p y = M) /\
  (nonsing_xyz M -> den_xyz k M <> 0 -> let '(r,p,y) := rpy_xyz_ns Rops k M in tr_rpy2r_xyz Rops r p y = M) /\
  (nonsing_yxz M -> den_yxz k M <> 0 -> let '(r,p,y) := rpy_yxz_ns Rops k M in tr_rpy2r_yxz Rops r p y = M).
Proof.
  intros M k H. repeat split; intros Hn Hd.
  - pose proof (rpy_zyx_ns_right_inverse M k H Hn Hd) as E. destruct (rpy_zyx_ns Rops k M) as [[r p] y].
    rewrite C05_rpy2r_zyx_order. exact E.
  - pose proof (rpy_xyz_ns_right_inverse M k H Hn Hd) as E. destruct (rpy_xyz_ns Rops k M) as [[r p] y].
    rewrite C05_rpy2r_xyz_order. exact E.
  - pose proof (rpy_yxz_ns_right_inverse M k H Hn Hd) as E. destruct (rpy_yxz_ns Rops k M) as [[r p] y].
    rewrite C05_rpy2r_yxz_order. exact E.
Qed.
Print Assumptions C05_rpy_each_formula_right_inverse.
Example C05_rpy_each_formula_nonvacuous : nonsing_zyx (I33 Rops) /\ den_zyx 0 (I33 Rops) <> 0 /\ den_zyx 3 (I33 Rops) <> 0.
Proof. unfold nonsing_zyx, den_zyx, sel4. lin_simpl. repeat split; lra. Qed.

(* exact singular configuration: pitch = +-90 deg *)
Theorem C05_rpy_singular_exact : forall (M : M33 R), SO3 M ->
  let '((r00,r01,r02),(r10,r11,r12),(r20,r21,r22)) := M in
  ((r20 = 1 \/ r20 = -1) -> exists p y, m_tr2rpy_zyx_rad Rops M = (0,p,y) /\ tr_rpy2r_zyx Rops 0 p y = M) /\
  ((r02 = 1 \/ r02 = -1) -> exists p y, m_tr2rpy_xyz_rad Rops M = (0,p,y) /\ tr_rpy2r_xyz Rops 0 p y = M) /\
  ((r12 = 1 \/ r12 = -1) -> exists p y, m_tr2rpy_yxz_rad Rops M = (0,p,y) /\ tr_rpy2r_yxz Rops 0 p y = M).
Proof.
  intros M H. pose proof C05_thresholds_ok as T.
  pose proof (tr2rpy_zyx_singular_exact (IZR c_tr2rpy_zyx) M H ltac:(tauto)) as Z.
  pose proof (tr2rpy_xyz_singular_exact (IZR c_tr2rpy_xyz) M H ltac:(tauto)) as X.
  pose proof (tr2rpy_yxz_singular_exact (IZR c_tr2rpy_yxz) M H ltac:(tauto)) as Y.
  rewrite m_zyx, m_xyz, m_yxz.
  destruct M as [[[[r00 r01] r02] [[r10 r11] r12]] [[r20 r21] r22]].
  repeat split; intros Hs.
  - destruct (Z Hs) as (p & y & E1 & E2). exists p, y. rewrite C05_rpy2r_zyx_order. split; assumption.
  - destruct (X Hs) as (p & y & E1 & E2). exists p, y. rewrite C05_rpy2r_xyz_order. split; assumption.
  - destruct (Y Hs) as (p & y & E1 & E2). exists p, y. rewrite C05_rpy2r_yxz_order. split; assumption.
Qed.
Print Assumptions C05_rpy_singular_exact.
Example C05_rpy_singular_nonvacuous : SO3 (roty_cs Rops 0 1) /\ (let '((_,_,_),(_,_,_),(r20,_,_)) := roty_cs Rops 0 1 in r20 = -1).
Proof. split; [apply SO3_roty; ring|]. lin_simpl. ring. Qed.

(* strictly inside the band the exact statement fails (roll is forced to 0): witness Ry(p) Rx(90 deg) with sin p = 1 - 2^-50 *)
Definition band_witness : M33 R :=
  let s := 1 - 4 * eps Rops in let c := sqrt (1 - s*s) in ((c, s, 0), (0, 0, -1), (-s, c, 0)).
Theorem C05_rpy_zyx_exact_in_band_refuted :
  exists M r p y, SO3 M /\ m_tr2rpy_zyx_rad Rops M = (r,p,y) /\ tr_rpy2r_zyx Rops r p y <> M.
Proof.
  set (s := 1 - 4 * eps Rops). assert (Hs : 0 < s < 1) by (unfold s; rewrite eps_val; lra).
  set (c := sqrt (1 - s*s)). assert (Hc : 0 < c) by (apply sqrt_lt_R0; nra).
  assert (Hcc : c*c = 1 - s*s) by (apply sqrt_sqrt; nra).
  assert (Hso : SO3 band_witness).
  { unfold band_witness. fold s. fold c. unfold SO3. repeat split; nra. }
  destruct (tr2rpy_zyx Rops (IZR c_tr2rpy_zyx) band_witness) as [[r p] y] eqn:E.
  exists band_witness, r, p, y. split; [exact Hso|]. rewrite m_zyx. split; [exact E|].
  assert (Hr : r = 0).
  { unfold band_witness in E. fold s in E. fold c in E. unfold tr2rpy_zyx in E.
    assert (S : is_sing Rops (IZR c_tr2rpy_zyx) (- s) = true).
    { apply is_sing_true. rewrite Rabs_Ropp, (Rabs_right s) by lra. rewrite Rabs_left by lra.
      unfold c_tr2rpy_zyx, s. rewrite eps_val. lra. }
    rewrite S in E. unfold rpy_zyx_sing in E. injection E; intros; subst; reflexivity. }
  subst r. rewrite C05_rpy2r_zyx_order. unfold band_witness. fold s. fold c.
  unfold Rz, Ry, Rx. lin_simpl. rewrite sin_0. intros Q.
  injection Q; intros. nra.
Qed.
Print Assumptions C05_rpy_zyx_exact_in_band_refuted.

(* TOTALITY (full statement, since /repo dd68bbe clips the asin argument): tr2rpy is a total function of its matrix
   argument -- by the type of the (tied) model -- and in the singular band it returns roll = 0 and
   pitch = -+asin(clip(x)) for EVERY matrix, rotation or not.  The matrix that refuted totality before the fix
   (orthogonality defect <= 3 eps, det = 1 + eps, R31 = -(1 + eps): inside the band, asin raised) now gives pitch = pi/2. *)
Definition defect33 (M : M33 R) : M33 R := msub33 Rops (mmul33 Rops M (mtr33 M)) (I33 Rops).
Definition maxabs33 (M : M33 R) : R :=
  let '((a,b,c),(d,e,f),(g,h,i)) := M in
  Rmax (Rabs a) (Rmax (Rabs b) (Rmax (Rabs c) (Rmax (Rabs d) (Rmax (Rabs e) (Rmax (Rabs f) (Rmax (Rabs g) (Rmax (Rabs h) (Rabs i)))))))).
Theorem C05_rpy_total : forall M : M33 R,
  let '((r00,r01,r02),(r10,r11,r12),(r20,r21,r22)) := M in
  (is_sing Rops (IZR c_tr2rpy_zyx) r20 = true -> exists y, m_tr2rpy_zyx_rad Rops M = (0, - asin (clip1 Rops r20), y)) /\
  (is_sing Rops (IZR c_tr2rpy_xyz) r02 = true -> exists y, m_tr2rpy_xyz_rad Rops M = (0, asin (clip1 Rops r02), y)) /\
  (is_sing Rops (IZR c_tr2rpy_yxz) r12 = true -> exists y, m_tr2rpy_yxz_rad Rops M = (0, - asin (clip1 Rops r12), y)).
Proof.
  intros M. rewrite m_zyx, m_xyz, m_yxz. destruct M as [[[[r00 r01] r02] [[r10 r11] r12]] [[r20 r21] r22]].
  unfold tr2rpy_zyx, tr2rpy_xyz, tr2rpy_yxz. repeat split; intros ->; eexists; reflexivity.
Qed.
Print Assumptions C05_rpy_total.
(* on exact rotations the clip changes nothing *)
Theorem C05_rpy_clip_invisible_on_SO3 : forall M : M33 R, SO3 M ->
  let '((r00,r01,r02),(r10,r11,r12),(r20,r21,r22)) := M in
  clip1 Rops r20 = r20 /\ clip1 Rops r02 = r02 /\ clip1 Rops r12 = r12.
Proof.
  intros M H. destruct M as [[[[r00 r01] r02] [[r10 r11] r12]] [[r20 r21] r22]]. so3_facts H.
  repeat split; apply clip1_in.
  - apply (sq_le1 r20 (r21*r21+r22*r22)); [lra|clear; nra].
  - apply (sq_le1 r02 (r00*r00+r01*r01)); [lra|clear; nra].
  - apply (sq_le1 r12 (r10*r10+r11*r11)); [lra|clear; nra].
Qed.
Print Assumptions C05_rpy_clip_invisible_on_SO3.
Theorem C05_rpy_total_former_witness :
  exists M : M33 R, maxabs33 (defect33 M) <= 3 * eps Rops /\ det33 Rops M = 1 + eps Rops /\
    exists y, m_tr2rpy_zyx_rad Rops M = (0, PI/2, y).
Proof.
  exists ((0,0,1),(0,1,0),(-(1 + eps Rops),0,0)). split; [|split].
  - unfold defect33, maxabs33. lin_simpl.
    repeat match goal with |- context[Rabs ?x] => let v := fresh in
       assert (v : Rabs x <= 3 * / 4503599627370496) by (apply Rabs_le; lra); revert v; generalize (Rabs x); intros end.
    repeat apply Rmax_lub; assumption.
  - lin_simpl. ring.
  - rewrite m_zyx. unfold tr2rpy_zyx.
    assert (P : 0 < eps Rops < 1) by (rewrite eps_val; lra).
    assert (A1 : Rabs (- (1 + eps Rops)) = 1 + eps Rops) by (rewrite Rabs_Ropp; apply Rabs_right; lra).
    assert (S : is_sing Rops (IZR c_tr2rpy_zyx) (- (1 + eps Rops)) = true).
    { apply is_sing_true. rewrite A1. rewrite Rabs_right by lra. unfold c_tr2rpy_zyx. lra. }
    rewrite S. unfold rpy_zyx_sing, asin_clip.
    assert (C : clip1 Rops (- (1 + eps Rops)) = Ropp 1).
    { unfold clip1. cbn [ltb neg one Rops]. unfold Rltb. destruct (Rlt_dec (- (1 + eps Rops)) (- (1))); [reflexivity|lra]. }
    rewrite C. eexists. cbn [neg zero Rops]. rewrite asin_opp, asin_1. repeat f_equal. lra.
Qed.
Print Assumptions C05_rpy_total_former_witness.

(* ranges: roll, yaw in [-pi, pi], pitch in [-pi/2, pi/2] -- for every input matrix *)
Theorem C05_rpy_ranges : forall (M : M33 R) r p y,
  (m_tr2rpy_zyx_rad Rops M = (r,p,y) \/ m_tr2rpy_xyz_rad Rops M = (r,p,y) \/ m_tr2rpy_yxz_rad Rops M = (r,p,y)) ->
  Rabs r <= PI /\ Rabs p <= PI/2 /\ Rabs y <= PI.
Proof.
  intros M r p y. rewrite m_zyx, m_xyz, m_yxz. intros [E|[E|E]];
    [eapply tr2rpy_zyx_range|eapply tr2rpy_xyz_range|eapply tr2rpy_yxz_range]; exact E.
Qed.
Print Assumptions C05_rpy_ranges.

(* ============================================================ RIGHT INVERSE, ZYZ Euler angles *)
Definition eul_off_band (M : M33 R) : Prop :=
  let '((r00,r01,r02),(r10,r11,r12),(r20,r21,r22)) := M in
  ~ (Rabs r02 < IZR c_tr2eul_1 * eps Rops /\ Rabs r12 < IZR c_tr2eul_2 * eps Rops).
Lemma eul_off_band_sing M : eul_off_band M -> eul_is_sing Rops (IZR c_tr2eul_1) (IZR c_tr2eul_2) M = false.
Proof.
  destruct M as [[[[r00 r01] r02] [[r10 r11] r12]] [[r20 r21] r22]]. unfold eul_off_band, eul_is_sing. sm_simpl. fold (eps Rops).
  intros H. destruct (Rltb (Rabs r02) _) eqn:E1; [|reflexivity]. destruct (Rltb (Rabs r12) _) eqn:E2; [|reflexivity].
  exfalso. apply H. split; apply Rltb_true; assumption.
Qed.

Theorem C05_eul_right_inverse_partial : forall (M : M33 R) (flip : bool) f t s,
  SO3 M -> eul_off_band M ->
  (if flip then m_tr2eul_flip_rad Rops M else m_tr2eul_noflip_rad Rops M) = (f, t, s) -> tr_eul2r Rops f t s = M.
Proof.
  intros M flip f t s H Hb E. rewrite m_eul in E. rewrite C05_eul2r_order.
  pose proof (tr2eul_right_inverse (IZR c_tr2eul_1) (IZR c_tr2eul_2) flip M H ltac:(thr) ltac:(thr) (eul_off_band_sing M Hb)) as RI.
  rewrite E in RI. exact RI.
Qed.
Print Assumptions C05_eul_right_inverse_partial.
Example C05_eul_nonvacuous : SO3 (roty_cs Rops 0 1) /\ eul_off_band (roty_cs Rops 0 1).
Proof.
  split; [apply SO3_roty; ring|]. unfold eul_off_band. lin_simpl. intros [A _]. rewrite Rabs_R1 in A.
  unfold c_tr2eul_1 in A. cbn in A. lra.
Qed.

Theorem C05_eul_singular_exact : forall (M : M33 R) (flip : bool) f t s, SO3 M ->
  (let '((r00,r01,r02),(r10,r11,r12),(r20,r21,r22)) := M in r02 = 0 /\ r12 = 0) ->
  (if flip then m_tr2eul_flip_rad Rops M else m_tr2eul_noflip_rad Rops M) = (f, t, s) -> f = 0 /\ tr_eul2r Rops f t s = M.
Proof.
  intros M flip f t s H Hz E. rewrite m_eul in E. rewrite C05_eul2r_order.
  destruct (tr2eul_singular_exact (IZR c_tr2eul_1) (IZR c_tr2eul_2) flip M H ltac:(thr) ltac:(thr) Hz) as [S RI].
  rewrite E in RI. split; [|exact RI]. unfold tr2eul in E. rewrite S in E.
  destruct M as [[[[r00 r01] r02] [[r10 r11] r12]] [[r20 r21] r22]]. unfold eul_sing in E. injection E; intros; subst; reflexivity.
Qed.
Print Assumptions C05_eul_singular_exact.
Example C05_eul_singular_nonvacuous : SO3 (I33 Rops) /\ (let '((_,_,r02),(_,_,r12),_) := I33 Rops in r02 = 0 /\ r12 = 0).
Proof. split; [apply SO3_I|]. lin_simpl. split; reflexivity. Qed.

Theorem C05_eul_ranges : forall (M : M33 R) (flip : bool) f t s,
  (if flip then m_tr2eul_flip_rad Rops M else m_tr2eul_noflip_rad Rops M) = (f, t, s) ->
  Rabs f <= PI /\ Rabs t <= PI /\ Rabs s <= PI.
Proof. intros M flip f t s E. rewrite m_eul in E. eapply tr2eul_range; exact E. Qed.
Print Assumptions C05_eul_ranges.

(* ============================================================ planar *)
Theorem C05_xyt_right_inverse : forall A : M33 R, SE2 A -> tr_xyt2tr Rops (m_tr2xyt_rad Rops A) = A.
Proof.
  intros A H. pose proof (tr2xyt_right_inverse A H) as E. unfold m_tr2xyt_rad.
  destruct (tr2xyt Rops false A) as [[x y] t] eqn:Q. destruct (C05_planar_constructors x y t) as (_ & ->). exact E.
Qed.
Print Assumptions C05_xyt_right_inverse.
Example C05_xyt_nonvacuous : SE2 (tr_xyt2tr Rops (1, 2, 0)).
Proof. autounfold with smgen. sm_simpl. rewrite cos_0, sin_0. unfold SE2. lin_simpl. unfold SO2. repeat split; ring. Qed.

Theorem C05_theta_right_inverse : forall A : M22 R, SO2 A ->
  tr_rot2 Rops (m_theta2_rad Rops A) = A /\ Rabs (m_theta2_rad Rops A) <= PI.
Proof.
  intros A H. split; [|apply theta2_range].
  destruct (C05_planar_constructors 0 0 (m_theta2_rad Rops A)) as (-> & _). apply (theta2_right_inverse A H).
Qed.
Print Assumptions C05_theta_right_inverse.

(* ============================================================ degrees = radians * 180/pi on the extraction side *)
Theorem C05_extraction_deg : forall (M : M33 R) (A2 : M22 R),
  let sc := fun a : V3 R => let '(r,p,y) := a in (r*(180/PI), p*(180/PI), y*(180/PI)) in
  m_tr2rpy_zyx_deg Rops M = sc (m_tr2rpy_zyx_rad Rops M) /\
  m_tr2rpy_xyz_deg Rops M = sc (m_tr2rpy_xyz_rad Rops M) /\
  m_tr2rpy_yxz_deg Rops M = sc (m_tr2rpy_yxz_rad Rops M) /\
  m_tr2eul_noflip_deg Rops M = sc (m_tr2eul_noflip_rad Rops M) /\
  m_tr2eul_flip_deg Rops M = sc (m_tr2eul_flip_rad Rops M) /\
  m_theta2_deg Rops A2 = m_theta2_rad Rops A2 * (180/PI) /\
  m_tr2xyt_deg Rops M = (let '(x,y,t) := m_tr2xyt_rad Rops M in (x, y, t*(180/PI))).
Proof.
  intros. unfold sc, m_tr2rpy_zyx_deg, m_tr2rpy_zyx_rad, m_tr2rpy_xyz_deg, m_tr2rpy_xyz_rad, m_tr2rpy_yxz_deg, m_tr2rpy_yxz_rad,
    m_tr2eul_noflip_deg, m_tr2eul_noflip_rad, m_tr2eul_flip_deg, m_tr2eul_flip_rad, m_theta2_deg, m_theta2_rad,
    m_tr2xyt_deg, m_tr2xyt_rad, tr2rpy_zyx_u, tr2rpy_xyz_u, tr2rpy_yxz_u, tr2eul_u.
  split; [|split; [|split; [|split; [|split; [|split]]]]].
  1-5: match goal with |- scale_unit _ true ?x = _ => destruct x as [[? ?] ?] end; unfold scale_unit, to_deg; sm_simpl; reflexivity.
  - apply theta2_deg.
  - apply tr2xyt_deg.
Qed.
Print Assumptions C05_extraction_deg.
