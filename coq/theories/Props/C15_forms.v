(* C15 (part 3) -- container forms of the functions that did NOT share the argument conversion on the original tree
   and gained it in the fix rounds: norm / normsq (27fbc71), cross (961176d), vvmul (bc3ebca), SE2.Exp (8585593).
   Every container form is executed on SymPy symbols on every run (props/C15.py build()); the statements are fixed:
   all five forms give the same function, and that function is the reference one of Base/Lin.v. *)
From Coq Require Import Reals ZArith Lra.
From SM Require Import Base.Ops Base.Lin Base.RInst.
From SMgen Require Import Traces_C15.
Open Scope R_scope.

Ltac open_traces := intros; destruct_tuples; autounfold with smgen smlin; sm_simpl.
Ltac same := open_traces; tuple_eq ltac:(try reflexivity; try ring).

Theorem C15_norm_forms : forall v : V3 R,
  tr_norm_list Rops v = tr_norm_nd Rops v /\ tr_norm_tuple Rops v = tr_norm_nd Rops v /\
  tr_norm_row Rops v = tr_norm_nd Rops v /\ tr_norm_col Rops v = tr_norm_nd Rops v /\
  tr_norm_nd Rops v = norm3 Rops v.
Proof. intros; repeat split; open_traces; f_equal; ring. Qed.
Print Assumptions C15_norm_forms.

Theorem C15_normsq_forms : forall v : V3 R,
  tr_normsq_list Rops v = tr_normsq_nd Rops v /\ tr_normsq_tuple Rops v = tr_normsq_nd Rops v /\
  tr_normsq_row Rops v = tr_normsq_nd Rops v /\ tr_normsq_col Rops v = tr_normsq_nd Rops v /\
  tr_normsq_nd Rops v = normsq3 Rops v.
Proof. intros; repeat split; same. Qed.
Print Assumptions C15_normsq_forms.

Theorem C15_cross_forms : forall u v : V3 R,
  tr_cross_u_list Rops u v = cross3 Rops u v /\ tr_cross_u_tuple Rops u v = cross3 Rops u v /\
  tr_cross_u_nd Rops u v = cross3 Rops u v /\ tr_cross_u_row Rops u v = cross3 Rops u v /\
  tr_cross_u_col Rops u v = cross3 Rops u v /\
  tr_cross_v_list Rops u v = cross3 Rops u v /\ tr_cross_v_tuple Rops u v = cross3 Rops u v /\
  tr_cross_v_nd Rops u v = cross3 Rops u v /\ tr_cross_v_row Rops u v = cross3 Rops u v /\
  tr_cross_v_col Rops u v = cross3 Rops u v.
Proof. intros; repeat split; same. Qed.
Print Assumptions C15_cross_forms.

Theorem C15_vvmul_forms : forall u v : V3 R,
  tr_vvmul_a_list Rops u v = tr_vvmul_a_nd Rops u v /\ tr_vvmul_a_tuple Rops u v = tr_vvmul_a_nd Rops u v /\
  tr_vvmul_a_row Rops u v = tr_vvmul_a_nd Rops u v /\ tr_vvmul_a_col Rops u v = tr_vvmul_a_nd Rops u v /\
  tr_vvmul_b_list Rops u v = tr_vvmul_a_nd Rops u v /\ tr_vvmul_b_tuple Rops u v = tr_vvmul_a_nd Rops u v /\
  tr_vvmul_b_nd Rops u v = tr_vvmul_a_nd Rops u v /\ tr_vvmul_b_row Rops u v = tr_vvmul_a_nd Rops u v /\
  tr_vvmul_b_col Rops u v = tr_vvmul_a_nd Rops u v.
Proof. intros; repeat split; same. Qed.
Print Assumptions C15_vvmul_forms.

(* SE2.Exp: a list or tuple of three numbers is the same twist as the 1-D array (rotational path) *)
Theorem C15_SE2_Exp_forms : forall w : V3 R,
  tr_SE2_Exp_list Rops w = tr_SE2_Exp_nd Rops w /\ tr_SE2_Exp_tuple Rops w = tr_SE2_Exp_nd Rops w.
Proof. intros; split; same. Qed.
Print Assumptions C15_SE2_Exp_forms.
(* the traced exponential is not the identity: the pure rotation by w2 > 0 has cos w2 in its corner *)
Example C15_SE2_Exp_nonvacuous : fst (fst (fst (fst (tr_SE2_Exp_nd Rops (0, 0, PI))))) = -1.
Proof. autounfold with smgen; sm_simpl. cbn [fst]. rewrite Rabs_right by (generalize PI_RGT_0; lra). apply cos_PI. Qed.
