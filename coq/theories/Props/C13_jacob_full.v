(* C13 -- SE3.jacob, FULL STATEMENT; proved when the call runs (the regenerated tr_SE3_jacob is `PyOk trace`).
   On the unchanged tree the call raises NameError and C13_jacob_asis.v is proved instead. *)
From Coq Require Import Reals ZArith Lra.
From SM Require Import Base.Ops Base.Lin Base.RInst Base.RLin.
From SMgen Require Import Traces_C13.
Open Scope R_scope.

Theorem C13_SE3_jacob_full : forall X : M44 R,
  tr_SE3_jacob Rops X = PyOk (tr_tr2jac Rops X) /\
  tr_SE3_jacob Rops X = PyOk (block66 (mtr33 (t2r3 X)) (Z33 Rops) (Z33 Rops) (mtr33 (t2r3 X))).
Proof.
  intros. unfold tr_SE3_jacob. split; f_equal; destruct_tuples; autounfold with smgen smlin; sm_simpl; tuple_eq ltac:(ring).
Qed.
Print Assumptions C13_SE3_jacob_full.
