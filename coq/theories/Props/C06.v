(* C06 -- applying a pose to points is the rigid motion p -> R p + t  (kernel laws).
   Statements are fixed; every tr_* definition is regenerated from /repo on each run (the library itself executed
   on symbols: SMPose.__mul__, base.homtrans/e2h/h2e, base.qvmul/q2r, UnitQuaternion.__mul__, DualQuaternion.__mul__).
   The shape dispatch (which column comes from which pose value / point column) is in Props/C06_dispatch.v. *)
From Coq Require Import Reals ZArith Lra Nsatz.
From SM Require Import Base.Ops Base.Lin Base.RInst Base.RLin.
From SMgen Require Import Traces_C06.
Open Scope R_scope.

(* ---------------------------------------------------------------- the specification: R p + t, computed independently *)
Definition act3 (X : M44 R) (p : V3 R) : V3 R := vadd3 Rops (mv33 Rops (t2r3 X) p) (transl3 X).
Definition act2 (X : M33 R) (p : V2 R) : V2 R := vadd2 Rops (mv22 Rops (t2r2 X) p) (transl2 X).
Definition hom4 (X : M44 R) : Prop := lastrow4 X = (0, 0, 0, 1).     (* last row of a homogeneous transform *)
Definition hom3 (X : M33 R) : Prop := lastrow3 X = (0, 0, 1).
#[local] Hint Unfold act3 act2 : smlin.

Lemma SE3_hom X : SE3 X -> hom4 X.  Proof. intros [_ H]; exact H. Qed.
Lemma SE2_hom X : SE2 X -> hom3 X.  Proof. intros [_ H]; exact H. Qed.

(* substitute the last row (0,..,0,1) of every homogeneous-transform hypothesis *)
Ltac use_hom :=
  repeat match goal with
         | H : hom4 _ |- _ => unfold hom4 in H; simpl in H; injection H as -> -> -> ->
         | H : hom3 _ |- _ => unfold hom3 in H; simpl in H; injection H as -> -> ->
         end.
Ltac gen_unfold := autounfold with smgen smlin in *; sm_simpl.
Ltac gen_ring := intros; destruct_tuples; gen_unfold; tuple_eq ltac:(ring).
Ltac gen_field := intros; destruct_tuples; use_hom; gen_unfold; tuple_eq ltac:(first [reflexivity | field; lra]).

(* ================================================================ 1. pose * point is R p + t *)
Theorem C06_SE3_point : forall (X : M44 R) (p : V3 R), hom4 X -> tr_SE3_v Rops X p = act3 X p.
Proof. gen_field. Qed.
Print Assumptions C06_SE3_point.

Theorem C06_SO3_point : forall (X : M33 R) (p : V3 R), tr_SO3_v Rops X p = mv33 Rops X p.
Proof. gen_ring. Qed.
Print Assumptions C06_SO3_point.

Theorem C06_SE2_point : forall (X : M33 R) (p : V2 R), hom3 X -> tr_SE2_v Rops X p = act2 X p.
Proof. gen_field. Qed.
Print Assumptions C06_SE2_point.

Theorem C06_SO2_point : forall (X : M22 R) (p : V2 R), tr_SO2_v Rops X p = mv22 Rops X p.
Proof. gen_ring. Qed.
Print Assumptions C06_SO2_point.

(* every way of writing the point (list, tuple, 1-D array, row, column) gives the same point *)
Theorem C06_forms_SE3 : forall (X : M44 R) (p : V3 R), hom4 X ->
  tr_SE3_list Rops X p = act3 X p /\ tr_SE3_tuple Rops X p = act3 X p /\
  tr_SE3_row Rops X p = act3 X p /\ tr_SE3_col Rops X p = act3 X p.
Proof. intros X p H. repeat split; revert H; gen_field. Qed.
Print Assumptions C06_forms_SE3.

Theorem C06_forms_SO3 : forall (X : M33 R) (p : V3 R),
  tr_SO3_list Rops X p = mv33 Rops X p /\ tr_SO3_tuple Rops X p = mv33 Rops X p /\
  tr_SO3_row Rops X p = mv33 Rops X p /\ tr_SO3_col Rops X p = mv33 Rops X p.
Proof. intros; repeat split; gen_ring. Qed.
Print Assumptions C06_forms_SO3.

Theorem C06_forms_SE2 : forall (X : M33 R) (p : V2 R), hom3 X ->
  tr_SE2_list Rops X p = act2 X p /\ tr_SE2_tuple Rops X p = act2 X p /\
  tr_SE2_row Rops X p = act2 X p /\ tr_SE2_col Rops X p = act2 X p.
Proof. intros X p H. repeat split; revert H; gen_field. Qed.
Print Assumptions C06_forms_SE2.

Theorem C06_forms_SO2 : forall (X : M22 R) (p : V2 R),
  tr_SO2_list Rops X p = mv22 Rops X p /\ tr_SO2_tuple Rops X p = mv22 Rops X p /\
  tr_SO2_row Rops X p = mv22 Rops X p /\ tr_SO2_col Rops X p = mv22 Rops X p.
Proof. intros; repeat split; gen_ring. Qed.
Print Assumptions C06_forms_SO2.

(* ================================================================ 2. rigid: distances and handedness are preserved *)
Lemma act3_distance : forall (X : M44 R) (p q : V3 R), SE3 X ->
  normsq3 Rops (vsub3 Rops (act3 X p) (act3 X q)) = normsq3 Rops (vsub3 Rops p q).
Proof.
  intros X p q [HR HL]. destruct_tuples. simpl in HR. so3_facts HR. clear HL.
  repeat match goal with H : _ = _ - _ |- _ => clear H end.
  gen_unfold. nsatz.
Qed.

Theorem C06_SE3_distance : forall (X : M44 R) (p q : V3 R), SE3 X ->
  normsq3 Rops (vsub3 Rops (tr_SE3_v Rops X p) (tr_SE3_v Rops X q)) = normsq3 Rops (vsub3 Rops p q).
Proof. intros X p q H. rewrite !C06_SE3_point by (apply SE3_hom; exact H). apply act3_distance; exact H. Qed.
Print Assumptions C06_SE3_distance.

Theorem C06_SO3_distance : forall (X : M33 R) (p q : V3 R), SO3 X ->
  normsq3 Rops (vsub3 Rops (tr_SO3_v Rops X p) (tr_SO3_v Rops X q)) = normsq3 Rops (vsub3 Rops p q).
Proof.
  intros X p q HR. rewrite !C06_SO3_point. destruct_tuples. so3_facts HR.
  repeat match goal with H : _ = _ - _ |- _ => clear H end.
  gen_unfold. nsatz.
Qed.
Print Assumptions C06_SO3_distance.

(* handedness: the oriented volume of the tetrahedron (o, p, q, r) is unchanged *)
Definition vol3 (o p q r : V3 R) : R := det33 Rops (vsub3 Rops p o, vsub3 Rops q o, vsub3 Rops r o).
Definition area2 (o p q : V2 R) : R := det22 Rops (vsub2 Rops p o, vsub2 Rops q o).
#[local] Hint Unfold vol3 area2 : smlin.

Lemma act3_handedness : forall (X : M44 R) (o p q r : V3 R), SE3 X ->
  vol3 (act3 X o) (act3 X p) (act3 X q) (act3 X r) = vol3 o p q r.
Proof.
  intros X o p q r [HR HL]. destruct_tuples. simpl in HR. unfold SO3 in HR. destruct HR as (_&_&_&_&_&_&HD). clear HL.
  gen_unfold. nsatz.
Qed.

Theorem C06_SE3_handedness : forall (X : M44 R) (o p q r : V3 R), SE3 X ->
  vol3 (tr_SE3_v Rops X o) (tr_SE3_v Rops X p) (tr_SE3_v Rops X q) (tr_SE3_v Rops X r) = vol3 o p q r.
Proof. intros X o p q r H. rewrite !C06_SE3_point by (apply SE3_hom; exact H). apply act3_handedness; exact H. Qed.
Print Assumptions C06_SE3_handedness.

Theorem C06_SO3_handedness : forall (X : M33 R) (o p q r : V3 R), SO3 X ->
  vol3 (tr_SO3_v Rops X o) (tr_SO3_v Rops X p) (tr_SO3_v Rops X q) (tr_SO3_v Rops X r) = vol3 o p q r.
Proof.
  intros X o p q r HR. rewrite !C06_SO3_point. destruct_tuples. unfold SO3 in HR. destruct HR as (_&_&_&_&_&_&HD).
  gen_unfold. nsatz.
Qed.
Print Assumptions C06_SO3_handedness.

Theorem C06_SE2_rigid : forall (X : M33 R) (o p q : V2 R), SE2 X ->
  dot2 Rops (vsub2 Rops (tr_SE2_v Rops X p) (tr_SE2_v Rops X q)) (vsub2 Rops (tr_SE2_v Rops X p) (tr_SE2_v Rops X q))
    = dot2 Rops (vsub2 Rops p q) (vsub2 Rops p q) /\
  area2 (tr_SE2_v Rops X o) (tr_SE2_v Rops X p) (tr_SE2_v Rops X q) = area2 o p q.
Proof.
  intros X o p q H. rewrite !C06_SE2_point by (apply SE2_hom; exact H). destruct H as [HR HL]. destruct_tuples.
  simpl in HR. pose proof (SO2_columns _ _ _ _ HR) as (?&?&?). unfold SO2 in HR. destruct HR as (?&?&?&?). clear HL.
  gen_unfold. split; nsatz.
Qed.
Print Assumptions C06_SE2_rigid.

Theorem C06_SO2_rigid : forall (X : M22 R) (o p q : V2 R), SO2 X ->
  dot2 Rops (vsub2 Rops (tr_SO2_v Rops X p) (tr_SO2_v Rops X q)) (vsub2 Rops (tr_SO2_v Rops X p) (tr_SO2_v Rops X q))
    = dot2 Rops (vsub2 Rops p q) (vsub2 Rops p q) /\
  area2 (tr_SO2_v Rops X o) (tr_SO2_v Rops X p) (tr_SO2_v Rops X q) = area2 o p q.
Proof.
  intros X o p q HR. rewrite !C06_SO2_point. destruct_tuples.
  pose proof (SO2_columns _ _ _ _ HR) as (?&?&?). unfold SO2 in HR. destruct HR as (?&?&?&?).
  gen_unfold. split; nsatz.
Qed.
Print Assumptions C06_SO2_rigid.

(* ================================================================ 3. compatibility with composition and inversion *)
Theorem C06_SE3_compose : forall (X Y : M44 R) (p : V3 R), hom4 X -> hom4 Y ->
  tr_SE3_v Rops (tr_SE3_mul Rops X Y) p = tr_SE3_v Rops X (tr_SE3_v Rops Y p).
Proof. gen_field. Qed.
Print Assumptions C06_SE3_compose.

Theorem C06_SO3_compose : forall (X Y : M33 R) (p : V3 R),
  tr_SO3_v Rops (tr_SO3_mul Rops X Y) p = tr_SO3_v Rops X (tr_SO3_v Rops Y p).
Proof. gen_ring. Qed.
Print Assumptions C06_SO3_compose.

Theorem C06_SE2_compose : forall (X Y : M33 R) (p : V2 R), hom3 X -> hom3 Y ->
  tr_SE2_v Rops (tr_SE2_mul Rops X Y) p = tr_SE2_v Rops X (tr_SE2_v Rops Y p).
Proof. gen_field. Qed.
Print Assumptions C06_SE2_compose.

Theorem C06_SO2_compose : forall (X Y : M22 R) (p : V2 R),
  tr_SO2_v Rops (tr_SO2_mul Rops X Y) p = tr_SO2_v Rops X (tr_SO2_v Rops Y p).
Proof. gen_ring. Qed.
Print Assumptions C06_SO2_compose.

(* the inverse pose: the traced X.inv() is [R' , -R' t], it is again a homogeneous transform, X.inv()*v is it applied to v *)
Theorem C06_SE3_inv_structure : forall (X : M44 R) (v : V3 R), hom4 X ->
  tr_SE3_inv Rops X = trinv_ref X /\ hom4 (tr_SE3_inv Rops X) /\ tr_SE3_invv Rops X v = act3 (trinv_ref X) v.
Proof.
  intros X v H. assert (E : tr_SE3_inv Rops X = trinv_ref X) by (revert H; unfold trinv_ref; gen_field).
  split; [exact E|]. split.
  - rewrite E. destruct_tuples. unfold hom4, trinv_ref. gen_unfold. reflexivity.
  - revert H. unfold trinv_ref. gen_field.
Qed.
Print Assumptions C06_SE3_inv_structure.

Lemma act3_inverse : forall (X : M44 R) (p : V3 R), SE3 X -> act3 (trinv_ref X) (act3 X p) = p.
Proof.
  intros X p [HR HL]. destruct_tuples. simpl in HR. so3_facts HR. clear HL.
  repeat match goal with H : _ = _ - _ |- _ => clear H end.
  unfold trinv_ref. gen_unfold. tuple_eq ltac:(nsatz).
Qed.

Theorem C06_SE3_inverse : forall (X : M44 R) (p : V3 R), SE3 X ->
  tr_SE3_v Rops (tr_SE3_inv Rops X) (tr_SE3_v Rops X p) = p /\ tr_SE3_invv Rops X (tr_SE3_v Rops X p) = p.
Proof.
  intros X p H. pose proof (SE3_hom X H) as Hh.
  destruct (C06_SE3_inv_structure X (tr_SE3_v Rops X p) Hh) as (E & Hi & Ev).
  split.
  - rewrite (C06_SE3_point _ _ Hi), E, (C06_SE3_point _ _ Hh). apply act3_inverse; exact H.
  - rewrite Ev, (C06_SE3_point _ _ Hh). apply act3_inverse; exact H.
Qed.
Print Assumptions C06_SE3_inverse.

Theorem C06_SO3_inverse : forall (X : M33 R) (p : V3 R), SO3 X -> tr_SO3_invv Rops X (tr_SO3_v Rops X p) = p.
Proof.
  intros X p HR. destruct_tuples. so3_facts HR. repeat match goal with H : _ = _ - _ |- _ => clear H end.
  gen_unfold. tuple_eq ltac:(nsatz).
Qed.
Print Assumptions C06_SO3_inverse.

(* the MULTI-valued branch of inv() (its own code path): for a two-valued pose, value k of X.inv(), applied to a point,
   is the structured inverse [R_k' , -R_k' t_k] of value k applied to it -- hence undoes value k *)
Theorem C06_multi_inverse_SE3 : forall (X0 X1 : M44 R) (v : V3 R), hom4 X0 -> hom4 X1 ->
  tr_SE3_minv2_c0 Rops X0 X1 v = act3 (trinv_ref X0) v /\ tr_SE3_minv2_c1 Rops X0 X1 v = act3 (trinv_ref X1) v.
Proof. intros X0 X1 v H0 H1. split; revert H0 H1; unfold trinv_ref; gen_field. Qed.
Print Assumptions C06_multi_inverse_SE3.

Theorem C06_multi_inverse_undoes_SE3 : forall (X0 X1 : M44 R) (p : V3 R), SE3 X0 -> SE3 X1 ->
  tr_SE3_minv2_c0 Rops X0 X1 (tr_SE3_v Rops X0 p) = p /\ tr_SE3_minv2_c1 Rops X0 X1 (tr_SE3_v Rops X1 p) = p.
Proof.
  intros X0 X1 p H0 H1. pose proof (SE3_hom _ H0) as h0. pose proof (SE3_hom _ H1) as h1.
  destruct (C06_multi_inverse_SE3 X0 X1 (tr_SE3_v Rops X0 p) h0 h1) as [-> _].
  destruct (C06_multi_inverse_SE3 X0 X1 (tr_SE3_v Rops X1 p) h0 h1) as [_ ->].
  rewrite (C06_SE3_point _ _ h0), (C06_SE3_point _ _ h1). split; apply act3_inverse; assumption.
Qed.
Print Assumptions C06_multi_inverse_undoes_SE3.

Theorem C06_multi_inverse_SO : forall (X0 X1 : M33 R) (Y0 Y1 : M22 R) (v : V3 R) (w : V2 R),
  tr_SO3_minv2_c0 Rops X0 X1 v = tr_SO3_invv Rops X0 v /\ tr_SO3_minv2_c1 Rops X0 X1 v = tr_SO3_invv Rops X1 v /\
  tr_SO3_minv2_c0 Rops X0 X1 v = mv33 Rops (mtr33 X0) v /\
  tr_SO2_minv2_c0 Rops Y0 Y1 w = tr_SO2_invv Rops Y0 w /\ tr_SO2_minv2_c1 Rops Y0 Y1 w = tr_SO2_invv Rops Y1 w /\
  tr_SO2_minv2_c0 Rops Y0 Y1 w = mv22 Rops (mtr22 Y0) w.
Proof. intros; repeat split; gen_ring. Qed.
Print Assumptions C06_multi_inverse_SO.

Definition trinv2_ref (A : M33 R) : M33 R :=
  rt2tr2 Rops (mtr22 (t2r2 A)) (vneg2 Rops (mv22 Rops (mtr22 (t2r2 A)) (transl2 A))).

(* SE2.inv() is [R', -R' t] with last row (0,0,1) for EVERY 3x3 input (since fix 1c511ed it is built with check=False
   and traces without a path condition); X.inv() * v is that matrix applied to v *)
Theorem C06_SE2_inv_structure : forall (X : M33 R) (v : V2 R),
  tr_SE2_inv Rops X = trinv2_ref X /\ hom3 (tr_SE2_inv Rops X) /\ tr_SE2_invv Rops X v = act2 (trinv2_ref X) v.
Proof.
  intros X v. assert (E : tr_SE2_inv Rops X = trinv2_ref X) by (unfold trinv2_ref; gen_field).
  split; [exact E|]. split.
  - rewrite E. destruct_tuples. unfold hom3, trinv2_ref. gen_unfold. reflexivity.
  - unfold trinv2_ref. gen_field.
Qed.
Print Assumptions C06_SE2_inv_structure.

Lemma act2_inverse : forall (X : M33 R) (p : V2 R), SE2 X -> act2 (trinv2_ref X) (act2 X p) = p.
Proof.
  intros X p [HR _]. destruct_tuples. simpl in HR. pose proof (SO2_columns _ _ _ _ HR) as (?&?&?).
  unfold SO2 in HR. destruct HR as (?&?&?&?). unfold trinv2_ref. gen_unfold. tuple_eq ltac:(nsatz).
Qed.

Theorem C06_SE2_inverse : forall (X : M33 R) (p : V2 R), SE2 X ->
  tr_SE2_v Rops (tr_SE2_inv Rops X) (tr_SE2_v Rops X p) = p /\ tr_SE2_invv Rops X (tr_SE2_v Rops X p) = p.
Proof.
  intros X p H. pose proof (SE2_hom X H) as Hh.
  destruct (C06_SE2_inv_structure X (tr_SE2_v Rops X p)) as (E & Hi & Ev).
  split.
  - rewrite (C06_SE2_point _ _ Hi), E, (C06_SE2_point _ _ Hh). apply act2_inverse; exact H.
  - rewrite Ev, (C06_SE2_point _ _ Hh). apply act2_inverse; exact H.
Qed.
Print Assumptions C06_SE2_inverse.

(* multi-valued SE2 inverse (traced with the last rows literally (0,0,1), see props/C06.py minv_of): value k, applied to a
   point, is the structured inverse of value k applied to it; hence it undoes value k *)
Theorem C06_multi_inverse_SE2 : forall (X0 X1 : M33 R) (v : V2 R),
  tr_SE2_minv2_c0 Rops X0 X1 v = act2 (trinv2_ref X0) v /\ tr_SE2_minv2_c1 Rops X0 X1 v = act2 (trinv2_ref X1) v.
Proof. intros X0 X1 v. split; unfold trinv2_ref; gen_field. Qed.
Print Assumptions C06_multi_inverse_SE2.

Theorem C06_multi_inverse_undoes_SE2 : forall (X0 X1 : M33 R) (p : V2 R), SE2 X0 -> SE2 X1 ->
  tr_SE2_minv2_c0 Rops X0 X1 (tr_SE2_v Rops X0 p) = p /\ tr_SE2_minv2_c1 Rops X0 X1 (tr_SE2_v Rops X1 p) = p.
Proof.
  intros X0 X1 p H0 H1.
  destruct (C06_multi_inverse_SE2 X0 X1 (tr_SE2_v Rops X0 p)) as [-> _].
  destruct (C06_multi_inverse_SE2 X0 X1 (tr_SE2_v Rops X1 p)) as [_ ->].
  rewrite (C06_SE2_point _ _ (SE2_hom _ H0)), (C06_SE2_point _ _ (SE2_hom _ H1)). split; apply act2_inverse; assumption.
Qed.
Print Assumptions C06_multi_inverse_undoes_SE2.

Theorem C06_SO2_inverse : forall (X : M22 R) (p : V2 R), SO2 X -> tr_SO2_invv Rops X (tr_SO2_v Rops X p) = p.
Proof.
  intros X p HR. destruct_tuples. pose proof (SO2_columns _ _ _ _ HR) as (?&?&?). unfold SO2 in HR. destruct HR as (?&?&?&?).
  gen_unfold. tuple_eq ltac:(nsatz).
Qed.
Print Assumptions C06_SO2_inverse.

(* ================================================================ 4. the homogeneous-coordinate function route *)
Theorem C06_e2h_h2e : forall (p : V3 R) (p2 : V2 R) (k : R), k <> 0 ->
  tr_e2h3 Rops p = (let '(x, y, z) := p in (x, y, z, 1)) /\ tr_h2e3 Rops (tr_e2h3 Rops p) = p /\
  tr_h2e3 Rops (vscale4 Rops k (tr_e2h3 Rops p)) = p /\
  tr_e2h2 Rops p2 = (let '(x, y) := p2 in (x, y, 1)) /\ tr_h2e2 Rops (tr_e2h2 Rops p2) = p2 /\
  tr_h2e2 Rops (vscale3 Rops k (tr_e2h2 Rops p2)) = p2.
Proof.
  intros p p2 k Hk. destruct_tuples. gen_unfold.
  repeat split; tuple_eq ltac:(first [reflexivity | field; lra | field; assumption]).
Qed.
Print Assumptions C06_e2h_h2e.

Theorem C06_route_homtrans : forall (X : M44 R) (p : V3 R) (Y : M33 R) (p2 : V2 R), hom4 X -> hom3 Y ->
  tr_homtrans3 Rops X p = act3 X p /\ tr_homtrans3 Rops X p = tr_h2e3 Rops (mv44 Rops X (tr_e2h3 Rops p)) /\
  tr_homtrans2 Rops Y p2 = act2 Y p2 /\ tr_homtrans2 Rops Y p2 = tr_h2e2 Rops (mv33 Rops Y (tr_e2h2 Rops p2)).
Proof. intros X p Y p2 HX HY. repeat split; revert HX HY; gen_field. Qed.
Print Assumptions C06_route_homtrans.

(* ================================================================ 5. the unit-quaternion route: q v q* = q2r(q) v *)
Theorem C06_q2r_is_rotation : forall q : V4 R, qnormsq Rops q = 1 ->
  tr_q2r Rops q = q2r_ref Rops q /\ SO3 (tr_q2r Rops q).
Proof.
  intros q H. assert (E : tr_q2r Rops q = q2r_ref Rops q) by (clear H; gen_ring).
  split; [exact E|]. rewrite E. apply SO3_q2r; exact H.
Qed.
Print Assumptions C06_q2r_is_rotation.

Theorem C06_qvmul_is_rotation : forall (q : V4 R) (v : V3 R), qnormsq Rops q = 1 ->
  tr_qvmul Rops q v = mv33 Rops (tr_q2r Rops q) v.
Proof. intros q v H. destruct_tuples. gen_unfold. tuple_eq ltac:(nsatz). Qed.
Print Assumptions C06_qvmul_is_rotation.

Theorem C06_UQ_point : forall (q : V4 R) (v : V3 R),
  tr_UQ_v Rops q v = tr_qvmul Rops q v /\ tr_UQ_col Rops q v = tr_qvmul Rops q v.
Proof. intros; split; gen_ring. Qed.
Print Assumptions C06_UQ_point.

(* rotation-matrix route == unit-quaternion route *)
Theorem C06_route_quaternion : forall (q : V4 R) (v : V3 R), qnormsq Rops q = 1 ->
  tr_UQ_v Rops q v = tr_SO3_v Rops (tr_q2r Rops q) v.
Proof.
  intros q v H. destruct (C06_UQ_point q v) as [-> _]. rewrite C06_SO3_point. apply C06_qvmul_is_rotation; exact H.
Qed.
Print Assumptions C06_route_quaternion.

(* ================================================================ 6. the unit-dual-quaternion route
   DualQuaternion.__mul__ (point branch) computes  left * Pure(v) * DualQuaternion(left.real.conj(), -left.dual.conj())
   -- the conjugate that also negates the dual unit -- and returns the vector of the dual part.
   (Before fix 0a28e8d it used left.conj() and the translation cancelled: the statement below was then false of the traced code and carried as a
   counterexample plus guarded version.)  tr_UDQ_v is traced under |q| = 1: products of UnitQuaternions are re-normalised, the sqrt
   terms are rewritten to 1 under the hypothesis. *)
Ltac unit_sqrt H :=
  repeat match goal with
         | |- context [sqrt ?x] =>
           let E := fresh "E" in
           assert (E : x = 1) by (rewrite ?H; lra); rewrite E; clear E; rewrite sqrt_1
         end.

(* the dual part the UnitDualQuaternion(SE3) constructor stores is (1/2) t q *)
Theorem C06_UDQ_dual_part : forall (q : V4 R) (t : V3 R),
  tr_UDQ_dual Rops q t = vscale4 Rops (1/2) (qmul Rops (qpure Rops t) q).
Proof. intros; destruct_tuples; gen_unfold; tuple_eq ltac:(field). Qed.
Print Assumptions C06_UDQ_dual_part.

(* FULL STATEMENT: the unit dual quaternion of the rigid motion (q, t) maps v to q2r(q) v + t *)
Theorem C06_UDQ_point : forall (q : V4 R) (t v : V3 R), qnormsq Rops q = 1 ->
  tr_UDQ_v Rops q (tr_UDQ_dual Rops q t) v = vadd3 Rops (mv33 Rops (tr_q2r Rops q) v) t.
Proof.
  intros q t v H. destruct_tuples. gen_unfold.
  unit_sqrt H. tuple_eq ltac:(apply (Rmult_eq_reg_l 2); [|lra]; field_simplify; simpl; nsatz).
Qed.
Print Assumptions C06_UDQ_point.

(* dual-quaternion route == homogeneous-matrix route, with R = q2r(q) in SO(3) *)
Theorem C06_route_dual_quaternion : forall (q : V4 R) (t v : V3 R), qnormsq Rops q = 1 ->
  SE3 (rt2tr3 Rops (tr_q2r Rops q) t) /\
  tr_UDQ_v Rops q (tr_UDQ_dual Rops q t) v = tr_SE3_v Rops (rt2tr3 Rops (tr_q2r Rops q) t) v.
Proof.
  intros q t v H. destruct (C06_q2r_is_rotation q H) as [_ HR]. split; [apply SE3_rt; exact HR|].
  rewrite (C06_UDQ_point q t v H).
  assert (Hh : hom4 (rt2tr3 Rops (tr_q2r Rops q) t)).
  { generalize (tr_q2r Rops q). intros M. destruct_tuples. unfold hom4. gen_unfold. reflexivity. }
  rewrite (C06_SE3_point _ _ Hh). generalize (tr_q2r Rops q). intros M. destruct_tuples. gen_unfold. reflexivity.
Qed.
Print Assumptions C06_route_dual_quaternion.

(* the translation really is applied (guards against the statement holding only for t = 0) *)
Example C06_UDQ_point_translates : tr_UDQ_v Rops (1, 0, 0, 0) (tr_UDQ_dual Rops (1, 0, 0, 0) (1, 2, 3)) (0, 0, 0) = (1, 2, 3).
Proof. rewrite C06_UDQ_point by (gen_unfold; lra). gen_unfold. tuple_eq ltac:(lra). Qed.

(* ================================================================ 7. PRODUCTS on the quaternion routes act as the composition
   The product of two UnitQuaternions / two UnitDualQuaternions is traced twice, once on the path where the scalar part of
   q1 q2 is negative and once where it is positive (the two sheets of the double cover; the unchanged code does not
   branch on it, a canonicalising change would).  The traced products re-normalise the real part (sqrt terms = 1). *)
Ltac unit_sqrt2 :=
  repeat match goal with
         | |- context [sqrt ?x] =>
           let E := fresh "E" in assert (E : x = 1) by (first [lra | nsatz]); rewrite E; clear E; rewrite sqrt_1
         end.
Definition dq_real (a : V8 R) : V4 R := let '(a0,a1,a2,a3,_,_,_,_) := a in (a0,a1,a2,a3).
Definition dq_dual (a : V8 R) : V4 R := let '(_,_,_,_,a4,a5,a6,a7) := a in (a4,a5,a6,a7).
Definition dq_make (r d : V4 R) : V8 R := let '(a0,a1,a2,a3) := r in let '(a4,a5,a6,a7) := d in (a0,a1,a2,a3,a4,a5,a6,a7).

Theorem C06_UQ_product : forall q1 q2 : V4 R, qnormsq Rops q1 = 1 -> qnormsq Rops q2 = 1 ->
  tr_UQ_mul_neg Rops q1 q2 = qmul Rops q1 q2 /\ tr_UQ_mul_pos Rops q1 q2 = qmul Rops q1 q2.
Proof.
  intros q1 q2 H1 H2. destruct_tuples. gen_unfold. split; unit_sqrt2; tuple_eq ltac:(field).
Qed.
Print Assumptions C06_UQ_product.

Lemma UQ_v_rot : forall (q : V4 R) (v : V3 R), qnormsq Rops q = 1 -> tr_UQ_v Rops q v = mv33 Rops (q2r_ref Rops q) v.
Proof.
  intros q v H. destruct (C06_UQ_point q v) as [-> _]. rewrite (C06_qvmul_is_rotation q v H).
  destruct (C06_q2r_is_rotation q H) as [-> _]. reflexivity.
Qed.
Lemma mv33_mmul : forall (A B : M33 R) (v : V3 R), mv33 Rops (mmul33 Rops A B) v = mv33 Rops A (mv33 Rops B v).
Proof. lin_ring. Qed.
Lemma qmul_unit : forall p q : V4 R, qnormsq Rops p = 1 -> qnormsq Rops q = 1 -> qnormsq Rops (qmul Rops p q) = 1.
Proof. intros p q Hp Hq. rewrite qmul_norm, Hp, Hq. ring. Qed.

Theorem C06_UQ_product_acts_as_composition : forall (q1 q2 : V4 R) (v : V3 R), qnormsq Rops q1 = 1 -> qnormsq Rops q2 = 1 ->
  tr_UQ_v Rops (tr_UQ_mul_neg Rops q1 q2) v = tr_UQ_v Rops q1 (tr_UQ_v Rops q2 v) /\
  tr_UQ_v Rops (tr_UQ_mul_pos Rops q1 q2) v = tr_UQ_v Rops q1 (tr_UQ_v Rops q2 v).
Proof.
  intros q1 q2 v H1 H2. destruct (C06_UQ_product q1 q2 H1 H2) as [-> ->].
  rewrite (UQ_v_rot _ v (qmul_unit _ _ H1 H2)), (UQ_v_rot q2 v H2), (UQ_v_rot q1 _ H1), (q2r_hom _ _ H1 H2), mv33_mmul.
  split; reflexivity.
Qed.
Print Assumptions C06_UQ_product_acts_as_composition.

Theorem C06_UDQ_product : forall q1 d1 q2 d2 : V4 R, qnormsq Rops q1 = 1 -> qnormsq Rops q2 = 1 ->
  tr_UDQ_mul_neg Rops q1 d1 q2 d2 = dq_make (qmul Rops q1 q2) (vadd4 Rops (qmul Rops q1 d2) (qmul Rops d1 q2)) /\
  tr_UDQ_mul_pos Rops q1 d1 q2 d2 = dq_make (qmul Rops q1 q2) (vadd4 Rops (qmul Rops q1 d2) (qmul Rops d1 q2)).
Proof.
  intros q1 d1 q2 d2 H1 H2. destruct_tuples. unfold dq_make. gen_unfold. split; unit_sqrt2; tuple_eq ltac:(field).
Qed.
Print Assumptions C06_UDQ_product.

(* the dual part of the product of the unit dual quaternions of (q1,t1) and (q2,t2) is the dual part of (q1 q2, R1 t2 + t1) *)
Lemma UDQ_dual_compose : forall (q1 q2 : V4 R) (t1 t2 : V3 R), qnormsq Rops q1 = 1 ->
  vadd4 Rops (qmul Rops q1 (tr_UDQ_dual Rops q2 t2)) (qmul Rops (tr_UDQ_dual Rops q1 t1) q2)
  = tr_UDQ_dual Rops (qmul Rops q1 q2) (vadd3 Rops (mv33 Rops (q2r_ref Rops q1) t2) t1).
Proof.
  intros q1 q2 t1 t2 H. destruct_tuples. gen_unfold.
  tuple_eq ltac:(apply (Rmult_eq_reg_l 2); [|lra]; field_simplify; simpl; nsatz).
Qed.

Theorem C06_UDQ_product_acts_as_composition : forall (q1 q2 : V4 R) (t1 t2 v : V3 R), qnormsq Rops q1 = 1 -> qnormsq Rops q2 = 1 ->
  let d1 := tr_UDQ_dual Rops q1 t1 in let d2 := tr_UDQ_dual Rops q2 t2 in
  let Pn := tr_UDQ_mul_neg Rops q1 d1 q2 d2 in let Pp := tr_UDQ_mul_pos Rops q1 d1 q2 d2 in
  tr_UDQ_v Rops (dq_real Pn) (dq_dual Pn) v = tr_UDQ_v Rops q1 d1 (tr_UDQ_v Rops q2 d2 v) /\
  tr_UDQ_v Rops (dq_real Pp) (dq_dual Pp) v = tr_UDQ_v Rops q1 d1 (tr_UDQ_v Rops q2 d2 v) /\
  (* ... and both are R1 (R2 v + t2) + t1, the composed rigid motion *)
  tr_UDQ_v Rops q1 d1 (tr_UDQ_v Rops q2 d2 v)
    = vadd3 Rops (mv33 Rops (q2r_ref Rops q1) (vadd3 Rops (mv33 Rops (q2r_ref Rops q2) v) t2)) t1.
Proof.
  intros q1 q2 t1 t2 v H1 H2 d1 d2 Pn Pp. subst Pn Pp.
  destruct (C06_UDQ_product q1 d1 q2 d2 H1 H2) as [-> ->]. subst d1 d2.
  assert (Er : forall r d, dq_real (dq_make r d) = r /\ dq_dual (dq_make r d) = d)
    by (intros r d; destruct_tuples; split; reflexivity).
  destruct (Er (qmul Rops q1 q2) (vadd4 Rops (qmul Rops q1 (tr_UDQ_dual Rops q2 t2)) (qmul Rops (tr_UDQ_dual Rops q1 t1) q2))) as [-> ->].
  rewrite (UDQ_dual_compose q1 q2 t1 t2 H1).
  rewrite (C06_UDQ_point _ _ v (qmul_unit _ _ H1 H2)), (C06_UDQ_point q2 t2 v H2), (C06_UDQ_point q1 t1 _ H1).
  destruct (C06_q2r_is_rotation _ (qmul_unit _ _ H1 H2)) as [-> _].
  destruct (C06_q2r_is_rotation q1 H1) as [-> _]. destruct (C06_q2r_is_rotation q2 H2) as [-> _].
  rewrite (q2r_hom _ _ H1 H2).
  assert (K : vadd3 Rops (mv33 Rops (mmul33 Rops (q2r_ref Rops q1) (q2r_ref Rops q2)) v) (vadd3 Rops (mv33 Rops (q2r_ref Rops q1) t2) t1)
              = vadd3 Rops (mv33 Rops (q2r_ref Rops q1) (vadd3 Rops (mv33 Rops (q2r_ref Rops q2) v) t2)) t1).
  { generalize (q2r_ref Rops q1) (q2r_ref Rops q2). intros A B. destruct_tuples. gen_unfold. tuple_eq ltac:(ring). }
  rewrite K. repeat split; reflexivity.
Qed.
Print Assumptions C06_UDQ_product_acts_as_composition.

(* double cover: (q, d) and (-q, -d) are the same rigid motion, q and -q the same rotation *)
Theorem C06_double_cover : forall (q d : V4 R) (v : V3 R), qnormsq Rops q = 1 ->
  tr_UQ_v Rops (vneg4 Rops q) v = tr_UQ_v Rops q v /\
  tr_UDQ_v Rops (vneg4 Rops q) (vneg4 Rops d) v = tr_UDQ_v Rops q d v.
Proof.
  intros q d v H. split; [clear H; gen_ring|]. destruct_tuples. gen_unfold.
  unit_sqrt2. tuple_eq ltac:(field).
Qed.
Print Assumptions C06_double_cover.

(* ... whereas negating the real part alone turns t into -t: NOT the same motion (what canonicalising the rotational part
   alone would do) *)
Example C06_negating_real_part_alone_flips_t :
  tr_UDQ_v Rops (vneg4 Rops (1, 0, 0, 0)) (tr_UDQ_dual Rops (1, 0, 0, 0) (1, 2, 3)) (0, 0, 0) = (-1, -2, -3) /\
  tr_UDQ_v Rops (1, 0, 0, 0) (tr_UDQ_dual Rops (1, 0, 0, 0) (1, 2, 3)) (0, 0, 0) = (1, 2, 3).
Proof.
  gen_unfold. split.
  - repeat match goal with |- context [sqrt ?x] => replace x with 1 by lra; rewrite sqrt_1 end. tuple_eq ltac:(lra).
  - repeat match goal with |- context [sqrt ?x] => replace x with 1 by lra; rewrite sqrt_1 end. tuple_eq ltac:(lra).
Qed.

(* ================================================================ non-vacuity of the hypotheses *)
Example C06_nonvacuous_SE3 : SE3 ((3/5, -(4/5), 0, 7), (4/5, 3/5, 0, -2), (0, 0, 1, 1/3), (0, 0, 0, 1)) /\
  hom4 ((3/5, -(4/5), 0, 7), (4/5, 3/5, 0, -2), (0, 0, 1, 1/3), (0, 0, 0, 1)) /\
  act3 ((3/5, -(4/5), 0, 7), (4/5, 3/5, 0, -2), (0, 0, 1, 1/3), (0, 0, 0, 1)) (5, 10, 1) = (2, 8, 4/3).
Proof.
  unfold SE3, hom4, SO3. gen_unfold. simpl. repeat split; try lra. tuple_eq ltac:(lra).
Qed.
Example C06_nonvacuous_SE2 : SE2 ((3/5, -(4/5), 7), (4/5, 3/5, -2), (0, 0, 1)) /\ SO2 ((3/5, -(4/5)), (4/5, 3/5)) /\
  SO3 ((3/5, -(4/5), 0), (4/5, 3/5, 0), (0, 0, 1)) /\ qnormsq Rops (1/2, 1/2, 1/2, 1/2) = 1.
Proof. unfold SE2, SO2, SO3. gen_unfold. simpl. repeat split; lra. Qed.
