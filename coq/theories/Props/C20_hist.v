(* C20 -- history independence: every product / sum of a spatial-vector object is a function of its CURRENT value
   list only.  The model (Model/C20_Inertia.v: step, run, the obs_ functions) has no state besides the value list; on every run the
   implementation is driven through random histories (product; x[k]=v / append / extend / insert / pop / del / reverse /
   clear; product again; products of copies and indexed elements) and every result is compared with the stateless
   reference on the current values, and the value list after each history with [run] evaluated on tags by vm_compute.
   Here: the observations of the model are the traced single-/two-valued products, and they follow the list operations. *)
From Coq Require Import Reals ZArith Lra List Arith.
From SM Require Import Base.Ops Base.Lin Base.RInst Model.C20_Inertia.
From SMgen Require Import Traces_C20.
Import ListNotations.
Open Scope R_scope.

Ltac gen_ring := intros; destruct_tuples; autounfold with smgen smlin; sm_simpl; tuple_eq ltac:(ring).

(* whatever the two histories were, objects with the same current values give the same results *)
Theorem C20_hist_value_only : forall (s1 s2 s s' : list (V6 R)) (h1 h2 : list (mut (V6 R))),
  run s1 h1 = Some s -> run s2 h2 = Some s' -> s = s' ->
  forall (M : M66 R) (m : V6 R) (t : list (V6 R)),
    obs_cross_left Rops s m = obs_cross_left Rops s' m /\ obs_crf_left Rops s m = obs_crf_left Rops s' m /\
    obs_apply Rops M s = obs_apply Rops M s' /\ obs_neg Rops s = obs_neg Rops s' /\
    obs_addsub (vadd6 Rops) s t = obs_addsub (vadd6 Rops) s' t /\ obs_addsub (vsub6 Rops) t s = obs_addsub (vsub6 Rops) t s'.
Proof. intros s1 s2 s s' h1 h2 _ _ -> M m t. repeat split. Qed.
Print Assumptions C20_hist_value_only.

(* the observations of a one-valued object are the traced products of that value *)
Theorem C20_hist_obs_are_traces : forall (v m : V6 R) (X : M44 R) (J : M66 R) (a b : V6 R),
  obs_cross_left Rops [v] m = Some (tr_crm Rops v m) /\ obs_crf_left Rops [v] m = Some (tr_crf_Frc Rops v m) /\
  obs_apply Rops (crm_ref Rops v) [a; b] = [tr_crm_2_0 Rops v a b; tr_crm_2_1 Rops v a b] /\
  obs_apply Rops (crf_ref Rops v) [a; b] = [tr_crf_2_0 Rops v a b; tr_crf_2_1 Rops v a b] /\
  obs_apply Rops (tr_Ad Rops X) [a; b] = [tr_se3_Vel_2_0 Rops X a b; tr_se3_Vel_2_1 Rops X a b] /\
  obs_apply Rops (mtr66 (tr_Ad Rops X)) [a; b] = [tr_se3_Frc_2_0 Rops X a b; tr_se3_Frc_2_1 Rops X a b] /\
  obs_apply Rops J [a; b] = [tr_I_acc_2_0 Rops J a b; tr_I_acc_2_1 Rops J a b] /\
  obs_neg Rops [a] = [tr_neg_Vel Rops a] /\ obs_addsub (vadd6 Rops) [a] [b] = Some [tr_add_Vel Rops a b] /\
  obs_addsub (vsub6 Rops) [a] [b] = Some [tr_sub_Vel Rops a b].
Proof.
  intros. unfold obs_cross_left, obs_crf_left, obs_apply, obs_neg, obs_addsub. simpl.
  repeat split; repeat (f_equal; try solve [gen_ring]).
Qed.
Print Assumptions C20_hist_obs_are_traces.

(* replacing the value through the list interface: the product is that of the NEW value (no memory of the old one) *)
Theorem C20_hist_setitem_then_cross : forall (v w m : V6 R),
  run [v] [MSet 0 w] = Some [w] /\ run [v] [MPop 0; MAppend w] = Some [w] /\ run [v] [MClear; MAppend w] = Some [w] /\
  run [v] [MAppend w; MDel 0] = Some [w] /\ run [v] [MInsert 0 w; MPop 1] = Some [w] /\ run [v] [MAppend w; MReverse; MPop 1] = Some [w] /\
  obs_cross_left Rops [w] m = Some (tr_crm Rops w m).
Proof. intros. repeat split; try reflexivity. unfold obs_cross_left. f_equal. gen_ring. Qed.
Print Assumptions C20_hist_setitem_then_cross.

(* element-wise products follow the list operations, for every length *)
Theorem C20_hist_elementwise_follows_list : forall (M : M66 R) (s l : list (V6 R)) (w : V6 R),
  obs_apply Rops M (s ++ [w]) = obs_apply Rops M s ++ [mv66 Rops M w] /\
  obs_apply Rops M (s ++ l) = obs_apply Rops M s ++ obs_apply Rops M l /\
  obs_apply Rops M (rev s) = rev (obs_apply Rops M s) /\
  (forall k, obs_apply Rops M (firstn k s ++ w :: skipn k s) = firstn k (obs_apply Rops M s) ++ mv66 Rops M w :: skipn k (obs_apply Rops M s)) /\
  (forall k, obs_apply Rops M (firstn k s ++ skipn (S k) s) = firstn k (obs_apply Rops M s) ++ skipn (S k) (obs_apply Rops M s)) /\
  length (obs_apply Rops M s) = length s /\ obs_neg Rops (rev s) = rev (obs_neg Rops s).
Proof.
  intros. unfold obs_apply, obs_neg. repeat split.
  - rewrite map_app. reflexivity.
  - apply map_app.
  - apply map_rev.
  - intros k. rewrite map_app. simpl. rewrite firstn_map, skipn_map. reflexivity.
  - intros k. rewrite map_app. rewrite firstn_map, skipn_map. reflexivity.
  - apply map_length.
  - apply map_rev.
Qed.
Print Assumptions C20_hist_elementwise_follows_list.

Example C20_hist_run_nonvacuous :
  run [1%nat; 2%nat; 3%nat] [MSet 1 9%nat; MAppend 4%nat; MInsert 0 7%nat; MPop 2; MReverse; MExtend [5%nat; 6%nat]; MDel 0]
  = Some [3%nat; 1%nat; 7%nat; 5%nat; 6%nat] /\ run [1%nat] [MSet 1 2%nat] = None.
Proof. split; reflexivity. Qed.
