(* C01 (4/4) -- closure of interpolation: every branch of base.slerp returns a unit quaternion for unit inputs, hence the
   SE(3) interpolant  rt2tr(q2r(slerp ..), lerp ..)  of base.trinterp / SE3.interp is in SE(3).
   The statements are about the hand model  slerp / trinterp_q  of Model/C11_Interp.v (fixed file, owned by C11, lemmas in
   Model/C11_InterpR.v) with the small-angle threshold slerp_k01 REGENERATED from the AST of base.slerp; the wrappers
   m01_slerp_long / m01_slerp_short of gen/Traces_C01.v are run on OCaml floats against base.slerp on every run
   (close pairs, relative angle log-uniform, interior s), so a branch that returns something else -- e.g. an un-normalised
   linear interpolation for nearly equal orientations -- breaks the skeleton test and the correspondence, and the
   oracle of props/C01.py exhibits the failing input. *)
From Coq Require Import Reals ZArith Lra Bool.
From SM Require Import Base.Ops Base.Lin Base.RInst Base.RLin Model.C01_Lemmas Model.C11_Interp Model.C11_InterpR.
From SMgen Require Import Traces_C01.
Open Scope R_scope.

Definition K01 : R := of_Z Rops slerp_k01.

(* the regenerated threshold is a non-negative multiple of eps *)
Lemma C01_slerp_threshold_nonneg : 0 <= K01 * eps Rops.
Proof.
  unfold K01. sm_simpl. apply Rmult_le_pos.
  - apply IZR_le. unfold slerp_k01. discriminate.
  - lra.
Qed.

Lemma unitq_UnitQ q : unitq q <-> UnitQ q.
Proof. unfold unitq. symmetry. apply UnitQ_normsq. Qed.

(* every branch: range error / s = 0 / s = 1 / general (sin-weighted, divides by sin theta > 0) / small angle (returns q0) *)
Theorem C01_slerp_closed : forall (q0 q1 : V4 R) (s : R) (sh : bool) (q : V4 R),
  UnitQ q0 -> UnitQ q1 -> not_antipodal sh q0 q1 ->
  slerp Rops K01 q0 q1 s sh = Ok q -> UnitQ q.
Proof.
  intros q0 q1 s sh q U0 U1 NA. apply unitq_UnitQ in U0. apply unitq_UnitQ in U1. rewrite <- unitq_UnitQ.
  unfold slerp. destruct (negb (in01 Rops s)); [discriminate|].
  destruct (eqb Rops s (zero Rops)); [intros E; injection E; intros; subst; assumption|].
  destruct (eqb Rops s (one Rops)); [intros E; injection E; intros; subst; assumption|].
  pose proof (slerp_q0_unit sh q0 q1 U0) as Ua.
  destruct (slerp_theta_facts sh q0 q1 U0 U1) as (B & Hc & _).
  destruct (ltb Rops (mul Rops K01 (eps Rops)) (abs_ Rops (slerp_theta Rops sh q0 q1))) eqn:L;
    intros E; injection E; intros; subst; [|exact Ua].
  change (Rltb (K01 * eps Rops) (Rabs (slerp_theta Rops sh q0 q1)) = true) in L. apply Rltb_true in L.
  pose proof C01_slerp_threshold_nonneg as Kp.
  rewrite Rabs_right in L by lra.
  apply slerp_general_unit; try assumption.
  - symmetry. exact Hc.
  - apply Rgt_not_eq. apply slerp_sin_theta_pos; try assumption. lra.
Qed.
Print Assumptions C01_slerp_closed.

(* the wrappers that are run against the implementation are this model *)
Theorem C01_slerp_wrappers_closed : forall (q0 q1 : V4 R) (s : R) (q : V4 R), UnitQ q0 -> UnitQ q1 ->
  (-1 < dot4 Rops q0 q1 -> m01_slerp_long Rops q0 q1 s = Some q -> UnitQ q) /\
  (m01_slerp_short Rops q0 q1 s = Some q -> UnitQ q).
Proof.
  intros q0 q1 s q U0 U1. unfold m01_slerp_long, m01_slerp_short. split.
  - intros D. destruct (slerp Rops (of_Z Rops slerp_k01) q0 q1 s false) eqn:E; simpl; [|discriminate].
    intros H; injection H; intros; subst. apply (C01_slerp_closed q0 q1 s false q U0 U1); [right; exact D | exact E].
  - destruct (slerp Rops (of_Z Rops slerp_k01) q0 q1 s true) eqn:E; simpl; [|discriminate].
    intros H; injection H; intros; subst. apply (C01_slerp_closed q0 q1 s true q U0 U1); [left; reflexivity | exact E].
Qed.
Print Assumptions C01_slerp_wrappers_closed.

(* SE(3) interpolation (after the two r2q calls): rotation block q2r of a unit quaternion, last row (0,0,0,1) *)
Theorem C01_trinterp_closed : forall (q0 q1 : V4 R) (p0 p1 : V3 R) (s : R) (sh : bool) (M : M44 R),
  UnitQ q0 -> UnitQ q1 -> not_antipodal sh q0 q1 ->
  (trinterp_q Rops K01 sh q0 q1 p0 p1 s = Ok M -> SE3 M) /\
  (not_antipodal sh (qone Rops) q1 -> trinterp_q1 Rops K01 sh q1 p1 s = Ok M -> SE3 M).
Proof.
  intros q0 q1 p0 p1 s sh M U0 U1 NA. split.
  - unfold trinterp_q. destruct (negb (in01 Rops s)); [discriminate|].
    destruct (slerp Rops K01 q0 q1 s sh) eqn:E; [|discriminate].
    intros H; injection H; intros; subst. apply trinterp_result_SE3. apply unitq_UnitQ.
    apply (C01_slerp_closed q0 q1 s sh a U0 U1 NA E).
  - intros NA1. unfold trinterp_q1. destruct (negb (in01 Rops s)); [discriminate|].
    destruct (slerp Rops K01 (qone Rops) q1 s sh) eqn:E; [|discriminate].
    intros H; injection H; intros; subst. apply trinterp_result_SE3. apply unitq_UnitQ.
    apply (C01_slerp_closed (qone Rops) q1 s sh a UnitQ_one U1 NA1 E).
Qed.
Print Assumptions C01_trinterp_closed.

(* SO(3) case of trinterp / SO3.interp (repaired in /repo by ee14c5b): the result is q2r of the slerp value *)
Theorem C01_trinterp_so3_closed : forall (q0 q1 : V4 R) (s : R) (sh : bool) (q : V4 R),
  UnitQ q0 -> UnitQ q1 -> not_antipodal sh q0 q1 -> slerp Rops K01 q0 q1 s sh = Ok q -> SO3 (q2r_m Rops q).
Proof.
  intros q0 q1 s sh q U0 U1 NA E. unfold q2r_m. apply SO3_of_UnitQ. apply (C01_slerp_closed q0 q1 s sh q U0 U1 NA E).
Qed.
Print Assumptions C01_trinterp_so3_closed.

(* non-vacuity: unit operands that are not antipodal, interior s: the model returns a value (some branch) *)
Example C01_slerp_nonvacuous :
  UnitQ (1,0,0,0) /\ UnitQ (0,1,0,0) /\ not_antipodal false (1,0,0,0) (0,1,0,0) /\
  exists q, slerp Rops K01 (1,0,0,0) (0,1,0,0) (1/2) false = Ok q.
Proof.
  assert (H : in01 Rops (1/2) = true) by (apply in01_true; lra).
  repeat split; try (unfold UnitQ; lra).
  - right. lin_simpl. lra.
  - unfold slerp. rewrite H. simpl negb. cbv iota.
    destruct (eqb Rops (1/2) (zero Rops)); [eexists; reflexivity|].
    destruct (eqb Rops (1/2) (one Rops)); [eexists; reflexivity|].
    destruct (ltb Rops _ _); eexists; reflexivity.
Qed.
