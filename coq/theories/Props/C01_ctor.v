(* C01 (1/3) -- every polynomial constructor lands in its group, for every angle, every unit and every order.
   The tr_* definitions are REGENERATED from /repo on every run (the library executed on symbols; sin/cos of the
   input angles appear as sin_/cos_ of the -- possibly degree-scaled -- angle).  Membership is proved after
   generalising (cos t, sin t) of every angle t to a pair (c,s) with c*c+s*s=1 (cs_unit), by nsatz.
   SO3/SO2/SE3/SE2 are the polynomial predicates of Base/RLin.v: rows orthonormal, det = +1, and for the
   homogeneous forms the last row equal to (0,..,0,1) -- proved by reflexivity, i.e. syntactically. *)
From Coq Require Import Reals ZArith Lra Nsatz.
From SM Require Import Base.Ops Base.Lin Base.RInst Base.RLin Model.C01_Lemmas.
From SMgen Require Import Traces_C01.
Open Scope R_scope.

Ltac open_tr := intros; destruct_tuples; autounfold with smgen in *; unfold SE3, SE2, t2r3, t2r2, lastrow4, lastrow3; sm_simpl.
Ltac so_tr := open_tr; so_poly.
Ltac se_tr := open_tr; split; [ so_poly | reflexivity ].
(* every option is proved DIRECTLY on its own trace (not through equality with another trace): a change that makes an
   option return a different but still valid member (e.g. unit='deg' ignored) is C15's business and leaves these proofs intact *)
Ltac conjs := intros; repeat match goal with |- _ /\ _ => split end.

(* The per-function results below are Lemmas; the property theorems (each followed by Print Assumptions, which
   reports everything the lemmas use) are at the end of the file. *)

(* ---------- elementary rotations, radians and degrees ---------- *)
Lemma C01_rotx_SO3 : forall a, SO3 (tr_rotx_rad Rops a) /\ SO3 (tr_rotx_deg Rops a).
Proof. conjs; so_tr. Qed.
Lemma C01_roty_SO3 : forall a, SO3 (tr_roty_rad Rops a) /\ SO3 (tr_roty_deg Rops a).
Proof. conjs; so_tr. Qed.
Lemma C01_rotz_SO3 : forall a, SO3 (tr_rotz_rad Rops a) /\ SO3 (tr_rotz_deg Rops a).
Proof. conjs; so_tr. Qed.
Lemma C01_rot2_SO2 : forall a, SO2 (tr_rot2_rad Rops a) /\ SO2 (tr_rot2_deg Rops a).
Proof. conjs; so_tr. Qed.

(* homogeneous forms with an arbitrary translation: rotation block in SO(n), last row syntactically (0,..,0,1) *)
Lemma C01_trotx_SE3 : forall a t, SE3 (tr_trotx_rad Rops a t) /\ SE3 (tr_trotx_deg Rops a t).
Proof. conjs; se_tr. Qed.
Lemma C01_troty_SE3 : forall a t, SE3 (tr_troty_rad Rops a t) /\ SE3 (tr_troty_deg Rops a t).
Proof. conjs; se_tr. Qed.
Lemma C01_trotz_SE3 : forall a t, SE3 (tr_trotz_rad Rops a t) /\ SE3 (tr_trotz_deg Rops a t).
Proof. conjs; se_tr. Qed.
Lemma C01_trot2_SE2 : forall a t, SE2 (tr_trot2_rad Rops a t) /\ SE2 (tr_trot2_deg Rops a t).
Proof. conjs; se_tr. Qed.
Lemma C01_xyt2tr_SE2 : forall p, SE2 (tr_xyt2tr_rad Rops p) /\ SE2 (tr_xyt2tr_deg Rops p).
Proof. conjs; se_tr. Qed.

(* pure translations *)
Lemma C01_transl_SE3 : forall t x y z, SE3 (tr_transl Rops t) /\ SE3 (tr_transl_xyz Rops x y z).
Proof. conjs; se_tr. Qed.
Lemma C01_transl2_SE2 : forall t, SE2 (tr_transl2 Rops t).
Proof. se_tr. Qed.

(* ---------- roll-pitch-yaw: three orders, their aliases, both units ---------- *)
Lemma C01_rpy2r_zyx_SO3 : forall a, SO3 (tr_rpy2r_zyx_rad Rops a) /\ SO3 (tr_rpy2r_zyx_deg Rops a).
Proof. conjs; so_tr. Qed.
Lemma C01_rpy2r_xyz_SO3 : forall a, SO3 (tr_rpy2r_xyz_rad Rops a) /\ SO3 (tr_rpy2r_xyz_deg Rops a).
Proof. conjs; so_tr. Qed.
Lemma C01_rpy2r_yxz_SO3 : forall a, SO3 (tr_rpy2r_yxz_rad Rops a) /\ SO3 (tr_rpy2r_yxz_deg Rops a).
Proof. conjs; so_tr. Qed.
Lemma C01_rpy2r_aliases_SO3 : forall a,
  SO3 (tr_rpy2r_vehicle_rad Rops a) /\ SO3 (tr_rpy2r_vehicle_deg Rops a) /\
  SO3 (tr_rpy2r_arm_rad Rops a) /\ SO3 (tr_rpy2r_arm_deg Rops a) /\
  SO3 (tr_rpy2r_camera_rad Rops a) /\ SO3 (tr_rpy2r_camera_deg Rops a).
Proof. conjs; so_tr. Qed.
Lemma C01_rpy2r_scalars_SO3 : forall r p y, SO3 (tr_rpy2r_scalars Rops r p y).
Proof. so_tr. Qed.
Lemma C01_rpy2tr_SE3 : forall a,
  SE3 (tr_rpy2tr_zyx_rad Rops a) /\ SE3 (tr_rpy2tr_zyx_deg Rops a) /\
  SE3 (tr_rpy2tr_xyz_rad Rops a) /\ SE3 (tr_rpy2tr_xyz_deg Rops a) /\
  SE3 (tr_rpy2tr_yxz_rad Rops a) /\ SE3 (tr_rpy2tr_yxz_deg Rops a).
Proof. conjs; se_tr. Qed.
Lemma C01_rpy2tr_aliases_SE3 : forall a,
  SE3 (tr_rpy2tr_vehicle_rad Rops a) /\ SE3 (tr_rpy2tr_vehicle_deg Rops a) /\
  SE3 (tr_rpy2tr_arm_rad Rops a) /\ SE3 (tr_rpy2tr_arm_deg Rops a) /\
  SE3 (tr_rpy2tr_camera_rad Rops a) /\ SE3 (tr_rpy2tr_camera_deg Rops a).
Proof. conjs; se_tr. Qed.

(* ---------- Euler ZYZ ---------- *)
Lemma C01_eul2r_SO3 : forall a, SO3 (tr_eul2r_rad Rops a) /\ SO3 (tr_eul2r_deg Rops a).
Proof. conjs; so_tr. Qed.
Lemma C01_eul2tr_SE3 : forall a, SE3 (tr_eul2tr_rad Rops a) /\ SE3 (tr_eul2tr_deg Rops a).
Proof. conjs; se_tr. Qed.

(* ---------- unit quaternion -> rotation matrix; embeddings ---------- *)
Lemma C01_q2r_SO3 : forall q, UnitQ q -> SO3 (tr_q2r Rops q).
Proof. intros q H. destruct_tuples. unfold UnitQ in H. autounfold with smgen. sm_simpl. unfold SO3. repeat split; nsatz. Qed.
Example C01_q2r_nonvacuous : UnitQ (3/5, 0, 4/5, 0) /\ SO3 (tr_q2r Rops (3/5, 0, 4/5, 0)).
Proof. split; [ unfold UnitQ; lra | apply C01_q2r_SO3; unfold UnitQ; lra ]. Qed.

Lemma C01_r2t_SE3 : forall Rm, SO3 Rm -> SE3 (tr_r2t Rops Rm).
Proof. intros Rm H. destruct_tuples. autounfold with smgen. unfold SE3, t2r3, lastrow4. sm_simpl. split; [exact H | reflexivity]. Qed.
Lemma C01_rt2tr_SE3 : forall Rm t, SO3 Rm -> SE3 (tr_rt2tr Rops Rm t).
Proof. intros Rm t H. destruct_tuples. autounfold with smgen. unfold SE3, t2r3, lastrow4. sm_simpl. split; [exact H | reflexivity]. Qed.
Lemma C01_r2t2_SE2 : forall Rm t, SO2 Rm -> SE2 (tr_r2t2 Rops Rm) /\ SE2 (tr_rt2tr2 Rops Rm t).
Proof. intros Rm t H. destruct_tuples. autounfold with smgen. unfold SE2, t2r2, lastrow3. sm_simpl. split; (split; [exact H | reflexivity]). Qed.
Example C01_embed_nonvacuous : SO3 (rotx_cs Rops (3/5) (4/5)) /\ SO2 (rot2_cs Rops (3/5) (4/5)).
Proof. split; [apply SO3_rotx | apply SO2_rot2]; lra. Qed.

(* =====================  PROPERTY THEOREMS  ===================== *)
(* every base axis-rotation / translation constructor, both units, any angle, any translation *)
Theorem C01_base_axis_constructors : forall (a : R) (t3 : V3 R) (t2 : V2 R) (p : V3 R) (x y z : R),
  (SO3 (tr_rotx_rad Rops a) /\ SO3 (tr_rotx_deg Rops a)) /\ (SO3 (tr_roty_rad Rops a) /\ SO3 (tr_roty_deg Rops a)) /\
  (SO3 (tr_rotz_rad Rops a) /\ SO3 (tr_rotz_deg Rops a)) /\ (SO2 (tr_rot2_rad Rops a) /\ SO2 (tr_rot2_deg Rops a)) /\
  (SE3 (tr_trotx_rad Rops a t3) /\ SE3 (tr_trotx_deg Rops a t3)) /\ (SE3 (tr_troty_rad Rops a t3) /\ SE3 (tr_troty_deg Rops a t3)) /\
  (SE3 (tr_trotz_rad Rops a t3) /\ SE3 (tr_trotz_deg Rops a t3)) /\ (SE2 (tr_trot2_rad Rops a t2) /\ SE2 (tr_trot2_deg Rops a t2)) /\
  (SE2 (tr_xyt2tr_rad Rops p) /\ SE2 (tr_xyt2tr_deg Rops p)) /\
  (SE3 (tr_transl Rops t3) /\ SE3 (tr_transl_xyz Rops x y z)) /\ SE2 (tr_transl2 Rops t2).
Proof.
  intros.
  pose proof (C01_rotx_SO3 a).
  pose proof (C01_roty_SO3 a).
  pose proof (C01_rotz_SO3 a).
  pose proof (C01_rot2_SO2 a).
  pose proof (C01_trotx_SE3 a t3).
  pose proof (C01_troty_SE3 a t3).
  pose proof (C01_trotz_SE3 a t3).
  pose proof (C01_trot2_SE2 a t2).
  pose proof (C01_xyt2tr_SE2 p).
  pose proof (C01_transl_SE3 t3 x y z).
  pose proof (C01_transl2_SE2 t2).
  tauto.
Qed.
Print Assumptions C01_base_axis_constructors.

(* roll-pitch-yaw (3 orders + 3 aliases, 2 units, vector and 3-scalar call forms) and Euler ZYZ, 3x3 and 4x4 *)
Theorem C01_base_rpy_eul_constructors : forall (a : V3 R) (r p y : R),
  (SO3 (tr_rpy2r_zyx_rad Rops a) /\ SO3 (tr_rpy2r_zyx_deg Rops a)) /\ (SO3 (tr_rpy2r_xyz_rad Rops a) /\ SO3 (tr_rpy2r_xyz_deg Rops a)) /\
  (SO3 (tr_rpy2r_yxz_rad Rops a) /\ SO3 (tr_rpy2r_yxz_deg Rops a)) /\
  (SO3 (tr_rpy2r_vehicle_rad Rops a) /\ SO3 (tr_rpy2r_vehicle_deg Rops a) /\ SO3 (tr_rpy2r_arm_rad Rops a) /\ SO3 (tr_rpy2r_arm_deg Rops a) /\
   SO3 (tr_rpy2r_camera_rad Rops a) /\ SO3 (tr_rpy2r_camera_deg Rops a)) /\
  SO3 (tr_rpy2r_scalars Rops r p y) /\
  (SE3 (tr_rpy2tr_zyx_rad Rops a) /\ SE3 (tr_rpy2tr_zyx_deg Rops a) /\ SE3 (tr_rpy2tr_xyz_rad Rops a) /\ SE3 (tr_rpy2tr_xyz_deg Rops a) /\
   SE3 (tr_rpy2tr_yxz_rad Rops a) /\ SE3 (tr_rpy2tr_yxz_deg Rops a)) /\
  (SE3 (tr_rpy2tr_vehicle_rad Rops a) /\ SE3 (tr_rpy2tr_vehicle_deg Rops a) /\ SE3 (tr_rpy2tr_arm_rad Rops a) /\ SE3 (tr_rpy2tr_arm_deg Rops a) /\
   SE3 (tr_rpy2tr_camera_rad Rops a) /\ SE3 (tr_rpy2tr_camera_deg Rops a)) /\
  (SO3 (tr_eul2r_rad Rops a) /\ SO3 (tr_eul2r_deg Rops a)) /\ (SE3 (tr_eul2tr_rad Rops a) /\ SE3 (tr_eul2tr_deg Rops a)).
Proof.
  intros.
  pose proof (C01_rpy2r_zyx_SO3 a).
  pose proof (C01_rpy2r_xyz_SO3 a).
  pose proof (C01_rpy2r_yxz_SO3 a).
  pose proof (C01_rpy2r_aliases_SO3 a).
  pose proof (C01_rpy2r_scalars_SO3 r p y).
  pose proof (C01_rpy2tr_SE3 a).
  pose proof (C01_rpy2tr_aliases_SE3 a).
  pose proof (C01_eul2r_SO3 a).
  pose proof (C01_eul2tr_SE3 a).
  tauto.
Qed.
Print Assumptions C01_base_rpy_eul_constructors.

(* quaternion -> matrix and the embeddings keep membership *)
Theorem C01_base_q2r_embeddings : forall (q : V4 R) (Rm : M33 R) (t : V3 R) (R2 : M22 R) (t2 : V2 R),
  (UnitQ q -> SO3 (tr_q2r Rops q)) /\ (SO3 Rm -> SE3 (tr_r2t Rops Rm) /\ SE3 (tr_rt2tr Rops Rm t)) /\
  (SO2 R2 -> SE2 (tr_r2t2 Rops R2) /\ SE2 (tr_rt2tr2 Rops R2 t2)).
Proof.
  intros.
  pose proof (C01_q2r_SO3 q).
  pose proof (C01_r2t_SE3 Rm).
  pose proof (C01_rt2tr_SE3 Rm t).
  pose proof (C01_r2t2_SE2 R2 t2).
  tauto.
Qed.
Print Assumptions C01_base_q2r_embeddings.

