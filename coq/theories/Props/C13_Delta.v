(* C13 (part 4) -- SE3.Delta.
   Since 03e6d35 in /repo, SE3.Delta(d) = SE3(trnorm(delta2tr(d))).  tr_Delta is the library's trnorm(delta2tr(d))
   executed on a symbolic d (concolic: unitvec compares three norms with its threshold -- `>= 10 eps` since 4dbd011; the comparisons are regenerated
   as pc_Delta and shown below to hold for EVERY d).  isR_model (theories/Model/C13_valid.v) is the validity test the
   constructor applies (tied numerically to SE3.isvalid); trnorm44_m is C14's hand model of trnorm, to which the
   trace is bridged for every d so that C14's projection lemma trnorm33_SO3 applies.
   History: before the repair SE3.Delta handed the raw I + [d] to the constructor, which rejected it whenever
   sqrt(2)|w|^2 >= 100 eps (C13_delta2tr_valid_iff below is the old C13_Delta_accepted_iff; the pair
   C13_Delta_refuted / C13_Delta_partial is replaced by the full statements C13_Delta_in_SE3, C13_Delta_accepted). *)
From Coq Require Import Reals ZArith Lra Psatz Bool.
From SM Require Import Base.Ops Base.Lin Base.RInst Base.RLin Model.C13_valid Model.C14_Norm Model.C14_NormProofs.
From SMgen Require Import Traces_C13.
Open Scope R_scope.

Ltac gen_unfold := intros; destruct_tuples; autounfold with smgen smlin in *; sm_simpl.
Definition tw_v (s : V6 R) : V3 R := let '(v0,v1,v2,_,_,_) := s in (v0,v1,v2).
Definition tw_w (s : V6 R) : V3 R := let '(_,_,_,w0,w1,w2) := s in (w0,w1,w2).

(* ---------- why the normalisation is needed: the raw first-order matrix is not a rotation ---------- *)
(* exact orthogonality defect and determinant of the rotation block of delta2tr(d), for every d *)
Theorem C13_delta2tr_orthogonality_defect : forall d : V6 R,
  let Rd := t2r3 (tr_delta2tr Rops d) in let n := normsq3 Rops (tw_w d) in
  frobsq33 Rops (orth_resid Rops Rd) = 2 * (n * n) /\ det33 Rops Rd = 1 + n /\
  det33 Rops (mmul33 Rops Rd (mtr33 Rd)) = (1 + n) * (1 + n).
Proof. intros d; cbv zeta. unfold frobsq33, orth_resid, tw_w. repeat split; gen_unfold; ring. Qed.
Print Assumptions C13_delta2tr_orthogonality_defect.

Lemma normsq3_nonneg (w : V3 R) : 0 <= normsq3 Rops w.
Proof. gen_unfold. nra. Qed.

(* the validity test of the constructor would accept the raw delta2tr(d) exactly when sqrt(2) |w|^2 < tol eps  (tol = 100: |w| below about 1.25e-7) *)
Theorem C13_delta2tr_valid_iff : forall (tol : R) (d : V6 R),
  isR_model Rops tol (t2r3 (tr_delta2tr Rops d)) = true <-> sqrt 2 * normsq3 Rops (tw_w d) < tol * eps Rops.
Proof.
  intros tol d. destruct (C13_delta2tr_orthogonality_defect d) as (Hf & Hd & _). cbv zeta in *.
  pose proof (normsq3_nonneg (tw_w d)) as Hn. unfold isR_model. rewrite Hf, Hd.
  rewrite sqrt_mult_alt by lra. rewrite sqrt_square by exact Hn.
  rewrite andb_true_iff. change (ltb Rops) with Rltb. rewrite !Rltb_true.
  change (zero Rops) with 0. change (mul Rops tol (eps Rops)) with (tol * eps Rops).
  split; [tauto|]. intro H; split; [exact H|nra].
Qed.
Print Assumptions C13_delta2tr_valid_iff.

(* ---------- the normalised matrix ---------- *)
Lemma one_le_sqrt x : 1 <= x -> 1 <= sqrt x.
Proof. intro H. rewrite <- sqrt_1 at 1. apply sqrt_le_1_alt. exact H. Qed.

(* the three vectors trnorm normalises, for the rotation block I + skew(w): all of length >= 1 *)
Lemma Delta_norms : forall d : V6 R,
  let Rm := t2r3 (tr_delta2tr Rops d) in
  let o := col33 Rm 1 in let a := col33 Rm 2 in let n := cross3 Rops o a in let p := cross3 Rops a n in
  1 <= norm3 Rops n /\ 1 <= norm3 Rops p /\ 1 <= norm3 Rops a.
Proof.
  intros d. destruct d as [[[[[v0 v1] v2] w0] w1] w2]. cbv zeta. unfold norm3, col33. autounfold with smgen smlin. sm_simpl.
  assert (Ha : 1 <= 1 + w0*w0 + w1*w1) by nra.
  assert (Hn : 1 <= (1 + w0*w0) * (1 + w0*w0 + w1*w1 + w2*w2)) by nra.
  repeat split; apply one_le_sqrt.
  - match goal with |- 1 <= ?x => replace x with ((1 + w0*w0) * (1 + w0*w0 + w1*w1 + w2*w2)) by ring end. exact Hn.
  - match goal with |- 1 <= ?x => replace x with ((1 + w0*w0 + w1*w1) * ((1 + w0*w0) * (1 + w0*w0 + w1*w1 + w2*w2))) by ring end. nra.
  - match goal with |- 1 <= ?x => replace x with (1 + w0*w0 + w1*w1) by ring end. exact Ha.
Qed.

(* replace every sqrt whose argument is ring-equal to that of N by N *)
Ltac fold_sqrt N :=
  repeat match goal with |- context [sqrt ?a] =>
    replace (sqrt a) with N by (unfold N; apply f_equal; ring) end.

Theorem C13_Delta_is_trnorm : forall (thr : R) (d : V6 R), 0 <= thr <= 1 ->
  trnorm44_m Rops thr (tr_delta2tr Rops d) = Some (tr_Delta Rops d).
Proof.
  intros thr d Hthr. pose proof (Delta_norms d) as H. cbv zeta in H. destruct H as (Hn & Hp & Ha).
  unfold trnorm44_m. rewrite trnorm33_defined by lra. f_equal.
  revert Hn Hp Ha. destruct d as [[[[[v0 v1] v2] w0] w1] w2].
  unfold norm3, col33, vdiv3. autounfold with smgen smlin. sm_simpl.
  match goal with |- 1 <= sqrt ?a -> 1 <= sqrt ?b -> 1 <= sqrt ?c -> _ =>
    set (Nn := sqrt a); set (Np := sqrt b); set (Na := sqrt c) end.
  intros Hn Hp Ha. fold_sqrt Nn. fold_sqrt Np. fold_sqrt Na.
  clearbody Nn Np Na. tuple_eq ltac:(try (field; lra)).
Qed.
Print Assumptions C13_Delta_is_trnorm.

Theorem C13_Delta_path_total : forall d : V6 R, pc_Delta Rops d = true.
Proof.
  intros d. pose proof (Delta_norms d) as H. cbv zeta in H. destruct H as (Hn & Hp & Ha). revert Hn Hp Ha.
  destruct d as [[[[[v0 v1] v2] w0] w1] w2]. unfold pc_Delta, norm3, col33. autounfold with smgen smlin. sm_simpl.
  match goal with |- 1 <= sqrt ?a -> 1 <= sqrt ?b -> 1 <= sqrt ?c -> _ =>
    set (Nn := sqrt a); set (Np := sqrt b); set (Na := sqrt c) end.
  intros Hn Hp Ha. fold_sqrt Nn. fold_sqrt Np. fold_sqrt Na.
  (* the comparisons are `100 eps < norm` before 4dbd011 and `10 eps <= norm` after it: both follow from 1 <= norm *)
  rewrite !andb_true_iff. repeat split; first [apply Rltb_true | apply Rleb_true]; lra.
Qed.
Print Assumptions C13_Delta_path_total.

Theorem C13_Delta_in_SE3 : forall d : V6 R,
  SE3 (tr_Delta Rops d) /\ transl3 (tr_Delta Rops d) = tw_v d.
Proof.
  intros d. assert (Hthr : 0 <= 1/2 <= 1) by lra. pose proof (C13_Delta_is_trnorm (1/2) d Hthr) as H.
  unfold trnorm44_m in H. destruct (trnorm33_m Rops (1/2) (t2r3 (tr_delta2tr Rops d))) as [R'|] eqn:E; [|discriminate].
  apply trnorm33_SO3 in E; [|lra]. injection H as H. rewrite <- H. split.
  - apply SE3_rt. exact E.
  - destruct d as [[[[[v0 v1] v2] w0] w1] w2]. destruct_tuples. reflexivity.
Qed.
Print Assumptions C13_Delta_in_SE3.

Lemma SO3_passes_isR (tol : R) (Rm : M33 R) : 0 < tol -> SO3 Rm -> isR_model Rops tol Rm = true.
Proof.
  intros Ht H. apply SO3_matrix in H. destruct H as [Ho Hd]. unfold isR_model, orth_resid. rewrite Ho, Hd.
  rewrite andb_true_iff. change (ltb Rops) with Rltb. rewrite !Rltb_true. split.
  - unfold frobsq33. lin_simpl. match goal with |- sqrt ?a < _ => replace a with 0 by ring end.
    rewrite sqrt_0. assert (0 < / 4503599627370496) by (apply Rinv_0_lt_compat; lra). nra.
  - lin_simpl. lra.
Qed.

Theorem C13_Delta_accepted : forall d : V6 R, isR_model Rops (IZR isR_tol) (t2r3 (tr_Delta Rops d)) = true.
Proof. intros d. apply SO3_passes_isR; [unfold isR_tol; lra|]. exact (proj1 (proj1 (C13_Delta_in_SE3 d))). Qed.

(* closed form of tr2delta(SE3.Delta(d)): translation exactly v; rotational part in terms of
   A = |(w1,-w0,1)| = sqrt(1 + w0^2 + w1^2) and N = sqrt((1 + w0^2)(1 + |w|^2)) *)
Theorem C13_Delta_tr2delta_closed_form : forall d : V6 R,
  let '(v0,v1,v2,w0,w1,w2) := d in
  let A := sqrt (1 + w0*w0 + w1*w1) in let N := sqrt ((1 + w0*w0) * (1 + w0*w0 + w1*w1 + w2*w2)) in
  tr_tr2delta Rops (tr_Delta Rops d) =
  (v0, v1, v2,
   (w0 * (A / N) + w1 * w2 / (A * N) + w0 / A) / 2,
   (w1 / A + (w1 - w0 * w2) / N) / 2,
   ((w2 + w0 * w1) / N + w2 * (1 + w0*w0) / (A * N)) / 2).
Proof.
  intros d. pose proof (Delta_norms d) as H. cbv zeta in H. destruct H as (Hn & Hp & Ha). revert Hn Hp Ha.
  destruct d as [[[[[v0 v1] v2] w0] w1] w2]. unfold norm3, col33. autounfold with smgen smlin. sm_simpl.
  match goal with |- 1 <= sqrt ?a -> 1 <= sqrt ?b -> 1 <= sqrt ?c -> _ =>
    set (Nn := sqrt a); set (Np := sqrt b); set (Na := sqrt c) end.
  intros Hn Hp Ha. fold_sqrt Nn. fold_sqrt Np. fold_sqrt Na.
  assert (EP : Np = Na * Nn).
  { unfold Np, Na, Nn. rewrite <- sqrt_mult_alt by nra. apply f_equal. ring. }
  assert (EA : Na * Na = 1 + w0*w0 + w1*w1) by (unfold Na; rewrite sqrt_sqrt by nra; ring).
  rewrite EP. clearbody Nn Np Na. tuple_eq ltac:(try (field; lra)).
  all: field_simplify_eq; [|lra]; try (replace (Na ^ 2) with (1 + w0*w0 + w1*w1) by (rewrite <- EA; ring)); ring.
Qed.
Print Assumptions C13_Delta_tr2delta_closed_form.

(* ---------- explicit second-order bound ---------- *)
Lemma inv_sqrt1p (x s : R) : 0 <= x -> 1 <= s -> s * s = 1 + x -> 1 - x / 2 <= / s <= 1 /\ s <= 1 + x / 2.
Proof.
  intros Hx Hs E. assert (Hs2 : s <= 1 + x / 2) by nra.
  assert (Hi : 0 < / s) by (apply Rinv_0_lt_compat; lra).
  assert (Hsi : s * / s = 1) by (apply Rinv_r; lra).
  repeat split; try assumption; nra.
Qed.

Lemma absmul (w c B : R) : Rabs w <= 1 -> Rabs c <= B -> Rabs (w * c) <= B.
Proof. intros Hw Hc. rewrite Rabs_mult. pose proof (Rabs_pos w). pose proof (Rabs_pos c). nra. Qed.


Lemma prod_le_half_sq (x y z : R) : Rabs (x * y) <= (x*x + y*y + z*z) / 2.
Proof.
  pose proof (Rle_0_sqr (x - y)) as H1. pose proof (Rle_0_sqr (x + y)) as H2. pose proof (Rle_0_sqr z) as H3. unfold Rsqr in *.
  apply Rabs_le. split; lra.
Qed.
Lemma abs_le_1_of_sq (x q : R) : x * x <= q -> q <= 1 -> Rabs x <= 1.
Proof. intros. apply Rabs_le. split; nra. Qed.

Lemma Delta_bound (w0 w1 w2 A N : R) :
  let q := w0*w0 + w1*w1 + w2*w2 in
  q <= 1 -> 1 <= A -> 1 <= N -> A * A = 1 + w0*w0 + w1*w1 -> N * N = (1 + w0*w0) * (1 + q) ->
  Rabs ((w0 * (A / N) + w1 * w2 / (A * N) + w0 / A) / 2 - w0) <= 2 * q /\
  Rabs ((w1 / A + (w1 - w0 * w2) / N) / 2 - w1) <= 2 * q /\
  Rabs (((w2 + w0 * w1) / N + w2 * (1 + w0*w0) / (A * N)) / 2 - w2) <= 2 * q.
Proof.
  intros q Hq HA HN EA EN.
  assert (Hq0 : 0 <= q) by (unfold q; nra).
  assert (H0 : w0*w0 <= q) by (unfold q; nra). assert (H1 : w1*w1 <= q) by (unfold q; nra). assert (H2 : w2*w2 <= q) by (unfold q; nra).
  destruct (inv_sqrt1p (w0*w0 + w1*w1) A) as [[Ha1 Ha2] Ha3]; [nra|lra|lra|].
  destruct (inv_sqrt1p (N*N - 1) N) as [[Hn1 Hn2] Hn3]; [nra|lra|lra|].
  remember (/ A) as a eqn:Ea. remember (/ N) as n eqn:En.
  assert (Hx : w0*w0 + w1*w1 <= q) by (unfold q; nra).
  assert (Hy : N*N - 1 <= 3*q) by (rewrite EN; nra).
  assert (Ha0 : 0 < a) by (rewrite Ea; apply Rinv_0_lt_compat; lra). assert (Hn0 : 0 < n) by (rewrite En; apply Rinv_0_lt_compat; lra).
  assert (Ba : Rabs (a - 1) <= q / 2) by (apply Rabs_le; split; nra).
  assert (Bn : Rabs (n - 1) <= 3 * q / 2) by (apply Rabs_le; split; nra).
  assert (Ban : 1 - 2*q <= a * n <= 1) by nra.
  assert (BAn : Rabs (A * n - 1) <= 3 * q / 2) by (apply Rabs_le; split; nra).
  assert (Bn1 : Rabs n <= 1) by (apply Rabs_le; split; lra).
  assert (Ban1 : Rabs (a * n) <= 1) by (apply Rabs_le; split; nra).
  assert (Bw0 : Rabs w0 <= 1) by (apply abs_le_1_of_sq with q; assumption). assert (Bw1 : Rabs w1 <= 1) by (apply abs_le_1_of_sq with q; assumption). assert (Bw2 : Rabs w2 <= 1) by (apply abs_le_1_of_sq with q; assumption).
  assert (B01 : Rabs (w0*w1) <= q / 2) by (unfold q; apply prod_le_half_sq).
  assert (B02 : Rabs (w0*w2) <= q / 2) by (unfold q; replace (w0*w0 + w1*w1 + w2*w2) with (w0*w0 + w2*w2 + w1*w1) by ring; apply prod_le_half_sq).
  assert (B12 : Rabs (w1*w2) <= q / 2) by (unfold q; replace (w0*w0 + w1*w1 + w2*w2) with (w1*w1 + w2*w2 + w0*w0) by ring; apply prod_le_half_sq).
  assert (Bz : Rabs ((1 + w0*w0) * (a * n) - 1) <= 2 * q) by (apply Rabs_le; split; nra).
  assert (NA : A <> 0) by lra. assert (NN : N <> 0) by lra.
  repeat split.
  - replace ((w0 * (A / N) + w1 * w2 / (A * N) + w0 / A) / 2 - w0)
      with (/2 * (w0 * (A * n - 1)) + /2 * ((w1*w2) * (a * n)) + /2 * (w0 * (a - 1))) by (rewrite Ea, En; field; lra).
    pose proof (absmul w0 (A*n - 1) _ Bw0 BAn). pose proof (absmul w0 (a - 1) _ Bw0 Ba).
    assert (Rabs ((w1*w2) * (a*n)) <= q / 2) by (rewrite Rabs_mult; pose proof (Rabs_pos (w1*w2)); pose proof (Rabs_pos (a*n)); nra).
    eapply Rle_trans; [apply Rabs_triang|]. eapply Rle_trans; [apply Rplus_le_compat_r; apply Rabs_triang|].
    rewrite !Rabs_mult. rewrite (Rabs_right (/2)) by lra. rewrite <- !Rabs_mult. lra.
  - replace ((w1 / A + (w1 - w0 * w2) / N) / 2 - w1)
      with (/2 * (w1 * (a - 1)) + /2 * (w1 * (n - 1)) + /2 * (- (w0*w2) * n)) by (rewrite Ea, En; field; lra).
    pose proof (absmul w1 (a - 1) _ Bw1 Ba). pose proof (absmul w1 (n - 1) _ Bw1 Bn).
    assert (Rabs (- (w0*w2) * n) <= q / 2) by (rewrite Rabs_mult, Rabs_Ropp; pose proof (Rabs_pos (w0*w2)); pose proof (Rabs_pos n); nra).
    eapply Rle_trans; [apply Rabs_triang|]. eapply Rle_trans; [apply Rplus_le_compat_r; apply Rabs_triang|].
    rewrite !Rabs_mult. rewrite (Rabs_right (/2)) by lra. rewrite <- !Rabs_mult. lra.
  - replace (((w2 + w0 * w1) / N + w2 * (1 + w0*w0) / (A * N)) / 2 - w2)
      with (/2 * (w2 * (n - 1)) + /2 * ((w0*w1) * n) + /2 * (w2 * ((1 + w0*w0) * (a * n) - 1))) by (rewrite Ea, En; field; lra).
    pose proof (absmul w2 (n - 1) _ Bw2 Bn). pose proof (absmul w2 _ _ Bw2 Bz).
    assert (Rabs ((w0*w1) * n) <= q / 2) by (rewrite Rabs_mult; pose proof (Rabs_pos (w0*w1)); pose proof (Rabs_pos n); nra).
    eapply Rle_trans; [apply Rabs_triang|]. eapply Rle_trans; [apply Rplus_le_compat_r; apply Rabs_triang|].
    rewrite !Rabs_mult. rewrite (Rabs_right (/2)) by lra. rewrite <- !Rabs_mult. lra.
Qed.

(* tr2delta(SE3.Delta(d)) - d: the translational part is exactly 0 and every rotational component is within
   2 |w|^2 of w  (for |w| <= 1; the property's domain is |d| <= 1e-2) *)
Theorem C13_Delta_second_order : forall d : V6 R, normsq3 Rops (tw_w d) <= 1 ->
  tw_v (tr_tr2delta Rops (tr_Delta Rops d)) = tw_v d /\
  (let '(e0,e1,e2) := tw_w (tr_tr2delta Rops (tr_Delta Rops d)) in let '(w0,w1,w2) := tw_w d in
   Rabs (e0 - w0) <= 2 * normsq3 Rops (tw_w d) /\ Rabs (e1 - w1) <= 2 * normsq3 Rops (tw_w d) /\
   Rabs (e2 - w2) <= 2 * normsq3 Rops (tw_w d)).
Proof.
  intros d Hq. pose proof (C13_Delta_tr2delta_closed_form d) as H.
  destruct d as [[[[[v0 v1] v2] w0] w1] w2]. cbv zeta in H. rewrite H. unfold tw_v, tw_w in *. split; [reflexivity|].
  revert Hq. lin_simpl. intro Hq.
  apply (Delta_bound w0 w1 w2); try assumption.
  - apply one_le_sqrt. nra.
  - apply one_le_sqrt. nra.
  - rewrite sqrt_sqrt by nra. ring.
  - rewrite sqrt_sqrt by nra. ring.
Qed.
Print Assumptions C13_Delta_second_order.


(* non-vacuity / the normalisation is not the identity: for d = (1,2,3, 3/4, 0, 0) the normalised rotation differs
   from I + skew(w) (entry (1,1) is 4/5, not 1) while the raw matrix fails the validity test *)
Example C13_Delta_nonvacuous :
  normsq3 Rops (tw_w (1,2,3,3/4,0,0)) <= 1 /\ tr_Delta Rops (1,2,3,3/4,0,0) <> tr_delta2tr Rops (1,2,3,3/4,0,0) /\
  isR_model Rops (IZR isR_tol) (t2r3 (tr_delta2tr Rops (1,2,3,3/4,0,0))) = false.
Proof.
  split; [unfold tw_w; lin_simpl; lra|]. split.
  - intro H. pose proof (C13_Delta_in_SE3 (1,2,3,3/4,0,0)) as [[HS _] _]. rewrite H in HS.
    revert HS. autounfold with smgen smlin. unfold SO3. sm_simpl. intros HS. decompose [and] HS. lra.
  - apply not_true_is_false. rewrite C13_delta2tr_valid_iff. unfold tw_w. lin_simpl. unfold isR_tol.
    assert (1 <= sqrt 2) by (rewrite <- sqrt_1 at 1; apply sqrt_le_1_alt; lra). nra.
Qed.
