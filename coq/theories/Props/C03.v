(* C03 -- exponential and logarithm are correct and mutually inverse (L-real).
   Statements are fixed.  [C03_thr] (the thresholds k*_eps of iszerovec / unitvec_norm / iseye / trlog ...) is
   REGENERATED from /repo's AST on every run (coq/gen/Consts_C03.v); the model functions are the hand-written
   theories/Model/C03_ExpLog.v, tied to the implementation by the numeric correspondence of props/C03.py
   (same generic text extracted to OCaml floats).  Lemma library: theories/Model/C03_Lemmas.v.

   What is NOT proved (said plainly): that [trexp] equals the power series sum S^k/k! -- the full statement
       trexp_is_expm : forall S, trexp S = Sum_k [S]^k / k!
   is replaced by [C03_trexp_is_expm_partial] (one-parameter-subgroup law Phi(a+b) = Phi(a) Phi(b), Phi(0) = I on a
   unit twist, rotation block and translation block V(theta)); uniqueness of the one-parameter subgroup with a
   given generator and the series itself are not formalised.  Floating-point conditioning is measured by the oracle. *)
From Coq Require Import Reals ZArith Lra List.
From SM Require Import Base.Ops Base.Lin Base.RInst Base.RLin Model.C03_ExpLog Model.C03_Lemmas Model.C05_Trig Model.C03_Log.
From SMgen Require Import Consts_C03 Traces_C03.
Open Scope R_scope.

(* ---- the regenerated thresholds satisfy the side conditions every theorem below needs ---- *)
Theorem C03_thr_ok : thr_ok C03_thr.
Proof. unfold thr_ok, C03_thr. cbn. repeat split; lra. Qed.
Print Assumptions C03_thr_ok.

(* ---- (1) Rodrigues with a unit axis and c^2+s^2 = 1 is a rotation matrix; trexp of so(3) lands in SO(3) ---- *)
Theorem C03_rodrigues_in_SO3 : forall (u : V3 R) (c s : R),
  normsq3 Rops u = 1 -> c*c + s*s = 1 -> SO3 (rodrigues_cs Rops u c s).
Proof. exact rodrigues_cs_SO3. Qed.
Print Assumptions C03_rodrigues_in_SO3.
Example C03_rodrigues_in_SO3_nonvacuous : normsq3 Rops (3/5, 0, 4/5) = 1 /\ (3/5)*(3/5) + (4/5)*(4/5) = 1.
Proof. autounfold with smlin; sm_simpl. split; field. Qed.

Theorem C03_trexp_so3_in_SO3 : forall (w : V3 R) (Rm : M33 R),
  trexp_so3 Rops C03_thr w = Ok Rm -> SO3 Rm.
Proof. intros w Rm. apply trexp_so3_in_SO3. exact C03_thr_ok. Qed.
Print Assumptions C03_trexp_so3_in_SO3.

(* the FULL statement (it was `_refuted` + `_partial` until fixes d900630 / 4dbd011: rodrigues tested iszerovec with
   norm < 10 eps but unitvec_norm normalised only norm > 100 eps, then > 10 eps; now unitvec_norm tests norm >= k_unit eps
   with k_unit = k_zero, the exact complement of the zero test): the exponential of EVERY so(3) vector is a rotation matrix *)
Theorem C03_trexp_so3_total : forall w : V3 R, exists Rm, trexp_so3 Rops C03_thr w = Ok Rm /\ SO3 Rm.
Proof. intros w. apply trexp_so3_total; [exact C03_thr_ok | unfold C03_thr; cbn; lra]. Qed.
Print Assumptions C03_trexp_so3_total.

(* ---- (1) one-parameter-subgroup law of trexp on a unit twist: rotation block and translation block V(theta).
        `_partial`: the full statement `trexp S = Sum_k [S]^k / k!` is NOT proved.  What is proved: this subgroup law, and (in
        Props/C03_ode.v, C03_trexp_solves_exp_ode) that Phi(theta) = trexp(S, theta) is differentiable with Phi' = [S] Phi = Phi [S],
        Phi(0) = I, i.e. Phi solves the initial value problem that defines exp(theta [S]).  Still missing: uniqueness of solutions
        of a linear ODE (not in the library), hence "= power series" remains unproved. ---- *)
Theorem C03_trexp_is_expm_partial : forall (tw : V6 R) (a b : R),
  (let '(_,_,_,w0,w1,w2) := tw in normsq3 Rops (w0,w1,w2) = 1) ->
  trexp_unit Rops C03_thr tw (a + b) = mmul44 Rops (trexp_unit Rops C03_thr tw a) (trexp_unit Rops C03_thr tw b)
  /\ trexp_unit Rops C03_thr tw 0 = I44 Rops.
Proof. intros tw a b H. split; [apply trexp_unit_add | apply trexp_unit_0]; auto using C03_thr_ok. Qed.
Print Assumptions C03_trexp_is_expm_partial.
Example C03_trexp_is_expm_partial_nonvacuous : normsq3 Rops (0, 3/5, 4/5) = 1.
Proof. autounfold with smlin; sm_simpl. field. Qed.

Theorem C03_rotation_block_subgroup : forall (u : V3 R) (a b : R), normsq3 Rops u = 1 ->
  rodrigues_th Rops u (a + b) = mmul33 Rops (rodrigues_th Rops u a) (rodrigues_th Rops u b) /\
  rodrigues_th Rops u 0 = I33 Rops.
Proof. intros. split; [apply rodrigues_th_add; assumption | apply rodrigues_th_0]. Qed.
Print Assumptions C03_rotation_block_subgroup.

Theorem C03_translation_block_V : forall (u : V3 R) (a b : R), normsq3 Rops u = 1 ->
  Vmat Rops u (a + b) = madd33 Rops (mmul33 Rops (rodrigues_th Rops u a) (Vmat Rops u b)) (Vmat Rops u a).
Proof.
  intros u a b H. unfold Vmat, rodrigues_th. cbn [cos_ sin_ add Rops]. rewrite cos_plus, sin_plus.
  exact (Vmat_cs_add u a b (cos a) (sin a) (cos b) (sin b) H).
Qed.
Print Assumptions C03_translation_block_V.

Theorem C03_prismatic_unit_twist : forall v0 v1 v2 th : R,
  trexp_unit Rops C03_thr (v0,v1,v2,0,0,0) th = rt2tr3 Rops (I33 Rops) (th*v0, th*v1, th*v2).
Proof. intros. apply trexp_unit_prismatic. exact C03_thr_ok. Qed.
Print Assumptions C03_prismatic_unit_twist.

(* ---- exp(S, theta) = exp(theta * S) for a unit rotational twist (theta at least the zero threshold) ---- *)
Theorem C03_exp_theta_form : forall v0 v1 v2 w0 w1 w2 th : R,
  normsq3 Rops (w0,w1,w2) = 1 -> thv Rops (k_zero C03_thr) <= th ->
  trexp_se3 Rops C03_thr (th*v0, th*v1, th*v2, th*w0, th*w1, th*w2) = trexp_se3_th Rops C03_thr (v0,v1,v2,w0,w1,w2) th
  /\ trexp_se3_th Rops C03_thr (v0,v1,v2,w0,w1,w2) th = Ok (trexp_unit Rops C03_thr (v0,v1,v2,w0,w1,w2) th).
Proof.
  intros. destruct (trexp_se3_scaled_unit C03_thr v0 v1 v2 w0 w1 w2 th C03_thr_ok H H0) as [E1 E2].
  rewrite E1, E2. split; reflexivity.
Qed.
Print Assumptions C03_exp_theta_form.
Example C03_exp_theta_form_nonvacuous : normsq3 Rops (1, 0, 0) = 1 /\ thv Rops (k_zero C03_thr) <= 1.
Proof. unfold thv, C03_thr. autounfold with smlin; sm_simpl. cbn. split; [ring | lra]. Qed.

(* ---- class layer: the vector-theta branch of Twist3.exp on ONE twist, `[trexp(S * t) for t in theta]` (model twist3_exp_vec,
        tied to Twist3.exp by the numeric correspondence m_twist3_exp_theta).  On a unit rotational twist every element is the
        unit-twist exponential at t = trexp(S, t); on a prismatic twist (w = 0, ANY length of v) element t is the translation by
        t v -- so it is never the identity for t |v| above the zero threshold (the twist must not be normalised through theta()). ---- *)
Theorem C03_twist_exp_vector_theta : forall (tw : V6 R) (thetas : list R),
  (let '(_,_,_,w0,w1,w2) := tw in normsq3 Rops (w0,w1,w2) = 1) ->
  Forall (fun t => thv Rops (k_zero C03_thr) <= t) thetas ->
  twist3_exp_vec Rops C03_thr tw thetas = map (fun t => Ok (trexp_unit Rops C03_thr tw t)) thetas /\
  twist3_exp_vec Rops C03_thr tw thetas = map (trexp_se3_th Rops C03_thr tw) thetas.
Proof. intros. apply twist3_exp_vec_unit; auto using C03_thr_ok. Qed.
Print Assumptions C03_twist_exp_vector_theta.

Theorem C03_twist_exp_prismatic : forall v0 v1 v2 t : R,
  0 < t -> thv Rops (k_zero C03_thr) <= t * norm3 Rops (v0,v1,v2) ->
  twist3_exp_elem Rops C03_thr (v0,v1,v2,0,0,0) t = Ok (rt2tr3 Rops (I33 Rops) (v0*t, v1*t, v2*t)).
Proof. intros. apply twist3_exp_elem_prismatic; auto using C03_thr_ok. Qed.
Print Assumptions C03_twist_exp_prismatic.
Example C03_twist_exp_prismatic_nonvacuous : 0 < 2 /\ thv Rops (k_zero C03_thr) <= 2 * norm3 Rops (3,0,4).
Proof.
  split; [lra|]. replace (norm3 Rops (3,0,4)) with 5.
  - unfold thv, C03_thr. cbn. lra.
  - symmetry. autounfold with smlin. sm_simpl. replace (3*3 + 0*0 + 4*4) with (5*5) by ring. apply sqrt_square. lra.
Qed.

(* ---- (2) exp(log R) = R on BOTH non-identity branches of the logarithm of fix 84bd1d7 (angle atan2(|vex A|, c),
        half-turn axis from the symmetric part), and the rotation magnitude of the log is in (0, pi].
        The only guard left is the exponential's own domain |w| > k_unit eps (finding 7, not fixed). ---- *)
Theorem C03_thr_ok2 : thr_ok2 C03_thr /\ thr_ok_2d C03_thr.
Proof.
  unfold thr_ok2, thr_ok_2d. split; [split; [exact C03_thr_ok|] | split; [exact C03_thr_ok|]]; unfold C03_thr; cbn; try split; lra.
Qed.
Print Assumptions C03_thr_ok2.

Theorem C03_exp_log_general : forall Rm : M33 R,
  SO3 Rm -> trlog_so3_branch Rops C03_thr Rm = BrGen -> thv Rops (k_unit C03_thr) < log_theta Rops Rm ->
  trexp_so3 Rops C03_thr (trlog_so3_tw Rops C03_thr Rm) = Ok Rm /\
  norm3 Rops (trlog_so3_tw Rops C03_thr Rm) = log_theta Rops Rm /\ 0 < log_theta Rops Rm <= PI.
Proof. intros. apply explog_so3_general; auto using C03_thr_ok. Qed.
Print Assumptions C03_exp_log_general.

(* half-turn branch: exact for EVERY rotation inside the band |tr + 1| < k_half eps (no band error any more) *)
Theorem C03_exp_log_halfturn : forall Rm : M33 R,
  SO3 Rm -> trlog_so3_branch Rops C03_thr Rm = BrHalf ->
  trexp_so3 Rops C03_thr (trlog_so3_tw Rops C03_thr Rm) = Ok Rm /\
  norm3 Rops (trlog_so3_tw Rops C03_thr Rm) = log_theta Rops Rm /\ 0 < log_theta Rops Rm <= PI.
Proof. intros. apply explog_so3_halfturn; auto. exact (proj1 C03_thr_ok2). Qed.
Print Assumptions C03_exp_log_halfturn.

(* the assembled statement over the whole group outside the identity band *)
Theorem C03_exp_log_SO3 : forall Rm : M33 R,
  SO3 Rm -> trlog_so3_branch Rops C03_thr Rm <> BrEye -> thv Rops (k_unit C03_thr) < log_theta Rops Rm ->
  trexp_so3 Rops C03_thr (trlog_so3_tw Rops C03_thr Rm) = Ok Rm /\
  norm3 Rops (trlog_so3_tw Rops C03_thr Rm) = log_theta Rops Rm /\ 0 < log_theta Rops Rm <= PI.
Proof. intros. apply explog_SO3; auto. exact (proj1 C03_thr_ok2). Qed.
Print Assumptions C03_exp_log_SO3.

Lemma sqrt_ge_1 x : 1 <= x -> 1 <= sqrt x.
Proof. intros. rewrite <- sqrt_1. apply sqrt_le_1_alt. assumption. Qed.

(* non-vacuity: the quarter turn about z takes the general branch with angle pi/2 > 100 eps;
   the half turn about z takes the half-turn branch *)
Example C03_exp_log_general_nonvacuous :
  let Rz := ((0,-1,0),(1,0,0),(0,0,1)) : M33 R in
  SO3 Rz /\ trlog_so3_branch Rops C03_thr Rz = BrGen /\ thv Rops (k_unit C03_thr) < log_theta Rops Rz.
Proof.
  cbv zeta. split; [|split].
  - unfold SO3. repeat split; ring.
  - unfold trlog_so3_branch, iseye33, fro33. unfold thv, C03_thr. autounfold with smlin. sm_simpl.
    cbn [k_eye k_half].
    replace (sqrt _) with 2.
    2:{ symmetry. replace (_ + _ + _) with (2*2) by ring. apply sqrt_square. lra. }
    replace (Rltb 2 _) with false by (symmetry; apply Rltb_false; lra).
    replace (0 + 0 + 1 + 1) with 2 by ring. rewrite Rabs_pos_eq by lra.
    replace (Rltb 2 _) with false by (symmetry; apply Rltb_false; lra). reflexivity.
  - unfold log_theta. rewrite log_st_eq, log_c_eq. cbn [atan2_ Rops].
    replace ((0 + 0 + 1 - 1) / 2) with 0 by field.
    replace ((0 - 0) / 2 * ((0 - 0) / 2) + (0 - 0) / 2 * ((0 - 0) / 2) + (1 - -1) / 2 * ((1 - -1) / 2)) with 1 by field.
    rewrite sqrt_1. unfold atan2. destruct (Rlt_dec 0 0); [lra|]. destruct (Rlt_dec 0 1); [|lra].
    unfold thv, C03_thr. cbn. assert (3 < PI) by (pose proof PI_4; pose proof (PI2_3_2); unfold PI2 in *; lra). lra.
Qed.
Example C03_exp_log_halfturn_nonvacuous :
  let Rz := ((-1,0,0),(0,-1,0),(0,0,1)) : M33 R in
  SO3 Rz /\ trlog_so3_branch Rops C03_thr Rz = BrHalf.
Proof.
  cbv zeta. split.
  - unfold SO3. repeat split; ring.
  - unfold trlog_so3_branch, iseye33, fro33. unfold thv, C03_thr. autounfold with smlin. sm_simpl. cbn [k_eye k_half].
    replace (Rltb (sqrt _) _) with false.
    2:{ symmetry. apply Rltb_false. match goal with |- ~ sqrt ?x < _ => assert (1 <= sqrt x) by (apply sqrt_ge_1; lra) end. lra. }
    replace (-1 + -1 + 1 + 1) with 0 by ring. rewrite Rabs_R0.
    replace (Rltb 0 _) with true by (symmetry; apply Rltb_true; lra). reflexivity.
Qed.

(* ---- (3) log(exp S) = S for S = theta u, u unit, 0 < theta < pi, on the general branch (atan2 (sin) (cos) = theta) ---- *)
Theorem C03_log_exp_general : forall (u : V3 R) (th : R),
  normsq3 Rops u = 1 -> 0 < th < PI ->
  trlog_so3_branch Rops C03_thr (rodrigues_th Rops u th) = BrGen ->
  trlog_so3_tw Rops C03_thr (rodrigues_th Rops u th) = vscale3 Rops th u.
Proof. intros. apply logexp_so3_general; assumption. Qed.
Print Assumptions C03_log_exp_general.

(* ... and on EVERY non-identity branch (so also inside the half-turn band) *)
Theorem C03_log_exp_SO3 : forall (u : V3 R) (th : R),
  normsq3 Rops u = 1 -> 0 < th < PI -> thv Rops (k_unit C03_thr) < th ->
  trlog_so3_branch Rops C03_thr (rodrigues_th Rops u th) <> BrEye ->
  trlog_so3_tw Rops C03_thr (rodrigues_th Rops u th) = vscale3 Rops th u.
Proof. intros. apply logexp_SO3; auto. exact (proj1 C03_thr_ok2). Qed.
Print Assumptions C03_log_exp_SO3.

(* ---- (2) SE(3): exp(log T) = T for every T in SE(3) whose rotation is outside the identity band, with rotation angle
        above the exponential's unit threshold and below pi (at theta = pi exactly, 1/tan(pi/2) is 1/0 over R) ---- *)
Theorem C03_exp_log_SE3 : forall Tm : M44 R,
  SE3 Tm -> trlog_se3_branch Rops C03_thr Tm = BrRot ->
  thv Rops (k_unit C03_thr) < log_theta Rops (t2r3 Tm) -> log_theta Rops (t2r3 Tm) < PI ->
  trexp_se3 Rops C03_thr (trlog_se3_tw Rops C03_thr Tm) = Ok Tm.
Proof. intros. apply explog_SE3; auto. exact (proj1 C03_thr_ok2). Qed.
Print Assumptions C03_exp_log_SE3.

(* ---- (2) translation part: V(theta)/theta . Ginv(theta) = I for a unit axis and 0 < theta < pi
        (V/theta is what trexp applies to v = Ginv t after unittwist_norm divides the twist by theta) ---- *)
Theorem C03_V_Ginv_inverse : forall (u : V3 R) (th : R), normsq3 Rops u = 1 -> 0 < th < PI ->
  mmul33 Rops (mscale33 Rops (1/th) (Vmat Rops u th)) (Ginv Rops (mscale33 Rops th (skew3 Rops u)) th) = I33 Rops.
Proof. exact V_Ginv_inverse. Qed.
Print Assumptions C03_V_Ginv_inverse.
Example C03_V_Ginv_inverse_nonvacuous : normsq3 Rops (0, 0, 1) = 1 /\ 0 < 1 < PI.
Proof. split; [autounfold with smlin; sm_simpl; ring|]. pose proof PI_4. pose proof PI2_3_2. unfold PI2 in *. lra. Qed.

(* ---- 2D: the so(2)/se(2) closed forms ---- *)
Theorem C03_trexp2_so2_subgroup : forall u a b c s : R, u*u = 1 -> c*c + s*s = 1 ->
  SO2 (rodrigues1_cs Rops u c s) /\
  rodrigues1_th Rops u (a + b) = mmul22 Rops (rodrigues1_th Rops u a) (rodrigues1_th Rops u b) /\
  rodrigues1_th Rops 1 a = rot2_cs Rops (cos a) (sin a) /\
  Vmat2 Rops u (a + b) = madd22 Rops (mmul22 Rops (rodrigues1_th Rops u a) (Vmat2 Rops u b)) (Vmat2 Rops u a).
Proof.
  intros. split; [apply rodrigues1_cs_SO2; assumption|].
  split; [apply rodrigues1_th_add; assumption|]. split; [apply rodrigues1_th_rot2 | apply Vmat2_add; assumption].
Qed.
Print Assumptions C03_trexp2_so2_subgroup.

(* ---- 2D round trips with the closed-form logarithm of fix c4462a7 (theta = atan2(T10, T00), v = [[a,b],[-b,a]] t).
        Over R the model's a = b / tan b is unspecified exactly at theta = +-PI (tan(PI/2) = 1/0), hence |theta| < PI. ---- *)
Theorem C03_exp2_log2_SE2 : forall Tm : M33 R,
  SE2 Tm -> iseye33 Rops C03_thr Tm = false ->
  let th := (let '((t00,_,_),(t10,_,_),_) := Tm in atan2 t10 t00) in
  thv Rops (k_unit C03_thr) < Rabs th -> Rabs th < PI ->
  trexp2_se2 Rops C03_thr (trlog2_se2_tw Rops C03_thr Tm) = Ok Tm.
Proof. intros Tm H1 H2. apply explog2_se2; auto. exact (proj2 C03_thr_ok2). Qed.
Print Assumptions C03_exp2_log2_SE2.

Theorem C03_log2_exp2_se2 : forall (v0 v1 th : R) (Tm : M33 R),
  thv Rops (k_unit C03_thr) < Rabs th -> Rabs th < PI ->
  trexp2_se2 Rops C03_thr (v0, v1, th) = Ok Tm -> iseye33 Rops C03_thr Tm = false ->
  trlog2_se2_tw Rops C03_thr Tm = (v0, v1, th).
Proof. intros. eapply logexp2_se2; eauto. exact (proj2 C03_thr_ok2). Qed.
Print Assumptions C03_log2_exp2_se2.

Theorem C03_exp2_log2_SO2 : forall Rm : M22 R,
  SO2 Rm -> thv Rops (k_unit C03_thr) < Rabs (trlog2_so2 Rops Rm) ->
  trexp2_so2 Rops C03_thr (trlog2_so2 Rops Rm) = Ok Rm.
Proof. intros. apply explog2_so2; auto using C03_thr_ok. Qed.
Print Assumptions C03_exp2_log2_SO2.
Example C03_exp2_log2_nonvacuous : SO2 (((0,-1),(1,0)) : M22 R) /\ thv Rops (k_unit C03_thr) < Rabs (trlog2_so2 Rops ((0,-1),(1,0))) /\ Rabs (trlog2_so2 Rops ((0,-1),(1,0))) < PI.
Proof.
  assert (E : trlog2_so2 Rops ((0,-1),(1,0)) = PI/2).
  { unfold trlog2_so2, trlog2_theta. cbn [atan2_ Rops]. unfold atan2. destruct (Rlt_dec 0 0); [lra|]. destruct (Rlt_dec 0 1); [reflexivity|lra]. }
  rewrite E. pose proof PI_RGT_0. assert (3 < PI) by (pose proof PI_4; pose proof (PI2_3_2); unfold PI2 in *; lra).
  rewrite Rabs_pos_eq by lra. split; [unfold SO2; repeat split; ring|]. unfold thv, C03_thr. cbn. lra.
Qed.

(* ---- bridges: concolic traces of the REAL code (regenerated each run) equal the hand model, for all inputs ---- *)
Ltac gen_simpl := autounfold with smgen c03 smlin; sm_simpl.
Theorem C03_bridge_rodrigues_th : forall (w : V3 R) (th : R),
  tr_rodrigues_th Rops w th = rodrigues_th Rops w th.
Proof. intros. destruct_tuples. gen_simpl. tuple_eq ltac:(ring). Qed.
Print Assumptions C03_bridge_rodrigues_th.

Theorem C03_bridge_trexp_se3_th : forall (tw : V6 R) (th : R),
  tr_trexp_se3_th Rops tw th =
  (let '(t0,t1,t2,w0,w1,w2) := tw in
   rt2tr3 Rops (rodrigues_th Rops (w0,w1,w2) th) (mv33 Rops (Vmat Rops (w0,w1,w2) th) (t0,t1,t2))).
Proof. intros. destruct_tuples. gen_simpl. tuple_eq ltac:(ring). Qed.
Print Assumptions C03_bridge_trexp_se3_th.

(* every band in which the code does NOT use the general formulas exactly (zero / TypeError band of rodrigues, identity
   band of trlog) lies below the magnitudes on which the property demands them: |w| >= 1e-12.  The half-turn band needs no
   such bound any more: since fix 84bd1d7 both round trips are exact on it (C03_exp_log_halfturn, C03_log_exp_SO3). *)
Theorem C03_thresholds_below_property_bands :
  thv Rops (k_unit C03_thr) < 1/1000000000000 /\ thv Rops (k_zero C03_thr) < 1/1000000000000 /\
  thv Rops (k_eye C03_thr) < 1/1000000000000.
Proof. unfold thv, C03_thr. cbn. repeat split; lra. Qed.
Print Assumptions C03_thresholds_below_property_bands.

