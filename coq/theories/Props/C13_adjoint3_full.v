(* C13 -- base.adjoint on a 3x3 rotation, FULL STATEMENT; proved when the call runs (the regenerated tr_adjoint3 is
   `PyOk trace`).  On the unchanged tree the call raises UnboundLocalError and C13_adjoint3_asis.v is proved instead. *)
From Coq Require Import Reals ZArith Lra.
From SM Require Import Base.Ops Base.Lin Base.RInst Base.RLin.
From SMgen Require Import Traces_C13.
Open Scope R_scope.

Theorem C13_adjoint3_full : forall Rm : M33 R,
  tr_adjoint3 Rops Rm = PyOk (block66 Rm (Z33 Rops) (Z33 Rops) Rm).
Proof.
  intros. unfold tr_adjoint3. f_equal. destruct_tuples. autounfold with smgen smlin. sm_simpl. tuple_eq ltac:(ring).
Qed.
Print Assumptions C13_adjoint3_full.
