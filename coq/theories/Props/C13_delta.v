(* C13 (part 3) -- differential motion: delta2tr, tr2delta (one and two arguments), SE3.delta.
   Statements are fixed; every tr_* definition is regenerated from /repo on each run. *)
From Coq Require Import Reals ZArith Lra Psatz Nsatz.
From SM Require Import Base.Ops Base.Lin Base.RInst Base.RLin.
From SMgen Require Import Traces_C13.
Open Scope R_scope.

Ltac gen_unfold := intros; destruct_tuples; autounfold with smgen smlin in *; sm_simpl.
Ltac gen_ring := gen_unfold; tuple_eq ltac:(ring).
Ltac gen_field := gen_unfold; tuple_eq ltac:(field).

Definition tw_v (s : V6 R) : V3 R := let '(v0,v1,v2,_,_,_) := s in (v0,v1,v2).
Definition tw_w (s : V6 R) : V3 R := let '(_,_,_,w0,w1,w2) := s in (w0,w1,w2).
#[local] Hint Unfold tw_v tw_w trinv_ref : smlin.

(* delta2tr(d) = I + [d] = [[I + skew w, v],[0, 1]] *)
Theorem C13_delta2tr_def : forall d : V6 R,
  tr_delta2tr Rops d = rt2tr3 Rops (madd33 Rops (I33 Rops) (skew3 Rops (tw_w d))) (tw_v d) /\
  tr_delta2tr Rops d =
    (let '(r0,r1,r2,r3) := I44 Rops in let '(s0,s1,s2,s3) := tr_skewa6 Rops d in
     (vadd4 Rops r0 s0, vadd4 Rops r1 s1, vadd4 Rops r2 s2, vadd4 Rops r3 s3)).
Proof. intros; split; gen_ring. Qed.
Print Assumptions C13_delta2tr_def.

(* tr2delta(T) = (t, vex(R - I)) *)
Theorem C13_tr2delta_def : forall X : M44 R,
  tr_tr2delta Rops X = v6 (transl3 X) (tr_vex3 Rops (msub33 Rops (t2r3 X) (I33 Rops))).
Proof. gen_field. Qed.
Print Assumptions C13_tr2delta_def.

(* round trip, for every d (no smallness hypothesis: it is exact in real arithmetic) *)
Theorem C13_tr2delta_delta2tr : forall d : V6 R, tr_tr2delta Rops (tr_delta2tr Rops d) = d.
Proof. gen_field. Qed.
Print Assumptions C13_tr2delta_delta2tr.

(* ... and the other way round on matrices of the form I + [d] *)
Theorem C13_delta2tr_tr2delta : forall d : V6 R,
  tr_delta2tr Rops (tr_tr2delta Rops (tr_delta2tr Rops d)) = tr_delta2tr Rops d.
Proof. intros. now rewrite C13_tr2delta_delta2tr. Qed.
Print Assumptions C13_delta2tr_tr2delta.

(* two-argument form: tr2delta(T0, T1) = tr2delta(T0^-1 T1), for the base function and the class method,
   with the inverse / product of the base layer and of the class layer (for all 4x4 arguments) *)
Theorem C13_tr2delta_two_arg : forall X Y : M44 R,
  tr_tr2delta2 Rops X Y = tr_tr2delta Rops (mmul44 Rops (tr_trinv Rops X) Y) /\
  tr_tr2delta2 Rops X Y = tr_tr2delta Rops (tr_SE3_mul Rops (tr_SE3_inv Rops X) Y) /\
  tr_SE3_delta Rops X Y = tr_tr2delta2 Rops X Y.
Proof. intros; repeat split; gen_field. Qed.
Print Assumptions C13_tr2delta_two_arg.

(* the structured inverse used there is the group inverse on SE(3) *)
Theorem C13_trinv_is_inverse : forall X : M44 R, SE3 X ->
  mmul44 Rops (tr_trinv Rops X) X = I44 Rops /\ mmul44 Rops X (tr_trinv Rops X) = I44 Rops.
Proof.
  intros X HX. assert (E : tr_trinv Rops X = trinv_ref X).
  { destruct HX as [_ H]. destruct_tuples. unfold lastrow4 in H. injection H; intros; subst.
    autounfold with smgen smlin; sm_simpl; tuple_eq ltac:(ring). }
  rewrite E. split; [apply SE3_inv_l|apply SE3_inv_r]; exact HX.
Qed.
Print Assumptions C13_trinv_is_inverse.

(* delta recovers the differential motion that was applied: delta(T, T * Delta(d)) = d, and delta(T, T) = 0 *)
Theorem C13_delta_recovers_increment : forall (X : M44 R) (d : V6 R), SE3 X ->
  tr_SE3_delta Rops X (mmul44 Rops X (tr_delta2tr Rops d)) = d /\ tr_SE3_delta Rops X X = (0,0,0,0,0,0).
Proof.
  intros X d HX. destruct (C13_trinv_is_inverse X HX) as [Hl _].
  destruct (C13_tr2delta_two_arg X (mmul44 Rops X (tr_delta2tr Rops d))) as (E1 & _ & ->). rewrite E1.
  destruct (C13_tr2delta_two_arg X X) as (E2 & _ & ->). rewrite E2.
  rewrite <- mmul44_assoc, Hl, mmul44_I_l. split; [apply C13_tr2delta_delta2tr|]. gen_field.
Qed.
Print Assumptions C13_delta_recovers_increment.

Example C13_delta_nonvacuous :
  SE3 ((0,-1,0,1),(1,0,0,2),(0,0,1,3),(0,0,0,1)) /\
  tr_tr2delta Rops (tr_delta2tr Rops (1,2,3,4,5,6)) = (1,2,3,4,5,6) /\ tr_delta2tr Rops (1,2,3,4,5,6) <> I44 Rops.
Proof.
  split; [unfold SE3, SO3; lin_simpl; repeat split; ring|]. split; [apply C13_tr2delta_delta2tr|].
  autounfold with smgen smlin; sm_simpl. intro H; injection H; intros; lra.
Qed.
