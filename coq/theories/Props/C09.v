(* C09 -- Sequence broadcasting: element-wise results and strict length rules.

   Theorems about the hand-written model SM.Model.C09_Broadcast (binop, op2, unop, the accessor shapes,
   pose_interp), for ANY lengths (0 included), ANY element types and ANY element operation.  The model is tied to
   /repo on every run by props/C09.py (exhaustive correspondence of the real helpers for all lengths 0..6, and the
   exhaustive class x operator x (m, n) grid on the real operators).
   No Reals; every theorem is closed under the global context (Print Assumptions). *)
From Coq Require Import List Arith Bool Lia PeanoNat.
From SM Require Import Model.C09_Broadcast.
Import ListNotations.

Ltac split_list l := let a := fresh "a" in let a' := fresh "a" in destruct l as [|a [|a' l]].

(* ================================================================= binop: the four length cases *)
Theorem C09_binop_1x1 : forall A B C (op : A -> B -> C) list1 a b,
  binop op list1 [a] (Seq [b]) = Ok (if list1 then PList [op a b] else Bare (op a b)).
Proof. reflexivity. Qed.
Print Assumptions C09_binop_1x1.

Theorem C09_binop_1xM : forall A B C (op : A -> B -> C) list1 a r, length r <> 1 ->
  binop op list1 [a] (Seq r) = Ok (PList (map (fun x => op a x) r)).
Proof. intros. split_list r; simpl in *; try reflexivity. lia. Qed.
Print Assumptions C09_binop_1xM.
Example C09_binop_1xM_ex : binop (@pair nat nat) true [7] (Seq [10; 11; 12]) = Ok (PList [(7, 10); (7, 11); (7, 12)]).
Proof. reflexivity. Qed.

Theorem C09_binop_Mx1 : forall A B C (op : A -> B -> C) list1 l b, length l <> 1 ->
  binop op list1 l (Seq [b]) = Ok (PList (map (fun x => op x b) l)).
Proof. intros. split_list l; simpl in *; try reflexivity. lia. Qed.
Print Assumptions C09_binop_Mx1.
Example C09_binop_Mx1_ex : binop (@pair nat nat) false [1; 2; 3] (Seq [10]) = Ok (PList [(1, 10); (2, 10); (3, 10)]).
Proof. reflexivity. Qed.

Theorem C09_binop_MxM : forall A B C (op : A -> B -> C) list1 l r,
  length l <> 1 -> length l = length r ->
  binop op list1 l (Seq r) = Ok (PList (zip_with op l r)).
Proof.
  intros A B C op list1 l r H1 H. unfold binop.
  split_list l; split_list r; simpl in *; try lia; try reflexivity.
  assert (E : length l = length r) by lia. rewrite E, Nat.eqb_refl. reflexivity.
Qed.
Print Assumptions C09_binop_MxM.
Example C09_binop_MxM_ex : binop (@pair nat nat) true [1; 2; 3] (Seq [10; 11; 12]) = Ok (PList [(1, 10); (2, 11); (3, 12)]).
Proof. reflexivity. Qed.

Theorem C09_binop_scalar : forall A B C (op : A -> B -> C) list1 l s,
  binop op list1 l (Scalar s) =
  Ok (match l with [a] => if list1 then PList [op a s] else Bare (op a s) | _ => PList (map (fun x => op x s) l) end).
Proof. intros. split_list l; reflexivity. Qed.
Print Assumptions C09_binop_scalar.

(* ================================================================= binop: strict length rule *)
(* two different lengths, neither of them 1 (in particular both greater than 1) -> ValueError *)
Theorem C09_binop_mismatch : forall A B C (op : A -> B -> C) list1 l r,
  length l <> 1 -> length r <> 1 -> length l <> length r ->
  binop op list1 l (Seq r) = Err ValueError.
Proof.
  intros A B C op list1 l r H1 H2 H. unfold binop.
  split_list l; split_list r; simpl in *; try lia; try reflexivity.
  destruct (length l =? length r) eqn:E; [apply Nat.eqb_eq in E; lia | reflexivity].
Qed.
Print Assumptions C09_binop_mismatch.

Corollary C09_binop_mismatch_gt1 : forall A B C (op : A -> B -> C) list1 l r,
  1 < length l -> 1 < length r -> length l <> length r -> binop op list1 l (Seq r) = Err ValueError.
Proof. intros. apply C09_binop_mismatch; lia. Qed.
Print Assumptions C09_binop_mismatch_gt1.
Example C09_binop_mismatch_ex : binop (@pair nat nat) true [1; 2] (Seq [10; 11; 12]) = Err ValueError.
Proof. reflexivity. Qed.

(* ... and that is the ONLY way binop fails *)
Theorem C09_binop_error_iff : forall A B C (op : A -> B -> C) list1 l r e,
  binop op list1 l r = Err e <->
  e = ValueError /\ exists r', r = Seq r' /\ length l <> 1 /\ length r' <> 1 /\ length l <> length r'.
Proof.
  intros A B C op list1 l r e. split.
  - destruct r as [s|r].
    + rewrite C09_binop_scalar. discriminate.
    + unfold binop. split_list l; split_list r; simpl; try (destruct list1; discriminate); try discriminate.
      * intros H; injection H as <-. split; [reflexivity|]. eexists; split; [reflexivity|]. simpl; lia.
      * intros H; injection H as <-. split; [reflexivity|]. eexists; split; [reflexivity|]. simpl; lia.
      * destruct (length l =? length r) eqn:E; [discriminate|].
        apply Nat.eqb_neq in E. intros H; injection H as <-. split; [reflexivity|].
        eexists; split; [reflexivity|]. simpl; lia.
  - intros [-> [r' [-> [H1 [H2 H3]]]]]. now apply C09_binop_mismatch.
Qed.
Print Assumptions C09_binop_error_iff.

(* ================================================================= binop: length and elements of the result *)
Lemma blen_ne1 : forall m n, m <> 1 -> blen m n = m.
Proof. intros m n H. unfold blen. destruct (m =? 1) eqn:E; [apply Nat.eqb_eq in E; lia|reflexivity]. Qed.

Theorem C09_binop_length : forall A B C (op : A -> B -> C) list1 l r v,
  binop op list1 l r = Ok v ->
  exists d, to_list v = Some d /\ length d = blen (length l) (rlen r).
Proof.
  intros A B C op list1 l r v. destruct r as [s|r].
  - rewrite C09_binop_scalar. intros H; injection H as <-.
    destruct (Nat.eq_dec (length l) 1) as [L1|L1].
    + destruct l as [|a [|? ?]]; try discriminate L1. destruct list1; eexists; split; reflexivity.
    + rewrite blen_ne1 by assumption.
      exists (map (fun x => op x s) l). split; [|apply map_length].
      destruct l as [|a [|? ?]]; try reflexivity. simpl in L1; lia.
  - simpl rlen. destruct (Nat.eq_dec (length l) 1) as [L1|L1].
    + destruct l as [|a [|? ?]]; try discriminate L1. clear L1.
      destruct (Nat.eq_dec (length r) 1) as [R1|R1].
      * destruct r as [|b [|? ?]]; try discriminate R1. rewrite C09_binop_1x1. intros H; injection H as <-.
        destruct list1; eexists; split; reflexivity.
      * rewrite C09_binop_1xM by assumption. intros H; injection H as <-.
        eexists; split; [reflexivity|]. rewrite map_length. reflexivity.
    + rewrite blen_ne1 by assumption. destruct (Nat.eq_dec (length r) 1) as [R1|R1].
      * destruct r as [|b [|? ?]]; try discriminate R1. rewrite C09_binop_Mx1 by assumption.
        intros H; injection H as <-. eexists; split; [reflexivity|]. apply map_length.
      * destruct (Nat.eq_dec (length l) (length r)) as [E|E].
        -- rewrite C09_binop_MxM by assumption. intros H; injection H as <-.
           eexists; split; [reflexivity|]. rewrite length_zip_with. lia.
        -- rewrite C09_binop_mismatch by assumption. discriminate.
Qed.
Print Assumptions C09_binop_length.
Example C09_binop_length_ex : binop (@pair nat nat) true [1; 2; 3] (Seq [10]) = Ok (PList [(1, 10); (2, 10); (3, 10)])
  /\ blen 3 1 = 3 /\ binop (@pair nat nat) true [] (Seq []) = Ok (PList []) /\ blen 0 0 = 0.
Proof. repeat split. Qed.

Lemma blen_max : forall m n, 1 <= m -> 1 <= n -> (m = 1 \/ n = 1 \/ m = n) -> blen m n = Nat.max m n.
Proof. intros m n Hm Hn H. unfold blen. destruct (m =? 1) eqn:E; [apply Nat.eqb_eq in E|apply Nat.eqb_neq in E]; lia. Qed.

(* the property's form: 1 op 1 -> 1, 1 op M -> M, M op 1 -> M, M op M -> M, i.e. max, for operands holding >= 1 values.
   Full statement (any lengths):  binop l r = Ok v -> length (to_list v) = max (length l) (rlen r)
   is FALSE of the faithful model for an empty operand (1 x 0 gives an empty result): _refuted + _partial. *)
Theorem C09_binop_length_max_refuted : exists (l r : list nat) v d,
  binop (@pair nat nat) true l (Seq r) = Ok v /\ to_list v = Some d /\ length d <> Nat.max (length l) (length r).
Proof. exists [1], [], (PList []), []. repeat split; simpl; lia. Qed.
Print Assumptions C09_binop_length_max_refuted.

Theorem C09_binop_length_max_partial : forall A B C (op : A -> B -> C) list1 l r v,
  1 <= length l -> 1 <= rlen r ->
  binop op list1 l r = Ok v ->
  exists d, to_list v = Some d /\ length d = Nat.max (length l) (rlen r).
Proof.
  intros A B C op list1 l r v Hl Hr H. destruct (C09_binop_length _ _ _ _ _ _ _ _ H) as [d [Hd Hlen]].
  exists d; split; [assumption|]. rewrite Hlen. apply blen_max; try assumption.
  destruct (Nat.eq_dec (length l) 1) as [|n1]; [lia|].
  destruct (Nat.eq_dec (rlen r) 1) as [|n2]; [lia|].
  destruct (Nat.eq_dec (length l) (rlen r)) as [|n3]; [lia|]. exfalso.
  destruct r as [s|r]; simpl in *; [lia|].
  rewrite C09_binop_mismatch in H by assumption. discriminate.
Qed.
Print Assumptions C09_binop_length_max_partial.
Example C09_binop_length_max_ex :
  exists d, to_list (PList [(1, 10); (2, 10)]) = Some d /\ length d = Nat.max (length [1; 2]) (rlen (Seq [10])).
Proof. eexists; split; reflexivity. Qed.

(* result element i is the single-valued operation on the i-th elements, the lone value being reused *)
Theorem C09_binop_nth : forall A B C (op : A -> B -> C) list1 l r v d i,
  binop op list1 l r = Ok v -> to_list v = Some d -> i < blen (length l) (rlen r) ->
  nth_error d i = app2 op (pick i l) (pick_rhs i r).
Proof.
  intros A B C op list1 l r v d i H Hd Hi. destruct r as [s|r].
  - rewrite C09_binop_scalar in H. injection H as <-. simpl pick_rhs. simpl rlen in Hi.
    destruct (Nat.eq_dec (length l) 1) as [L1|L1].
    + destruct l as [|a [|? ?]]; try discriminate L1. unfold blen in Hi; simpl in Hi.
      destruct list1; injection Hd as <-; (destruct i; [reflexivity|lia]).
    + assert (Hd' : d = map (fun x => op x s) l).
      { destruct l as [|a [|? ?]]; simpl in Hd; try (injection Hd as <-; reflexivity). simpl in L1; lia. }
      subst d. rewrite (pick_multi l i L1). rewrite nth_error_map'.
      destruct (nth_error l i); reflexivity.
  - destruct (Nat.eq_dec (length l) 1) as [L1|L1].
    + destruct l as [|a [|? ?]]; try discriminate L1. clear L1.
      destruct (Nat.eq_dec (length r) 1) as [R1|R1].
      * destruct r as [|b [|? ?]]; try discriminate R1. rewrite C09_binop_1x1 in H. injection H as <-.
        simpl in Hi. destruct list1; injection Hd as <-; (destruct i; [reflexivity|unfold blen in Hi; simpl in Hi; lia]).
      * rewrite C09_binop_1xM in H by assumption. injection H as <-. injection Hd as <-.
        simpl pick_rhs. rewrite (pick_multi r i R1). rewrite nth_error_map'. simpl.
        destruct (nth_error r i); reflexivity.
    + destruct (Nat.eq_dec (length r) 1) as [R1|R1].
      * destruct r as [|b [|? ?]]; try discriminate R1. rewrite C09_binop_Mx1 in H by assumption.
        injection H as <-. injection Hd as <-. rewrite (pick_multi l i L1). rewrite nth_error_map'. simpl.
        destruct (nth_error l i); reflexivity.
      * destruct (Nat.eq_dec (length l) (length r)) as [E|E].
        -- rewrite C09_binop_MxM in H by assumption. injection H as <-. injection Hd as <-.
           simpl pick_rhs. rewrite (pick_multi l i L1), (pick_multi r i R1). apply nth_error_zip_with.
        -- rewrite C09_binop_mismatch in H by assumption. discriminate.
Qed.
Print Assumptions C09_binop_nth.

(* the same, in the form "there are i-th elements and the result is op of them" *)
Corollary C09_binop_nth_some : forall A B C (op : A -> B -> C) list1 l r v d i,
  binop op list1 l r = Ok v -> to_list v = Some d -> i < blen (length l) (rlen r) ->
  exists a b, pick i l = Some a /\ pick_rhs i r = Some b /\ nth_error d i = Some (op a b).
Proof.
  intros A B C op list1 l r v d i H Hd Hi.
  pose proof (C09_binop_nth _ _ _ _ _ _ _ _ _ _ H Hd Hi) as Hn.
  destruct (C09_binop_length _ _ _ _ _ _ _ _ H) as [d' [Hd' Hlen]]. rewrite Hd in Hd'. injection Hd' as <-.
  assert (Hs : nth_error d i <> None) by (apply nth_error_Some; lia).
  destruct (pick i l) as [a|]; destruct (pick_rhs i r) as [b|]; simpl in Hn; try congruence.
  exists a, b. auto.
Qed.
Print Assumptions C09_binop_nth_some.
Example C09_binop_nth_ex : nth_error [(7, 10); (7, 11); (7, 12)] 2 = app2 (@pair nat nat) (pick 2 [7]) (pick_rhs 2 (Seq [10; 11; 12])).
Proof. reflexivity. Qed.

(* ================================================================= _op2 (poses) *)
Theorem C09_op2_cases : forall A B C (op : A -> B -> C) a b l r,
  op2 op [a] (SameClass [b]) = Ok (Bare (op a b)) /\
  (length r <> 1 -> op2 op [a] (SameClass r) = Ok (PList (map (fun x => op a x) r))) /\
  (length l <> 1 -> op2 op l (SameClass [b]) = Ok (PList (map (fun x => op x b) l))) /\
  (length l <> 1 -> length r <> 1 -> length l = length r -> op2 op l (SameClass r) = Ok (PList (zip_with op l r))) /\
  (length l <> 1 -> length r <> 1 -> length l <> length r -> op2 op l (SameClass r) = Err ValueError).
Proof.
  intros. repeat split; intros; unfold op2.
  - split_list r; simpl in *; try reflexivity; lia.
  - split_list l; simpl in *; try reflexivity; lia.
  - split_list l; split_list r; simpl in *; try lia; try reflexivity.
    assert (E : length l = length r) by lia. rewrite E, Nat.eqb_refl. reflexivity.
  - split_list l; split_list r; simpl in *; try lia; try reflexivity.
    destruct (length l =? length r) eqn:E; [apply Nat.eqb_eq in E; lia | reflexivity].
Qed.
Print Assumptions C09_op2_cases.
Example C09_op2_cases_ex : op2 (@pair nat nat) [1; 2; 3] (SameClass [10; 11; 12]) = Ok (PList [(1, 10); (2, 11); (3, 12)])
  /\ op2 (@pair nat nat) [1; 2; 3] (SameClass [10; 11]) = Err ValueError.
Proof. split; reflexivity. Qed.

(* _op2 and binop hold the same data for every pair of same-class operands (they differ only in wrapping a 1x1
   result), so every binop theorem above transfers to _op2 *)
Theorem C09_op2_binop_agree : forall A B C (op : A -> B -> C) list1 l r,
  match op2 op l (SameClass r), binop op list1 l (Seq r) with
  | Ok v, Ok w => to_list v = to_list w /\ to_list v <> None
  | Err e, Err e' => e = e'
  | _, _ => False
  end.
Proof.
  intros. unfold op2, binop.
  split_list l; split_list r; simpl; try destruct list1; simpl; try (split; [reflexivity|discriminate]); try reflexivity;
  (destruct (length l =? length r); [split; [reflexivity|discriminate]|reflexivity]).
Qed.
Print Assumptions C09_op2_binop_agree.

Theorem C09_op2_scalar_agree : forall A B C (op : A -> B -> C) list1 l s,
  match op2 op l (ScalarLike s), binop op list1 l (Scalar s) with
  | Ok v, Ok w => to_list v = to_list w /\ to_list v <> None
  | _, _ => False
  end.
Proof. intros. unfold op2, binop. split_list l; simpl; try destruct list1; simpl; split; try reflexivity; discriminate. Qed.
Print Assumptions C09_op2_scalar_agree.

Theorem C09_op2_nth : forall A B C (op : A -> B -> C) l r v d i,
  op2 op l (SameClass r) = Ok v -> to_list v = Some d -> i < blen (length l) (length r) ->
  length d = blen (length l) (length r) /\ nth_error d i = app2 op (pick i l) (pick i r).
Proof.
  intros A B C op l r v d i H Hd Hi.
  pose proof (C09_op2_binop_agree _ _ _ op true l r) as Ag. rewrite H in Ag.
  destruct (binop op true l (Seq r)) as [w|e] eqn:Hb; [|contradiction].
  destruct Ag as [Ag _]. rewrite Hd in Ag. symmetry in Ag. split.
  - destruct (C09_binop_length _ _ _ _ _ _ _ _ Hb) as [d' [Hd' Hlen]]. rewrite Ag in Hd'. injection Hd' as <-. exact Hlen.
  - exact (C09_binop_nth _ _ _ _ _ _ _ _ _ _ Hb Ag Hi).
Qed.
Print Assumptions C09_op2_nth.
Example C09_op2_nth_ex : op2 (@pair nat nat) [7] (SameClass [10; 11; 12]) = Ok (PList [(7, 10); (7, 11); (7, 12)])
  /\ 2 < blen 1 3 /\ app2 (@pair nat nat) (pick 2 [7]) (pick 2 [10; 11; 12]) = Some (7, 12).
Proof. repeat split; unfold blen; simpl; lia. Qed.

Theorem C09_op2_mismatch_gt1 : forall A B C (op : A -> B -> C) l r,
  1 < length l -> 1 < length r -> length l <> length r -> op2 op l (SameClass r) = Err ValueError.
Proof.
  intros A B C op l r H1 H2 H3.
  destruct l as [|a l0]; [simpl in *; lia|]. destruct r as [|b r0]; [simpl in *; lia|].
  destruct (C09_op2_cases _ _ _ op a b (a :: l0) (b :: r0)) as [_ [_ [_ [_ Hm]]]]. apply Hm; lia.
Qed.
Print Assumptions C09_op2_mismatch_gt1.

(* an unsupported right operand raises (fix 5b6b922: _op2 used to fall off the end and return None); whenever _op2 returns,
   it returns data *)
Theorem C09_op2_foreign : forall A B C (op : A -> B -> C) l, op2 op l (@Foreign B) = Err ValueError.
Proof. reflexivity. Qed.
Print Assumptions C09_op2_foreign.

Theorem C09_op2_never_none : forall A B C (op : A -> B -> C) l r v, op2 op l r = Ok v -> to_list v <> None.
Proof.
  intros A B C op l r v. unfold op2. destruct r as [r|s|]; [| |discriminate].
  - pose proof (C09_op2_binop_agree A B C op true l r) as Ag. unfold op2 in Ag. intros H. rewrite H in Ag.
    destruct (binop op true l (Seq r)); [apply Ag|contradiction].
  - split_list l; simpl; intros H; injection H as <-; discriminate.
Qed.
Print Assumptions C09_op2_never_none.

(* ================================================================= unop and the accessor shapes *)
Theorem C09_unop_map : forall A C (f : A -> C) l,
  unop f l = map f l /\ length (unop f l) = length l /\ forall i, nth_error (unop f l) i = option_map f (nth_error l i).
Proof. intros. unfold unop. repeat split. apply map_length. intros; apply nth_error_map'. Qed.
Print Assumptions C09_unop_map.

(* accessors that branch on len(self) == 1, that unwrap a one-element result, or that rebuild an object: M results,
   element i is f of element i (modulo the single-value unwrapping, which to_list undoes) *)
Theorem C09_accessors_map : forall A C (f : A -> C) l,
  to_list (acc_branch1 f l) = Some (map f l) /\
  to_list (acc_map_unwrap f l) = Some (map f l) /\
  to_list (acc_map f l) = Some (map f l).
Proof. intros. unfold acc_branch1, acc_map_unwrap, acc_map. split_list l; simpl; auto. Qed.
Print Assumptions C09_accessors_map.
Example C09_accessors_map_ex : acc_branch1 S [4] = Bare 5 /\ acc_branch1 S [4; 6] = PList [5; 7] /\ acc_map_unwrap S [4] = Bare 5.
Proof. repeat split. Qed.

(* The _refuted/_partial pairs C09_acc_first_* (accessors reading self.data[0]) and C09_acc_single_* (accessors handing the whole
   object to a single-value kernel) stood here while the code had such accessors.  Fix round 6 gave every one of them a sequence
   branch (42a8032 3803e60 5d38d76 7b9d842 77cb365 a77df5a 3804c67; earlier 98c866c 4908bfb 66f9b8b), so all per-value accessors of the
   eight classes now have one of the three shapes of C09_accessors_map, which is the full-strength statement. *)

(* ================================================================= interpolation over a vector of s *)
Theorem C09_interp_vector_s : forall A S C (f : A -> S -> C) a s, s <> [] ->
  pose_interp f [a] s = Ok (map (fun x => f a x) s).
Proof. intros A S C f a s H. destruct s as [|s0 [|s1 s]]; [congruence|reflexivity|reflexivity]. Qed.
Print Assumptions C09_interp_vector_s.
Example C09_interp_vector_s_ex : pose_interp (@pair nat nat) [5] [0; 1; 2] = Ok [(5, 0); (5, 1); (5, 2)].
Proof. reflexivity. Qed.

Theorem C09_interp_scalar_s : forall A S C (f : A -> S -> C) l s0,
  pose_interp f l [s0] = Ok (map (fun x => f x s0) l).
Proof. reflexivity. Qed.
Print Assumptions C09_interp_scalar_s.

Theorem C09_interp_both_many : forall A S C (f : A -> S -> C) l s,
  length l <> 1 -> 1 < length s -> pose_interp f l s = Err AssertionError.
Proof.
  intros A S C f l s Hl Hs. destruct s as [|s0 [|s1 s]]; simpl in Hs; try lia.
  split_list l; simpl in *; try reflexivity. lia.
Qed.
Print Assumptions C09_interp_both_many.
Example C09_interp_both_many_ex : pose_interp (@pair nat nat) [1; 2] [0; 1] = Err AssertionError.
Proof. reflexivity. Qed.

(* ================================================================= histories
   Whatever sequence of list mutations an object went through, the helpers see only its current values: the broadcasting
   statements hold of the mutated operands exactly as of fresh ones. *)
Theorem C09_history_unary : forall A C (f : A -> C) (h : list (mutation A)) l,
  unop f (run_history h l) = map f (run_history h l) /\
  to_list (acc_branch1 f (run_history h l)) = Some (map f (run_history h l)) /\
  to_list (acc_map_unwrap f (run_history h l)) = Some (map f (run_history h l)).
Proof. intros. split; [reflexivity|]. destruct (C09_accessors_map A C f (run_history h l)) as [H1 [H2 _]]. auto. Qed.
Print Assumptions C09_history_unary.

Theorem C09_history_binop : forall A B C (op : A -> B -> C) list1 (hl : list (mutation A)) (hr : list (mutation B)) l r v d i,
  binop op list1 (run_history hl l) (Seq (run_history hr r)) = Ok v -> to_list v = Some d ->
  i < blen (length (run_history hl l)) (length (run_history hr r)) ->
  length d = blen (length (run_history hl l)) (length (run_history hr r)) /\
  nth_error d i = app2 op (pick i (run_history hl l)) (pick i (run_history hr r)).
Proof.
  intros A B C op list1 hl hr l r v d i H Hd Hi. split.
  - destruct (C09_binop_length _ _ _ _ _ _ _ _ H) as [d' [Hd' Hlen]]. rewrite Hd in Hd'. injection Hd' as <-. exact Hlen.
  - exact (C09_binop_nth _ _ _ _ _ _ _ _ _ _ H Hd Hi).
Qed.
Print Assumptions C09_history_binop.
Example C09_history_binop_ex :
  run_history [MAppend 3; MReverse; MPop 0; MSet 0 9; MInsert 1 5] [1; 2] = [9; 5; 1] /\
  binop (@pair nat nat) true (run_history [MAppend 3; MReverse; MPop 0; MSet 0 9; MInsert 1 5] [1; 2]) (Seq (run_history [MPopLast] [7; 8]))
    = Ok (PList [(9, 7); (5, 7); (1, 7)]).
Proof. split; reflexivity. Qed.

(* ================================================================= keyword options
   A method's keyword options (unit, order, flip, twist, shortest, dest/start, theta ...) are an extra argument o of the per-value
   function.  The sequence forms apply ONE option value to every element: the M-valued result is map (g o), and interpolation over a
   vector of s with options o is the list of the single-valued calls made with the same o.  props/C09.py sweeps the options of
   every vectorised method (read from the signatures) against these statements. *)
Theorem C09_accessors_options : forall O A C (g : O -> A -> C) (o : O) l,
  to_list (acc_branch1 (g o) l) = Some (map (g o) l) /\
  to_list (acc_map_unwrap (g o) l) = Some (map (g o) l) /\
  to_list (acc_map (g o) l) = Some (map (g o) l).
Proof. intros. apply C09_accessors_map. Qed.
Print Assumptions C09_accessors_options.

Theorem C09_interp_options : forall O A S C (f : O -> A -> S -> C) (o : O) a l s s0, s <> [] ->
  pose_interp (f o) [a] s = Ok (map (fun x => f o a x) s) /\
  pose_interp (f o) l [s0] = Ok (map (fun x => f o x s0) l).
Proof. intros. split; [now apply C09_interp_vector_s | apply C09_interp_scalar_s]. Qed.
Print Assumptions C09_interp_options.
Example C09_interp_options_ex :
  pose_interp ((fun (shortest : bool) (q : nat) (s : nat) => (shortest, q, s)) true) [5] [1; 2] = Ok [(true, 5, 1); (true, 5, 2)].
Proof. reflexivity. Qed.

(* ================================================================= the same object on both sides
   x op x (one object under two names, or an operand that shares its values with the other) is the instance left = right of the
   general theorems: the helper never fails and the result is op x x of every value.  Nothing new has to be modelled; the oracle
   has to include the aliasing case (props/C09.py: alias_grid), because an implementation may short-cut on identity. *)
Lemma zip_with_diag : forall A C (op : A -> A -> C) l, zip_with op l l = map (fun x => op x x) l.
Proof. induction l as [|a l IH]; simpl; [reflexivity|now rewrite IH]. Qed.

Theorem C09_binop_same_operand : forall A C (op : A -> A -> C) list1 l,
  exists v, binop op list1 l (Seq l) = Ok v /\ to_list v = Some (map (fun x => op x x) l).
Proof.
  intros A C op list1 l. destruct (Nat.eq_dec (length l) 1) as [L1|L1].
  - destruct l as [|a [|? ?]]; try discriminate L1. rewrite C09_binop_1x1. destruct list1; eexists; split; reflexivity.
  - rewrite C09_binop_MxM by auto. eexists; split; [reflexivity|]. simpl. now rewrite zip_with_diag.
Qed.
Print Assumptions C09_binop_same_operand.

Theorem C09_op2_same_operand : forall A C (op : A -> A -> C) l,
  exists v, op2 op l (SameClass l) = Ok v /\ to_list v = Some (map (fun x => op x x) l).
Proof.
  intros A C op l. destruct (C09_binop_same_operand A C op true l) as [w [Hw Hd]].
  pose proof (C09_op2_binop_agree A A C op true l l) as Ag. rewrite Hw in Ag.
  destruct (op2 op l (SameClass l)) as [v|e]; [|contradiction]. exists v. split; [reflexivity|]. destruct Ag as [Ag _]. now rewrite Ag.
Qed.
Print Assumptions C09_op2_same_operand.
Example C09_same_operand_ex : binop (fun x y : nat => Nat.eqb x y) false [3; 4; 5] (Seq [3; 4; 5]) = Ok (PList [true; true; true])
  /\ op2 (@pair nat nat) [3; 4] (SameClass [3; 4]) = Ok (PList [(3, 3); (4, 4)]).
Proof. split; reflexivity. Qed.
