(* C04 (a) -- quaternion <-> rotation matrix: conversions are homomorphisms, q and -q are the same rotation,
   UnitQuaternion class layer, named constructors with the angle as a symbol.
   Statements are fixed; the tr_* definitions are regenerated from /repo on every run
   (the library itself executed on symbols, see props/C04.py). *)
From Coq Require Import Reals ZArith Lra Nsatz Psatz.
From SM Require Import Base.Ops Base.Lin Base.RInst Base.RLin.
From SMgen Require Import Traces_C04.
Open Scope R_scope.

Ltac gen_unfold := intros; destruct_tuples; autounfold with smgen smlin in *; sm_simpl.
Ltac gen_ring := gen_unfold; tuple_eq ltac:(ring).
Ltac gen_field := gen_unfold; tuple_eq ltac:(field).
(* the class layer normalises (base.unit) whatever it builds: under the unit-norm hypotheses every such norm is 1 *)
Ltac nopow := repeat match goal with |- context [?x ^ 2] => replace (x ^ 2) with (x * x) by ring end.
(* nsatz gives up when order hypotheses are in the context: clear them (locally) first *)
Ltac clear_ineq := repeat match goal with H : _ < _ |- _ => clear H | H : _ <= _ |- _ => clear H | H : _ <> _ |- _ => clear H end.
Ltac unit_eq := first [ solve [clear_ineq; nsatz] | field_simplify_eq; [ solve [clear_ineq; nopow; nsatz] | (repeat split; try lra; nra) .. ] ].
Ltac sqrt_one := repeat match goal with |- context [sqrt ?x] => replace x with 1 by (symmetry; unit_eq); rewrite sqrt_1 end;
  repeat match goal with |- context [1 / ?x] => lazymatch x with 1 => fail | _ => replace x with 1 by (symmetry; unit_eq) end end;
  try replace (1 / 1) with 1 by field; rewrite ?Rmult_1_r, ?Rmult_1_l.

(* ---------------------------------------------------------------- base.q2r *)
Theorem C04_q2r_is_ref : forall q : V4 R, tr_q2r Rops q = q2r_ref Rops q.
Proof. gen_ring. Qed.
Print Assumptions C04_q2r_is_ref.

Theorem C04_q2r_SO3 : forall q : V4 R, qnormsq Rops q = 1 -> SO3 (tr_q2r Rops q).
Proof. intros q H. rewrite C04_q2r_is_ref. apply SO3_q2r. exact H. Qed.
Print Assumptions C04_q2r_SO3.

(* conversion commutes with composition: q2r(p o q) = q2r p . q2r q for unit p, q *)
Theorem C04_q2r_hom : forall p q : V4 R, qnormsq Rops p = 1 -> qnormsq Rops q = 1 ->
  tr_q2r_qqmul Rops p q = mmul33 Rops (tr_q2r Rops p) (tr_q2r Rops q).
Proof. intros p q Hp Hq. gen_unfold. tuple_eq ltac:(nsatz). Qed.
Print Assumptions C04_q2r_hom.

(* the defect form, for ALL p q: q2r(pq) - q2r(p) q2r(q) vanishes with (|p|^2 - 1), (|q|^2 - 1): here the trace entry (0,0) *)
Theorem C04_q2r_qqmul_is_composition : forall p q : V4 R, tr_q2r_qqmul Rops p q = tr_q2r Rops (qmul Rops p q).
Proof. gen_ring. Qed.
Print Assumptions C04_q2r_qqmul_is_composition.

(* ... and with inversion: q2r(conj q) = (q2r q)^T, for every q *)
Theorem C04_q2r_conj : forall q : V4 R, tr_q2r_conj Rops q = mtr33 (tr_q2r Rops q).
Proof. gen_ring. Qed.
Print Assumptions C04_q2r_conj.

(* double cover: q and -q are the same rotation *)
Theorem C04_q2r_neg : forall q : V4 R, tr_q2r_neg Rops q = tr_q2r Rops q /\ tr_q2r Rops (vneg4 Rops q) = tr_q2r Rops q.
Proof. intros; split; gen_ring. Qed.
Print Assumptions C04_q2r_neg.

(* ---------------------------------------------------------------- UnitQuaternion class layer *)
Theorem C04_UQ_conversions : forall q : V4 R,
  tr_UQ_R Rops q = tr_q2r Rops q /\ tr_UQ_SO3 Rops q = tr_q2r Rops q /\
  tr_UQ_SE3 Rops q = rt2tr3 Rops (tr_q2r Rops q) (0,0,0).
Proof. intros; repeat split; gen_ring. Qed.
Print Assumptions C04_UQ_conversions.

Theorem C04_UQ_mul : forall p q : V4 R, qnormsq Rops p = 1 -> qnormsq Rops q = 1 ->
  tr_UQ_mul Rops p q = qmul Rops p q.
Proof. intros p q Hp Hq. gen_unfold. sqrt_one. tuple_eq ltac:(field). Qed.
Print Assumptions C04_UQ_mul.

Theorem C04_UQ_inv : forall q : V4 R, qnormsq Rops q = 1 -> tr_UQ_inv Rops q = qconj Rops q.
Proof. intros q Hq. gen_unfold. sqrt_one. tuple_eq ltac:(field). Qed.
Print Assumptions C04_UQ_inv.

Theorem C04_UQ_div : forall p q : V4 R, qnormsq Rops p = 1 -> qnormsq Rops q = 1 ->
  tr_UQ_div Rops p q = qmul Rops p (qconj Rops q).
Proof. intros p q Hp Hq. gen_unfold. sqrt_one. tuple_eq ltac:(field). Qed.
Print Assumptions C04_UQ_div.

(* the quaternion acts on points exactly as its rotation matrix does *)
(* defect form, for EVERY q: the sandwich product differs from the matrix action by (|q|^2 - 1) v *)
Theorem C04_UQ_action_defect : forall (q : V4 R) (v : V3 R),
  tr_UQ_vmul Rops q v = vadd3 Rops (mv33 Rops (tr_q2r Rops q) v) (vscale3 Rops (qnormsq Rops q - 1) v).
Proof. gen_ring. Qed.
Print Assumptions C04_UQ_action_defect.

Theorem C04_UQ_action : forall (q : V4 R) (v : V3 R), qnormsq Rops q = 1 ->
  tr_UQ_vmul Rops q v = mv33 Rops (tr_q2r Rops q) v.
Proof. intros q v Hq. rewrite C04_UQ_action_defect, Hq. gen_ring. Qed.
Print Assumptions C04_UQ_action.

(* class level: UnitQuaternion -> SO3 commutes with * and with inv() *)
Theorem C04_UQ_SO3_hom : forall p q : V4 R, qnormsq Rops p = 1 -> qnormsq Rops q = 1 ->
  tr_UQ_mul_SO3 Rops p q = tr_UQ_SO3_mul Rops p q /\ tr_UQ_SO3_mul Rops p q = mmul33 Rops (tr_UQ_SO3 Rops p) (tr_UQ_SO3 Rops q).
Proof.
  intros p q Hp Hq. split.
  - gen_unfold. sqrt_one. tuple_eq ltac:(nsatz).
  - gen_ring.
Qed.
Print Assumptions C04_UQ_SO3_hom.

Theorem C04_UQ_SO3_inv : forall q : V4 R, qnormsq Rops q = 1 ->
  tr_UQ_inv_SO3 Rops q = tr_UQ_SO3_inv Rops q /\ tr_UQ_SO3_inv Rops q = mtr33 (tr_UQ_SO3 Rops q).
Proof.
  intros q Hq. split.
  - gen_unfold. sqrt_one. tuple_eq ltac:(field).
  - gen_ring.
Qed.
Print Assumptions C04_UQ_SO3_inv.

(* ---------------------------------------------------------------- named constructors, angle as a symbol *)
Lemma half_cs (t : R) : cos t = cos (1/2*t) * cos (1/2*t) - sin (1/2*t) * sin (1/2*t) /\ sin t = 2 * sin (1/2*t) * cos (1/2*t)
  /\ cos (1/2*t) * cos (1/2*t) + sin (1/2*t) * sin (1/2*t) = 1.
Proof.
  assert (E : t = 2 * (1/2*t)) by field. split; [|split].
  - rewrite E at 1. apply cos_2a.
  - rewrite E at 1. apply sin_2a.
  - apply cs_unit.
Qed.
(* replace cos t, sin t by the half-angle pair (ch, sh), ch^2 + sh^2 = 1 *)
Ltac half_angle t :=
  let Hc := fresh "Hc" in let Hs := fresh "Hs" in let Hu := fresh "Hu" in
  destruct (half_cs t) as (Hc & Hs & Hu); rewrite ?Hc, ?Hs; clear Hc Hs;
  generalize dependent (cos (1/2*t)); generalize dependent (sin (1/2*t)); intros sh ch Hu.

Theorem C04_Rx_agree : forall t : R,
  q2r_ref Rops (tr_UQ_Rx Rops t) = tr_SO3_Rx Rops t /\ tr_SO3_Rx Rops t = rotx_cs Rops (cos t) (sin t) /\
  tr_SE3_Rx Rops t = rt2tr3 Rops (tr_SO3_Rx Rops t) (0,0,0) /\ qnormsq Rops (tr_UQ_Rx Rops t) = 1.
Proof.
  intros t. repeat split; try solve [gen_ring].
  - gen_unfold. half_angle t. sqrt_one. tuple_eq ltac:(unit_eq).
  - gen_unfold. half_angle t. sqrt_one. unit_eq.
Qed.
Print Assumptions C04_Rx_agree.

Theorem C04_Ry_agree : forall t : R,
  q2r_ref Rops (tr_UQ_Ry Rops t) = tr_SO3_Ry Rops t /\ tr_SO3_Ry Rops t = roty_cs Rops (cos t) (sin t) /\
  tr_SE3_Ry Rops t = rt2tr3 Rops (tr_SO3_Ry Rops t) (0,0,0) /\ qnormsq Rops (tr_UQ_Ry Rops t) = 1.
Proof.
  intros t. repeat split; try solve [gen_ring].
  - gen_unfold. half_angle t. sqrt_one. tuple_eq ltac:(unit_eq).
  - gen_unfold. half_angle t. sqrt_one. unit_eq.
Qed.
Print Assumptions C04_Ry_agree.

Theorem C04_Rz_agree : forall t : R,
  q2r_ref Rops (tr_UQ_Rz Rops t) = tr_SO3_Rz Rops t /\ tr_SO3_Rz Rops t = rotz_cs Rops (cos t) (sin t) /\
  tr_SE3_Rz Rops t = rt2tr3 Rops (tr_SO3_Rz Rops t) (0,0,0) /\ qnormsq Rops (tr_UQ_Rz Rops t) = 1.
Proof.
  intros t. repeat split; try solve [gen_ring].
  - gen_unfold. half_angle t. sqrt_one. tuple_eq ltac:(unit_eq).
  - gen_unfold. half_angle t. sqrt_one. unit_eq.
Qed.
Print Assumptions C04_Rz_agree.

(* Twist3.Rx/Ry/Rz(t) with a scalar angle (accepted since /repo commit e531d4d): the twist is t times the unit rotational
   twist about the axis, and its exponential -- by .SE3() and by .exp() -- is the same matrix as SE3.Rx/Ry/Rz(t).
   The trace is the path |t| >= 10 eps of trexp (theta = |t|, axis w/|t|); t = 0 gives the identity (oracle). *)
Lemma abs_trig (t : R) : t <> 0 -> cos (Rabs t) = cos t /\ t * (1 / Rabs t) * sin (Rabs t) = sin t.
Proof.
  intros Ht. destruct (Rlt_dec 0 t) as [P|N].
  - rewrite Rabs_right by lra. split; [reflexivity | field; lra].
  - assert (t < 0) by lra. rewrite Rabs_left by lra. rewrite cos_neg, sin_neg. split; [reflexivity | field; lra].
Qed.

Theorem C04_Twist3_Rxyz_agree : forall t : R, t <> 0 ->
  tr_Tw3_Rx_S Rops t = (0,0,0,t,0,0) /\ tr_Tw3_Ry_S Rops t = (0,0,0,0,t,0) /\ tr_Tw3_Rz_S Rops t = (0,0,0,0,0,t) /\
  tr_Tw3_Rx_SE3 Rops t = tr_SE3_Rx Rops t /\ tr_Tw3_Rx_exp Rops t = tr_SE3_Rx Rops t /\
  tr_Tw3_Ry_SE3 Rops t = tr_SE3_Ry Rops t /\ tr_Tw3_Ry_exp Rops t = tr_SE3_Ry Rops t /\
  tr_Tw3_Rz_SE3 Rops t = tr_SE3_Rz Rops t /\ tr_Tw3_Rz_exp Rops t = tr_SE3_Rz Rops t.
Proof.
  intros t Ht. destruct (abs_trig t Ht) as [Ec Es].
  repeat split; autounfold with smgen smlin; sm_simpl; rewrite ?Ec;
  tuple_eq ltac:(first [reflexivity | ring | (rewrite <- Es; ring)]).
Qed.
Print Assumptions C04_Twist3_Rxyz_agree.

(* all options at once: SE3.Rx/Ry/Rz(a, 'deg', t=v) has the rotation block of SO3.Rx/Ry/Rz(a, 'deg') and the translation v;
   the degree constructor is the radian one at deg2rad * a, deg2rad being the double math.pi/180 the code multiplies by *)
Definition deg2rad : R := 5030569068109113 / 288230376151711744.
Theorem C04_Rxyz_deg_t : forall (a : R) (v : V3 R),
  tr_SE3_Rx_deg_t Rops a v = rt2tr3 Rops (tr_SO3_Rx_deg Rops a) v /\
  tr_SE3_Ry_deg_t Rops a v = rt2tr3 Rops (tr_SO3_Ry_deg Rops a) v /\
  tr_SE3_Rz_deg_t Rops a v = rt2tr3 Rops (tr_SO3_Rz_deg Rops a) v /\
  tr_SO3_Rx_deg Rops a = tr_SO3_Rx Rops (deg2rad * a) /\ tr_SO3_Ry_deg Rops a = tr_SO3_Ry Rops (deg2rad * a) /\
  tr_SO3_Rz_deg Rops a = tr_SO3_Rz Rops (deg2rad * a).
Proof.
  intros a v. destruct_tuples. unfold deg2rad.
  repeat split; autounfold with smgen smlin; sm_simpl; tuple_eq ltac:(ring).
Qed.
Print Assumptions C04_Rxyz_deg_t.

Theorem C04_planar_angle : forall t : R,
  tr_SO2_ang Rops t = rot2_cs Rops (cos t) (sin t) /\ tr_SE2_ang Rops t = rt2tr2 Rops (tr_SO2_ang Rops t) (0,0).
Proof. intros; split; gen_ring. Qed.
Print Assumptions C04_planar_angle.

(* ---------------------------------------------------------------- AngVec: every class normalises the axis
   (UnitQuaternion.AngVec did not before /repo commit 50fbf86; the former C04_AngVec_agree_refuted / _partial pair is
   replaced by the full statement).  The traces are the non-zero-axis path (a zero axis gives the identity in every
   class, measured by the oracle); on it the formulas agree for EVERY axis with v.v > 0. *)
Theorem C04_AngVec_agree : forall (t : R) (v : V3 R), 0 < normsq3 Rops v ->
  q2r_ref Rops (tr_UQ_AngVec Rops t v) = tr_SO3_AngVec Rops t v /\ qnormsq Rops (tr_UQ_AngVec Rops t v) = 1.
Proof.
  intros t v Hv. gen_unfold.
  match goal with |- context [sqrt ?N] =>
    assert (Hn : sqrt N * sqrt N = N) by (apply sqrt_sqrt; lra);
    assert (Hn0 : 0 < sqrt N) by (apply sqrt_lt_R0; lra);
    set (n := sqrt N) in *; rewrite <- ?Hn end.
  half_angle t. clearbody n. split.
  - sqrt_one. tuple_eq ltac:(unit_eq).
  - sqrt_one. unit_eq.
Qed.
Print Assumptions C04_AngVec_agree.

(* ---------------------------------------------------------------- EulerVec (both classes normalise; any non-zero vector) *)
Theorem C04_EulerVec_agree : forall w : V3 R, 0 < normsq3 Rops w ->
  q2r_ref Rops (tr_UQ_EulerVec Rops w) = tr_SO3_EulerVec Rops w.
Proof.
  intros w Hw. gen_unfold.
  match goal with |- context [sqrt ?N] =>
    assert (Hn : sqrt N * sqrt N = N) by (apply sqrt_sqrt; lra);
    assert (Hn0 : 0 < sqrt N) by (apply sqrt_lt_R0; lra);
    set (n := sqrt N) in *; rewrite <- Hn end.
  half_angle n. clearbody n. sqrt_one. tuple_eq ltac:(unit_eq).
Qed.
Print Assumptions C04_EulerVec_agree.

(* non-vacuity of the hypotheses used in this file *)
Example C04_a_nonvacuous : qnormsq Rops (3/5, 4/5, 0, 0) = 1 /\ 0 < normsq3 Rops (2, 0, 0) /\ 0 < normsq3 Rops (1, 2, 3).
Proof. autounfold with smlin; sm_simpl; repeat split; lra. Qed.
