(* C13 (part 7) -- exp(ad S) = Ad(exp S) per twist kind, on the library's own base.trexp.
   tr_trexp6_pris v  = base.trexp([v, 0, 0, 0]) on a symbolic v (prismatic path: rotational part literally zero),
   tr_trexp6_zero s  = base.trexp(s) along the path "norm(s) < 10 eps" (the zero twist),
   tr_trexp6         = the general path (C13_log.v); each with its regenerated path condition.
   For a PRISMATIC twist ad(S) is nilpotent (ad(S) ad(S) = 0), so the exponential series stops after two terms:
   exp(ad S) = I + ad(S), and the theorem below is the full equality exp(ad S) = Ad(exp S) for that kind, not only a
   necessary condition.  The class-level entry points (Twist3.Ad, Twist3.exp, SE3.Exp(..).Ad) are tied to these
   statements for every kind by the oracle of props/C13.py (they pass through checked constructors and are not
   traceable). *)
From Coq Require Import Reals ZArith Lra Psatz Bool.
From SM Require Import Base.Ops Base.Lin Base.RInst Base.RLin.
From SMgen Require Import Traces_C13.
Open Scope R_scope.

Ltac gen_unfold := intros; destruct_tuples; autounfold with smgen smlin in *; sm_simpl.
Ltac gen_ring := gen_unfold; tuple_eq ltac:(ring).
Definition madd66 (A B : M66 R) : M66 R :=
  let '(a0,a1,a2,a3,a4,a5) := A in let '(b0,b1,b2,b3,b4,b5) := B in
  let s (a b : V6 R) := let '(x0,x1,x2,x3,x4,x5) := a in let '(y0,y1,y2,y3,y4,y5) := b in (x0+y0,x1+y1,x2+y2,x3+y3,x4+y4,x5+y5) in
  (s a0 b0, s a1 b1, s a2 b2, s a3 b3, s a4 b4, s a5 b5).
Definition Z66 : M66 R := block66 (Z33 Rops) (Z33 Rops) (Z33 Rops) (Z33 Rops).
Definition pris (v : V3 R) : V6 R := let '(v0,v1,v2) := v in (v0,v1,v2,0,0,0).
#[local] Hint Unfold madd66 Z66 pris : smlin.

(* the exponential of a prismatic twist is the pure translation by v *)
Theorem C13_exp_prismatic : forall v : V3 R,
  tr_trexp6_pris Rops v = rt2tr3 Rops (I33 Rops) v /\ SE3 (tr_trexp6_pris Rops v).
Proof.
  intros v. assert (E : tr_trexp6_pris Rops v = rt2tr3 Rops (I33 Rops) v) by gen_ring.
  split; [exact E|]. rewrite E. apply SE3_rt. apply SO3_I.
Qed.
Print Assumptions C13_exp_prismatic.

(* ad(S) is nilpotent for a prismatic twist, and Ad(exp S) = I + ad(S) = exp(ad S): the coupling block skew(v) sits in
   the UPPER-RIGHT block (rows of the translational velocity, columns of the angular velocity) *)
Theorem C13_Ad_exp_prismatic : forall v : V3 R,
  mmul66 Rops (tr_Tw_ad Rops (pris v)) (tr_Tw_ad Rops (pris v)) = Z66 /\
  tr_adjoint Rops (tr_trexp6_pris Rops v) = madd66 (I66 Rops) (tr_Tw_ad Rops (pris v)) /\
  tr_adjoint Rops (tr_trexp6_pris Rops v) = block66 (I33 Rops) (skew3 Rops v) (Z33 Rops) (I33 Rops).
Proof. intros; repeat split; gen_ring. Qed.
Print Assumptions C13_Ad_exp_prismatic.

(* the traced prismatic path is taken exactly when v is not (numerically) zero; nothing else is decided on it *)
Example C13_prismatic_nonvacuous : pc_trexp6_pris Rops (3, 0, 4) = true /\
  tr_adjoint Rops (tr_trexp6_pris Rops (3, 0, 4)) <> I66 Rops.
Proof.
  split.
  - unfold pc_trexp6_pris. lin_simpl. rewrite negb_true_iff. apply Rltb_false.
    replace (3 * 3 + 0 * 0 + 4 * 4) with (5 * 5) by ring. rewrite sqrt_square by lra. lra.
  - autounfold with smgen smlin. sm_simpl. intro H. injection H; intros; lra.
Qed.

(* zero twist: exp = I, Ad = I = exp(ad 0) *)
Theorem C13_Ad_exp_zero : forall s : V6 R,
  tr_trexp6_zero Rops s = I44 Rops /\ tr_adjoint Rops (tr_trexp6_zero Rops s) = I66 Rops /\
  tr_Tw_ad Rops (0,0,0,0,0,0) = Z66.
Proof. intros; repeat split; gen_ring. Qed.
Print Assumptions C13_Ad_exp_zero.

Example C13_zero_nonvacuous : pc_trexp6_zero Rops (0,0,0,0,0,0) = true.
Proof.
  unfold pc_trexp6_zero. lin_simpl. apply Rltb_true.
  replace (0 * 0 + 0 * 0 + 0 * 0 + 0 * 0 + 0 * 0 + 0 * 0) with 0 by ring. rewrite sqrt_0. lra.
Qed.

(* the general path never coincides with the prismatic one: there the rotation magnitude is at least 10 eps *)
Theorem C13_general_path_is_rotational : forall s : V6 R, pc_trexp6 Rops s = true ->
  let '(_,_,_,w0,w1,w2) := s in (w0, w1, w2) <> (0, 0, 0).
Proof.
  intros s. destruct s as [[[[[v0 v1] v2] w0] w1] w2]. unfold pc_trexp6. lin_simpl.
  rewrite !andb_true_iff, !negb_true_iff. intros [[_ H] _] E. apply Rltb_false in H. injection E; intros; subst.
  apply H. match goal with |- sqrt ?a < _ => replace a with 0 by ring end. rewrite sqrt_0. lra.
Qed.
Print Assumptions C13_general_path_is_rotational.
