(* C05 (part c: axis-angle) -- tr2angvec is a right inverse of angvec2r on the general path.
   tr_angvec2r is the trace of the real angvec2r (regenerated every run); m_tr2angvec_general is the hand model
   Model/C05_Angvec.v of tr2angvec's general path (trlog general branch as repaired by /repo 84bd1d7: angle from
   atan2(|vex((R-R')/2)|, (tr R - 1)/2)), tied to the implementation by the float correspondence on rotations by
   1e-6 .. pi - 1e-6.  The identity / half-turn / tiny-angle paths are measured by the oracle only. *)
From Coq Require Import Reals ZArith Lra Lia Psatz Nsatz.
From SM Require Import Base.Ops Base.Lin Base.RInst Base.RLin Model.C05_Trig Model.C05_Angvec.
From SMgen Require Import Consts_C05 Traces_C05.
Open Scope R_scope.

Lemma C05c_angvec2r_is_rodrigues : forall (th : R) (v : V3 R), 0 < normsq3 Rops v ->
  tr_angvec2r Rops th v = rodrigues_ref th (vscale3 Rops (/ norm3 Rops v) v).
Proof.
  intros th v H. destruct v as [[v0 v1] v2]. unfold rodrigues_ref. autounfold with smgen smlin in *. sm_simpl.
  set (n2 := v0*v0 + v1*v1 + v2*v2) in *.
  assert (Hs : 0 < sqrt n2) by (apply sqrt_lt_R0; exact H).
  assert (Hss : sqrt n2 * sqrt n2 = n2) by (apply sqrt_sqrt; lra).
  set (s := sqrt n2) in *. clearbody s. clearbody n2. subst n2.
  tuple_eq ltac:(idtac).
  all: field; lra.
Qed.

(* RIGHT INVERSE, axis-angle, for every rotation with a non-zero skew part (rotation angle strictly between 0 and pi):
   the extracted angle is in (0, pi), the axis is a unit vector, and angvec2r rebuilds R exactly *)
Theorem C05_angvec_right_inverse : forall M : M33 R, SO3 M -> 0 < st2 M ->
  let '(th, a0, a1, a2) := m_tr2angvec_general Rops M in
  tr_angvec2r Rops th (a0, a1, a2) = M /\ 0 < th < PI /\ a0*a0 + a1*a1 + a2*a2 = 1.
Proof.
  intros M H Hst. pose proof (angvec_general_right_inverse M H Hst) as A. unfold m_tr2angvec_general.
  destruct (angvec_general Rops M) as [[[th a0] a1] a2]. destruct A as (A1 & A2 & A3).
  split; [|split; assumption].
  assert (N : normsq3 Rops (a0, a1, a2) = 1) by (autounfold with smlin; sm_simpl; lra).
  rewrite C05c_angvec2r_is_rodrigues by (rewrite N; lra).
  unfold norm3. rewrite N. cbn [sqrt_ Rops]. rewrite sqrt_1.
  replace (vscale3 Rops (/ 1) (a0, a1, a2)) with (a0, a1, a2) by (autounfold with smlin; sm_simpl; tuple_eq ltac:(field)).
  exact A1.
Qed.
Print Assumptions C05_angvec_right_inverse.
Example C05_angvec_nonvacuous : SO3 (rotz_cs Rops 0 1) /\ 0 < st2 (rotz_cs Rops 0 1).
Proof. split; [apply SO3_rotz; ring|]. unfold st2. lin_simpl. lra. Qed.

(* LEFT inverse too on this path: extraction recovers the angle and the axis the rotation was built from (traced angvec2r) *)
Theorem C05_angvec_recovers_angle : forall (th : R) (u : V3 R), 0 < th < PI -> normsq3 Rops u = 1 ->
  let '(u0,u1,u2) := u in
  m_tr2angvec_general Rops (tr_angvec2r Rops th u) = (th, u0, u1, u2).
Proof.
  intros th u Hth Hu. rewrite C05c_angvec2r_is_rodrigues by (rewrite Hu; lra).
  unfold norm3. rewrite Hu. cbn [sqrt_ Rops]. rewrite sqrt_1.
  pose proof (angvec_general_recovers th u Hth Hu) as A. destruct u as [[u0 u1] u2].
  replace (vscale3 Rops (/ 1) (u0, u1, u2)) with (u0, u1, u2) by (autounfold with smlin; sm_simpl; tuple_eq ltac:(field)).
  exact A.
Qed.
Print Assumptions C05_angvec_recovers_angle.

(* ============================================================ the quaternion route (UnitQuaternion.rpy / eul / angvec)
   The accessors extract from q.R.  tr_UQ_R is the trace of the real accessor UnitQuaternion.R, tr_q2r of base.q2r.
   Both double-cover representatives q and -q give the SAME matrix, a rotation for unit q: so every extraction through
   the quaternion class is independent of the sign of the scalar part, inherits the ranges proved for the matrix route
   (C05_rpy_ranges / C05_eul_ranges hold for every matrix), and for axis-angle: angle in (0, pi), unit axis, exact rebuild. *)
Definition qneg (q : V4 R) : V4 R := let '(s,x,y,z) := q in (-s, -x, -y, -z).

Theorem C05_quaternion_route_sign_independent : forall q : V4 R,
  tr_UQ_R Rops (qneg q) = tr_UQ_R Rops q /\ tr_q2r Rops (qneg q) = tr_q2r Rops q /\ tr_UQ_R Rops q = tr_q2r Rops q /\
  tr_q2r Rops q = q2r_ref Rops q.
Proof.
  intros q. destruct q as [[[s x] y] z]. unfold qneg.
  repeat split; autounfold with smgen smlin; sm_simpl; tuple_eq ltac:(ring).
Qed.
Print Assumptions C05_quaternion_route_sign_independent.

Theorem C05_quaternion_route_angvec : forall q : V4 R, qnormsq Rops q = 1 -> 0 < st2 (tr_UQ_R Rops q) ->
  let '(th, a0, a1, a2) := m_tr2angvec_general Rops (tr_UQ_R Rops q) in
  m_tr2angvec_general Rops (tr_UQ_R Rops (qneg q)) = (th, a0, a1, a2) /\
  tr_angvec2r Rops th (a0, a1, a2) = tr_UQ_R Rops q /\ 0 < th < PI /\ a0*a0 + a1*a1 + a2*a2 = 1.
Proof.
  intros q Hq Hst. destruct (C05_quaternion_route_sign_independent q) as (E1 & _ & E3 & E4).
  assert (HS : SO3 (tr_UQ_R Rops q)) by (rewrite E3, E4; apply SO3_q2r; exact Hq).
  pose proof (C05_angvec_right_inverse (tr_UQ_R Rops q) HS Hst) as A. rewrite E1.
  destruct (m_tr2angvec_general Rops (tr_UQ_R Rops q)) as [[[th a0] a1] a2]. split; [reflexivity|exact A].
Qed.
Print Assumptions C05_quaternion_route_angvec.
(* non-vacuity with a NEGATIVE scalar part: q = (-c, 0, 0, -s) is Rz by the angle with half-angle (c, s) *)
Example C05_quaternion_route_nonvacuous :
  let q := (- (3/5), 0, 0, - (4/5)) in qnormsq Rops q = 1 /\ 0 < st2 (tr_UQ_R Rops q).
Proof. cbv zeta. split; [autounfold with smlin; sm_simpl; field|]. unfold st2. autounfold with smgen. sm_simpl. lra. Qed.
