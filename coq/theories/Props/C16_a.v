(* C16 (a) -- base functions documented ':SymPy: supported', all-symbolic arguments, every call form.
   The tr_* definitions are what the library RETURNED when run on SymPy symbols (regenerated from /repo on every run).
   (i)  value:      trace = the reference semantics the numeric path implements       (ring / field, over R)
   (ii) structure:  entries that are 0/1 in the reference are SYNTACTICALLY zero/one   (conversion only, over an
                    ABSTRACT ops record: 1*x+0, cos 0, x-x ... would not be accepted)
   Statements are fixed; only the tr_* bodies change with the code. *)
From Coq Require Import Reals ZArith Lra List.
From SM Require Import Base.Ops Base.Lin Base.RInst Base.RLin Model.C16_struct Model.C16_ref.
From SMgen Require Import Traces_C16.
Import ListNotations.
Open Scope R_scope.

Ltac gen_unf := intros; destruct_tuples; unfold trinv_ref in *; autounfold with smgen smref smlin; sm_simpl.
Ltac gen_ring := gen_unf; tuple_eq ltac:(ring).
Ltac gen_field := gen_unf; tuple_eq ltac:(field).
Ltac gen_refl := intros; destruct_tuples; reflexivity.

(* ------------------------------------------------------------------ elementary rotations *)
Theorem C16_rot_value : forall t : R,
  tr_rotx Rops t = rotx_ref Rops t /\ tr_roty Rops t = roty_ref Rops t /\ tr_rotz Rops t = rotz_ref Rops t.
Proof. intros; repeat split; gen_ring. Qed.
Print Assumptions C16_rot_value.

Theorem C16_rot_structural : forall (T : Type) (O : ops T) (t : T),
  matches O pat_rotx (fl33 (tr_rotx O t)) /\ matches O pat_roty (fl33 (tr_roty O t)) /\
  matches O pat_rotz (fl33 (tr_rotz O t)).
Proof. intros; repeat split; reflexivity. Qed.
Print Assumptions C16_rot_structural.

Theorem C16_trot_value : forall (t : R) (v : V3 R),
  tr_trotx Rops t = r2t3 Rops (rotx_ref Rops t) /\ tr_troty Rops t = r2t3 Rops (roty_ref Rops t) /\
  tr_trotz Rops t = r2t3 Rops (rotz_ref Rops t) /\
  tr_trotx_t Rops t v = rt2tr3 Rops (rotx_ref Rops t) v /\ tr_troty_t Rops t v = rt2tr3 Rops (roty_ref Rops t) v /\
  tr_trotz_t Rops t v = rt2tr3 Rops (rotz_ref Rops t) v.
Proof. intros; repeat split; gen_ring. Qed.
Print Assumptions C16_trot_value.

(* the translation given with t= is stored UNCHANGED (syntactically), last row is 0 0 0 1 *)
Theorem C16_trot_structural : forall (T : Type) (O : ops T) (t : T) (v : V3 T),
  matches O (hom44 pat_rotx t000) (fl44 (tr_trotx O t)) /\ matches O (hom44 pat_roty t000) (fl44 (tr_troty O t)) /\
  matches O (hom44 pat_rotz t000) (fl44 (tr_trotz O t)) /\
  matches O (hom44 pat_rotx txxx) (fl44 (tr_trotx_t O t v)) /\ matches O (hom44 pat_roty txxx) (fl44 (tr_troty_t O t v)) /\
  matches O (hom44 pat_rotz txxx) (fl44 (tr_trotz_t O t v)) /\
  transl3 (tr_trotx_t O t v) = v /\ transl3 (tr_troty_t O t v) = v /\ transl3 (tr_trotz_t O t v) = v.
Proof. intros; destruct v as [[x y] z]; repeat split; reflexivity. Qed.
Print Assumptions C16_trot_structural.

(* unit='deg' (repaired by 61ca10f: getunit uses base.isscalar): the degree result is the radian result at k*angle.
   Stated over an abstract ops record and proved by conversion: value AND structure are those of the radian form. *)
Theorem C16_rot_deg : forall (T : Type) (O : ops T) (k t : T),
  tr_rotx_deg O k t = tr_rotx O (mul O k t) /\ tr_roty_deg O k t = tr_roty O (mul O k t) /\
  tr_rotz_deg O k t = tr_rotz O (mul O k t) /\
  tr_trotx_deg O k t = tr_trotx O (mul O k t) /\ tr_troty_deg O k t = tr_troty O (mul O k t) /\
  tr_trotz_deg O k t = tr_trotz O (mul O k t).
Proof. intros; repeat split; reflexivity. Qed.
Print Assumptions C16_rot_deg.

Theorem C16_rot_deg_value : forall k t : R,
  tr_rotx_deg Rops k t = rotx_ref Rops (k * t) /\ tr_roty_deg Rops k t = roty_ref Rops (k * t) /\
  tr_rotz_deg Rops k t = rotz_ref Rops (k * t) /\
  tr_trotx_deg Rops k t = r2t3 Rops (rotx_ref Rops (k * t)) /\ tr_troty_deg Rops k t = r2t3 Rops (roty_ref Rops (k * t)) /\
  tr_trotz_deg Rops k t = r2t3 Rops (rotz_ref Rops (k * t)).
Proof. intros; repeat split; gen_ring. Qed.
Print Assumptions C16_rot_deg_value.

(* ------------------------------------------------------------------ transl: three call forms, one meaning *)
Theorem C16_transl_value : forall (x y z : R) (X : M44 R),
  tr_transl_xyz Rops x y z = transl_ref Rops x y z /\ tr_transl_list Rops (x,y,z) = transl_ref Rops x y z /\
  tr_transl_arr Rops (x,y,z) = transl_ref Rops x y z /\ tr_transl_M Rops X = transl3 X.
Proof. intros; repeat split; gen_ring. Qed.
Print Assumptions C16_transl_value.

Theorem C16_transl_structural : forall (T : Type) (O : ops T) (x y z : T) (X : M44 T),
  tr_transl_xyz O x y z = transl_ref O x y z /\ tr_transl_list O (x,y,z) = transl_ref O x y z /\
  tr_transl_arr O (x,y,z) = transl_ref O x y z /\ tr_transl_M O X = transl3 X /\
  matches O (hom44 pat_I33 txxx) (fl44 (tr_transl_xyz O x y z)).
Proof. intros; destruct_tuples; repeat split; reflexivity. Qed.
Print Assumptions C16_transl_structural.

(* ------------------------------------------------------------------ Euler angles: Rz(phi) Ry(theta) Rz(psi) *)
Theorem C16_eul2r_value : forall v : V3 R,
  tr_eul2r_list Rops v = eul2r_ref Rops v /\ tr_eul2r_arr Rops v = eul2r_ref Rops v /\
  tr_eul2tr_list Rops v = r2t3 Rops (eul2r_ref Rops v) /\ tr_eul2tr_arr Rops v = r2t3 Rops (eul2r_ref Rops v).
Proof. intros; repeat split; gen_ring. Qed.
Print Assumptions C16_eul2r_value.

(* the three-scalar call form (repaired by eb98c88: eul2r uses base.isscalar) means the same as the vector form *)
Theorem C16_eul2r_scalars_value : forall a b c : R,
  tr_eul2r_3 Rops a b c = eul2r_ref Rops (a,b,c) /\ tr_eul2r_3 Rops a b c = tr_eul2r_list Rops (a,b,c) /\
  tr_eul2tr_3 Rops a b c = r2t3 Rops (eul2r_ref Rops (a,b,c)) /\ tr_eul2tr_3 Rops a b c = tr_eul2tr_list Rops (a,b,c).
Proof. intros; repeat split; gen_ring. Qed.
Print Assumptions C16_eul2r_scalars_value.

Theorem C16_eul2r_scalars_structural : forall (T : Type) (O : ops T) (a b c : T),
  matches O (hom44 pat_any33 t000) (fl44 (tr_eul2tr_3 O a b c)) /\ t2r3 (tr_eul2tr_3 O a b c) = tr_eul2r_3 O a b c.
Proof. intros; repeat split; reflexivity. Qed.
Print Assumptions C16_eul2r_scalars_structural.

Theorem C16_eul2tr_structural : forall (T : Type) (O : ops T) (v : V3 T),
  matches O (hom44 pat_any33 t000) (fl44 (tr_eul2tr_list O v)) /\ matches O (hom44 pat_any33 t000) (fl44 (tr_eul2tr_arr O v)) /\
  t2r3 (tr_eul2tr_list O v) = tr_eul2r_list O v.
Proof. intros; destruct v as [[a b] c]; repeat split; reflexivity. Qed.
Print Assumptions C16_eul2tr_structural.

(* unit='deg': the result is the radian result at k*angle, k the library's float factor (generalised to any k; the
   tracer only introduces k for Float factors within 4 ulp of pi/180) *)
Theorem C16_eul2r_deg : forall (k : R) (v : V3 R),
  tr_eul2r_deg Rops k v = tr_eul2r_list Rops (vscale3k Rops k v) /\
  tr_eul2tr_deg Rops k v = tr_eul2tr_list Rops (vscale3k Rops k v).
Proof. intros; repeat split; gen_ring. Qed.
Print Assumptions C16_eul2r_deg.

(* the result is a rotation matrix for every symbolic argument (so the numeric counterpart is one too) *)
Theorem C16_eul2r_in_SO3 : forall v : V3 R, SO3 (tr_eul2r_list Rops v).
Proof.
  intros v. destruct (C16_eul2r_value v) as [-> _]. destruct v as [[a b] c]. unfold eul2r_ref, rotx_ref, roty_ref, rotz_ref.
  apply SO3_mul; [apply SO3_mul|]; (apply SO3_rotz || apply SO3_roty); apply cs_unit.
Qed.
Print Assumptions C16_eul2r_in_SO3.
Example C16_eul2r_nontrivial : tr_eul2r_list Rops (0,0,0) = I33 Rops.
Proof. gen_unf. rewrite cos_0, sin_0. tuple_eq ltac:(ring). Qed.

(* ------------------------------------------------------------------ differential motion / inverse / Jacobian *)
Theorem C16_delta2tr_value : forall d : V6 R, tr_delta2tr Rops d = delta2tr_ref Rops d.
Proof. gen_ring. Qed.
Print Assumptions C16_delta2tr_value.

Theorem C16_delta2tr_structural : forall (T : Type) (O : ops T) (d : V6 T),
  matches O pat_delta2tr (fl44 (tr_delta2tr O d)) /\ transl3 (tr_delta2tr O d) = (let '(x,y,z,_,_,_) := d in (x,y,z)).
Proof. intros; destruct_tuples; repeat split; reflexivity. Qed.
Print Assumptions C16_delta2tr_structural.

Theorem C16_trinv_value : forall X : M44 R, tr_trinv Rops X = trinv_ref X /\ trinv_ref X = trinv_g Rops X.
Proof. intros; split; [gen_ring | reflexivity]. Qed.
Print Assumptions C16_trinv_value.

(* rotation block is the transpose SYNTACTICALLY, last row 0 0 0 1 *)
Theorem C16_trinv_structural : forall (T : Type) (O : ops T) (X : M44 T),
  matches O (hom44 pat_any33 txxx) (fl44 (tr_trinv O X)) /\ t2r3 (tr_trinv O X) = mtr33 (t2r3 X).
Proof. intros; destruct_tuples; repeat split; reflexivity. Qed.
Print Assumptions C16_trinv_structural.

(* ... and it IS the inverse on SE(3) *)
Theorem C16_trinv_inverse : forall X : M44 R, SE3 X ->
  mmul44 Rops X (tr_trinv Rops X) = I44 Rops /\ mmul44 Rops (tr_trinv Rops X) X = I44 Rops.
Proof. intros X H. destruct (C16_trinv_value X) as [-> _]. split; [apply SE3_inv_r | apply SE3_inv_l]; exact H. Qed.
Print Assumptions C16_trinv_inverse.
Example C16_SE3_nonvacuous : SE3 (rt2tr3 Rops (rotz_cs Rops 0 1) (1,2,3)).
Proof. apply SE3_rt. apply SO3_rotz. ring. Qed.

Theorem C16_tr2delta_value : forall X Y : M44 R,
  tr_tr2delta1 Rops X = tr2delta_ref Rops X /\
  tr_tr2delta2 Rops X Y = tr2delta_ref Rops (mmul44 Rops (trinv_ref X) (as_pose4 Rops Y)).
Proof. intros; unfold trinv_ref; split; gen_field. Qed.
Print Assumptions C16_tr2delta_value.

Theorem C16_tr2jac_value : forall X : M44 R,
  tr_tr2jac Rops X = tr2jac_ref Rops X /\ tr_tr2jac_sb Rops X = tr2jac_sb_ref Rops X.
Proof. intros; split; gen_ring. Qed.
Print Assumptions C16_tr2jac_value.

Theorem C16_tr2jac_structural : forall (T : Type) (O : ops T) (X : M44 T),
  matches O (pat_jac true) (fl66 (tr_tr2jac O X)) /\ matches O (pat_jac false) (fl66 (tr_tr2jac_sb O X)).
Proof. intros; destruct_tuples; repeat split; reflexivity. Qed.
Print Assumptions C16_tr2jac_structural.

Theorem C16_trinv2_value : forall X : M33 R, tr_trinv2 Rops X = trinv2_ref Rops X.
Proof. gen_ring. Qed.
Print Assumptions C16_trinv2_value.

Theorem C16_trinv2_structural : forall (T : Type) (O : ops T) (X : M33 T),
  matches O pat_hom33 (fl33 (tr_trinv2 O X)) /\ t2r2 (tr_trinv2 O X) = mtr22 (t2r2 X).
Proof. intros; destruct_tuples; repeat split; reflexivity. Qed.
Print Assumptions C16_trinv2_structural.

(* ------------------------------------------------------------------ skew / vex *)
Theorem C16_skew_value : forall (v : V3 R) (w : R) (u : V6 R),
  tr_skew3 Rops v = skew3 Rops v /\ tr_skew1 Rops w = skew1_ref Rops w /\
  tr_skewa6 Rops u = skewa6_ref Rops u /\ tr_skewa3 Rops v = skewa3_ref Rops v.
Proof. intros; repeat split; gen_ring. Qed.
Print Assumptions C16_skew_value.

Theorem C16_skew_structural : forall (T : Type) (O : ops T) (v : V3 T) (w : T) (u : V6 T),
  matches O pat_skew3 (fl33 (tr_skew3 O v)) /\ matches O pat_skew1 (fl22 (tr_skew1 O w)) /\
  matches O pat_skewa6 (fl44 (tr_skewa6 O u)) /\ matches O pat_skewa3 (fl33 (tr_skewa3 O v)).
Proof. intros; destruct_tuples; repeat split; reflexivity. Qed.
Print Assumptions C16_skew_structural.

Theorem C16_vex_value : forall (S : M33 R) (A : M22 R) (X : M44 R),
  tr_vex3 Rops S = vex3 Rops S /\ tr_vex2 Rops A = vex2_ref Rops A /\
  tr_vexa4 Rops X = vexa4_ref Rops X /\ tr_vexa3 Rops S = vexa3_ref Rops S.
Proof. intros; repeat split; gen_field. Qed.
Print Assumptions C16_vex_value.

(* vex after skew is the identity on the symbolic results *)
Theorem C16_vex_skew : forall (v : V3 R) (u : V6 R),
  tr_vex3 Rops (tr_skew3 Rops v) = v /\ tr_vexa4 Rops (tr_skewa6 Rops u) = u.
Proof. intros; split; gen_field. Qed.
Print Assumptions C16_vex_skew.

Theorem C16_det_value : forall (A : M22 R) (S : M33 R), tr_det2 Rops A = det22 Rops A /\ tr_det3 Rops S = det33 Rops S.
Proof. intros; split; gen_ring. Qed.
Print Assumptions C16_det_value.

(* ------------------------------------------------------------------ vectors *)
Theorem C16_vectors_value : forall u v : V3 R,
  tr_normsq3 Rops v = normsq3 Rops v /\ tr_norm3 Rops v = norm3 Rops v /\ tr_cross Rops u v = cross3 Rops u v.
Proof.
  intros; split; [|split]; [gen_ring | | gen_ring].
  gen_unf. f_equal; try ring.
Qed.
Print Assumptions C16_vectors_value.

(* ------------------------------------------------------------------ quaternions *)
Theorem C16_quat_value : forall q : V4 R,
  tr_conj Rops q = qconj Rops q /\
  tr_qpow_p0 Rops q = qone Rops /\ tr_qpow_p1 Rops q = q /\ tr_qpow_p2 Rops q = qmul Rops q q /\
  tr_qpow_p3 Rops q = qmul Rops (qmul Rops q q) q /\
  tr_qpow_m1 Rops q = qconj Rops q /\ tr_qpow_m2 Rops q = qconj Rops (qmul Rops q q).
Proof. intros; repeat split; gen_ring. Qed.
Print Assumptions C16_quat_value.

Theorem C16_qpow0_structural : forall (T : Type) (O : ops T) (q : V4 T), tr_qpow_p0 O q = qone O.
Proof. intros; destruct_tuples; reflexivity. Qed.
Print Assumptions C16_qpow0_structural.
