(* C18 (a) -- constructors of unit twists and their screw accessors (3-D and planar).
   Statements are fixed; the tr_ / pc_ / bt_ definitions are regenerated from /repo on every run (Twist3.Revolute,
   Twist3.Prismatic, pitch, theta, pole, line, isprismatic, Plucker.PointDir / pp, and the Twist2 analogues run on symbols;
   the normalisation a/|a| of base.unitvec is part of the traces, its branch |a| >= 10 eps is the generated path condition). *)
From Coq Require Import Reals ZArith Lra Lia Nsatz Psatz Bool.
From SM Require Import Base.Ops Base.Lin Base.RInst Base.RLin Model.C18_Screw.
From SMgen Require Import Traces_C18.
Open Scope R_scope.

Ltac gen_unfold := autounfold with smgen smlin in *; sm_simpl.
Definition unit_thr : R := 5 / 2251799813685248.      (* 10 * 2^-52: unitvec's threshold (fixes d900630, 4dbd011: n >= 10 eps), the complement of iszerovec's n < 10 eps *)

(* abstract the norm: n := sqrt(a.a) with n*n = a.a and n > 0 *)
Ltac abstract_norm3 a0 a1 a2 Hpos :=
  let n := fresh "n" in let Hn := fresh "Hn" in
  assert (Hn : sqrt (a0*a0 + a1*a1 + a2*a2) * sqrt (a0*a0 + a1*a1 + a2*a2) = a0*a0 + a1*a1 + a2*a2) by (apply sqrt_sqrt; nra);
  revert Hpos Hn; generalize (sqrt (a0*a0 + a1*a1 + a2*a2)); intros n Hpos Hn.

(* ---------------------------------------------------------------- constructors *)
Lemma C18_pc_Revolute_iff : forall a q, pc_tr_T3_Revolute Rops a q = true <-> unit_thr <= norm3 Rops a.
Proof. intros. destruct_tuples. gen_unfold. rewrite andb_true_r, Rleb_true. unfold unit_thr. tauto. Qed.
Print Assumptions C18_pc_Revolute_iff.
Lemma C18_pc_Prismatic_iff : forall a, pc_tr_T3_Prismatic Rops a = true <-> unit_thr <= norm3 Rops a.
Proof. intros. destruct_tuples. gen_unfold. rewrite andb_true_r, Rleb_true. unfold unit_thr. tauto. Qed.
Print Assumptions C18_pc_Prismatic_iff.

Lemma unit_thr_pos : 0 < unit_thr.  Proof. unfold unit_thr. lra. Qed.
Print Assumptions unit_thr_pos.
(* the zero test (iszerovec: n < tiny) and the normalisation test (unitvec: n >= unit_thr) are exact complements *)
Lemma C18_unit_thr_is_zero_thr : unit_thr = tiny.  Proof. reflexivity. Qed.
Print Assumptions C18_unit_thr_is_zero_thr.

(* Revolute(a, q) = (-(w x q), w) with w = a/|a|, a unit vector *)
Theorem C18_Revolute_form : forall a q, pc_tr_T3_Revolute Rops a q = true ->
  tr_T3_Revolute Rops a q = revolute_tw Rops (unitv3 Rops a) q /\
  dot3 Rops (unitv3 Rops a) (unitv3 Rops a) = 1 /\ vscale3 Rops (norm3 Rops a) (unitv3 Rops a) = a.
Proof.
  intros a q H. apply C18_pc_Revolute_iff in H. pose proof unit_thr_pos.
  assert (Hp : 0 < norm3 Rops a) by lra. split; [|split; [apply unitv3_unit | apply unitv3_scale]; exact Hp].
  clear H. destruct_tuples. gen_unfold. abstract_norm3 r4 r3 r2 Hp. tuple_eq ltac:(field; lra).
Qed.
Print Assumptions C18_Revolute_form.

Theorem C18_Prismatic_form : forall a, pc_tr_T3_Prismatic Rops a = true ->
  tr_T3_Prismatic Rops a = prismatic_tw Rops (unitv3 Rops a) /\ dot3 Rops (unitv3 Rops a) (unitv3 Rops a) = 1.
Proof.
  intros a H. apply C18_pc_Prismatic_iff in H. pose proof unit_thr_pos.
  assert (Hp : 0 < norm3 Rops a) by lra. split; [|apply unitv3_unit; exact Hp].
  clear H. destruct_tuples. gen_unfold. abstract_norm3 r1 r0 r Hp. tuple_eq ltac:(try (field; lra); try reflexivity).
Qed.
Print Assumptions C18_Prismatic_form.

Example C18_constructors_nonvacuous :
  pc_tr_T3_Revolute Rops (0, 3, 4) (1, 2, 3) = true /\ pc_tr_T3_Prismatic Rops (0, 3/1000, 4/1000) = true.
Proof.
  split; [apply C18_pc_Revolute_iff | apply C18_pc_Prismatic_iff]; unfold unit_thr; lin_simpl.
  - replace (0*0 + 3*3 + 4*4) with (5*5) by ring. rewrite sqrt_square; lra.
  - replace (0*0 + 3/1000*(3/1000) + 4/1000*(4/1000)) with (5/1000*(5/1000)) by field. rewrite sqrt_square; lra.
Qed.
Print Assumptions C18_constructors_nonvacuous.

(* ---------------------------------------------------------------- accessors, general twist *)
Theorem C18_accessor_forms : forall S,
  tr_T3_pitch Rops S = dot3 Rops (tw_w S) (tw_v S) /\
  tr_T3_theta Rops S = norm3 Rops (tw_w S) /\
  tr_T3_line Rops S = v6 (vadd3 Rops (vneg3 Rops (tw_v S)) (vscale3 Rops (tr_T3_pitch Rops S) (tw_w S))) (tw_w S).
Proof. intros. destruct_tuples. gen_unfold. repeat split; try ring; tuple_eq ltac:(ring). Qed.
Print Assumptions C18_accessor_forms.

(* theta() is the rotation magnitude: |k| for the scalar multiple k S of a unit twist *)
Theorem C18_theta_of_smul : forall S k, dot3 Rops (tw_w S) (tw_w S) = 1 ->
  tr_T3_theta Rops (tr_T3_smul Rops S k) = Rabs k.
Proof.
  intros S k Hw. destruct_tuples. gen_unfold. rewrite <- sqrt_sq_abs. f_equal. nsatz.
Qed.
Print Assumptions C18_theta_of_smul.

(* ---------------------------------------------------------------- accessors of a revolute unit twist *)
Theorem C18_revolute_pitch_zero : forall w q, dot3 Rops w w = 1 -> tr_T3_pitch Rops (revolute_tw Rops w q) = 0.
Proof. intros w q Hw. destruct_tuples. gen_unfold. ring. Qed.
Print Assumptions C18_revolute_pitch_zero.

Theorem C18_revolute_theta_one : forall w q, dot3 Rops w w = 1 -> tr_T3_theta Rops (revolute_tw Rops w q) = 1.
Proof. intros w q Hw. destruct_tuples. gen_unfold. rewrite Hw. apply sqrt_1. Qed.
Print Assumptions C18_revolute_theta_one.

(* pole = q - (w.q) w : the foot of the perpendicular from the origin, a point of the axis *)
Theorem C18_revolute_pole_on_axis : forall w q, dot3 Rops w w = 1 ->
  tr_T3_pole Rops (revolute_tw Rops w q) = vsub3 Rops q (vscale3 Rops (dot3 Rops w q) w) /\
  cross3 Rops (vsub3 Rops (tr_T3_pole Rops (revolute_tw Rops w q)) q) w = (0,0,0).
Proof.
  intros w q Hw. destruct_tuples. gen_unfold. rewrite !Hw, sqrt_1. replace (1 / 1) with 1 by field.
  split; tuple_eq ltac:(nsatz).
Qed.
Print Assumptions C18_revolute_pole_on_axis.

(* line of action = the Pluecker line through q with direction w, in the library's own convention
   (Plucker.PointDir: moment = w x q); its principal point lies on the axis *)
Theorem C18_revolute_line_on_axis : forall w q, dot3 Rops w w = 1 ->
  tr_T3_line Rops (revolute_tw Rops w q) = tr_Plucker_PointDir Rops q w /\
  tw_w (tr_T3_line Rops (revolute_tw Rops w q)) = w /\
  tw_v (tr_T3_line Rops (revolute_tw Rops w q)) = cross3 Rops w q /\
  cross3 Rops (vsub3 Rops (tr_Plucker_pp Rops (tr_T3_line Rops (revolute_tw Rops w q))) q) w = (0,0,0).
Proof.
  intros w q Hw. destruct_tuples. gen_unfold. rewrite !Hw. replace (1 / 1) with 1 by field.
  repeat split; tuple_eq ltac:(nsatz).
Qed.
Print Assumptions C18_revolute_line_on_axis.

Theorem C18_revolute_not_prismatic : forall w q, dot3 Rops w w = 1 -> bt_T3_isprismatic Rops (revolute_tw Rops w q) = false.
Proof. intros w q Hw. destruct_tuples. gen_unfold. rewrite Hw, sqrt_1. apply Rltb_false. lra. Qed.
Print Assumptions C18_revolute_not_prismatic.

Theorem C18_prismatic_is_prismatic : forall d, bt_T3_isprismatic Rops (prismatic_tw Rops d) = true.
Proof.
  intros. destruct_tuples. gen_unfold. apply Rltb_true.
  replace (0*0 + 0*0 + 0*0) with 0 by ring. rewrite sqrt_0. lra.
Qed.
Print Assumptions C18_prismatic_is_prismatic.

(* ---------------------------------------------------------------- the other kinds of twist *)
(* general unit screw about the line {q + l w} with pitch h: (v, w) = (-(w x q) + h w, w) *)
Definition screw_tw (w q : V3 R) (h : R) : V6 R :=
  v6 (vadd3 Rops (vneg3 Rops (cross3 Rops w q)) (vscale3 Rops h w)) w.

Theorem C18_screw_accessors : forall w q h, dot3 Rops w w = 1 ->
  let S := screw_tw w q h in
  tr_T3_pitch Rops S = h /\ tr_T3_theta Rops S = 1 /\
  cross3 Rops (vsub3 Rops (tr_T3_pole Rops S) q) w = (0,0,0) /\
  tw_w (tr_T3_line Rops S) = w /\
  cross3 Rops (vsub3 Rops (tr_Plucker_pp Rops (tr_T3_line Rops S)) q) w = (0,0,0) /\
  bt_T3_isprismatic Rops S = false.
Proof.
  intros w q h Hw. unfold screw_tw. destruct_tuples. gen_unfold. rewrite !Hw, sqrt_1. replace (1 / 1) with 1 by field.
  repeat split; try (tuple_eq ltac:(nsatz)); try nsatz. apply Rltb_false. lra.
Qed.
Print Assumptions C18_screw_accessors.

(* line() of a unit screw of ANY pitch is the Pluecker line through q with direction w (fix 2c38430: the pitch term is
   added to -v); more generally, for every twist with unit w (any v) it is the line through pole() with direction w, and
   its coordinates satisfy the Pluecker constraint *)
Theorem C18_screw_line : forall w q h, dot3 Rops w w = 1 ->
  tr_T3_line Rops (screw_tw w q h) = tr_Plucker_PointDir Rops q w.
Proof. intros w q h Hw. unfold screw_tw. destruct_tuples. gen_unfold. tuple_eq ltac:(nsatz). Qed.
Print Assumptions C18_screw_line.

Theorem C18_line_of_unit_twist : forall S, dot3 Rops (tw_w S) (tw_w S) = 1 ->
  tr_T3_line Rops S = tr_Plucker_PointDir Rops (tr_T3_pole Rops S) (tw_w S) /\
  dot3 Rops (tw_v (tr_T3_line Rops S)) (tw_w (tr_T3_line Rops S)) = 0.
Proof.
  intros S Hw. destruct_tuples. gen_unfold. rewrite !Hw, sqrt_1. replace (1 / 1) with 1 by field.
  split; [tuple_eq ltac:(nsatz) | nsatz].
Qed.
Print Assumptions C18_line_of_unit_twist.

(* theta() is the rotation magnitude for every kind: 0 for prismatic and zero twists, |k| |w| for a multiple *)
Theorem C18_theta_other_kinds : forall (d : V3 R) S k,
  tr_T3_theta Rops (prismatic_tw Rops d) = 0 /\ tr_T3_theta Rops (0,0,0,0,0,0) = 0 /\
  tr_T3_theta Rops (tr_T3_smul Rops S k) = Rabs k * tr_T3_theta Rops S /\
  tr_T3_pitch Rops (prismatic_tw Rops d) = 0.
Proof.
  intros. destruct_tuples. gen_unfold. repeat split.
  - replace (0*0 + 0*0 + 0*0) with 0 by ring. apply sqrt_0.
  - replace (0*0 + 0*0 + 0*0) with 0 by ring. apply sqrt_0.
  - rewrite <- sqrt_sq_abs, <- sqrt_mult_alt by nra. f_equal. ring.
  - ring.
Qed.
Print Assumptions C18_theta_other_kinds.

(* through the constructors: Twist3.Revolute(a, q) for any admissible direction a *)
Theorem C18_Revolute_accessors : forall a q, pc_tr_T3_Revolute Rops a q = true ->
  let S := tr_T3_Revolute Rops a q in let w := unitv3 Rops a in
  tr_T3_pitch Rops S = 0 /\ tr_T3_theta Rops S = 1 /\
  cross3 Rops (vsub3 Rops (tr_T3_pole Rops S) q) w = (0,0,0) /\
  tr_T3_line Rops S = tr_Plucker_PointDir Rops q w /\
  cross3 Rops (vsub3 Rops (tr_Plucker_pp Rops (tr_T3_line Rops S)) q) w = (0,0,0) /\
  bt_T3_isprismatic Rops S = false.
Proof.
  intros a q H. destruct (C18_Revolute_form a q H) as (E & Hu & _). cbv zeta. rewrite E.
  pose proof (C18_revolute_pole_on_axis _ q Hu) as (_ & P).
  pose proof (C18_revolute_line_on_axis _ q Hu) as (L1 & _ & _ & L2).
  repeat split; auto using C18_revolute_pitch_zero, C18_revolute_theta_one, C18_revolute_not_prismatic.
Qed.
Print Assumptions C18_Revolute_accessors.
Theorem C18_Prismatic_reported : forall a, pc_tr_T3_Prismatic Rops a = true ->
  bt_T3_isprismatic Rops (tr_T3_Prismatic Rops a) = true.
Proof. intros a H. destruct (C18_Prismatic_form a H) as (E & _). rewrite E. apply C18_prismatic_is_prismatic. Qed.
Print Assumptions C18_Prismatic_reported.

(* ---------------------------------------------------------------- planar constructors *)
Theorem C18_T2_Revolute_form : forall q, tr_T2_Revolute Rops q = revolute2_tw Rops q.
Proof. intros. destruct_tuples. gen_unfold. tuple_eq ltac:(try ring). Qed.
Print Assumptions C18_T2_Revolute_form.
Theorem C18_T2_Prismatic_form : forall a, pc_tr_T2_Prismatic Rops a = true ->
  tr_T2_Prismatic Rops a = (let '(d0,d1) := unitv2 Rops a in (d0,d1,0)) /\
  dot2 Rops (unitv2 Rops a) (unitv2 Rops a) = 1.
Proof.
  intros a H.
  assert (Hp : 0 < sqrt (dot2 Rops a a)).
  { destruct a as [x y]. gen_unfold. pc_props H. lra. }
  split; [|apply unitv2_unit; exact Hp]. destruct a as [x y]. gen_unfold. tuple_eq ltac:(try reflexivity; try (field; lra)).
Qed.
Print Assumptions C18_T2_Prismatic_form.
Theorem C18_T2_isprismatic : forall q d0 d1,
  bt_T2_isprismatic Rops (revolute2_tw Rops q) = false /\ bt_T2_isprismatic Rops (d0, d1, 0) = true.
Proof.
  intros. destruct_tuples. gen_unfold. split; [apply Rltb_false | apply Rltb_true].
  - rewrite Rabs_R1. lra.
  - rewrite Rabs_R0. lra.
Qed.
Print Assumptions C18_T2_isprismatic.
