(* The real-number instance of [ops]: the ideal semantics L-real in which theorems are proved. *)
From Coq Require Import Reals ZArith Lra.
From SM Require Import Base.Ops.
Open Scope R_scope.

Definition Rltb (x y : R) : bool := if Rlt_dec x y then true else false.
Definition Rleb (x y : R) : bool := if Rle_dec x y then true else false.
Definition Reqb (x y : R) : bool := if Req_EM_T x y then true else false.

(* atan2 is not in the standard library *)
Definition atan2 (y x : R) : R :=
  if Rlt_dec 0 x then atan (y/x)
  else if Rlt_dec x 0 then (if Rle_dec 0 y then atan (y/x) + PI else atan (y/x) - PI)
  else if Rlt_dec 0 y then PI/2 else if Rlt_dec y 0 then -PI/2 else 0.

Definition Rfloor (x : R) : R := IZR (Int_part x).

(* In L-real the constants are the exact values the code uses: eps = 2^-52; pi_f is taken as PI
   (the gap |math.pi - PI| < 2^-51 is a floating-point matter measured on L-impl). *)
Definition Rops : ops R := {|
  zero := 0; one := 1; add := Rplus; sub := Rminus; mul := Rmult; div := Rdiv; neg := Ropp;
  sqrt_ := sqrt; sin_ := sin; cos_ := cos; tan_ := tan; acos_ := acos; asin_ := asin; atan_ := atan;
  atan2_ := atan2; abs_ := Rabs; floor_ := Rfloor; exp_ := exp; ln_ := ln; ltb := Rltb; leb := Rleb; eqb := Reqb;
  of_Z := IZR; eps := / 4503599627370496; pi_f := PI |}.

Lemma Rltb_true x y : Rltb x y = true <-> x < y.
Proof. unfold Rltb; destruct (Rlt_dec x y); split; intros; try lra; try discriminate; auto. Qed.
Lemma Rltb_false x y : Rltb x y = false <-> ~ x < y.
Proof. unfold Rltb; destruct (Rlt_dec x y); split; intros; try lra; try discriminate; auto; tauto. Qed.
Lemma Rleb_true x y : Rleb x y = true <-> x <= y.
Proof. unfold Rleb; destruct (Rle_dec x y); split; intros; try lra; try discriminate; auto. Qed.
Lemma Rleb_false x y : Rleb x y = false <-> ~ x <= y.
Proof. unfold Rleb; destruct (Rle_dec x y); split; intros; try lra; try discriminate; auto; tauto. Qed.
Lemma Reqb_true x y : Reqb x y = true <-> x = y.
Proof. unfold Reqb; destruct (Req_EM_T x y); split; intros; try lra; try discriminate; auto. Qed.

(* Unfold generated / generic definitions down to R operations so that ring/field/nsatz apply. *)
Ltac sm_simpl :=
  cbv beta iota zeta delta [zero one add sub mul div neg sqrt_ sin_ cos_ tan_ acos_ asin_ atan_ atan2_ abs_ floor_ exp_ ln_
       ltb leb eqb of_Z eps pi_f Rops fst snd] in *.
Ltac destruct_tuples :=
  repeat match goal with
         | x : (_ * _)%type |- _ => destruct x
         | x : V2 _ |- _ => destruct x | x : V3 _ |- _ => destruct x
         | x : V4 _ |- _ => destruct x | x : V6 _ |- _ => destruct x
         | x : V8 _ |- _ => destruct x
         | x : M22 _ |- _ => destruct x | x : M33 _ |- _ => destruct x
         | x : M44 _ |- _ => destruct x | x : M66 _ |- _ => destruct x
         | x : M88 _ |- _ => destruct x end.
Ltac tuple_eq tac :=
  repeat match goal with |- (_, _) = (_, _) => apply f_equal2 end; tac.
