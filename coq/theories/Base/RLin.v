(* Real-number linear algebra shared by the property files: group-membership predicates in
   polynomial form, closure lemmas, and tactics that put the polynomial hypotheses nsatz needs
   into the context. *)
From Coq Require Import Reals ZArith Lra Nsatz Psatz.
From SM Require Import Base.Ops Base.Lin Base.RInst.
Open Scope R_scope.

Ltac lin_simpl := autounfold with smlin in *; sm_simpl.
Ltac lin_ring := intros; destruct_tuples; lin_simpl; tuple_eq ltac:(ring).

(* ---------- SO(2) / SO(3) membership (row-orthonormal, det = +1), as polynomial equations ---------- *)
Definition SO2 (A : M22 R) : Prop :=
  let '((a,b),(c,d)) := A in a*a + b*b = 1 /\ c*c + d*d = 1 /\ a*c + b*d = 0 /\ a*d - b*c = 1.

Definition SO3 (A : M33 R) : Prop :=
  let '((a00,a01,a02),(a10,a11,a12),(a20,a21,a22)) := A in
  a00*a00 + a01*a01 + a02*a02 = 1 /\ a10*a10 + a11*a11 + a12*a12 = 1 /\ a20*a20 + a21*a21 + a22*a22 = 1 /\
  a00*a10 + a01*a11 + a02*a12 = 0 /\ a00*a20 + a01*a21 + a02*a22 = 0 /\ a10*a20 + a11*a21 + a12*a22 = 0 /\
  a00*(a11*a22 - a12*a21) - a01*(a10*a22 - a12*a20) + a02*(a10*a21 - a11*a20) = 1.

(* the matrix forms *)
Lemma SO3_matrix A : SO3 A <-> mmul33 Rops A (mtr33 A) = I33 Rops /\ det33 Rops A = 1.
Proof.
  destruct_tuples. unfold SO3. lin_simpl. split.
  - intros (H1&H2&H3&H4&H5&H6&H7). split; [|lra]. tuple_eq ltac:(try lra).
  - intros [H D]. injection H; intros. repeat split; lra.
Qed.
Lemma SO2_matrix A : SO2 A <-> mmul22 Rops A (mtr22 A) = I22 Rops /\ det22 Rops A = 1.
Proof.
  destruct_tuples. unfold SO2. lin_simpl. split.
  - intros (H1&H2&H3&H4). split; [|lra]. tuple_eq ltac:(try lra).
  - intros [H D]. injection H; intros. repeat split; lra.
Qed.

(* every entry of a rotation matrix equals its cofactor; columns are orthonormal too *)
Lemma SO3_cofactors a00 a01 a02 a10 a11 a12 a20 a21 a22 :
  SO3 ((a00,a01,a02),(a10,a11,a12),(a20,a21,a22)) ->
  a00 = a11*a22 - a12*a21 /\ a01 = a12*a20 - a10*a22 /\ a02 = a10*a21 - a11*a20 /\
  a10 = a02*a21 - a01*a22 /\ a11 = a00*a22 - a02*a20 /\ a12 = a01*a20 - a00*a21 /\
  a20 = a01*a12 - a02*a11 /\ a21 = a02*a10 - a00*a12 /\ a22 = a00*a11 - a01*a10.
Proof. unfold SO3. intros (H1&H2&H3&H4&H5&H6&H7). repeat split; nsatz. Qed.

Lemma SO3_columns a00 a01 a02 a10 a11 a12 a20 a21 a22 :
  SO3 ((a00,a01,a02),(a10,a11,a12),(a20,a21,a22)) ->
  a00*a00 + a10*a10 + a20*a20 = 1 /\ a01*a01 + a11*a11 + a21*a21 = 1 /\ a02*a02 + a12*a12 + a22*a22 = 1 /\
  a00*a01 + a10*a11 + a20*a21 = 0 /\ a00*a02 + a10*a12 + a20*a22 = 0 /\ a01*a02 + a11*a12 + a21*a22 = 0.
Proof. unfold SO3. intros (H1&H2&H3&H4&H5&H6&H7). repeat split; nsatz. Qed.

(* Put every polynomial fact about a rotation matrix into the context (rows, det, cofactors, columns).
   Usage: so3_facts H  where  H : SO3 ((a00,..),(..),(..))  after destruct_tuples. *)
Ltac so3_facts H :=
  let C := fresh "Hcof" in let K := fresh "Hcol" in
  pose proof (SO3_cofactors _ _ _ _ _ _ _ _ _ H) as C; pose proof (SO3_columns _ _ _ _ _ _ _ _ _ H) as K;
  unfold SO3 in H; decompose [and] H; decompose [and] C; decompose [and] K; clear H C K.

Lemma SO2_columns a b c d : SO2 ((a,b),(c,d)) -> a = d /\ b = - c /\ a*a + c*c = 1.
Proof. unfold SO2. intros (H1&H2&H3&H4). repeat split; nsatz. Qed.

(* ---------- closure ---------- *)
Lemma SO3_I : SO3 (I33 Rops).
Proof. lin_simpl. unfold SO3. repeat split; ring. Qed.
Lemma SO3_mul A B : SO3 A -> SO3 B -> SO3 (mmul33 Rops A B).
Proof.
  intros HA HB. destruct_tuples. so3_facts HA. so3_facts HB. lin_simpl. unfold SO3. repeat split; nsatz.
Qed.
Lemma SO3_tr A : SO3 A -> SO3 (mtr33 A).
Proof. intros HA. destruct_tuples. so3_facts HA. lin_simpl. unfold SO3. repeat split; nsatz. Qed.
Lemma SO3_inv_l A : SO3 A -> mmul33 Rops (mtr33 A) A = I33 Rops.
Proof. intros HA. destruct_tuples. so3_facts HA. lin_simpl. tuple_eq ltac:(nsatz). Qed.
Lemma SO3_inv_r A : SO3 A -> mmul33 Rops A (mtr33 A) = I33 Rops.
Proof. intros HA. apply SO3_matrix in HA. tauto. Qed.

Lemma SO2_I : SO2 (I22 Rops).
Proof. lin_simpl. unfold SO2. repeat split; ring. Qed.
Lemma SO2_mul A B : SO2 A -> SO2 B -> SO2 (mmul22 Rops A B).
Proof.
  intros HA HB. destruct_tuples. unfold SO2 in *. lin_simpl.
  destruct HA as (?&?&?&?), HB as (?&?&?&?). repeat split; nsatz.
Qed.
Lemma SO2_tr A : SO2 A -> SO2 (mtr22 A).
Proof.
  intros HA. destruct_tuples. pose proof (SO2_columns _ _ _ _ HA) as (?&?&?). unfold SO2 in *. lin_simpl.
  destruct HA as (?&?&?&?). repeat split; nsatz.
Qed.

(* ---------- SE(3) / SE(2): rotation block in SO(n), last row exactly (0,..,0,1) ---------- *)
Definition SE3 (A : M44 R) : Prop := SO3 (t2r3 A) /\ lastrow4 A = (0,0,0,1).
Definition SE2 (A : M33 R) : Prop := SO2 (t2r2 A) /\ lastrow3 A = (0,0,1).

Lemma SE3_rt (Rm : M33 R) (t : V3 R) : SO3 Rm -> SE3 (rt2tr3 Rops Rm t).
Proof. intros H. destruct_tuples. unfold SE3. lin_simpl. split; [exact H|reflexivity]. Qed.
Lemma SE3_decompose A : SE3 A -> A = rt2tr3 Rops (t2r3 A) (transl3 A).
Proof. intros [_ H]. destruct_tuples. lin_simpl. injection H; intros; subst. reflexivity. Qed.
Lemma SE3_mul A B : SE3 A -> SE3 B -> SE3 (mmul44 Rops A B).
Proof.
  intros HA HB. rewrite (SE3_decompose A HA), (SE3_decompose B HB). destruct HA as [HA _], HB as [HB _].
  pose proof (SO3_mul _ _ HA HB) as HM. revert HM.
  generalize (t2r3 A) (t2r3 B) (transl3 A) (transl3 B). intros Ra Rb ta tb HM.
  destruct_tuples. unfold SE3. lin_simpl. split.
  - unfold SO3 in *. lin_simpl. decompose [and] HM. repeat split; nsatz.
  - tuple_eq ltac:(ring).
Qed.
(* the structured inverse [R' , -R' t] *)
Definition trinv_ref (A : M44 R) : M44 R :=
  rt2tr3 Rops (mtr33 (t2r3 A)) (vneg3 Rops (mv33 Rops (mtr33 (t2r3 A)) (transl3 A))).
Lemma SE3_inv A : SE3 A -> SE3 (trinv_ref A).
Proof. intros [HA _]. unfold trinv_ref. apply SE3_rt. apply SO3_tr. exact HA. Qed.
Lemma SE3_inv_r A : SE3 A -> mmul44 Rops A (trinv_ref A) = I44 Rops.
Proof.
  intros HA. rewrite (SE3_decompose A HA) at 1. unfold trinv_ref. destruct HA as [HA _]. revert HA.
  generalize (t2r3 A) (transl3 A). intros Ra ta HA. destruct_tuples. so3_facts HA. lin_simpl.
  tuple_eq ltac:(nsatz).
Qed.
Lemma SE3_inv_l A : SE3 A -> mmul44 Rops (trinv_ref A) A = I44 Rops.
Proof.
  intros HA. rewrite (SE3_decompose A HA) at 2. unfold trinv_ref. destruct HA as [HA _]. revert HA.
  generalize (t2r3 A) (transl3 A). intros Ra ta HA. destruct_tuples. so3_facts HA. lin_simpl.
  tuple_eq ltac:(nsatz).
Qed.

(* rotations from (cos, sin) pairs are in the group *)
Lemma SO3_rotx c s : c*c + s*s = 1 -> SO3 (rotx_cs Rops c s).
Proof. intros. lin_simpl. unfold SO3. repeat split; nsatz. Qed.
Lemma SO3_roty c s : c*c + s*s = 1 -> SO3 (roty_cs Rops c s).
Proof. intros. lin_simpl. unfold SO3. repeat split; nsatz. Qed.
Lemma SO3_rotz c s : c*c + s*s = 1 -> SO3 (rotz_cs Rops c s).
Proof. intros. lin_simpl. unfold SO3. repeat split; nsatz. Qed.
Lemma SO2_rot2 c s : c*c + s*s = 1 -> SO2 (rot2_cs Rops c s).
Proof. intros. lin_simpl. unfold SO2. repeat split; nsatz. Qed.
Lemma cs_unit th : cos th * cos th + sin th * sin th = 1.
Proof. pose proof (sin2_cos2 th) as H. unfold Rsqr in H. lra. Qed.

(* unit quaternion -> rotation matrix *)
Lemma SO3_q2r (q : V4 R) : qnormsq Rops q = 1 -> SO3 (q2r_ref Rops q).
Proof. intros H. destruct_tuples. lin_simpl. unfold SO3. repeat split; nsatz. Qed.
Lemma qmul_norm (p q : V4 R) : qnormsq Rops (qmul Rops p q) = qnormsq Rops p * qnormsq Rops q.
Proof. lin_ring. Qed.
Lemma q2r_hom (p q : V4 R) : qnormsq Rops p = 1 -> qnormsq Rops q = 1 ->
  q2r_ref Rops (qmul Rops p q) = mmul33 Rops (q2r_ref Rops p) (q2r_ref Rops q).
Proof. intros Hp Hq. destruct_tuples. lin_simpl. tuple_eq ltac:(nsatz). Qed.

(* generic ring facts *)
Lemma mmul33_assoc (A B C : M33 R) : mmul33 Rops (mmul33 Rops A B) C = mmul33 Rops A (mmul33 Rops B C).
Proof. lin_ring. Qed.
Lemma mmul44_assoc (A B C : M44 R) : mmul44 Rops (mmul44 Rops A B) C = mmul44 Rops A (mmul44 Rops B C).
Proof. lin_ring. Qed.
Lemma mmul22_assoc (A B C : M22 R) : mmul22 Rops (mmul22 Rops A B) C = mmul22 Rops A (mmul22 Rops B C).
Proof. lin_ring. Qed.
Lemma mmul33_I_l (A : M33 R) : mmul33 Rops (I33 Rops) A = A.  Proof. lin_ring. Qed.
Lemma mmul33_I_r (A : M33 R) : mmul33 Rops A (I33 Rops) = A.  Proof. lin_ring. Qed.
Lemma mmul44_I_l (A : M44 R) : mmul44 Rops (I44 Rops) A = A.  Proof. lin_ring. Qed.
Lemma mmul44_I_r (A : M44 R) : mmul44 Rops A (I44 Rops) = A.  Proof. lin_ring. Qed.
Lemma mtr33_mul (A B : M33 R) : mtr33 (mmul33 Rops A B) = mmul33 Rops (mtr33 B) (mtr33 A).
Proof. lin_ring. Qed.
Lemma det33_mul (A B : M33 R) : det33 Rops (mmul33 Rops A B) = det33 Rops A * det33 Rops B.
Proof. lin_ring. Qed.
Lemma skew3_cross (a b : V3 R) : mv33 Rops (skew3 Rops a) b = cross3 Rops a b.
Proof. lin_ring. Qed.
