(* Generic fixed-shape linear algebra over an [ops] record. *)
From Coq Require Import ZArith.
From SM Require Import Base.Ops.

Section Lin.
Context {T : Type} (O : ops T).
Local Notation "0" := (zero O). Local Notation "1" := (one O).
Local Infix "+" := (add O). Local Infix "-" := (sub O). Local Infix "*" := (mul O).
Local Infix "/" := (div O). Local Notation "- x" := (neg O x).

Definition two : T := 1 + 1.

(* ---- 2-vectors / 2x2 ---- *)
Definition dot2 (a b : V2 T) : T := let '(a0,a1) := a in let '(b0,b1) := b in a0*b0 + a1*b1.
Definition mv22 (A : M22 T) (v : V2 T) : V2 T := let '(r0,r1) := A in (dot2 r0 v, dot2 r1 v).
Definition mtr22 (A : M22 T) : M22 T := let '((a,b),(c,d)) := A in ((a,c),(b,d)).
Definition mmul22 (A B : M22 T) : M22 T :=
  let '((a,b),(c,d)) := A in let '((e,f),(g,h)) := B in
  ((a*e + b*g, a*f + b*h), (c*e + d*g, c*f + d*h)).
Definition I22 : M22 T := ((1,0),(0,1)).
Definition det22 (A : M22 T) : T := let '((a,b),(c,d)) := A in a*d - b*c.
Definition vadd2 (a b : V2 T) : V2 T := let '(a0,a1) := a in let '(b0,b1) := b in (a0+b0, a1+b1).
Definition vsub2 (a b : V2 T) : V2 T := let '(a0,a1) := a in let '(b0,b1) := b in (a0-b0, a1-b1).
Definition vscale2 (k : T) (a : V2 T) : V2 T := let '(a0,a1) := a in (k*a0, k*a1).
Definition vneg2 (a : V2 T) : V2 T := let '(a0,a1) := a in (-a0, -a1).

(* ---- 3-vectors / 3x3 ---- *)
Definition dot3 (a b : V3 T) : T :=
  let '(a0,a1,a2) := a in let '(b0,b1,b2) := b in a0*b0 + a1*b1 + a2*b2.
Definition cross3 (a b : V3 T) : V3 T :=
  let '(a0,a1,a2) := a in let '(b0,b1,b2) := b in
  (a1*b2 - a2*b1, a2*b0 - a0*b2, a0*b1 - a1*b0).
Definition vadd3 (a b : V3 T) : V3 T :=
  let '(a0,a1,a2) := a in let '(b0,b1,b2) := b in (a0+b0, a1+b1, a2+b2).
Definition vsub3 (a b : V3 T) : V3 T :=
  let '(a0,a1,a2) := a in let '(b0,b1,b2) := b in (a0-b0, a1-b1, a2-b2).
Definition vscale3 (k : T) (a : V3 T) : V3 T := let '(a0,a1,a2) := a in (k*a0, k*a1, k*a2).
Definition vneg3 (a : V3 T) : V3 T := let '(a0,a1,a2) := a in (-a0, -a1, -a2).
Definition normsq3 (a : V3 T) : T := dot3 a a.
Definition norm3 (a : V3 T) : T := sqrt_ O (normsq3 a).
Definition mv33 (A : M33 T) (v : V3 T) : V3 T :=
  let '(r0,r1,r2) := A in (dot3 r0 v, dot3 r1 v, dot3 r2 v).
Definition mtr33 (A : M33 T) : M33 T :=
  let '((a00,a01,a02),(a10,a11,a12),(a20,a21,a22)) := A in
  ((a00,a10,a20),(a01,a11,a21),(a02,a12,a22)).
Definition col33 (A : M33 T) (j : nat) : V3 T :=
  let '(c0,c1,c2) := mtr33 A in match j with 0%nat => c0 | 1%nat => c1 | _ => c2 end.
Definition mmul33 (A B : M33 T) : M33 T :=
  let '(r0,r1,r2) := A in let '(c0,c1,c2) := mtr33 B in
  ((dot3 r0 c0, dot3 r0 c1, dot3 r0 c2),
   (dot3 r1 c0, dot3 r1 c1, dot3 r1 c2),
   (dot3 r2 c0, dot3 r2 c1, dot3 r2 c2)).
Definition I33 : M33 T := ((1,0,0),(0,1,0),(0,0,1)).
Definition Z33 : M33 T := ((0,0,0),(0,0,0),(0,0,0)).
Definition madd33 (A B : M33 T) : M33 T :=
  let '(a0,a1,a2) := A in let '(b0,b1,b2) := B in (vadd3 a0 b0, vadd3 a1 b1, vadd3 a2 b2).
Definition msub33 (A B : M33 T) : M33 T :=
  let '(a0,a1,a2) := A in let '(b0,b1,b2) := B in (vsub3 a0 b0, vsub3 a1 b1, vsub3 a2 b2).
Definition mscale33 (k : T) (A : M33 T) : M33 T :=
  let '(a0,a1,a2) := A in (vscale3 k a0, vscale3 k a1, vscale3 k a2).
Definition det33 (A : M33 T) : T :=
  let '((a00,a01,a02),(a10,a11,a12),(a20,a21,a22)) := A in
  a00*(a11*a22 - a12*a21) - a01*(a10*a22 - a12*a20) + a02*(a10*a21 - a11*a20).
Definition skew3 (v : V3 T) : M33 T :=
  let '(x,y,z) := v in ((0, -z, y), (z, 0, -x), (-y, x, 0)).
Definition vex3 (S : M33 T) : V3 T :=
  let '((s00,s01,s02),(s10,s11,s12),(s20,s21,s22)) := S in
  ((s21 - s12)/two, (s02 - s20)/two, (s10 - s01)/two).
Definition trace33 (A : M33 T) : T :=
  let '((a00,_,_),(_,a11,_),(_,_,a22)) := A in a00 + a11 + a22.
Definition outer3 (a b : V3 T) : M33 T :=
  let '(a0,a1,a2) := a in (vscale3 a0 b, vscale3 a1 b, vscale3 a2 b).

(* ---- 4-vectors / 4x4 ---- *)
Definition dot4 (a b : V4 T) : T :=
  let '(a0,a1,a2,a3) := a in let '(b0,b1,b2,b3) := b in a0*b0 + a1*b1 + a2*b2 + a3*b3.
Definition vadd4 (a b : V4 T) : V4 T :=
  let '(a0,a1,a2,a3) := a in let '(b0,b1,b2,b3) := b in (a0+b0, a1+b1, a2+b2, a3+b3).
Definition vsub4 (a b : V4 T) : V4 T :=
  let '(a0,a1,a2,a3) := a in let '(b0,b1,b2,b3) := b in (a0-b0, a1-b1, a2-b2, a3-b3).
Definition vscale4 (k : T) (a : V4 T) : V4 T :=
  let '(a0,a1,a2,a3) := a in (k*a0, k*a1, k*a2, k*a3).
Definition vneg4 (a : V4 T) : V4 T := let '(a0,a1,a2,a3) := a in (-a0, -a1, -a2, -a3).
Definition mtr44 (A : M44 T) : M44 T :=
  let '((a00,a01,a02,a03),(a10,a11,a12,a13),(a20,a21,a22,a23),(a30,a31,a32,a33)) := A in
  ((a00,a10,a20,a30),(a01,a11,a21,a31),(a02,a12,a22,a32),(a03,a13,a23,a33)).
Definition mv44 (A : M44 T) (v : V4 T) : V4 T :=
  let '(r0,r1,r2,r3) := A in (dot4 r0 v, dot4 r1 v, dot4 r2 v, dot4 r3 v).
Definition mmul44 (A B : M44 T) : M44 T :=
  let '(r0,r1,r2,r3) := A in let '(c0,c1,c2,c3) := mtr44 B in
  ((dot4 r0 c0, dot4 r0 c1, dot4 r0 c2, dot4 r0 c3),
   (dot4 r1 c0, dot4 r1 c1, dot4 r1 c2, dot4 r1 c3),
   (dot4 r2 c0, dot4 r2 c1, dot4 r2 c2, dot4 r2 c3),
   (dot4 r3 c0, dot4 r3 c1, dot4 r3 c2, dot4 r3 c3)).
Definition I44 : M44 T := ((1,0,0,0),(0,1,0,0),(0,0,1,0),(0,0,0,1)).

(* homogeneous helpers *)
Definition rt2tr3 (R : M33 T) (t : V3 T) : M44 T :=
  let '((r00,r01,r02),(r10,r11,r12),(r20,r21,r22)) := R in let '(t0,t1,t2) := t in
  ((r00,r01,r02,t0),(r10,r11,r12,t1),(r20,r21,r22,t2),(0,0,0,1)).
Definition t2r3 (A : M44 T) : M33 T :=
  let '((a00,a01,a02,_),(a10,a11,a12,_),(a20,a21,a22,_),_) := A in
  ((a00,a01,a02),(a10,a11,a12),(a20,a21,a22)).
Definition transl3 (A : M44 T) : V3 T :=
  let '((_,_,_,t0),(_,_,_,t1),(_,_,_,t2),_) := A in (t0,t1,t2).
Definition lastrow4 (A : M44 T) : V4 T := let '(_,_,_,r3) := A in r3.
Definition rt2tr2 (R : M22 T) (t : V2 T) : M33 T :=
  let '((r00,r01),(r10,r11)) := R in let '(t0,t1) := t in
  ((r00,r01,t0),(r10,r11,t1),(0,0,1)).
Definition t2r2 (A : M33 T) : M22 T :=
  let '((a00,a01,_),(a10,a11,_),_) := A in ((a00,a01),(a10,a11)).
Definition transl2 (A : M33 T) : V2 T := let '((_,_,t0),(_,_,t1),_) := A in (t0,t1).
Definition lastrow3 (A : M33 T) : V3 T := let '(_,_,r2) := A in r2.

(* ---- 6-vectors / 6x6 ---- *)
Definition dot6 (a b : V6 T) : T :=
  let '(a0,a1,a2,a3,a4,a5) := a in let '(b0,b1,b2,b3,b4,b5) := b in
  a0*b0 + a1*b1 + a2*b2 + a3*b3 + a4*b4 + a5*b5.
Definition mtr66 (A : M66 T) : M66 T :=
  let '((a00,a01,a02,a03,a04,a05),(a10,a11,a12,a13,a14,a15),(a20,a21,a22,a23,a24,a25),
        (a30,a31,a32,a33,a34,a35),(a40,a41,a42,a43,a44,a45),(a50,a51,a52,a53,a54,a55)) := A in
  ((a00,a10,a20,a30,a40,a50),(a01,a11,a21,a31,a41,a51),(a02,a12,a22,a32,a42,a52),
   (a03,a13,a23,a33,a43,a53),(a04,a14,a24,a34,a44,a54),(a05,a15,a25,a35,a45,a55)).
Definition mv66 (A : M66 T) (v : V6 T) : V6 T :=
  let '(r0,r1,r2,r3,r4,r5) := A in (dot6 r0 v, dot6 r1 v, dot6 r2 v, dot6 r3 v, dot6 r4 v, dot6 r5 v).
Definition mmul66 (A B : M66 T) : M66 T :=
  let '(r0,r1,r2,r3,r4,r5) := A in let '(c0,c1,c2,c3,c4,c5) := mtr66 B in
  let row r := (dot6 r c0, dot6 r c1, dot6 r c2, dot6 r c3, dot6 r c4, dot6 r c5) in
  (row r0, row r1, row r2, row r3, row r4, row r5).
Definition I66 : M66 T :=
  ((1,0,0,0,0,0),(0,1,0,0,0,0),(0,0,1,0,0,0),(0,0,0,1,0,0),(0,0,0,0,1,0),(0,0,0,0,0,1)).
(* block matrix [[A, B],[C, D]] of 3x3 blocks *)
Definition block66 (A B C D : M33 T) : M66 T :=
  let '((a00,a01,a02),(a10,a11,a12),(a20,a21,a22)) := A in
  let '((b00,b01,b02),(b10,b11,b12),(b20,b21,b22)) := B in
  let '((c00,c01,c02),(c10,c11,c12),(c20,c21,c22)) := C in
  let '((d00,d01,d02),(d10,d11,d12),(d20,d21,d22)) := D in
  ((a00,a01,a02,b00,b01,b02),(a10,a11,a12,b10,b11,b12),(a20,a21,a22,b20,b21,b22),
   (c00,c01,c02,d00,d01,d02),(c10,c11,c12,d10,d11,d12),(c20,c21,c22,d20,d21,d22)).
Definition v6 (a b : V3 T) : V6 T := let '(a0,a1,a2) := a in let '(b0,b1,b2) := b in (a0,a1,a2,b0,b1,b2).

(* ---- quaternions as V4 (s, x, y, z) ---- *)
Definition qmul (p q : V4 T) : V4 T :=
  let '(s1,x1,y1,z1) := p in let '(s2,x2,y2,z2) := q in
  (s1*s2 - x1*x2 - y1*y2 - z1*z2,
   s1*x2 + x1*s2 + y1*z2 - z1*y2,
   s1*y2 - x1*z2 + y1*s2 + z1*x2,
   s1*z2 + x1*y2 - y1*x2 + z1*s2).
Definition qconj (q : V4 T) : V4 T := let '(s,x,y,z) := q in (s, -x, -y, -z).
Definition qnormsq (q : V4 T) : T := dot4 q q.
Definition qone : V4 T := (1,0,0,0).
Definition qpure (v : V3 T) : V4 T := let '(x,y,z) := v in (0,x,y,z).
Definition qvec (q : V4 T) : V3 T := let '(_,x,y,z) := q in (x,y,z).
Definition q2r_ref (q : V4 T) : M33 T :=
  let '(s,x,y,z) := q in
  ((1 - two*(y*y + z*z), two*(x*y - s*z), two*(x*z + s*y)),
   (two*(x*y + s*z), 1 - two*(x*x + z*z), two*(y*z - s*x)),
   (two*(x*z - s*y), two*(y*z + s*x), 1 - two*(x*x + y*y))).

(* elementary rotations from (cos, sin) *)
Definition rotx_cs (c s : T) : M33 T := ((1,0,0),(0,c,-s),(0,s,c)).
Definition roty_cs (c s : T) : M33 T := ((c,0,s),(0,1,0),(-s,0,c)).
Definition rotz_cs (c s : T) : M33 T := ((c,-s,0),(s,c,0),(0,0,1)).
Definition rot2_cs (c s : T) : M22 T := ((c,-s),(s,c)).
End Lin.

Create HintDb smlin discriminated.
#[export] Hint Unfold two dot2 mv22 mtr22 mmul22 I22 det22 vadd2 vsub2 vscale2 vneg2 dot3 cross3 vadd3 vsub3 vscale3 vneg3 normsq3 norm3 mv33 mtr33 col33 mmul33 I33 Z33 madd33 msub33 mscale33 det33 skew3 vex3 trace33 outer3 dot4 vadd4 vsub4 vscale4 vneg4 mtr44 mv44 mmul44 I44 rt2tr3 t2r3 transl3 lastrow4 rt2tr2 t2r2 transl2 lastrow3 dot6 mtr66 mv66 mmul66 I66 block66 v6 qmul qconj qnormsq qone qpure qvec q2r_ref rotx_cs roty_cs rotz_cs rot2_cs : smlin.
