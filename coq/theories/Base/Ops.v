(* Scalar-generic operations record and the fixed tuple shapes used by every model.
   The same Gallina text is instantiated with Coq's R (theorems) and, after extraction,
   with OCaml floats (correspondence runs). *)
From Coq Require Import ZArith.

Record ops (T : Type) := {
  zero : T; one : T;
  add : T -> T -> T; sub : T -> T -> T; mul : T -> T -> T; div : T -> T -> T;
  neg : T -> T; sqrt_ : T -> T;
  sin_ : T -> T; cos_ : T -> T; tan_ : T -> T;
  acos_ : T -> T; asin_ : T -> T; atan_ : T -> T; atan2_ : T -> T -> T;
  abs_ : T -> T; floor_ : T -> T; exp_ : T -> T; ln_ : T -> T;
  ltb : T -> T -> bool; leb : T -> T -> bool; eqb : T -> T -> bool;
  of_Z : Z -> T;
  eps : T;      (* np.finfo(np.float64).eps = 2^-52 *)
  pi_f : T      (* math.pi *)
}.
Arguments zero {T} _. Arguments one {T} _. Arguments add {T} _ _ _. Arguments sub {T} _ _ _.
Arguments mul {T} _ _ _. Arguments div {T} _ _ _. Arguments neg {T} _ _. Arguments sqrt_ {T} _ _.
Arguments sin_ {T} _ _. Arguments cos_ {T} _ _. Arguments tan_ {T} _ _. Arguments acos_ {T} _ _.
Arguments asin_ {T} _ _. Arguments atan_ {T} _ _. Arguments atan2_ {T} _ _ _. Arguments abs_ {T} _ _.
Arguments floor_ {T} _ _. Arguments exp_ {T} _ _. Arguments ln_ {T} _ _. Arguments ltb {T} _ _ _. Arguments leb {T} _ _ _. Arguments eqb {T} _ _ _.
Arguments of_Z {T} _ _. Arguments eps {T} _. Arguments pi_f {T} _.

(* shapes: nested tuples; (a,b,c) is ((a,b),c) *)
Definition V2 (T : Type) := (T * T)%type.
Definition V3 (T : Type) := (T * T * T)%type.
Definition V4 (T : Type) := (T * T * T * T)%type.
Definition V6 (T : Type) := (T * T * T * T * T * T)%type.
Definition V8 (T : Type) := (T * T * T * T * T * T * T * T)%type.
Definition M22 (T : Type) := (V2 T * V2 T)%type.
Definition M33 (T : Type) := (V3 T * V3 T * V3 T)%type.
Definition M44 (T : Type) := (V4 T * V4 T * V4 T * V4 T)%type.
Definition M66 (T : Type) := (V6 T * V6 T * V6 T * V6 T * V6 T * V6 T)%type.
Definition M88 (T : Type) := (V8 T * V8 T * V8 T * V8 T * V8 T * V8 T * V8 T * V8 T)%type.

Declare Scope sm_scope.
Delimit Scope sm_scope with sm.
