(* C10 -- several objects and iterators at once: ownership of results, and the iteration protocol.

   The single-object model (C10_SMList.v) says what an operation returns and what it does to its receiver.  It cannot say
   that a RESULT is a new object sharing no state with the receiver, nor that two iterations over one object are
   independent.  Here a world is a store of objects plus a store of iterators:
     - every object-valued result (x[i], x[a:b:c], x.pop(), next(it), items of iteration, constructed objects) is stored
       as a NEW object; later operations may address it like any other (spatialmath: `self.__class__(...)` always builds
       a new instance with its own list; Python list: slices and copies are new lists, element reads never alias the list);
     - an iterator is (object, position, alive).  MODEL: collections.abc.Sequence.__iter__, the generator
           i = 0;  try: while True: v = self[i]; yield v; i += 1   except IndexError: return
       SPECIFICATION: CPython's list iterator (listiter_next): position < len -> item, else exhausted for good.
   Tied to /repo by props/C10.py (histories over several live objects and iterators; real list iterators on the list side). *)
From Coq Require Import ZArith List Lia Bool.
From SM Require Import Model.C10_PyList Model.C10_SMList.
Import ListNotations.
Open Scope Z_scope.

Record iterator := mkIt { it_obj : nat; it_idx : Z; it_alive : bool }.
Record world := mkW { objs : list (list Z); its : list iterator }.

Inductive wop :=
  | On (t : nat) (o : op)     (* operation o on object number t *)
  | ItNew (t : nat)           (* it = iter(object t) *)
  | ItNext (j : nat).         (* next(iterator j) *)

Definition set_nth {A} (l : list A) (n : nat) (x : A) : list A := firstn n l ++ x :: skipn (S n) l.

(* x = cls(...) builds a new object; the old one stays as it is *)
Definition is_ctor (o : op) : bool :=
  match o with CtorIter | CtorCopy | CtorFrom _ | Alloc _ | Empty => true | _ => false end.
(* the objects a result consists of (the harness keeps the first two items of a full iteration alive) *)
Definition new_objs (r : res out) : list (list Z) :=
  match r with Ok (Obj ts) => [ts] | Ok (Objs l) => firstn 2 l | _ => [] end.

(* Sequence.__iter__'s generator: self[i], IndexError ends the iteration *)
Definition m_next (st : list Z) (i : Z) : option Z := match py_getitem st i with Ok v => Some v | Raise _ => None end.
(* list iterator *)
Definition s_next (st : list Z) (i : Z) : option Z := if i <? zlen st then Some (znth st i) else None.

Definition wstep (step : list Z -> op -> list Z * res out) (next : list Z -> Z -> option Z)
                 (w : world) (a : wop) : world * res out :=
  match a with
  | On t o =>
      match nth_error (objs w) t with
      | None => (w, Raise TypeError)
      | Some st =>
          let '(st', r) := step st o in
          if is_ctor o then
            match r with
            | Ok _ => (mkW (objs w ++ [st']) (its w), r)
            | Raise _ => (w, r)
            end
          else (mkW (set_nth (objs w) t st' ++ new_objs r) (its w), r)
      end
  | ItNew t =>
      match nth_error (objs w) t with
      | None => (w, Raise TypeError)
      | Some _ => (mkW (objs w) (its w ++ [mkIt t 0 true]), Ok NoneV)
      end
  | ItNext j =>
      match nth_error (its w) j with
      | None => (w, Raise TypeError)
      | Some it =>
          match nth_error (objs w) (it_obj it) with
          | None => (w, Raise TypeError)
          | Some st =>
              if it_alive it then
                match next st (it_idx it) with
                | Some v => (mkW (objs w ++ [[v]]) (set_nth (its w) j (mkIt (it_obj it) (it_idx it + 1) true)), Ok (Obj [v]))
                | None => (mkW (objs w) (set_nth (its w) j (mkIt (it_obj it) (it_idx it) false)), Raise StopIteration)
                end
              else (w, Raise StopIteration)
          end
      end
  end.

Definition wm_step (C : cls) := wstep (m_step C) m_next.
Definition ws_step := wstep s_step s_next.

Fixpoint wrun (f : world -> wop -> world * res out) (w : world) (ops : list wop) : world * list (res out) :=
  match ops with
  | [] => (w, [])
  | a :: r => let '(w', x) := f w a in let '(fin, xs) := wrun f w' r in (fin, x :: xs)
  end.

(* iterator positions never go negative *)
Definition wf (w : world) : Prop := Forall (fun it => 0 <= it_idx it) (its w).

(* ------------------------------------------------------------------ lemmas *)
Lemma next_agree : forall st i, 0 <= i -> m_next st i = s_next st i.
Proof.
  intros st i Hi. unfold m_next, s_next, py_getitem.
  destruct (i <? zlen st) eqn:E; [apply Z.ltb_lt in E | apply Z.ltb_ge in E].
  - rewrite py_index_in_range by lia. reflexivity.
  - destruct (py_index_spec (zlen st) i (zlen_nonneg st)) as [H _].
    destruct (py_index (zlen st) i) as [p|e] eqn:E2; [|reflexivity].
    exfalso. assert (Hr : Ok p = Raise IndexError) by (apply H; lia). discriminate.
Qed.

Lemma set_nth_length {A} : forall (l : list A) n x, (n < length l)%nat -> length (set_nth l n x) = length l.
Proof. intros. unfold set_nth. rewrite app_length, firstn_length. cbn [length]. rewrite skipn_length. lia. Qed.

Lemma set_nth_other {A} : forall (l : list A) n x u, u <> n -> (n < length l)%nat -> nth_error (set_nth l n x) u = nth_error l u.
Proof.
  induction l as [|a l IH]; intros n x u Hu Hn; cbn [length] in Hn; [lia|].
  destruct n as [|n]; destruct u as [|u]; unfold set_nth; cbn [firstn skipn app nth_error]; try reflexivity; try lia.
  apply (IH n x u); lia.
Qed.

Lemma Forall_firstn {A} (P : A -> Prop) : forall n (l : list A), Forall P l -> Forall P (firstn n l).
Proof. induction n; intros l H; [constructor|]. destruct l; [constructor|]. inversion H; subst. constructor; auto. Qed.
Lemma Forall_skipn {A} (P : A -> Prop) : forall n (l : list A), Forall P l -> Forall P (skipn n l).
Proof. induction n; intros l H; [exact H|]. destruct l; [constructor|]. inversion H; subst. cbn. auto. Qed.

Lemma wf_set_nth : forall l j it, Forall (fun it => 0 <= it_idx it) l -> 0 <= it_idx it ->
  Forall (fun it => 0 <= it_idx it) (set_nth l j it).
Proof.
  intros l j it Hl Hit. unfold set_nth. apply Forall_app. split.
  - apply Forall_firstn. exact Hl.
  - constructor; [exact Hit | apply Forall_skipn; exact Hl].
Qed.

Lemma nth_error_Forall {A} (P : A -> Prop) : forall (l : list A) n x, Forall P l -> nth_error l n = Some x -> P x.
Proof. intros l n x H E. apply (proj1 (Forall_forall P l) H). eapply nth_error_In; eauto. Qed.

(* the step preserves well-formedness (either semantics) *)
Lemma wf_step : forall step next w a, wf w -> wf (fst (wstep step next w a)).
Proof.
  intros step next w a H. unfold wf in *. destruct a as [t o|t|j]; cbn [wstep].
  - destruct (nth_error (objs w) t); [|exact H]. destruct (step l o) as [st' r].
    destruct (is_ctor o); [destruct r|]; exact H.
  - destruct (nth_error (objs w) t); [|exact H]. cbn. apply Forall_app. split; [exact H|]. constructor; [cbn; lia|constructor].
  - destruct (nth_error (its w) j) as [it|] eqn:E; [|exact H].
    destruct (nth_error (objs w) (it_obj it)); [|exact H].
    pose proof (nth_error_Forall _ _ _ _ H E) as Hit. cbn in Hit.
    destruct (it_alive it); [|exact H].
    destruct (next l (it_idx it)); cbn; apply wf_set_nth; try exact H; cbn; lia.
Qed.

(* one step: the model world IS the specification world *)
Lemma wstep_refines : forall C w a, wf w -> wm_step C w a = ws_step w a.
Proof.
  intros C w a H. unfold wm_step, ws_step. destruct a as [t o|t|j]; cbn [wstep].
  - destruct (nth_error (objs w) t); [|reflexivity]. rewrite (step_refines C l o). reflexivity.
  - reflexivity.
  - destruct (nth_error (its w) j) as [it|] eqn:E; [|reflexivity].
    destruct (nth_error (objs w) (it_obj it)); [|reflexivity].
    pose proof (nth_error_Forall _ _ _ _ H E) as Hit. cbn in Hit.
    rewrite (next_agree l (it_idx it) Hit). reflexivity.
Qed.

Lemma wrun_refines : forall C ops w, wf w -> wrun (wm_step C) w ops = wrun ws_step w ops.
Proof.
  intros C ops. induction ops as [|a r IH]; intros w H; [reflexivity|].
  cbn [wrun]. rewrite (wstep_refines C w a H).
  pose proof (wf_step s_step s_next w a H) as H'. fold ws_step in H'.
  destruct (ws_step w a) as [w' x]. cbn in H'. rewrite (IH w' H'). reflexivity.
Qed.

(* FRAME: an operation changes no object other than the one it is applied to; iterator operations change no object at all;
   results are NEW objects (appended), so they share nothing with the receiver *)
Definition target (a : wop) : option nat := match a with On t o => if is_ctor o then None else Some t | _ => None end.

Lemma frame : forall step next w a u, (u < length (objs w))%nat -> target a <> Some u ->
  nth_error (objs (fst (wstep step next w a))) u = nth_error (objs w) u.
Proof.
  intros step next w a u Hu Ht. destruct a as [t o|t|j]; cbn [wstep].
  - destruct (nth_error (objs w) t) as [st|] eqn:E; [|reflexivity].
    destruct (step st o) as [st' r]. cbn [target] in Ht.
    destruct (is_ctor o).
    + destruct r; cbn; [apply nth_error_app1; exact Hu | reflexivity].
    + cbn. assert (Htl : (t < length (objs w))%nat) by (apply nth_error_Some; congruence).
      rewrite nth_error_app1 by (rewrite set_nth_length; assumption).
      apply set_nth_other; [congruence | exact Htl].
  - destruct (nth_error (objs w) t); reflexivity.
  - destruct (nth_error (its w) j) as [it|]; [|reflexivity].
    destruct (nth_error (objs w) (it_obj it)); [|reflexivity].
    destruct (it_alive it); [|reflexivity].
    destruct (next l (it_idx it)); cbn; [apply nth_error_app1; exact Hu | reflexivity].
Qed.

(* the number of objects only grows, and an operation that raises leaves every object as it was (model semantics) *)
Lemma objs_grow : forall step next w a, (length (objs w) <= length (objs (fst (wstep step next w a))))%nat.
Proof.
  intros step next w a. destruct a as [t o|t|j]; cbn [wstep].
  - destruct (nth_error (objs w) t) as [st|] eqn:E; [|cbn; lia].
    destruct (step st o) as [st' r].
    assert (Htl : (t < length (objs w))%nat) by (apply nth_error_Some; congruence).
    destruct (is_ctor o); [destruct r; cbn; [rewrite app_length|]; lia|].
    cbn. rewrite app_length, set_nth_length by assumption. lia.
  - destruct (nth_error (objs w) t); cbn; lia.
  - destruct (nth_error (its w) j) as [it|]; [|cbn; lia].
    destruct (nth_error (objs w) (it_obj it)); [|cbn; lia].
    destruct (it_alive it); [|cbn; lia].
    destruct (next l (it_idx it)); cbn; [rewrite app_length|]; lia.
Qed.

(* two iterators over the same object are independent: advancing one does not move the other *)
Lemma iterators_independent : forall step next w j k,
  j <> k -> (j < length (its w))%nat -> nth_error (its (fst (wstep step next w (ItNext j)))) k = nth_error (its w) k.
Proof.
  intros step next w j k Hjk Hj. cbn [wstep].
  destruct (nth_error (its w) j) as [it|]; [|reflexivity].
  destruct (nth_error (objs w) (it_obj it)); [|reflexivity].
  destruct (it_alive it); [|reflexivity].
  destruct (next l (it_idx it)); cbn; apply set_nth_other; auto.
Qed.

(* ------------------------------------------------------------------ encoders and the lock-step runner *)
Definition enc_state (o : option (list Z)) : list Z := match o with Some st => zlen st :: st | None => [-1] end.
Definition wtarget (w : world) (a : wop) : option nat :=
  match a with
  | On t _ => Some t
  | ItNew t => Some t
  | ItNext j => match nth_error (its w) j with Some it => Some (it_obj it) | None => None end
  end.
(* result, state of the addressed object afterwards, number of new objects and their states *)
Definition enc_wstep (w : world) (a : wop) (x : world * res out) : list Z :=
  let w' := fst x in
  let news := skipn (length (objs w)) (objs w') in
  enc_out (snd x)
  ++ enc_state (match wtarget w a with Some t => nth_error (objs w') t | None => None end)
  ++ zlen news :: flat_map (fun st => zlen st :: st) news.

Fixpoint wlockstep (C : cls) (w : world) (ops : list wop) : list (list Z) :=
  match ops with
  | [] => []
  | a :: r => enc_wstep w a (wm_step C w a) :: enc_wstep w a (ws_step w a) :: wlockstep C (fst (ws_step w a)) r
  end.
Definition wstart (n : Z) : world := mkW [iota n] [].
