(* C01 -- fixed lemma library (no dependence on generated files): square-root handling for the
   path conditions of the concolic traces, Rodrigues' formula on a unit axis, the two-vector frame,
   normalisation of a quaternion.  Everything is over Coq's R. *)
From Coq Require Import Reals ZArith Lra Nsatz.
From SM Require Import Base.Ops Base.Lin Base.RInst Base.RLin.
Open Scope R_scope.

(* cos/sin of any argument generalised to a pair (c,s) with c*c+s*s=1 *)
Ltac cs_gen := repeat match goal with
  | |- context [cos ?t] => let H := fresh "Hcs" in pose proof (cs_unit t) as H;
        let c := fresh "c" in let s := fresh "s" in set (c := cos t) in *; set (s := sin t) in *; clearbody c s
  | |- context [sin ?t] => let H := fresh "Hcs" in pose proof (cs_unit t) as H;
        let c := fresh "c" in let s := fresh "s" in set (c := cos t) in *; set (s := sin t) in *; clearbody c s
  end.

(* polynomial membership goals *)
Ltac so_poly := cs_gen; unfold SO3, SO2; repeat split; nsatz.

(* boolean atoms of a path condition -> order facts *)
Ltac pc_facts := repeat match goal with
  | H : _ /\ _ |- _ => destruct H
  | H : Rltb _ _ = true |- _ => apply Rltb_true in H
  | H : Rltb _ _ = false |- _ => apply Rltb_false in H
  | H : Rleb _ _ = true |- _ => apply Rleb_true in H
  | H : Rleb _ _ = false |- _ => apply Rleb_false in H
  | H : Rabs _ < _ |- _ => apply Rabs_def2 in H
  | H : context [Rabs (sqrt ?x)] |- _ => rewrite (Rabs_pos_eq (sqrt x) (sqrt_pos x)) in H
  end.

Lemma sqrt_pos_sq x : 0 < sqrt x -> sqrt x * sqrt x = x /\ sqrt x <> 0 /\ x <> 0 /\ 0 < x.
Proof.
  intros H. destruct (Rle_or_lt x 0) as [Hx|Hx].
  - rewrite (sqrt_neg_0 x Hx) in H. lra.
  - repeat split; try lra. apply sqrt_sqrt; lra.
Qed.

(* name one square root n := sqrt X that the context shows positive; leaves n*n = X, n <> 0, X <> 0 *)
Ltac sqrt_name n :=
  match goal with |- context [sqrt ?X] =>
    let H := fresh "Hpos" in assert (H : 0 < sqrt X) by lra;
    let Hs := fresh "Hsq" in let Hn := fresh "Hnz" in let Hx := fresh "Hxz" in let Hp := fresh "Hxp" in
    destruct (sqrt_pos_sq X H) as (Hs & Hn & Hx & Hp); set (n := sqrt X) in *; clearbody n end.

(* nsatz is disturbed by order / disequality hypotheses and by the [^] that field_simplify_eq introduces *)
Ltac keep_eqs := repeat match goal with H : ?P |- _ =>
  lazymatch P with
  | @eq R _ _ => fail
  | _ => lazymatch type of P with Prop => clear H | _ => fail end
  end end.
Ltac poly_nsatz := cbn [Rpow_def.pow]; keep_eqs; solve [nsatz].

Ltac sqrt_name_hyp n :=
  match goal with _ : context [sqrt ?X] |- _ =>
    let H := fresh "Hpos" in assert (H : 0 < sqrt X) by lra;
    let Hs := fresh "Hsq" in let Hn := fresh "Hnz" in let Hx := fresh "Hxz" in let Hp := fresh "Hxp" in
    destruct (sqrt_pos_sq X H) as (Hs & Hn & Hx & Hp); set (n := sqrt X) in *; clearbody n end.
Ltac sqrt_all := repeat (let n := fresh "n" in sqrt_name n); repeat (let n := fresh "n" in sqrt_name_hyp n).

(* a square root whose argument is identically 1 under the polynomial hypotheses in the context *)
Ltac sqrt_one :=
  match goal with |- context [sqrt ?Y] =>
    let H := fresh "Hone" in
    assert (H : Y = 1) by (solve [ poly_nsatz | field_simplify_eq; [ poly_nsatz | auto ] ]);
    rewrite H in *; rewrite sqrt_1 in * end.

(* name a square root of a quantity the context shows non-negative: n*n = X *)
Ltac sqrt_nonneg n :=
  match goal with |- context [sqrt ?X] =>
    let H := fresh "Hnn" in assert (H : 0 <= X) by lra;
    let Hs := fresh "Hsq" in pose proof (sqrt_sqrt X H) as Hs; set (n := sqrt X) in *; clearbody n end.

(* ---------- Rodrigues' formula  I + s K + (1-c) K^2  on an axis u ---------- *)
Definition rodrigues_cs (u : V3 R) (c s : R) : M33 R :=
  let '(x,y,z) := u in
  ((1 - (1-c)*(y*y+z*z), (1-c)*x*y - s*z, (1-c)*x*z + s*y),
   ((1-c)*x*y + s*z, 1 - (1-c)*(x*x+z*z), (1-c)*y*z - s*x),
   ((1-c)*x*z - s*y, (1-c)*y*z + s*x, 1 - (1-c)*(x*x+y*y))).

Lemma rodrigues_cs_matrix u c s :
  rodrigues_cs u c s = madd33 Rops (madd33 Rops (I33 Rops) (mscale33 Rops s (skew3 Rops u)))
                                   (mscale33 Rops (1-c) (mmul33 Rops (skew3 Rops u) (skew3 Rops u))).
Proof. destruct_tuples. unfold rodrigues_cs. lin_simpl. tuple_eq ltac:(ring). Qed.

Lemma SO3_rodrigues_cs u c s : normsq3 Rops u = 1 -> c*c + s*s = 1 -> SO3 (rodrigues_cs u c s).
Proof.
  intros Hu Hc. destruct_tuples. unfold rodrigues_cs. lin_simpl. unfold SO3. repeat split; nsatz.
Qed.

Lemma unit_of_sqrt (x y z n : R) : n * n = x*x + y*y + z*z -> n <> 0 -> normsq3 Rops (x/n, y/n, z/n) = 1.
Proof. intros H Hn. lin_simpl. field_simplify_eq; [lra | assumption]. Qed.

(* ---------- unit quaternions: polynomial form of  |q| = 1  ---------- *)
Definition UnitQ (q : V4 R) : Prop := let '(a,b,c,d) := q in a*a + b*b + c*c + d*d = 1.
Lemma UnitQ_normsq q : UnitQ q <-> qnormsq Rops q = 1.
Proof. destruct_tuples. unfold UnitQ. lin_simpl. tauto. Qed.
Lemma UnitQ_norm q : UnitQ q -> sqrt (qnormsq Rops q) = 1.
Proof. intros H. apply UnitQ_normsq in H. rewrite H. apply sqrt_1. Qed.
Lemma unit4_of_sqrt (a b c d n : R) : n * n = a*a + b*b + c*c + d*d -> n <> 0 -> UnitQ (a/n, b/n, c/n, d/n).
Proof. intros H Hn. unfold UnitQ. field_simplify_eq; [lra | assumption]. Qed.
Lemma UnitQ_mul p q : UnitQ p -> UnitQ q -> UnitQ (qmul Rops p q).
Proof. intros Hp Hq. destruct_tuples. unfold UnitQ in *. lin_simpl. nsatz. Qed.
Lemma UnitQ_conj q : UnitQ q -> UnitQ (qconj Rops q).
Proof. intros Hq. destruct_tuples. unfold UnitQ in *. lin_simpl. nsatz. Qed.
Lemma UnitQ_one : UnitQ (qone Rops).
Proof. unfold UnitQ. lin_simpl. ring. Qed.
Lemma SO3_of_UnitQ q : UnitQ q -> SO3 (q2r_ref Rops q).
Proof. intros H. apply SO3_q2r. apply UnitQ_normsq. exact H. Qed.

(* ---------- frame from two vectors: columns  n/|n|, o'/|o'|, a/|a|  with n = o x a, o' = a x n ---------- *)
Definition frame_cols (nv ov av : V3 R) (pn po pa : R) : M33 R :=
  let '(n0,n1,n2) := nv in let '(o0,o1,o2) := ov in let '(a0,a1,a2) := av in
  ((n0/pn, o0/po, a0/pa), (n1/pn, o1/po, a1/pa), (n2/pn, o2/po, a2/pa)).

Lemma SO3_of_tr A : SO3 (mtr33 A) -> SO3 A.
Proof. intros H. apply SO3_tr in H. destruct_tuples. exact H. Qed.

(* rows x, z x x, z of a right-handed orthonormal frame *)
Lemma SO3_rows_xz (x z : V3 R) : normsq3 Rops x = 1 -> normsq3 Rops z = 1 -> dot3 Rops x z = 0 ->
  SO3 (x, cross3 Rops z x, z).
Proof. intros Hx Hz Hxz. destruct_tuples. lin_simpl. unfold SO3. repeat split; nsatz. Qed.

Lemma SO3_frame (o a : V3 R) (pn po pa : R) :
  let nv := cross3 Rops o a in let ov := cross3 Rops a nv in
  0 < pn -> 0 < po -> 0 < pa ->
  pn * pn = normsq3 Rops nv -> po * po = normsq3 Rops ov -> pa * pa = normsq3 Rops a ->
  SO3 (frame_cols nv ov a pn po pa).
Proof.
  intros nv ov Hn Ho Ha En Eo Ea. apply SO3_of_tr.
  assert (Hpo : po = pa * pn).
  { assert (E : po * po = (pa * pn) * (pa * pn)).
    { replace ((pa * pn) * (pa * pn)) with ((pa * pa) * (pn * pn)) by ring. rewrite Eo, En, Ea.
      subst nv ov. destruct_tuples. lin_simpl. ring. }
    assert (0 < pa * pn) by (apply Rmult_lt_0_compat; assumption). nra. }
  subst po. assert (Hpn : pn <> 0) by lra. assert (Hpa : pa <> 0) by lra.
  pose (x := vscale3 Rops (/ pn) nv). pose (z := vscale3 Rops (/ pa) a).
  assert (Hx : normsq3 Rops x = 1).
  { subst x nv. destruct_tuples. lin_simpl. lin_simpl. field_simplify_eq; [|assumption].
    unfold normsq3, dot3, cross3 in En. sm_simpl. lra. }
  assert (Hz : normsq3 Rops z = 1).
  { subst z. destruct_tuples. lin_simpl. field_simplify_eq; [|assumption].
    unfold normsq3, dot3 in Ea. sm_simpl. lra. }
  assert (Hxz : dot3 Rops x z = 0).
  { subst x z nv. destruct_tuples. lin_simpl. field_simplify_eq; [ring|auto]. }
  replace (mtr33 (frame_cols nv ov a pn (pa * pn) pa)) with (x, cross3 Rops z x, z).
  - apply SO3_rows_xz; assumption.
  - subst x z ov nv. destruct_tuples. unfold frame_cols. lin_simpl. tuple_eq ltac:(field; auto).
Qed.
