(* C09 -- hand-written model of the sequence-broadcasting helpers of spatialmath-python 0.8.9

     SMUserList.binop   spatialmath/smuserlist.py:462-552
     SMUserList.unop    spatialmath/smuserlist.py:587-625
     SMPose._op2        spatialmath/super_pose.py:1329-1380
     the accessor shapes of pose3d.py / pose2d.py / quaternion.py / twist.py / super_pose.py that branch on
     len(self) == 1

   over [list A] with an ABSTRACT element operation.  The model mirrors the code as it is: the same
   nesting of the tests (first on len(left) == 1, then on the right operand), the same way the result list is
   built (one-element list, bare value, comprehension over right, over left, zip), and the exception the code
   raises.  It is tied to the implementation on every run by props/C09.py, which calls the real helpers with a
   tagging operation on operands of every length 0..6 and compares with [Eval vm_compute] of these definitions.

   No Reals, no axioms. *)
From Coq Require Import List Arith Bool Lia PeanoNat.
Import ListNotations.
Set Implicit Arguments.

(* ------------------------------------------------------------------ Python-side values *)
Inductive exn := ValueError | TypeError | AssertionError | AttributeError | IndexError.

Inductive result (X : Type) := Ok (x : X) | Err (e : exn).
Arguments Ok {X} x.
Arguments Err {X} e.

(* what a helper hands back: a bare element value or a Python list of them.  PNone (a None result) is kept in the type so
   that [to_list] stays partial, but no modelled helper returns it any more (see C09_op2_never_none). *)
Inductive pyval (C : Type) := Bare (c : C) | PList (l : list C) | PNone.
Arguments Bare {C} c.
Arguments PList {C} l.
Arguments PNone {C}.

(* the constructor call  cls(helper(...))  that wraps the helper's value again: a bare value becomes a
   one-element object, a list becomes the object's data (arghandler).  None has no data. *)
Definition to_list {C} (v : pyval C) : option (list C) :=
  match v with Bare c => Some [c] | PList l => Some l | PNone => None end.

(* the right operand of binop/_op2: a scalar, or an object holding a list of values *)
Inductive rhs (B : Type) := Scalar (s : B) | Seq (l : list B).
Arguments Scalar {B} s.
Arguments Seq {B} l.

Section Broadcast.
  Context {A B C : Type} (op : A -> B -> C).

  (* [op(x, y) for (x, y) in zip(l, r)] *)
  Fixpoint zip_with (l : list A) (r : list B) : list C :=
    match l, r with
    | a :: l', b :: r' => op a b :: zip_with l' r'
    | _, _ => []
    end.

  (* SMUserList.binop(left, right, op, list1):
       if len(left) == 1:
           if isscalar(right):      return [op(left._A, right)]       if list1 else op(left.A, right)
           elif len(right) == 1:    return [op(left._A, right._A)]    if list1 else op(left.A, right.A)
           else:                    return [op(left.A, x) for x in right.A]
       else:
           if isscalar(right):      return [op(x, right) for x in left.A]
           elif len(right) == 1:    return [op(x, right.A) for x in left.A]
           elif len(left) == len(right):  return [op(x, y) for (x, y) in zip(left.A, right.A)]
           else:                    raise ValueError
     (.A / ._A of an object is its single value when it holds one, else the list of its values) *)
  Definition binop (list1 : bool) (left : list A) (right : rhs B) : result (pyval C) :=
    match left with
    | [a] =>
        match right with
        | Scalar s => Ok (if list1 then PList [op a s] else Bare (op a s))
        | Seq [b] => Ok (if list1 then PList [op a b] else Bare (op a b))
        | Seq r => Ok (PList (map (fun x => op a x) r))
        end
    | _ =>
        match right with
        | Scalar s => Ok (PList (map (fun x => op x s) left))
        | Seq [b] => Ok (PList (map (fun x => op x b) left))
        | Seq r => if length left =? length r then Ok (PList (zip_with left r)) else Err ValueError
        end
    end.

  (* SMPose._op2(left, right, op).  The right operand is classified by the caller-visible tests
       isinstance(right, left.__class__)                         -> SameClass r
       isscalar(right) or ndarray of the pose's shape            -> Scalar-like (modelled by [Scalar])
       anything else                                             -> raise ValueError('bad operands')
     (since fix 5b6b922; before it the function fell off the end of its if/elif chain and returned None) *)
  Inductive rhs2 := SameClass (r : list B) | ScalarLike (s : B) | Foreign.

  Definition op2 (left : list A) (right : rhs2) : result (pyval C) :=
    match right with
    | SameClass r =>
        match left with
        | [a] =>
            match r with
            | [b] => Ok (Bare (op a b))
            | _ => Ok (PList (map (fun x => op a x) r))
            end
        | _ =>
            match r with
            | [b] => Ok (PList (map (fun x => op x b) left))
            | _ => if length left =? length r then Ok (PList (zip_with left r)) else Err ValueError
            end
        end
    | ScalarLike s =>
        match left with
        | [a] => Ok (Bare (op a s))
        | _ => Ok (PList (map (fun x => op x s) left))
        end
    | Foreign => Err ValueError
    end.
End Broadcast.

Section Unary.
  Context {A C : Type} (f : A -> C).

  (* SMUserList.unop(op, matrix):  [op(x) for x in self.data]   (np.vstack of the same list when matrix=True:
     row i of the stack is element i, checked by the correspondence run) *)
  Definition unop (l : list A) : list C := map f l.

  (* accessor shape 1 (SO3.R, SO2.R, inv, SE3.t, rpy, eul, angvec, det, Quaternion.s/v/vec/norm/matrix/log, SO2.theta, SE2.xyt,
     Twist.S/v/w/se3/isprismatic/isrevolute/isunit/unit/theta/pitch/pole/exp/SE3, UnitQuaternion.R/rpy/eul/angvec/SO3/SE3 ...):
         if len(self) == 1: return f(self.A)   else: return [f(x) for x in self.A] *)
  Definition acc_branch1 (l : list A) : pyval C :=
    match l with [a] => Bare (f a) | _ => PList (map f l) end.

  (* accessor shape 2 (SMPose.log):  r = [f(x) for x in self.data];  return r[0] if len(r) == 1 else r *)
  Definition acc_map_unwrap (l : list A) : pyval C :=
    match map f l with [c] => Bare c | r => PList r end.

  (* accessor shape 3 (conj, UnitQuaternion.inv, Twist.inv, __pow__, norm of poses, unit):
         return cls([f(x) for x in self])  *)
  Definition acc_map (l : list A) : pyval C := PList (map f l).

  (* Two defective shapes were modelled here until the code was repaired (fix round 6): acc_first (Twist3.v/.w/.theta/.pitch/.pole,
     Twist2.v/.w read self.data[0]; fixes 77cb365, a77df5a) and acc_single (SO2.R, angvec, Quaternion.log, UnitQuaternion.SO3()/SE3(),
     Twist.exp()/SE3()/SE2(), isprismatic/isrevolute, unit handed the whole object to a single-value kernel; fixes 42a8032, 3803e60,
     5d38d76, 7b9d842, 3804c67, 98c866c, 4908bfb).  Every one of those methods now has the acc_branch1 shape. *)
End Unary.

Section Interp.
  (* SMPose.interp(s) (super_pose.py:364-434):
        s = getvector(s)
        if len(s) > 1:  assert len(self) == 1;  return cls([interp(self.A, _s) for _s in s])
        else:           return cls([interp(x, s[0]) for x in self.data])
     s is never empty (getvector of a scalar has one element); an empty s takes the else branch and s[0] raises *)
  Context {A S C : Type} (f : A -> S -> C).
  Definition pose_interp (l : list A) (s : list S) : result (list C) :=
    match s with
    | [] => Err IndexError
    | [s0] => Ok (map (fun x => f x s0) l)
    | _ => match l with
           | [a] => Ok (map (fun x => f a x) s)
           | _ => Err AssertionError
           end
    end.
End Interp.

(* ------------------------------------------------------------------ specification side *)
Section Spec.
  Context {A B C : Type} (op : A -> B -> C).

  (* the value an operand contributes to result position i: the lone value when it holds exactly one *)
  Definition pick {X} (i : nat) (l : list X) : option X :=
    match l with [a] => Some a | _ => nth_error l i end.

  Definition pick_rhs (i : nat) (r : rhs B) : option B :=
    match r with Scalar s => Some s | Seq l => pick i l end.

  (* broadcast length: 1 x n -> n, m x 1 -> m, m x m -> m   (for m, n >= 1 this is max m n) *)
  Definition blen (m n : nat) : nat := if m =? 1 then n else m.

  Definition rlen (r : rhs B) : nat := match r with Scalar _ => 1 | Seq l => length l end.

  Definition app2 (x : option A) (y : option B) : option C :=
    match x, y with Some a, Some b => Some (op a b) | _, _ => None end.
End Spec.

(* ------------------------------------------------------------------ lemmas *)
Lemma nth_error_zip_with : forall A B C (op : A -> B -> C) l r i,
  nth_error (zip_with op l r) i = app2 op (nth_error l i) (nth_error r i).
Proof.
  induction l as [|a l IH]; intros [|b r] [|i]; simpl; try reflexivity.
  - destruct (nth_error l i); reflexivity.
  - apply IH.
Qed.

Lemma length_zip_with : forall A B C (op : A -> B -> C) l r,
  length (zip_with op l r) = Nat.min (length l) (length r).
Proof. induction l as [|a l IH]; intros [|b r]; simpl; auto. Qed.

Lemma zip_with_map_combine : forall A B C (op : A -> B -> C) l r,
  zip_with op l r = map (fun p => op (fst p) (snd p)) (combine l r).
Proof. induction l as [|a l IH]; intros [|b r]; simpl; auto. now rewrite IH. Qed.

Lemma pick_single : forall X (a : X) i, pick i [a] = Some a.
Proof. reflexivity. Qed.

Lemma pick_multi : forall X (l : list X) i, length l <> 1 -> pick i l = nth_error l i.
Proof. intros X [|a [|b l]] i H; simpl in *; try reflexivity. lia. Qed.

Lemma nth_error_map' : forall X Y (g : X -> Y) l i, nth_error (map g l) i = option_map g (nth_error l i).
Proof. induction l as [|a l IH]; intros [|i]; simpl; auto. Qed.

(* ------------------------------------------------------------------ histories
   An object is its current list of values: the list mutators of SMUserList change that list and nothing else, and every
   helper / accessor above is a function of the CURRENT list.  (The mutators themselves are property C10's subject; here
   only their effect on the data list matters.)  props/C09.py ties this to the implementation with history cells:
   evaluate, mutate, evaluate again, compare with a fresh object holding the current values. *)
Inductive mutation (A : Type) :=
  | MAppend (a : A) | MExtend (l : list A) | MInsert (i : nat) (a : A) | MPopLast | MPop (i : nat)
  | MReverse | MDel (i : nat) | MSet (i : nat) (a : A).
Arguments MPopLast {A}.
Arguments MPop {A} i.
Arguments MReverse {A}.
Arguments MDel {A} i.

Fixpoint set_nth {A} (i : nat) (a : A) (l : list A) : list A :=
  match l, i with
  | [], _ => []
  | _ :: t, 0 => a :: t
  | h :: t, S i' => h :: set_nth i' a t
  end.

Definition apply_mutation {A} (m : mutation A) (l : list A) : list A :=
  match m with
  | MAppend a => l ++ [a]
  | MExtend e => l ++ e
  | MInsert i a => firstn i l ++ a :: skipn i l
  | MPopLast => removelast l
  | MPop i | MDel i => firstn i l ++ skipn (S i) l
  | MReverse => rev l
  | MSet i a => set_nth i a l
  end.

Definition run_history {A} (h : list (mutation A)) (l : list A) : list A :=
  fold_left (fun acc m => apply_mutation m acc) h l.
