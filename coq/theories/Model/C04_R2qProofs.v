(* Proofs about the hand-written r2q model (Model/C04_R2q.v, the code after /repo 1cdf860):
   for EVERY R in SO(3):  q2r (r2q R) = R,  |r2q R| = 1,  scalar part >= 0.
   - trace > 0: v = k/(4 qs), s = sqrt(1 - v.v)  (lemma r2q_pos_core);
   - trace <= 0: the three "largest diagonal" branches x both signs (Model/C04_R2qCore.v), the scalar part k.v/(4 v.v) equals
     qs because the skew part of q2r(s,v) is 4 s v; the eye() exit is not reachable for a rotation (|kv|^2 >= 4).
   Fixed file (depends on nothing generated). *)
From Coq Require Import Reals ZArith Lra Nsatz Psatz Bool.
From SM Require Import Base.Ops Base.Lin Base.RInst Base.RLin Model.C04_R2q Model.C04_R2qCore.
Open Scope R_scope.

Lemma max0_sqrt t : 0 <= t -> sqrt (if Rltb 0 t then t else 0) = sqrt t.
Proof. intros H. unfold Rltb. destruct (Rlt_dec 0 t); [reflexivity|]. f_equal. lra. Qed.
Lemma max0_nonneg x : 0 <= x -> (if Rltb 0 x then x else 0) = x.
Proof. intros H. unfold Rltb. destruct (Rlt_dec 0 x); lra. Qed.

(* the skew part of q2r(s, v) is 4 s v *)
Lemma skew_of_q2r s x y z a00 a01 a02 a10 a11 a12 a20 a21 a22 :
  q2r_ref Rops (s, x, y, z) = ((a00,a01,a02),(a10,a11,a12),(a20,a21,a22)) ->
  a21 - a12 = 4*s*x /\ a02 - a20 = 4*s*y /\ a10 - a01 = 4*s*z.
Proof. lin_simpl. intros E. injection E; intros; subst. repeat split; ring. Qed.

(* ---------- trace > 0 ---------- *)
Lemma r2q_pos_core a00 a01 a02 a10 a11 a12 a20 a21 a22 (qs d vx vy vz : R) :
  SO3 ((a00,a01,a02),(a10,a11,a12),(a20,a21,a22)) -> 0 < a00 + a11 + a22 ->
  qs = sqrt (a00 + a11 + a22 + 1) / 2 -> d = 4 * qs ->
  vx = (a21 - a12) / d -> vy = (a02 - a20) / d -> vz = (a10 - a01) / d ->
  let s := sqrt (if Rltb 0 (1 - (vx*vx + vy*vy + vz*vz)) then 1 - (vx*vx + vy*vy + vz*vz) else 0) in
  q2r_ref Rops (s, vx, vy, vz) = ((a00,a01,a02),(a10,a11,a12),(a20,a21,a22))
  /\ s*s + vx*vx + vy*vy + vz*vz = 1 /\ 0 <= s.
Proof.
  intros H Htr Eqs Ed Ex Ey Ez s.
  set (t1 := a00 + a11 + a22 + 1) in *.
  assert (Ht1 : 1 < t1) by (unfold t1; lra).
  assert (Hqs : qs*qs = t1/4). { rewrite Eqs. pose proof (sqrt_sqrt t1 ltac:(lra)). nra. }
  assert (Hqs0 : 0 < qs). { rewrite Eqs. pose proof (sqrt_lt_R0 t1 ltac:(lra)). lra. }
  assert (S : (a21 - a12)*(a21 - a12) + (a02 - a20)*(a02 - a20) + (a10 - a01)*(a10 - a01) = t1 * (4 - t1)).
  { unfold t1. clear - H. so3_facts H. nsatz. }
  assert (Hd : d <> 0) by lra.
  assert (Hvv : vx*vx + vy*vy + vz*vz = (4 - t1)/4).
  { rewrite Ex, Ey, Ez.
    replace ((a21 - a12) / d * ((a21 - a12) / d) + (a02 - a20) / d * ((a02 - a20) / d) + (a10 - a01) / d * ((a10 - a01) / d))
      with (((a21 - a12)*(a21 - a12) + (a02 - a20)*(a02 - a20) + (a10 - a01)*(a10 - a01)) / (d*d)) by (field; exact Hd).
    rewrite S, Ed. replace (4 * qs * (4 * qs)) with (16 * (qs*qs)) by ring. rewrite Hqs. field. lra. }
  assert (Hs : s = qs).
  { unfold s. rewrite Hvv. rewrite max0_sqrt by lra. replace (1 - (4 - t1)/4) with (qs*qs) by (rewrite Hqs; field).
    apply sqrt_square. lra. }
  rewrite Hs. split; [|split; [rewrite Hqs; lra | lra]].
  set (f := 1/d).
  replace vx with (f * (a21 - a12)) by (rewrite Ex; unfold f; field; exact Hd).
  replace vy with (f * (a02 - a20)) by (rewrite Ey; unfold f; field; exact Hd).
  replace vz with (f * (a10 - a01)) by (rewrite Ez; unfold f; field; exact Hd).
  assert (Hff : f*f = 1/(4*t1)).
  { unfold f. rewrite Ed. replace (1 / (4 * qs) * (1 / (4 * qs))) with (1 / (16 * (qs*qs))) by (field; lra). rewrite Hqs. field. lra. }
  assert (Hg : qs*f = t1/(4*t1)). { unfold f. rewrite Ed. field. split; lra. }
  rewrite (q2r_scaled qs f _ _ _ _ _ Hff Hg).
  clear Hg Hff Hs Hvv Hd S Hqs0 Hqs Ex Ey Ez Ed Eqs Htr. unfold t1 in *. clear f s t1 vx vy vz d qs.
  so3_facts H.
  tuple_eq ltac:(first [apply diag_div | apply offm_div | apply offp_div]; [lra | nsatz]).
Qed.

(* ---------- trace <= 0: the eye() exit cannot be taken by a rotation ---------- *)
Lemma r2q_kv_lower a00 a01 a02 a10 a11 a12 a20 a21 a22 (e ks dg kx ky kz : R) :
  SO3 ((a00,a01,a02),(a10,a11,a12),(a20,a21,a22)) -> a00 + a11 + a22 <= 0 -> (e = 1 \/ e = -1) -> 0 <= e * ks ->
  (* the identity N = (3 - tr) (tr + 1 + 2 e ks + dg) of the branch, and dg = 1 + 2 a_ii - tr with a_ii the largest diagonal entry *)
  kx*kx + ky*ky + kz*kz = (3 - (a00 + a11 + a22)) * ((a00 + a11 + a22 + 1) + 2*e*ks + dg) ->
  (exists aii, dg = 1 + 2*aii - (a00 + a11 + a22) /\ a00 <= aii /\ a11 <= aii /\ a22 <= aii) ->
  4 <= kx*kx + ky*ky + kz*kz.
Proof.
  intros H Htr He Hs F1 (aii & Edg & M0 & M1 & M2).
  destruct (SO3_trace_bounds _ _ _ _ _ _ _ _ _ H) as [Ht1 _].
  rewrite F1, Edg. clear F1 Edg H He.
  assert (3 * aii >= a00 + a11 + a22) by lra.
  generalize dependent (a00 + a11 + a22). intros tr **.
  assert (A : 3 <= 3 - tr) by lra. assert (B : 4/3 <= tr + 1 + 2 * e * ks + (1 + 2 * aii - tr)) by lra.
  nra.
Qed.

Lemma N_identity0 a00 a01 a02 a10 a11 a12 a20 a21 a22 e :
  SO3 ((a00,a01,a02),(a10,a11,a12),(a20,a21,a22)) -> e*e = 1 ->
  let kx := (a21 - a12) + e*(a00 - a11 - a22 + 1) in let ky := (a02 - a20) + e*(a10 + a01) in let kz := (a10 - a01) + e*(a20 + a02) in
  kx*kx + ky*ky + kz*kz = (3 - (a00 + a11 + a22)) * ((a00 + a11 + a22 + 1) + 2*e*(a21 - a12) + (a00 - a11 - a22 + 1)).
Proof. intros H EE kx ky kz. unfold kx, ky, kz. so3_facts H. nsatz. Qed.
Lemma N_identity1 a00 a01 a02 a10 a11 a12 a20 a21 a22 e :
  SO3 ((a00,a01,a02),(a10,a11,a12),(a20,a21,a22)) -> e*e = 1 ->
  let kx := (a21 - a12) + e*(a10 + a01) in let ky := (a02 - a20) + e*(a11 - a00 - a22 + 1) in let kz := (a10 - a01) + e*(a21 + a12) in
  kx*kx + ky*ky + kz*kz = (3 - (a00 + a11 + a22)) * ((a00 + a11 + a22 + 1) + 2*e*(a02 - a20) + (a11 - a00 - a22 + 1)).
Proof. intros H EE kx ky kz. unfold kx, ky, kz. so3_facts H. nsatz. Qed.
Lemma N_identity2 a00 a01 a02 a10 a11 a12 a20 a21 a22 e :
  SO3 ((a00,a01,a02),(a10,a11,a12),(a20,a21,a22)) -> e*e = 1 ->
  let kx := (a21 - a12) + e*(a20 + a02) in let ky := (a02 - a20) + e*(a21 + a12) in let kz := (a10 - a01) + e*(a22 - a00 - a11 + 1) in
  kx*kx + ky*ky + kz*kz = (3 - (a00 + a11 + a22)) * ((a00 + a11 + a22 + 1) + 2*e*(a10 - a01) + (a22 - a00 - a11 + 1)).
Proof. intros H EE kx ky kz. unfold kx, ky, kz. so3_facts H. nsatz. Qed.

(* ---------- the model function itself ---------- *)
Lemma nonneg_case_scalar (qs kx ky kz vx vy vz : R) :
  0 <= qs -> qs*qs <= /4 -> qs*qs + vx*vx + vy*vy + vz*vz = 1 ->
  kx = 4*qs*vx -> ky = 4*qs*vy -> kz = 4*qs*vz ->
  (if Rltb 0 ((kx*vx + ky*vy + kz*vz) / (4 * (vx*vx + vy*vy + vz*vz))) then (kx*vx + ky*vy + kz*vz) / (4 * (vx*vx + vy*vy + vz*vz)) else 0) = qs.
Proof.
  intros H0 Hq U -> -> ->.
  assert (V : 3/4 <= vx*vx + vy*vy + vz*vz) by lra.
  replace ((4 * qs * vx * vx + 4 * qs * vy * vy + 4 * qs * vz * vz) / (4 * (vx * vx + vy * vy + vz * vz))) with qs by (field; lra).
  apply max0_nonneg. exact H0.
Qed.

(* trace <= 0, one branch: given the branch core (q2r (qs, f kv) = A, unit, qs >= 0) and |kv|^2 >= 4, the model's result is (qs, f kv) *)
Lemma r2q_nonpos_finish a00 a01 a02 a10 a11 a12 a20 a21 a22 (kx ky kz qs : R) :
  let A : M33 R := ((a00,a01,a02),(a10,a11,a12),(a20,a21,a22)) in
  let N := kx*kx + ky*ky + kz*kz in let f := sqrt (1 - qs*qs) / sqrt N in
  a00 + a11 + a22 <= 0 -> 0 <= a00 + a11 + a22 + 1 -> qs = sqrt (a00 + a11 + a22 + 1) / 2 -> 4 <= N ->
  (q2r_ref Rops (qs, f*kx, f*ky, f*kz) = A /\ qs*qs + (f*kx)*(f*kx) + (f*ky)*(f*ky) + (f*kz)*(f*kz) = 1 /\ 0 <= qs) ->
  let q := (if Rltb (Rabs (sqrt N)) (100 * / 4503599627370496) then qone Rops
            else ((if Rltb 0 (((a21 - a12) * (f*kx) + (a02 - a20) * (f*ky) + (a10 - a01) * (f*kz)) / (4 * ((f*kx)*(f*kx) + (f*ky)*(f*ky) + (f*kz)*(f*kz))))
                   then ((a21 - a12) * (f*kx) + (a02 - a20) * (f*ky) + (a10 - a01) * (f*kz)) / (4 * ((f*kx)*(f*kx) + (f*ky)*(f*ky) + (f*kz)*(f*kz))) else 0),
                  f*kx, f*ky, f*kz)) in
  q2r_ref Rops q = A /\ qnormsq Rops q = 1 /\ 0 <= fst (fst (fst q)).
Proof.
  intros A N f Htr Ht1 Eqs HN (E & U & Q0) q.
  assert (ND : Rltb (Rabs (sqrt N)) (100 * / 4503599627370496) = false).
  { apply Rltb_false. assert (2 <= sqrt N). { rewrite <- (sqrt_square 2) by lra. apply sqrt_le_1_alt. lra. }
    rewrite Rabs_right by lra. lra. }
  assert (Hq : qs*qs <= /4). { rewrite Eqs. pose proof (sqrt_sqrt _ Ht1). nra. }
  destruct (skew_of_q2r _ _ _ _ _ _ _ _ _ _ _ _ _ E) as (K1 & K2 & K3).
  unfold q. rewrite ND.
  rewrite (nonneg_case_scalar qs _ _ _ (f*kx) (f*ky) (f*kz) Q0 Hq); try assumption; try lra.
  split; [exact E|]. unfold qnormsq, dot4. cbn [add mul Rops fst]. split; [lra | exact Q0].
Qed.
Ltac r2q_branch_tac e core NI ks dg aii :=
  match goal with H : SO3 _, Htr : _ + _ + _ <= 0, Ht1 : 0 <= _, Eqs : _ = sqrt _ / 2,
                  Ex : _ = ?kx, Ey : _ = ?ky, Ez : _ = ?kz |- _ =>
    let HN4 := fresh "HN4" in
    assert (HN4 : 4 <= kx*kx + ky*ky + kz*kz);
    [ apply (r2q_kv_lower _ _ _ _ _ _ _ _ _ e ks dg kx ky kz H Htr);
      [ first [left; reflexivity | right; reflexivity] | lra
      | rewrite <- (NI _ _ _ _ _ _ _ _ _ e H ltac:(ring)); rewrite <- Ex, <- Ey, <- Ez; ring
      | exists aii; repeat split; lra ]
    | apply (r2q_nonpos_finish _ _ _ _ _ _ _ _ _ kx ky kz _ Htr Ht1 Eqs HN4);
      eapply (core _ _ _ _ _ _ _ _ _ e); try exact H; try exact Eqs; try reflexivity;
      try solve [first [left; reflexivity | right; reflexivity]]; try lra; try (rewrite <- ?Ex, <- ?Ey, <- ?Ez; ring) ]
  end.

Lemma r2q_roundtrip_entries a00 a01 a02 a10 a11 a12 a20 a21 a22 :
  let A : M33 R := ((a00,a01,a02),(a10,a11,a12),(a20,a21,a22)) in
  SO3 A ->
  q2r_ref Rops (r2q_100 Rops A) = A /\ qnormsq Rops (r2q_100 Rops A) = 1 /\ 0 <= fst (fst (fst (r2q_100 Rops A))).
Proof.
  intros A H. unfold r2q_100, r2q. cbn [of_Z Rops].
  destruct (SO3_trace_bounds _ _ _ _ _ _ _ _ _ H) as [Ht1 _].
  assert (Eqs : r2q_s Rops A = sqrt (a00 + a11 + a22 + 1) / 2).
  { unfold r2q_s, A. lin_simpl. rewrite max0_sqrt by exact Ht1. f_equal. }
  unfold r2q_k, A at 1. cbn [sub Rops].
  destruct (r2q_trpos Rops A) eqn:TP.
  - unfold r2q_trpos, A in TP. cbn [ltb add Rops] in TP. apply Rltb_true in TP.
    unfold qnormsq, dot4, max0. cbn [add sub mul div one zero sqrt_ ltb Rops fst].
    eapply r2q_pos_core; try exact H; try exact Eqs; try reflexivity; try (cbn [zero Rops] in TP; lra).
  - unfold r2q_trpos, A in TP. cbn [ltb add Rops] in TP. apply Rltb_false in TP.
    cbn [zero Rops] in TP. assert (Htr : a00 + a11 + a22 <= 0) by lra.
    destruct (r2q_kv Rops A) as [[kx ky] kz] eqn:Ekv.
    unfold r2q_degenerate. rewrite Ekv. unfold norm3, normsq3, dot3, max0.
    cbn [ltb abs_ add sub mul div one zero sqrt_ eps Rops].
    generalize dependent (r2q_s Rops A). intros qs Eqs.
    unfold r2q_kv, r2q_add, r2q_branch, A in Ekv. cbn [leb add sub mul one zero Rops] in Ekv.
    destruct (Rleb a11 a00 && Rleb a22 a00) eqn:B0; [|destruct (Rleb a22 a11) eqn:B1].
    + apply andb_true_iff in B0. destruct B0 as [B01 B02]. apply Rleb_true in B01. apply Rleb_true in B02.
      destruct (Rleb 0 (a21 - a12)) eqn:S; injection Ekv as Ex Ey Ez; [apply Rleb_true in S | apply Rleb_false in S].
      * r2q_branch_tac 1 r2q_branch0_core N_identity0 (a21 - a12) (a00 - a11 - a22 + 1) a00.
      * r2q_branch_tac (-1) r2q_branch0_core N_identity0 (a21 - a12) (a00 - a11 - a22 + 1) a00.
    + apply andb_false_iff in B0. apply Rleb_true in B1.
      assert (M : a00 <= a11) by (destruct B0 as [B0|B0]; apply Rleb_false in B0; lra).
      destruct (Rleb 0 (a02 - a20)) eqn:S; injection Ekv as Ex Ey Ez; [apply Rleb_true in S | apply Rleb_false in S].
      * r2q_branch_tac 1 r2q_branch1_core N_identity1 (a02 - a20) (a11 - a00 - a22 + 1) a11.
      * r2q_branch_tac (-1) r2q_branch1_core N_identity1 (a02 - a20) (a11 - a00 - a22 + 1) a11.
    + apply andb_false_iff in B0. apply Rleb_false in B1.
      assert (M : a00 <= a22) by (destruct B0 as [B0|B0]; apply Rleb_false in B0; lra).
      destruct (Rleb 0 (a10 - a01)) eqn:S; injection Ekv as Ex Ey Ez; [apply Rleb_true in S | apply Rleb_false in S].
      * r2q_branch_tac 1 r2q_branch2_core N_identity2 (a10 - a01) (a22 - a00 - a11 + 1) a22.
      * r2q_branch_tac (-1) r2q_branch2_core N_identity2 (a10 - a01) (a22 - a00 - a11 + 1) a22.
Qed.

Theorem r2q_roundtrip (A : M33 R) : SO3 A ->
  q2r_ref Rops (r2q_100 Rops A) = A /\ qnormsq Rops (r2q_100 Rops A) = 1 /\ 0 <= fst (fst (fst (r2q_100 Rops A))).
Proof. intros H. destruct_tuples. apply r2q_roundtrip_entries; assumption. Qed.

(* the eye() exit is dead code for rotations: it is only reachable when trace <= 0, where |kv|^2 >= 4 *)
Theorem r2q_degenerate_unreachable (A : M33 R) : SO3 A -> r2q_trpos Rops A = false -> r2q_degenerate Rops (IZR 100) A = false.
Proof.
  intros H TP. destruct (r2q_degenerate Rops (IZR 100) A) eqn:D; [|reflexivity]. exfalso.
  destruct (r2q_roundtrip A H) as (E & U & _). unfold r2q_100, r2q in *. cbn [of_Z Rops] in *. rewrite TP, D in *.
  destruct (r2q_k Rops A) as [[kx ky] kz].
  (* the result would be the identity quaternion, so A = I, whose trace is 3 > 0 *)
  destruct_tuples. unfold r2q_trpos in TP. cbn [ltb add Rops zero] in TP. apply Rltb_false in TP.
  lin_simpl. injection E; intros; subst. lra.
Qed.
