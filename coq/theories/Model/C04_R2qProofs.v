(* Proofs about the hand-written r2q model (Model/C04_R2q.v): for every R in SO(3) on which r2q does not take its
   degenerate exit, q2r (r2q R) = R -- all three "largest diagonal" branches and both signs; the result is a unit
   quaternion with non-negative scalar part.  Fixed file (depends on nothing generated). *)
From Coq Require Import Reals ZArith Lra Nsatz Psatz Bool.
From SM Require Import Base.Ops Base.Lin Base.RInst Base.RLin Model.C04_R2q.
Open Scope R_scope.

Lemma SO3_trace_bounds a00 a01 a02 a10 a11 a12 a20 a21 a22 :
  SO3 ((a00,a01,a02),(a10,a11,a12),(a20,a21,a22)) -> 0 <= a00 + a11 + a22 + 1 /\ a00 + a11 + a22 <= 3.
Proof.
  intros H.
  assert (S : (a21 - a12)*(a21 - a12) + (a02 - a20)*(a02 - a20) + (a10 - a01)*(a10 - a01) = (a00 + a11 + a22 + 1) * (3 - (a00 + a11 + a22))).
  { so3_facts H. nsatz. }
  unfold SO3 in H. destruct H as (H1&H2&H3&_).
  assert (D0 : a00 <= 1) by nra. assert (D1 : a11 <= 1) by nra. assert (D2 : a22 <= 1) by nra.
  clear H1 H2 H3. split; [|lra].
  destruct (Req_dec (a00 + a11 + a22) 3) as [E|E]; [lra|].
  assert (P : 0 < 3 - (a00 + a11 + a22)) by lra.
  pose proof (Rle_0_sqr (a21 - a12)) as Q1. pose proof (Rle_0_sqr (a02 - a20)) as Q2. pose proof (Rle_0_sqr (a10 - a01)) as Q3.
  unfold Rsqr in *.
  assert (Q : 0 <= (a00 + a11 + a22 + 1) * (3 - (a00 + a11 + a22))) by lra.
  clear S Q1 Q2 Q3. generalize dependent (a00 + a11 + a22). intros. nra.
Qed.

Lemma q2r_scaled (s f kx ky kz a g : R) : f*f = a -> s*f = g ->
  q2r_ref Rops (s, f*kx, f*ky, f*kz) =
  ((1 - 2*a*(ky*ky + kz*kz), 2*(a*kx*ky - g*kz), 2*(a*kx*kz + g*ky)),
   (2*(a*kx*ky + g*kz), 1 - 2*a*(kx*kx + kz*kz), 2*(a*ky*kz - g*kx)),
   (2*(a*kx*kz - g*ky), 2*(a*ky*kz + g*kx), 1 - 2*a*(kx*kx + ky*ky))).
Proof. intros Ha Hg. subst a g. lin_simpl. tuple_eq ltac:(ring). Qed.

Lemma diag_div D X a : D <> 0 -> 2*D - X = 2*D*a -> 1 - 2*(1/(4*D))*X = a.
Proof. intros HD H. apply (Rmult_eq_reg_l (2*D)); [|lra]. rewrite <- H. field. lra. Qed.
Lemma offm_div D P Q G Z a : D <> 0 -> P*Q - G*Z = 2*D*a -> 2*(1/(4*D)*P*Q - G/(4*D)*Z) = a.
Proof. intros HD H. apply (Rmult_eq_reg_l (2*D)); [|lra]. rewrite <- H. field. lra. Qed.
Lemma offp_div D P Q G Z a : D <> 0 -> P*Q + G*Z = 2*D*a -> 2*(1/(4*D)*P*Q + G/(4*D)*Z) = a.
Proof. intros HD H. apply (Rmult_eq_reg_l (2*D)); [|lra]. rewrite <- H. field. lra. Qed.
Lemma sq_eq_nonneg x y : 0 <= x -> 0 <= y -> x*x = y*y -> x = y.
Proof. intros. nra. Qed.

(* One lemma per "largest diagonal" branch; e = +1 is the `add` case, e = -1 the subtract case.
   With the hidden quaternion (s,x,y,z) of R: branch 0 has k = 4(s + e x)(x,y,z), D = 4(s + e x)^2. *)

Lemma r2q_branch0_core a00 a01 a02 a10 a11 a12 a20 a21 a22 (e kx ky kz qs f : R) :
  SO3 ((a00,a01,a02),(a10,a11,a12),(a20,a21,a22)) -> (e = 1 \/ e = -1) -> 0 <= e * (a21 - a12) ->
  kx = (a21 - a12) + e*(a00 - a11 - a22 + 1) -> ky = (a02 - a20) + e*(a10 + a01) -> kz = (a10 - a01) + e*(a20 + a02) ->
  0 < kx*kx + ky*ky + kz*kz ->
  qs = sqrt (a00 + a11 + a22 + 1) / 2 -> f = sqrt (1 - qs*qs) / sqrt (kx*kx + ky*ky + kz*kz) ->
  q2r_ref Rops (qs, f*kx, f*ky, f*kz) = ((a00,a01,a02),(a10,a11,a12),(a20,a21,a22))
  /\ qs*qs + (f*kx)*(f*kx) + (f*ky)*(f*ky) + (f*kz)*(f*kz) = 1 /\ 0 <= qs.
Proof.
  intros H He Hs Ekx Eky Ekz HN Eqs Ef.
  set (t1 := a00 + a11 + a22 + 1) in *. set (N := kx*kx + ky*ky + kz*kz) in *.
  destruct (SO3_trace_bounds _ _ _ _ _ _ _ _ _ H) as [Ht1 Ht3]. fold t1 in Ht1.
  assert (Hqs : qs*qs = t1/4). { rewrite Eqs. pose proof (sqrt_sqrt t1 Ht1). nra. }
  assert (Hqs0 : 0 <= qs). { rewrite Eqs. pose proof (sqrt_pos t1). lra. }
  pose (D := t1 + 2*e*(a21 - a12) + (a00 - a11 - a22 + 1)).
  assert (EE : e*e = 1) by (destruct He; subst e; ring).
  assert (F1 : N = (4 - t1) * D). { unfold N, D, t1. rewrite Ekx, Eky, Ekz. clear - H EE. so3_facts H. nsatz. }
  assert (F2 : t1 * (a00 - a11 - a22 + 1) = (a21 - a12)*(a21 - a12)). { unfold t1. clear - H. so3_facts H. nsatz. }
  assert (H4 : 0 <= 4 - t1) by (unfold t1; lra).
  assert (HD : 0 < D /\ 0 < 4 - t1).
  { destruct (Req_dec (4 - t1) 0) as [E|E]. rewrite E in F1. lra.
    assert (0 < 4 - t1) by lra. split; [|assumption]. rewrite F1 in HN. nra. }
  destruct HD as [HD H4'].
  assert (Hsn : sqrt N * sqrt N = N) by (apply sqrt_sqrt; lra).
  assert (Hsn0 : 0 < sqrt N) by (apply sqrt_lt_R0; assumption).
  assert (H1q : 0 <= 1 - qs*qs) by lra.
  assert (Hff : f*f = 1/(4*D)).
  { rewrite Ef. pose proof (sqrt_sqrt _ H1q) as E1.
    replace (sqrt (1 - qs*qs) / sqrt N * (sqrt (1 - qs*qs) / sqrt N)) with ((sqrt (1 - qs*qs) * sqrt (1 - qs*qs)) / (sqrt N * sqrt N)) by (field; lra).
    rewrite E1, Hsn, Hqs, F1. field. lra. }
  assert (Hf0 : 0 <= f). { rewrite Ef. pose proof (sqrt_pos (1 - qs*qs)). apply Rmult_le_pos; [assumption|]. left. apply Rinv_0_lt_compat. assumption. }
  assert (Hg : qs*f = (t1 + e*(a21 - a12))/(4*D)).
  { apply sq_eq_nonneg.
    - apply Rmult_le_pos; assumption.
    - apply Rmult_le_pos; [lra|]. left. apply Rinv_0_lt_compat. lra.
    - replace (qs*f*(qs*f)) with ((qs*qs)*(f*f)) by ring. rewrite Hqs, Hff.
      assert (G : (t1 + e*(a21 - a12))*(t1 + e*(a21 - a12)) = t1 * D). { unfold D. clear - EE F2. clearbody t1. nsatz. }
      replace ((t1 + e * (a21 - a12)) / (4 * D) * ((t1 + e * (a21 - a12)) / (4 * D))) with (((t1 + e*(a21 - a12))*(t1 + e*(a21 - a12))) / (16*D*D)) by (field; lra).
      rewrite G. field. lra. }
  split; [|split; [|exact Hqs0]].
  2:{ replace (qs*qs + f*kx*(f*kx) + f*ky*(f*ky) + f*kz*(f*kz)) with (qs*qs + (f*f)*N) by (unfold N; ring).
      rewrite Hff, Hqs, F1. field. lra. }
  rewrite (q2r_scaled qs f kx ky kz _ _ Hff Hg).
  clear Hg Hff Hf0 H1q Hsn0 Hsn Hqs Hqs0 HN Ht1 Ht3 H4 H4' F1 F2 Hs EE Eqs Ef.
  subst kx ky kz. unfold D, t1 in *. clear t1 N D qs f.
  destruct He; subst e; so3_facts H;
  tuple_eq ltac:(first [apply diag_div | apply offm_div | apply offp_div]; [lra | nsatz]).
Qed.

Lemma r2q_branch1_core a00 a01 a02 a10 a11 a12 a20 a21 a22 (e kx ky kz qs f : R) :
  SO3 ((a00,a01,a02),(a10,a11,a12),(a20,a21,a22)) -> (e = 1 \/ e = -1) -> 0 <= e * (a02 - a20) ->
  kx = (a21 - a12) + e*(a10 + a01) -> ky = (a02 - a20) + e*(a11 - a00 - a22 + 1) -> kz = (a10 - a01) + e*(a21 + a12) ->
  0 < kx*kx + ky*ky + kz*kz ->
  qs = sqrt (a00 + a11 + a22 + 1) / 2 -> f = sqrt (1 - qs*qs) / sqrt (kx*kx + ky*ky + kz*kz) ->
  q2r_ref Rops (qs, f*kx, f*ky, f*kz) = ((a00,a01,a02),(a10,a11,a12),(a20,a21,a22))
  /\ qs*qs + (f*kx)*(f*kx) + (f*ky)*(f*ky) + (f*kz)*(f*kz) = 1 /\ 0 <= qs.
Proof.
  intros H He Hs Ekx Eky Ekz HN Eqs Ef.
  set (t1 := a00 + a11 + a22 + 1) in *. set (N := kx*kx + ky*ky + kz*kz) in *.
  destruct (SO3_trace_bounds _ _ _ _ _ _ _ _ _ H) as [Ht1 Ht3]. fold t1 in Ht1.
  assert (Hqs : qs*qs = t1/4). { rewrite Eqs. pose proof (sqrt_sqrt t1 Ht1). nra. }
  assert (Hqs0 : 0 <= qs). { rewrite Eqs. pose proof (sqrt_pos t1). lra. }
  pose (D := t1 + 2*e*(a02 - a20) + (a11 - a00 - a22 + 1)).
  assert (EE : e*e = 1) by (destruct He; subst e; ring).
  assert (F1 : N = (4 - t1) * D). { unfold N, D, t1. rewrite Ekx, Eky, Ekz. clear - H EE. so3_facts H. nsatz. }
  assert (F2 : t1 * (a11 - a00 - a22 + 1) = (a02 - a20)*(a02 - a20)). { unfold t1. clear - H. so3_facts H. nsatz. }
  assert (H4 : 0 <= 4 - t1) by (unfold t1; lra).
  assert (HD : 0 < D /\ 0 < 4 - t1).
  { destruct (Req_dec (4 - t1) 0) as [E|E]. rewrite E in F1. lra.
    assert (0 < 4 - t1) by lra. split; [|assumption]. rewrite F1 in HN. nra. }
  destruct HD as [HD H4'].
  assert (Hsn : sqrt N * sqrt N = N) by (apply sqrt_sqrt; lra).
  assert (Hsn0 : 0 < sqrt N) by (apply sqrt_lt_R0; assumption).
  assert (H1q : 0 <= 1 - qs*qs) by lra.
  assert (Hff : f*f = 1/(4*D)).
  { rewrite Ef. pose proof (sqrt_sqrt _ H1q) as E1.
    replace (sqrt (1 - qs*qs) / sqrt N * (sqrt (1 - qs*qs) / sqrt N)) with ((sqrt (1 - qs*qs) * sqrt (1 - qs*qs)) / (sqrt N * sqrt N)) by (field; lra).
    rewrite E1, Hsn, Hqs, F1. field. lra. }
  assert (Hf0 : 0 <= f). { rewrite Ef. pose proof (sqrt_pos (1 - qs*qs)). apply Rmult_le_pos; [assumption|]. left. apply Rinv_0_lt_compat. assumption. }
  assert (Hg : qs*f = (t1 + e*(a02 - a20))/(4*D)).
  { apply sq_eq_nonneg.
    - apply Rmult_le_pos; assumption.
    - apply Rmult_le_pos; [lra|]. left. apply Rinv_0_lt_compat. lra.
    - replace (qs*f*(qs*f)) with ((qs*qs)*(f*f)) by ring. rewrite Hqs, Hff.
      assert (G : (t1 + e*(a02 - a20))*(t1 + e*(a02 - a20)) = t1 * D). { unfold D. clear - EE F2. clearbody t1. nsatz. }
      replace ((t1 + e * (a02 - a20)) / (4 * D) * ((t1 + e * (a02 - a20)) / (4 * D))) with (((t1 + e*(a02 - a20))*(t1 + e*(a02 - a20))) / (16*D*D)) by (field; lra).
      rewrite G. field. lra. }
  split; [|split; [|exact Hqs0]].
  2:{ replace (qs*qs + f*kx*(f*kx) + f*ky*(f*ky) + f*kz*(f*kz)) with (qs*qs + (f*f)*N) by (unfold N; ring).
      rewrite Hff, Hqs, F1. field. lra. }
  rewrite (q2r_scaled qs f kx ky kz _ _ Hff Hg).
  clear Hg Hff Hf0 H1q Hsn0 Hsn Hqs Hqs0 HN Ht1 Ht3 H4 H4' F1 F2 Hs EE Eqs Ef.
  subst kx ky kz. unfold D, t1 in *. clear t1 N D qs f.
  destruct He; subst e; so3_facts H;
  tuple_eq ltac:(first [apply diag_div | apply offm_div | apply offp_div]; [lra | nsatz]).
Qed.

Lemma r2q_branch2_core a00 a01 a02 a10 a11 a12 a20 a21 a22 (e kx ky kz qs f : R) :
  SO3 ((a00,a01,a02),(a10,a11,a12),(a20,a21,a22)) -> (e = 1 \/ e = -1) -> 0 <= e * (a10 - a01) ->
  kx = (a21 - a12) + e*(a20 + a02) -> ky = (a02 - a20) + e*(a21 + a12) -> kz = (a10 - a01) + e*(a22 - a00 - a11 + 1) ->
  0 < kx*kx + ky*ky + kz*kz ->
  qs = sqrt (a00 + a11 + a22 + 1) / 2 -> f = sqrt (1 - qs*qs) / sqrt (kx*kx + ky*ky + kz*kz) ->
  q2r_ref Rops (qs, f*kx, f*ky, f*kz) = ((a00,a01,a02),(a10,a11,a12),(a20,a21,a22))
  /\ qs*qs + (f*kx)*(f*kx) + (f*ky)*(f*ky) + (f*kz)*(f*kz) = 1 /\ 0 <= qs.
Proof.
  intros H He Hs Ekx Eky Ekz HN Eqs Ef.
  set (t1 := a00 + a11 + a22 + 1) in *. set (N := kx*kx + ky*ky + kz*kz) in *.
  destruct (SO3_trace_bounds _ _ _ _ _ _ _ _ _ H) as [Ht1 Ht3]. fold t1 in Ht1.
  assert (Hqs : qs*qs = t1/4). { rewrite Eqs. pose proof (sqrt_sqrt t1 Ht1). nra. }
  assert (Hqs0 : 0 <= qs). { rewrite Eqs. pose proof (sqrt_pos t1). lra. }
  pose (D := t1 + 2*e*(a10 - a01) + (a22 - a00 - a11 + 1)).
  assert (EE : e*e = 1) by (destruct He; subst e; ring).
  assert (F1 : N = (4 - t1) * D). { unfold N, D, t1. rewrite Ekx, Eky, Ekz. clear - H EE. so3_facts H. nsatz. }
  assert (F2 : t1 * (a22 - a00 - a11 + 1) = (a10 - a01)*(a10 - a01)). { unfold t1. clear - H. so3_facts H. nsatz. }
  assert (H4 : 0 <= 4 - t1) by (unfold t1; lra).
  assert (HD : 0 < D /\ 0 < 4 - t1).
  { destruct (Req_dec (4 - t1) 0) as [E|E]. rewrite E in F1. lra.
    assert (0 < 4 - t1) by lra. split; [|assumption]. rewrite F1 in HN. nra. }
  destruct HD as [HD H4'].
  assert (Hsn : sqrt N * sqrt N = N) by (apply sqrt_sqrt; lra).
  assert (Hsn0 : 0 < sqrt N) by (apply sqrt_lt_R0; assumption).
  assert (H1q : 0 <= 1 - qs*qs) by lra.
  assert (Hff : f*f = 1/(4*D)).
  { rewrite Ef. pose proof (sqrt_sqrt _ H1q) as E1.
    replace (sqrt (1 - qs*qs) / sqrt N * (sqrt (1 - qs*qs) / sqrt N)) with ((sqrt (1 - qs*qs) * sqrt (1 - qs*qs)) / (sqrt N * sqrt N)) by (field; lra).
    rewrite E1, Hsn, Hqs, F1. field. lra. }
  assert (Hf0 : 0 <= f). { rewrite Ef. pose proof (sqrt_pos (1 - qs*qs)). apply Rmult_le_pos; [assumption|]. left. apply Rinv_0_lt_compat. assumption. }
  assert (Hg : qs*f = (t1 + e*(a10 - a01))/(4*D)).
  { apply sq_eq_nonneg.
    - apply Rmult_le_pos; assumption.
    - apply Rmult_le_pos; [lra|]. left. apply Rinv_0_lt_compat. lra.
    - replace (qs*f*(qs*f)) with ((qs*qs)*(f*f)) by ring. rewrite Hqs, Hff.
      assert (G : (t1 + e*(a10 - a01))*(t1 + e*(a10 - a01)) = t1 * D). { unfold D. clear - EE F2. clearbody t1. nsatz. }
      replace ((t1 + e * (a10 - a01)) / (4 * D) * ((t1 + e * (a10 - a01)) / (4 * D))) with (((t1 + e*(a10 - a01))*(t1 + e*(a10 - a01))) / (16*D*D)) by (field; lra).
      rewrite G. field. lra. }
  split; [|split; [|exact Hqs0]].
  2:{ replace (qs*qs + f*kx*(f*kx) + f*ky*(f*ky) + f*kz*(f*kz)) with (qs*qs + (f*f)*N) by (unfold N; ring).
      rewrite Hff, Hqs, F1. field. lra. }
  rewrite (q2r_scaled qs f kx ky kz _ _ Hff Hg).
  clear Hg Hff Hf0 H1q Hsn0 Hsn Hqs Hqs0 HN Ht1 Ht3 H4 H4' F1 F2 Hs EE Eqs Ef.
  subst kx ky kz. unfold D, t1 in *. clear t1 N D qs f.
  destruct He; subst e; so3_facts H;
  tuple_eq ltac:(first [apply diag_div | apply offm_div | apply offp_div]; [lra | nsatz]).
Qed.

(* ---------- the model function itself ---------- *)
Lemma sqrt_pos_arg x c : 0 < c -> ~ Rabs (sqrt x) < c -> 0 < x.
Proof.
  intros Hc H. destruct (Rle_or_lt x 0) as [L|L]; [|exact L].
  exfalso. apply H. rewrite (sqrt_neg_0 x L), Rabs_R0. exact Hc.
Qed.

Lemma max0_sqrt t : 0 <= t -> sqrt (if Rltb 0 t then t else 0) = sqrt t.
Proof. intros H. unfold Rltb. destruct (Rlt_dec 0 t); [reflexivity|]. f_equal. lra. Qed.

Lemma r2q_roundtrip_entries a00 a01 a02 a10 a11 a12 a20 a21 a22 :
  let A : M33 R := ((a00,a01,a02),(a10,a11,a12),(a20,a21,a22)) in
  SO3 A -> r2q_degenerate Rops (IZR 100) A = false ->
  q2r_ref Rops (r2q_100 Rops A) = A /\ qnormsq Rops (r2q_100 Rops A) = 1 /\ 0 <= fst (fst (fst (r2q_100 Rops A))).
Proof.
  intros A H Hd. unfold r2q_100, r2q. cbn [of_Z Rops]. rewrite Hd.
  destruct (SO3_trace_bounds _ _ _ _ _ _ _ _ _ H) as [Ht1 _].
  unfold r2q_degenerate in Hd. cbn [ltb abs_ mul eps Rops] in Hd. apply Rltb_false in Hd.
  unfold norm3, normsq3 in *. cbn [sqrt_ Rops] in *.
  destruct (r2q_kv Rops A) as [[kx ky] kz] eqn:Ekv.
  assert (HN : 0 < kx*kx + ky*ky + kz*kz).
  { apply (sqrt_pos_arg _ (100 * / 4503599627370496)); [lra|]. exact Hd. }
  assert (Eqs : r2q_s Rops A = sqrt (a00 + a11 + a22 + 1) / 2).
  { unfold r2q_s, A. lin_simpl. rewrite max0_sqrt by exact Ht1. f_equal. }
  unfold qnormsq, dot4, dot3 in *. cbn [add sub mul div one zero Rops fst] in *.
  unfold r2q_kv, r2q_add, r2q_branch, A in Ekv. cbn [leb add sub mul one zero Rops] in Ekv.
  destruct (Rleb a11 a00 && Rleb a22 a00) eqn:B0; [|destruct (Rleb a22 a11) eqn:B1].
  - destruct (Rleb 0 (a21 - a12)) eqn:S; injection Ekv as <- <- <-;
    [apply Rleb_true in S | apply Rleb_false in S].
    + eapply (r2q_branch0_core _ _ _ _ _ _ _ _ _ 1); try exact H; try exact Eqs; try reflexivity; try lra.
    + eapply (r2q_branch0_core _ _ _ _ _ _ _ _ _ (-1)); try exact H; try exact Eqs; try reflexivity; try lra.
  - destruct (Rleb 0 (a02 - a20)) eqn:S; injection Ekv as <- <- <-;
    [apply Rleb_true in S | apply Rleb_false in S].
    + eapply (r2q_branch1_core _ _ _ _ _ _ _ _ _ 1); try exact H; try exact Eqs; try reflexivity; try lra.
    + eapply (r2q_branch1_core _ _ _ _ _ _ _ _ _ (-1)); try exact H; try exact Eqs; try reflexivity; try lra.
  - destruct (Rleb 0 (a10 - a01)) eqn:S; injection Ekv as <- <- <-;
    [apply Rleb_true in S | apply Rleb_false in S].
    + eapply (r2q_branch2_core _ _ _ _ _ _ _ _ _ 1); try exact H; try exact Eqs; try reflexivity; try lra.
    + eapply (r2q_branch2_core _ _ _ _ _ _ _ _ _ (-1)); try exact H; try exact Eqs; try reflexivity; try lra.
Qed.

Theorem r2q_roundtrip (A : M33 R) : SO3 A -> r2q_degenerate Rops (IZR 100) A = false ->
  q2r_ref Rops (r2q_100 Rops A) = A /\ qnormsq Rops (r2q_100 Rops A) = 1 /\ 0 <= fst (fst (fst (r2q_100 Rops A))).
Proof. intros H Hd. destruct_tuples. apply r2q_roundtrip_entries; assumption. Qed.

(* the degenerate exit returns the identity quaternion *)
Lemma r2q_degenerate_eye (A : M33 R) : r2q_degenerate Rops (IZR 100) A = true ->
  r2q_100 Rops A = qone Rops /\ q2r_ref Rops (r2q_100 Rops A) = I33 Rops.
Proof.
  intros Hd. unfold r2q_100, r2q. cbn [of_Z Rops]. rewrite Hd. split; [reflexivity|]. lin_simpl. tuple_eq ltac:(ring).
Qed.

(* a genuine rotation (about x, tan(theta/2) = 2^-60, theta ~ 1.7e-18) on which r2q takes the degenerate exit *)
Definition tiny_c : R := (1152921504606846976*1152921504606846976 - 1) / (1152921504606846976*1152921504606846976 + 1).
Definition tiny_s : R := (2*1152921504606846976) / (1152921504606846976*1152921504606846976 + 1).
Definition tiny_rot : M33 R := rotx_cs Rops tiny_c tiny_s.

Lemma div_lt x y z : 0 < y -> x < z*y -> x/y < z.
Proof. intros Hy H. apply (Rmult_lt_reg_r y); [exact Hy|]. unfold Rdiv. rewrite Rmult_assoc, Rinv_l by lra. lra. Qed.
Lemma div_gt x y z : 0 < y -> z*y < x -> z < x/y.
Proof. intros Hy H. apply (Rmult_lt_reg_r y); [exact Hy|]. unfold Rdiv. rewrite Rmult_assoc, Rinv_l by lra. lra. Qed.
Lemma tiny_bounds : 0 < tiny_c < 1 /\ 0 < tiny_s < /100000000000000000 /\ 1 - /100000000000000000 < tiny_c.
Proof.
  unfold tiny_c, tiny_s. repeat split.
  - apply div_gt; lra.
  - apply div_lt; lra.
  - apply div_gt; lra.
  - apply div_lt; lra.
  - apply div_gt; lra.
Qed.
Lemma tiny_rot_SO3 : SO3 tiny_rot.
Proof. apply SO3_rotx. unfold tiny_c, tiny_s. field. Qed.

Lemma tiny_rot_degenerate : r2q_degenerate Rops (IZR 100) tiny_rot = true.
Proof.
  unfold r2q_degenerate. cbn [ltb abs_ mul eps Rops]. apply Rltb_true.
  unfold tiny_rot, rotx_cs, norm3, normsq3, dot3, r2q_kv, r2q_add, r2q_branch. cbn [leb add sub mul one zero neg sqrt_ Rops].
  pose proof tiny_bounds as (C1 & S1 & C2).
  replace (Rleb tiny_c 1 && Rleb tiny_c 1) with true by (symmetry; apply andb_true_iff; split; apply Rleb_true; lra).
  replace (Rleb 0 (tiny_s - - tiny_s)) with true by (symmetry; apply Rleb_true; lra).
  set (k := tiny_s - - tiny_s + (1 - tiny_c - tiny_c + 1)).
  replace (k * k + (0 - 0 + (0 + 0)) * (0 - 0 + (0 + 0)) + (0 - 0 + (0 + 0)) * (0 - 0 + (0 + 0))) with (k*k) by ring.
  assert (0 <= k) by (unfold k; lra). rewrite sqrt_square by assumption. rewrite Rabs_right by lra. unfold k. lra.
Qed.

Theorem r2q_roundtrip_refuted : exists A : M33 R, SO3 A /\ q2r_ref Rops (r2q_100 Rops A) <> A.
Proof.
  exists tiny_rot. split; [exact tiny_rot_SO3|].
  unfold r2q_100, r2q. cbn [of_Z Rops]. rewrite tiny_rot_degenerate.
  unfold tiny_rot. lin_simpl. intros E.
  pose proof tiny_bounds as (C1 & S1 & C2). injection E; intros; lra.
Qed.
