(* C12 -- the exponential of a pure quaternion is its power series in the Hamilton algebra (L-real, Coquelicot):
   for a unit vector u and every theta, with q = (0, u),
        Sum_k theta^k / k! * (q^k)_c  =  (cos theta, sin theta * u)_c          for each of the four components c,
   where q^k is [qpow_nat] -- the model of base.qpow (iterated Hamilton product, tied to the code by C12's traces).
   The closed form is what Quaternion.exp computes on (0, theta u) (C12_ExpLog.qexp; see Props/C12_series.v).
   Uses the generic series lemmas of Model/C03_Series.v.  Fixed file, compiled at setup. *)
From Coq Require Import Reals ZArith Lra Lia Nsatz.
From Coquelicot Require Import Coquelicot.
From SM Require Import Base.Ops Base.Lin Base.RInst Model.Quat Model.C03_Series.
Open Scope R_scope.

Definition e4 (p : V4 R) (c : nat) : R :=
  let '(s,x,y,z) := p in match c with 0%nat => s | 1%nat => x | 2%nat => y | _ => z end.
Definition qscale (k : R) (p : V4 R) : V4 R := let '(s,x,y,z) := p in (k*s, k*x, k*y, k*z).
Definition qexp_coeff (q : V4 R) (c k : nat) : R := e4 (qpow_nat Rops q k) c / INR (fact k).

Lemma e4_qscale k p c : e4 (qscale k p) c = k * e4 p c.
Proof. destruct p as [[[s x] y] z]. destruct c as [|[|[|c]]]; reflexivity. Qed.

Section Pure.
Variables (u0 u1 u2 th : R).
Hypothesis Hu : u0*u0 + u1*u1 + u2*u2 = 1.
Let q : V4 R := (0, u0, u1, u2).
Let q2 : V4 R := qmul Rops q q.

Lemma pure_cube1 c : qmul Rops (qmul Rops (qscale c q) q) q = qscale (- c) q.
Proof. pose proof Hu as H. unfold q, qscale. autounfold with smlin. sm_simpl. tuple_eq ltac:(nsatz). Qed.
Lemma pure_cube2 c : qmul Rops (qmul Rops (qscale c q2) q) q = qscale (- c) q2.
Proof. pose proof Hu as H. unfold q2, q, qscale. autounfold with smlin. sm_simpl. tuple_eq ltac:(nsatz). Qed.

Lemma qpow_pure_parity : forall n,
  qpow_nat Rops q (2 * n + 1) = qscale ((-1) ^ n) q /\ qpow_nat Rops q (2 * n + 2) = qscale ((-1) ^ n) q2.
Proof.
  induction n as [|n [IHo IHe]].
  - unfold q2, q, qscale. split; cbn [Nat.mul Nat.add qpow_nat pow]; autounfold with smlin; sm_simpl; tuple_eq ltac:(ring).
  - split.
    + replace (2 * S n + 1)%nat with (S (S (2 * n + 1))) by lia. cbn [qpow_nat]. rewrite IHo, pure_cube1. f_equal. simpl. ring.
    + replace (2 * S n + 2)%nat with (S (S (2 * n + 2))) by lia. cbn [qpow_nat]. rewrite IHe, pure_cube2. f_equal. simpl. ring.
Qed.

Theorem pure_qexp_is_series c : (c < 4)%nat ->
  is_pseries (qexp_coeff q c) th (e4 (cos th, sin th * u0, sin th * u1, sin th * u2) c).
Proof.
  intros Hc.
  assert (Hev : is_series (fun n => qexp_coeff q c (2 * n) * (th ^ 2) ^ n) (e4 (qone Rops) c + e4 q2 c * (1 - cos th))).
  { apply series_cos_shape.
    - unfold qexp_coeff. cbn [Nat.mul qpow_nat fact]. req. simpl. field.
    - intro m. unfold qexp_coeff. replace (2 * S m)%nat with (2 * m + 2)%nat by lia.
      destruct (qpow_pure_parity m) as [_ He]. rewrite He, e4_qscale. unfold cos_n.
      replace (2 * m + 2)%nat with (2 * S m)%nat by lia.
      assert (Hf : INR (fact (2 * S m)) <> 0) by apply INR_fact_neq_0.
      change ((-1) ^ S m) with (-1 * (-1) ^ m).
      generalize dependent (INR (fact (2 * S m))). generalize ((-1) ^ m) (e4 q2 c). intros r1 r2 r3 Hr3. req. field. exact Hr3. }
  destruct (sin_series th) as [a [Ha Hs]].
  assert (Hod : is_series (fun n => qexp_coeff q c (2 * n + 1) * (th ^ 2) ^ n) (e4 q c * a)).
  { apply is_series_ext with (fun n => scal (e4 q c) (sin_n n * (th ^ 2) ^ n)).
    - intro n. symmetry. transitivity (e4 q c * (sin_n n * (th ^ 2) ^ n)); [|reflexivity]. unfold qexp_coeff.
      destruct (qpow_pure_parity n) as [Ho _]. rewrite Ho, e4_qscale. unfold sin_n.
      assert (Hf : INR (fact (2 * n + 1)) <> 0) by apply INR_fact_neq_0. req. field. exact Hf.
    - apply (is_series_scal (e4 q c) _ a). exact Ha. }
  replace (e4 (cos th, sin th * u0, sin th * u1, sin th * u2) c)
    with ((e4 (qone Rops) c + e4 q2 c * (1 - cos th)) + th * (e4 q c * a)).
  - apply is_pseries_odd_even; apply is_pseries_R; assumption.
  - pose proof Hu as H. unfold q2, q. autounfold with smlin. sm_simpl.
    destruct c as [|[|[|[|c]]]]; try lia; cbn [e4]; clear Hc Hev Hod Ha; generalize dependent (sin th); generalize (cos th); intros; nsatz.
Qed.
End Pure.
