(* C14 -- hand-written reference models of the normalisation kernels, generic over the ops record.
   Each definition mirrors the Python code AS IT IS (source quoted above it).  Thresholds are
   PARAMETERS (thr...): the values are regenerated from the source AST on every run into
   coq/gen/Traces_C14.v (section "Consts") and the models are instantiated there.
   Result conventions:  option = the Python function returns None or raises (the kind is stated in
   the comment and observed by the oracle); total functions mirror code that has no guard. *)
From Coq Require Import ZArith.
From SM Require Import Base.Ops Base.Lin.

Section Norm.
Context {T : Type} (O : ops T).
Local Notation "0" := (zero O). Local Notation "1" := (one O).
Local Infix "+" := (add O). Local Infix "-" := (sub O). Local Infix "*" := (mul O).
Local Infix "/" := (div O).

(* v / n on arrays is entrywise division *)
Definition vdiv2 (v : V2 T) (n : T) : V2 T := let '(a,b) := v in (a/n, b/n).
Definition vdiv3 (v : V3 T) (n : T) : V3 T := let '(a,b,c) := v in (a/n, b/n, c/n).
Definition vdiv4 (v : V4 T) (n : T) : V4 T := let '(a,b,c,d) := v in (a/n, b/n, c/n, d/n).
Definition vdiv6 (v : V6 T) (n : T) : V6 T := let '(a,b,c,d,e,f) := v in (a/n, b/n, c/n, d/n, e/n, f/n).
Definition norm2 (v : V2 T) : T := sqrt_ O (dot2 O v v).
Definition norm4 (v : V4 T) : T := sqrt_ O (dot4 O v v).
Definition norm6 (v : V6 T) : T := sqrt_ O (dot6 O v v).
Definition tw_v (S : V6 T) : V3 T := let '(v0,v1,v2,_,_,_) := S in (v0,v1,v2).
Definition tw_w (S : V6 T) : V3 T := let '(_,_,_,w0,w1,w2) := S in (w0,w1,w2).

(* vectors.unitvec:   n = norm(v);  if n >= 10*_eps: return v / n  else: return None
   (`n > 100*_eps` originally, `n > 10*_eps` after fix d900630, `>=` -- the complement of iszerovec -- after 4dbd011;
   the value is a parameter, regenerated from the source; the operator is tied by the bridge theorems) *)
Definition unitvec_m (thr : T) (v : V3 T) : option (V3 T) :=
  let n := norm3 O v in if leb O thr n then Some (vdiv3 v n) else None.

(* vectors.unitvec_norm:  n = np.linalg.norm(v);  if n >= 10*_eps: return (v / n, n) else: return None *)
Definition unitvec_norm_m (thr : T) (v : V3 T) : option (V3 T * T) :=
  let n := norm3 O v in if leb O thr n then Some (vdiv3 v n, n) else None.

(* quaternions.unit(q, tol=10):  nm = np.linalg.norm(q);  if abs(nm) < tol*_eps: raise ValueError;  return q / nm
   None = raises ValueError *)
Definition qunit_m (thr : T) (q : V4 T) : option (V4 T) :=
  let n := norm4 q in if ltb O (abs_ O n) thr then None else Some (vdiv4 q n).

(* transforms3d.trnorm:  o = T[:3,1]; a = T[:3,2]; n = cross(o, a); o = cross(a, n);
   R = np.stack((unitvec(n), unitvec(o), unitvec(a)), axis=1);  4x4: rt2tr(R, T[:3,3])
   None = np.stack raises because one of the unitvec calls returned None *)
Definition trnorm33_m (thr : T) (R : M33 T) : option (M33 T) :=
  let o := col33 R 1 in let a := col33 R 2 in
  let n := cross3 O o a in let o2 := cross3 O a n in
  match unitvec_m thr n, unitvec_m thr o2, unitvec_m thr a with
  | Some cn, Some co, Some ca => Some (mtr33 (cn, co, ca))
  | _, _, _ => None
  end.
Definition trnorm44_m (thr : T) (A : M44 T) : option (M44 T) :=
  match trnorm33_m thr (t2r3 A) with
  | Some R => Some (rt2tr3 O R (transl3 A))
  | None => None
  end.

(* vectors.unittwist(S, tol=10):  if iszerovec(S, tol=tol): return None;  v = S[0:3]; w = S[3:6];
   if iszerovec(w): th = norm(v); S = np.r_[v, 0, 0, 0]  else: th = norm(w);  return S / th
   (the irrotational branch zeroes the rotational part since fix 3bd9c1c)
   iszerovec(v, tol=10) = np.linalg.norm(v) < tol*_eps.   thrS from unittwist's tol, thrw from iszerovec's default *)
Definition twist_theta_m (thrS thrw : T) (S : V6 T) : option T :=
  if ltb O (norm6 S) thrS then None
  else if ltb O (norm3 O (tw_w S)) thrw then Some (norm3 O (tw_v S)) else Some (norm3 O (tw_w S)).
(* the vector that is divided by th *)
Definition twist_num_m (thrw : T) (S : V6 T) : V6 T :=
  if ltb O (norm3 O (tw_w S)) thrw then v6 (tw_v S) (0,0,0) else S.
Definition unittwist_m (thrS thrw : T) (S : V6 T) : option (V6 T) :=
  match twist_theta_m thrS thrw S with Some th => Some (vdiv6 (twist_num_m thrw S) th) | None => None end.
(* unittwist_norm returns (S / th, th), or (None, None) *)
Definition unittwist_norm_m (thrS thrw : T) (S : V6 T) : option (V6 T * T) :=
  match twist_theta_m thrS thrw S with Some th => Some (vdiv6 (twist_num_m thrw S) th, th) | None => None end.

(* vectors.unittwist2(S):  v = S[0:2]; w = S[2];  if iszero(w): th = norm(v); S = np.r_[v, 0]  else: th = abs(w);  return S / th
   iszero(v, tol=10) = abs(v) < tol*_eps.   NO zero guard in the code: total *)
Definition twist2_theta_m (thrw : T) (S : V3 T) : T :=
  let '(v0,v1,w) := S in if ltb O (abs_ O w) thrw then norm2 (v0,v1) else abs_ O w.
Definition twist2_num_m (thrw : T) (S : V3 T) : V3 T :=
  let '(v0,v1,w) := S in if ltb O (abs_ O w) thrw then (v0,v1,0) else S.
Definition unittwist2_m (thrw : T) (S : V3 T) : V3 T := vdiv3 (twist2_num_m thrw S) (twist2_theta_m thrw S).
Definition unittwist2_norm_m (thrw : T) (S : V3 T) : V3 T * T :=
  (vdiv3 (twist2_num_m thrw S) (twist2_theta_m thrw S), twist2_theta_m thrw S).

(* vectors.angdiff:  np.mod(a + math.pi, 2*math.pi) - math.pi      (a - b in place of a for two arguments)
   np.mod(x, y) for y > 0 is x - y*floor(x/y);  p stands for math.pi *)
Definition pymod (x y : T) : T := x - y * floor_ O (x / y).
Definition angdiff_p (p d : T) : T := pymod (d + p) (two O * p) - p.
Definition angdiff1_m (a : T) : T := angdiff_p (pi_f O) a.
Definition angdiff2_m (a b : T) : T := angdiff_p (pi_f O) (a - b).

(* twist.SMTwist.unit (Twist3.unit):  Twist3(base.unittwist(self.S));  Twist2.unit:  Twist2(base.unittwist2(self.S))
   -- since the fix ca82070 these ARE unittwist_m / unittwist2_m (instantiated as m_twist3_unit / m_twist2_unit in the
   generated file); there is no separate model. *)

(* unitvec on a 2-vector (used by trnorm2) *)
Definition unitvec2_m (thr : T) (v : V2 T) : option (V2 T) :=
  let n := norm2 v in if leb O thr n then Some (vdiv2 v n) else None.

(* transforms2d.trnorm2 (added by the fix 7bb8ca6):
     a = base.unitvec(T[:2, 1]);  R = np.array([[a[1], a[0]], [-a[0], a[1]]]);  3x3: rt2tr(R, T[:2, 2])
   None = a[1] raises TypeError because unitvec returned None *)
Definition trnorm22_m (thr : T) (R : M22 T) : option (M22 T) :=
  let '((_, r01), (_, r11)) := R in
  match unitvec2_m thr (r01, r11) with
  | Some (a0, a1) => Some ((a1, a0), (neg O a0, a1))
  | None => None
  end.
Definition trnorm23_m (thr : T) (A : M33 T) : option (M33 T) :=
  match trnorm22_m thr (t2r2 A) with
  | Some R => Some (rt2tr2 O R (transl2 A))
  | None => None
  end.
End Norm.

#[export] Hint Unfold vdiv2 vdiv3 vdiv4 vdiv6 norm2 norm4 norm6 tw_v tw_w unitvec_m unitvec_norm_m qunit_m trnorm33_m trnorm44_m
  twist_theta_m twist_num_m unittwist_m unittwist_norm_m twist2_theta_m twist2_num_m unittwist2_m unittwist2_norm_m pymod angdiff_p angdiff1_m
  angdiff2_m unitvec2_m trnorm22_m trnorm23_m : smlin.
