(* C15 -- hand-written model of the argument-normalisation layer spatialmath/base/argcheck.py:
   getvector (lines 231-339), isvector (368-415), getunit (418-448).
   The model mirrors the code AS IT IS, branch by branch (since fix 08cac29 the list branch tests
   `dim is not None and len(v) != dim`; before it `v and ...` let the empty list through).  It is tied to /repo on every run by props/C15.py, which evaluates
   [enc_gv]/[enc_iv] below with vm_compute on a grid of argument forms x shapes x dim x out and compares
   with the real functions (T-tab correspondence).

   Python values are abstracted as follows
     E            element type of the argument (Python int / float / numpy scalar: everything in _scalartypes)
     F, cv        element type after np.array(..., dtype=float64) / .astype(float64), and that conversion
     Scalar x     a bare scalar            PyList l / PyTuple l   list / tuple of scalars
     Nd shape l   numpy.ndarray of that shape whose row-major (flatten()) content is l
     Other        anything else (None, str, dict, ...)
   No Reals: everything here is lists and nat; theorems about it are closed under the global context. *)
From Coq Require Import List Arith Bool Lia ZArith.
From SM Require Import Base.Ops.
Import ListNotations.

Inductive exn := ValueError | TypeError | IndexError.
Inductive res (A : Type) := Ok (a : A) | Err (e : exn).
Arguments Ok {A} a. Arguments Err {A} e.

Inductive outspec := OSequence | OList | OArray | ORow | OCol | OBad.   (* out= 'sequence' 'list' 'array' 'row' 'col' / anything else *)

Section ArgCheck.
Variables (E F : Type) (cv : E -> F).

Inductive pyarg :=
| Scalar (x : E) | PyList (l : list E) | PyTuple (l : list E) | Nd (shape : list nat) (l : list E) | Other.

(* the five container forms of the property *)
Definition Nd1 (l : list E) := Nd [length l] l.
Definition NdRow (l : list E) := Nd [1; length l] l.
Definition NdCol (l : list E) := Nd [length l; 1] l.
Definition Nd2 (r c : nat) (l : list E) := Nd [r; c] l.

Definition elems (a : pyarg) : list E :=
  match a with Scalar x => [x] | PyList l | PyTuple l => l | Nd _ l => l | Other => [] end.
(* a well-formed ndarray has prod(shape) elements *)
Definition wf (a : pyarg) : Prop :=
  match a with Nd s l => fold_right Nat.mul 1 s = length l | _ => True end.

Inductive pyval :=
| VList (l : list E) | VTuple (l : list E)        (* out='sequence' / 'list': elements are NOT converted *)
| VArr1 (l : list F) | VArr2 (r c : nat) (l : list F).

Definition shape_eqb (a b : list nat) : bool := if list_eq_dec Nat.eq_dec a b then true else false.
(* s == (dim,) or s == (1, dim) or s == (dim, 1) *)
Definition shape_ok (s : list nat) (d : nat) : bool :=
  shape_eqb s [d] || shape_eqb s [1; d] || shape_eqb s [d; 1].

Definition is_nil {A} (l : list A) : bool := match l with [] => true | _ => false end.

(* lines 296-315: list / tuple branch (a scalar has been wrapped into a one-element list at 293-294) *)
Definition gv_seq (tuple : bool) (l : list E) (dim : option nat) (out : outspec) : res pyval :=
  if (match dim with
      | Some d => negb (length l =? d)                         (* dim is not None and len(v) != dim   (fix 08cac29) *)
      | None => false end)
  then Err ValueError
  else match out with
       | OSequence => Ok (if tuple then VTuple l else VList l)
       | OList => Ok (VList l)
       | OArray => Ok (VArr1 (map cv l))
       | ORow => Ok (VArr2 1 (length l) (map cv l))
       | OCol => Ok (VArr2 (length l) 1 (map cv l))
       | OBad => Err ValueError
       end.

(* lines 317-337: ndarray branch *)
Definition gv_nd (s : list nat) (l : list E) (dim : option nat) (out : outspec) : res pyval :=
  if (match dim with Some d => negb (shape_ok s d) | None => false end)
  then Err ValueError
  else match out with
       | OSequence | OList => Ok (VList l)
       | OArray => Ok (VArr1 (map cv l))
       | ORow => Ok (VArr2 1 (length l) (map cv l))
       | OCol => Ok (VArr2 (length l) 1 (map cv l))
       | OBad => Err ValueError
       end.

Definition getvector (a : pyarg) (dim : option nat) (out : outspec) : res pyval :=
  match a with
  | Scalar x => gv_seq false [x] dim out
  | PyList l => gv_seq false l dim out
  | PyTuple l => gv_seq true l dim out
  | Nd s l => gv_nd s l dim out
  | Other => Err TypeError
  end.

(* lines 400-415 *)
Definition isvector (a : pyarg) (dim : option nat) : res bool :=
  match a with
  | PyList l | PyTuple l =>          (* every element is a scalar by typing; otherwise falls to `return False` *)
      Ok (match dim with None => negb (is_nil l)          (* len(v) > 0 if dim is None   (fix 2c16cfc) *)
                       | Some d => length l =? d end)
  | Nd s l =>
      match dim with
      | Some d => Ok (shape_ok s d)
      | None => match s with
                | [] => Err IndexError                                    (* 0-d array: s[0] *)
                | [n] => Ok (0 <? n)
                | s0 :: s1 :: _ => Ok ((s0 =? 1) && (0 <? s1) || (0 <? s0) && (s1 =? 1))
                end
      end
  | Scalar _ => Ok (match dim with None => true | Some d => d =? 1 end)
  | Other => Ok false
  end.

(* assertvector(v, dim): raises ValueError unless isvector *)
Definition assertvector (a : pyarg) (dim : option nat) : res unit :=
  match isvector a dim with Ok true => Ok tt | Ok false => Err ValueError | Err e => Err e end.

End ArgCheck.

Arguments Scalar {E} x. Arguments PyList {E} l. Arguments PyTuple {E} l. Arguments Nd {E} shape l. Arguments Other {E}.
Arguments Nd1 {E} l. Arguments NdRow {E} l. Arguments NdCol {E} l. Arguments Nd2 {E} r c l.
Arguments VList {E F} l. Arguments VTuple {E F} l. Arguments VArr1 {E F} l. Arguments VArr2 {E F} r c l.
Arguments getvector {E F} cv a dim out. Arguments isvector {E} a dim. Arguments assertvector {E} a dim.
Arguments elems {E} a. Arguments wf {E} a. Arguments gv_seq {E F} cv tuple l dim out. Arguments gv_nd {E F} cv s l dim out.

(* ---------------------------------------------------------------- getunit (lines 440-448), over the ops record *)
Inductive unit_arg := URad | UDeg | UOther.      (* 'rad' / 'deg' / any other value *)

Section GetUnit.
Context {T : Type} (O : ops T).
Definition deg2rad (v : T) : T := div O (mul O v (pi_f O)) (of_Z O 180%Z).        (* v * math.pi / 180 *)
Definition getunit (v : T) (u : unit_arg) : res T :=
  match u with URad => Ok v | UDeg => Ok (deg2rad v) | UOther => Err ValueError end.
(* ndarray: v * math.pi / 180 elementwise; list: [x * math.pi / 180 for x in v] *)
Definition getunit_vec (v : list T) (u : unit_arg) : res (list T) :=
  match u with URad => Ok v | UDeg => Ok (map deg2rad v) | UOther => Err ValueError end.
End GetUnit.

(* ---------------------------------------------------------------- encodings for the correspondence run *)
Local Open Scope Z_scope.
Definition enc_exn (e : exn) : list Z := match e with ValueError => [-1] | TypeError => [-2] | IndexError => [-3] end.
Definition enc_gv (r : res (@pyval Z Z)) : list Z :=
  match r with
  | Err e => enc_exn e
  | Ok (VList l) => 1 :: l | Ok (VTuple l) => 2 :: l | Ok (VArr1 l) => 3 :: l
  | Ok (VArr2 r c l) => 4 :: Z.of_nat r :: Z.of_nat c :: l
  end.
Definition enc_iv (r : res bool) : list Z :=
  match r with Err e => enc_exn e | Ok true => [1] | Ok false => [0] end.
Definition idZ (x : Z) : Z := x.
