(* C10 -- SPECIFICATION: the semantics of a CPython list, over element tags (Z).
   Index normalisation, slice.indices (PySlice_AdjustIndices + PySlice_AdjustIndices' range), insert clamping,
   pop, del (index and slice), item assignment, reverse, clear, extend.
   Validated on every run against a real Python list (props/C10.py, three-way T-seq).  No Reals, no axioms. *)
From Coq Require Import ZArith List Lia Bool.
Import ListNotations.
Open Scope Z_scope.

Inductive exn := IndexError | ValueError | TypeError | AssertionError | StopIteration.
Inductive res (A : Type) := Ok (a : A) | Raise (e : exn).
Arguments Ok {A}. Arguments Raise {A}.

Definition zlen {A} (l : list A) : Z := Z.of_nat (length l).
Definition znth (l : list Z) (k : Z) : Z := nth (Z.to_nat k) l 0.

(* data[k] for an int k: the position read, or IndexError *)
Definition py_index (len k : Z) : res Z :=
  if (k <? - len) || (len <=? k) then Raise IndexError else Ok (if k <? 0 then k + len else k).

(* range(start, stop, step), step <> 0 *)
Definition range_len (start stop step : Z) : Z :=
  if 0 <? step then (if start <? stop then (stop - start - 1) / step + 1 else 0)
  else (if stop <? start then (start - stop - 1) / (- step) + 1 else 0).
Definition py_range (start stop step : Z) : list Z :=
  map (fun k => start + Z.of_nat k * step) (seq 0 (Z.to_nat (range_len start stop step))).

(* PySlice_AdjustIndices: one bound *)
Definition adj (len step : Z) (o : option Z) (dflt_pos dflt_neg : Z) : Z :=
  match o with
  | None => if 0 <? step then dflt_pos else dflt_neg
  | Some i => if i <? 0 then (let j := i + len in if j <? 0 then (if 0 <? step then 0 else -1) else j)
              else if len <=? i then (if 0 <? step then len else len - 1) else i
  end.
Definition step_of (c : option Z) : Z := match c with None => 1 | Some s => s end.

(* the positions selected by  [start:stop:step]  in a list of length len;  ValueError for step 0 *)
Definition py_slice_indices (len : Z) (start stop step : option Z) : res (list Z) :=
  let st := step_of step in
  if st =? 0 then Raise ValueError else
  Ok (py_range (adj len st start 0 (len - 1)) (adj len st stop len (-1)) st).

(* ------------------------------------------------------------------ list operations *)
Definition py_getitem (l : list Z) (i : Z) : res Z :=
  match py_index (zlen l) i with Ok k => Ok (znth l k) | Raise e => Raise e end.

Definition py_getslice (l : list Z) (a b c : option Z) : res (list Z) :=
  match py_slice_indices (zlen l) a b c with Ok ks => Ok (map (znth l) ks) | Raise e => Raise e end.

Definition py_setitem (l : list Z) (i v : Z) : res (list Z) :=
  match py_index (zlen l) i with
  | Ok k => Ok (firstn (Z.to_nat k) l ++ v :: skipn (S (Z.to_nat k)) l)
  | Raise e => Raise e end.

Definition py_delitem (l : list Z) (i : Z) : res (list Z) :=
  match py_index (zlen l) i with
  | Ok k => Ok (firstn (Z.to_nat k) l ++ skipn (S (Z.to_nat k)) l)
  | Raise e => Raise e end.

(* keep the elements whose position is not selected *)
Fixpoint drop_at (ks : list Z) (pos : Z) (l : list Z) : list Z :=
  match l with
  | [] => []
  | x :: t => if existsb (Z.eqb pos) ks then drop_at ks (pos + 1) t else x :: drop_at ks (pos + 1) t
  end.
Definition py_delslice (l : list Z) (a b c : option Z) : res (list Z) :=
  match py_slice_indices (zlen l) a b c with Ok ks => Ok (drop_at ks 0 l) | Raise e => Raise e end.

(* list.insert: negative index counts from the end, then clamped to [0, len] *)
Definition py_insert_pos (len i : Z) : Z :=
  let j := if i <? 0 then i + len else i in
  if j <? 0 then 0 else if len <? j then len else j.
Definition py_insert (l : list Z) (i v : Z) : list Z :=
  let k := Z.to_nat (py_insert_pos (zlen l) i) in firstn k l ++ v :: skipn k l.

(* list.pop(i): (popped value, remaining list);  IndexError on the empty list or a bad index *)
Definition py_pop (l : list Z) (i : Z) : res (Z * list Z) :=
  match py_index (zlen l) i with
  | Ok k => Ok (znth l k, firstn (Z.to_nat k) l ++ skipn (S (Z.to_nat k)) l)
  | Raise e => Raise e end.

Definition py_extend (l ts : list Z) : list Z := l ++ ts.
Definition py_reverse (l : list Z) : list Z := rev l.
Definition py_clear (l : list Z) : list Z := [].
Definition py_repeat (v n : Z) : list Z := repeat v (Z.to_nat n).   (* [v] * n ; [] for n <= 0 *)

(* ------------------------------------------------------------------ basic facts of the specification *)
Lemma zlen_nonneg {A} (l : list A) : 0 <= zlen l.
Proof. unfold zlen; lia. Qed.

Lemma zlen_app {A} (a b : list A) : zlen (a ++ b) = zlen a + zlen b.
Proof. unfold zlen; rewrite app_length; lia. Qed.

(* IndexError exactly outside [-len, len) ; otherwise the normalised position is in [0, len) *)
Lemma py_index_spec : forall len k, 0 <= len ->
  (py_index len k = Raise IndexError <-> (k < - len \/ len <= k)) /\
  (forall p, py_index len k = Ok p -> 0 <= p < len /\ (p = k \/ p = k + len)).
Proof.
  intros len k Hl. unfold py_index.
  destruct (k <? - len) eqn:E1; [apply Z.ltb_lt in E1 | apply Z.ltb_ge in E1];
  (destruct (len <=? k) eqn:E2; [apply Z.leb_le in E2 | apply Z.leb_gt in E2]); simpl.
  - split; [split; [lia | reflexivity] | discriminate].
  - split; [split; [lia | reflexivity] | discriminate].
  - split; [split; [lia | reflexivity] | discriminate].
  - split.
    + split; [discriminate | lia].
    + intros p Hp. inversion Hp; subst.
      destruct (k <? 0) eqn:E3; [apply Z.ltb_lt in E3 | apply Z.ltb_ge in E3]; lia.
Qed.

Lemma py_index_in_range : forall len k, 0 <= k < len -> py_index len k = Ok k.
Proof.
  intros len k H. unfold py_index.
  replace (k <? - len) with false by (symmetry; apply Z.ltb_ge; lia).
  replace (len <=? k) with false by (symmetry; apply Z.leb_gt; lia).
  simpl. replace (k <? 0) with false by (symmetry; apply Z.ltb_ge; lia). reflexivity.
Qed.

(* every element of a forward range lies in [start, stop) *)
Lemma range_len_nonneg : forall a b s, 0 <= range_len a b s.
Proof.
  intros a b s. unfold range_len.
  destruct (0 <? s) eqn:E.
  - apply Z.ltb_lt in E. destruct (a <? b) eqn:E2; [apply Z.ltb_lt in E2 | lia].
    assert (0 <= (b - a - 1) / s) by (apply Z.div_pos; lia). lia.
  - apply Z.ltb_ge in E. destruct (b <? a) eqn:E2; [apply Z.ltb_lt in E2 | lia].
    destruct (Z.eq_dec s 0) as [->|Hs].
    + simpl. rewrite Zdiv_0_r. lia.
    + assert (0 <= (a - b - 1) / (- s)) by (apply Z.div_pos; lia). lia.
Qed.

Lemma py_range_fwd_bounds : forall a b s x, 0 < s -> In x (py_range a b s) -> a <= x < b.
Proof.
  intros a b s x Hs Hin. unfold py_range in Hin. apply in_map_iff in Hin. destruct Hin as [k [<- Hk]].
  apply in_seq in Hk. unfold range_len in Hk.
  replace (0 <? s) with true in Hk by (symmetry; apply Z.ltb_lt; lia).
  destruct (a <? b) eqn:E; [apply Z.ltb_lt in E | simpl in Hk; lia].
  assert (Hk' : Z.of_nat k <= (b - a - 1) / s).
  { assert (0 <= (b - a - 1) / s) by (apply Z.div_pos; lia). lia. }
  assert (s * ((b - a - 1) / s) <= b - a - 1) by (apply Z.mul_div_le; lia).
  split; nia.
Qed.

Lemma py_range_fwd_nonempty : forall a b s, 0 < s -> a < b -> py_range a b s <> [].
Proof.
  intros a b s Hs Hab. unfold py_range, range_len.
  replace (0 <? s) with true by (symmetry; apply Z.ltb_lt; lia).
  replace (a <? b) with true by (symmetry; apply Z.ltb_lt; lia).
  assert (0 <= (b - a - 1) / s) by (apply Z.div_pos; lia).
  destruct (Z.to_nat ((b - a - 1) / s + 1)) eqn:E; [lia | simpl; discriminate].
Qed.

Lemma py_insert_pos_bounds : forall len i, 0 <= len -> 0 <= py_insert_pos len i <= len.
Proof.
  intros len i H. unfold py_insert_pos.
  destruct (i <? 0) eqn:E; [apply Z.ltb_lt in E | apply Z.ltb_ge in E];
  match goal with |- context [?j <? 0] => destruct (j <? 0) eqn:E2 end;
  [apply Z.ltb_lt in E2 | apply Z.ltb_ge in E2 | apply Z.ltb_lt in E2 | apply Z.ltb_ge in E2]; try lia;
  match goal with |- context [len <? ?j] => destruct (len <? j) eqn:E3 end;
  [apply Z.ltb_lt in E3 | apply Z.ltb_ge in E3 | apply Z.ltb_lt in E3 | apply Z.ltb_ge in E3]; lia.
Qed.

(* length effects of the mutators (the "length" half of the property, for every list and argument) *)
Lemma len_ins : forall (l : list Z) k v, (k <= length l)%nat -> length (firstn k l ++ v :: skipn k l) = S (length l).
Proof. intros. rewrite app_length, firstn_length. cbn [length]. rewrite skipn_length. lia. Qed.
Lemma len_set : forall (l : list Z) k v, (k < length l)%nat -> length (firstn k l ++ v :: skipn (S k) l) = length l.
Proof. intros. rewrite app_length, firstn_length. cbn [length]. rewrite skipn_length. lia. Qed.
Lemma len_del : forall (l : list Z) k, (k < length l)%nat -> length (firstn k l ++ skipn (S k) l) = (length l - 1)%nat.
Proof. intros. rewrite app_length. rewrite firstn_length, skipn_length. lia. Qed.

Lemma py_insert_length : forall l i v, zlen (py_insert l i v) = zlen l + 1.
Proof.
  intros. unfold py_insert.
  pose proof (py_insert_pos_bounds (zlen l) i (zlen_nonneg l)) as Hb.
  unfold zlen in *. rewrite len_ins by lia. lia.
Qed.

Lemma py_setitem_length : forall l i v l', py_setitem l i v = Ok l' -> zlen l' = zlen l.
Proof.
  intros l i v l' H. unfold py_setitem in H. destruct (py_index (zlen l) i) eqn:E; [|discriminate].
  inversion H; subst. destruct (py_index_spec (zlen l) i (zlen_nonneg l)) as [_ Hp]. specialize (Hp _ E).
  unfold zlen in *. rewrite len_set by lia. reflexivity.
Qed.

Lemma py_delitem_length : forall l i l', py_delitem l i = Ok l' -> zlen l' = zlen l - 1.
Proof.
  intros l i l' H. unfold py_delitem in H. destruct (py_index (zlen l) i) eqn:E; [|discriminate].
  inversion H; subst. destruct (py_index_spec (zlen l) i (zlen_nonneg l)) as [_ Hp]. specialize (Hp _ E).
  unfold zlen in *. rewrite len_del by lia. lia.
Qed.

Lemma py_pop_length : forall l i v l', py_pop l i = Ok (v, l') -> zlen l' = zlen l - 1 /\ In v l.
Proof.
  intros l i v l' H. unfold py_pop in H. destruct (py_index (zlen l) i) eqn:E; [|discriminate].
  inversion H; subst. destruct (py_index_spec (zlen l) i (zlen_nonneg l)) as [_ Hp]. specialize (Hp _ E). split.
  - unfold zlen in *. rewrite len_del by lia. lia.
  - unfold znth. apply nth_In. unfold zlen in *. lia.
Qed.
