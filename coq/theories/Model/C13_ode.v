(* C13 -- the curve theta |-> Ad(exp(theta [S])) for a unit twist S = (v, w), |w| = 1, in Rodrigues form, and the
   proof (Coquelicot: is_derive / auto_derive) that it solves the initial value problem
        A'(theta) = ad(S) A(theta),   A(0) = I_6
   which defines exp(theta ad(S)).  Hand-written reference over R; Props/C13_ode.v proves, on every run, that the
   library's own base.trexp(S, theta) and base.adjoint, traced on symbols, ARE this curve (a ring identity for all
   S, theta), so the statements transfer to the regenerated definitions.
   Not proved here (and nowhere in the standard library / Coquelicot in a form usable for matrices): uniqueness of
   solutions of linear ODE systems, which is what would turn "solves the IVP" into "equals the power series". *)
From Coq Require Import Reals ZArith Lra Lia Nsatz.
From Coquelicot Require Import Coquelicot.
From SM Require Import Base.Ops Base.Lin Base.RInst Base.RLin.
Open Scope R_scope.

Definition row6 (M : M66 R) (i : nat) : V6 R :=
  let '(r0,r1,r2,r3,r4,r5) := M in
  match i with 0%nat => r0 | 1%nat => r1 | 2%nat => r2 | 3%nat => r3 | 4%nat => r4 | _ => r5 end.
Definition el6 (v : V6 R) (j : nat) : R :=
  let '(x0,x1,x2,x3,x4,x5) := v in
  match j with 0%nat => x0 | 1%nat => x1 | 2%nat => x2 | 3%nat => x3 | 4%nat => x4 | _ => x5 end.
Definition get66 (M : M66 R) (i j : nat) : R := el6 (row6 M i) j.

Definition tw_v (s : V6 R) : V3 R := let '(v0,v1,v2,_,_,_) := s in (v0,v1,v2).
Definition tw_w (s : V6 R) : V3 R := let '(_,_,_,w0,w1,w2) := s in (w0,w1,w2).

(* Rodrigues: R(th) = I + sin th K + (1 - cos th) K^2,  V(th) = th I + (1 - cos th) K + (th - sin th) K^2,  K = skew w *)
Definition Rth (w : V3 R) (th : R) : M33 R :=
  let K := skew3 Rops w in
  madd33 Rops (madd33 Rops (I33 Rops) (mscale33 Rops (sin th) K)) (mscale33 Rops (1 - cos th) (mmul33 Rops K K)).
Definition Vth (w : V3 R) (th : R) : M33 R :=
  let K := skew3 Rops w in
  madd33 Rops (madd33 Rops (mscale33 Rops th (I33 Rops)) (mscale33 Rops (1 - cos th) K)) (mscale33 Rops (th - sin th) (mmul33 Rops K K)).
Definition exp_curve (s : V6 R) (th : R) : M44 R := rt2tr3 Rops (Rth (tw_w s) th) (mv33 Rops (Vth (tw_w s) th) (tw_v s)).
Definition Ad_ref (X : M44 R) : M66 R :=
  block66 (t2r3 X) (mmul33 Rops (skew3 Rops (transl3 X)) (t2r3 X)) (Z33 Rops) (t2r3 X).
Definition ad_ref (s : V6 R) : M66 R :=
  block66 (skew3 Rops (tw_w s)) (skew3 Rops (tw_v s)) (Z33 Rops) (skew3 Rops (tw_w s)).
Definition Ad_curve (s : V6 R) (th : R) : M66 R := Ad_ref (exp_curve s th).

Ltac ode_unfold :=
  unfold Ad_curve, Ad_ref, ad_ref, exp_curve, Rth, Vth, tw_v, tw_w, get66, row6, el6; autounfold with smlin; sm_simpl.
(* close a polynomial identity modulo E : w2 * w2 = N by reducing the powers of w2 (deterministic; nsatz loops on some
   of the 36 entries) *)
Ltac elim_sq x N E :=
  apply Rminus_diag_uniq; ring_simplify;
  repeat match goal with
  | |- context [x ^ 2] => replace (x ^ 2) with N by (rewrite <- E; ring)
  | |- context [x ^ 3] => replace (x ^ 3) with (x * N) by (rewrite <- E; ring)
  | |- context [x ^ 4] => replace (x ^ 4) with (N * N) by (rewrite <- E; ring)
  | |- context [x ^ 5] => replace (x ^ 5) with (x * N * N) by (rewrite <- E; ring)
  | |- context [x ^ 6] => replace (x ^ 6) with (N * N * N) by (rewrite <- E; ring)
  | |- context [x ^ 7] => replace (x ^ 7) with (x * N * N * N) by (rewrite <- E; ring)
  | |- context [x ^ 8] => replace (x ^ 8) with (N * N * N * N) by (rewrite <- E; ring)
  end; ring.
Ltac ode_entry w0 w1 w2 E th :=
  ode_unfold; auto_derive; [repeat split; exact I|]; generalize (sin th) (cos th); intros;
  first [ring | elim_sq w2 (1 - w0 * w0 - w1 * w1) E].

Lemma Ad_curve_0 (s : V6 R) : Ad_curve s 0 = I66 Rops.
Proof. destruct s as [[[[[v0 v1] v2] w0] w1] w2]. ode_unfold. rewrite sin_0, cos_0. tuple_eq ltac:(ring). Qed.

(* the ODE, entry by entry: 36 auto_derive + ring/nsatz (the only hypothesis used is |w|^2 = 1, through K^3 = -K) *)
Lemma Ad_curve_ode (s : V6 R) (th : R) : normsq3 Rops (tw_w s) = 1 ->
  forall i j : nat, (i < 6)%nat -> (j < 6)%nat ->
  is_derive (fun t => get66 (Ad_curve s t) i j) th (get66 (mmul66 Rops (ad_ref s) (Ad_curve s th)) i j).
Proof.
  destruct s as [[[[[v0 v1] v2] w0] w1] w2]. unfold tw_w. autounfold with smlin. sm_simpl. intros Hw i j Hi Hj.
  assert (E : w2 * w2 = 1 - w0 * w0 - w1 * w1) by lra. clear Hw.
  destruct i as [|[|[|[|[|[|i]]]]]]; [| | | | | |exfalso; lia];
  (destruct j as [|[|[|[|[|[|j]]]]]]; [| | | | | |exfalso; lia]); clear Hi Hj; ode_entry w0 w1 w2 E th.
Qed.
