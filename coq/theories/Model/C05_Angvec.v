(* C05 -- hand model of the GENERAL path of base.tr2angvec (tr2angvec -> trlog general branch -> vex -> norm / unitvec),
   as the code is since /repo 84bd1d7 / 7d9131b:
       skw = (R - R.T)/2 ; st = norm(vex(skw)) ; theta = atan2(st, (trace(R) - 1)/2) ; L = skw/st*theta
       v = vex(L) ; theta = norm(v) ; (theta, v / theta)          (v / theta since /repo 7d9131b; before: unitvec(v))
   The branch tests around it (iseye, |trace + 1| < 100 eps half-turn branch, iszerovec, st == 0) are NOT part of
   this model: it is tied to the implementation (float correspondence) on rotations by 1e-6 .. pi - 1e-6, where the code
   takes this path; the other paths are covered by the oracle only. *)
From Coq Require Import Reals ZArith Lra Nsatz Psatz.
From SM Require Import Base.Ops Base.Lin Base.RInst Base.RLin Model.C05_Trig.

Section AV.
Context {T : Type} (O : ops T).
Local Notation "0" := (zero O). Local Notation "1" := (one O).
Local Infix "+" := (add O). Local Infix "-" := (sub O). Local Infix "*" := (mul O). Local Infix "/" := (div O).
Local Notation two := (of_Z O 2).

Definition skewpart (R : M33 T) : M33 T :=
  let '((r00,r01,r02),(r10,r11,r12),(r20,r21,r22)) := R in
  (((r00-r00)/two, (r01-r10)/two, (r02-r20)/two), ((r10-r01)/two, (r11-r11)/two, (r12-r21)/two), ((r20-r02)/two, (r21-r12)/two, (r22-r22)/two)).
Definition vex_py (S : M33 T) : V3 T :=
  let '((s00,s01,s02),(s10,s11,s12),(s20,s21,s22)) := S in ((s21 - s12)/two, (s02 - s20)/two, (s10 - s01)/two).
Definition norm_py (v : V3 T) : T := let '(a,b,c) := v in sqrt_ O (0 + a*a + b*b + c*c).
Definition trc (R : M33 T) : T := let '((r00,_,_),(_,r11,_),(_,_,r22)) := R in (r00 + r11 + r22 - 1)/two.

Definition angvec_general (R : M33 T) : V4 T :=
  let skw := skewpart R in
  let st := norm_py (vex_py skw) in
  let theta := atan2_ O st (trc R) in
  let '((k00,k01,k02),(k10,k11,k12),(k20,k21,k22)) := skw in
  let L := ((k00/st*theta, k01/st*theta, k02/st*theta), (k10/st*theta, k11/st*theta, k12/st*theta), (k20/st*theta, k21/st*theta, k22/st*theta)) in
  let v := vex_py L in let n := norm_py v in
  let '(v0,v1,v2) := v in (n, v0/n, v1/n, v2/n).
End AV.

Open Scope R_scope.

(* sin(theta)^2 as seen in the matrix: |vex((R-R')/2)|^2 *)
Definition st2 (M : M33 R) : R :=
  let '((r00,r01,r02),(r10,r11,r12),(r20,r21,r22)) := M in
  ((r21-r12)/2)*((r21-r12)/2) + ((r02-r20)/2)*((r02-r20)/2) + ((r10-r01)/2)*((r10-r01)/2).

Definition rodrigues_ref (th : R) (u : V3 R) : M33 R :=
  madd33 Rops (I33 Rops) (madd33 Rops (mscale33 Rops (sin th) (skew3 Rops u))
                                      (mscale33 Rops (1 - cos th) (mmul33 Rops (skew3 Rops u) (skew3 Rops u)))).

Lemma cs_unit_atan2 x y : x*x + y*y = 1 -> cos (atan2 y x) = x /\ sin (atan2 y x) = y.
Proof. intros H. rewrite cos_atan2, sin_atan2 by lra. rewrite H, sqrt_1. split; field. Qed.

Lemma atan2_pos_range y x : 0 < y -> 0 < atan2 y x < PI.
Proof.
  intros Hy. pose proof PI_RGT_0. pose proof (atan_bound (y/x)) as [Hl Hu]. unfold atan2.
  destruct (Rlt_dec 0 x) as [Hx|Hx].
  - assert (0 < y/x) by (apply Rdiv_lt_0_compat; lra).
    assert (0 < atan (y/x)) by (rewrite <- atan_0; apply atan_increasing; lra). lra.
  - destruct (Rlt_dec x 0) as [Hx'|Hx'].
    + destruct (Rle_dec 0 y); [|lra].
      assert (y/x < 0). { unfold Rdiv. assert (/ x < 0) by (apply Rinv_lt_0_compat; lra). nra. }
      assert (atan (y/x) < 0) by (rewrite <- atan_0; apply atan_increasing; lra). lra.
    + destruct (Rlt_dec 0 y); lra.
Qed.

(* the SO(3) identities behind the axis-angle extraction *)
Lemma so3_axis_identities (M : M33 R) : SO3 M ->
  let '((r00,r01,r02),(r10,r11,r12),(r20,r21,r22)) := M in
  let c := (r00 + r11 + r22 - 1)/2 in
  let l0 := (r21-r12)/2 in let l1 := (r02-r20)/2 in let l2 := (r10-r01)/2 in
  l0*l0 + l1*l1 + l2*l2 + c*c = 1 /\
  (1+c)*(r00 - c) = l0*l0 /\ (1+c)*(r11 - c) = l1*l1 /\ (1+c)*(r22 - c) = l2*l2 /\
  (1+c)*((r01+r10)/2) = l0*l1 /\ (1+c)*((r02+r20)/2) = l0*l2 /\ (1+c)*((r12+r21)/2) = l1*l2.
Proof.
  intros H. destruct M as [[[[r00 r01] r02] [[r10 r11] r12]] [[r20 r21] r22]]. so3_facts H. cbv zeta.
  match goal with H : _ * (_ * _ - _ * _) - _ + _ = 1 |- _ => clear H end.
  repeat split; apply Rmult_eq_reg_r with 4; try lra; field_simplify; nsatz.
Qed.

Definition lvec (M : M33 R) : V3 R :=
  let '((r00,r01,r02),(r10,r11,r12),(r20,r21,r22)) := M in ((r21-r12)/2, (r02-r20)/2, (r10-r01)/2).
Definition ctr (M : M33 R) : R := let '((r00,_,_),(_,r11,_),(_,_,r22)) := M in (r00 + r11 + r22 - 1)/2.

(* closed form of the model for ANY matrix with a non-zero skew part *)
Lemma angvec_general_closed_form (M : M33 R) : 0 < st2 M ->
  let s := sqrt (st2 M) in let th := atan2 s (ctr M) in let '(l0,l1,l2) := lvec M in
  angvec_general Rops M = (th, l0/s, l1/s, l2/s).
Proof.
  destruct M as [[[[r00 r01] r02] [[r10 r11] r12]] [[r20 r21] r22]]. unfold st2, lvec, ctr. intros Hst. cbv zeta.
  set (c := (r00 + r11 + r22 - 1)/2) in *. set (l0 := (r21-r12)/2) in *. set (l1 := (r02-r20)/2) in *. set (l2 := (r10-r01)/2) in *.
  set (s := sqrt (l0*l0 + l1*l1 + l2*l2)).
  assert (Hs : 0 < s) by (apply sqrt_lt_R0; exact Hst).
  assert (Hss : s*s = l0*l0 + l1*l1 + l2*l2) by (apply sqrt_sqrt; lra).
  destruct (atan2_pos_range s c Hs) as [Hth0 Hth1].
  set (th := atan2 s c) in *.
  unfold angvec_general, skewpart, vex_py, norm_py, trc. sm_simpl.
  replace ((r21 - r12) / 2 - (r12 - r21) / 2) with (2*l0) by (unfold l0; field).
  replace ((r02 - r20) / 2 - (r20 - r02) / 2) with (2*l1) by (unfold l1; field).
  replace ((r10 - r01) / 2 - (r01 - r10) / 2) with (2*l2) by (unfold l2; field).
  replace (0 + 2*l0/2*(2*l0/2) + 2*l1/2*(2*l1/2) + 2*l2/2*(2*l2/2)) with (l0*l0 + l1*l1 + l2*l2) by field.
  fold s. fold c. fold th.
  replace (((r21 - r12) / 2 / s * th - (r12 - r21) / 2 / s * th) / 2) with (l0/s*th) by (unfold l0; field; lra).
  replace (((r02 - r20) / 2 / s * th - (r20 - r02) / 2 / s * th) / 2) with (l1/s*th) by (unfold l1; field; lra).
  replace (((r10 - r01) / 2 / s * th - (r01 - r10) / 2 / s * th) / 2) with (l2/s*th) by (unfold l2; field; lra).
  assert (N : sqrt (0 + l0/s*th*(l0/s*th) + l1/s*th*(l1/s*th) + l2/s*th*(l2/s*th)) = th).
  { replace (0 + l0/s*th*(l0/s*th) + l1/s*th*(l1/s*th) + l2/s*th*(l2/s*th)) with (th*th*((l0*l0+l1*l1+l2*l2)/(s*s))) by (field; lra).
    rewrite <- Hss. replace (s*s/(s*s)) with 1 by (field; lra). rewrite Rmult_1_r. apply sqrt_square. lra. }
  rewrite N. tuple_eq ltac:(first [reflexivity | field; lra]).
Qed.

(* extraction recovers the angle and the axis of Rodrigues' formula (0 < th < pi, unit axis) *)
Theorem angvec_general_recovers (th : R) (u : V3 R) : 0 < th < PI -> normsq3 Rops u = 1 ->
  let '(u0,u1,u2) := u in angvec_general Rops (rodrigues_ref th u) = (th, u0, u1, u2).
Proof.
  intros Hth Hu. destruct u as [[u0 u1] u2]. autounfold with smlin in Hu. sm_simpl.
  assert (Hs : 0 < sin th) by (apply sin_gt_0; lra).
  assert (Hcs : cos th * cos th + sin th * sin th = 1) by (pose proof (sin2_cos2 th) as Q; unfold Rsqr in Q; lra).
  set (M := rodrigues_ref th (u0,u1,u2)).
  assert (L : lvec M = (sin th * u0, sin th * u1, sin th * u2)) by (unfold M, rodrigues_ref, lvec; lin_simpl; tuple_eq ltac:(field)).
  assert (C : ctr M = cos th).
  { unfold M, rodrigues_ref, ctr. lin_simpl.
    transitivity (cos th + (1 - cos th)*(1 - (u0*u0+u1*u1+u2*u2))); [field | rewrite Hu; ring]. }
  assert (S2 : st2 M = sin th * sin th).
  { assert (Q : st2 M = (let '(a,b,c) := lvec M in a*a + b*b + c*c)) by (unfold M, rodrigues_ref, st2, lvec; lin_simpl; reflexivity).
    rewrite Q, L. cbv beta iota. transitivity (sin th * sin th * (u0*u0+u1*u1+u2*u2)); [ring | rewrite Hu; ring]. }
  assert (P : 0 < st2 M) by (rewrite S2; nra).
  pose proof (angvec_general_closed_form M P) as F. cbv zeta in F. rewrite L, C, S2 in F. rewrite sqrt_square in F by lra.
  assert (Eth : atan2 (sin th) (cos th) = th).
  { destruct (cs_unit_atan2 (cos th) (sin th) Hcs) as [E1 E2]. destruct (atan2_pos_range (sin th) (cos th) Hs) as [P1 P2].
    apply cos_inj; [lra|lra|exact E1]. }
  rewrite Eth in F. etransitivity; [exact F|]. tuple_eq ltac:(first [reflexivity | field; lra]).
Qed.

Theorem angvec_general_right_inverse (M : M33 R) : SO3 M -> 0 < st2 M ->
  let '(th, a0, a1, a2) := angvec_general Rops M in
  rodrigues_ref th (a0, a1, a2) = M /\ 0 < th < PI /\ a0*a0 + a1*a1 + a2*a2 = 1.
Proof.
  intros H Hst. pose proof (so3_axis_identities M H) as I.
  destruct M as [[[[r00 r01] r02] [[r10 r11] r12]] [[r20 r21] r22]]. unfold st2 in Hst. cbv zeta in I.
  set (c := (r00 + r11 + r22 - 1)/2) in *. set (l0 := (r21-r12)/2) in *. set (l1 := (r02-r20)/2) in *. set (l2 := (r10-r01)/2) in *.
  destruct I as (I0 & I1 & I2 & I3 & I4 & I5 & I6).
  set (s := sqrt (l0*l0 + l1*l1 + l2*l2)).
  assert (Hs : 0 < s) by (apply sqrt_lt_R0; exact Hst).
  assert (Hss : s*s = l0*l0 + l1*l1 + l2*l2) by (apply sqrt_sqrt; lra).
  assert (Hu : c*c + s*s = 1) by lra.
  destruct (cs_unit_atan2 c s Hu) as [Ec Es].
  destruct (atan2_pos_range s c Hs) as [Hth0 Hth1].
  set (th := atan2 s c) in *.
  (* the model, unfolded *)
  match goal with |- context[angvec_general Rops ?m] => assert (E : angvec_general Rops m = (th, l0/s, l1/s, l2/s)) end.
  { unfold angvec_general, skewpart, vex_py, norm_py, trc. sm_simpl.
    replace ((r21 - r12) / 2 - (r12 - r21) / 2) with (2*l0) by (unfold l0; field).
    replace ((r02 - r20) / 2 - (r20 - r02) / 2) with (2*l1) by (unfold l1; field).
    replace ((r10 - r01) / 2 - (r01 - r10) / 2) with (2*l2) by (unfold l2; field).
    replace (0 + 2*l0/2*(2*l0/2) + 2*l1/2*(2*l1/2) + 2*l2/2*(2*l2/2)) with (l0*l0 + l1*l1 + l2*l2) by field.
    fold s. fold c. fold th.
    replace (((r21 - r12) / 2 / s * th - (r12 - r21) / 2 / s * th) / 2) with (l0/s*th) by (unfold l0; field; lra).
    replace (((r02 - r20) / 2 / s * th - (r20 - r02) / 2 / s * th) / 2) with (l1/s*th) by (unfold l1; field; lra).
    replace (((r10 - r01) / 2 / s * th - (r01 - r10) / 2 / s * th) / 2) with (l2/s*th) by (unfold l2; field; lra).
    assert (N : sqrt (0 + l0/s*th*(l0/s*th) + l1/s*th*(l1/s*th) + l2/s*th*(l2/s*th)) = th).
    { replace (0 + l0/s*th*(l0/s*th) + l1/s*th*(l1/s*th) + l2/s*th*(l2/s*th)) with (th*th*((l0*l0+l1*l1+l2*l2)/(s*s))) by (field; lra).
      rewrite <- Hss. replace (s*s/(s*s)) with 1 by (field; lra). rewrite Rmult_1_r. apply sqrt_square. lra. }
    rewrite N. tuple_eq ltac:(first [reflexivity | field; lra]). }
  rewrite E. split; [|split; [lra|]].
  - assert (D01 : r01 = (r01+r10)/2 - l2) by (unfold l2; field).
    assert (D10 : r10 = (r01+r10)/2 + l2) by (unfold l2; field).
    assert (D02 : r02 = (r02+r20)/2 + l1) by (unfold l1; field).
    assert (D20 : r20 = (r02+r20)/2 - l1) by (unfold l1; field).
    assert (D12 : r12 = (r12+r21)/2 - l0) by (unfold l0; field).
    assert (D21 : r21 = (r12+r21)/2 + l0) by (unfold l0; field).
    set (S01 := (r01+r10)/2) in *. set (S02 := (r02+r20)/2) in *. set (S12 := (r12+r21)/2) in *.
    unfold rodrigues_ref. lin_simpl. fold th. rewrite Ec, Es.
    clear Ec Es Hth0 Hth1 E H Hst. clearbody th. clear th.
    clearbody S01 S02 S12 l0 l1 l2 c. clearbody s.
    rewrite D01, D10, D02, D20, D12, D21. clear D01 D10 D02 D20 D12 D21.
    tuple_eq ltac:(idtac).
    all: apply Rmult_eq_reg_r with (s*s); [|clear - Hs; nra]; field_simplify; [|lra..];
         replace (s^2) with (s*s) by ring; replace (s^3) with (s*(s*s)) by ring; rewrite ?Hss.
    all: clear Hs Hss Hu.
    all: repeat match goal with |- context[?x ^ 2] => replace (x^2) with (x*x) by ring end.
    all: nsatz.
  - apply Rmult_eq_reg_r with (s*s); [|clear - Hs; nra]. field_simplify; [|lra]. replace (s^2) with (s*s) by ring. lra.
Qed.
