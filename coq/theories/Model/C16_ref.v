(* C16 -- reference semantics of the entries documented ':SymPy: supported', written with the Base/Lin.v generics.
   These are what the NUMERIC path of the library implements (rotation about an axis from (cos, sin), Euler / RPY
   products in the documented order, [R' | -R' t] inverse, ...).  Generic over the ops record. *)
From Coq Require Import ZArith.
From SM Require Import Base.Ops Base.Lin.

Section Ref.
Context {T : Type} (O : ops T).
Local Notation "0" := (zero O). Local Notation "1" := (one O).
Local Infix "+" := (add O). Local Infix "-" := (sub O). Local Infix "*" := (mul O).
Local Infix "/" := (div O). Local Notation "- x" := (neg O x).

Definition rotx_ref (t : T) : M33 T := rotx_cs O (cos_ O t) (sin_ O t).
Definition roty_ref (t : T) : M33 T := roty_cs O (cos_ O t) (sin_ O t).
Definition rotz_ref (t : T) : M33 T := rotz_cs O (cos_ O t) (sin_ O t).
Definition zero3 : V3 T := (0,0,0).
Definition r2t3 (R : M33 T) : M44 T := rt2tr3 O R zero3.
Definition transl_ref (x y z : T) : M44 T := rt2tr3 O (I33 O) (x,y,z).

(* documented orders: eul2r = Rz(phi) Ry(theta) Rz(psi);
   rpy 'zyx' = Rz(yaw) Ry(pitch) Rx(roll); 'xyz' = Rx(yaw) Ry(pitch) Rz(roll); 'yxz' = Ry(yaw) Rx(pitch) Rz(roll) *)
Definition eul2r_ref (v : V3 T) : M33 T :=
  let '(a,b,c) := v in mmul33 O (mmul33 O (rotz_ref a) (roty_ref b)) (rotz_ref c).
Definition rpy_zyx_ref (v : V3 T) : M33 T :=
  let '(r,p,y) := v in mmul33 O (mmul33 O (rotz_ref y) (roty_ref p)) (rotx_ref r).
Definition rpy_xyz_ref (v : V3 T) : M33 T :=
  let '(r,p,y) := v in mmul33 O (mmul33 O (rotx_ref y) (roty_ref p)) (rotz_ref r).
Definition rpy_yxz_ref (v : V3 T) : M33 T :=
  let '(r,p,y) := v in mmul33 O (mmul33 O (roty_ref y) (rotx_ref p)) (rotz_ref r).
Definition vscale3k (k : T) (v : V3 T) : V3 T := let '(a,b,c) := v in (k*a, k*b, k*c).

(* a 4x4 / 3x3 array read as a pose: rotation block, translation column, structural last row *)
Definition as_pose4 (A : M44 T) : M44 T := rt2tr3 O (t2r3 A) (transl3 A).
Definition as_pose3 (A : M33 T) : M33 T := rt2tr2 O (t2r2 A) (transl2 A).
Definition trinv_g (A : M44 T) : M44 T :=
  rt2tr3 O (mtr33 (t2r3 A)) (vneg3 O (mv33 O (mtr33 (t2r3 A)) (transl3 A))).
Definition trinv2_ref (A : M33 T) : M33 T :=
  rt2tr2 O (mtr22 (t2r2 A)) (vneg2 O (mv22 O (mtr22 (t2r2 A)) (transl2 A))).
Definition pt3 (A : M44 T) (v : V3 T) : V3 T := vadd3 O (mv33 O (t2r3 A) v) (transl3 A).
Definition pt2 (A : M33 T) (v : V2 T) : V2 T := vadd2 O (mv22 O (t2r2 A) v) (transl2 A).

Definition madd44 (A B : M44 T) : M44 T :=
  let '(a0,a1,a2,a3) := A in let '(b0,b1,b2,b3) := B in (vadd4 O a0 b0, vadd4 O a1 b1, vadd4 O a2 b2, vadd4 O a3 b3).
Definition skewa6_ref (v : V6 T) : M44 T :=
  let '(x,y,z,a,b,c) := v in ((0, -c, b, x), (c, 0, -a, y), (-b, a, 0, z), (0,0,0,0)).
Definition skewa3_ref (v : V3 T) : M33 T :=
  let '(x,y,w) := v in ((0, -w, x), (w, 0, y), (0,0,0)).
Definition skew1_ref (w : T) : M22 T := ((0, -w), (w, 0)).
Definition delta2tr_ref (d : V6 T) : M44 T := madd44 (I44 O) (skewa6_ref d).
Definition tr2delta_ref (Td : M44 T) : V6 T := v6 (transl3 Td) (vex3 O (msub33 O (t2r3 Td) (I33 O))).
Definition vexa4_ref (A : M44 T) : V6 T := v6 (transl3 A) (vex3 O (t2r3 A)).
Definition vex2_ref (A : M22 T) : T := let '((_,b),(c,_)) := A in (c - b) / two O.
Definition vexa3_ref (A : M33 T) : V3 T := let '(x,y) := transl2 A in (x, y, vex2_ref (t2r2 A)).
Definition tr2jac_ref (A : M44 T) : M66 T :=
  let Rt := mtr33 (t2r3 A) in block66 Rt (Z33 O) (Z33 O) Rt.
Definition tr2jac_sb_ref (A : M44 T) : M66 T :=
  let Rt := mtr33 (t2r3 A) in block66 Rt (mtr33 (mmul33 O (skew3 O (transl3 A)) (t2r3 A))) (Z33 O) Rt.
Definition Ad_ref (A : M44 T) : M66 T :=
  let R := t2r3 A in block66 R (mmul33 O (skew3 O (transl3 A)) R) (Z33 O) R.
(* trnorm: keep the direction of the third column a, n = o x a, o' = a x n, every column divided by its length *)
Definition unit3 (v : V3 T) : V3 T :=
  let n := sqrt_ O (dot3 O v v) in let '(a,b,c) := v in (a / n, b / n, c / n).
Definition trnorm3_ref (Rm : M33 T) : M33 T :=
  let o := col33 Rm 1 in let a := col33 Rm 2 in
  let n := cross3 O o a in let o' := cross3 O a n in
  mtr33 (unit3 n, unit3 o', unit3 a).
Definition trnorm_ref (A : M44 T) : M44 T := rt2tr3 O (trnorm3_ref (t2r3 A)) (transl3 A).
(* elementwise maps (pose OP scalar acts elementwise on the matrix) *)
Definition mmap22 (f : T -> T) (A : M22 T) : M22 T := let '((a,b),(c,d)) := A in ((f a, f b), (f c, f d)).
Definition mmap33 (f : T -> T) (A : M33 T) : M33 T :=
  let '((a00,a01,a02),(a10,a11,a12),(a20,a21,a22)) := A in
  ((f a00, f a01, f a02), (f a10, f a11, f a12), (f a20, f a21, f a22)).
Definition mmap44 (f : T -> T) (A : M44 T) : M44 T :=
  let '((a00,a01,a02,a03),(a10,a11,a12,a13),(a20,a21,a22,a23),(a30,a31,a32,a33)) := A in
  ((f a00, f a01, f a02, f a03), (f a10, f a11, f a12, f a13), (f a20, f a21, f a22, f a23), (f a30, f a31, f a32, f a33)).
End Ref.

Create HintDb smref discriminated.
#[export] Hint Unfold rotx_ref roty_ref rotz_ref zero3 r2t3 transl_ref eul2r_ref rpy_zyx_ref rpy_xyz_ref rpy_yxz_ref vscale3k
  as_pose4 as_pose3 trinv_g trinv2_ref pt3 pt2 madd44 skewa6_ref skewa3_ref skew1_ref delta2tr_ref tr2delta_ref vexa4_ref
  vex2_ref vexa3_ref tr2jac_ref tr2jac_sb_ref Ad_ref mmap22 mmap33 mmap44 unit3 trnorm3_ref trnorm_ref : smref.
