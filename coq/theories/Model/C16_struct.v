(* C16 -- structural constants of symbolic results.
   A pattern says, position by position, whether an entry must be the constant one, the constant zero,
   or may be anything.  [matches O p l] is stated over an ABSTRACT ops record, so it can only be proved by
   conversion (reflexivity): an entry such as (1 * x + 0), cos 0, (2 - 1) or (x - x) is NOT convertible to
   [one O] / [zero O] and makes the obligation fail, although it has the right value in R. *)
From Coq Require Import List.
From SM Require Import Base.Ops.
Import ListNotations.

Inductive pat := P1 | P0 | Px.

Fixpoint matches {T} (O : ops T) (p : list pat) (l : list T) : Prop :=
  match p, l with
  | [], [] => True
  | P1 :: p', a :: l' => a = one O /\ matches O p' l'
  | P0 :: p', a :: l' => a = zero O /\ matches O p' l'
  | Px :: p', _ :: l' => matches O p' l'
  | _, _ => False
  end.

(* row-major flattening of the fixed shapes *)
Definition fl2 {T} (v : V2 T) : list T := let '(a,b) := v in [a;b].
Definition fl3 {T} (v : V3 T) : list T := let '(a,b,c) := v in [a;b;c].
Definition fl4 {T} (v : V4 T) : list T := let '(a,b,c,d) := v in [a;b;c;d].
Definition fl6 {T} (v : V6 T) : list T := let '(a,b,c,d,e,f) := v in [a;b;c;d;e;f].
Definition fl22 {T} (A : M22 T) : list T := let '(r0,r1) := A in fl2 r0 ++ fl2 r1.
Definition fl33 {T} (A : M33 T) : list T := let '(r0,r1,r2) := A in fl3 r0 ++ fl3 r1 ++ fl3 r2.
Definition fl44 {T} (A : M44 T) : list T := let '(r0,r1,r2,r3) := A in fl4 r0 ++ fl4 r1 ++ fl4 r2 ++ fl4 r3.
Definition fl66 {T} (A : M66 T) : list T :=
  let '(r0,r1,r2,r3,r4,r5) := A in fl6 r0 ++ fl6 r1 ++ fl6 r2 ++ fl6 r3 ++ fl6 r4 ++ fl6 r5.

(* the patterns of the reference matrices (row-major) *)
Definition pat_rotx := [P1;P0;P0; P0;Px;Px; P0;Px;Px].
Definition pat_roty := [Px;P0;Px; P0;P1;P0; Px;P0;Px].
Definition pat_rotz := [Px;Px;P0; Px;Px;P0; P0;P0;P1].
Definition pat_any33 := [Px;Px;Px; Px;Px;Px; Px;Px;Px].
(* homogeneous 4x4: rotation pattern r (9 entries), translation column given by t (3 entries), last row 0 0 0 1 *)
Definition hom44 (r t : list pat) : list pat :=
  match r, t with
  | [a;b;c;d;e;f;g;h;i], [x;y;z] => [a;b;c;x; d;e;f;y; g;h;i;z; P0;P0;P0;P1]
  | _, _ => []
  end.
Definition t000 := [P0;P0;P0].
Definition txxx := [Px;Px;Px].
Definition pat_I33 := [P1;P0;P0; P0;P1;P0; P0;P0;P1].
Definition pat_skew3 := [P0;Px;Px; Px;P0;Px; Px;Px;P0].
Definition pat_skew1 := [P0;Px; Px;P0].
Definition pat_skewa6 := [P0;Px;Px;Px; Px;P0;Px;Px; Px;Px;P0;Px; P0;P0;P0;P0].
Definition pat_skewa3 := [P0;Px;Px; Px;P0;Px; P0;P0;P0].
Definition pat_delta2tr := [P1;Px;Px;Px; Px;P1;Px;Px; Px;Px;P1;Px; P0;P0;P0;P1].
Definition pat_hom33 := [Px;Px;Px; Px;Px;Px; P0;P0;P1].
(* 6x6 [[A, B],[0, D]]: lower-left block zero; upper-right zero when [ur0] *)
Definition pat_jac (ur0 : bool) : list pat :=
  let u := if ur0 then P0 else Px in
  [Px;Px;Px;u;u;u; Px;Px;Px;u;u;u; Px;Px;Px;u;u;u;
   P0;P0;P0;Px;Px;Px; P0;P0;P0;Px;Px;Px; P0;P0;P0;Px;Px;Px].

(* tactic: prove a [matches] goal by conversion only *)
Ltac struct_refl := intros; repeat (split; [reflexivity|]); exact I.

(* sanity of the definitions: the reference builders have the patterns, for arbitrary abstract scalars *)
From SM Require Import Base.Lin.
Lemma rotx_cs_pat {T} (O : ops T) c s : matches O pat_rotx (fl33 (rotx_cs O c s)). Proof. struct_refl. Qed.
Lemma roty_cs_pat {T} (O : ops T) c s : matches O pat_roty (fl33 (roty_cs O c s)). Proof. struct_refl. Qed.
Lemma rotz_cs_pat {T} (O : ops T) c s : matches O pat_rotz (fl33 (rotz_cs O c s)). Proof. struct_refl. Qed.
Lemma skew3_pat {T} (O : ops T) v : matches O pat_skew3 (fl33 (skew3 O v)).
Proof. destruct v as [[a b] c]. struct_refl. Qed.
Lemma rt2tr3_pat {T} (O : ops T) R t : matches O (hom44 pat_any33 txxx) (fl44 (rt2tr3 O R t)).
Proof. destruct R as [[[[a b] c] [[d e] f]] [[g h] i]], t as [[x y] z]. struct_refl. Qed.
(* and the pattern really rejects junk: 1*x+0 is not "x is structurally one" *)
Lemma pattern_rejects_junk : exists (T : Type) (O : ops T) (x : T),
  ~ matches O [P1] [add O (mul O (one O) x) (zero O)] /\ x = one O.
Proof.
  exists nat.
  exists {| zero := 0; one := 1; add := fun a b => S (a + b); sub := Nat.sub; mul := Nat.mul; div := Nat.div;
            neg := fun a => a; sqrt_ := fun a => a; sin_ := fun a => a; cos_ := fun a => a; tan_ := fun a => a;
            acos_ := fun a => a; asin_ := fun a => a; atan_ := fun a => a; atan2_ := fun a _ => a;
            abs_ := fun a => a; floor_ := fun a => a; exp_ := fun a => a; ln_ := fun a => a;
            ltb := Nat.ltb; leb := Nat.leb; eqb := Nat.eqb; of_Z := fun _ => 0; eps := 0; pi_f := 0 |}.
  exists 1. split; [|reflexivity]. cbn. intros [H _]. discriminate H.
Qed.
