(* Core algebra behind the r2q model (Model/C04_R2q.v), independent of the model's text: for every R in SO(3) on which r2q does not take its
   degenerate exit, q2r (r2q R) = R -- all three "largest diagonal" branches and both signs; the result is a unit
   quaternion with non-negative scalar part.  Fixed file (depends on nothing generated). *)
From Coq Require Import Reals ZArith Lra Nsatz Psatz Bool.
From SM Require Import Base.Ops Base.Lin Base.RInst Base.RLin.
Open Scope R_scope.

Lemma SO3_trace_bounds a00 a01 a02 a10 a11 a12 a20 a21 a22 :
  SO3 ((a00,a01,a02),(a10,a11,a12),(a20,a21,a22)) -> 0 <= a00 + a11 + a22 + 1 /\ a00 + a11 + a22 <= 3.
Proof.
  intros H.
  assert (S : (a21 - a12)*(a21 - a12) + (a02 - a20)*(a02 - a20) + (a10 - a01)*(a10 - a01) = (a00 + a11 + a22 + 1) * (3 - (a00 + a11 + a22))).
  { so3_facts H. nsatz. }
  unfold SO3 in H. destruct H as (H1&H2&H3&_).
  assert (D0 : a00 <= 1) by nra. assert (D1 : a11 <= 1) by nra. assert (D2 : a22 <= 1) by nra.
  clear H1 H2 H3. split; [|lra].
  destruct (Req_dec (a00 + a11 + a22) 3) as [E|E]; [lra|].
  assert (P : 0 < 3 - (a00 + a11 + a22)) by lra.
  pose proof (Rle_0_sqr (a21 - a12)) as Q1. pose proof (Rle_0_sqr (a02 - a20)) as Q2. pose proof (Rle_0_sqr (a10 - a01)) as Q3.
  unfold Rsqr in *.
  assert (Q : 0 <= (a00 + a11 + a22 + 1) * (3 - (a00 + a11 + a22))) by lra.
  clear S Q1 Q2 Q3. generalize dependent (a00 + a11 + a22). intros. nra.
Qed.

Lemma q2r_scaled (s f kx ky kz a g : R) : f*f = a -> s*f = g ->
  q2r_ref Rops (s, f*kx, f*ky, f*kz) =
  ((1 - 2*a*(ky*ky + kz*kz), 2*(a*kx*ky - g*kz), 2*(a*kx*kz + g*ky)),
   (2*(a*kx*ky + g*kz), 1 - 2*a*(kx*kx + kz*kz), 2*(a*ky*kz - g*kx)),
   (2*(a*kx*kz - g*ky), 2*(a*ky*kz + g*kx), 1 - 2*a*(kx*kx + ky*ky))).
Proof. intros Ha Hg. subst a g. lin_simpl. tuple_eq ltac:(ring). Qed.

Lemma diag_div D X a : D <> 0 -> 2*D - X = 2*D*a -> 1 - 2*(1/(4*D))*X = a.
Proof. intros HD H. apply (Rmult_eq_reg_l (2*D)); [|lra]. rewrite <- H. field. lra. Qed.
Lemma offm_div D P Q G Z a : D <> 0 -> P*Q - G*Z = 2*D*a -> 2*(1/(4*D)*P*Q - G/(4*D)*Z) = a.
Proof. intros HD H. apply (Rmult_eq_reg_l (2*D)); [|lra]. rewrite <- H. field. lra. Qed.
Lemma offp_div D P Q G Z a : D <> 0 -> P*Q + G*Z = 2*D*a -> 2*(1/(4*D)*P*Q + G/(4*D)*Z) = a.
Proof. intros HD H. apply (Rmult_eq_reg_l (2*D)); [|lra]. rewrite <- H. field. lra. Qed.
Lemma sq_eq_nonneg x y : 0 <= x -> 0 <= y -> x*x = y*y -> x = y.
Proof. intros. nra. Qed.

(* One lemma per "largest diagonal" branch; e = +1 is the `add` case, e = -1 the subtract case.
   With the hidden quaternion (s,x,y,z) of R: branch 0 has k = 4(s + e x)(x,y,z), D = 4(s + e x)^2. *)

Lemma r2q_branch0_core a00 a01 a02 a10 a11 a12 a20 a21 a22 (e kx ky kz qs f : R) :
  SO3 ((a00,a01,a02),(a10,a11,a12),(a20,a21,a22)) -> (e = 1 \/ e = -1) -> 0 <= e * (a21 - a12) ->
  kx = (a21 - a12) + e*(a00 - a11 - a22 + 1) -> ky = (a02 - a20) + e*(a10 + a01) -> kz = (a10 - a01) + e*(a20 + a02) ->
  0 < kx*kx + ky*ky + kz*kz ->
  qs = sqrt (a00 + a11 + a22 + 1) / 2 -> f = sqrt (1 - qs*qs) / sqrt (kx*kx + ky*ky + kz*kz) ->
  q2r_ref Rops (qs, f*kx, f*ky, f*kz) = ((a00,a01,a02),(a10,a11,a12),(a20,a21,a22))
  /\ qs*qs + (f*kx)*(f*kx) + (f*ky)*(f*ky) + (f*kz)*(f*kz) = 1 /\ 0 <= qs.
Proof.
  intros H He Hs Ekx Eky Ekz HN Eqs Ef.
  set (t1 := a00 + a11 + a22 + 1) in *. set (N := kx*kx + ky*ky + kz*kz) in *.
  destruct (SO3_trace_bounds _ _ _ _ _ _ _ _ _ H) as [Ht1 Ht3]. fold t1 in Ht1.
  assert (Hqs : qs*qs = t1/4). { rewrite Eqs. pose proof (sqrt_sqrt t1 Ht1). nra. }
  assert (Hqs0 : 0 <= qs). { rewrite Eqs. pose proof (sqrt_pos t1). lra. }
  pose (D := t1 + 2*e*(a21 - a12) + (a00 - a11 - a22 + 1)).
  assert (EE : e*e = 1) by (destruct He; subst e; ring).
  assert (F1 : N = (4 - t1) * D). { unfold N, D, t1. rewrite Ekx, Eky, Ekz. clear - H EE. so3_facts H. nsatz. }
  assert (F2 : t1 * (a00 - a11 - a22 + 1) = (a21 - a12)*(a21 - a12)). { unfold t1. clear - H. so3_facts H. nsatz. }
  assert (H4 : 0 <= 4 - t1) by (unfold t1; lra).
  assert (HD : 0 < D /\ 0 < 4 - t1).
  { destruct (Req_dec (4 - t1) 0) as [E|E]. rewrite E in F1. lra.
    assert (0 < 4 - t1) by lra. split; [|assumption]. rewrite F1 in HN. nra. }
  destruct HD as [HD H4'].
  assert (Hsn : sqrt N * sqrt N = N) by (apply sqrt_sqrt; lra).
  assert (Hsn0 : 0 < sqrt N) by (apply sqrt_lt_R0; assumption).
  assert (H1q : 0 <= 1 - qs*qs) by lra.
  assert (Hff : f*f = 1/(4*D)).
  { rewrite Ef. pose proof (sqrt_sqrt _ H1q) as E1.
    replace (sqrt (1 - qs*qs) / sqrt N * (sqrt (1 - qs*qs) / sqrt N)) with ((sqrt (1 - qs*qs) * sqrt (1 - qs*qs)) / (sqrt N * sqrt N)) by (field; lra).
    rewrite E1, Hsn, Hqs, F1. field. lra. }
  assert (Hf0 : 0 <= f). { rewrite Ef. pose proof (sqrt_pos (1 - qs*qs)). apply Rmult_le_pos; [assumption|]. left. apply Rinv_0_lt_compat. assumption. }
  assert (Hg : qs*f = (t1 + e*(a21 - a12))/(4*D)).
  { apply sq_eq_nonneg.
    - apply Rmult_le_pos; assumption.
    - apply Rmult_le_pos; [lra|]. left. apply Rinv_0_lt_compat. lra.
    - replace (qs*f*(qs*f)) with ((qs*qs)*(f*f)) by ring. rewrite Hqs, Hff.
      assert (G : (t1 + e*(a21 - a12))*(t1 + e*(a21 - a12)) = t1 * D). { unfold D. clear - EE F2. clearbody t1. nsatz. }
      replace ((t1 + e * (a21 - a12)) / (4 * D) * ((t1 + e * (a21 - a12)) / (4 * D))) with (((t1 + e*(a21 - a12))*(t1 + e*(a21 - a12))) / (16*D*D)) by (field; lra).
      rewrite G. field. lra. }
  split; [|split; [|exact Hqs0]].
  2:{ replace (qs*qs + f*kx*(f*kx) + f*ky*(f*ky) + f*kz*(f*kz)) with (qs*qs + (f*f)*N) by (unfold N; ring).
      rewrite Hff, Hqs, F1. field. lra. }
  rewrite (q2r_scaled qs f kx ky kz _ _ Hff Hg).
  clear Hg Hff Hf0 H1q Hsn0 Hsn Hqs Hqs0 HN Ht1 Ht3 H4 H4' F1 F2 Hs EE Eqs Ef.
  subst kx ky kz. unfold D, t1 in *. clear t1 N D qs f.
  destruct He; subst e; so3_facts H;
  tuple_eq ltac:(first [apply diag_div | apply offm_div | apply offp_div]; [lra | nsatz]).
Qed.

Lemma r2q_branch1_core a00 a01 a02 a10 a11 a12 a20 a21 a22 (e kx ky kz qs f : R) :
  SO3 ((a00,a01,a02),(a10,a11,a12),(a20,a21,a22)) -> (e = 1 \/ e = -1) -> 0 <= e * (a02 - a20) ->
  kx = (a21 - a12) + e*(a10 + a01) -> ky = (a02 - a20) + e*(a11 - a00 - a22 + 1) -> kz = (a10 - a01) + e*(a21 + a12) ->
  0 < kx*kx + ky*ky + kz*kz ->
  qs = sqrt (a00 + a11 + a22 + 1) / 2 -> f = sqrt (1 - qs*qs) / sqrt (kx*kx + ky*ky + kz*kz) ->
  q2r_ref Rops (qs, f*kx, f*ky, f*kz) = ((a00,a01,a02),(a10,a11,a12),(a20,a21,a22))
  /\ qs*qs + (f*kx)*(f*kx) + (f*ky)*(f*ky) + (f*kz)*(f*kz) = 1 /\ 0 <= qs.
Proof.
  intros H He Hs Ekx Eky Ekz HN Eqs Ef.
  set (t1 := a00 + a11 + a22 + 1) in *. set (N := kx*kx + ky*ky + kz*kz) in *.
  destruct (SO3_trace_bounds _ _ _ _ _ _ _ _ _ H) as [Ht1 Ht3]. fold t1 in Ht1.
  assert (Hqs : qs*qs = t1/4). { rewrite Eqs. pose proof (sqrt_sqrt t1 Ht1). nra. }
  assert (Hqs0 : 0 <= qs). { rewrite Eqs. pose proof (sqrt_pos t1). lra. }
  pose (D := t1 + 2*e*(a02 - a20) + (a11 - a00 - a22 + 1)).
  assert (EE : e*e = 1) by (destruct He; subst e; ring).
  assert (F1 : N = (4 - t1) * D). { unfold N, D, t1. rewrite Ekx, Eky, Ekz. clear - H EE. so3_facts H. nsatz. }
  assert (F2 : t1 * (a11 - a00 - a22 + 1) = (a02 - a20)*(a02 - a20)). { unfold t1. clear - H. so3_facts H. nsatz. }
  assert (H4 : 0 <= 4 - t1) by (unfold t1; lra).
  assert (HD : 0 < D /\ 0 < 4 - t1).
  { destruct (Req_dec (4 - t1) 0) as [E|E]. rewrite E in F1. lra.
    assert (0 < 4 - t1) by lra. split; [|assumption]. rewrite F1 in HN. nra. }
  destruct HD as [HD H4'].
  assert (Hsn : sqrt N * sqrt N = N) by (apply sqrt_sqrt; lra).
  assert (Hsn0 : 0 < sqrt N) by (apply sqrt_lt_R0; assumption).
  assert (H1q : 0 <= 1 - qs*qs) by lra.
  assert (Hff : f*f = 1/(4*D)).
  { rewrite Ef. pose proof (sqrt_sqrt _ H1q) as E1.
    replace (sqrt (1 - qs*qs) / sqrt N * (sqrt (1 - qs*qs) / sqrt N)) with ((sqrt (1 - qs*qs) * sqrt (1 - qs*qs)) / (sqrt N * sqrt N)) by (field; lra).
    rewrite E1, Hsn, Hqs, F1. field. lra. }
  assert (Hf0 : 0 <= f). { rewrite Ef. pose proof (sqrt_pos (1 - qs*qs)). apply Rmult_le_pos; [assumption|]. left. apply Rinv_0_lt_compat. assumption. }
  assert (Hg : qs*f = (t1 + e*(a02 - a20))/(4*D)).
  { apply sq_eq_nonneg.
    - apply Rmult_le_pos; assumption.
    - apply Rmult_le_pos; [lra|]. left. apply Rinv_0_lt_compat. lra.
    - replace (qs*f*(qs*f)) with ((qs*qs)*(f*f)) by ring. rewrite Hqs, Hff.
      assert (G : (t1 + e*(a02 - a20))*(t1 + e*(a02 - a20)) = t1 * D). { unfold D. clear - EE F2. clearbody t1. nsatz. }
      replace ((t1 + e * (a02 - a20)) / (4 * D) * ((t1 + e * (a02 - a20)) / (4 * D))) with (((t1 + e*(a02 - a20))*(t1 + e*(a02 - a20))) / (16*D*D)) by (field; lra).
      rewrite G. field. lra. }
  split; [|split; [|exact Hqs0]].
  2:{ replace (qs*qs + f*kx*(f*kx) + f*ky*(f*ky) + f*kz*(f*kz)) with (qs*qs + (f*f)*N) by (unfold N; ring).
      rewrite Hff, Hqs, F1. field. lra. }
  rewrite (q2r_scaled qs f kx ky kz _ _ Hff Hg).
  clear Hg Hff Hf0 H1q Hsn0 Hsn Hqs Hqs0 HN Ht1 Ht3 H4 H4' F1 F2 Hs EE Eqs Ef.
  subst kx ky kz. unfold D, t1 in *. clear t1 N D qs f.
  destruct He; subst e; so3_facts H;
  tuple_eq ltac:(first [apply diag_div | apply offm_div | apply offp_div]; [lra | nsatz]).
Qed.

Lemma r2q_branch2_core a00 a01 a02 a10 a11 a12 a20 a21 a22 (e kx ky kz qs f : R) :
  SO3 ((a00,a01,a02),(a10,a11,a12),(a20,a21,a22)) -> (e = 1 \/ e = -1) -> 0 <= e * (a10 - a01) ->
  kx = (a21 - a12) + e*(a20 + a02) -> ky = (a02 - a20) + e*(a21 + a12) -> kz = (a10 - a01) + e*(a22 - a00 - a11 + 1) ->
  0 < kx*kx + ky*ky + kz*kz ->
  qs = sqrt (a00 + a11 + a22 + 1) / 2 -> f = sqrt (1 - qs*qs) / sqrt (kx*kx + ky*ky + kz*kz) ->
  q2r_ref Rops (qs, f*kx, f*ky, f*kz) = ((a00,a01,a02),(a10,a11,a12),(a20,a21,a22))
  /\ qs*qs + (f*kx)*(f*kx) + (f*ky)*(f*ky) + (f*kz)*(f*kz) = 1 /\ 0 <= qs.
Proof.
  intros H He Hs Ekx Eky Ekz HN Eqs Ef.
  set (t1 := a00 + a11 + a22 + 1) in *. set (N := kx*kx + ky*ky + kz*kz) in *.
  destruct (SO3_trace_bounds _ _ _ _ _ _ _ _ _ H) as [Ht1 Ht3]. fold t1 in Ht1.
  assert (Hqs : qs*qs = t1/4). { rewrite Eqs. pose proof (sqrt_sqrt t1 Ht1). nra. }
  assert (Hqs0 : 0 <= qs). { rewrite Eqs. pose proof (sqrt_pos t1). lra. }
  pose (D := t1 + 2*e*(a10 - a01) + (a22 - a00 - a11 + 1)).
  assert (EE : e*e = 1) by (destruct He; subst e; ring).
  assert (F1 : N = (4 - t1) * D). { unfold N, D, t1. rewrite Ekx, Eky, Ekz. clear - H EE. so3_facts H. nsatz. }
  assert (F2 : t1 * (a22 - a00 - a11 + 1) = (a10 - a01)*(a10 - a01)). { unfold t1. clear - H. so3_facts H. nsatz. }
  assert (H4 : 0 <= 4 - t1) by (unfold t1; lra).
  assert (HD : 0 < D /\ 0 < 4 - t1).
  { destruct (Req_dec (4 - t1) 0) as [E|E]. rewrite E in F1. lra.
    assert (0 < 4 - t1) by lra. split; [|assumption]. rewrite F1 in HN. nra. }
  destruct HD as [HD H4'].
  assert (Hsn : sqrt N * sqrt N = N) by (apply sqrt_sqrt; lra).
  assert (Hsn0 : 0 < sqrt N) by (apply sqrt_lt_R0; assumption).
  assert (H1q : 0 <= 1 - qs*qs) by lra.
  assert (Hff : f*f = 1/(4*D)).
  { rewrite Ef. pose proof (sqrt_sqrt _ H1q) as E1.
    replace (sqrt (1 - qs*qs) / sqrt N * (sqrt (1 - qs*qs) / sqrt N)) with ((sqrt (1 - qs*qs) * sqrt (1 - qs*qs)) / (sqrt N * sqrt N)) by (field; lra).
    rewrite E1, Hsn, Hqs, F1. field. lra. }
  assert (Hf0 : 0 <= f). { rewrite Ef. pose proof (sqrt_pos (1 - qs*qs)). apply Rmult_le_pos; [assumption|]. left. apply Rinv_0_lt_compat. assumption. }
  assert (Hg : qs*f = (t1 + e*(a10 - a01))/(4*D)).
  { apply sq_eq_nonneg.
    - apply Rmult_le_pos; assumption.
    - apply Rmult_le_pos; [lra|]. left. apply Rinv_0_lt_compat. lra.
    - replace (qs*f*(qs*f)) with ((qs*qs)*(f*f)) by ring. rewrite Hqs, Hff.
      assert (G : (t1 + e*(a10 - a01))*(t1 + e*(a10 - a01)) = t1 * D). { unfold D. clear - EE F2. clearbody t1. nsatz. }
      replace ((t1 + e * (a10 - a01)) / (4 * D) * ((t1 + e * (a10 - a01)) / (4 * D))) with (((t1 + e*(a10 - a01))*(t1 + e*(a10 - a01))) / (16*D*D)) by (field; lra).
      rewrite G. field. lra. }
  split; [|split; [|exact Hqs0]].
  2:{ replace (qs*qs + f*kx*(f*kx) + f*ky*(f*ky) + f*kz*(f*kz)) with (qs*qs + (f*f)*N) by (unfold N; ring).
      rewrite Hff, Hqs, F1. field. lra. }
  rewrite (q2r_scaled qs f kx ky kz _ _ Hff Hg).
  clear Hg Hff Hf0 H1q Hsn0 Hsn Hqs Hqs0 HN Ht1 Ht3 H4 H4' F1 F2 Hs EE Eqs Ef.
  subst kx ky kz. unfold D, t1 in *. clear t1 N D qs f.
  destruct He; subst e; so3_facts H;
  tuple_eq ltac:(first [apply diag_div | apply offm_div | apply offp_div]; [lra | nsatz]).
Qed.

