(* C01 -- expression trees over a group-like structure and the closure theorem by induction.
   Generic in the carrier M, the validity predicate and the operations; Props/C01_ops.v instantiates
   it with the operator traces regenerated from /repo (SO3/SE3 through the classes, quaternion kernels).

   The operators of the library (super_pose.py):
     X * Y   -> x @ y                      Mul
     X / Y   -> x @ Y.inv()                Div
     X.inv()                               Inv
     X ** n  -> matrix_power(x, n), n >= 0;  X.inv() ** (-n), n < 0     Pow n   (iterated product of a, resp. of inv a)
     X.prod()-> identity @ x1 @ x2 ...     Prod    (left fold from the identity) *)
From Coq Require Import ZArith List.
Import ListNotations.

Section Expr.
Context {M : Type}.
Variable valid : M -> Prop.
Variable e1 : M.
Variable mul : M -> M -> M.
Variable inv : M -> M.
Hypothesis valid_1 : valid e1.
Hypothesis valid_mul : forall a b, valid a -> valid b -> valid (mul a b).
Hypothesis valid_inv : forall a, valid a -> valid (inv a).

Inductive expr : Type :=
  | Leaf (i : nat)
  | Mul (a b : expr)
  | Div (a b : expr)
  | Inv (a : expr)
  | Pow (a : expr) (n : Z)
  | Prod (l : list expr).

Fixpoint pow_nat (a : M) (n : nat) : M :=
  match n with O => e1 | S k => mul (pow_nat a k) a end.
Definition pow_Z (a : M) (n : Z) : M :=
  if (n <? 0)%Z then pow_nat (inv a) (Z.abs_nat n) else pow_nat a (Z.abs_nat n).
Definition prod_list (l : list M) : M := fold_left mul l e1.

Fixpoint eval (env : nat -> M) (e : expr) : M :=
  match e with
  | Leaf i => env i
  | Mul a b => mul (eval env a) (eval env b)
  | Div a b => mul (eval env a) (inv (eval env b))
  | Inv a => inv (eval env a)
  | Pow a n => pow_Z (eval env a) n
  | Prod l => prod_list (map (eval env) l)
  end.

Fixpoint depth (e : expr) : nat :=
  match e with
  | Leaf _ => 0
  | Mul a b | Div a b => S (Nat.max (depth a) (depth b))
  | Inv a | Pow a _ => S (depth a)
  | Prod l => S (fold_right (fun x m => Nat.max (depth x) m) 0 l)
  end.

Lemma valid_pow_nat a n : valid a -> valid (pow_nat a n).
Proof. intros Ha. induction n; simpl; auto. Qed.

Lemma valid_pow_Z a n : valid a -> valid (pow_Z a n).
Proof. intros Ha. unfold pow_Z. destruct (n <? 0)%Z; apply valid_pow_nat; auto. Qed.

Lemma valid_fold l : forall acc, valid acc -> Forall valid l -> valid (fold_left mul l acc).
Proof.
  induction l as [|x t IH]; simpl; intros acc Ha Hl; auto.
  inversion Hl; subst. apply IH; auto.
Qed.

Lemma valid_prod_list l : Forall valid l -> valid (prod_list l).
Proof. intros. apply valid_fold; auto. Qed.

(* induction principle that reaches inside the list of Prod *)
Lemma expr_ind_nested (P : expr -> Prop)
  (HL : forall i, P (Leaf i))
  (HM : forall a b, P a -> P b -> P (Mul a b))
  (HD : forall a b, P a -> P b -> P (Div a b))
  (HI : forall a, P a -> P (Inv a))
  (HP : forall a n, P a -> P (Pow a n))
  (HR : forall l, Forall P l -> P (Prod l)) : forall e, P e.
Proof.
  fix IH 1. intros [i|a b|a b|a|a n|l].
  - apply HL.
  - apply HM; apply IH.
  - apply HD; apply IH.
  - apply HI; apply IH.
  - apply HP; apply IH.
  - apply HR. induction l as [|x t IHl]; constructor; [apply IH | exact IHl].
Qed.

(* every expression tree -- any depth, any integer exponent, any product length -- over valid leaves is valid *)
Theorem closure_expr : forall (e : expr) (env : nat -> M), (forall i, valid (env i)) -> valid (eval env e).
Proof.
  intros e env Henv. induction e using expr_ind_nested; simpl; auto.
  - apply valid_pow_Z; auto.
  - apply valid_prod_list. induction H; simpl; constructor; auto.
Qed.
End Expr.

