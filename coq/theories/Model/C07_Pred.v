(* C07 -- hand-written models of the membership / unit / zero / skew predicates of spatialmath.base,
   generic over the ops record (R for the theorems, OCaml floats for the correspondence run).

   Every function mirrors the code AS IT IS (line numbers of /repo/spatialmath/base):
     transformsNd.py:292  isR(R, tol=100)      norm(R@R.T - eye) < tol*_eps and det(R) > 0           (since fix 8457767; it was det(R@R.T))
     transformsNd.py:319  isskew(S, tol=10)    norm(S + S.T) < tol*_eps
     transformsNd.py:346  isskewa(S, tol=10)   norm(S[:-1,:-1] + S[:-1,:-1].T) < tol*_eps and all(S[-1,:] == 0)
     transformsNd.py:375  iseye(S, tol=10)     norm(S - eye) < tol*_eps
     transforms3d.py:305  ishom(T, check, tol) shape and (not check or (isR(T[:3,:3], tol) and all(T[3,:] == [0,0,0,1])))
     transforms3d.py:337  isrot(R, check, tol) shape and (not check or isR(R, tol))
     transforms2d.py:206  ishom2(T, check)     shape and (not check or (isR(T[:2,:2]) and all(T[2,:] == [0,0,1])))     (isR's default tol)
     transforms2d.py:240  isrot2(R, check)     shape and (not check or isR(R))
     vectors.py:202       isunitvec(v, tol=10) abs(norm(v) - 1) < tol*_eps
     vectors.py:224       iszerovec(v, tol=10) norm(v) < tol*_eps
     vectors.py:245       iszero(v, tol=10)    abs(v) < tol*_eps
     vectors.py:266       isunittwist(v, tol)  isunitvec(v[3:6]) or (norm(v[3:6]) < tol*_eps and isunitvec(v[0:3]))
     vectors.py:304       isunittwist2(v, tol) isunitvec(v[2]) or (abs(v[2]) < tol*_eps and isunitvec(v[0:2]))
     quaternions.py:112   isunit(q, tol=100)   isunitvec(q, tol)                                      (since fix f745aab; it was iszerovec)
   and the class-level validity tests
     twist.py:359   Twist3.isvalid (4x4 form)  iszerovec(diag) and iszerovec(v[3,:]) and (not check or isskew(v[:3,:3]))
     twist.py:1128  Twist2.isvalid (3x3 form)  iszerovec(diag) and iszerovec(v[2,:]) and (not check or isskew(v[:2,:2]))
     quaternion.py:1017 UnitQuaternion.isvalid x.shape == (4,) and (not check or isunitvec(x))
   The shape tests are part of the types here; the dispatch on shapes is modelled in C07_Ctor.v.
   Membership is a property of the VALUES an array holds, not of the dtype they are stored in: the model has one scalar type
   and no dtype parameter, so every theorem (rejection band at 1e-6, tolerance tol*eps with eps = 2^-52 exactly) applies to
   the stored values whatever their dtype.  The implementation side of this is checked by the dtype sweep of props/C07.py
   (float32, float16, int64, longdouble, object arrays: a value beyond the band must not be accepted, an exact member must be).
   `tol` is a parameter (the Python keyword argument); the defaults are regenerated from the source AST into
   gen/Consts_C07.v on every run, together with a check of the comparison skeleton of each function. *)
From Coq Require Import ZArith Bool.
From SM Require Import Base.Ops Base.Lin.

Section Pred.
Context {T : Type} (O : ops T).
Local Notation "0" := (zero O). Local Notation "1" := (one O).
Local Infix "+" := (add O). Local Infix "-" := (sub O). Local Infix "*" := (mul O).

(* np.linalg.norm: Frobenius norm of a matrix, 2-norm of a vector, |x| of a scalar *)
Definition normsq2 (a : V2 T) : T := dot2 O a a.
Definition norm2 (a : V2 T) : T := sqrt_ O (normsq2 a).
Definition norm4 (a : V4 T) : T := sqrt_ O (dot4 O a a).
Definition frosq22 (A : M22 T) : T := let '(r0,r1) := A in normsq2 r0 + normsq2 r1.
Definition fro22 (A : M22 T) : T := sqrt_ O (frosq22 A).
Definition frosq33 (A : M33 T) : T := let '(r0,r1,r2) := A in normsq3 O r0 + normsq3 O r1 + normsq3 O r2.
Definition fro33 (A : M33 T) : T := sqrt_ O (frosq33 A).
Definition madd22 (A B : M22 T) : M22 T := let '(a0,a1) := A in let '(b0,b1) := B in (vadd2 O a0 b0, vadd2 O a1 b1).
Definition msub22 (A B : M22 T) : M22 T := let '(a0,a1) := A in let '(b0,b1) := B in (vsub2 O a0 b0, vsub2 O a1 b1).

Definition thr (tol : T) : T := tol * eps O.

(* the quantity each predicate bounds ("defect") *)
Definition orth_defect2 (R : M22 T) : T := fro22 (msub22 (mmul22 O R (mtr22 R)) (I22 O)).
Definition orth_defect3 (R : M33 T) : T := fro33 (msub33 O (mmul33 O R (mtr33 R)) (I33 O)).
Definition skew_defect2 (S : M22 T) : T := fro22 (madd22 S (mtr22 S)).
Definition skew_defect3 (S : M33 T) : T := fro33 (madd33 O S (mtr33 S)).
Definition eye_defect3 (S : M33 T) : T := fro33 (msub33 O S (I33 O)).
Definition unit_defect2 (v : V2 T) : T := abs_ O (norm2 v - 1).
Definition unit_defect3 (v : V3 T) : T := abs_ O (norm3 O v - 1).
Definition unit_defect4 (v : V4 T) : T := abs_ O (norm4 v - 1).

(* ---- isR ---- *)
Definition isR2 (tol : T) (R : M22 T) : bool :=
  ltb O (orth_defect2 R) (thr tol) && ltb O 0 (det22 O R).
Definition isR3 (tol : T) (R : M33 T) : bool :=
  ltb O (orth_defect3 R) (thr tol) && ltb O 0 (det33 O R).

(* ---- np.all(row == [..]) ---- *)
Definition row_eq3 (r : V3 T) (a b c : T) : bool :=
  let '(r0,r1,r2) := r in eqb O r0 a && eqb O r1 b && eqb O r2 c.
Definition row_eq4 (r : V4 T) (a b c d : T) : bool :=
  let '(r0,r1,r2,r3) := r in eqb O r0 a && eqb O r1 b && eqb O r2 c && eqb O r3 d.

(* ---- isrot / ishom / isrot2 / ishom2 (check flag explicit) ---- *)
Definition isrot (check : bool) (tol : T) (R : M33 T) : bool := negb check || isR3 tol R.
Definition ishom (check : bool) (tol : T) (A : M44 T) : bool :=
  negb check || (isR3 tol (t2r3 A) && row_eq4 (lastrow4 A) 0 0 0 1).
Definition isrot2 (check : bool) (tolR : T) (R : M22 T) : bool := negb check || isR2 tolR R.
Definition ishom2 (check : bool) (tolR : T) (A : M33 T) : bool :=
  negb check || (isR2 tolR (t2r2 A) && row_eq3 (lastrow3 A) 0 0 1).

(* ---- isskew / isskewa / iseye ---- *)
Definition isskew2 (tol : T) (S : M22 T) : bool := ltb O (skew_defect2 S) (thr tol).
Definition isskew3 (tol : T) (S : M33 T) : bool := ltb O (skew_defect3 S) (thr tol).
Definition isskewa3 (tol : T) (S : M33 T) : bool := isskew2 tol (t2r2 S) && row_eq3 (lastrow3 S) 0 0 0.
Definition isskewa4 (tol : T) (S : M44 T) : bool := isskew3 tol (t2r3 S) && row_eq4 (lastrow4 S) 0 0 0 0.
Definition iseye3 (tol : T) (S : M33 T) : bool := ltb O (eye_defect3 S) (thr tol).

(* ---- vectors ---- *)
Definition isunitvec2 (tol : T) (v : V2 T) : bool := ltb O (unit_defect2 v) (thr tol).
Definition isunitvec3 (tol : T) (v : V3 T) : bool := ltb O (unit_defect3 v) (thr tol).
Definition isunitvec4 (tol : T) (v : V4 T) : bool := ltb O (unit_defect4 v) (thr tol).
Definition iszerovec2 (tol : T) (v : V2 T) : bool := ltb O (norm2 v) (thr tol).
Definition iszerovec3 (tol : T) (v : V3 T) : bool := ltb O (norm3 O v) (thr tol).
Definition iszerovec4 (tol : T) (v : V4 T) : bool := ltb O (norm4 v) (thr tol).
Definition iszero (tol : T) (x : T) : bool := ltb O (abs_ O x) (thr tol).

(* quaternions.isunit: the body is isunitvec(q, tol=tol) *)
Definition isunit_q (tol : T) (q : V4 T) : bool := isunitvec4 tol q.

Definition isunittwist (tol : T) (s : V6 T) : bool :=
  let '(v0,v1,v2,w0,w1,w2) := s in
  isunitvec3 tol (w0,w1,w2) || (ltb O (norm3 O (w0,w1,w2)) (thr tol) && isunitvec3 tol (v0,v1,v2)).
(* isunitvec of the scalar v[2]: np.linalg.norm of a 0-d value is its absolute value *)
Definition isunittwist2 (tol : T) (s : V3 T) : bool :=
  let '(v0,v1,w) := s in
  ltb O (abs_ O (abs_ O w - 1)) (thr tol) || (ltb O (abs_ O w) (thr tol) && isunitvec2 tol (v0,v1)).

(* ---- class-level validity tests ---- *)
Definition diag3 (A : M33 T) : V3 T := let '((a,_,_),(_,b,_),(_,_,c)) := A in (a,b,c).
Definition diag4 (A : M44 T) : V4 T := let '((a,_,_,_),(_,b,_,_),(_,_,c,_),(_,_,_,d)) := A in (a,b,c,d).
Definition tw3_isvalid_mat (check : bool) (tz ts : T) (A : M44 T) : bool :=
  iszerovec4 tz (diag4 A) && iszerovec4 tz (lastrow4 A) && (negb check || isskew3 ts (t2r3 A)).
Definition tw2_isvalid_mat (check : bool) (tz ts : T) (A : M33 T) : bool :=
  iszerovec3 tz (diag3 A) && iszerovec3 tz (lastrow3 A) && (negb check || isskew2 ts (t2r2 A)).
Definition uq_isvalid (check : bool) (tol : T) (q : V4 T) : bool := negb check || isunitvec4 tol q.
End Pred.

Create HintDb c07 discriminated.
#[export] Hint Unfold normsq2 norm2 norm4 frosq22 fro22 frosq33 fro33 madd22 msub22 thr orth_defect2 orth_defect3
  skew_defect2 skew_defect3 eye_defect3 unit_defect2 unit_defect3 unit_defect4 isR2 isR3 row_eq3 row_eq4 isrot ishom
  isrot2 ishom2 isskew2 isskew3 isskewa3 isskewa4 iseye3 isunitvec2 isunitvec3 isunitvec4 iszerovec2 iszerovec3
  iszerovec4 iszero isunit_q isunittwist isunittwist2 diag3 diag4 tw3_isvalid_mat tw2_isvalid_mat uq_isvalid : c07.

(* check=True / check=False instances (the correspondence run calls these; `check` is a Python keyword argument) *)
Section PredOn.
Context {T : Type} (O : ops T).
Definition isrot_on := isrot O true.      Definition isrot_off := isrot O false.
Definition ishom_on := ishom O true.      Definition ishom_off := ishom O false.
Definition isrot2_on := isrot2 O true.    Definition ishom2_on := ishom2 O true.
Definition tw3_valid_on := tw3_isvalid_mat O true.   Definition tw3_valid_off := tw3_isvalid_mat O false.
Definition tw2_valid_on := tw2_isvalid_mat O true.
Definition uq_valid_on := uq_isvalid O true.
End PredOn.
