(* C05 -- theorems about the hand models of Model/C05_Angles.v over the reals (L-real), with the threshold
   multipliers as universally quantified parameters.  Props/C05.v instantiates them with the constants
   regenerated from the source and combines them with the traced constructors. *)
From Coq Require Import Reals ZArith Lra Nsatz Psatz.
From SM Require Import Base.Ops Base.Lin Base.RInst Base.RLin Model.C05_Trig Model.C05_Angles.
Open Scope R_scope.

(* ------------------------------------------------------------------ small tools *)
Lemma eps_pos : 0 < eps Rops.
Proof. cbn. lra. Qed.

Lemma pitch_cs_pos c u t : 0 < c -> c*c + u*u = 1 -> t = u/c -> cos (atan t) = c /\ sin (atan t) = u.
Proof.
  intros Hc H ->. rewrite cos_atan_alg, sin_atan_alg.
  assert (E : 1 / sqrt (1 + u/c*(u/c)) = c).
  { rewrite inv_hyp by assumption. rewrite H, sqrt_1. field. }
  split; [exact E|]. replace (u/c/sqrt (1 + u/c*(u/c))) with ((u/c) * (1 / sqrt (1 + u/c*(u/c)))).
  - rewrite E. field. lra.
  - unfold Rdiv. ring.
Qed.
Lemma pitch_cs_neg c u t : 0 < c -> c*c + u*u = 1 -> t = - (u/c) -> cos (- atan t) = c /\ sin (- atan t) = u.
Proof.
  intros Hc H ->. rewrite atan_opp, Ropp_involutive. apply pitch_cs_pos; auto.
Qed.

Definition sel4 (k : nat) (a b c d : R) : R := match k with 0%nat => a | 1%nat => b | 2%nat => c | _ => d end.
Lemma argmax4_spec a b c d :
  let m := sel4 (argmax4 Rops a b c d) a b c d in a <= m /\ b <= m /\ c <= m /\ d <= m.
Proof.
  unfold argmax4, sel4. sm_simpl. unfold Rltb.
  destruct (Rlt_dec a b); cbn [fst snd]; destruct (Rlt_dec _ c); cbn [fst snd]; destruct (Rlt_dec _ d); cbn [fst snd]; lra.
Qed.
Lemma argmax4_abs_nonzero a b c d :
  (a <> 0 \/ b <> 0 \/ c <> 0 \/ d <> 0) ->
  sel4 (argmax4 Rops (Rabs a) (Rabs b) (Rabs c) (Rabs d)) a b c d <> 0.
Proof.
  intros H. pose proof (argmax4_spec (Rabs a) (Rabs b) (Rabs c) (Rabs d)) as S. cbv zeta in S.
  pose proof (Rabs_pos a). pose proof (Rabs_pos b). pose proof (Rabs_pos c). pose proof (Rabs_pos d).
  assert (P : forall x, x <> 0 -> 0 < Rabs x) by (intros; apply Rabs_pos_lt; auto).
  assert (Z : forall x, Rabs x <> 0 -> x <> 0) by (intros x Hx ->; apply Hx, Rabs_R0).
  destruct (argmax4 Rops (Rabs a) (Rabs b) (Rabs c) (Rabs d)) as [|[|[|k]]]; cbn [sel4] in *; apply Z;
    destruct H as [H|[H|[H|H]]]; apply P in H; lra.
Qed.

(* the singular test in L-real *)
Lemma is_sing_true c x : is_sing Rops c x = true <-> Rabs (Rabs x - 1) < c * eps Rops.
Proof. unfold is_sing. sm_simpl. fold (eps Rops). apply Rltb_true. Qed.
Lemma is_sing_false c x : is_sing Rops c x = false <-> ~ Rabs (Rabs x - 1) < c * eps Rops.
Proof. unfold is_sing. sm_simpl. fold (eps Rops). apply Rltb_false. Qed.
Lemma not_sing_sq c x : 0 < c -> is_sing Rops c x = false -> x*x <> 1.
Proof.
  intros Hc H. apply is_sing_false in H. intros E. apply H.
  assert (Rabs x = 1).
  { assert (Rabs x * Rabs x = 1) by (rewrite <- Rabs_mult; rewrite E; apply Rabs_R1). pose proof (Rabs_pos x). nra. }
  replace (Rabs x - 1) with 0 by lra. rewrite Rabs_R0. pose proof eps_pos. nra.
Qed.
Lemma sing_pm1 c x : 0 < c -> (x = 1 \/ x = -1) -> is_sing Rops c x = true.
Proof.
  intros Hc H. apply is_sing_true. assert (Rabs x = 1) by (destruct H as [-> | ->]; unfold Rabs; destruct (Rcase_abs _); lra).
  replace (Rabs x - 1) with 0 by lra. rewrite Rabs_R0. pose proof eps_pos. nra.
Qed.
Lemma clip1_in x : -1 <= x <= 1 -> clip1 Rops x = x.
Proof.
  intros H. unfold clip1. sm_simpl. unfold Rltb.
  repeat match goal with |- context[Rlt_dec ?a ?b] => destruct (Rlt_dec a b) end; try lra; reflexivity.
Qed.
Lemma clip1_range x : -1 <= clip1 Rops x <= 1.
Proof.
  unfold clip1. sm_simpl. unfold Rltb.
  repeat match goal with |- context[Rlt_dec ?a ?b] => destruct (Rlt_dec a b) end; lra.
Qed.
Lemma asin_clip_in x : -1 <= x <= 1 -> asin_clip Rops x = asin x.
Proof. intros H. unfold asin_clip. rewrite clip1_in by assumption. reflexivity. Qed.

(* rows/columns of a rotation matrix have entries in [-1,1] *)
Lemma sumsq0 a b : a*a + b*b = 0 -> a = 0 /\ b = 0.
Proof. intros. split; nra. Qed.
Lemma sq_le1 x s : x*x + s = 1 -> 0 <= s -> -1 <= x <= 1.
Proof. intros. split; nra. Qed.

Ltac name_entries :=
  match goal with
  | |- context[SO3 (?a, ?b, ?c, (?d, ?e, ?f), (?g, ?h, ?i))] => idtac
  | _ => idtac
  end.

(* clear denominators c*c, replace c*c by its polynomial value and close with nsatz using only the
   cofactor / column / row equations *)
Ltac alg_close c Hc Hcc :=
  apply Rmult_eq_reg_r with (c*c); [|clear - Hc; nra]; field_simplify; [|lra..];
  replace (c^2) with (c*c) by ring; rewrite Hcc; clear Hcc Hc; nsatz.

(* =================================================================== order zyx *)
Definition nonsing_zyx (M : M33 R) : Prop :=
  let '((r00,r01,r02),(r10,r11,r12),(r20,r21,r22)) := M in 0 < r00*r00 + r10*r10.
Definition den_zyx (k : nat) (M : M33 R) : R :=
  let '((r00,r01,r02),(r10,r11,r12),(r20,r21,r22)) := M in sel4 k r00 r10 r21 r22.

Lemma zyx_alg (M : M33 R) c :
  SO3 M -> let '((r00,r01,r02),(r10,r11,r12),(r20,r21,r22)) := M in
  0 < c -> c*c = r00*r00 + r10*r10 ->
  mmul33 Rops (rotz_cs Rops (r00/c) (r10/c)) (mmul33 Rops (roty_cs Rops c (-r20)) (rotx_cs Rops (r22/c) (r21/c))) = M.
Proof.
  intros H. destruct_tuples. intros Hc Hcc. so3_facts H. lin_simpl.
  match goal with H : _ * (_ * _ - _ * _) - _ + _ = 1 |- _ => clear H end.
  tuple_eq ltac:(try (field; lra)).
  all: alg_close c Hc Hcc.
Qed.

(* every one of the four pitch formulas gives a right inverse, as long as ITS denominator is non-zero *)
Theorem rpy_zyx_ns_right_inverse (M : M33 R) (k : nat) :
  SO3 M -> nonsing_zyx M -> den_zyx k M <> 0 -> rpy2r_zyx_ref Rops (rpy_zyx_ns Rops k M) = M.
Proof.
  intros H Hns Hk. destruct M as [[[[r00 r01] r02] [[r10 r11] r12]] [[r20 r21] r22]]. unfold nonsing_zyx, den_zyx in *.
  set (c := sqrt (r00*r00 + r10*r10)).
  assert (Hc : 0 < c) by (apply sqrt_lt_R0; lra).
  assert (Hcc : c*c = r00*r00 + r10*r10) by (apply sqrt_sqrt; lra).
  assert (Hrow : r22*r22 + r21*r21 = r00*r00 + r10*r10 /\ c*c + (-r20)*(-r20) = 1).
  { pose proof H as H'. so3_facts H'. split; lra. }
  destruct Hrow as [Hrow Hu].
  pose proof (zyx_alg _ c H Hc Hcc) as A. cbv beta iota in A.
  unfold rpy2r_zyx_ref, rpy_zyx_ns, Rz, Ry, Rx, pitch_zyx. sm_simpl.
  rewrite (cos_atan2 r10 r00), (sin_atan2 r10 r00), (cos_atan2 r21 r22), (sin_atan2 r21 r22) by lra.
  rewrite Hrow. fold c.
  assert (P : forall t, t = - (- r20 / c) ->
     mmul33 Rops (rotz_cs Rops (r00/c) (r10/c)) (mmul33 Rops (roty_cs Rops (cos (- atan t)) (sin (- atan t))) (rotx_cs Rops (r22/c) (r21/c))) =
     (r00, r01, r02, (r10, r11, r12), (r20, r21, r22))).
  { intros t Ht. destruct (pitch_cs_neg c (-r20) t Hc Hu Ht) as [-> ->]. exact A. }
  destruct k as [|[|[|k]]]; cbn [sel4] in Hk; apply P; field; lra.
Qed.

Lemma so3_nonsing_zyx c (M : M33 R) :
  SO3 M -> 0 < c -> (let '((r00,r01,r02),(r10,r11,r12),(r20,r21,r22)) := M in is_sing Rops c r20 = false) -> nonsing_zyx M.
Proof.
  intros H Hc. destruct M as [[[[r00 r01] r02] [[r10 r11] r12]] [[r20 r21] r22]]. intros Hs.
  apply (not_sing_sq c _ Hc) in Hs. unfold nonsing_zyx. so3_facts H.
  assert (0 <= r00*r00 + r10*r10) by (clear; nra). destruct (Req_dec (r00*r00 + r10*r10) 0); [exfalso; apply Hs; lra|lra].
Qed.

Lemma nonsing_den_zyx (M : M33 R) : SO3 M -> nonsing_zyx M -> den_zyx (argmax_zyx Rops M) M <> 0.
Proof.
  intros H. destruct M as [[[[r00 r01] r02] [[r10 r11] r12]] [[r20 r21] r22]]. unfold nonsing_zyx, den_zyx, argmax_zyx. sm_simpl.
  intros Hns. apply argmax4_abs_nonzero.
  destruct (Req_dec r00 0) as [->|]; [|tauto]. destruct (Req_dec r10 0) as [->|]; [|tauto]. exfalso. lra.
Qed.

(* RIGHT INVERSE off the singular band, whichever formula argmax selects *)
Theorem tr2rpy_zyx_right_inverse c (M : M33 R) :
  SO3 M -> 0 < c -> (let '((r00,r01,r02),(r10,r11,r12),(r20,r21,r22)) := M in is_sing Rops c r20 = false) ->
  rpy2r_zyx_ref Rops (tr2rpy_zyx Rops c M) = M.
Proof.
  intros H Hc Hs. pose proof (so3_nonsing_zyx c M H Hc Hs) as Hns.
  pose proof (nonsing_den_zyx M H Hns) as Hd.
  pose proof (rpy_zyx_ns_right_inverse M _ H Hns Hd) as RI.
  destruct M as [[[[r00 r01] r02] [[r10 r11] r12]] [[r20 r21] r22]]. unfold tr2rpy_zyx. rewrite Hs. exact RI.
Qed.

(* EXACT singular configuration (pitch = +-90 deg): reconstruction is exact, roll = 0 *)
Theorem tr2rpy_zyx_singular_exact c (M : M33 R) :
  SO3 M -> 0 < c -> (let '((r00,r01,r02),(r10,r11,r12),(r20,r21,r22)) := M in r20 = 1 \/ r20 = -1) ->
  exists p y, tr2rpy_zyx Rops c M = (0, p, y) /\ rpy2r_zyx_ref Rops (0, p, y) = M.
Proof.
  intros H Hc. destruct M as [[[[r00 r01] r02] [[r10 r11] r12]] [[r20 r21] r22]]. intros Hpm.
  unfold tr2rpy_zyx. rewrite (sing_pm1 c r20 Hc Hpm). unfold rpy_zyx_sing.
  rewrite asin_clip_in by (destruct Hpm; lra).
  eexists _, _. split; [reflexivity|].
  pose proof H as H'. so3_facts H'.
  assert (Z1 : r00 = 0 /\ r10 = 0) by (apply sumsq0; destruct Hpm; subst r20; lra).
  assert (Z2 : r21 = 0 /\ r22 = 0) by (apply sumsq0; destruct Hpm; subst r20; lra).
  destruct Z1 as (-> & ->). destruct Z2 as (-> & ->).
  assert (N : r02*r02 + r01*r01 = 1) by lra.
  assert (N' : (-r02)*(-r02) + (-r01)*(-r01) = 1) by lra.
  unfold rpy2r_zyx_ref, Rz, Ry, Rx. sm_simpl. unfold Rltb.
  rewrite cos_neg, sin_neg, sin_asin, cos_asin by (destruct Hpm; lra). rewrite cos_0, sin_0.
  replace (1 - r20²) with 0 by (unfold Rsqr; destruct Hpm; subst; ring). rewrite sqrt_0.
  destruct Hpm; subst r20; (destruct (Rlt_dec _ 0); [|try lra]); try lra.
  - rewrite cos_atan2, sin_atan2 by lra. rewrite N', sqrt_1. lin_simpl. tuple_eq ltac:(try (field_simplify; nra)).
  - rewrite cos_neg, sin_neg, cos_atan2, sin_atan2 by lra. rewrite N, sqrt_1. lin_simpl. tuple_eq ltac:(try (field_simplify; nra)).
Qed.


(* ranges: for EVERY matrix (rotation or not) and every threshold *)
Theorem tr2rpy_zyx_range c (M : M33 R) r p y :
  tr2rpy_zyx Rops c M = (r, p, y) -> Rabs r <= PI /\ Rabs p <= PI/2 /\ Rabs y <= PI.
Proof.
  destruct M as [[[[r00 r01] r02] [[r10 r11] r12]] [[r20 r21] r22]]. unfold tr2rpy_zyx.
  destruct (is_sing Rops c r20).
  - unfold rpy_zyx_sing, asin_clip.
    sm_simpl. intros I. injection I as <- <- <-. rewrite Rabs_R0. pose proof PI_RGT_0.
    split; [lra|]. split; [rewrite Rabs_Ropp; apply asin_abs_le|].
    destruct (Rltb r20 0); [rewrite Rabs_Ropp|]; apply atan2_abs_le_PI.
  - match goal with |- context[argmax_zyx ?o ?m] => generalize (argmax_zyx o m) end.
    intros k I. injection I as <- <- <-. sm_simpl. repeat split; try apply atan2_abs_le_PI.
    destruct k as [|[|[|k]]]; cbn; sm_simpl; rewrite Rabs_Ropp; left; apply atan_abs_lt.
Qed.

(* =================================================================== order xyz *)
Definition nonsing_xyz (M : M33 R) : Prop :=
  let '((r00,r01,r02),(r10,r11,r12),(r20,r21,r22)) := M in 0 < r00*r00 + r01*r01.
Definition den_xyz (k : nat) (M : M33 R) : R :=
  let '((r00,r01,r02),(r10,r11,r12),(r20,r21,r22)) := M in sel4 k r00 r01 r12 r22.

Lemma xyz_alg (M : M33 R) c :
  SO3 M -> let '((r00,r01,r02),(r10,r11,r12),(r20,r21,r22)) := M in
  0 < c -> c*c = r00*r00 + r01*r01 ->
  mmul33 Rops (rotx_cs Rops (r22/c) (-r12/c)) (mmul33 Rops (roty_cs Rops c r02) (rotz_cs Rops (r00/c) (-r01/c))) = M.
Proof.
  intros H. destruct_tuples. intros Hc Hcc. so3_facts H. lin_simpl.
  match goal with H : _ * (_ * _ - _ * _) - _ + _ = 1 |- _ => clear H end.
  tuple_eq ltac:(try (field; lra)).
  all: alg_close c Hc Hcc.
Qed.

Theorem rpy_xyz_ns_right_inverse (M : M33 R) (k : nat) :
  SO3 M -> nonsing_xyz M -> den_xyz k M <> 0 -> rpy2r_xyz_ref Rops (rpy_xyz_ns Rops k M) = M.
Proof.
  intros H Hns Hk. destruct M as [[[[r00 r01] r02] [[r10 r11] r12]] [[r20 r21] r22]]. unfold nonsing_xyz, den_xyz in *.
  set (c := sqrt (r00*r00 + r01*r01)).
  assert (Hc : 0 < c) by (apply sqrt_lt_R0; lra).
  assert (Hcc : c*c = r00*r00 + r01*r01) by (apply sqrt_sqrt; lra).
  assert (Hrow : r22*r22 + r12*r12 = r00*r00 + r01*r01 /\ c*c + r02*r02 = 1).
  { pose proof H as H'. so3_facts H'. split; lra. }
  destruct Hrow as [Hrow Hu].
  pose proof (xyz_alg _ c H Hc Hcc) as A. cbv beta iota in A.
  assert (Cr : cos (- atan2 r01 r00) = r00/c) by (rewrite cos_neg, cos_atan2 by lra; reflexivity).
  assert (Sr : sin (- atan2 r01 r00) = -r01/c) by (rewrite sin_neg, sin_atan2 by lra; fold c; field; lra).
  assert (Cy : cos (- atan2 r12 r22) = r22/c) by (rewrite cos_neg, cos_atan2 by lra; rewrite Hrow; reflexivity).
  assert (Sy : sin (- atan2 r12 r22) = -r12/c) by (rewrite sin_neg, sin_atan2 by lra; rewrite Hrow; fold c; field; lra).
  unfold rpy2r_xyz_ref, rpy_xyz_ns, Rz, Ry, Rx, pitch_xyz. sm_simpl. rewrite Cr, Sr, Cy, Sy.
  assert (Pn : forall t, t = - (r02 / c) ->
     mmul33 Rops (rotx_cs Rops (r22/c) (-r12/c)) (mmul33 Rops (roty_cs Rops (cos (- atan t)) (sin (- atan t))) (rotz_cs Rops (r00/c) (-r01/c))) =
     (r00, r01, r02, (r10, r11, r12), (r20, r21, r22))).
  { intros t Ht. destruct (pitch_cs_neg c r02 t Hc Hu Ht) as [-> ->]. exact A. }
  assert (Pp : forall t, t = r02 / c ->
     mmul33 Rops (rotx_cs Rops (r22/c) (-r12/c)) (mmul33 Rops (roty_cs Rops (cos (atan t)) (sin (atan t))) (rotz_cs Rops (r00/c) (-r01/c))) =
     (r00, r01, r02, (r10, r11, r12), (r20, r21, r22))).
  { intros t Ht. destruct (pitch_cs_pos c r02 t Hc Hu Ht) as [-> ->]. exact A. }
  destruct k as [|[|[|k]]]; cbn [sel4] in Hk; [apply Pp|apply Pn|apply Pn|apply Pp]; field; lra.
Qed.

Lemma so3_nonsing_xyz c (M : M33 R) :
  SO3 M -> 0 < c -> (let '((r00,r01,r02),(r10,r11,r12),(r20,r21,r22)) := M in is_sing Rops c r02 = false) -> nonsing_xyz M.
Proof.
  intros H Hc. destruct M as [[[[r00 r01] r02] [[r10 r11] r12]] [[r20 r21] r22]]. intros Hs.
  apply (not_sing_sq c _ Hc) in Hs. unfold nonsing_xyz. so3_facts H.
  assert (0 <= r00*r00 + r01*r01) by (clear; nra). destruct (Req_dec (r00*r00 + r01*r01) 0); [exfalso; apply Hs; lra|lra].
Qed.

Lemma nonsing_den_xyz (M : M33 R) : SO3 M -> nonsing_xyz M -> den_xyz (argmax_xyz Rops M) M <> 0.
Proof.
  intros H. destruct M as [[[[r00 r01] r02] [[r10 r11] r12]] [[r20 r21] r22]]. unfold nonsing_xyz, den_xyz, argmax_xyz. sm_simpl.
  intros Hns. apply argmax4_abs_nonzero.
  destruct (Req_dec r00 0) as [->|]; [|tauto]. destruct (Req_dec r01 0) as [->|]; [|tauto]. exfalso. lra.
Qed.

Theorem tr2rpy_xyz_right_inverse c (M : M33 R) :
  SO3 M -> 0 < c -> (let '((r00,r01,r02),(r10,r11,r12),(r20,r21,r22)) := M in is_sing Rops c r02 = false) ->
  rpy2r_xyz_ref Rops (tr2rpy_xyz Rops c M) = M.
Proof.
  intros H Hc Hs. pose proof (so3_nonsing_xyz c M H Hc Hs) as Hns.
  pose proof (nonsing_den_xyz M H Hns) as Hd.
  pose proof (rpy_xyz_ns_right_inverse M _ H Hns Hd) as RI.
  destruct M as [[[[r00 r01] r02] [[r10 r11] r12]] [[r20 r21] r22]]. unfold tr2rpy_xyz. rewrite Hs. exact RI.
Qed.

Theorem tr2rpy_xyz_singular_exact c (M : M33 R) :
  SO3 M -> 0 < c -> (let '((r00,r01,r02),(r10,r11,r12),(r20,r21,r22)) := M in r02 = 1 \/ r02 = -1) ->
  exists p y, tr2rpy_xyz Rops c M = (0, p, y) /\ rpy2r_xyz_ref Rops (0, p, y) = M.
Proof.
  intros H Hc. destruct M as [[[[r00 r01] r02] [[r10 r11] r12]] [[r20 r21] r22]]. intros Hpm.
  unfold tr2rpy_xyz. rewrite (sing_pm1 c r02 Hc Hpm). unfold rpy_xyz_sing.
  rewrite asin_clip_in by (destruct Hpm; lra).
  eexists _, _. split; [reflexivity|].
  pose proof H as H'. so3_facts H'.
  assert (Z1 : r00 = 0 /\ r01 = 0) by (apply sumsq0; destruct Hpm; subst r02; lra).
  assert (Z2 : r12 = 0 /\ r22 = 0) by (apply sumsq0; destruct Hpm; subst r02; lra).
  destruct Z1 as (-> & ->). destruct Z2 as (-> & ->).
  assert (N : r11*r11 + r21*r21 = 1) by lra.
  assert (N' : r20*r20 + r10*r10 = 1) by lra.
  unfold rpy2r_xyz_ref, Rz, Ry, Rx. sm_simpl. unfold Rltb.
  rewrite sin_asin, cos_asin by (destruct Hpm; lra). rewrite cos_0, sin_0.
  replace (1 - r02²) with 0 by (unfold Rsqr; destruct Hpm; subst; ring). rewrite sqrt_0.
  destruct Hpm; subst r02; (destruct (Rlt_dec 0 _); [|try lra]); try lra.
  - rewrite cos_atan2, sin_atan2 by lra. rewrite N, sqrt_1. lin_simpl. tuple_eq ltac:(try (field_simplify; nra)).
  - rewrite cos_neg, sin_neg, cos_atan2, sin_atan2 by lra. rewrite N', sqrt_1. lin_simpl. tuple_eq ltac:(try (field_simplify; nra)).
Qed.


Theorem tr2rpy_xyz_range c (M : M33 R) r p y :
  tr2rpy_xyz Rops c M = (r, p, y) -> Rabs r <= PI /\ Rabs p <= PI/2 /\ Rabs y <= PI.
Proof.
  destruct M as [[[[r00 r01] r02] [[r10 r11] r12]] [[r20 r21] r22]]. unfold tr2rpy_xyz.
  destruct (is_sing Rops c r02).
  - unfold rpy_xyz_sing, asin_clip.
    sm_simpl. intros I. injection I as <- <- <-. rewrite Rabs_R0. pose proof PI_RGT_0.
    split; [lra|]. split; [apply asin_abs_le|].
    destruct (Rltb 0 r02); [|rewrite Rabs_Ropp]; apply atan2_abs_le_PI.
  - match goal with |- context[argmax_xyz ?o ?m] => generalize (argmax_xyz o m) end.
    intros k I. injection I as <- <- <-. sm_simpl. rewrite !Rabs_Ropp. repeat split; try apply atan2_abs_le_PI.
    destruct k as [|[|[|k]]]; cbn; sm_simpl; rewrite ?Rabs_Ropp; left; apply atan_abs_lt.
Qed.

(* =================================================================== order yxz *)
Definition nonsing_yxz (M : M33 R) : Prop :=
  let '((r00,r01,r02),(r10,r11,r12),(r20,r21,r22)) := M in 0 < r11*r11 + r10*r10.
Definition den_yxz (k : nat) (M : M33 R) : R :=
  let '((r00,r01,r02),(r10,r11,r12),(r20,r21,r22)) := M in sel4 k r10 r11 r02 r22.

Lemma yxz_alg (M : M33 R) c :
  SO3 M -> let '((r00,r01,r02),(r10,r11,r12),(r20,r21,r22)) := M in
  0 < c -> c*c = r11*r11 + r10*r10 ->
  mmul33 Rops (roty_cs Rops (r22/c) (r02/c)) (mmul33 Rops (rotx_cs Rops c (-r12)) (rotz_cs Rops (r11/c) (r10/c))) = M.
Proof.
  intros H. destruct_tuples. intros Hc Hcc. so3_facts H. lin_simpl.
  match goal with H : _ * (_ * _ - _ * _) - _ + _ = 1 |- _ => clear H end.
  tuple_eq ltac:(try (field; lra)).
  all: alg_close c Hc Hcc.
Qed.

Theorem rpy_yxz_ns_right_inverse (M : M33 R) (k : nat) :
  SO3 M -> nonsing_yxz M -> den_yxz k M <> 0 -> rpy2r_yxz_ref Rops (rpy_yxz_ns Rops k M) = M.
Proof.
  intros H Hns Hk. destruct M as [[[[r00 r01] r02] [[r10 r11] r12]] [[r20 r21] r22]]. unfold nonsing_yxz, den_yxz in *.
  set (c := sqrt (r11*r11 + r10*r10)).
  assert (Hc : 0 < c) by (apply sqrt_lt_R0; lra).
  assert (Hcc : c*c = r11*r11 + r10*r10) by (apply sqrt_sqrt; lra).
  assert (Hrow : r22*r22 + r02*r02 = r11*r11 + r10*r10 /\ c*c + (-r12)*(-r12) = 1).
  { pose proof H as H'. so3_facts H'. split; lra. }
  destruct Hrow as [Hrow Hu].
  pose proof (yxz_alg _ c H Hc Hcc) as A. cbv beta iota in A.
  unfold rpy2r_yxz_ref, rpy_yxz_ns, Rz, Ry, Rx, pitch_yxz. sm_simpl.
  rewrite (cos_atan2 r10 r11), (sin_atan2 r10 r11), (cos_atan2 r02 r22), (sin_atan2 r02 r22) by lra.
  rewrite Hrow. fold c.
  assert (P : forall t, t = - (- r12 / c) ->
     mmul33 Rops (roty_cs Rops (r22/c) (r02/c)) (mmul33 Rops (rotx_cs Rops (cos (- atan t)) (sin (- atan t))) (rotz_cs Rops (r11/c) (r10/c))) =
     (r00, r01, r02, (r10, r11, r12), (r20, r21, r22))).
  { intros t Ht. destruct (pitch_cs_neg c (-r12) t Hc Hu Ht) as [-> ->]. exact A. }
  destruct k as [|[|[|k]]]; cbn [sel4] in Hk; apply P; field; lra.
Qed.

Lemma so3_nonsing_yxz c (M : M33 R) :
  SO3 M -> 0 < c -> (let '((r00,r01,r02),(r10,r11,r12),(r20,r21,r22)) := M in is_sing Rops c r12 = false) -> nonsing_yxz M.
Proof.
  intros H Hc. destruct M as [[[[r00 r01] r02] [[r10 r11] r12]] [[r20 r21] r22]]. intros Hs.
  apply (not_sing_sq c _ Hc) in Hs. unfold nonsing_yxz. so3_facts H.
  assert (0 <= r11*r11 + r10*r10) by (clear; nra). destruct (Req_dec (r11*r11 + r10*r10) 0); [exfalso; apply Hs; lra|lra].
Qed.

Lemma nonsing_den_yxz (M : M33 R) : SO3 M -> nonsing_yxz M -> den_yxz (argmax_yxz Rops M) M <> 0.
Proof.
  intros H. destruct M as [[[[r00 r01] r02] [[r10 r11] r12]] [[r20 r21] r22]]. unfold nonsing_yxz, den_yxz, argmax_yxz. sm_simpl.
  intros Hns. apply argmax4_abs_nonzero.
  destruct (Req_dec r10 0) as [->|]; [|tauto]. destruct (Req_dec r11 0) as [->|]; [|tauto]. exfalso. lra.
Qed.

Theorem tr2rpy_yxz_right_inverse c (M : M33 R) :
  SO3 M -> 0 < c -> (let '((r00,r01,r02),(r10,r11,r12),(r20,r21,r22)) := M in is_sing Rops c r12 = false) ->
  rpy2r_yxz_ref Rops (tr2rpy_yxz Rops c M) = M.
Proof.
  intros H Hc Hs. pose proof (so3_nonsing_yxz c M H Hc Hs) as Hns.
  pose proof (nonsing_den_yxz M H Hns) as Hd.
  pose proof (rpy_yxz_ns_right_inverse M _ H Hns Hd) as RI.
  destruct M as [[[[r00 r01] r02] [[r10 r11] r12]] [[r20 r21] r22]]. unfold tr2rpy_yxz. rewrite Hs. exact RI.
Qed.

Theorem tr2rpy_yxz_singular_exact c (M : M33 R) :
  SO3 M -> 0 < c -> (let '((r00,r01,r02),(r10,r11,r12),(r20,r21,r22)) := M in r12 = 1 \/ r12 = -1) ->
  exists p y, tr2rpy_yxz Rops c M = (0, p, y) /\ rpy2r_yxz_ref Rops (0, p, y) = M.
Proof.
  intros H Hc. destruct M as [[[[r00 r01] r02] [[r10 r11] r12]] [[r20 r21] r22]]. intros Hpm.
  unfold tr2rpy_yxz. rewrite (sing_pm1 c r12 Hc Hpm). unfold rpy_yxz_sing.
  rewrite asin_clip_in by (destruct Hpm; lra).
  eexists _, _. split; [reflexivity|].
  pose proof H as H'. so3_facts H'.
  assert (Z1 : r10 = 0 /\ r11 = 0) by (apply sumsq0; destruct Hpm; subst r12; lra).
  assert (Z2 : r02 = 0 /\ r22 = 0) by (apply sumsq0; destruct Hpm; subst r12; lra).
  destruct Z1 as (-> & ->). destruct Z2 as (-> & ->).
  assert (N : r00*r00 + r20*r20 = 1) by lra.
  assert (N' : (-r21)*(-r21) + (-r20)*(-r20) = 1) by lra.
  unfold rpy2r_yxz_ref, Rz, Ry, Rx. sm_simpl. unfold Rltb.
  rewrite cos_neg, sin_neg, sin_asin, cos_asin by (destruct Hpm; lra). rewrite cos_0, sin_0.
  replace (1 - r12²) with 0 by (unfold Rsqr; destruct Hpm; subst; ring). rewrite sqrt_0.
  destruct Hpm; subst r12; (destruct (Rlt_dec _ 0); [|try lra]); try lra.
  - rewrite cos_atan2, sin_atan2 by lra. rewrite N', sqrt_1. lin_simpl. tuple_eq ltac:(try (field_simplify; nra)).
  - rewrite cos_neg, sin_neg, cos_atan2, sin_atan2 by lra. rewrite N, sqrt_1. lin_simpl. tuple_eq ltac:(try (field_simplify; nra)).
Qed.


Theorem tr2rpy_yxz_range c (M : M33 R) r p y :
  tr2rpy_yxz Rops c M = (r, p, y) -> Rabs r <= PI /\ Rabs p <= PI/2 /\ Rabs y <= PI.
Proof.
  destruct M as [[[[r00 r01] r02] [[r10 r11] r12]] [[r20 r21] r22]]. unfold tr2rpy_yxz.
  destruct (is_sing Rops c r12).
  - unfold rpy_yxz_sing, asin_clip.
    sm_simpl. intros I. injection I as <- <- <-. rewrite Rabs_R0. pose proof PI_RGT_0.
    split; [lra|]. split; [rewrite Rabs_Ropp; apply asin_abs_le|].
    destruct (Rltb r12 0); [rewrite Rabs_Ropp|]; apply atan2_abs_le_PI.
  - match goal with |- context[argmax_yxz ?o ?m] => generalize (argmax_yxz o m) end.
    intros k I. injection I as <- <- <-. sm_simpl. repeat split; try apply atan2_abs_le_PI.
    destruct k as [|[|[|k]]]; cbn; sm_simpl; rewrite Rabs_Ropp; left; apply atan_abs_lt.
Qed.

(* =================================================================== ZYZ Euler angles *)
Lemma cs_atan2_unit x y : x*x + y*y = 1 -> cos (atan2 y x) = x /\ sin (atan2 y x) = y.
Proof. intros H. rewrite cos_atan2, sin_atan2 by lra. rewrite H, sqrt_1. split; field. Qed.

Definition nonsing_eul (M : M33 R) : Prop :=
  let '((r00,r01,r02),(r10,r11,r12),(r20,r21,r22)) := M in 0 < r02*r02 + r12*r12.

(* sg = +1 (flip = false) or -1 (flip = true) *)
Lemma eul_alg (M : M33 R) s sg :
  SO3 M -> let '((r00,r01,r02),(r10,r11,r12),(r20,r21,r22)) := M in
  0 < s -> s*s = r02*r02 + r12*r12 -> sg*sg = 1 ->
  mmul33 Rops (rotz_cs Rops (sg*r02/s) (sg*r12/s)) (mmul33 Rops (roty_cs Rops r22 (sg*s)) (rotz_cs Rops (-sg*r20/s) (sg*r21/s))) = M.
Proof.
  intros H. destruct_tuples. intros Hc Hcc Hsg. so3_facts H. lin_simpl.
  match goal with H : _ * (_ * _ - _ * _) - _ + _ = 1 |- _ => clear H end.
  tuple_eq ltac:(idtac).
  all: apply Rmult_eq_reg_r with (s*s); [|clear - Hc; nra]; field_simplify; [|lra..];
    replace (s^2) with (s*s) by ring; try replace (sg^2) with (sg*sg) by ring; try rewrite Hsg; rewrite ?Hcc; clear Hc.
  all: nsatz.
Qed.

Theorem eul_ns_right_inverse (M : M33 R) (flip : bool) :
  SO3 M -> nonsing_eul M -> eul2r_ref Rops (eul_ns Rops flip M) = M.
Proof.
  intros H Hns. destruct M as [[[[r00 r01] r02] [[r10 r11] r12]] [[r20 r21] r22]]. unfold nonsing_eul in *.
  set (s := sqrt (r02*r02 + r12*r12)).
  assert (Hs : 0 < s) by (apply sqrt_lt_R0; lra).
  assert (Hss : s*s = r02*r02 + r12*r12) by (apply sqrt_sqrt; lra).
  pose proof H as H'. so3_facts H'.
  assert (Hrow : s*s = r20*r20 + r21*r21 /\ r22*r22 + s*s = 1) by (split; lra).
  destruct Hrow as [Hrow Hu].
  set (sg := if flip then -1 else 1).
  assert (Hsg : sg*sg = 1) by (unfold sg; destruct flip; ring).
  pose proof (eul_alg _ s sg H Hs Hss Hsg) as A. cbv beta iota in A.
  assert (Ca : cos (if flip then atan2 (- r12) (- r02) else atan2 r12 r02) = sg*r02/s).
  { unfold sg; destruct flip; rewrite cos_atan2 by lra.
    - replace (- r02 * - r02 + - r12 * - r12) with (r02*r02 + r12*r12) by ring. fold s. field; lra.
    - fold s. field; lra. }
  assert (Sa : sin (if flip then atan2 (- r12) (- r02) else atan2 r12 r02) = sg*r12/s).
  { unfold sg; destruct flip; rewrite sin_atan2 by lra.
    - replace (- r02 * - r02 + - r12 * - r12) with (r02*r02 + r12*r12) by ring. fold s. field; lra.
    - fold s. field; lra. }
  unfold eul2r_ref, eul_ns, Rz, Ry. sm_simpl. rewrite Ca, Sa.
  replace (sg * r02 / s * r02 + sg * r12 / s * r12) with (sg * s)
    by (apply Rmult_eq_reg_r with s; [|lra]; field_simplify; [|lra..]; replace (s^2) with (s*s) by ring; rewrite Hss; ring).
  replace (- (sg * r12 / s) * r00 + sg * r02 / s * r10) with (sg * r21 / s)
    by (replace r21 with (r02 * r10 - r00 * r12) by lra; field; lra).
  replace (- (sg * r12 / s) * r01 + sg * r02 / s * r11) with (- sg * r20 / s)
    by (replace r20 with (r01 * r12 - r02 * r11) by lra; field; lra).
  assert (E1 : r22*r22 + (sg*s)*(sg*s) = 1) by (replace (sg*s*(sg*s)) with ((sg*sg)*(s*s)) by ring; rewrite Hsg; lra).
  destruct (cs_atan2_unit _ _ E1) as [-> ->].
  assert (E2 : (- sg * r20 / s)*(- sg * r20 / s) + (sg * r21 / s)*(sg * r21 / s) = 1).
  { apply Rmult_eq_reg_r with (s*s); [|clear - Hs; nra]. field_simplify; [|lra..].
    replace (sg^2) with (sg*sg) by ring. rewrite Hsg. replace (s^2) with (s*s) by ring. lra. }
  destruct (cs_atan2_unit _ _ E2) as [-> ->]. exact A.
Qed.

Lemma eul_not_sing c1 c2 (M : M33 R) : 0 < c1 -> 0 < c2 -> eul_is_sing Rops c1 c2 M = false -> nonsing_eul M.
Proof.
  destruct M as [[[[r00 r01] r02] [[r10 r11] r12]] [[r20 r21] r22]]. unfold eul_is_sing, nonsing_eul. sm_simpl. fold (eps Rops).
  intros H1 H2 Hs. fold (eps Rops) in Hs. pose proof eps_pos.
  destruct (Req_dec r02 0) as [E1|E1]; [|clear - E1; nra]. destruct (Req_dec r12 0) as [E2|E2]; [|clear - E2; nra].
  exfalso. subst. rewrite Rabs_R0 in Hs. unfold Rltb in Hs.
  repeat match type of Hs with context[Rlt_dec ?a ?b] => destruct (Rlt_dec a b); [|cbn in *; lra] end. cbn in Hs. discriminate.
Qed.

(* RIGHT INVERSE, non-singular branch, flip or not *)
Theorem tr2eul_right_inverse c1 c2 flip (M : M33 R) :
  SO3 M -> 0 < c1 -> 0 < c2 -> eul_is_sing Rops c1 c2 M = false -> eul2r_ref Rops (tr2eul Rops c1 c2 flip M) = M.
Proof.
  intros H H1 H2 Hs. unfold tr2eul. rewrite Hs. apply eul_ns_right_inverse; [exact H|]. exact (eul_not_sing c1 c2 M H1 H2 Hs).
Qed.

(* EXACT singular configuration (middle angle 0 or pi): reconstruction exact, first angle 0 *)
Theorem tr2eul_singular_exact c1 c2 flip (M : M33 R) :
  SO3 M -> 0 < c1 -> 0 < c2 -> (let '((r00,r01,r02),(r10,r11,r12),(r20,r21,r22)) := M in r02 = 0 /\ r12 = 0) ->
  eul_is_sing Rops c1 c2 M = true /\ eul2r_ref Rops (tr2eul Rops c1 c2 flip M) = M.
Proof.
  intros H H1 H2. destruct M as [[[[r00 r01] r02] [[r10 r11] r12]] [[r20 r21] r22]]. intros [-> ->].
  match goal with |- eul_is_sing Rops c1 c2 ?m = true /\ _ => assert (S : eul_is_sing Rops c1 c2 m = true) end.
  { unfold eul_is_sing. sm_simpl. fold (eps Rops). rewrite Rabs_R0. pose proof eps_pos. unfold Rltb.
    repeat match goal with |- context[Rlt_dec ?a ?b] => destruct (Rlt_dec a b); [|cbn in *; lra] end. reflexivity. }
  split; [exact S|]. unfold tr2eul. rewrite S. pose proof H as H'. so3_facts H'.
  assert (Z : r20 = 0 /\ r21 = 0) by (apply sumsq0; lra). destruct Z as [-> ->].
  unfold eul2r_ref, eul_sing, Rz, Ry. sm_simpl.
  replace (1 * 0 + 0 * 0) with 0 by ring. replace (0 * r00 + 1 * r10) with r10 by ring. replace (0 * r01 + 1 * r11) with r11 by ring.
  assert (E1 : r22*r22 + 0*0 = 1) by lra. destruct (cs_atan2_unit _ _ E1) as [-> ->].
  assert (E2 : r11*r11 + r10*r10 = 1) by lra. destruct (cs_atan2_unit _ _ E2) as [-> ->].
  rewrite cos_0, sin_0. lin_simpl. tuple_eq ltac:(try (field_simplify; nra)).
Qed.

Theorem tr2eul_range c1 c2 flip (M : M33 R) a b c :
  tr2eul Rops c1 c2 flip M = (a, b, c) -> Rabs a <= PI /\ Rabs b <= PI /\ Rabs c <= PI.
Proof.
  destruct M as [[[[r00 r01] r02] [[r10 r11] r12]] [[r20 r21] r22]]. unfold tr2eul.
  destruct (eul_is_sing _ _ _ _); [unfold eul_sing|unfold eul_ns]; sm_simpl; intros I; injection I as <- <- <-;
    repeat split; try apply atan2_abs_le_PI.
  - rewrite Rabs_R0. pose proof PI_RGT_0. lra.
  - destruct flip; apply atan2_abs_le_PI.
Qed.

(* =================================================================== planar *)
Theorem tr2xyt_right_inverse (A : M33 R) : SE2 A -> xyt2tr_ref Rops (tr2xyt Rops false A) = A.
Proof.
  intros [H L]. destruct A as [[[[a00 a01] a02] [[a10 a11] a12]] [[a20 a21] a22]]. lin_simpl. cbn in H, L.
  injection L as -> -> ->. pose proof (SO2_columns _ _ _ _ H) as (E1 & E2 & E3).
  unfold xyt2tr_ref, tr2xyt. lin_simpl. destruct (cs_atan2_unit a00 a10 E3) as [-> ->].
  subst a11 a01. reflexivity.
Qed.

Theorem theta2_right_inverse (A : M22 R) : SO2 A -> let t := theta2 Rops false A in rot2_cs Rops (cos t) (sin t) = A.
Proof.
  intros H. destruct A as [[a00 a01] [a10 a11]]. pose proof (SO2_columns _ _ _ _ H) as (E1 & E2 & E3).
  unfold theta2. lin_simpl. rewrite Rmult_1_l. destruct (cs_atan2_unit a00 a10 E3) as [-> ->]. subst a11 a01. reflexivity.
Qed.

Theorem theta2_range (A : M22 R) : Rabs (theta2 Rops false A) <= PI.
Proof. destruct A as [[a00 a01] [a10 a11]]. unfold theta2. sm_simpl. rewrite Rmult_1_l. apply atan2_abs_le_PI. Qed.

(* degrees = radians * 180/pi, by construction of the (tied) models *)
Theorem scale_unit_deg (a : V3 R) :
  scale_unit Rops true a = let '(a0,a1,a2) := scale_unit Rops false a in (a0 * (180/PI), a1 * (180/PI), a2 * (180/PI)).
Proof. destruct a as [[a0 a1] a2]. unfold scale_unit, to_deg. sm_simpl. reflexivity. Qed.
Theorem theta2_deg (A : M22 R) : theta2 Rops true A = theta2 Rops false A * (180/PI).
Proof. destruct A as [[a00 a01] [a10 a11]]. unfold theta2, to_deg. sm_simpl. ring. Qed.
Theorem tr2xyt_deg (A : M33 R) :
  tr2xyt Rops true A = let '(x,y,t) := tr2xyt Rops false A in (x, y, t * (180/PI)).
Proof.
  destruct A as [[[[a00 a01] a02] [[a10 a11] a12]] [[a20 a21] a22]]. unfold tr2xyt, to_deg. sm_simpl. reflexivity.
Qed.
