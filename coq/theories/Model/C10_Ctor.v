(* C10 -- MODEL of SMUserList.arghandler, branch "list / tuple whose first element is an object of the same class"
   (spatialmath/smuserlist.py, the constructor C([X1, X2, ...]) of every pose / quaternion / twist class), over element tags.

       elif isinstance(arg, (list, tuple)):
           if len(arg) == 0:  self.data = []                                              (fix 1105ad0)
           ...
           elif type(arg[0]) == type(self):
               assert all(map(lambda x: type(x) == type(self), arg))                      -> AssertionError
               if not all(len(x) == 1 for x in arg): raise ValueError(..)                 (fix 2eab8b7)
               self.data = [x.A for x in arg]

   An element of the argument list is either an object of the same class, given by the list of values it holds (ANY length:
   empty, single, multi-valued), or anything else.  The first element is of the same class (the other dispatch branches of
   arghandler are modelled in C07_Ctor.v / probed by props/C10.py).  Tied to /repo on every run by props/C10.py: EVERY argument
   list of length <= 4 over elements holding 0..3 values or foreign is constructed through every list-capable class and
   compared with `ctor_objs` evaluated by vm_compute (T-tab).  No Reals, no axioms. *)
From Coq Require Import ZArith List Lia Bool.
From SM Require Import Model.C10_PyList Model.C10_SMList.
Import ListNotations.
Open Scope Z_scope.

Inductive elem := ESame (ts : list Z) | EOther.

Definition is_same (e : elem) : bool := match e with ESame _ => true | EOther => false end.
Definition is_single (e : elem) : bool := match e with ESame ts => zlen ts =? 1 | EOther => false end.
Definition elem_A (e : elem) : Z := match e with ESame ts => obj_A ts | EOther => g_row end.
Definition elem_vals (e : elem) : list Z := match e with ESame ts => ts | EOther => [] end.

(* the result: the new .data, or the exception *)
Definition ctor_objs (els : list elem) : res (list Z) :=
  match els with
  | [] => Ok []
  | EOther :: _ => Raise TypeError                      (* not this branch: outside the model (see header) *)
  | ESame _ :: _ =>
      if negb (forallb is_same els) then Raise AssertionError
      else if negb (forallb is_single els) then Raise ValueError
      else Ok (map elem_A els)
  end.

(* what a Python list built from the same objects holds: the values of the elements, in order *)
Definition spec_values (els : list elem) : list Z := concat (map elem_vals els).

Lemma single_A_vals : forall e, is_single e = true -> [elem_A e] = elem_vals e.
Proof.
  intros [ts|]; cbn; [|discriminate]. unfold zlen. intro H. apply Z.eqb_eq in H.
  destruct ts as [|t [|u r]]; cbn in *; try lia. reflexivity.
Qed.

Lemma all_single_concat : forall els, forallb is_single els = true -> map elem_A els = spec_values els.
Proof.
  induction els as [|e r IH]; cbn; intros H; [reflexivity|].
  apply andb_true_iff in H. destruct H as [He Hr]. unfold spec_values in *. cbn.
  rewrite <- (single_A_vals e He), <- (IH Hr). reflexivity.
Qed.

Lemma single_is_same : forall els, forallb is_single els = true -> forallb is_same els = true.
Proof.
  induction els as [|e r IH]; cbn; intros H; [reflexivity|].
  apply andb_true_iff in H. destruct H as [He Hr]. rewrite (IH Hr). destruct e; [reflexivity|discriminate].
Qed.

(* accepted exactly when every element is a single-valued object of the class; the result is then the list of their values *)
Lemma ctor_objs_ok_iff : forall els d,
  ctor_objs els = Ok d <-> (forallb is_single els = true /\ d = spec_values els).
Proof.
  intros els d. split.
  - destruct els as [|[ts|] r]; cbn [ctor_objs].
    + intro H. inversion H. split; reflexivity.
    + destruct (forallb is_same (ESame ts :: r)) eqn:Hs; cbn [negb]; [|discriminate].
      destruct (forallb is_single (ESame ts :: r)) eqn:H1; cbn [negb]; [|discriminate].
      intro H. injection H as H. split; [reflexivity|]. rewrite <- H. exact (all_single_concat (ESame ts :: r) H1).
    + discriminate.
  - intros [H1 Hd]. subst d. destruct els as [|[ts|] r]; [reflexivity| |cbn in H1; discriminate].
    cbn [ctor_objs]. rewrite (single_is_same _ H1), H1. cbn [negb]. rewrite (all_single_concat _ H1). reflexivity.
Qed.

Lemma ctor_objs_len : forall els d, ctor_objs els = Ok d -> zlen d = zlen els.
Proof.
  intros els d H. apply ctor_objs_ok_iff in H. destruct H as [H1 Hd]. subst d.
  rewrite <- (all_single_concat _ H1). unfold zlen. rewrite map_length. reflexivity.
Qed.

(* a multi-valued or an empty element ANYWHERE in a list of same-class objects: ValueError *)
Lemma ctor_objs_rejects : forall ts r,
  forallb is_same (ESame ts :: r) = true -> forallb is_single (ESame ts :: r) = false ->
  ctor_objs (ESame ts :: r) = Raise ValueError.
Proof. intros ts r Hs H1. cbn [ctor_objs]. rewrite Hs, H1. reflexivity. Qed.
