(* C08 -- operator type-safety: a model of Python's binary-operator protocol and of the operator methods
   of spatialmath's 16 public classes, as decision functions over operand KINDS (no numbers, no Reals).

   What is generated and what is hand-written
   -------------------------------------------
   * generated on every run by reflection (gen/Hierarchy_C08.v, a value of type [hier]):
       the MRO of every public class, which class of the MRO defines which operator dunder
       (so method resolution is computed HERE, by [owner], from the regenerated tables),
       and the class attributes the dispatch code reads (N, isSO, isSE, element shape);
   * hand-written (this file): the protocol ([arith], [richcmp]) transcribed from CPython's
       binary_op1 / slot_nb_* / do_richcompare, and one decision function per operator method,
       transcribed from the method bodies of /repo (file:line given at each).  These are tied to the
       implementation by running BOTH on every cell of the finite table on every run (props/C08.py).

   Every function is total; [Unmodelled] is an explicit outcome for branches this model does not
   claim to know (never reached on the enumerated table: theorem C08_model_total). *)
From Coq Require Import List Bool Arith.
Import ListNotations.

(* ------------------------------------------------------------------ classes *)
Inductive cls := SO2 | SE2 | SO3 | SE3 | Quaternion | UnitQuaternion | Twist2 | Twist3 | Plucker
  | SpatialVelocity | SpatialAcceleration | SpatialForce | SpatialMomentum | SpatialInertia
  | DualQuaternion | UnitDualQuaternion.
(* abstract / library bases that occur in the MROs and supply operator methods *)
Inductive bcls := SMPose | SMTwist | SpatialVector | SpatialM6 | SpatialF6 | SMUserList | UserList | PyObject.
Inductive pyc := C (c : cls) | B (b : bcls).

Inductive op := Mul | Div | Add | Sub | Pow | MatMul | Eq | Ne | Xor | Or.
(* method names looked up through the MRO: __op__, __rop__ and the in-place __iop__ *)
Inductive meth := Fwd (o : op) | Rev (o : op) | Inp (o : op).

Scheme Equality for cls.
Scheme Equality for bcls.
Scheme Equality for pyc.
Scheme Equality for op.
Scheme Equality for meth.

Definition all_cls : list cls := [SO2; SE2; SO3; SE3; Quaternion; UnitQuaternion; Twist2; Twist3; Plucker;
  SpatialVelocity; SpatialAcceleration; SpatialForce; SpatialMomentum; SpatialInertia; DualQuaternion; UnitDualQuaternion].
Definition all_ops : list op := [Mul; Div; Add; Sub; Pow; MatMul; Eq; Ne; Xor; Or].
Definition arith_ops : list op := [Mul; Div; Add; Sub; Pow; MatMul].
Definition arith_op (o : op) : bool := match o with Mul | Div | Add | Sub | Pow | MatMul => true | _ => false end.

(* ------------------------------------------------------------------ regenerated hierarchy *)
Record hier := {
  mro : cls -> list pyc;            (* cls.__mro__, restricted to the classes named above, in order *)
  defines : pyc -> list meth;       (* names in that class's own __dict__ *)
  poseN : cls -> nat;               (* .N of a pose class (0 otherwise) *)
  isSE : cls -> bool;
  isSO : cls -> bool;
  eshape : cls -> list nat          (* shape of one element of .data *)
}.

Section Model.
Variable H : hier.

Definition isinst (c : cls) (k : pyc) : bool := existsb (pyc_beq k) (mro H c).
Definition owner (c : cls) (m : meth) : option pyc :=
  find (fun k => existsb (meth_beq m) (defines H k)) (mro H c).
Definition strict_subclass (l r : cls) : bool := isinst l (C r) && negb (cls_beq l r).
Definition is_seq (c : cls) : bool := isinst c (B UserList).      (* has __len__/__iter__, .data *)
Definition is_pose (c : cls) : bool := isinst c (B SMPose).
Definition opt_pyc_beq (a b : option pyc) : bool :=
  match a, b with Some x, Some y => pyc_beq x y | None, None => true | _, _ => false end.

(* ------------------------------------------------------------------ operands and outcomes *)
(* KSeq tup m: a plain Python list (tup = false) or tuple (tup = true) of m numbers -- an array-LIKE vector operand *)
Inductive kind := Obj (c : cls) | KFloat | KInt | KArr (s : list nat) | KSeq (tup : bool) (m : nat).
Definition is_scalar (k : kind) : bool := match k with KFloat | KInt => true | _ => false end.

Inductive rkind := RObj (c : cls) | RArray | RArrayList | RBool | RBoolList | RBoolArray | RScalar | RObjArray.
(* Computed: freshly computed elements; DefaultIdentity: the default-constructed object of the class;
   ForeignElements: holds elements of the other operand (of another class / an array) or invalid ones;
   ListOp: inherited list concatenation / repetition of the operands' own elements *)
Inductive prov := Computed | DefaultIdentity | ForeignElements | ListOp.
Inductive outcome := Value (r : rkind) (p : prov) | Raise | ReturnsNone | Unmodelled.
Inductive mres := Out (o : outcome) | NotImpl.

Scheme Equality for list.
Definition shape_beq := list_beq nat Nat.eqb.
Scheme Equality for rkind.
Scheme Equality for prov.
Scheme Equality for outcome.

(* NumPy broadcasting of two shapes (aligned from the right) *)
Fixpoint bcast_rev (a b : list nat) : bool :=
  match a, b with
  | x :: a', y :: b' => ((x =? y) || (x =? 1) || (y =? 1)) && bcast_rev a' b'
  | _, _ => true
  end.
Definition bcast (a b : list nat) : bool := bcast_rev (rev a) (rev b).
Definition matmul_ok (a b : list nat) : bool :=
  match a, b with [_; k], [k'; _] => k =? k' | _, _ => false end.
(* base.isvector(v, n): shape (n,), (1,n) or (n,1) *)
Definition isvector (s : list nat) (n : nat) : bool :=
  match s with [m] => m =? n | [a; b] => ((a =? 1) && (b =? n)) || ((a =? n) && (b =? 1)) | _ => false end.
Definition hd0 (s : list nat) : nat := hd 0 s.
(* shape of the broadcast of two compatible shapes *)
Fixpoint bshape_rev (a b : list nat) : list nat :=
  match a, b with
  | x :: a', y :: b' => Nat.max x y :: bshape_rev a' b'
  | [], l => l
  | l, [] => l
  end.
Definition bshape (a b : list nat) : list nat := rev (bshape_rev (rev a) (rev b)).

Definition single_or_list (n : nat) (a b : rkind) : rkind := if n =? 1 then a else b.
Definition arr (n : nat) := single_or_list n RArray RArrayList.
Definition bools (n : nat) := single_or_list n RBool RBoolList.

(* what the element-wise helpers return before any constructor is applied *)
Inductive raw := RawSingle | RawList | RawRaise.
Inductive npop := OMatMul | OElem.
Definition np_ok (f : npop) (a b : list nat) : bool := match f with OMatMul => matmul_ok a b | OElem => bcast a b end.

Section Bodies.
(* [n]: the number of values held by every library-object operand of the cell (1 = single-valued) *)
Variable n : nat.
(* the operator protocol at smaller depth, for bodies that evaluate a nested expression such as [left == right] *)
Variable rec : op -> kind -> kind -> outcome.

(* SMPose._op2 (super_pose.py, after fix 5b6b922): same-class or subclass right operand / scalar / conforming array, else
   raise ValueError('bad operands') *)
Definition op2 (lc : cls) (r : kind) (f : npop) : raw :=
  match r with
  | Obj rc => if isinst rc (C lc)
              then (if np_ok f (eshape H lc) (eshape H rc) then (if n =? 1 then RawSingle else RawList) else RawRaise)
              else RawRaise
  | KFloat | KInt => if n =? 1 then RawSingle else RawList
  | KArr s => if shape_beq s (eshape H lc) then (if n =? 1 then RawSingle else RawList) else RawRaise
  | KSeq _ _ => RawRaise                          (* neither a scalar nor an ndarray *)
  end.
(* X(raw, check=False) for a pose class *)
Definition pose_ctor (c : cls) (x : raw) : outcome :=
  match x with RawSingle | RawList => Value (RObj c) Computed | RawRaise => Raise end.
Definition raw_out (x : raw) : outcome :=
  match x with RawSingle => Value RArray Computed | RawList => Value RArrayList Computed | RawRaise => Raise end.
Definition raw_bool (x : raw) : outcome :=
  match x with RawSingle => Value RBool Computed | RawList => Value RBoolList Computed | RawRaise => Raise end.

(* SMPose.__mul__ (after fixes b2b864c, 86fcbcb): pose * pose needs operands of the SAME class *)
Definition SMPose_mul (lc : cls) (r : kind) : mres :=
  match r with
  | Obj rc => if cls_beq lc rc                          (* type(left) == type(right) *)
              then Out (pose_ctor lc (op2 lc r OMatMul))
              else NotImpl                              (* not list/ndarray, not scalar *)
  | KArr s =>
      let N := poseN H lc in
      if isvector s N then Out (Value RArray Computed)                              (* one vector, one or several poses *)
      else if (n =? 1) && (isSO H lc || isSE H lc) && (hd0 s =? N) && (2 <=? length s)
           then Out (Value RArray Computed)                                         (* one pose, N x M array: every column *)
      else if (isSO H lc || isSE H lc) && (hd0 s =? N) && (2 <=? length s) && (n =? nth 1 s 0)
           then Out (Value RArray Computed)                                         (* M poses, N x M array: column i by pose i *)
      else Out Raise                                                                (* ValueError('bad operands') *)
  | KSeq _ m => if m =? poseN H lc then Out (Value RArray Computed) else Out Raise   (* isvector(list, N); the matrix branches need an ndarray *)
  | KFloat | KInt => Out (raw_out (op2 lc r OElem))
  end.
(* SMPose.__truediv__ *)
Definition SMPose_div (lc : cls) (r : kind) : mres :=
  match r with
  | Obj rc => if cls_beq lc rc then Out (pose_ctor lc (op2 lc r OMatMul)) else Out Raise
  | KFloat | KInt => Out (raw_out (op2 lc r OElem))
  | KArr _ | KSeq _ _ => Out Raise
  end.
(* SMPose.__add__/__sub__, :1156/:1239: the helper's result is returned as it is *)
Definition SMPose_addsub (lc : cls) (r : kind) : mres := Out (raw_out (op2 lc r OElem)).
(* unary minus applied to the result of __sub__ (SMPose.__rsub__, :1255) *)
Definition neg_out (o : outcome) : outcome :=
  match o with Value RArray p => Value RArray p | Value _ _ => Raise | x => x end.
(* SMPose.__pow__, :862 *)
Definition SMPose_pow (lc : cls) (r : kind) : mres :=
  match r with KInt => Out (Value (RObj lc) Computed) | _ => Out Raise end.
(* SMPose.__eq__, :1299-1300 *)
Definition SMPose_eq (lc : cls) (r : kind) : mres :=
  match r with
  | Obj rc => if cls_beq lc rc then Out (raw_bool (op2 lc r OElem)) else Out Raise
  | _ => Out Raise
  end.
(* SMPose.__ne__ (after fix a4db0b4):  eq = left == right;  [not x for x in eq] if eq is a list else  not eq *)
Definition SMPose_ne (lc : cls) (r : kind) : mres :=
  match rec Eq (Obj lc) r with
  | Value RBoolList p => Out (Value RBoolList p)
  | Value RBool p => Out (Value RBool p)
  | Raise => Out Raise
  | _ => Out Unmodelled
  end.

(* SMUserList.binop, smuserlist.py:522-552, for operands of equal length n: needs len(right) unless right is a scalar *)
Definition binop_ok (r : kind) : bool :=
  match r with Obj rc => is_seq rc | KFloat | KInt => true | KArr _ | KSeq _ _ => false end.

(* Quaternion.__mul__, quaternion.py:556-566 *)
Definition Quaternion_mul (lc : cls) (r : kind) : mres :=
  match r with
  | Obj rc => if isinst rc (C lc) then Out (Value (RObj Quaternion) Computed) else Out Raise
  | KFloat | KInt => Out (Value (RObj Quaternion) Computed)
  | KArr _ | KSeq _ _ => Out Raise
  end.
(* Quaternion.__rmul__ (after fix 1dd7b75):  if not isscalar(left): raise ValueError;  Quaternion([left * q._A for q in right]) *)
Definition Quaternion_rmul (sc : cls) (l : kind) : mres :=
  match l with
  | KFloat | KInt => Out (Value (RObj Quaternion) Computed)
  | _ => Out Raise
  end.
(* Quaternion.__add__/__sub__, :727/:788:  assert isinstance(left, type(right)) *)
Definition Quaternion_addsub (lc : cls) (r : kind) : mres :=
  match r with
  | Obj rc => if isinst lc (C rc) then Out (Value (RObj Quaternion) Computed) else Out Raise
  | _ => Out Raise
  end.
(* Quaternion.__pow__, :637 (base.qpow insists on an int) *)
Definition Quaternion_pow (lc : cls) (r : kind) : mres :=
  match r with KInt => Out (Value (RObj lc) Computed) | _ => Out Raise end.
(* Quaternion.__eq__/__ne__, :460/:491:  assert isinstance(left, type(right)); binop(list1=False) *)
Definition Quaternion_cmp (lc : cls) (r : kind) : mres :=
  match r with
  | Obj rc => if isinst lc (C rc) then Out (Value (bools n) Computed) else Out Raise
  | _ => Out Raise
  end.
(* UnitQuaternion.__mul__, quaternion.py:1558-1588 *)
Definition UnitQuaternion_mul (lc : cls) (r : kind) : mres :=
  match r with
  | Obj rc => if isinst lc (C rc)                    (* right.__class__(left.binop(right, qqmul)) *)
              then (if cls_beq rc Quaternion || cls_beq rc UnitQuaternion then Out (Value (RObj rc) Computed) else Out Unmodelled)
              else Out Raise
  | KFloat | KInt => Out (Value (RObj Quaternion) Computed)
  | KArr s => if isvector s 3 then Out (Value RArray Computed)
              else if (n =? 1) && (hd0 s =? 3) && (2 <=? length s) then Out (Value RArray Computed)
              else if (length s =? 2) && (hd0 s =? 3) && (n =? nth 1 s 0) then Out (Value RArray Computed)   (* fix e6aec7a: N quaternions, 3 x N points *)
              else Out Raise
  | KSeq _ m => if m =? 3 then Out (Value RArray Computed) else Out Raise
  end.
(* UnitQuaternion.__truediv__, :1666-1671.  UnitQuaternion(list) validates: for a right operand that is a plain
   (non-unit) Quaternion the quotient is not unit and the constructor raises (operand values are generic). *)
Definition UnitQuaternion_div (lc : cls) (r : kind) : mres :=
  match r with
  | Obj rc => if isinst lc (C rc) then (if cls_beq lc rc then Out (Value (RObj UnitQuaternion) Computed) else Out Raise) else Out Raise
  | KFloat | KInt => Out (Value (RObj Quaternion) Computed)
  | KArr _ | KSeq _ _ => Out Raise
  end.
(* UnitQuaternion.__eq__/__ne__, :1698/:1725: no type test; base.isequal needs 4-vectors *)
Definition UnitQuaternion_cmp (lc : cls) (r : kind) : mres :=
  match r with
  | Obj rc => if is_seq rc && shape_beq (eshape H rc) [4] then Out (Value (bools n) Computed) else Out Raise
  | _ => Out Raise
  end.

(* Twist3.__mul__ (twist.py:964-974) and Twist2.__mul__ (:1445-1455): [tw] the twist class, [se] its pose class *)
Definition Twist_mul (tw se : cls) (r : kind) : mres :=
  match r with
  | Obj rc => if isinst rc (C tw) then Out (Value (RObj tw) Computed)
              else if isinst rc (C se) then Out (Value (RObj se) Computed)
              else Out Raise
  | KFloat | KInt => Out (Value (RObj tw) Computed)
  | KArr _ | KSeq _ _ => Out Raise
  end.
(* Twist3.__rmul__ / Twist2.__rmul__ (after fixes 11978d3, d78118f):
   if isscalar(left): return TwistN([x * left for x in right.data])  else raise -- every element is scaled, whatever the length *)
Definition Twist_rmul (sc : cls) (l : kind) : mres :=
  match l with
  | KInt | KFloat => Out (Value (RObj sc) Computed)
  | _ => Out Raise
  end.
(* SMTwist.__eq__/__ne__, :262-264/:287-289 *)
Definition SMTwist_cmp (lc : cls) (r : kind) : mres :=
  match r with Obj rc => if cls_beq lc rc then Out (Value (bools n) Computed) else Out Raise | _ => Out Raise end.

(* Plucker, geom3d.py *)
Definition Plucker_mul (lc : cls) (r : kind) : mres :=                    (* :775-779: reciprocal product, uses .uw/.v *)
  match r with Obj rc => if isinst rc (C Plucker) then Out (Value RScalar Computed) else Out Raise | _ => Out Raise end.
Definition Plucker_rmul (sc : cls) (l : kind) : mres :=                   (* :798-804: only single-valued SE3 *)
  match l with Obj lc => if isinst lc (C SE3) && (n =? 1) then Out (Value (RObj Plucker) Computed) else Out Raise | _ => Out Raise end.
(* __eq__ / __ne__ (after fix 2ec0dbf): a non-Plucker operand is a TypeError, otherwise element-wise through binop(list1=False) *)
Definition Plucker_cmp (lc : cls) (r : kind) : mres :=
  match r with Obj rc => if isinst rc (C Plucker) then Out (Value (bools n) Computed) else Out Raise | _ => Out Raise end.
(* isparallel uses l2.w in np.cross: Plucker and Twist3 have a 3-vector (Twist3: one row per twist, which broadcasts); Twist2.w is a
   scalar, but for a multi-valued Twist2 it is the array of its n angular parts (fix 77cb365) -- a 3-vector exactly when n = 3 *)
Definition Plucker_or (lc : cls) (r : kind) : mres :=
  match r with
  | Obj rc => if isinst rc (C Plucker) || isinst rc (C Twist3) || (isinst rc (C Twist2) && (n =? 3)) then Out (Value RBool Computed) else Out Raise
  | _ => Out Raise
  end.
(* :623  not isparallel(l2) and abs(l1 * l2) < ...  (generic operands are not parallel, so the product is evaluated) *)
Definition Plucker_xor (lc : cls) (r : kind) : mres :=
  match Plucker_or lc r with
  | Out (Value RBool _) => match Plucker_mul lc r with Out (Value RScalar _) => Out (Value RBool Computed) | x => x end
  | x => x
  end.

(* SpatialVector, spatialvector.py *)
Definition SpatialVector_addsub (lc : cls) (r : kind) : mres :=            (* :202-207 / :225-230 *)
  match r with Obj rc => if cls_beq lc rc then Out (Value (RObj lc) Computed) else Out Raise | _ => Out Raise end.
Definition SpatialVector_rmul (sc : cls) (l : kind) : mres :=              (* :257-264: left.Ad() of a single SE3 / Twist3 *)
  match l with
  | Obj lc => if (isinst lc (C SE3) || isinst lc (C Twist3)) && (n =? 1) then Out (Value (RObj sc) Computed) else Out Raise
  | _ => Out Raise
  end.
Definition SpatialVelocity_matmul (lc : cls) (r : kind) : mres :=          (* :402 -> SpatialM6.cross :306-320, v = self.A indexed *)
  match r with
  | Obj rc => if negb (n =? 1) then Out Raise
              else if isinst rc (B SpatialM6) then Out (Value (RObj SpatialAcceleration) Computed)      (* fix 66a8f3b: any motion vector *)
              else if isinst rc (B SpatialF6) then Out (Value (RObj SpatialForce) Computed)
              else Out Raise
  | _ => Out Raise
  end.
(* :585-587 (after fix 2cebac9): SpatialInertia(left.A + right.A); for multi-valued operands .A is a list, + concatenates
   and the constructor refuses the list *)
Definition SpatialInertia_add (lc : cls) (r : kind) : mres :=
  match r with
  | Obj rc => if isinst rc (C SpatialInertia) && (n =? 1) then Out (Value (RObj SpatialInertia) Computed) else Out Raise
  | _ => Out Raise
  end.
Definition SpatialInertia_mul (lc : cls) (r : kind) : mres :=              (* :604-611: left.A @ right.A *)
  match r with
  | Obj rc => if negb (n =? 1) then Out Raise
              else if isinst rc (C SpatialAcceleration) then Out (Value (RObj SpatialForce) Computed)
              else if isinst rc (C SpatialVelocity) then Out (Value (RObj SpatialMomentum) Computed)
              else Out Raise
  | _ => Out Raise
  end.

(* DualQuaternion, DualQuaternion.py.  real part: Quaternion (UnitQuaternion for a UnitDualQuaternion); dual part: Quaternion *)
Definition real_cls (c : cls) : cls := if isinst c (C UnitDualQuaternion) then UnitQuaternion else Quaternion.
Definition is_quat_value (o : outcome) : bool :=
  match o with Value (RObj q) Computed => isinst q (C Quaternion) | _ => false end.
Definition DualQuaternion_addsub (o : op) (lc : cls) (r : kind) : mres :=    (* :155 / :172 *)
  match r with
  | Obj rc => if isinst rc (C DualQuaternion)
              then (if is_quat_value (rec o (Obj (real_cls lc)) (Obj (real_cls rc))) && is_quat_value (rec o (Obj Quaternion) (Obj Quaternion))
                    then Out (Value (RObj DualQuaternion) Computed) else Out Raise)
              else Out Raise                       (* right.real / right.dual: AttributeError; ints/floats/arrays have .real but
                                                      Quaternion + number fails its assertion *)
  | _ => Out Raise
  end.
(* :192-205 (after fix f42ba75): anything that is neither a DualQuaternion nor (for a unit one) a 3-vector is a ValueError.
   The product is a UnitDualQuaternion iff BOTH operands are (fix 56d2f84; the test used to look at left twice). *)
Definition DualQuaternion_mul (lc : cls) (r : kind) : mres :=
  match r with
  | Obj rc =>
      if isinst rc (C DualQuaternion) then
        let rr := rec Mul (Obj (real_cls lc)) (Obj (real_cls rc)) in
        let d1 := rec Mul (Obj (real_cls lc)) (Obj Quaternion) in
        let d2 := rec Mul (Obj Quaternion) (Obj (real_cls rc)) in
        if is_quat_value rr && is_quat_value d1 && is_quat_value d2 && is_quat_value (rec Add (Obj Quaternion) (Obj Quaternion))
        then (if isinst lc (C UnitDualQuaternion) && isinst rc (C UnitDualQuaternion) then Out (Value (RObj UnitDualQuaternion) Computed)
              else Out (Value (RObj DualQuaternion) Computed))
        else Out Raise
      else Out Raise
  | KArr s => if isinst lc (C UnitDualQuaternion) && isvector s 3 then Out (Value RArray Computed) else Out Raise
  | KSeq _ m => if isinst lc (C UnitDualQuaternion) && (m =? 3) then Out (Value RArray Computed) else Out Raise
  | KFloat | KInt => Out Raise
  end.

(* SMUserList (smuserlist.py, after fix ff75c13): + and * are TypeErrors unless a subclass defines them -- the list
   concatenation / repetition of collections.UserList is no longer inherited *)
Definition SMUserList_arith (sc : cls) (other : kind) : mres := Out Raise.

(* collections.UserList.__eq__ (CPython Lib/collections/__init__.py), reached through super().__eq__ *)
(* self.data == self.__cast(other) *)
Definition UserList_eq (lc : cls) (r : kind) : mres :=
  match r with
  | Obj rc => if is_seq rc
              then (if (n =? 0) then Out Unmodelled
                    else if 2 <=? fold_right Nat.mul 1 (eshape H lc) then Out Raise  (* bool(array == array): ambiguous, or shapes do not broadcast *)
                    else Out Unmodelled)
              else Out (Value RBool Computed)          (* list == object: False *)
  | KFloat | KInt => Out (Value RBool Computed)
  | KArr s => if bcast (n :: eshape H lc) s then Out (Value RBoolArray Computed) else Out Raise
  | KSeq false m => if m =? n then Out Raise              (* list == list of equal length: bool(array == number) is ambiguous *)
                    else Out (Value RBool Computed)        (* lengths differ: False without looking at the elements *)
  | KSeq true _ => Out (Value RBool Computed)              (* list == tuple: False *)
  end.
(* SMUserList.__eq__ / __ne__ (after fix fb8fbdb): two objects of the same class are compared element by element through
   binop(list1=False); anything else goes to super(): UserList.__eq__, and object.__ne__ (which inverts type(self).__eq__) *)
Definition SMUserList_eq (lc : cls) (r : kind) : mres :=
  match r with
  | Obj rc => if cls_beq lc rc then Out (Value (bools n) Computed) else UserList_eq lc r
  | _ => UserList_eq lc r
  end.
(* object.__eq__: NotImplemented for distinct objects;  object.__ne__: inverts the truth value of type(self).__eq__ *)
Definition invert_truth (m : mres) : mres :=
  match m with
  | NotImpl => NotImpl
  | Out (Value RBool p) | Out (Value RBoolList p) => Out (Value RBool p)
  | Out (Value RBoolArray _) => Out Raise
  | Out Raise => Out Raise
  | Out _ => Out Unmodelled
  end.

Definition SMUserList_ne (lc : cls) (r : kind) : mres :=
  match r with
  | Obj rc => if cls_beq lc rc then Out (Value (bools n) Computed) else invert_truth (SMUserList_eq lc r)
  | _ => invert_truth (SMUserList_eq lc r)
  end.

(* ------------------------------------------------------------------ method table *)
Definition body0 (k : pyc) (m : meth) (self : cls) (other : kind) : mres :=
  match k, m with
  | B SMPose, Fwd Mul => SMPose_mul self other
  | B SMPose, Fwd Div => SMPose_div self other
  | B SMPose, Fwd Add | B SMPose, Fwd Sub => SMPose_addsub self other
  | B SMPose, Fwd Pow => SMPose_pow self other
  | B SMPose, Fwd Eq => SMPose_eq self other
  | B SMPose, Fwd Ne => SMPose_ne self other
  | C Quaternion, Fwd Mul => Quaternion_mul self other
  | C Quaternion, Rev Mul => Quaternion_rmul self other
  | C Quaternion, Fwd Div => NotImpl                                      (* quaternion.py:671 *)
  | C Quaternion, Fwd Add | C Quaternion, Fwd Sub => Quaternion_addsub self other
  | C Quaternion, Fwd Pow => Quaternion_pow self other
  | C Quaternion, Fwd Eq | C Quaternion, Fwd Ne => Quaternion_cmp self other
  | C UnitQuaternion, Fwd Mul => UnitQuaternion_mul self other
  | C UnitQuaternion, Fwd Div => UnitQuaternion_div self other
  | C UnitQuaternion, Fwd Eq | C UnitQuaternion, Fwd Ne => UnitQuaternion_cmp self other
  | C Twist3, Fwd Mul => Twist_mul Twist3 SE3 other
  | C Twist2, Fwd Mul => Twist_mul Twist2 SE2 other
  | C Twist3, Rev Mul | C Twist2, Rev Mul => Twist_rmul self other
  | B SMTwist, Fwd Eq | B SMTwist, Fwd Ne => SMTwist_cmp self other
  | C Plucker, Fwd Mul => Plucker_mul self other
  | C Plucker, Rev Mul => Plucker_rmul self other
  | C Plucker, Fwd Eq | C Plucker, Fwd Ne => Plucker_cmp self other
  | C Plucker, Fwd Or => Plucker_or self other
  | C Plucker, Fwd Xor => Plucker_xor self other
  | B SpatialVector, Fwd Add | B SpatialVector, Fwd Sub => SpatialVector_addsub self other
  | B SpatialVector, Rev Mul => SpatialVector_rmul self other
  | C SpatialVelocity, Fwd MatMul => SpatialVelocity_matmul self other
  | C SpatialInertia, Fwd Add => SpatialInertia_add self other
  | C SpatialInertia, Fwd Mul => SpatialInertia_mul self other
  | C DualQuaternion, Fwd Add => DualQuaternion_addsub Add self other
  | C DualQuaternion, Fwd Sub => DualQuaternion_addsub Sub self other
  | C DualQuaternion, Fwd Mul => DualQuaternion_mul self other
  | B SMUserList, Fwd Add | B SMUserList, Rev Add | B SMUserList, Fwd Mul | B SMUserList, Rev Mul => SMUserList_arith self other
  | B SMUserList, Fwd Eq => SMUserList_eq self other
  | B SMUserList, Fwd Ne => SMUserList_ne self other
  | B UserList, Fwd Eq => UserList_eq self other
  | B PyObject, Fwd Eq => NotImpl
  | _, _ => Out Unmodelled
  end.
Definition call0 (k : option pyc) (m : meth) (self : cls) (other : kind) : mres :=
  match k with None => NotImpl | Some k => body0 k m self other end.
(* methods that only delegate to another method of [self], resolved through the MRO of type(self) *)
Definition body (k : pyc) (m : meth) (self : cls) (other : kind) : mres :=
  match k, m with
  | B SMPose, Rev Mul => if is_scalar other then call0 (owner self (Fwd Mul)) (Fwd Mul) self other else NotImpl   (* :1020-1023 *)
  | B SMPose, Rev Add => call0 (owner self (Fwd Add)) (Fwd Add) self other                                       (* :1172 *)
  | B SMPose, Rev Sub => match call0 (owner self (Fwd Sub)) (Fwd Sub) self other with                            (* :1255 *)
                         | Out o => Out (neg_out o) | NotImpl => Out Unmodelled end
  | C SpatialInertia, Rev Mul => call0 (owner self (Fwd Mul)) (Fwd Mul) self other                               (* spatialvector.py:627 *)
  | B PyObject, Fwd Ne => invert_truth (call0 (owner self (Fwd Eq)) (Fwd Eq) self other)
  | _, _ => body0 k m self other
  end.
Definition call (k : option pyc) (m : meth) (self : cls) (other : kind) : mres :=
  match k with None => NotImpl | Some k => body k m self other end.

(* ------------------------------------------------------------------ the protocol *)
Definition type_error : outcome := Raise.
Definition or_else (m : mres) (k : outcome) : outcome := match m with Out o => o | NotImpl => k end.

(* NumPy with the array on the left (ndarray.__op__) or reached as the reflected method (ndarray.__rop__): the other operand
   is coerced with np.asarray.  A UserList object is a sequence whose items are again such objects: the coercion fails
   ("setting an array element with a sequence ... exceed the maximum number of dimension").  Any other object is an
   object scalar and the operator is applied element by element, float against object. *)
Definition numpy_arith (o : op) (c : cls) (arr_left : bool) : outcome :=
  if is_seq c then Raise
  else match o with
       | MatMul => Raise
       | _ => match (if arr_left then rec o KFloat (Obj c) else rec o (Obj c) KFloat) with
              | Raise => Raise | Value _ _ => Value RObjArray Computed | _ => Unmodelled end
       end.
Definition numpy_cmp (c : cls) : outcome := if is_seq c then Raise else Value RBoolArray Computed.

(* binary_op1 + slot_nb_<op> (Objects/abstract.c, Objects/typeobject.c SLOT1BINFULL) *)
Definition arith (o : op) (l r : kind) : outcome :=
  match l, r with
  | Obj cl, Obj cr =>
      let same := cls_beq cl cr in
      let fwd := call (owner cl (Fwd o)) (Fwd o) cl r in
      let rv := call (owner cr (Rev o)) (Rev o) cr l in
      (* right operand's class is a proper subclass AND overrides the reflected method: it goes first *)
      let sub_first := negb same && isinst cr (C cl)
                       && match owner cr (Rev o) with Some x => negb (opt_pyc_beq (owner cl (Rev o)) (Some x)) | None => false end in
      if sub_first then match rv with Out x => x | NotImpl => or_else fwd type_error end
      else match fwd with
           | Out x => x
           | NotImpl => if same then type_error else or_else rv type_error
           end
  | Obj cl, KFloat | Obj cl, KInt | Obj cl, KSeq _ _ =>
      or_else (call (owner cl (Fwd o)) (Fwd o) cl r) type_error          (* float/int.__rop__(obj) is NotImplemented; list and tuple have
                                                                             no reflected numeric methods, and their sequence repeat / concat
                                                                             need an int / a list: TypeError *)
  | Obj cl, KArr _ =>
      match call (owner cl (Fwd o)) (Fwd o) cl r with Out x => x | NotImpl => numpy_arith o cl false end
  | KFloat, Obj cr | KInt, Obj cr | KSeq _ _, Obj cr =>
      or_else (call (owner cr (Rev o)) (Rev o) cr l) type_error          (* float/int.__op__(obj) is NotImplemented; list / tuple have no
                                                                             nb_ slots: the object's reflected method is asked, then sq_repeat
                                                                             / sq_concat fail with TypeError *)
  | KArr _, Obj cr => numpy_arith o cr true
  | _, _ => Unmodelled
  end.
(* do_richcompare (Objects/object.c): a proper subclass on the right goes first (no "overrides" condition);
   == and != fall back to identity, i.e. a bool for distinct objects *)
Definition richcmp (o : op) (l r : kind) : outcome :=
  let dflt := Value RBool Computed in
  match l, r with
  | Obj cl, Obj cr =>
      let fwd := call (owner cl (Fwd o)) (Fwd o) cl r in
      let rv := call (owner cr (Fwd o)) (Fwd o) cr l in
      if negb (cls_beq cl cr) && isinst cr (C cl)
      then match rv with Out x => x | NotImpl => or_else fwd dflt end
      else match fwd with Out x => x | NotImpl => or_else rv dflt end
  | Obj cl, KFloat | Obj cl, KInt | Obj cl, KSeq _ _ => or_else (call (owner cl (Fwd o)) (Fwd o) cl r) dflt
  | Obj cl, KArr _ => match call (owner cl (Fwd o)) (Fwd o) cl r with Out x => x | NotImpl => numpy_cmp cl end
  | KFloat, Obj cr | KInt, Obj cr | KSeq _ _, Obj cr => or_else (call (owner cr (Fwd o)) (Fwd o) cr l) dflt   (* list.__eq__(obj) is NotImplemented *)
  | KArr _, Obj cr => numpy_cmp cr
  | _, _ => Unmodelled
  end.
Definition step (o : op) (l r : kind) : outcome :=
  match o with Eq | Ne => richcmp o l r | _ => arith o l r end.
End Bodies.

Fixpoint binop_fuel (fuel : nat) (n : nat) (o : op) (l r : kind) : outcome :=
  match fuel with
  | 0 => Unmodelled
  | S f => step n (binop_fuel f n) o l r
  end.
(* nesting depth of the operator methods is at most 3 (DualQuaternion.* -> Quaternion.* ; SMPose.__ne__ -> == ; list * x) *)
Definition binop (n : nat) (o : op) (l r : kind) : outcome := binop_fuel 4 n o l r.

(* ------------------------------------------------------------------ in-place operators  x op= y *)
(* the __iop__ methods (every one of them delegates):
     SMPose.__imul__/__itruediv__/__iadd__/__isub__ (super_pose.py):  return left.__op__(right)      -- a direct method call
     Quaternion.__imul__, UnitQuaternion.__imul__, Quaternion.__ipow__ (quaternion.py):  return left.__mul__(right) / self.__pow__(n)
     SMUserList.__iadd__/__imul__ (smuserlist.py, fix 5371e50):  return self + other / self * other -- the whole binary protocol
   collections.UserList's own __iadd__/__imul__ (in-place list extension / repetition) are shadowed for every class; the model has
   no body for them (Unmodelled: fail closed). *)
Definition ibody (n : nat) (k : pyc) (o : op) (self : cls) (other : kind) : mres :=
  let direct := call n (binop n) (owner self (Fwd o)) (Fwd o) self other in
  match k, o with
  | B SMPose, Mul | B SMPose, Div | B SMPose, Add | B SMPose, Sub => direct
  | C Quaternion, Mul | C UnitQuaternion, Mul | C Quaternion, Pow => direct
  | B SMUserList, Add | B SMUserList, Mul => Out (binop n o (Obj self) other)
  | _, _ => Out Unmodelled
  end.
(* PyNumber_InPlace<Op> (Objects/abstract.c binary_iop1): type(x).__iop__ if there is one; NotImplemented or absent -> the binary
   protocol; the result is rebound to x.  float, int and tuple have no in-place slots.  An ndarray on the left runs the ufunc with
   out=x (same coercion of the other operand as the binary form).  A list on the left: *= goes through the binary nb_multiply
   route (the object's __rmul__) and then sq_inplace_repeat, which needs an int; += asks the object's __radd__ first and only
   then list.extend(obj), which iterates the object. *)
Definition iop (n : nat) (o : op) (l r : kind) : outcome :=
  match l, r with
  | Obj cl, _ =>
      match owner cl (Inp o) with
      | Some k => match ibody n k o cl r with Out x => x | NotImpl => binop n o l r end
      | None => binop n o l r
      end
  | KArr _, Obj cr => match numpy_arith (binop n) o cr true with Raise => Raise | _ => Unmodelled end
  | KSeq false _, Obj cr =>
      match o with
      | Add => match call n (binop n) (owner cr (Rev Add)) (Rev Add) cr l with
               | Out x => x
               | NotImpl => if is_seq cr then Unmodelled else Raise       (* list.extend(obj): obj is not iterable *)
               end
      | _ => binop n o l r
      end
  | _, _ => binop n o l r
  end.

(* ================================================================== the documented table *)
(* Must: named by the property text -- the result is required; May: defined only by a docstring table -- if a value is
   returned it must be this one, raising is tolerated; MustRaise: every other pairing under an arithmetic operator;
   Free: == != ^ | outside the documented pairs (recorded, not constrained). *)
Inductive spec := Must (r : rkind) | May (r : rkind) | MustRaise | Free.

Definition is_quat (c : cls) := isinst c (C Quaternion).
Definition is_sv (c : cls) := isinst c (B SpatialVector).
Definition is_dq (c : cls) := isinst c (C DualQuaternion).

Definition documented (n : nat) (o : op) (l r : kind) : spec :=
  let must_single (x : rkind) := if n =? 1 then Must x else May x in
  match o, l, r with
  (* ---- poses: super_pose.py docstring tables; property text: composition stays in the class, + - and scalar * / give arrays *)
  | Mul, Obj a, Obj b =>
      if is_pose a then (if cls_beq a b then Must (RObj a)
                         else if cls_beq a SE3 && cls_beq b Plucker then must_single (RObj Plucker)
                         else if cls_beq a SE3 && is_sv b then must_single (RObj b)
                         else MustRaise)
      else if is_quat a && is_quat b then Must (RObj (if cls_beq a UnitQuaternion && cls_beq b UnitQuaternion then UnitQuaternion else Quaternion))
      else if cls_beq a Twist3 && (cls_beq b Twist3 || cls_beq b SE3) then Must (RObj b)
      else if cls_beq a Twist2 && (cls_beq b Twist2 || cls_beq b SE2) then Must (RObj b)
      else if cls_beq a Twist3 && is_sv b then May (RObj b)                         (* spatialvector.py:233 table *)
      else if cls_beq a Plucker && cls_beq b Plucker then May RScalar               (* geom3d.py:754 reciprocal product *)
      else if cls_beq a SpatialInertia && cls_beq b SpatialAcceleration then May (RObj SpatialForce)
      else if cls_beq a SpatialInertia && cls_beq b SpatialVelocity then May (RObj SpatialMomentum)
      else if is_dq a && is_dq b then May (RObj (if cls_beq a UnitDualQuaternion && cls_beq b UnitDualQuaternion then UnitDualQuaternion else DualQuaternion))
      else MustRaise
  | Mul, Obj a, KArr s =>
      if is_pose a && (isvector s (poseN H a) || ((hd0 s =? poseN H a) && (length s =? 2))) then May RArray
      else if cls_beq a UnitQuaternion && (isvector s 3 || ((hd0 s =? 3) && (length s =? 2))) then May RArray
      else if cls_beq a UnitDualQuaternion && isvector s 3 then May RArray
      else MustRaise
  | Mul, Obj a, KSeq _ m =>   (* pose * vector, UnitQuaternion * 3-vector: "the vector is an array-like, a 1D NumPy array or a list/tuple" *)
      if is_pose a && (m =? poseN H a) then May RArray
      else if (cls_beq a UnitQuaternion || cls_beq a UnitDualQuaternion) && (m =? 3) then May RArray
      else MustRaise
  | Mul, Obj a, _ =>       (* scalar on the right *)
      if is_pose a then Must (arr n)
      else if is_quat a then May (RObj Quaternion)
      else if cls_beq a Twist2 || cls_beq a Twist3 then May (RObj a)
      else MustRaise
  | Mul, _, Obj b =>       (* scalar (or array) on the left *)
      if is_scalar l then
        (if is_pose b then Must (arr n)
         else if is_quat b then May (RObj Quaternion)
         else if cls_beq b Twist2 || cls_beq b Twist3 then May (RObj b)
         else MustRaise)
      else MustRaise
  | Div, Obj a, Obj b =>
      if is_pose a && cls_beq a b then Must (RObj a)
      else if cls_beq a UnitQuaternion && cls_beq b UnitQuaternion then Must (RObj UnitQuaternion)
      else MustRaise
  | Div, Obj a, _ =>
      if is_scalar r then (if is_pose a then Must (arr n) else if cls_beq a UnitQuaternion then May (RObj Quaternion) else MustRaise)
      else MustRaise
  | Add, Obj a, Obj b | Sub, Obj a, Obj b =>
      if is_pose a && cls_beq a b then Must (arr n)
      else if is_quat a && is_quat b then May (RObj Quaternion)
      else if is_sv a && cls_beq a b then May (RObj a)
      else if cls_beq a SpatialInertia && cls_beq b SpatialInertia && op_beq o Add then May (RObj SpatialInertia)
      else if is_dq a && is_dq b then May (RObj DualQuaternion)
      else MustRaise
  | Add, Obj a, KArr s | Sub, Obj a, KArr s =>
      if is_pose a && shape_beq s (eshape H a) then May (arr n) else MustRaise      (* conforming array (helper _op2) *)
  | Add, Obj a, _ | Sub, Obj a, _ =>
      if negb (is_scalar r) then MustRaise
      else if is_pose a then May (arr n) else if is_quat a then May (RObj Quaternion) else MustRaise
  | Add, _, Obj b | Sub, _, Obj b =>
      if is_scalar l && is_pose b then May (arr n) else MustRaise
  | Pow, Obj a, KInt => if is_pose a || is_quat a then May (RObj a) else MustRaise
  | MatMul, Obj a, Obj b =>
      if cls_beq a SpatialVelocity && isinst b (B SpatialM6) then May (RObj SpatialAcceleration)     (* cross(): SpatialM6 -> SpatialM6 *)
      else if cls_beq a SpatialVelocity && isinst b (B SpatialF6) then May (RObj SpatialForce)
      else MustRaise
  (* ---- comparisons: same class -> booleans (a list for a multi-valued sequence), without raising *)
  | Eq, Obj a, Obj b | Ne, Obj a, Obj b =>
      if cls_beq a b then Must (if is_seq a then bools n else RBool)
      else if is_quat a && is_quat b then May (bools n)
      else Free
  | Xor, Obj a, Obj b | Or, Obj a, Obj b => if cls_beq a Plucker && cls_beq b Plucker then May RBool else Free
  | Eq, _, _ | Ne, _, _ | Xor, _, _ | Or, _, _ => Free
  | _, _, _ => MustRaise
  end.

Definition conforms (s : spec) (o : outcome) : bool :=
  match s with
  | Must r => outcome_beq o (Value r Computed)
  | May r => outcome_beq o (Value r Computed) || outcome_beq o Raise
  | MustRaise => outcome_beq o Raise
  | Free => negb (outcome_beq o Unmodelled)
  end.

(* ================================================================== the finite table *)
Definition nonobj_kinds : list kind := [KFloat; KInt; KArr [3; 3]; KArr [4; 4]; KArr [3]].
Definition all_kinds : list kind := map Obj all_cls ++ nonobj_kinds.
Definition is_obj (k : kind) : bool := match k with Obj _ => true | _ => false end.
Definition lengths : list nat := [1; 3].        (* single-valued; multi-valued with three values *)

Record cell := { c_n : nat; c_op : op; c_l : kind; c_r : kind }.
(* every ordered pair of kinds with at least one library object x every operator x the given lengths *)
Definition cells_for (ns : list nat) (kinds : list kind) : list cell :=
  flat_map (fun n => flat_map (fun l => flat_map (fun r =>
    if is_obj l || is_obj r then map (fun o => {| c_n := n; c_op := o; c_l := l; c_r := r |}) all_ops else [])
    kinds) kinds) ns.
Definition all_cells : list cell := cells_for lengths all_kinds.
(* a larger table used to validate the model beyond the property's domain: lengths 1..4 and nine more array shapes *)
Definition ext_kinds : list kind :=
  all_kinds ++ [KArr [2]; KArr [2; 2]; KArr [6]; KArr [6; 6]; KArr [3; 5]; KArr [4]; KArr [2; 3]; KArr [3; 1]; KArr [1; 3]].
Definition ext_cells : list cell := cells_for [1; 2; 3; 4] ext_kinds.
(* array-LIKE vector operands: a list or a tuple of 2, 3 or 4 numbers, on either side of every class, every operator *)
Definition seq_kinds : list kind := [KSeq false 2; KSeq false 3; KSeq false 4; KSeq true 2; KSeq true 3; KSeq true 4].
Definition is_seq_kind (k : kind) : bool := match k with KSeq _ _ => true | _ => false end.
Definition seq_cells : list cell :=
  filter (fun c => is_seq_kind (c_l c) || is_seq_kind (c_r c)) (cells_for lengths (map Obj all_cls ++ seq_kinds)).

(* the in-place table: the six arithmetic operators as  x op= y  over every operand kind of the other tables (objects, float, int,
   arrays, lists, tuples), both lengths *)
Definition inplace_cells : list cell :=
  flat_map (fun n => flat_map (fun l => flat_map (fun r =>
    if is_obj l || is_obj r then map (fun o => {| c_n := n; c_op := o; c_l := l; c_r := r |}) arith_ops else [])
    (all_kinds ++ seq_kinds)) (all_kinds ++ seq_kinds)) lengths.

Definition model (c : cell) : outcome := binop (c_n c) (c_op c) (c_l c) (c_r c).
Definition imodel (c : cell) : outcome := iop (c_n c) (c_op c) (c_l c) (c_r c).
Definition spec_of (c : cell) : spec := documented (c_n c) (c_op c) (c_l c) (c_r c).
Definition cell_ok (c : cell) : bool := conforms (spec_of c) (model c).
(* one line per cell, printed by the check and compared with the implementation *)
Definition report_for (cells : list cell) : list (nat * op * kind * kind * outcome * spec) :=
  map (fun c => (c_n c, c_op c, c_l c, c_r c, model c, spec_of c)) cells.
Definition report := report_for all_cells.
Definition ireport : list (nat * op * kind * kind * outcome * spec) :=
  map (fun c => (c_n c, c_op c, c_l c, c_r c, imodel c, spec_of c)) inplace_cells.

End Model.

(* ================================================================== generic lemmas (any hierarchy, any length) *)

(* pose * pose and pose / pose are defined for operands of the same class only: with a right operand of any other class
   (in particular a superclass instance: SE3 * SO3) __mul__ declines and __truediv__ raises *)
Lemma SMPose_mul_other_class_declines :
  forall (H : hier) (n : nat) (l r : cls), cls_beq l r = false -> SMPose_mul H n l (Obj r) = NotImpl.
Proof. intros H n l r Hlr. unfold SMPose_mul. rewrite Hlr. reflexivity. Qed.
Lemma SMPose_div_other_class_raises :
  forall (H : hier) (n : nat) (l r : cls), cls_beq l r = false -> SMPose_div H n l (Obj r) = Out Raise.
Proof. intros H n l r Hlr. unfold SMPose_div. rewrite Hlr. reflexivity. Qed.

(* the shared helper raises for every right operand that is an object of an unrelated class: + and - never return None *)
Lemma SMPose_addsub_unrelated_raises :
  forall (H : hier) (n : nat) (l r : cls),
    isinst H r (C l) = false -> SMPose_addsub H n l (Obj r) = Out Raise.
Proof. intros H n l r Hrl. unfold SMPose_addsub, op2. rewrite Hrl. reflexivity. Qed.

(* and when the right operand is an instance of a proper subclass with elements of another shape, NumPy refuses to combine them *)
Lemma SMPose_addsub_subclass_instance :
  forall (H : hier) (n : nat) (l r : cls),
    isinst H r (C l) = true -> bcast (eshape H l) (eshape H r) = false -> SMPose_addsub H n l (Obj r) = Out Raise.
Proof. intros H n l r Hrl Hb. unfold SMPose_addsub, op2, np_ok. rewrite Hrl, Hb. reflexivity. Qed.

(* the helper never yields None, whatever the operands *)
Lemma SMPose_addsub_never_none :
  forall (H : hier) (n : nat) (l : cls) (r : kind), SMPose_addsub H n l r <> Out ReturnsNone.
Proof.
  intros H n l r. unfold SMPose_addsub, op2.
  destruct r as [rc | | | s | tup m]; repeat match goal with |- context [if ?b then _ else _] => destruct b end; simpl; discriminate.
Qed.

(* protocol: with a number on the left the outcome is whatever the reflected method of the right class says, TypeError if it
   declines or does not exist *)
Lemma arith_scalar_left :
  forall (H : hier) n rec o cr,
    arith H n rec o KFloat (Obj cr) = or_else (call H n rec (owner H cr (Rev o)) (Rev o) cr KFloat) Raise.
Proof. reflexivity. Qed.

Lemma arith_no_methods_raises :
  forall (H : hier) n rec o cl cr,
    owner H cl (Fwd o) = None -> owner H cr (Rev o) = None -> arith H n rec o (Obj cl) (Obj cr) = Raise.
Proof.
  intros H n rec o cl cr Hf Hr. unfold arith. rewrite Hf, Hr. simpl.
  rewrite andb_false_r. destruct (cls_beq cl cr); reflexivity.
Qed.

(* ================================================================== reflection helpers for the table theorems *)
Lemma outcome_beq_true : forall a b, outcome_beq a b = true -> a = b.
Proof. exact internal_outcome_dec_bl. Qed.
Lemma outcome_beq_refl : forall a, outcome_beq a a = true.
Proof. intro a. apply internal_outcome_dec_lb. reflexivity. Qed.
Lemma outcome_beq_false : forall a b, outcome_beq a b = false -> a <> b.
Proof. intros a b Hf Heq. subst. rewrite outcome_beq_refl in Hf. discriminate. Qed.

(* [forall c in cells, P c] from one evaluation of [forallb] *)
Lemma table_forall : forall (P : cell -> bool) (cells : list cell),
  forallb P cells = true -> forall c, In c cells -> P c = true.
Proof. intros P cells Hall c Hin. exact (proj1 (forallb_forall P cells) Hall c Hin). Qed.

Definition is_computed_or_raise (o : outcome) : bool :=
  match o with Raise => true | Value _ Computed => true | _ => false end.

(* membership in the table without enumerating it *)
Definition cell_of (n : nat) (o : op) (l r : kind) : cell := {| c_n := n; c_op := o; c_l := l; c_r := r |}.
Lemma cell_in : forall n o l r,
  In n lengths -> In l all_kinds -> In r all_kinds -> is_obj l || is_obj r = true -> In o all_ops ->
  In (cell_of n o l r) all_cells.
Proof.
  intros n o l r Hn Hl Hr Hobj Ho. unfold all_cells, cells_for.
  apply in_flat_map. exists n. split; [exact Hn|].
  apply in_flat_map. exists l. split; [exact Hl|].
  apply in_flat_map. exists r. split; [exact Hr|].
  rewrite Hobj. apply in_map_iff. exists o. split; [reflexivity | exact Ho].
Qed.
