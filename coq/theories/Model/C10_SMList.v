(* C10 -- MODEL of the list layer of spatialmath (smuserlist.py: SMUserList + the inherited collections.UserList /
   collections.abc.Sequence methods), over element tags (Z), mirroring the code AS IT IS, defects included.
   Tied to /repo on every run by props/C10.py (T-seq, three-way: real objects / this model / a Python list).

   source line  (spatialmath/smuserlist.py)                                   model
   (line numbers of the tree after the fix commits 639aa3a (slices), e8a8671 (extend), f16dbda (list of arrays))
   292-297  __getitem__(slice): data = [self.data[k] for k in range( *i.indices(len(self)))];   py_slice_indices, collect,
            cls.Empty() if len(data) == 0 else cls(data)                                      construct
   299      __getitem__(int):   cls(data[i])                                   py_getitem
   326-330  __setitem__: type test, len(value) != 1 test, data[i] = value.A     m_single_operand, obj_A, py_setitem
   363-367  append, 425-429 insert: same guards, then list.append / insert     py_insert
   392-394  extend: type test, data.extend(iterable.data)                      py_extend
   458      pop: cls(data.pop(i))                                              py_pop
   190-206  arghandler, list: [] -> data = [] (fix 1105ad0); list of same-class   construct
            objects: data = [x.A for x in arg]
   210-212  copy constructor: data = copy(arg.data)
   100-102  Empty, 134-136 Alloc
   UserList __delitem__/reverse/clear/__len__ act on .data directly;           py_delitem py_delslice py_reverse py_clear
   Sequence.__iter__: i = 0; while True: yield self[i]; i += 1 until IndexError   iter_loop
   spatialvector.py:129-133  SpatialVector.__getitem__: cls.Empty() for an empty slice, else cls(data[i])  (own_slice = false)
   (geom3d.py:357 Plucker and spatialvector.py:556 SpatialInertia keep the bare cls(data[i]); they are not modelled)   *)
From Coq Require Import ZArith List Lia Bool.
From SM Require Import Model.C10_PyList.
Import ListNotations.
Open Scope Z_scope.

(* what is handed to a mutator: an object of the same class holding the values ts (any length), or anything else *)
Inductive operand := Same (ts : list Z) | Other.

Inductive op :=
  | GetItem (i : Z) | GetSlice (a b c : option Z) | Iter | IterRev | Len
  | SetItem (i : Z) (v : operand) | DelItem (i : Z) | DelSlice (a b c : option Z)
  | Append (v : operand) | Extend (v : operand) | Insert (i : Z) (v : operand)
  | Pop (i : Z) | Reverse | Clear
  | CtorIter                 (* x = cls([e for e in x]) : iteration + constructor from a list of objects *)
  | CtorCopy                 (* x = cls(x) *)
  | CtorFrom (ts : list Z)   (* x = cls([one single-valued object per tag]) *)
  | Alloc (n : Z) | Empty.

(* what an operation returns: None, an object of the class holding ts, a sequence of such objects (iteration), an int *)
Inductive out := NoneV | Obj (ts : list Z) | Objs (l : list (list Z)) | Int (z : Z).

(* per-class parameter: whether the class uses SMUserList.__getitem__ (true) or overrides it with cls(data[i]) (false) *)
Record cls := { own_slice : bool }.

(* things that are not element values but end up in .data on the defective paths *)
Definition g_empty : Z := -1.   (* the empty list [] (x.A of an empty object) *)
Definition g_row : Z := -2.     (* anything else that is not an element (the model never produces it) *)
Definition g_nested : Z := -3.  (* a list of arrays (x.A of a multi-valued object) *)

(* x.A / x._A : data[0] if len(data) == 1 else data *)
Definition obj_A (ts : list Z) : Z := match ts with [t] => t | [] => g_empty | _ => g_nested end.

(* ------------------------------------------------------------------ __getitem__(slice), as written *)
(* [data[k] for k in ks] : each k through ordinary list indexing *)
Fixpoint collect (l : list Z) (ks : list Z) : res (list Z) :=
  match ks with
  | [] => Ok []
  | k :: t => match py_getitem l k with
              | Raise e => Raise e
              | Ok v => match collect l t with Ok vs => Ok (v :: vs) | Raise e => Raise e end
              end
  end.
(* cls(list of arrays) / cls(list of same-class objects): arghandler; an empty list gives an empty object (fix 1105ad0) *)
Definition construct (vs : list Z) : res out := Ok (Obj vs).

Definition m_getslice (C : cls) (st : list Z) (a b c : option Z) : res out :=
  if own_slice C then
    match py_slice_indices (zlen st) a b c with            (* i.indices(len(self)): ValueError for step 0 *)
    | Raise e => Raise e
    | Ok ks => match collect st ks with
               | Raise e => Raise e
               | Ok [] => Ok (Obj [])                        (* cls.Empty() *)
               | Ok vs => construct vs
               end
    end
  else
    (* spatialvector.py:129-133 (after fix 40af48b): Empty() if len(self.data[i]) == 0 else cls(self.data[i]) *)
    match py_getslice st a b c with
    | Raise e => Raise e
    | Ok [] => Ok (Obj [])
    | Ok vs => construct vs
    end.

(* ------------------------------------------------------------------ Sequence.__iter__ *)
Fixpoint iter_loop (st : list Z) (fuel : nat) (i : Z) : list (list Z) :=
  match fuel with
  | O => []
  | S f => match py_getitem st i with Ok v => [v] :: iter_loop st f (i + 1) | Raise _ => [] end
  end.
Definition m_iter (st : list Z) : list (list Z) := iter_loop st (S (length st)) 0.
(* Sequence.__reversed__: for i in reversed(range(len(self))): yield self[i] *)
Definition m_reversed (st : list Z) : res (list Z) := collect st (rev (map Z.of_nat (seq 0 (length st)))).

(* ------------------------------------------------------------------ the guards of __setitem__/append/insert *)
Definition m_single_operand (v : operand) : res Z :=
  match v with
  | Other => Raise ValueError                                       (* not type(self) == type(value) *)
  | Same ts => if negb (zlen ts =? 1) then Raise ValueError else Ok (obj_A ts)   (* len(value) != 1  (fix b1d6482) *)
  end.

Definition m_step (C : cls) (st : list Z) (o : op) : list Z * res out :=
  match o with
  | GetItem i => (st, match py_getitem st i with Ok v => Ok (Obj [v]) | Raise e => Raise e end)
  | GetSlice a b c => (st, m_getslice C st a b c)
  | Iter => (st, Ok (Objs (m_iter st)))
  | IterRev => (st, match m_reversed st with Ok vs => Ok (Objs (map (fun t => [t]) vs)) | Raise e => Raise e end)
  | Len => (st, Ok (Int (zlen st)))
  | SetItem i v => match m_single_operand v with
                   | Raise e => (st, Raise e)
                   | Ok x => match py_setitem st i x with Ok st' => (st', Ok NoneV) | Raise e => (st, Raise e) end
                   end
  | DelItem i => match py_delitem st i with Ok st' => (st', Ok NoneV) | Raise e => (st, Raise e) end
  | DelSlice a b c => match py_delslice st a b c with Ok st' => (st', Ok NoneV) | Raise e => (st, Raise e) end
  | Append v => match m_single_operand v with
                | Raise e => (st, Raise e)
                | Ok x => (st ++ [x], Ok NoneV)
                end
  | Extend v => match v with
                | Other => (st, Raise ValueError)
                | Same ts => (py_extend st ts, Ok NoneV)               (* iterable.data *)
                end
  | Insert i v => match m_single_operand v with
                  | Raise e => (st, Raise e)
                  | Ok x => (py_insert st i x, Ok NoneV)
                  end
  | Pop i => match py_pop st i with Ok (v, st') => (st', Ok (Obj [v])) | Raise e => (st, Raise e) end
  | Reverse => (py_reverse st, Ok NoneV)
  | Clear => (py_clear st, Ok NoneV)
  | CtorIter => match construct (map obj_A (m_iter st)) with      (* data = [x.A for x in arg] *)
                | Ok (Obj vs) => (vs, Ok NoneV)
                | Ok _ => (st, Ok NoneV)
                | Raise e => (st, Raise e)
                end
  | CtorCopy => (st, Ok NoneV)
  | CtorFrom ts => match construct ts with
                   | Ok (Obj vs) => (vs, Ok NoneV)
                   | Ok _ => (st, Ok NoneV)
                   | Raise e => (st, Raise e)
                   end
  | Alloc n => (py_repeat 0 n, Ok NoneV)
  | Empty => ([], Ok NoneV)
  end.

(* ------------------------------------------------------------------ SPECIFICATION step: a Python list of the values.
   A mutator that needs one value accepts exactly a single-valued object of the same class; anything else raises
   (ValueError, the documented kind) and changes nothing. *)
Definition s_single_operand (v : operand) : res Z :=
  match v with Same [t] => Ok t | _ => Raise ValueError end.

Definition s_step (st : list Z) (o : op) : list Z * res out :=
  match o with
  | GetItem i => (st, match py_getitem st i with Ok v => Ok (Obj [v]) | Raise e => Raise e end)
  | GetSlice a b c => (st, match py_getslice st a b c with Ok vs => Ok (Obj vs) | Raise e => Raise e end)
  | Iter => (st, Ok (Objs (map (fun t => [t]) st)))
  | IterRev => (st, Ok (Objs (map (fun t => [t]) (rev st))))       (* list(reversed(l)) *)
  | Len => (st, Ok (Int (zlen st)))
  | SetItem i v => match s_single_operand v with
                   | Raise e => (st, Raise e)
                   | Ok x => match py_setitem st i x with Ok st' => (st', Ok NoneV) | Raise e => (st, Raise e) end
                   end
  | DelItem i => match py_delitem st i with Ok st' => (st', Ok NoneV) | Raise e => (st, Raise e) end
  | DelSlice a b c => match py_delslice st a b c with Ok st' => (st', Ok NoneV) | Raise e => (st, Raise e) end
  | Append v => match s_single_operand v with Raise e => (st, Raise e) | Ok x => (st ++ [x], Ok NoneV) end
  | Extend v => match v with Other => (st, Raise ValueError) | Same ts => (py_extend st ts, Ok NoneV) end
  | Insert i v => match s_single_operand v with Raise e => (st, Raise e) | Ok x => (py_insert st i x, Ok NoneV) end
  | Pop i => match py_pop st i with Ok (v, st') => (st', Ok (Obj [v])) | Raise e => (st, Raise e) end
  | Reverse => (py_reverse st, Ok NoneV)
  | Clear => (py_clear st, Ok NoneV)
  | CtorIter => (st, Ok NoneV)
  | CtorCopy => (st, Ok NoneV)
  | CtorFrom ts => (ts, Ok NoneV)
  | Alloc n => (py_repeat 0 n, Ok NoneV)
  | Empty => ([], Ok NoneV)
  end.

(* running a sequence: final state and every output *)
Fixpoint run (step : list Z -> op -> list Z * res out) (st : list Z) (ops : list op) : list Z * list (res out) :=
  match ops with
  | [] => (st, [])
  | o :: r => let '(st', x) := step st o in let '(fin, xs) := run step st' r in (fin, x :: xs)
  end.

(* ------------------------------------------------------------------ lemmas *)
Lemma collect_in_range : forall l ks, (forall k, In k ks -> 0 <= k < zlen l) -> collect l ks = Ok (map (znth l) ks).
Proof.
  intros l ks. induction ks as [|k t IH]; intros H; simpl; [reflexivity|].
  unfold py_getitem. rewrite py_index_in_range by (apply H; left; reflexivity).
  rewrite IH by (intros; apply H; right; assumption). reflexivity.
Qed.

(* every position selected by slice.indices lies inside the list *)
Lemma adj_pos : forall len st o dp dn, 0 <= len -> 0 < st -> 0 <= dp <= len -> 0 <= adj len st o dp dn <= len.
Proof.
  intros len st o dp dn Hl Hs Hd. unfold adj. replace (0 <? st) with true by (symmetry; apply Z.ltb_lt; lia).
  destruct o as [i|]; [|lia].
  destruct (i <? 0) eqn:E1; [apply Z.ltb_lt in E1 | apply Z.ltb_ge in E1].
  - cbv zeta. destruct (i + len <? 0) eqn:E2; [apply Z.ltb_lt in E2 | apply Z.ltb_ge in E2]; lia.
  - destruct (len <=? i) eqn:E2; [apply Z.leb_le in E2 | apply Z.leb_gt in E2]; lia.
Qed.

Lemma adj_neg : forall len st o dp dn, 0 <= len -> st < 0 -> -1 <= dn <= len - 1 -> -1 <= adj len st o dp dn <= len - 1.
Proof.
  intros len st o dp dn Hl Hs Hd. unfold adj. replace (0 <? st) with false by (symmetry; apply Z.ltb_ge; lia).
  destruct o as [i|]; [|lia].
  destruct (i <? 0) eqn:E1; [apply Z.ltb_lt in E1 | apply Z.ltb_ge in E1].
  - cbv zeta. destruct (i + len <? 0) eqn:E2; [apply Z.ltb_lt in E2 | apply Z.ltb_ge in E2]; lia.
  - destruct (len <=? i) eqn:E2; [apply Z.leb_le in E2 | apply Z.leb_gt in E2]; lia.
Qed.

Lemma py_range_bwd_bounds : forall a b s x, s < 0 -> In x (py_range a b s) -> b < x <= a.
Proof.
  intros a b s x Hs Hin. unfold py_range in Hin. apply in_map_iff in Hin. destruct Hin as [k [<- Hk]].
  apply in_seq in Hk. unfold range_len in Hk.
  replace (0 <? s) with false in Hk by (symmetry; apply Z.ltb_ge; lia).
  destruct (b <? a) eqn:E; [apply Z.ltb_lt in E | simpl in Hk; lia].
  assert (Hk' : Z.of_nat k <= (a - b - 1) / (- s)).
  { assert (0 <= (a - b - 1) / (- s)) by (apply Z.div_pos; lia). lia. }
  assert ((- s) * ((a - b - 1) / (- s)) <= a - b - 1) by (apply Z.mul_div_le; lia).
  split; nia.
Qed.

Lemma slice_indices_in_range : forall len a b c ks, 0 <= len ->
  py_slice_indices len a b c = Ok ks -> forall k, In k ks -> 0 <= k < len.
Proof.
  intros len a b c ks Hl H k Hk. unfold py_slice_indices in H.
  destruct (step_of c =? 0) eqn:E0; [discriminate|]. apply Z.eqb_neq in E0. inversion H; subst; clear H.
  destruct (Z_lt_ge_dec 0 (step_of c)) as [Hp|Hn].
  - apply py_range_fwd_bounds in Hk; [|assumption].
    pose proof (adj_pos len (step_of c) a 0 (len - 1) Hl Hp ltac:(lia)).
    pose proof (adj_pos len (step_of c) b len (-1) Hl Hp ltac:(lia)). lia.
  - assert (Hs : step_of c < 0) by lia. apply py_range_bwd_bounds in Hk; [|assumption].
    pose proof (adj_neg len (step_of c) a 0 (len - 1) Hl Hs ltac:(lia)).
    pose proof (adj_neg len (step_of c) b len (-1) Hl Hs ltac:(lia)). lia.
Qed.

(* THE slice lemma, full strength: for ALL lists, starts, stops and steps (step 0 included: both raise ValueError) *)
Lemma slice_full : forall C st a b c,
  m_getslice C st a b c = match py_getslice st a b c with Ok vs => Ok (Obj vs) | Raise e => Raise e end.
Proof.
  intros C st a b c. unfold m_getslice. destruct (own_slice C).
  - unfold py_getslice.
    destruct (py_slice_indices (zlen st) a b c) as [ks|e] eqn:E; [|reflexivity].
    rewrite collect_in_range by (intros k Hk; eapply slice_indices_in_range; [apply zlen_nonneg | exact E | exact Hk]).
    destruct (map (znth st) ks); reflexivity.
  - destruct (py_getslice st a b c) as [[|x t]|e]; reflexivity.
Qed.

(* iteration through __getitem__ until IndexError yields exactly the elements, in order, each as a single-valued object *)
Lemma nth_app_mid : forall (pre : list Z) x t, nth (length pre) (pre ++ x :: t) 0 = x.
Proof. intros. rewrite app_nth2 by lia. rewrite Nat.sub_diag. reflexivity. Qed.

Lemma iter_loop_spec : forall suf pre,
  iter_loop (pre ++ suf) (S (length suf)) (zlen pre) = map (fun t => [t]) suf.
Proof.
  induction suf as [|x t IH]; intros pre.
  - simpl. unfold py_getitem, py_index. rewrite app_nil_r.
    replace (zlen pre <=? zlen pre) with true by (symmetry; apply Z.leb_le; lia).
    rewrite orb_true_r. reflexivity.
  - cbn [iter_loop length map]. unfold py_getitem at 1.
    rewrite py_index_in_range by (rewrite zlen_app; unfold zlen; simpl length; lia).
    unfold znth, zlen. rewrite Nat2Z.id. rewrite nth_app_mid. f_equal.
    replace (pre ++ x :: t) with ((pre ++ [x]) ++ t) by (rewrite <- app_assoc; reflexivity).
    replace (Z.of_nat (length pre) + 1) with (zlen (pre ++ [x])) by (unfold zlen; rewrite app_length; simpl; lia).
    apply IH.
Qed.

Lemma map_nth_seq : forall l : list Z, map (fun k => nth k l 0) (seq 0 (length l)) = l.
Proof.
  induction l as [|x t IH]; [reflexivity|]. cbn [length seq map nth]. f_equal.
  rewrite <- seq_shift, map_map. exact IH.
Qed.

Lemma m_reversed_spec : forall st, m_reversed st = Ok (rev st).
Proof.
  intros st. unfold m_reversed. rewrite collect_in_range.
  - f_equal. rewrite map_rev, map_map. f_equal.
    rewrite <- (map_nth_seq st) at 2. apply map_ext. intros k. unfold znth. rewrite Nat2Z.id. reflexivity.
  - intros k Hk. apply in_rev in Hk. apply in_map_iff in Hk. destruct Hk as [n [<- Hn]]. apply in_seq in Hn. unfold zlen. lia.
Qed.

Lemma m_iter_spec : forall st, m_iter st = map (fun t => [t]) st.
Proof. intros st. unfold m_iter. apply (iter_loop_spec st []). Qed.

Lemma map_obj_A_single : forall st, map obj_A (map (fun t => [t]) st) = st.
Proof. induction st; simpl; congruence. Qed.

Lemma single_operand_agree : forall v, m_single_operand v = s_single_operand v.
Proof.
  intros [ts|]; [|reflexivity]. destruct ts as [|t [|u r]]; try reflexivity.
  unfold m_single_operand, s_single_operand, zlen. cbn [length].
  replace (Z.of_nat (S (S (length r))) =? 1) with false by (symmetry; apply Z.eqb_neq; lia). reflexivity.
Qed.

(* per-operation refinement, UNCONDITIONAL: the model step IS the specification step (state, result, error kind) *)
Lemma step_refines : forall C st o, m_step C st o = s_step st o.
Proof.
  intros C st o. destruct o; cbn [m_step s_step]; try reflexivity.
  - (* GetSlice *) rewrite (slice_full C st a b c). reflexivity.
  - rewrite m_iter_spec. reflexivity.
  - rewrite m_reversed_spec. reflexivity.
  - rewrite single_operand_agree. reflexivity.
  - rewrite single_operand_agree. reflexivity.
  - rewrite single_operand_agree. reflexivity.
  - rewrite m_iter_spec, map_obj_A_single. reflexivity.
Qed.

Lemma run_refines : forall C ops st, run (m_step C) st ops = run s_step st ops.
Proof.
  intros C ops. induction ops as [|o r IH]; intros st; [reflexivity|].
  simpl. rewrite (step_refines C st o). destruct (s_step st o) as [st' x]. rewrite (IH st'). reflexivity.
Qed.

(* a failed operation leaves the state unchanged: every operation, every state, no guard *)
Lemma failed_unchanged : forall C st o e, snd (m_step C st o) = Raise e -> fst (m_step C st o) = st.
Proof.
  intros C st o e H. destruct o; cbn [m_step fst snd] in *; try reflexivity; try discriminate.
  - destruct (m_single_operand v); [|reflexivity]. destruct (py_setitem st i a); [discriminate | reflexivity].
  - destruct (py_delitem st i); [discriminate | reflexivity].
  - destruct (py_delslice st a b c); [discriminate | reflexivity].
  - destruct (m_single_operand v); [discriminate | reflexivity].
  - destruct v; [discriminate | reflexivity].
  - destruct (m_single_operand v); [discriminate | reflexivity].
  - destruct (py_pop st i) as [[v st']|]; [discriminate | reflexivity].
Qed.

(* wrong-class and multi-valued operands are rejected *)
Definition bad_operand (v : operand) : Prop := match v with Other => True | Same ts => zlen ts <> 1 end.
Lemma bad_single_operand : forall v, bad_operand v -> m_single_operand v = Raise ValueError.
Proof.
  intros [ts|] H; [|reflexivity]. simpl in *.
  replace (zlen ts =? 1) with false by (symmetry; apply Z.eqb_neq; lia). reflexivity.
Qed.

(* ------------------------------------------------------------------ encoders and the lock-step runner (the tie) *)
Definition exn_code (e : exn) : Z := match e with IndexError => 1 | ValueError => 2 | TypeError => 3 | AssertionError => 4 | StopIteration => 5 end.
Definition enc_out (r : res out) : list Z :=
  match r with
  | Ok NoneV => [0]
  | Ok (Obj ts) => 1 :: zlen ts :: ts
  | Ok (Objs l) => 2 :: zlen l :: flat_map (fun ts => zlen ts :: ts) l
  | Ok (Int z) => [3; z]
  | Raise e => [9; exn_code e]
  end.
Definition enc_step (x : list Z * res out) : list Z := enc_out (snd x) ++ zlen (fst x) :: fst x.

(* root cause of a disagreement between model and specification:
   9 none expected
   (1 slice index arithmetic, 2 construction from an empty list, 3 extend by a single value, 4 empty object accepted as a
   value were all repaired in /repo and are no longer produced) *)
Definition classify (C : cls) (st : list Z) (o : op) : Z :=
  match o with
  | _ => 9
  end.

(* model and specification applied to the SAME state at every step; the run continues from the specification's state *)
Fixpoint lockstep (C : cls) (st : list Z) (ops : list op) : list (list Z) :=
  match ops with
  | [] => []
  | o :: r => enc_step (m_step C st o) :: enc_step (s_step st o) :: [classify C st o] :: lockstep C (fst (s_step st o)) r
  end.

(* the free-running model (no resynchronisation), for the cross-check of run_refines on guarded sequences *)
Definition enc_run (step : list Z -> op -> list Z * res out) (st : list Z) (ops : list op) : list (list Z) :=
  let '(fin, xs) := run step st ops in (zlen fin :: fin) :: map enc_out xs.

(* ------------------------------------------------------------------ the property's finite grid (slices and indices) *)
Fixpoint zlist_eqb (a b : list Z) : bool :=
  match a, b with
  | [], [] => true
  | x :: a', y :: b' => (x =? y) && zlist_eqb a' b'
  | _, _ => false
  end.
Definition agree_b (C : cls) (st : list Z) (o : op) : bool :=
  zlist_eqb (enc_step (m_step C st o)) (enc_step (s_step st o)).

Definition iota (n : Z) : list Z := map Z.of_nat (seq 1 (Z.to_nat n)).                 (* [1; ...; n] *)
Definition zrange (lo hi : Z) : list Z := map (fun k => lo + Z.of_nat k) (seq 0 (Z.to_nat (hi - lo + 1))).
Definition grid_bounds : list (option Z) := None :: map Some (zrange (-7) 7).
Definition grid_steps : list (option Z) := [None; Some 1; Some (-1); Some 2; Some (-2); Some 3; Some (-3)].
Definition grid_slices : list (option Z * option Z * option Z) :=
  flat_map (fun a => flat_map (fun b => map (fun c => (a, b, c)) grid_steps) grid_bounds) grid_bounds.
Definition grid_lens : list Z := zrange 0 5.

(* lock-step triples for the whole slice grid / index grid on the list [1..n], in the fixed order above *)
Definition grid_eval_slices (C : cls) (n : Z) : list (list Z) :=
  flat_map (fun '(a, b, c) => lockstep C (iota n) [GetSlice a b c]) grid_slices.
Definition grid_eval_index (C : cls) (n : Z) : list (list Z) :=
  flat_map (fun i => lockstep C (iota n) [GetItem i]) (zrange (-7) 7).
Definition grid_disagreements (C : cls) : nat :=
  length (filter (fun '(n, (a, b, c)) => negb (agree_b C (iota n) (GetSlice a b c)))
                 (flat_map (fun n => map (fun s => (n, s)) grid_slices) grid_lens)).
