(* C10 -- MODEL of the list layer of spatialmath (smuserlist.py: SMUserList + the inherited collections.UserList /
   collections.abc.Sequence methods), over element tags (Z), mirroring the code AS IT IS, defects included.
   Tied to /repo on every run by props/C10.py (T-seq, three-way: real objects / this model / a Python list).

   source line  (spatialmath/smuserlist.py)                                   model
   289-299  __getitem__(slice): end = len | stop+len+1 | stop;                 sm_end, sm_raw_indices, collect, construct
            cls([data[k] for k in range(start or 0, end, step or 1)])
   301      __getitem__(int):   cls(data[i])                                   py_getitem
   324-328  __setitem__: type test, len(value) > 1 test, data[i] = value.A     m_single_operand, obj_A, py_setitem
   365-369  append, 427-431 insert: same guards, then list.append / insert     py_insert
   394-396  extend: type test, data.extend(iterable._A)                        obj_A_iter (one element -> its matrix rows)
   460      pop: cls(data.pop(i))                                              py_pop
   190-199  arghandler, list of same-class objects: arg[0] (IndexError on []),  construct
            data = [x.A for x in arg]
   207-209  copy constructor: data = copy(arg.data)
   100-102  Empty, 134-136 Alloc
   UserList __delitem__/reverse/clear/__len__ act on .data directly;           py_delitem py_delslice py_reverse py_clear
   Sequence.__iter__: i = 0; while True: yield self[i]; i += 1 until IndexError   iter_loop
   geom3d.py:357 / spatialvector.py:129  __getitem__ = cls(data[i]) for int and slice  (own_slice = false)          *)
From Coq Require Import ZArith List Lia Bool.
From SM Require Import Model.C10_PyList.
Import ListNotations.
Open Scope Z_scope.

(* what is handed to a mutator: an object of the same class holding the values ts (any length), or anything else *)
Inductive operand := Same (ts : list Z) | Other.

Inductive op :=
  | GetItem (i : Z) | GetSlice (a b c : option Z) | Iter | Len
  | SetItem (i : Z) (v : operand) | DelItem (i : Z) | DelSlice (a b c : option Z)
  | Append (v : operand) | Extend (v : operand) | Insert (i : Z) (v : operand)
  | Pop (i : Z) | Reverse | Clear
  | CtorIter                 (* x = cls([e for e in x]) : iteration + constructor from a list of objects *)
  | CtorCopy                 (* x = cls(x) *)
  | CtorFrom (ts : list Z)   (* x = cls([one single-valued object per tag]) *)
  | Alloc (n : Z) | Empty.

(* what an operation returns: None, an object of the class holding ts, a sequence of such objects (iteration), an int *)
Inductive out := NoneV | Obj (ts : list Z) | Objs (l : list (list Z)) | Int (z : Z).

(* per-class parameters: number of rows of the element array (what list.extend iterates over when handed the bare
   array), and whether the class uses SMUserList.__getitem__ (true) or overrides it with cls(data[i]) (false) *)
Record cls := { nrows : Z; own_slice : bool }.

(* things that are not element values but end up in .data on the defective paths *)
Definition g_empty : Z := -1.   (* the empty list [] (x.A of an empty object) *)
Definition g_row : Z := -2.     (* one row of an element's matrix *)
Definition g_nested : Z := -3.  (* a list of arrays (x.A of a multi-valued object) *)

(* x.A / x._A : data[0] if len(data) == 1 else data *)
Definition obj_A (ts : list Z) : Z := match ts with [t] => t | [] => g_empty | _ => g_nested end.
(* what iterating over x._A yields: the rows of the matrix if there is one element, else the elements *)
Definition obj_A_iter (C : cls) (ts : list Z) : list Z :=
  match ts with [_] => py_repeat g_row (nrows C) | _ => ts end.

(* ------------------------------------------------------------------ __getitem__(slice), as written *)
Definition or_dflt (o : option Z) (d : Z) : Z := match o with None => d | Some x => if x =? 0 then d else x end.   (* `x or d` *)
Definition sm_end (len : Z) (stop : option Z) : Z :=
  match stop with None => len | Some s => if s <? 0 then s + len + 1 else s end.
Definition sm_raw_indices (len : Z) (a b c : option Z) : list Z := py_range (or_dflt a 0) (sm_end len b) (or_dflt c 1).
(* [data[k] for k in ks] : each k through ordinary list indexing *)
Fixpoint collect (l : list Z) (ks : list Z) : res (list Z) :=
  match ks with
  | [] => Ok []
  | k :: t => match py_getitem l k with
              | Raise e => Raise e
              | Ok v => match collect l t with Ok vs => Ok (v :: vs) | Raise e => Raise e end
              end
  end.
(* cls(list of arrays): arghandler evaluates arg[0] *)
Definition construct (vs : list Z) : res out := match vs with [] => Raise IndexError | _ => Ok (Obj vs) end.

Definition m_getslice (C : cls) (st : list Z) (a b c : option Z) : res out :=
  if own_slice C then
    match collect st (sm_raw_indices (zlen st) a b c) with Ok vs => construct vs | Raise e => Raise e end
  else
    match py_getslice st a b c with Ok vs => construct vs | Raise e => Raise e end.

(* ------------------------------------------------------------------ Sequence.__iter__ *)
Fixpoint iter_loop (st : list Z) (fuel : nat) (i : Z) : list (list Z) :=
  match fuel with
  | O => []
  | S f => match py_getitem st i with Ok v => [v] :: iter_loop st f (i + 1) | Raise _ => [] end
  end.
Definition m_iter (st : list Z) : list (list Z) := iter_loop st (S (length st)) 0.

(* ------------------------------------------------------------------ the guards of __setitem__/append/insert *)
Definition m_single_operand (v : operand) : res Z :=
  match v with
  | Other => Raise ValueError                                       (* not type(self) == type(value) *)
  | Same ts => if 1 <? zlen ts then Raise ValueError else Ok (obj_A ts)   (* len(value) > 1 *)
  end.

Definition m_step (C : cls) (st : list Z) (o : op) : list Z * res out :=
  match o with
  | GetItem i => (st, match py_getitem st i with Ok v => Ok (Obj [v]) | Raise e => Raise e end)
  | GetSlice a b c => (st, m_getslice C st a b c)
  | Iter => (st, Ok (Objs (m_iter st)))
  | Len => (st, Ok (Int (zlen st)))
  | SetItem i v => match m_single_operand v with
                   | Raise e => (st, Raise e)
                   | Ok x => match py_setitem st i x with Ok st' => (st', Ok NoneV) | Raise e => (st, Raise e) end
                   end
  | DelItem i => match py_delitem st i with Ok st' => (st', Ok NoneV) | Raise e => (st, Raise e) end
  | DelSlice a b c => match py_delslice st a b c with Ok st' => (st', Ok NoneV) | Raise e => (st, Raise e) end
  | Append v => match m_single_operand v with
                | Raise e => (st, Raise e)
                | Ok x => (st ++ [x], Ok NoneV)
                end
  | Extend v => match v with
                | Other => (st, Raise ValueError)
                | Same ts => (py_extend st (obj_A_iter C ts), Ok NoneV)
                end
  | Insert i v => match m_single_operand v with
                  | Raise e => (st, Raise e)
                  | Ok x => (py_insert st i x, Ok NoneV)
                  end
  | Pop i => match py_pop st i with Ok (v, st') => (st', Ok (Obj [v])) | Raise e => (st, Raise e) end
  | Reverse => (py_reverse st, Ok NoneV)
  | Clear => (py_clear st, Ok NoneV)
  | CtorIter => match m_iter st with
                | [] => (st, Raise IndexError)
                | objs => (map obj_A objs, Ok NoneV)
                end
  | CtorCopy => (st, Ok NoneV)
  | CtorFrom ts => match ts with [] => (st, Raise IndexError) | _ => (ts, Ok NoneV) end
  | Alloc n => (py_repeat 0 n, Ok NoneV)
  | Empty => ([], Ok NoneV)
  end.

(* ------------------------------------------------------------------ SPECIFICATION step: a Python list of the values.
   A mutator that needs one value accepts exactly a single-valued object of the same class; anything else raises
   (ValueError, the documented kind) and changes nothing. *)
Definition s_single_operand (v : operand) : res Z :=
  match v with Same [t] => Ok t | _ => Raise ValueError end.

Definition s_step (st : list Z) (o : op) : list Z * res out :=
  match o with
  | GetItem i => (st, match py_getitem st i with Ok v => Ok (Obj [v]) | Raise e => Raise e end)
  | GetSlice a b c => (st, match py_getslice st a b c with Ok vs => Ok (Obj vs) | Raise e => Raise e end)
  | Iter => (st, Ok (Objs (map (fun t => [t]) st)))
  | Len => (st, Ok (Int (zlen st)))
  | SetItem i v => match s_single_operand v with
                   | Raise e => (st, Raise e)
                   | Ok x => match py_setitem st i x with Ok st' => (st', Ok NoneV) | Raise e => (st, Raise e) end
                   end
  | DelItem i => match py_delitem st i with Ok st' => (st', Ok NoneV) | Raise e => (st, Raise e) end
  | DelSlice a b c => match py_delslice st a b c with Ok st' => (st', Ok NoneV) | Raise e => (st, Raise e) end
  | Append v => match s_single_operand v with Raise e => (st, Raise e) | Ok x => (st ++ [x], Ok NoneV) end
  | Extend v => match v with Other => (st, Raise ValueError) | Same ts => (py_extend st ts, Ok NoneV) end
  | Insert i v => match s_single_operand v with Raise e => (st, Raise e) | Ok x => (py_insert st i x, Ok NoneV) end
  | Pop i => match py_pop st i with Ok (v, st') => (st', Ok (Obj [v])) | Raise e => (st, Raise e) end
  | Reverse => (py_reverse st, Ok NoneV)
  | Clear => (py_clear st, Ok NoneV)
  | CtorIter => (st, Ok NoneV)
  | CtorCopy => (st, Ok NoneV)
  | CtorFrom ts => (ts, Ok NoneV)
  | Alloc n => (py_repeat 0 n, Ok NoneV)
  | Empty => ([], Ok NoneV)
  end.

(* running a sequence: final state and every output *)
Fixpoint run (step : list Z -> op -> list Z * res out) (st : list Z) (ops : list op) : list Z * list (res out) :=
  match ops with
  | [] => (st, [])
  | o :: r => let '(st', x) := step st o in let '(fin, xs) := run step st' r in (fin, x :: xs)
  end.

(* ------------------------------------------------------------------ where the code is right: the guards *)
Definition start_of (a : option Z) : Z := match a with None => 0 | Some s => s end.
Definition stop_of (len : Z) (b : option Z) : Z := match b with None => len | Some s => s end.
(* step >= 1, 0 <= start < stop <= len (omitted bounds allowed) *)
Definition slice_guard (len : Z) (a b c : option Z) : bool :=
  (1 <=? step_of c) && (0 <=? start_of a) && (start_of a <? stop_of len b) && (stop_of len b <=? len)
  && (0 <=? stop_of len b).

Definition operand_nonempty (v : operand) : bool := match v with Same [] => false | _ => true end.
Definition operand_not_single (v : operand) : bool := match v with Same [_] => false | _ => true end.

Definition op_ok (C : cls) (st : list Z) (o : op) : bool :=
  match o with
  | GetSlice a b c => if own_slice C then slice_guard (zlen st) a b c
                      else match py_getslice st a b c with Ok [] => false | _ => true end
  | SetItem _ v | Append v | Insert _ v => operand_nonempty v
  | Extend v => operand_not_single v
  | CtorIter => match st with [] => false | _ => true end
  | CtorFrom ts => match ts with [] => false | _ => true end
  | _ => true
  end.

Fixpoint run_ok (C : cls) (st : list Z) (ops : list op) : bool :=
  match ops with
  | [] => true
  | o :: r => op_ok C st o && run_ok C (fst (s_step st o)) r
  end.

(* ------------------------------------------------------------------ lemmas *)
Lemma collect_in_range : forall l ks, (forall k, In k ks -> 0 <= k < zlen l) -> collect l ks = Ok (map (znth l) ks).
Proof.
  intros l ks. induction ks as [|k t IH]; intros H; simpl; [reflexivity|].
  unfold py_getitem. rewrite py_index_in_range by (apply H; left; reflexivity).
  rewrite IH by (intros; apply H; right; assumption). reflexivity.
Qed.

Lemma or_dflt_start : forall a, 0 <= start_of a -> or_dflt a 0 = start_of a.
Proof. intros [s|] H; simpl in *; [|reflexivity]. destruct (s =? 0) eqn:E; [apply Z.eqb_eq in E; lia | reflexivity]. Qed.
Lemma or_dflt_step : forall c, 1 <= step_of c -> or_dflt c 1 = step_of c.
Proof. intros [s|] H; simpl in *; [|reflexivity]. destruct (s =? 0) eqn:E; [apply Z.eqb_eq in E; lia | reflexivity]. Qed.

(* the slice lemma under the guard, for ALL lists, bounds and steps *)
Lemma slice_partial : forall C st a b c, own_slice C = true -> slice_guard (zlen st) a b c = true ->
  m_getslice C st a b c = Ok (Obj (map (znth st) (py_range (start_of a) (stop_of (zlen st) b) (step_of c))))
  /\ py_getslice st a b c = Ok (map (znth st) (py_range (start_of a) (stop_of (zlen st) b) (step_of c))).
Proof.
  intros C st a b c HC G. unfold slice_guard in G.
  repeat (apply andb_true_iff in G; destruct G as [G ?]).
  apply Z.leb_le in G. apply Z.leb_le in H2. apply Z.ltb_lt in H1. apply Z.leb_le in H0. apply Z.leb_le in H.
  set (len := zlen st) in *. set (s0 := start_of a) in *. set (e := stop_of len b) in *. set (sp := step_of c) in *.
  assert (Hne : py_range s0 e sp <> []) by (apply py_range_fwd_nonempty; lia).
  split.
  - unfold m_getslice. rewrite HC. unfold sm_raw_indices. fold len.
    rewrite or_dflt_start by (fold s0; lia). rewrite or_dflt_step by (fold sp; lia). fold s0 sp.
    assert (He : sm_end len b = e).
    { unfold sm_end, e, stop_of. destruct b as [s|]; [|reflexivity]. unfold e, stop_of in H.
      replace (s <? 0) with false by (symmetry; apply Z.ltb_ge; lia). reflexivity. }
    rewrite He. rewrite collect_in_range.
    + unfold construct. destruct (py_range s0 e sp) eqn:E; [contradiction|]. reflexivity.
    + intros k Hk. apply py_range_fwd_bounds in Hk; [|lia]. fold len. lia.
  - unfold py_getslice, py_slice_indices. fold len sp.
    replace (sp =? 0) with false by (symmetry; apply Z.eqb_neq; lia).
    assert (Ha : adj len sp a 0 (len - 1) = s0).
    { unfold adj, s0, start_of. destruct a as [s|].
      - unfold s0, start_of in *. replace (s <? 0) with false by (symmetry; apply Z.ltb_ge; lia).
        replace (len <=? s) with false by (symmetry; apply Z.leb_gt; lia). reflexivity.
      - replace (0 <? sp) with true by (symmetry; apply Z.ltb_lt; lia). reflexivity. }
    assert (Hb : adj len sp b len (-1) = e).
    { unfold adj, e, stop_of. destruct b as [s|].
      - unfold e, stop_of in *. replace (s <? 0) with false by (symmetry; apply Z.ltb_ge; lia).
        destruct (len <=? s) eqn:E; [apply Z.leb_le in E | reflexivity].
        replace (0 <? sp) with true by (symmetry; apply Z.ltb_lt; lia). lia.
      - replace (0 <? sp) with true by (symmetry; apply Z.ltb_lt; lia). reflexivity. }
    rewrite Ha, Hb. reflexivity.
Qed.

(* iteration through __getitem__ until IndexError yields exactly the elements, in order, each as a single-valued object *)
Lemma nth_app_mid : forall (pre : list Z) x t, nth (length pre) (pre ++ x :: t) 0 = x.
Proof. intros. rewrite app_nth2 by lia. rewrite Nat.sub_diag. reflexivity. Qed.

Lemma iter_loop_spec : forall suf pre,
  iter_loop (pre ++ suf) (S (length suf)) (zlen pre) = map (fun t => [t]) suf.
Proof.
  induction suf as [|x t IH]; intros pre.
  - simpl. unfold py_getitem, py_index. rewrite app_nil_r.
    replace (zlen pre <=? zlen pre) with true by (symmetry; apply Z.leb_le; lia).
    rewrite orb_true_r. reflexivity.
  - cbn [iter_loop length map]. unfold py_getitem at 1.
    rewrite py_index_in_range by (rewrite zlen_app; unfold zlen; simpl length; lia).
    unfold znth, zlen. rewrite Nat2Z.id. rewrite nth_app_mid. f_equal.
    replace (pre ++ x :: t) with ((pre ++ [x]) ++ t) by (rewrite <- app_assoc; reflexivity).
    replace (Z.of_nat (length pre) + 1) with (zlen (pre ++ [x])) by (unfold zlen; rewrite app_length; simpl; lia).
    apply IH.
Qed.

Lemma m_iter_spec : forall st, m_iter st = map (fun t => [t]) st.
Proof. intros st. unfold m_iter. apply (iter_loop_spec st []). Qed.

Lemma map_obj_A_single : forall st, map obj_A (map (fun t => [t]) st) = st.
Proof. induction st; simpl; congruence. Qed.

Lemma single_operand_agree : forall v, operand_nonempty v = true -> m_single_operand v = s_single_operand v.
Proof.
  intros [ts|] H; [|reflexivity]. destruct ts as [|t [|u r]]; simpl in *; try discriminate; try reflexivity.
  unfold zlen. simpl length.
  replace (1 <? Z.of_nat (S (S (length r)))) with true by (symmetry; apply Z.ltb_lt; lia). reflexivity.
Qed.

(* per-operation refinement: wherever op_ok holds the model step IS the specification step (state, result, error kind) *)
Lemma step_refines : forall C st o, op_ok C st o = true -> m_step C st o = s_step st o.
Proof.
  intros C st o H. destruct o; cbn [m_step s_step op_ok] in *; try reflexivity.
  - (* GetSlice *) destruct (own_slice C) eqn:HC.
    + destruct (slice_partial C st a b c HC H) as [-> ->]. reflexivity.
    + unfold m_getslice. rewrite HC. destruct (py_getslice st a b c) as [[|x t]|e]; [discriminate| |]; reflexivity.
  - rewrite m_iter_spec. reflexivity.
  - rewrite single_operand_agree by assumption. reflexivity.
  - rewrite single_operand_agree by assumption. reflexivity.
  - destruct v as [ts|]; [|reflexivity]. destruct ts as [|t [|u r]]; simpl in *; try discriminate; reflexivity.
  - rewrite single_operand_agree by assumption. reflexivity.
  - rewrite m_iter_spec. destruct st as [|x t]; [discriminate|]. cbn [map]. rewrite map_obj_A_single. reflexivity.
  - destruct ts; [discriminate | reflexivity].
Qed.

Lemma run_refines : forall C ops st, run_ok C st ops = true -> run (m_step C) st ops = run s_step st ops.
Proof.
  intros C ops. induction ops as [|o r IH]; intros st H; [reflexivity|].
  simpl in H. apply andb_true_iff in H. destruct H as [H1 H2].
  simpl. rewrite (step_refines C st o H1). destruct (s_step st o) as [st' x] eqn:E. simpl in H2.
  rewrite (IH st' H2). reflexivity.
Qed.

(* a failed operation leaves the state unchanged: every operation, every state, no guard *)
Lemma failed_unchanged : forall C st o e, snd (m_step C st o) = Raise e -> fst (m_step C st o) = st.
Proof.
  intros C st o e H. destruct o; cbn [m_step fst snd] in *; try reflexivity; try discriminate.
  - destruct (m_single_operand v); [|reflexivity]. destruct (py_setitem st i a); [discriminate | reflexivity].
  - destruct (py_delitem st i); [discriminate | reflexivity].
  - destruct (py_delslice st a b c); [discriminate | reflexivity].
  - destruct (m_single_operand v); [discriminate | reflexivity].
  - destruct v; [discriminate | reflexivity].
  - destruct (m_single_operand v); [discriminate | reflexivity].
  - destruct (py_pop st i) as [[v st']|]; [discriminate | reflexivity].
  - destruct (m_iter st); [reflexivity | discriminate].
  - destruct ts; [reflexivity | discriminate].
Qed.

(* wrong-class and multi-valued operands are rejected *)
Definition bad_operand (v : operand) : Prop := match v with Other => True | Same ts => 2 <= zlen ts end.
Lemma bad_single_operand : forall v, bad_operand v -> m_single_operand v = Raise ValueError.
Proof.
  intros [ts|] H; [|reflexivity]. simpl in *.
  replace (1 <? zlen ts) with true by (symmetry; apply Z.ltb_lt; lia). reflexivity.
Qed.

(* ------------------------------------------------------------------ encoders and the lock-step runner (the tie) *)
Definition exn_code (e : exn) : Z := match e with IndexError => 1 | ValueError => 2 | TypeError => 3 | AssertionError => 4 end.
Definition enc_out (r : res out) : list Z :=
  match r with
  | Ok NoneV => [0]
  | Ok (Obj ts) => 1 :: zlen ts :: ts
  | Ok (Objs l) => 2 :: zlen l :: flat_map (fun ts => zlen ts :: ts) l
  | Ok (Int z) => [3; z]
  | Raise e => [9; exn_code e]
  end.
Definition enc_step (x : list Z * res out) : list Z := enc_out (snd x) ++ zlen (fst x) :: fst x.

(* root cause of a disagreement between model and specification, decided from the model's own intermediate values:
   1 slice index arithmetic, 2 construction from an empty list, 3 extend by a single-valued object,
   4 empty object accepted as a value, 9 none expected *)
Definition classify (C : cls) (st : list Z) (o : op) : Z :=
  match o with
  | GetSlice a b c =>
      if own_slice C then
        match sm_raw_indices (zlen st) a b c, py_slice_indices (zlen st) a b c with
        | [], Ok [] => 2
        | _, _ => 1
        end
      else 2
  | CtorIter | CtorFrom _ => 2
  | Extend _ => 3
  | SetItem _ _ | Append _ | Insert _ _ => 4
  | _ => 9
  end.

(* model and specification applied to the SAME state at every step; the run continues from the specification's state *)
Fixpoint lockstep (C : cls) (st : list Z) (ops : list op) : list (list Z) :=
  match ops with
  | [] => []
  | o :: r => enc_step (m_step C st o) :: enc_step (s_step st o) :: [classify C st o] :: lockstep C (fst (s_step st o)) r
  end.

(* the free-running model (no resynchronisation), for the cross-check of run_refines on guarded sequences *)
Definition enc_run (step : list Z -> op -> list Z * res out) (st : list Z) (ops : list op) : list (list Z) :=
  let '(fin, xs) := run step st ops in (zlen fin :: fin) :: map enc_out xs.

(* ------------------------------------------------------------------ the property's finite grid (slices and indices) *)
Fixpoint zlist_eqb (a b : list Z) : bool :=
  match a, b with
  | [], [] => true
  | x :: a', y :: b' => (x =? y) && zlist_eqb a' b'
  | _, _ => false
  end.
Definition agree_b (C : cls) (st : list Z) (o : op) : bool :=
  zlist_eqb (enc_step (m_step C st o)) (enc_step (s_step st o)).

Definition iota (n : Z) : list Z := map Z.of_nat (seq 1 (Z.to_nat n)).                 (* [1; ...; n] *)
Definition zrange (lo hi : Z) : list Z := map (fun k => lo + Z.of_nat k) (seq 0 (Z.to_nat (hi - lo + 1))).
Definition grid_bounds : list (option Z) := None :: map Some (zrange (-7) 7).
Definition grid_steps : list (option Z) := [None; Some 1; Some (-1); Some 2; Some (-2); Some 3; Some (-3)].
Definition grid_slices : list (option Z * option Z * option Z) :=
  flat_map (fun a => flat_map (fun b => map (fun c => (a, b, c)) grid_steps) grid_bounds) grid_bounds.
Definition grid_lens : list Z := zrange 0 5.

(* lock-step triples for the whole slice grid / index grid on the list [1..n], in the fixed order above *)
Definition grid_eval_slices (C : cls) (n : Z) : list (list Z) :=
  flat_map (fun '(a, b, c) => lockstep C (iota n) [GetSlice a b c]) grid_slices.
Definition grid_eval_index (C : cls) (n : Z) : list (list Z) :=
  flat_map (fun i => lockstep C (iota n) [GetItem i]) (zrange (-7) 7).
Definition grid_disagreements (C : cls) : nat :=
  length (filter (fun '(n, (a, b, c)) => negb (agree_b C (iota n) (GetSlice a b c)))
                 (flat_map (fun n => map (fun s => (n, s)) grid_slices) grid_lens)).
