(* C20 -- hand-written models for spatialmath/spatialvector.py.

   (1) scalar-generic 6-vector / 6x6 helpers and the REFERENCE matrices the property talks about
       (motion cross-product matrix, force cross-product matrix, adjoint, parallel-axis inertia);
   (2) [spatial_inertia]: a line-by-line model of the `SpatialInertia(m, r, I)` constructor, which cannot be
       traced symbolically (its getmatrix() forces float64).  Tied to /repo on every run by the numeric
       correspondence (extracted to OCaml floats, compared with SpatialInertia(m, r, I).A);
   (3) the dispatch model of the class layer (which operand classes / lengths are accepted, result class,
       exception kind), compared cell by cell with the implementation on every run.

   CONVENTION FOUND IN THE CODE (spatialvector.py, twist.py, base.adjoint): a spatial vector is stored
   LINEAR PART FIRST, (v ; w) for motion and (f ; n) for force -- the same layout as Twist3 -- so that
     crm(v;w) = [[skew w, skew v],[0, skew w]],      Ad(R,t) = [[R, skew(t) R],[0, R]],
     inertia  = [[m 1, m skew(c)^T],[m skew(c), I + m skew(c) skew(c)^T]]      (c: centre of mass, I about it). *)
From Coq Require Import ZArith List Bool Arith.
From SM Require Import Base.Ops Base.Lin.
Import ListNotations.

Section C20.
Context {T : Type} (O : ops T).
Local Notation "0" := (zero O). Local Notation "1" := (one O).
Local Infix "+" := (add O). Local Infix "-" := (sub O). Local Infix "*" := (mul O).
Local Notation "- x" := (neg O x).

Definition vadd6 (a b : V6 T) : V6 T :=
  let '(a0,a1,a2,a3,a4,a5) := a in let '(b0,b1,b2,b3,b4,b5) := b in (a0+b0, a1+b1, a2+b2, a3+b3, a4+b4, a5+b5).
Definition vsub6 (a b : V6 T) : V6 T :=
  let '(a0,a1,a2,a3,a4,a5) := a in let '(b0,b1,b2,b3,b4,b5) := b in (a0-b0, a1-b1, a2-b2, a3-b3, a4-b4, a5-b5).
Definition vneg6 (a : V6 T) : V6 T := let '(a0,a1,a2,a3,a4,a5) := a in (-a0, -a1, -a2, -a3, -a4, -a5).
Definition vscale6 (k : T) (a : V6 T) : V6 T := let '(a0,a1,a2,a3,a4,a5) := a in (k*a0, k*a1, k*a2, k*a3, k*a4, k*a5).
Definition lin6 (a : V6 T) : V3 T := let '(a0,a1,a2,_,_,_) := a in (a0,a1,a2).   (* first three: linear part *)
Definition ang6 (a : V6 T) : V3 T := let '(_,_,_,a3,a4,a5) := a in (a3,a4,a5).   (* last three: angular part *)
Definition madd66 (A B : M66 T) : M66 T :=
  let '(a0,a1,a2,a3,a4,a5) := A in let '(b0,b1,b2,b3,b4,b5) := B in
  (vadd6 a0 b0, vadd6 a1 b1, vadd6 a2 b2, vadd6 a3 b3, vadd6 a4 b4, vadd6 a5 b5).
Definition mneg66 (A : M66 T) : M66 T :=
  let '(a0,a1,a2,a3,a4,a5) := A in (vneg6 a0, vneg6 a1, vneg6 a2, vneg6 a3, vneg6 a4, vneg6 a5).
Definition mneg33 (A : M33 T) : M33 T := let '(a0,a1,a2) := A in (vneg3 O a0, vneg3 O a1, vneg3 O a2).

(* the matrices of the property statement *)
Definition crm_ref (v : V6 T) : M66 T :=                      (* [skew(w) skew(v); 0 skew(w)] *)
  block66 (skew3 O (ang6 v)) (skew3 O (lin6 v)) (Z33 O) (skew3 O (ang6 v)).
Definition crf_ref (v : V6 T) : M66 T := mneg66 (mtr66 (crm_ref v)).     (* its negative transpose *)
Definition Ad_ref (X : M44 T) : M66 T :=                      (* [R, skew(t) R; 0, R] *)
  let R := t2r3 X in block66 R (mmul33 O (skew3 O (transl3 X)) R) (Z33 O) R.
Definition parallel_axis_ref (m : T) (c : V3 T) (I : M33 T) : M66 T :=
  block66 (mscale33 O m (I33 O)) (mneg33 (mscale33 O m (skew3 O c))) (mscale33 O m (skew3 O c))
          (madd33 O I (mscale33 O m (msub33 O (mscale33 O (normsq3 O c) (I33 O)) (outer3 O c c)))).

(* model of the constructor, spatialvector.py:511-521:
       C = base.skew(r)
       I = np.block([[m * np.eye(3), m * C.T], [m * C, I + m * C @ C.T]])        (m * C @ C.T is (m*C) @ C.T) *)
Definition spatial_inertia (m : T) (r : V3 T) (I : M33 T) : M66 T :=
  let C := skew3 O r in
  block66 (mscale33 O m (I33 O)) (mscale33 O m (mtr33 C))
          (mscale33 O m C)       (madd33 O I (mmul33 O (mscale33 O m C) (mtr33 C))).

(* model of SpatialInertia.__add__ (both operands inertias), spatialvector.py:587:
       return SpatialInertia(left.A + right.A)
   the 6x6 constructor path forces float64, so this does not trace either; tied by the numeric correspondence *)
Definition inertia_add (A B : M66 T) : M66 T := madd66 A B.
End C20.

#[export] Hint Unfold vadd6 vsub6 vneg6 vscale6 lin6 ang6 madd66 mneg66 mneg33 crm_ref crf_ref Ad_ref
  parallel_axis_ref spatial_inertia inertia_add : smlin.

(* ------------------------------------------------------------------------------------------------
   Dispatch model of the class layer (no arithmetic).  Mirrors the code AS IT IS (HEAD 5371e50):
     SpatialVector.__add__/__sub__ : `type(left) != type(right)` -> TypeError, then `len` differ -> ValueError,
                                     then left.__class__([...]) (an empty list gives an empty object since 1105ad0)
     SpatialVector.__neg__         : same constructor
     SpatialVector(obj)            : copy, `list(value.data)` (df7016a)
     SpatialM6.cross               : only SpatialM6 has the method (AttributeError on force classes);
                                     isinstance(other, SpatialM6) -> SpatialAcceleration([vcross @ x for x in other.data])   (66a8f3b),
                                     isinstance(other, SpatialF6) -> SpatialForce([...]), else TypeError      (0da5cb1: element-wise)
     SpatialInertia.__mul__        : SpatialAcceleration -> SpatialForce, SpatialVelocity -> SpatialMomentum, else TypeError;
                                     element-wise on the right operand
     SpatialVector.__rmul__ (SE3)  : right.__class__([X @ x for x in right.data])
     SpatialInertia.__add__        : not a SpatialInertia -> TypeError; otherwise SpatialInertia(left.A + right.A)
   n is the number of values of the (right) operand. *)
Inductive svc := Vel | Acc | Frc | Mom.
Inductive rcls := SV (c : svc) | NotSV.         (* right operand: a spatial-vector class, or anything else *)
Inductive exn := TypeError | ValueError | AttributeError | IndexError.
Inductive outcome := Value (c : svc) (n : nat) | Raise (e : exn).

Definition svc_eqb (a b : svc) : bool :=
  match a, b with Vel, Vel | Acc, Acc | Frc, Frc | Mom, Mom => true | _, _ => false end.
Lemma svc_eqb_spec a b : svc_eqb a b = true <-> a = b.
Proof. destruct a, b; simpl; split; intros H; try reflexivity; discriminate. Qed.
Definition is_motion (c : svc) : bool := match c with Vel | Acc => true | _ => false end.

Definition construct (c : svc) (n : nat) : outcome := Value c n.

Definition addsub_model (l : svc) (nl : nat) (r : rcls) (nr : nat) : outcome :=
  match r with
  | NotSV => Raise TypeError
  | SV c => if svc_eqb l c then (if Nat.eqb nl nr then construct l nl else Raise ValueError) else Raise TypeError
  end.
Definition neg_model (l : svc) (n : nat) : outcome := construct l n.
(* x += y / x -= y: SMUserList.__iadd__ is `return self + other` (/repo 5371e50); there is no __isub__, so Python evaluates x - y *)
Definition inplace_model (l : svc) (nl : nat) (r : rcls) (nr : nat) : outcome := addsub_model l nl r nr.
Definition copy_model (l : svc) (n : nat) : outcome := construct l n.

(* left operand single-valued, right operand with n values *)
Definition cross_model (l : svc) (r : rcls) (n : nat) : outcome :=
  match l with
  | Frc | Mom => Raise AttributeError
  | Vel | Acc => match r with
                 | SV Vel | SV Acc => construct Acc n
                 | SV Frc | SV Mom => construct Frc n
                 | NotSV => Raise TypeError
                 end
  end.
Definition imul_model (r : rcls) (n : nat) : outcome :=
  match r with SV Acc => construct Frc n | SV Vel => construct Mom n | _ => Raise TypeError end.
Definition se3mul_model (c : svc) (n : nat) : outcome := construct c n.

Inductive ioutcome := ISum | IRaise (e : exn).
Definition iadd_model (right_is_inertia : bool) : ioutcome :=
  if right_is_inertia then ISum else IRaise TypeError.

(* What the property asks for ("expected table"): None = rejected, Some (class, length) = accepted. *)
Definition addsub_expected (l : svc) (nl : nat) (r : rcls) (nr : nat) : option (svc * nat) :=
  match r with SV c => if svc_eqb l c && Nat.eqb nl nr then Some (l, nl) else None | NotSV => None end.
Definition cross_expected (l : svc) (r : rcls) (n : nat) : option (svc * nat) :=
  (* motion x motion is a motion vector, motion x* force a force vector, one per value of the right operand;
     everything else is rejected.  The class of motion x motion is the one the library documents (SpatialAcceleration). *)
  if is_motion l then match r with SV Vel | SV Acc => Some (Acc, n) | SV Frc | SV Mom => Some (Frc, n) | NotSV => None end
  else None.
Definition imul_expected (r : rcls) (n : nat) : option (svc * nat) :=
  match r with SV Acc => Some (Frc, n) | SV Vel => Some (Mom, n) | _ => None end.
Definition iadd_expected (right_is_inertia : bool) : ioutcome := if right_is_inertia then ISum else IRaise TypeError.

Definition agrees (o : outcome) (e : option (svc * nat)) : bool :=
  match o, e with
  | Value c n, Some (c', n') => svc_eqb c c' && Nat.eqb n n'
  | Raise _, None => true
  | _, _ => false
  end.

Definition all_svc : list svc := [Vel; Acc; Frc; Mom].
Definition all_rcls : list rcls := [SV Vel; SV Acc; SV Frc; SV Mom; NotSV].
Definition lens : list nat := [0; 1; 2; 3; 6]%nat.
Definition addsub_cells : list (svc * nat * rcls * nat) :=
  flat_map (fun l => flat_map (fun nl => flat_map (fun r => map (fun nr => (l, nl, r, nr)) lens) all_rcls) lens) all_svc.
Definition cross_cells : list (svc * rcls * nat) :=
  flat_map (fun l => flat_map (fun r => map (fun n => (l, r, n)) lens) all_rcls) all_svc.

(* ------------------------------------------------------------------------------------------------
   History model: a spatial-vector object is its CURRENT list of values and nothing else (no cache, no hidden field).
   The list interface (SMUserList / UserList: x[k] = v, append, extend, insert, pop, del, reverse, clear) changes the list;
   every product is a function of the current list only.  Indices are the in-range non-negative ones (negative /
   out-of-range index arithmetic is the subject of the list property, not of this one): anything else is None = not modelled.
   [step]/[run] are polymorphic in the element type so that the same text is evaluated on integer tags (vm_compute) and
   compared with the implementation's value list after each history, on every run. *)
Section Hist.
Context {A : Type}.
Inductive mut :=
  | MSet (k : nat) (v : A) | MAppend (v : A) | MExtend (l : list A) | MInsert (k : nat) (v : A)
  | MPop (k : nat) | MDel (k : nat) | MReverse | MClear.

Definition step (s : list A) (m : mut) : option (list A) :=
  match m with
  | MSet k v => if Nat.ltb k (length s) then Some (firstn k s ++ v :: skipn (S k) s) else None
  | MAppend v => Some (s ++ [v])
  | MExtend l => Some (s ++ l)
  | MInsert k v => if Nat.leb k (length s) then Some (firstn k s ++ v :: skipn k s) else None
  | MPop k | MDel k => if Nat.ltb k (length s) then Some (firstn k s ++ skipn (S k) s) else None
  | MReverse => Some (rev s)
  | MClear => Some []
  end.
Fixpoint run (s : list A) (h : list mut) : option (list A) :=
  match h with [] => Some s | m :: h' => match step s m with Some s' => run s' h' | None => None end end.
End Hist.
Arguments mut A : clear implicits.

Section HistObs.
Context {T : Type} (O : ops T).
(* products of an object whose current value list is s *)
Definition obs_cross_left (s : list (V6 T)) (m : V6 T) : option (V6 T) :=       (* s.cross(m): the left operand must hold one value *)
  match s with [v] => Some (mv66 O (crm_ref O v) m) | _ => None end.
Definition obs_crf_left (s : list (V6 T)) (f : V6 T) : option (V6 T) :=
  match s with [v] => Some (mv66 O (crf_ref O v) f) | _ => None end.
Definition obs_apply (M : M66 T) (s : list (V6 T)) : list (V6 T) := map (mv66 O M) s.      (* SE3 * s, v.cross(s), inertia * s *)
Definition obs_neg (s : list (V6 T)) : list (V6 T) := map (vneg6 O) s.
Fixpoint zip_with (f : V6 T -> V6 T -> V6 T) (s t : list (V6 T)) : list (V6 T) :=
  match s, t with a :: s', b :: t' => f a b :: zip_with f s' t' | _, _ => [] end.
Definition obs_addsub (f : V6 T -> V6 T -> V6 T) (s t : list (V6 T)) : option (list (V6 T)) :=
  if Nat.eqb (length s) (length t) then Some (zip_with f s t) else None.
End HistObs.
