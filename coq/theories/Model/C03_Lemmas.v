(* C03 -- lemma library over R about the hand model of theories/Model/C03_ExpLog.v (fixed; compiled at setup).
   The property theorems of theories/Props/C03.v instantiate these with the thresholds regenerated from the source. *)
From Coq Require Import Reals ZArith Lra Nsatz Psatz.
From SM Require Import Base.Ops Base.Lin Base.RInst Base.RLin Model.C03_ExpLog.
Open Scope R_scope.

Ltac c03_simpl := autounfold with c03 smlin in *; sm_simpl.

Lemma rodrigues_cs_SO3 (u : V3 R) c s :
  normsq3 Rops u = 1 -> c*c + s*s = 1 -> SO3 (rodrigues_cs Rops u c s).
Proof.
  intros Hu Hcs. destruct_tuples. c03_simpl. unfold SO3. repeat split; nsatz.
Qed.

Lemma rodrigues_cs_mul (u : V3 R) c1 s1 c2 s2 :
  normsq3 Rops u = 1 ->
  mmul33 Rops (rodrigues_cs Rops u c1 s1) (rodrigues_cs Rops u c2 s2)
  = rodrigues_cs Rops u (c1*c2 - s1*s2) (s1*c2 + c1*s2).
Proof.
  intros Hu. destruct_tuples. c03_simpl. tuple_eq ltac:(nsatz).
Qed.

Lemma rodrigues_th_add (u : V3 R) a b :
  normsq3 Rops u = 1 ->
  rodrigues_th Rops u (a + b) = mmul33 Rops (rodrigues_th Rops u a) (rodrigues_th Rops u b).
Proof.
  intros Hu. unfold rodrigues_th. rewrite rodrigues_cs_mul by exact Hu.
  cbn [cos_ sin_ Rops add]. rewrite cos_plus, sin_plus. reflexivity.
Qed.

Lemma rodrigues_th_0 (u : V3 R) : rodrigues_th Rops u 0 = I33 Rops.
Proof.
  unfold rodrigues_th. cbn [cos_ sin_ Rops]. rewrite cos_0, sin_0. destruct_tuples. c03_simpl. tuple_eq ltac:(ring).
Qed.

(* translation block: V(a+b) = R(a) V(b) + V(a) *)
Lemma Vmat_cs_add (u : V3 R) a b c1 s1 c2 s2 :
  normsq3 Rops u = 1 ->
  Vmat_cs Rops u (a + b) (c1*c2 - s1*s2) (s1*c2 + c1*s2)
  = madd33 Rops (mmul33 Rops (rodrigues_cs Rops u c1 s1) (Vmat_cs Rops u b c2 s2)) (Vmat_cs Rops u a c1 s1).
Proof.
  intros Hu. destruct_tuples. c03_simpl. tuple_eq ltac:(nsatz).
Qed.
(* A = (R - R')/2 = skew(x,y,z)/2 ; A^2 = (1 + c) ((R + R')/2 - I), stated division-free with tr = r00+r11+r22 *)
Lemma so3_Asq r00 r01 r02 r10 r11 r12 r20 r21 r22 :
  SO3 ((r00,r01,r02),(r10,r11,r12),(r20,r21,r22)) ->
  let tr := r00 + r11 + r22 in let x := r21 - r12 in let y := r02 - r20 in let z := r10 - r01 in
  - (z*z) - y*y = 2 * (1 + tr) * (r00 - 1) /\
  - (x*x) - z*z = 2 * (1 + tr) * (r11 - 1) /\
  - (x*x) - y*y = 2 * (1 + tr) * (r22 - 1) /\
  x*y = (1 + tr) * (r01 + r10) /\
  x*z = (1 + tr) * (r02 + r20) /\
  y*z = (1 + tr) * (r12 + r21).
Proof. intros H tr x y z. subst tr x y z. so3_facts H. repeat split; nsatz. Qed.

Lemma rod_explicit x y z c s : s <> 0 ->
  rodrigues_cs Rops (x/2/s, y/2/s, z/2/s) c s =
  let q := (1 - c) / (4 * (s*s)) in
  ((1 + q * (- (z*z) - y*y), - z/2 + q * (x*y), y/2 + q * (x*z)),
   (z/2 + q * (x*y), 1 + q * (- (x*x) - z*z), - x/2 + q * (y*z)),
   (- y/2 + q * (x*z), x/2 + q * (y*z), 1 + q * (- (x*x) - y*y))).
Proof. intros Hs. c03_simpl. tuple_eq ltac:(field; exact Hs). Qed.

Lemma rodrigues_of_log r00 r01 r02 r10 r11 r12 r20 r21 r22 s :
  SO3 ((r00,r01,r02),(r10,r11,r12),(r20,r21,r22)) ->
  let c := (r00 + r11 + r22 - 1) / 2 in
  s*s = 1 - c*c -> s <> 0 ->
  rodrigues_cs Rops ((r21 - r12)/2/s, (r02 - r20)/2/s, (r10 - r01)/2/s) c s
  = ((r00,r01,r02),(r10,r11,r12),(r20,r21,r22)).
Proof.
  intros H c Hs Hs0. pose proof (so3_Asq _ _ _ _ _ _ _ _ _ H) as (A0&A1&A2&A3&A4&A5). clear H.
  rewrite rod_explicit by exact Hs0. cbv zeta in *.
  rewrite A0, A1, A2, A3, A4, A5.
  set (tr := r00 + r11 + r22) in *.
  assert (Hss : s*s = (3 - tr) * (1 + tr) / 4) by (rewrite Hs; unfold c; field).
  assert (Hn : (3 - tr) * (1 + tr) <> 0).
  { intro E. assert (s*s = 0) by (rewrite Hss, E; field). apply Hs0. nra. }
  assert (3 - tr <> 0) by (intro E; apply Hn; rewrite E; ring).
  assert (1 + tr <> 0) by (intro E; apply Hn; rewrite E; ring).
  rewrite Hss. unfold c. tuple_eq ltac:(field; split; assumption).
Qed.

(* |vex((R-R')/2)|^2 = 1 - c^2 *)
Lemma so3_vex_normsq r00 r01 r02 r10 r11 r12 r20 r21 r22 :
  SO3 ((r00,r01,r02),(r10,r11,r12),(r20,r21,r22)) ->
  let c := (r00 + r11 + r22 - 1) / 2 in
  ((r21 - r12)/2)*((r21 - r12)/2) + ((r02 - r20)/2)*((r02 - r20)/2) + ((r10 - r01)/2)*((r10 - r01)/2) = 1 - c*c.
Proof. intros H c. subst c. pose proof (so3_Asq _ _ _ _ _ _ _ _ _ H) as (A0&A1&A2&_). cbv zeta in *. lra. Qed.

(* ------------------------------------------------------------------ model-level facts *)
Lemma sqrt_sq_scale th n : 0 <= th -> n = 1 -> sqrt (th*th*n) = th.
Proof. intros H ->. rewrite Rmult_1_r. apply sqrt_square; exact H. Qed.

Definition thr_ok (K : thr) : Prop :=
  0 < IZR (k_zero K) /\ IZR (k_zero K) <= IZR (k_unit K) /\ 0 < IZR (k_half K) /\ 0 < IZR (k_eye K) /\
  0 < IZR (k_isunit K) /\ IZR (k_zero K) * eps Rops < 1 /\ IZR (k_isunit K) * eps Rops < 1.

Lemma eps_pos : 0 < eps Rops.
Proof. cbn. apply Rinv_0_lt_compat. lra. Qed.




Lemma rt2tr3_mul (A B : M33 R) (p q : V3 R) :
  mmul44 Rops (rt2tr3 Rops A p) (rt2tr3 Rops B q) = rt2tr3 Rops (mmul33 Rops A B) (vadd3 Rops (mv33 Rops A q) p).
Proof. lin_ring. Qed.
Lemma mv33_madd_mmul (A B C : M33 R) (t : V3 R) :
  mv33 Rops (madd33 Rops (mmul33 Rops A B) C) t = vadd3 Rops (mv33 Rops A (mv33 Rops B t)) (mv33 Rops C t).
Proof. lin_ring. Qed.

Lemma thv_R k : thv Rops k = IZR k * eps Rops.
Proof. reflexivity. Qed.

Lemma rodrigues3_with_unit K (w : V3 R) th :
  thr_ok K -> normsq3 Rops w = 1 -> rodrigues3_with Rops K w th = rodrigues_th Rops w th.
Proof.
  intros (Kz & Kzu & Kh & Ke & Kiu & Kz1 & Kiu1) Hw. unfold rodrigues3_with, iszerovec3, norm3.
  cbn [sqrt_ ltb Rops]. rewrite Hw, sqrt_1.
  replace (Rltb 1 _) with false; [reflexivity|]. symmetry. apply Rltb_false. rewrite thv_R. lra.
Qed.
Lemma rodrigues3_with_zero K th : thr_ok K -> rodrigues3_with Rops K (0,0,0) th = I33 Rops.
Proof.
  intros (Kz & Kzu & Kh & Ke & Kiu & Kz1 & Kiu1). unfold rodrigues3_with, iszerovec3. 
  replace (norm3 Rops (0,0,0)) with 0 by (c03_simpl; replace (0*0+0*0+0*0) with 0 by ring; symmetry; apply sqrt_0).
  cbn [ltb Rops]. replace (Rltb 0 _) with true; [reflexivity|]. symmetry. apply Rltb_true. rewrite thv_R.
  pose proof eps_pos. nra.
Qed.

(* one-parameter subgroup law of trexp on a unit (rotational) twist, 4x4 *)
Theorem trexp_unit_add K (tw : V6 R) a b :
  thr_ok K -> (let '(_,_,_,w0,w1,w2) := tw in normsq3 Rops (w0,w1,w2) = 1) ->
  trexp_unit Rops K tw (a + b) = mmul44 Rops (trexp_unit Rops K tw a) (trexp_unit Rops K tw b).
Proof.
  intros HK Hw. destruct tw as [[[[[t0 t1] t2] w0] w1] w2]. unfold trexp_unit.
  rewrite !rodrigues3_with_unit by assumption.
  rewrite rt2tr3_mul. f_equal.
  - apply rodrigues_th_add; exact Hw.
  - unfold Vmat, rodrigues_th. cbn [cos_ sin_ Rops add]. rewrite cos_plus, sin_plus.
    pose proof (Vmat_cs_add (w0,w1,w2) a b (cos a) (sin a) (cos b) (sin b) Hw) as E. cbn [add Rops] in E.
    rewrite E. apply mv33_madd_mmul.
Qed.
Theorem trexp_unit_0 K (tw : V6 R) :
  thr_ok K -> (let '(_,_,_,w0,w1,w2) := tw in normsq3 Rops (w0,w1,w2) = 1) ->
  trexp_unit Rops K tw 0 = I44 Rops.
Proof.
  intros HK Hw. destruct tw as [[[[[t0 t1] t2] w0] w1] w2]. unfold trexp_unit.
  rewrite rodrigues3_with_unit by assumption. rewrite rodrigues_th_0.
  unfold Vmat. cbn [cos_ sin_ Rops]. rewrite cos_0, sin_0. c03_simpl. tuple_eq ltac:(ring).
Qed.
(* prismatic unit twist: pure translation by theta v *)
Theorem trexp_unit_prismatic K v0 v1 v2 th :
  thr_ok K -> trexp_unit Rops K (v0,v1,v2,0,0,0) th = rt2tr3 Rops (I33 Rops) (th*v0, th*v1, th*v2).
Proof.
  intros HK. unfold trexp_unit. rewrite rodrigues3_with_zero by assumption. f_equal.
  c03_simpl. tuple_eq ltac:(ring).
Qed.



(* exp(theta * S) for a unit rotational twist S and theta above the zero threshold is the unit-twist tail at theta;
   so is exp(S, theta): the two call forms agree *)
Theorem trexp_se3_scaled_unit K v0 v1 v2 w0 w1 w2 th :
  thr_ok K -> normsq3 Rops (w0,w1,w2) = 1 -> thv Rops (k_zero K) <= th ->
  trexp_se3 Rops K (th*v0, th*v1, th*v2, th*w0, th*w1, th*w2) = Ok (trexp_unit Rops K (v0,v1,v2,w0,w1,w2) th) /\
  trexp_se3_th Rops K (v0,v1,v2,w0,w1,w2) th = Ok (trexp_unit Rops K (v0,v1,v2,w0,w1,w2) th).
Proof.
  intros HK Hw Hth. pose proof HK as (Kz & Kzu & Kh & Ke & Kiu & Kz1 & Kiu1). pose proof eps_pos as He.
  rewrite thv_R in Hth. assert (Hth0 : 0 < th) by nra.
  assert (Hn3 : norm3 Rops (th*w0, th*w1, th*w2) = th).
  { c03_simpl. replace (_ + _ + _) with (th*th*(w0*w0+w1*w1+w2*w2)) by ring. apply sqrt_sq_scale; [lra|]. exact Hw. }
  assert (Hn6 : ~ norm6 Rops (th*v0, th*v1, th*v2, th*w0, th*w1, th*w2) < thv Rops (k_zero K)).
  { c03_simpl. replace (_ + _ + _ + _ + _ + _) with (th*th*(w0*w0+w1*w1+w2*w2) + th*th*(v0*v0+v1*v1+v2*v2)) by ring.
    c03_simpl. rewrite Hw, Rmult_1_r. intro H.
    assert (th <= sqrt (th*th + th*th*(v0*v0+v1*v1+v2*v2))).
    { rewrite <- (sqrt_square th) at 1 by lra. apply sqrt_le_1_alt. nra. }
    try rewrite thv_R in H; c03_simpl; lra. }
  split.
  - unfold trexp_se3, iszerovec6. cbn [ltb Rops]. apply Rltb_false in Hn6. rewrite Hn6.
    unfold unittwist_norm, iszerovec3. rewrite Hn3. cbn [ltb Rops].
    replace (Rltb th _) with false by (symmetry; apply Rltb_false; rewrite thv_R; lra).
    cbn [div Rops]. f_equal. f_equal.
    repeat (apply f_equal2); field; lra.
  - unfold trexp_se3_th, iszerovec6.
    assert (Hn6' : ~ norm6 Rops (v0,v1,v2,w0,w1,w2) < thv Rops (k_zero K)).
    { c03_simpl. replace (_ + _ + _ + _ + _ + _) with (1 + (v0*v0+v1*v1+v2*v2)) by (c03_simpl; rewrite <- Hw; ring).
      intro H. assert (1 <= sqrt (1 + (v0*v0+v1*v1+v2*v2))).
      { rewrite <- sqrt_1 at 1. apply sqrt_le_1_alt. nra. }
      try rewrite thv_R in H; c03_simpl; lra. }
    cbn [ltb Rops]. apply Rltb_false in Hn6'. rewrite Hn6'.
    cbn [eqb zero Rops]. replace (Reqb th 0) with false
      by (symmetry; unfold Reqb; destruct (Req_EM_T th 0); [lra|reflexivity]).
    unfold isunittwist, isunitvec3. unfold norm3 at 1. cbn [sqrt_ Rops]. rewrite Hw, sqrt_1.
    cbn [ltb abs_ sub one Rops]. replace (1 - 1) with 0 by ring. rewrite Rabs_R0.
    replace (Rltb 0 _) with true by (symmetry; apply Rltb_true; rewrite thv_R; nra).
    reflexivity.
Qed.

(* the exponential of an so(3) vector, when it is a value at all, is a rotation matrix *)
Theorem trexp_so3_in_SO3 K (w : V3 R) Rm : thr_ok K -> trexp_so3 Rops K w = Ok Rm -> SO3 Rm.
Proof.
  intros (Kz & Kzu & Kh & Ke & Kiu & Kz1 & Kiu1). pose proof eps_pos as He.
  destruct w as [[w0 w1] w2]. unfold V3 in *.
  unfold trexp_so3, rodrigues3. destruct (iszerovec3 Rops K _).
  - intros E; injection E as <-. apply SO3_I.
  - unfold unitvec_norm3. cbv zeta. destruct (leb Rops _ _) eqn:Hn; [|discriminate].
    intros E; injection E as <-.
    cbn [leb Rops] in Hn. apply Rleb_true in Hn. rewrite thv_R in Hn.
    assert (H0 : 0 < IZR (k_unit K) * eps Rops) by (apply Rmult_lt_0_compat; lra).
    unfold rodrigues_th. apply rodrigues_cs_SO3; [|apply cs_unit].
    c03_simpl. set (n := sqrt (w0*w0 + w1*w1 + w2*w2)) in *.
    assert (Hsq : n * n = w0*w0 + w1*w1 + w2*w2) by (apply sqrt_sqrt; nra).
    assert (Hn1 : n <> 0) by lra. clearbody n. clear - Hsq Hn1.
    transitivity ((w0*w0 + w1*w1 + w2*w2)/(n*n)); [field; exact Hn1|]. rewrite <- Hsq. field. exact Hn1.
Qed.



(* ---------------- V(theta) . Ginv(theta) = I ---------------- *)
(* Ginv with the cotangent of the half angle as a parameter *)
Definition Ginv_ct (S : M33 R) (th ct : R) : M33 R :=
  madd33 Rops (msub33 Rops (I33 Rops) (mdiv33 Rops S 2)) (mmul33 Rops (mscale33 Rops ((1/th - ct/2)/th) S) S).
Lemma Ginv_is_Ginv_ct S th : Ginv Rops S th = Ginv_ct S th (1 / tan (th/2)).
Proof. destruct_tuples. unfold Ginv, Ginv_ct. c03_simpl. reflexivity. Qed.

Lemma cot_half th : 0 < th < PI -> 1 / tan (th/2) = sin th / (1 - cos th).
Proof.
  intros H. assert (Hs : 0 < sin (th/2)) by (apply sin_gt_0; lra).
  assert (Hc : 0 < cos (th/2)) by (apply cos_gt_0; lra).
  replace th with (2*(th/2)) at 2 3 by field. rewrite sin_2a, cos_2a_sin. unfold tan.
  set (a := sin (th/2)) in *. set (b := cos (th/2)) in *. field. repeat split; try lra; nra.
Qed.

(* polynomials I + a K + b K^2 in K = skew(u), u unit: K^3 = -K *)
Definition Kpoly (u : V3 R) (a b : R) : M33 R :=
  madd33 Rops (madd33 Rops (I33 Rops) (mscale33 Rops a (skew3 Rops u))) (mmul33 Rops (mscale33 Rops b (skew3 Rops u)) (skew3 Rops u)).
Lemma Kpoly_mul (u : V3 R) a b p q : normsq3 Rops u = 1 ->
  mmul33 Rops (Kpoly u a b) (Kpoly u p q) = Kpoly u (a + p - a*q - b*p) (b + q + a*p - b*q).
Proof. intros Hu. destruct_tuples. unfold Kpoly. c03_simpl. tuple_eq ltac:(nsatz). Qed.
Lemma Kpoly_0 (u : V3 R) : Kpoly u 0 0 = I33 Rops.
Proof. destruct_tuples. unfold Kpoly. c03_simpl. tuple_eq ltac:(ring). Qed.

Lemma V_Ginv_ct (u : V3 R) th c s :
  normsq3 Rops u = 1 -> c*c + s*s = 1 -> th <> 0 -> 1 - c <> 0 ->
  mmul33 Rops (mscale33 Rops (1/th) (Vmat_cs Rops u th c s)) (Ginv_ct (mscale33 Rops th (skew3 Rops u)) th (s/(1 - c)))
  = I33 Rops.
Proof.
  intros Hu Hcs Hth Hc.
  assert (E1 : mscale33 Rops (1/th) (Vmat_cs Rops u th c s) = Kpoly u ((1 - c)/th) ((th - s)/th)).
  { destruct_tuples. unfold Kpoly. c03_simpl. tuple_eq ltac:(field; assumption). }
  assert (E2 : Ginv_ct (mscale33 Rops th (skew3 Rops u)) th (s/(1 - c)) = Kpoly u (- th/2) (1 - th*(s/(1 - c))/2)).
  { destruct_tuples. unfold Kpoly, Ginv_ct. c03_simpl. tuple_eq ltac:(field; split; assumption). }
  rewrite E1, E2, Kpoly_mul by exact Hu. rewrite <- (Kpoly_0 u). 
  assert (Hs2 : s*s = (1 - c)*(1 + c)) by lra.
  f_equal; (field_simplify_eq; [|split; assumption]); try ring.
  replace (s^2) with (1 - c*c) by lra. ring.
Qed.

Theorem V_Ginv_inverse (u : V3 R) th : normsq3 Rops u = 1 -> 0 < th < PI ->
  mmul33 Rops (mscale33 Rops (1/th) (Vmat Rops u th)) (Ginv Rops (mscale33 Rops th (skew3 Rops u)) th) = I33 Rops.
Proof.
  intros Hu Hth. rewrite Ginv_is_Ginv_ct, cot_half by exact Hth. unfold Vmat. cbn [cos_ sin_ Rops].
  apply V_Ginv_ct; [exact Hu | apply cs_unit | lra |].
  assert (cos th < cos 0) by (apply cos_decreasing_1; lra). rewrite cos_0 in *. lra.
Qed.


(* ---------------- 2D ---------------- *)
Lemma rodrigues1_cs_SO2 u c s : u*u = 1 -> c*c + s*s = 1 -> SO2 (rodrigues1_cs Rops u c s).
Proof. intros Hu Hcs. c03_simpl. unfold SO2. repeat split; nsatz. Qed.
Lemma rodrigues1_cs_mul u c1 s1 c2 s2 : u*u = 1 ->
  mmul22 Rops (rodrigues1_cs Rops u c1 s1) (rodrigues1_cs Rops u c2 s2) = rodrigues1_cs Rops u (c1*c2 - s1*s2) (s1*c2 + c1*s2).
Proof. intros Hu. c03_simpl. tuple_eq ltac:(nsatz). Qed.
Lemma rodrigues1_th_add u a b : u*u = 1 ->
  rodrigues1_th Rops u (a + b) = mmul22 Rops (rodrigues1_th Rops u a) (rodrigues1_th Rops u b).
Proof.
  intros Hu. unfold rodrigues1_th. rewrite rodrigues1_cs_mul by exact Hu.
  cbn [cos_ sin_ add Rops]. rewrite cos_plus, sin_plus. reflexivity.
Qed.
Lemma rodrigues1_th_rot2 th : rodrigues1_th Rops 1 th = rot2_cs Rops (cos th) (sin th).
Proof. unfold rodrigues1_th. cbn [cos_ sin_ Rops]. c03_simpl. tuple_eq ltac:(ring). Qed.
(* se(2): V2(a+b) = R(a) V2(b) + V2(a) *)
Lemma Vmat2_add u a b : u*u = 1 ->
  Vmat2 Rops u (a + b) = madd22 Rops (mmul22 Rops (rodrigues1_th Rops u a) (Vmat2 Rops u b)) (Vmat2 Rops u a).
Proof.
  intros Hu. unfold Vmat2, rodrigues1_th. cbn [cos_ sin_ add Rops]. rewrite cos_plus, sin_plus.
  generalize (cos a) (sin a) (cos b) (sin b). intros c1 s1 c2 s2. c03_simpl. tuple_eq ltac:(nsatz).
Qed.
