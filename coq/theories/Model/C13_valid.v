(* Hand-written model of the rotation-validity test that the SE3 constructor applies (and SE3.Delta therefore
   applies to the output of delta2tr):
     SE3.isvalid(T) = base.ishom(T, check=True, tol=100) -> base.isR(R, tol):
        np.linalg.norm(R@R.T - np.eye(3)) < tol * _eps  and  np.linalg.det(R) > 0
   (det(R) since fix 8457767; before it the second test was det(R R') > 0, which every reflection passed)
   The tolerance is a parameter of the model; the value the constructor uses (ishom's default) is regenerated as
   isR_tol on every run, and the model at that value is tied to the implementation (SE3.isvalid) by the numeric
   correspondence m_isR of props/C13.py. *)
From Coq Require Import ZArith Bool.
From SM Require Import Base.Ops Base.Lin.

Section Valid.
Context {T : Type} (O : ops T).
Local Infix "+" := (add O). Local Infix "*" := (mul O).

Definition frobsq33 (A : M33 T) : T :=
  let '(r0,r1,r2) := A in dot3 O r0 r0 + dot3 O r1 r1 + dot3 O r2 r2.
(* the residual R R' - I whose Frobenius norm the test looks at *)
Definition orth_resid (Rm : M33 T) : M33 T := msub33 O (mmul33 O Rm (mtr33 Rm)) (I33 O).
Definition isR_model (tol : T) (Rm : M33 T) : bool :=
  ltb O (sqrt_ O (frobsq33 (orth_resid Rm))) (tol * eps O)
  && ltb O (zero O) (det33 O Rm).
End Valid.
