(* C11 -- hand-written models of the interpolators, generic over the [ops] record (so the same text is
   proved about over R and, extracted, run on OCaml floats against /repo on every run).

     slerp        spatialmath/base/quaternions.py  slerp(q0, q1, s, shortest=False)
     uq_interp    spatialmath/quaternion.py        UnitQuaternion.interp(s, dest, shortest)  (on the 4-vectors)
     r2q_m        spatialmath/base/quaternions.py  r2q  (only executed: it is the input stage of trinterp)
     trinterp_q   spatialmath/base/transforms3d.py trinterp, SE(3) case, after the two r2q calls
     trinterp_dyn the shape dispatch of trinterp (SO(3) / SE(3) / anything else) as the code has it

   The models mirror the code AS IT IS (frozen tree 4dbd011; r2q as re-conditioned by 1cdf860, constructor by d0fc1b2; ee14c5b: SO(3) case of trinterp without t2r, and 339284c: the last
   branch raises ValueError).  Thresholds are parameters (the regenerated
   constants of gen/Consts_C11.v are plugged in by gen/Traces_C11.v and Props/C11.v). *)
From Coq Require Import ZArith Bool.
From SM Require Import Base.Ops Base.Lin.

Inductive exn := ValueError | AssertionError | TypeError | IndexError.
Inductive res (A : Type) := Ok (a : A) | Err (e : exn).
Arguments Ok {A} a. Arguments Err {A} e.

Section Interp.
Context {T : Type} (O : ops T).
Local Notation "0" := (zero O). Local Notation "1" := (one O).
Local Infix "+" := (add O). Local Infix "-" := (sub O). Local Infix "*" := (mul O).
Local Infix "/" := (div O). Local Notation "- x" := (neg O x).

(* python:  0 <= s <= 1 *)
Definition in01 (s : T) : bool := leb O 0 s && leb O s 1.
(* np.clip(x, -1, 1) *)
Definition clip11 (x : T) : T := if ltb O x (neg O 1) then neg O 1 else if ltb O 1 x then 1 else x.

(* ------------------------------------------------------------------ base.slerp *)
Definition slerp_flip (shortest : bool) (d : T) : bool := shortest && ltb O d 0.
(* q0 after the optional hemisphere flip, the clipped dot product, the angle *)
Definition slerp_q0 (shortest : bool) (q0 q1 : V4 T) : V4 T :=
  if slerp_flip shortest (dot4 O q0 q1) then vneg4 O q0 else q0.
Definition slerp_dot (shortest : bool) (q0 q1 : V4 T) : T :=
  let d := dot4 O q0 q1 in clip11 (if slerp_flip shortest d then - d else d).
Definition slerp_theta (shortest : bool) (q0 q1 : V4 T) : T := acos_ O (slerp_dot shortest q0 q1).
(* ((q0 * s0) + (q1 * s1)) / sin(theta) *)
Definition slerp_general (a b : V4 T) (th s : T) : V4 T :=
  let s0 := sin_ O ((1 - s) * th) in let s1 := sin_ O (s * th) in let d := sin_ O th in
  let '(a0,a1,a2,a3) := a in let '(b0,b1,b2,b3) := b in
  ((a0*s0 + b0*s1)/d, (a1*s0 + b1*s1)/d, (a2*s0 + b2*s1)/d, (a3*s0 + b3*s1)/d).

Definition slerp (k : T) (q0 q1 : V4 T) (s : T) (shortest : bool) : res (V4 T) :=
  if negb (in01 s) then Err ValueError
  else if eqb O s 0 then Ok q0
  else if eqb O s 1 then Ok q1
  else let a := slerp_q0 shortest q0 q1 in
       let th := slerp_theta shortest q0 q1 in
       if ltb O (k * eps O) (abs_ O th) then Ok (slerp_general a q1 th s) else Ok a.

(* ------------------------------------------------------------------ base.unit (called by UnitQuaternion(vector)) *)
Definition qunit_m (ku : T) (q : V4 T) : res (V4 T) :=
  let n := sqrt_ O (dot4 O q q) in
  if ltb O (abs_ O n) (ku * eps O) then Err ValueError
  else let '(a0,a1,a2,a3) := q in Ok (a0/n, a1/n, a2/n, a3/n).

(* UnitQuaternion(v) for a 4-vector v, check=True: arghandler keeps v only if isunitvec(v) (|norm - 1| < kv eps), then
   base.unit normalises it; a vector that fails the test falls through the constructor's branches to
   `s.shape == (4,)`: base.unit as well (fix d0fc1b2; it used to reach `s.shape[1]` on a 1-D array: IndexError) *)
Definition uq_construct (ku kv : T) (q : V4 T) : res (V4 T) :=
  let n := sqrt_ O (dot4 O q q) in
  if ltb O (abs_ O (n - 1)) (kv * eps O) then qunit_m ku q else qunit_m ku q.

(* ------------------------------------------------------------------ UnitQuaternion.interp
   dest = None is the call  uq_interp ku qone self ...  with the roles the code gives them (q1 := eye(), q2 := self);
   the early returns (s == 0 / s == 1) hand back the stored vectors unchanged *)
Definition uq_weights (d th0 s : T) : T * T :=
  let th := th0 * s in
  (cos_ O th - d * sin_ O th / sin_ O th0, sin_ O th / sin_ O th0).
Definition uq_interp (ku kv : T) (q1 q2 : V4 T) (s : T) (shortest : bool) : res (V4 T) :=
  if eqb O s 0 then Ok q1
  else if eqb O s 1 then Ok q2
  else if negb (in01 s) then Err AssertionError
  else let a := slerp_q0 shortest q1 q2 in
       let d := slerp_dot shortest q1 q2 in
       let th0 := acos_ O d in
       if eqb O th0 0 then uq_construct ku kv a
       else let '(w1, w2) := uq_weights d th0 s in
            let '(a0,a1,a2,a3) := a in let '(b0,b1,b2,b3) := q2 in
            uq_construct ku kv (a0*w1 + b0*w2, a1*w1 + b1*w2, a2*w1 + b2*w2, a3*w1 + b3*w2).

(* ------------------------------------------------------------------ base.q2r (same text as Lin.q2r_ref up to ring; traced too) *)
(* ------------------------------------------------------------------ base.r2q *)
(* as re-conditioned by fix 1cdf860: for trace > 0 the vector part is the skew part / (4 s) and the scalar part sqrt(1 - v.v);
   otherwise the vector part as before (largest-diagonal row) and the scalar part (skew part . v) / (4 v.v) *)
Definition r2q_m (kr : T) (Rm : M33 T) : V4 T :=
  let '((r00,r01,r02),(r10,r11,r12),(r20,r21,r22)) := Rm in
  let two := 1 + 1 in let four := two + two in
  let pos0 (x : T) := if ltb O 0 x then x else 0 in          (* python max(0, x) *)
  let tr := (r00 + r11) + r22 in
  let qs := sqrt_ O (pos0 (tr + 1)) / two in
  let kx := r21 - r12 in let ky := r02 - r20 in let kz := r10 - r01 in
  if ltb O 0 tr then
    let d := four * qs in
    let vx := kx / d in let vy := ky / d in let vz := kz / d in
    (sqrt_ O (pos0 (1 - ((vx*vx + vy*vy) + vz*vz))), vx, vy, vz)
  else
  let '(kx1, ky1, kz1, addf) :=
    if leb O r11 r00 && leb O r22 r00 then (((r00 - r11) - r22) + 1, r10 + r01, r20 + r02, leb O 0 kx)
    else if leb O r22 r11 then (r10 + r01, ((r11 - r00) - r22) + 1, r21 + r12, leb O 0 ky)
    else (r20 + r02, r21 + r12, ((r22 - r00) - r11) + 1, leb O 0 kz) in
  let '(x, y, z) := if addf then (kx + kx1, ky + ky1, kz + kz1) else (kx - kx1, ky - ky1, kz - kz1) in
  let nm := sqrt_ O ((x*x + y*y) + z*z) in
  if ltb O (abs_ O nm) (kr * eps O) then (1, 0, 0, 0)
  else let f := sqrt_ O (1 - qs*qs) / nm in
       let vx := f*x in let vy := f*y in let vz := f*z in
       (pos0 (((kx*vx + ky*vy) + kz*vz) / (four * ((vx*vx + vy*vy) + vz*vz))), vx, vy, vz).

(* ------------------------------------------------------------------ base.trinterp, SE(3) case after r2q *)
Definition lerp3 (p0 p1 : V3 T) (s : T) : V3 T :=
  let '(a0,a1,a2) := p0 in let '(b0,b1,b2) := p1 in
  (a0*(1 - s) + s*b0, a1*(1 - s) + s*b1, a2*(1 - s) + s*b2).
Definition q2r_m (q : V4 T) : M33 T := q2r_ref O q.

(* start given:   q0 = r2q(t2r(start)), q1 = r2q(t2r(end)), p0 = transl(start), p1 = transl(end) *)
Definition trinterp_q (k : T) (shortest : bool) (q0 q1 : V4 T) (p0 p1 : V3 T) (s : T) : res (M44 T) :=
  if negb (in01 s) then Err ValueError
  else match slerp k q0 q1 s shortest with
       | Err e => Err e
       | Ok qr => Ok (rt2tr3 O (q2r_m qr) (lerp3 p0 p1 s))
       end.
(* start omitted: slerp(eye(), q0, s), pr = s * p0 *)
Definition trinterp_q1 (k : T) (shortest : bool) (q1 : V4 T) (p1 : V3 T) (s : T) : res (M44 T) :=
  if negb (in01 s) then Err ValueError
  else match slerp k (qone O) q1 s shortest with
       | Err e => Err e
       | Ok qr => Ok (rt2tr3 O (q2r_m qr) (let '(b0,b1,b2) := p1 in (s*b0, s*b1, s*b2)))
       end.

(* ------------------------------------------------------------------ the shape dispatch of trinterp, as the code has it *)
Inductive mat := Mat22 (m : M22 T) | Mat33 (m : M33 T) | Mat44 (m : M44 T) | MatOther.
(* base.t2r: 3x3 -> leading 2x2, 4x4 -> leading 3x3, else ValueError *)
Definition t2r_dyn (m : mat) : res mat :=
  match m with
  | Mat33 a => Ok (Mat22 (t2r2 a))
  | Mat44 a => Ok (Mat33 (t2r3 a))
  | _ => Err ValueError
  end.
(* base.r2q: isrot() shape test, else ValueError *)
Definition r2q_dyn (kr : T) (m : mat) : res (V4 T) :=
  match m with Mat33 a => Ok (r2q_m kr a) | _ => Err ValueError end.
Definition bind {A B} (x : res A) (f : A -> res B) : res B := match x with Ok a => f a | Err e => Err e end.
Definition transl_dyn (m : mat) : res (V3 T) := match m with Mat44 a => Ok (transl3 a) | _ => Err ValueError end.

Definition trinterp_dyn (k kr : T) (shortest : bool) (start : option mat) (end_ : mat) (s : T) : res mat :=
  if negb (in01 s) then Err ValueError
  else match end_ with
  | Mat33 _ =>                                   (* SO(3) case: r2q on the 3x3 arguments themselves *)
      match start with
      | None => bind (r2q_dyn kr end_) (fun q0 =>
                bind (slerp k (qone O) q0 s shortest) (fun qr => Ok (Mat33 (q2r_m qr))))
      | Some st => bind (r2q_dyn kr st) (fun q0 => bind (r2q_dyn kr end_) (fun q1 =>
                   bind (slerp k q0 q1 s shortest) (fun qr => Ok (Mat33 (q2r_m qr)))))
      end
  | Mat44 e4 =>
      match start with
      | None => bind (t2r_dyn end_) (fun r => bind (r2q_dyn kr r) (fun q0 =>
                bind (trinterp_q1 k shortest q0 (transl3 e4) s) (fun m => Ok (Mat44 m))))
      | Some st => bind (t2r_dyn st) (fun r0 => bind (r2q_dyn kr r0) (fun q0 =>
                   bind (t2r_dyn end_) (fun r1 => bind (r2q_dyn kr r1) (fun q1 =>
                   bind (transl_dyn st) (fun p0 =>
                   bind (trinterp_q k shortest q0 q1 p0 (transl3 e4) s) (fun m => Ok (Mat44 m)))))))
      end
  | _ => Err ValueError                          (* raise ValueError('Argument must be SO(3) or SE(3)') *)
  end.

(* numeric code of an outcome, for the float correspondence run:
   0 matrix 3x3 / value, 1 matrix 4x4, 2 raises ValueError, 6 raises AssertionError, 7 raises TypeError, 8 raises IndexError,
   5 other matrix  (the harness uses 4 for "an exception object was RETURNED", which the model never produces) *)
Definition exn_code (e : exn) : T :=
  match e with ValueError => of_Z O 2 | AssertionError => of_Z O 6 | TypeError => of_Z O 7 | IndexError => of_Z O 8 end.
Definition res_code {A} (r : res A) : T := match r with Ok _ => of_Z O 0 | Err e => exn_code e end.
Definition outcome_code (r : res mat) : T :=
  match r with
  | Ok (Mat33 _) => of_Z O 0
  | Ok (Mat44 _) => of_Z O 1
  | Ok _ => of_Z O 5
  | Err e => exn_code e
  end.
Definition optres {A} (r : res A) : option A := match r with Ok a => Some a | Err _ => None end.
End Interp.

Arguments Mat22 {T} m. Arguments Mat33 {T} m. Arguments Mat44 {T} m. Arguments MatOther {T}.

Create HintDb c11 discriminated.
#[export] Hint Unfold in01 clip11 slerp_flip slerp_q0 slerp_dot slerp_theta slerp_general slerp qunit_m uq_construct uq_weights uq_interp
  lerp3 q2r_m trinterp_q trinterp_q1 : c11.
