(* C03 -- hand-written reference models of the exponential / logarithm kernels of spatialmath.base,
   generic over the [ops] record (instantiated with R for the theorems and, after extraction, with
   OCaml floats for the numeric correspondence with the implementation).

   Mirrors, branch for branch and in the same operation order, the code AS IT IS in
     base/vectors.py      iszerovec, iszero, isunitvec, isunittwist, unitvec_norm, unittwist_norm, unittwist2_norm
     base/transformsNd.py iseye, skew, vex, rodrigues
     base/transforms3d.py trexp (so(3) / se(3), vector form, with and without theta), trlog (SO(3) / SE(3), twist flag;
                          atan2 angle and symmetric-part half-turn axis of fix 84bd1d7)
     base/transforms2d.py trexp2 (so(2) / se(2)), trlog2 (closed form of fix c4462a7)
   The thresholds `k * _eps` are NOT literals here: they are the fields of a [thr] record whose value is
   regenerated from the source AST on every run (coq/gen/Consts_C03.v).
   Python errors are results: [TypeErr] is the `cannot unpack None` that rodrigues raises when
   unitvec_norm returns None, [ValueErr] the explicit `raise ValueError` of the theta-forms. *)
From Coq Require Import ZArith List.
From SM Require Import Base.Ops Base.Lin.

Record thr := {
  k_zero   : Z;   (* vectors.iszerovec   : norm(v) < tol * _eps, default tol *)
  k_iszero : Z;   (* vectors.iszero      : abs(v) < tol * _eps, default tol *)
  k_isunit : Z;   (* vectors.isunitvec   : abs(norm(v) - 1) < tol * _eps, default tol (also isunittwist) *)
  k_unit   : Z;   (* vectors.unitvec_norm: n >= k * _eps  (fix 4dbd011: the complement of the iszerovec test) *)
  k_eye    : Z;   (* transformsNd.iseye  : norm(S - eye) < tol * _eps, default tol *)
  k_half   : Z    (* transforms3d.trlog  : abs(trace(R) + 1) < 100 * _eps *)
}.

Inductive res (A : Type) := Ok (a : A) | TypeErr | ValueErr.
Arguments Ok {A} a. Arguments TypeErr {A}. Arguments ValueErr {A}.
Definition res_opt {A} (r : res A) : option A := match r with Ok a => Some a | _ => None end.
Definition res_code {T} (O : ops T) {A} (r : res A) : T :=
  match r with Ok _ => zero O | TypeErr => one O | ValueErr => add O (one O) (one O) end.

Section Model.
Context {T : Type} (O : ops T) (K : thr).
Local Notation "0" := (zero O). Local Notation "1" := (one O).
Local Infix "+" := (add O). Local Infix "-" := (sub O). Local Infix "*" := (mul O).
Local Infix "/" := (div O). Local Notation "- x" := (neg O x).
Local Notation two := (two O).

Definition thv (k : Z) : T := of_Z O k * eps O.

(* ---------------- vectors.py ---------------- *)
Definition norm1 (w : T) : T := sqrt_ O (w * w).
Definition norm2 (v : V2 T) : T := sqrt_ O (dot2 O v v).
Definition norm6 (v : V6 T) : T := sqrt_ O (dot6 O v v).
Definition iszerovec1 (w : T) : bool := ltb O (norm1 w) (thv (k_zero K)).
Definition iszerovec3 (v : V3 T) : bool := ltb O (norm3 O v) (thv (k_zero K)).
Definition iszerovec6 (v : V6 T) : bool := ltb O (norm6 v) (thv (k_zero K)).
Definition iszero (w : T) : bool := ltb O (abs_ O w) (thv (k_iszero K)).
Definition isunitvec1 (w : T) : bool := ltb O (abs_ O (norm1 w - 1)) (thv (k_isunit K)).
Definition isunitvec3 (v : V3 T) : bool := ltb O (abs_ O (norm3 O v - 1)) (thv (k_isunit K)).
Definition isunittwist (tw : V6 T) : bool :=
  let '(v0,v1,v2,w0,w1,w2) := tw in
  orb (isunitvec3 (w0,w1,w2))
      (andb (ltb O (norm3 O (w0,w1,w2)) (thv (k_isunit K))) (isunitvec3 (v0,v1,v2))).
Definition isunittwist2 (tw : V3 T) : bool :=
  let '(v0,v1,w) := tw in
  orb (isunitvec1 w)
      (andb (ltb O (abs_ O w) (thv (k_isunit K))) (ltb O (abs_ O (norm2 (v0,v1) - 1)) (thv (k_isunit K)))).

Definition unitvec_norm3 (v : V3 T) : option (V3 T * T) :=
  let n := norm3 O v in
  if leb O (thv (k_unit K)) n then let '(v0,v1,v2) := v in Some ((v0/n, v1/n, v2/n), n) else None.
Definition unitvec_norm1 (w : T) : option (T * T) :=
  let n := norm1 w in if leb O (thv (k_unit K)) n then Some (w/n, n) else None.

(* unittwist_norm on a twist that is already known not to be (numerically) zero: (S / th, th) *)
(* fix 3bd9c1c: in the irrotational branch the sub-threshold rotational part is zeroed (S = r_[v, 0, 0, 0]) before S / th *)
Definition unittwist_norm (tw : V6 T) : V6 T * T :=
  let '(v0,v1,v2,w0,w1,w2) := tw in
  if iszerovec3 (w0,w1,w2)
  then let th := norm3 O (v0,v1,v2) in ((v0/th, v1/th, v2/th, 0/th, 0/th, 0/th), th)
  else let th := norm3 O (w0,w1,w2) in ((v0/th, v1/th, v2/th, w0/th, w1/th, w2/th), th).
Definition unittwist2_norm (tw : V3 T) : V3 T * T :=
  let '(v0,v1,w) := tw in
  if iszero w
  then let th := norm2 (v0,v1) in ((v0/th, v1/th, 0/th), th)
  else let th := abs_ O w in ((v0/th, v1/th, w/th), th).

(* ---------------- transformsNd.py ---------------- *)
Definition fro33 (A : M33 T) : T :=
  let '(r0,r1,r2) := A in sqrt_ O (dot3 O r0 r0 + dot3 O r1 r1 + dot3 O r2 r2).
Definition fro44 (A : M44 T) : T :=
  let '(r0,r1,r2,r3) := A in sqrt_ O (dot4 O r0 r0 + dot4 O r1 r1 + dot4 O r2 r2 + dot4 O r3 r3).
Definition msub44 (A B : M44 T) : M44 T :=
  let '(a0,a1,a2,a3) := A in let '(b0,b1,b2,b3) := B in (vsub4 O a0 b0, vsub4 O a1 b1, vsub4 O a2 b2, vsub4 O a3 b3).
Definition iseye33 (A : M33 T) : bool := ltb O (fro33 (msub33 O A (I33 O))) (thv (k_eye K)).
Definition iseye44 (A : M44 T) : bool := ltb O (fro44 (msub44 A (I44 O))) (thv (k_eye K)).

(* vex: np.array([s21 - s12, s02 - s20, s10 - s01]) / 2   (= Lin.vex3) ;  skew (= Lin.skew3) *)
Definition skew1 (w : T) : M22 T := ((0, - w), (w, 0)).
Definition madd22 (A B : M22 T) : M22 T :=
  let '((a,b),(c,d)) := A in let '((e,f),(g,h)) := B in ((a+e, b+f), (c+g, d+h)).
Definition mscale22 (k : T) (A : M22 T) : M22 T := let '((a,b),(c,d)) := A in ((k*a, k*b), (k*c, k*d)).

(* I + s K + (1 - c) K K *)
Definition rodrigues_cs (u : V3 T) (c s : T) : M33 T :=
  let Km := skew3 O u in
  madd33 O (madd33 O (I33 O) (mscale33 O s Km)) (mmul33 O (mscale33 O (1 - c) Km) Km).
Definition rodrigues_th (u : V3 T) (th : T) : M33 T := rodrigues_cs u (cos_ O th) (sin_ O th).
Definition rodrigues1_cs (u : T) (c s : T) : M22 T :=
  let Km := skew1 u in
  madd22 (madd22 (I22 O) (mscale22 s Km)) (mmul22 O (mscale22 (1 - c) Km) Km).
Definition rodrigues1_th (u th : T) : M22 T := rodrigues1_cs u (cos_ O th) (sin_ O th).

(* rodrigues(w): theta=None *)
Definition rodrigues3 (w : V3 T) : res (M33 T) :=
  if iszerovec3 w then Ok (I33 O)
  else match unitvec_norm3 w with
       | None => TypeErr                         (* `w, theta = None` : cannot unpack *)
       | Some (u, th) => Ok (rodrigues_th u th)
       end.
(* rodrigues(w, theta) *)
Definition rodrigues3_with (w : V3 T) (th : T) : M33 T :=
  if iszerovec3 w then I33 O else rodrigues_th w th.
Definition rodrigues1 (w : T) : res (M22 T) :=
  if iszerovec1 w then Ok (I22 O)
  else match unitvec_norm1 w with
       | None => TypeErr
       | Some (u, th) => Ok (rodrigues1_th u th)
       end.
Definition rodrigues1_with (w th : T) : M22 T :=
  if iszerovec1 w then I22 O else rodrigues1_th w th.

(* ---------------- transforms3d.trexp ---------------- *)
Definition trexp_so3 (w : V3 T) : res (M33 T) := rodrigues3 w.
Definition trexp_so3_th (w : V3 T) (th : T) : res (M33 T) :=
  if isunitvec3 w then Ok (rodrigues3_with w th) else ValueErr.

(* V = eye*theta + (1 - cos theta) skw + (theta - sin theta) skw @ skw, from (cos, sin) *)
Definition Vmat_cs (u : V3 T) (th c s : T) : M33 T :=
  let Km := skew3 O u in
  madd33 O (madd33 O (mscale33 O th (I33 O)) (mscale33 O (1 - c) Km)) (mmul33 O (mscale33 O (th - s) Km) Km).
Definition Vmat (u : V3 T) (th : T) : M33 T := Vmat_cs u th (cos_ O th) (sin_ O th).

(* the common tail of trexp for a unit twist (t, w) and angle theta *)
Definition trexp_unit (tw : V6 T) (th : T) : M44 T :=
  let '(t0,t1,t2,w0,w1,w2) := tw in
  rt2tr3 O (rodrigues3_with (w0,w1,w2) th) (mv33 O (Vmat (w0,w1,w2) th) (t0,t1,t2)).

Definition trexp_se3 (tw : V6 T) : res (M44 T) :=
  if iszerovec6 tw then Ok (I44 O)
  else let '(u, th) := unittwist_norm tw in Ok (trexp_unit u th).
Definition trexp_se3_th (tw : V6 T) (th : T) : res (M44 T) :=
  if iszerovec6 tw then Ok (I44 O)
  else if eqb O th 0 then Ok (I44 O)
  else if isunittwist tw then Ok (trexp_unit tw th) else ValueErr.

(* ---------------- transforms3d.trlog ---------------- *)
(* numpy argmax of the diagonal: index of the FIRST maximum *)
Definition argmax3 (d0 d1 d2 : T) : nat :=
  if andb (leb O d1 d0) (leb O d2 d0) then 0%nat else if leb O d2 d1 then 1%nat else 2%nat.
Definition diag_k (A : M33 T) (k : nat) : T :=
  let '((a00,_,_),(_,a11,_),(_,_,a22)) := A in match k with 0%nat => a00 | 1%nat => a11 | _ => a22 end.
Definition e_k (k : nat) : V3 T := match k with 0%nat => (1,0,0) | 1%nat => (0,1,0) | _ => (0,0,1) end.

Inductive so3_branch := BrEye | BrHalf | BrGen.
Definition trlog_so3_branch (Rm : M33 T) : so3_branch :=
  if iseye33 Rm then BrEye
  else if ltb O (abs_ O (trace33 O Rm + 1)) (thv (k_half K)) then BrHalf else BrGen.

Definition mdiv33 (A : M33 T) (k : T) : M33 T :=
  let '((a00,a01,a02),(a10,a11,a12),(a20,a21,a22)) := A in
  ((a00/k,a01/k,a02/k),(a10/k,a11/k,a12/k),(a20/k,a21/k,a22/k)).
Definition mscale33r (A : M33 T) (k : T) : M33 T :=
  let '((a00,a01,a02),(a10,a11,a12),(a20,a21,a22)) := A in
  ((a00*k,a01*k,a02*k),(a10*k,a11*k,a12*k),(a20*k,a21*k,a22*k)).

(* (R - R.T) / 2  and its vex: li = vex((R - R.T)/2) ; c = (tr R - 1)/2 *)
Definition skewpart (Rm : M33 T) : M33 T := mdiv33 (msub33 O Rm (mtr33 Rm)) two.
Definition log_li (Rm : M33 T) : V3 T := vex3 O (skewpart Rm).
Definition log_c (Rm : M33 T) : T := (trace33 O Rm - 1) / two.
(* base.norm: running sum of squares, then sqrt (= Lin.norm3) ; the rotation angle of both non-identity branches *)
Definition log_st (Rm : M33 T) : T := norm3 O (log_li Rm).
Definition log_theta (Rm : M33 T) : T := atan2_ O (log_st Rm) (log_c Rm).

(* half-turn branch (84bd1d7): c = (tr - 1)/2 ; B = (R + R.T)/2 - c*eye(3) ; k = argmax diag B ;
   w = B[:,k] / sqrt((1 - c) * B[k,k]) ; li = vex((R - R.T)/2) ; theta = atan2(norm(li), c) ;
   if dot(w, li) < 0: w = -w ;  result w * theta *)
Definition sympart_minus (Rm : M33 T) (c : T) : M33 T :=
  msub33 O (mdiv33 (madd33 O Rm (mtr33 Rm)) two) (mscale33 O c (I33 O)).
Definition halfturn_axis (Rm : M33 T) : V3 T :=
  let c := log_c Rm in
  let B := sympart_minus Rm c in
  let k := (let '((b00,_,_),(_,b11,_),(_,_,b22)) := B in argmax3 b00 b11 b22) in
  let '(c0,c1,c2) := col33 B k in
  let d := sqrt_ O ((1 - c) * diag_k B k) in
  let w := (c0/d, c1/d, c2/d) in
  if ltb O (dot3 O w (log_li Rm)) 0 then vneg3 O w else w.
Definition halfturn_w (Rm : M33 T) : V3 T :=
  let th := log_theta Rm in
  let '(w0,w1,w2) := halfturn_axis Rm in (w0 * th, w1 * th, w2 * th).

(* general branch (84bd1d7): skw = (R - R.T)/2 ; st = norm(vex(skw)) ; theta = atan2(st, (tr - 1)/2) ; skw / st * theta *)
Definition log_general (Rm : M33 T) : M33 T :=
  mscale33r (mdiv33 (skewpart Rm) (log_st Rm)) (log_theta Rm).
(* fix 5f912b1: `if st == 0:` the general branch returns zeros (no skew part: R differs from I by a symmetric residue) *)
Definition st_is_zero (Rm : M33 T) : bool := eqb O (log_st Rm) 0.

(* trlog(R, twist=False) and trlog(R, twist=True) for a 3x3 argument *)
Definition trlog_so3_mat (Rm : M33 T) : M33 T :=
  match trlog_so3_branch Rm with
  | BrEye => Z33 O
  | BrHalf => skew3 O (halfturn_w Rm)
  | BrGen => if st_is_zero Rm then Z33 O else log_general Rm
  end.
Definition trlog_so3_tw (Rm : M33 T) : V3 T :=
  match trlog_so3_branch Rm with
  | BrEye => (0,0,0)
  | BrHalf => halfturn_w Rm
  | BrGen => if st_is_zero Rm then (0,0,0) else vex3 O (log_general Rm)
  end.

(* Ginv = eye - S/2 + (1/theta - 1/tan(theta/2)/2)/theta * S @ S      (`*` and `@` associate to the left) *)
Definition Ginv (S : M33 T) (th : T) : M33 T :=
  let k := (1/th - 1/(tan_ O (th/two))/two) / th in
  madd33 O (msub33 O (I33 O) (mdiv33 S two)) (mmul33 O (mscale33 O k S) S).

Inductive se3_branch := BrEye4 | BrTransl | BrRot.
Definition trlog_se3_branch (Tm : M44 T) : se3_branch :=
  if iseye44 Tm then BrEye4 else if iseye33 (t2r3 Tm) then BrTransl else BrRot.

(* trlog(T, twist=True) for a 4x4 argument: (v, w) *)
Definition trlog_se3_tw (Tm : M44 T) : V6 T :=
  match trlog_se3_branch Tm with
  | BrEye4 => (0,0,0,0,0,0)
  | BrTransl => v6 (transl3 Tm) (0,0,0)
  | BrRot =>
      let S := trlog_so3_mat (t2r3 Tm) in
      let w := vex3 O S in
      let th := norm3 O w in
      (* fix 5f912b1: `if theta == 0: v = t` *)
      v6 (if eqb O th 0 then transl3 Tm else mv33 O (Ginv S th) (transl3 Tm)) w
  end.
(* trlog(T, twist=False): Ab2M(S, v) *)
Definition Ab2M (S : M33 T) (v : V3 T) : M44 T :=
  let '((s00,s01,s02),(s10,s11,s12),(s20,s21,s22)) := S in let '(v0,v1,v2) := v in
  ((s00,s01,s02,v0),(s10,s11,s12,v1),(s20,s21,s22,v2),(0,0,0,0)).
Definition trlog_se3_mat (Tm : M44 T) : M44 T :=
  match trlog_se3_branch Tm with
  | BrEye4 => Ab2M (Z33 O) (0,0,0)
  | BrTransl => Ab2M (Z33 O) (transl3 Tm)
  | BrRot =>
      let S := trlog_so3_mat (t2r3 Tm) in
      let th := norm3 O (vex3 O S) in
      Ab2M S (if eqb O th 0 then transl3 Tm else mv33 O (Ginv S th) (transl3 Tm))
  end.

(* ---------------- transforms2d.trexp2 ---------------- *)
Definition trexp2_so2 (w : T) : res (M22 T) := rodrigues1 w.
Definition Vmat2 (u th : T) : M22 T :=
  let Km := skew1 u in
  madd22 (madd22 (mscale22 th (I22 O)) (mscale22 (1 - cos_ O th) Km)) (mmul22 O (mscale22 (th - sin_ O th) Km) Km).
Definition trexp2_unit (tw : V3 T) (th : T) : M33 T :=
  let '(t0,t1,w) := tw in rt2tr2 O (rodrigues1_with w th) (mv22 O (Vmat2 w th) (t0,t1)).
Definition trexp2_se2 (tw : V3 T) : res (M33 T) :=
  if iszerovec3 tw then Ok (I33 O)
  else let '(u, th) := unittwist2_norm tw in Ok (trexp2_unit u th).
Definition trexp2_se2_th (tw : V3 T) (th : T) : res (M33 T) :=
  if iszerovec3 tw then Ok (I33 O)
  else if isunittwist2 tw then Ok (trexp2_unit tw th) else ValueErr.

(* ---------------- transforms2d.trlog2 (c4462a7: closed form) ---------------- *)
Definition iseye22 (A : M22 T) : bool :=
  let '((a,b),(c,d)) := A in ltb O (sqrt_ O ((a-1)*(a-1) + b*b + c*c + (d-1)*(d-1))) (thv (k_eye K)).
Definition trlog2_theta (T10 T00 : T) : T := atan2_ O T10 T00.
(* trlog2(R, twist=True) for a 2x2 argument: no identity test *)
Definition trlog2_so2 (Rm : M22 T) : T := let '((r00,_),(r10,_)) := Rm in trlog2_theta r10 r00.
(* trlog2(T, twist=True) for a 3x3 argument: (v, theta) ; a = 1 if theta == 0 else b/tan(b), b = theta/2 ; v = [[a,b],[-b,a]] t *)
Definition trlog2_se2_tw (Tm : M33 T) : V3 T :=
  if iseye33 Tm then (0,0,0)
  else
    let '((t00,_,tx),(t10,_,ty),_) := Tm in
    let th := trlog2_theta t10 t00 in
    let b := th / two in
    let a := if eqb O th 0 then 1 else b / tan_ O b in
    (a*tx + b*ty, (- b)*tx + a*ty, th).

(* ---------------- twist.py: Twist3.exp / Twist2.exp, theta a vector, one twist ----------------
   `SE3([base.trexp(self.S * t) for t in theta])`: element t of theta gives the exponential of the SCALED twist (the twist is
   not normalised first: for a prismatic twist theta() is 0, the scale factor t multiplies the translational part) *)
Definition scale6 (t : T) (tw : V6 T) : V6 T :=
  let '(v0,v1,v2,w0,w1,w2) := tw in (v0*t, v1*t, v2*t, w0*t, w1*t, w2*t).
Definition scale3 (t : T) (tw : V3 T) : V3 T := let '(v0,v1,w) := tw in (v0*t, v1*t, w*t).
Definition twist3_exp_elem (tw : V6 T) (t : T) : res (M44 T) := trexp_se3 (scale6 t tw).
Definition twist2_exp_elem (tw : V3 T) (t : T) : res (M33 T) := trexp2_se2 (scale3 t tw).
Definition twist3_exp_vec (tw : V6 T) (thetas : list T) : list (res (M44 T)) := List.map (twist3_exp_elem tw) thetas.
Definition twist2_exp_vec (tw : V3 T) (thetas : list T) : list (res (M33 T)) := List.map (twist2_exp_elem tw) thetas.
End Model.

Create HintDb c03 discriminated.
#[export] Hint Unfold thv norm1 norm2 norm6 iszerovec1 iszerovec3 iszerovec6 iszero isunitvec1 isunitvec3 isunittwist
  isunittwist2 unitvec_norm3 unitvec_norm1 unittwist_norm unittwist2_norm fro33 fro44 msub44 iseye33 iseye44 skew1
  madd22 mscale22 rodrigues_cs rodrigues_th rodrigues1_cs rodrigues1_th rodrigues3 rodrigues3_with rodrigues1
  rodrigues1_with trexp_so3 trexp_so3_th Vmat_cs Vmat trexp_unit trexp_se3 trexp_se3_th argmax3 diag_k e_k
  trlog_so3_branch skewpart log_li log_c log_st sympart_minus halfturn_axis halfturn_w mdiv33 mscale33r log_theta log_general st_is_zero iseye22 trlog2_theta trlog2_so2 trlog2_se2_tw trlog_so3_mat trlog_so3_tw Ginv
  trlog_se3_branch trlog_se3_tw Ab2M trlog_se3_mat trexp2_so2 Vmat2 trexp2_unit trexp2_se2 trexp2_se2_th : c03.
