(* C14 -- lemmas about the hand-written normalisation models over R, for EVERY threshold value
   (the thresholds regenerated from the source are plugged in by theories/Props/C14.v, which also
   discharges the side conditions on them). *)
From Coq Require Import Reals ZArith Lra Nsatz Psatz.
From SM Require Import Base.Ops Base.Lin Base.RInst Base.RLin Model.C14_Norm.
Open Scope R_scope.

Ltac nm_simpl := autounfold with smlin in *; sm_simpl.

(* ------------------------------------------------------------------ scalar facts *)
Lemma sqrt_pos_lt0 x : 0 < sqrt x -> 0 < x.
Proof.
  intros H. destruct (Rle_or_lt x 0) as [Hx|Hx]; [|exact Hx].
  rewrite (sqrt_neg_0 x Hx) in H. lra.
Qed.
Lemma sqrt_sq x : 0 < sqrt x -> sqrt x * sqrt x = x.
Proof. intros H. apply sqrt_sqrt. apply sqrt_pos_lt0 in H. lra. Qed.
Lemma sqrt_eq_1 x : x = 1 -> sqrt x = 1.
Proof. intros ->. apply sqrt_1. Qed.
Lemma pos_sq_eq a b : 0 < a -> 0 < b -> a * a = b * b -> a = b.
Proof. intros. nra. Qed.

Lemma div_unit2 a b n : 0 < n -> n*n = a*a+b*b -> (a/n)*(a/n)+(b/n)*(b/n) = 1.
Proof. intros Hn H. field_simplify_eq; [|lra]. nra. Qed.
Lemma div_unit3 a b c n : 0 < n -> n*n = a*a+b*b+c*c -> (a/n)*(a/n)+(b/n)*(b/n)+(c/n)*(c/n) = 1.
Proof. intros Hn H. field_simplify_eq; [|lra]. nra. Qed.
Lemma div_unit4 a b c d n : 0 < n -> n*n = a*a+b*b+c*c+d*d ->
  (a/n)*(a/n)+(b/n)*(b/n)+(c/n)*(c/n)+(d/n)*(d/n) = 1.
Proof. intros Hn H. field_simplify_eq; [|lra]. nra. Qed.
Lemma div_unit6 a b c d e f n : 0 < n -> n*n = a*a+b*b+c*c+d*d+e*e+f*f ->
  (a/n)*(a/n)+(b/n)*(b/n)+(c/n)*(c/n)+(d/n)*(d/n)+(e/n)*(e/n)+(f/n)*(f/n) = 1.
Proof. intros Hn H. field_simplify_eq; [|lra]. nra. Qed.

(* ------------------------------------------------------------------ unitvec *)
Lemma unitvec_some thr v u : unitvec_m Rops thr v = Some u ->
  thr <= norm3 Rops v /\ u = vdiv3 Rops v (norm3 Rops v).
Proof.
  unfold unitvec_m. cbn [leb Rops]. destruct (Rleb thr (norm3 Rops v)) eqn:E; [|discriminate].
  apply Rleb_true in E. intros H; injection H as <-. split; [exact E|reflexivity].
Qed.
Lemma unitvec_none thr v : unitvec_m Rops thr v = None <-> norm3 Rops v < thr.
Proof.
  unfold unitvec_m. cbn [leb Rops]. destruct (Rleb thr (norm3 Rops v)) eqn:E.
  - apply Rleb_true in E. split; [discriminate|lra].
  - apply Rleb_false in E. split; [lra|reflexivity].
Qed.
Lemma unitvec_defined thr v : thr <= norm3 Rops v -> unitvec_m Rops thr v = Some (vdiv3 Rops v (norm3 Rops v)).
Proof. intros H. unfold unitvec_m. cbn [leb Rops]. apply Rleb_true in H. rewrite H. reflexivity. Qed.

Lemma unitvec_unit thr v u : 0 < thr -> unitvec_m Rops thr v = Some u -> normsq3 Rops u = 1.
Proof.
  intros Ht H. apply unitvec_some in H. destruct H as [Hn ->]. destruct_tuples. nm_simpl.
  apply div_unit3; [lra|]. apply sqrt_sq. lra.
Qed.
Lemma unitvec_direction thr v u : 0 < thr -> unitvec_m Rops thr v = Some u ->
  exists k, 0 < k /\ u = vscale3 Rops k v.
Proof.
  intros Ht H. apply unitvec_some in H. destruct H as [Hn ->]. exists (/ norm3 Rops v). split.
  - apply Rinv_0_lt_compat. lra.
  - destruct_tuples. nm_simpl. tuple_eq ltac:(unfold Rdiv; ring).
Qed.
Lemma unitvec_fixed thr v : thr <= 1 -> normsq3 Rops v = 1 -> unitvec_m Rops thr v = Some v.
Proof.
  intros Ht H. assert (Hn : norm3 Rops v = 1) by (unfold norm3; cbn [sqrt_ Rops]; apply sqrt_eq_1; exact H).
  rewrite unitvec_defined by lra. rewrite Hn. f_equal. destruct_tuples. nm_simpl. tuple_eq ltac:(field).
Qed.
Lemma unitvec_idem thr v u : 0 < thr <= 1 -> unitvec_m Rops thr v = Some u -> unitvec_m Rops thr u = Some u.
Proof. intros [H0 H1] H. apply unitvec_fixed; [exact H1|]. eapply unitvec_unit; eauto. Qed.

Lemma unitvec_norm_agrees thr v :
  unitvec_norm_m Rops thr v = match unitvec_m Rops thr v with Some u => Some (u, norm3 Rops v) | None => None end.
Proof. unfold unitvec_norm_m, unitvec_m. destruct (leb Rops thr (norm3 Rops v)); reflexivity. Qed.

(* ------------------------------------------------------------------ quaternions.unit *)
Lemma norm4_nonneg q : 0 <= norm4 Rops q.
Proof. unfold norm4. cbn [sqrt_ Rops]. apply sqrt_pos. Qed.
Lemma qunit_some thr q u : qunit_m Rops thr q = Some u -> thr <= norm4 Rops q /\ u = vdiv4 Rops q (norm4 Rops q).
Proof.
  unfold qunit_m. cbn [ltb abs_ Rops]. rewrite (Rabs_pos_eq _ (norm4_nonneg q)).
  destruct (Rltb (norm4 Rops q) thr) eqn:E; [discriminate|].
  apply Rltb_false in E. intros H; injection H as <-. split; [lra|reflexivity].
Qed.
Lemma qunit_none thr q : qunit_m Rops thr q = None <-> norm4 Rops q < thr.
Proof.
  unfold qunit_m. cbn [ltb abs_ Rops]. rewrite (Rabs_pos_eq _ (norm4_nonneg q)).
  destruct (Rltb (norm4 Rops q) thr) eqn:E.
  - apply Rltb_true in E. split; [intros; exact E|reflexivity].
  - apply Rltb_false in E. split; [discriminate|lra].
Qed.
Lemma qunit_defined thr q : thr <= norm4 Rops q -> qunit_m Rops thr q = Some (vdiv4 Rops q (norm4 Rops q)).
Proof.
  intros H. destruct (qunit_m Rops thr q) eqn:E.
  - apply qunit_some in E. destruct E as [_ ->]. reflexivity.
  - apply qunit_none in E. lra.
Qed.
Lemma qunit_unit thr q u : 0 < thr -> qunit_m Rops thr q = Some u -> dot4 Rops u u = 1.
Proof.
  intros Ht H. apply qunit_some in H. destruct H as [Hn ->]. destruct_tuples. nm_simpl.
  apply div_unit4; [lra|]. apply sqrt_sq. lra.
Qed.
Lemma qunit_direction thr q u : 0 < thr -> qunit_m Rops thr q = Some u ->
  exists k, 0 < k /\ u = vscale4 Rops k q.
Proof.
  intros Ht H. apply qunit_some in H. destruct H as [Hn ->]. exists (/ norm4 Rops q). split.
  - apply Rinv_0_lt_compat. lra.
  - destruct_tuples. nm_simpl. tuple_eq ltac:(unfold Rdiv; ring).
Qed.
Lemma qunit_fixed thr q : thr <= 1 -> dot4 Rops q q = 1 -> qunit_m Rops thr q = Some q.
Proof.
  intros Ht H. assert (Hn : norm4 Rops q = 1) by (unfold norm4; cbn [sqrt_ Rops]; apply sqrt_eq_1; exact H).
  rewrite qunit_defined by lra. rewrite Hn. f_equal. destruct_tuples. nm_simpl. tuple_eq ltac:(field).
Qed.
Lemma qunit_idem thr q u : 0 < thr <= 1 -> qunit_m Rops thr q = Some u -> qunit_m Rops thr u = Some u.
Proof. intros [H0 H1] H. apply qunit_fixed; [exact H1|]. eapply qunit_unit; eauto. Qed.

(* ------------------------------------------------------------------ what the property asks of a unit twist *)
Definition unit_twist_spec (thrw : R) (S : V6 R) : Prop :=
  (thrw <= norm3 Rops (tw_w S) -> normsq3 Rops (tw_w S) = 1) /\
  (norm3 Rops (tw_w S) < thrw -> normsq3 Rops (tw_v S) = 1).

(* ------------------------------------------------------------------ trnorm *)
(* columns n/N, (a x n)/P, a/A with n = o x a form a rotation matrix *)
Lemma trnorm_cols_SO3 o0 o1 o2 a0 a1 a2 N P A :
  let n0 := o1*a2 - o2*a1 in let n1 := o2*a0 - o0*a2 in let n2 := o0*a1 - o1*a0 in
  let p0 := a1*n2 - a2*n1 in let p1 := a2*n0 - a0*n2 in let p2 := a0*n1 - a1*n0 in
  0 < N -> 0 < P -> 0 < A ->
  N*N = n0*n0+n1*n1+n2*n2 -> P*P = p0*p0+p1*p1+p2*p2 -> A*A = a0*a0+a1*a1+a2*a2 ->
  SO3 ((n0/N, n1/N, n2/N), (p0/P, p1/P, p2/P), (a0/A, a1/A, a2/A)).
Proof.
  intros n0 n1 n2 p0 p1 p2 HN0 HP0 HA0 HN HP HA.
  assert (HPAN : P = A * N).
  { apply pos_sq_eq; [lra|nra|]. rewrite HP. replace (A*N*(A*N)) with ((A*A)*(N*N)) by ring. rewrite HN, HA.
    subst n0 n1 n2 p0 p1 p2. ring. }
  subst P. unfold SO3, Rdiv. rewrite Rinv_mult.
  assert (HuN : N * / N = 1) by (apply Rinv_r; lra). assert (HuA : A * / A = 1) by (apply Rinv_r; lra).
  set (u := / N) in *. set (w := / A) in *. clearbody u w. clear HN0 HP0 HA0.
  subst n0 n1 n2 p0 p1 p2.
  repeat split; nsatz.
Qed.

Lemma trnorm33_some thr R R' : trnorm33_m Rops thr R = Some R' ->
  let o := col33 R 1 in let a := col33 R 2 in let n := cross3 Rops o a in let p := cross3 Rops a n in
  thr <= norm3 Rops n /\ thr <= norm3 Rops p /\ thr <= norm3 Rops a /\
  R' = mtr33 (vdiv3 Rops n (norm3 Rops n), vdiv3 Rops p (norm3 Rops p), vdiv3 Rops a (norm3 Rops a)).
Proof.
  unfold trnorm33_m. cbv zeta.
  destruct (unitvec_m Rops thr (cross3 Rops (col33 R 1) (col33 R 2))) eqn:E1; [|discriminate].
  destruct (unitvec_m Rops thr (cross3 Rops (col33 R 2) (cross3 Rops (col33 R 1) (col33 R 2)))) eqn:E2; [|discriminate].
  destruct (unitvec_m Rops thr (col33 R 2)) eqn:E3; [|discriminate].
  apply unitvec_some in E1, E2, E3. destruct E1 as [G1 ->], E2 as [G2 ->], E3 as [G3 ->].
  intros HH; injection HH as <-. repeat split; assumption.
Qed.
Lemma trnorm33_defined thr R :
  let o := col33 R 1 in let a := col33 R 2 in let n := cross3 Rops o a in let p := cross3 Rops a n in
  thr <= norm3 Rops n -> thr <= norm3 Rops p -> thr <= norm3 Rops a ->
  trnorm33_m Rops thr R =
  Some (mtr33 (vdiv3 Rops n (norm3 Rops n), vdiv3 Rops p (norm3 Rops p), vdiv3 Rops a (norm3 Rops a))).
Proof.
  cbv zeta. intros H1 H2 H3. unfold trnorm33_m. cbv zeta.
  rewrite (unitvec_defined _ _ H1), (unitvec_defined _ _ H2), (unitvec_defined _ _ H3). reflexivity.
Qed.
Lemma trnorm33_none thr R : trnorm33_m Rops thr R = None <->
  let o := col33 R 1 in let a := col33 R 2 in let n := cross3 Rops o a in let p := cross3 Rops a n in
  norm3 Rops n < thr \/ norm3 Rops p < thr \/ norm3 Rops a < thr.
Proof.
  cbv zeta. split.
  - intros H.
    destruct (Rle_dec thr (norm3 Rops (cross3 Rops (col33 R 1) (col33 R 2)))) as [H1|H1]; [|left; lra].
    destruct (Rle_dec thr (norm3 Rops (cross3 Rops (col33 R 2) (cross3 Rops (col33 R 1) (col33 R 2))))) as [H2|H2]; [|right; left; lra].
    destruct (Rle_dec thr (norm3 Rops (col33 R 2))) as [H3|H3]; [|right; right; lra].
    rewrite (trnorm33_defined thr R H1 H2 H3) in H. discriminate.
  - intros H. destruct (trnorm33_m Rops thr R) eqn:E; [|reflexivity].
    apply trnorm33_some in E. cbv zeta in E. lra.
Qed.

Lemma trnorm33_SO3 thr R R' : 0 < thr -> trnorm33_m Rops thr R = Some R' -> SO3 R'.
Proof.
  intros Ht H. apply trnorm33_some in H. cbv zeta in H. destruct H as (H1 & H2 & H3 & ->).
  apply SO3_tr. destruct_tuples. revert H1 H2 H3. nm_simpl. intros H1 H2 H3.
  apply trnorm_cols_SO3; try lra; apply sqrt_sq; lra.
Qed.

Lemma trnorm33_columns thr R R' : 0 < thr -> trnorm33_m Rops thr R = Some R' ->
  let o := col33 R 1 in let a := col33 R 2 in
  (exists k, 0 < k /\ col33 R' 2 = vscale3 Rops k a) /\
  (exists k, 0 < k /\ col33 R' 1 =
      vscale3 Rops k (vsub3 Rops (vscale3 Rops (dot3 Rops a a) o) (vscale3 Rops (dot3 Rops a o) a))) /\
  (exists k, 0 < k /\ col33 R' 0 = vscale3 Rops k (cross3 Rops o a)) /\
  col33 R' 2 = vdiv3 Rops a (norm3 Rops a).
Proof.
  intros Ht H. apply trnorm33_some in H. cbv zeta in H. destruct H as (H1 & H2 & H3 & ->). cbv zeta.
  repeat split.
  - exists (/ norm3 Rops (col33 R 2)). split; [apply Rinv_0_lt_compat; lra|].
    destruct_tuples. nm_simpl. tuple_eq ltac:(unfold Rdiv; ring).
  - exists (/ norm3 Rops (cross3 Rops (col33 R 2) (cross3 Rops (col33 R 1) (col33 R 2)))).
    split; [apply Rinv_0_lt_compat; lra|].
    destruct_tuples. nm_simpl. tuple_eq ltac:(unfold Rdiv; ring).
  - exists (/ norm3 Rops (cross3 Rops (col33 R 1) (col33 R 2))). split; [apply Rinv_0_lt_compat; lra|].
    destruct_tuples. nm_simpl. tuple_eq ltac:(unfold Rdiv; ring).
  - destruct_tuples. nm_simpl. reflexivity.
Qed.

Lemma trnorm33_fixed thr R : thr <= 1 -> SO3 R -> trnorm33_m Rops thr R = Some R.
Proof.
  intros Ht H.
  assert (F : cross3 Rops (col33 R 1) (col33 R 2) = col33 R 0 /\ cross3 Rops (col33 R 2) (col33 R 0) = col33 R 1 /\
              normsq3 Rops (col33 R 0) = 1 /\ normsq3 Rops (col33 R 1) = 1 /\ normsq3 Rops (col33 R 2) = 1).
  { destruct R as [[[[a00 a01] a02] [[a10 a11] a12]] [[a20 a21] a22]]. so3_facts H. nm_simpl.
    repeat split; try (tuple_eq ltac:(lra)); lra. }
  destruct F as (Hn & Hp & N0 & N1 & N2).
  unfold trnorm33_m. cbv zeta. rewrite Hn, Hp.
  rewrite (unitvec_fixed thr _ Ht N0), (unitvec_fixed thr _ Ht N1), (unitvec_fixed thr _ Ht N2).
  destruct R as [[[[a00 a01] a02] [[a10 a11] a12]] [[a20 a21] a22]]. reflexivity.
Qed.
Lemma trnorm33_idem thr R R' : 0 < thr <= 1 -> trnorm33_m Rops thr R = Some R' -> trnorm33_m Rops thr R' = Some R'.
Proof. intros [H0 H1] H. apply trnorm33_fixed; [exact H1|]. eapply trnorm33_SO3; eauto. Qed.

(* 4x4 *)
Lemma trnorm44_some thr A A' : trnorm44_m Rops thr A = Some A' ->
  exists R', trnorm33_m Rops thr (t2r3 A) = Some R' /\ A' = rt2tr3 Rops R' (transl3 A).
Proof.
  unfold trnorm44_m. destruct (trnorm33_m Rops thr (t2r3 A)) as [R'|]; [|discriminate].
  intros H; injection H as <-. exists R'. split; reflexivity.
Qed.
Lemma trnorm44_SE3 thr A A' : 0 < thr -> trnorm44_m Rops thr A = Some A' ->
  SE3 A' /\ transl3 A' = transl3 A.
Proof.
  intros Ht H. apply trnorm44_some in H. destruct H as (R' & H & ->). split.
  - apply SE3_rt. eapply trnorm33_SO3; eauto.
  - destruct_tuples. nm_simpl. reflexivity.
Qed.
Lemma trnorm44_rot thr A A' : trnorm44_m Rops thr A = Some A' -> trnorm33_m Rops thr (t2r3 A) = Some (t2r3 A').
Proof.
  intros H. apply trnorm44_some in H. destruct H as (R' & H & ->). rewrite H. f_equal.
  destruct_tuples. nm_simpl. reflexivity.
Qed.
Lemma trnorm44_fixed thr A : thr <= 1 -> SE3 A -> trnorm44_m Rops thr A = Some A.
Proof.
  intros Ht H. unfold trnorm44_m. destruct H as [HR HL]. rewrite (trnorm33_fixed thr _ Ht HR).
  f_equal. symmetry. apply SE3_decompose. split; assumption.
Qed.
Lemma trnorm44_idem thr A A' : 0 < thr <= 1 -> trnorm44_m Rops thr A = Some A' -> trnorm44_m Rops thr A' = Some A'.
Proof. intros [H0 H1] H. apply trnorm44_fixed; [exact H1|]. eapply trnorm44_SE3; eauto. Qed.

(* ------------------------------------------------------------------ unittwist *)
Lemma normsq3_nonneg v : 0 <= normsq3 Rops v.
Proof. destruct_tuples. nm_simpl. nra. Qed.
Lemma norm3_nonneg v : 0 <= norm3 Rops v.
Proof. unfold norm3. cbn [sqrt_ Rops]. apply sqrt_pos. Qed.
Lemma norm3_sq v : norm3 Rops v * norm3 Rops v = normsq3 Rops v.
Proof. unfold norm3. cbn [sqrt_ Rops]. apply sqrt_sqrt. apply normsq3_nonneg. Qed.
Lemma dot6_nonneg S : 0 <= dot6 Rops S S.
Proof. destruct_tuples. nm_simpl. nra. Qed.
Lemma norm6_sq S : norm6 Rops S * norm6 Rops S = dot6 Rops S S.
Proof. unfold norm6. cbn [sqrt_ Rops]. apply sqrt_sqrt. apply dot6_nonneg. Qed.
Lemma norm6_nonneg S : 0 <= norm6 Rops S.
Proof. unfold norm6. cbn [sqrt_ Rops]. apply sqrt_pos. Qed.
Lemma dot6_split S : dot6 Rops S S = normsq3 Rops (tw_v S) + normsq3 Rops (tw_w S).
Proof. destruct_tuples. nm_simpl. ring. Qed.
Lemma norm3_zero : norm3 Rops (0,0,0) = 0.
Proof. nm_simpl. replace (0*0+0*0+0*0) with 0 by ring. apply sqrt_0. Qed.
Lemma norm3_of_unit v : normsq3 Rops v = 1 -> norm3 Rops v = 1.
Proof. intros H. unfold norm3. cbn [sqrt_ Rops]. apply sqrt_eq_1. exact H. Qed.

Lemma twist_theta_some thrS thrw S th : twist_theta_m Rops thrS thrw S = Some th ->
  thrS <= norm6 Rops S /\
  ((norm3 Rops (tw_w S) < thrw /\ th = norm3 Rops (tw_v S)) \/ (thrw <= norm3 Rops (tw_w S) /\ th = norm3 Rops (tw_w S))).
Proof.
  unfold twist_theta_m. cbn [ltb Rops].
  destruct (Rltb (norm6 Rops S) thrS) eqn:E; [discriminate|]. apply Rltb_false in E.
  destruct (Rltb (norm3 Rops (tw_w S)) thrw) eqn:E2; intros H; injection H as <-.
  - apply Rltb_true in E2. split; [lra|left; split; [exact E2|reflexivity]].
  - apply Rltb_false in E2. split; [lra|right; split; [lra|reflexivity]].
Qed.
Lemma twist_theta_none thrS thrw S : twist_theta_m Rops thrS thrw S = None <-> norm6 Rops S < thrS.
Proof.
  unfold twist_theta_m. cbn [ltb Rops]. destruct (Rltb (norm6 Rops S) thrS) eqn:E.
  - apply Rltb_true in E. split; [intros; exact E|reflexivity].
  - apply Rltb_false in E. destruct (Rltb (norm3 Rops (tw_w S)) thrw); split; try discriminate; lra.
Qed.
Lemma twist_theta_pos thrS thrw S th : 0 < thrw <= thrS -> twist_theta_m Rops thrS thrw S = Some th -> 0 < th.
Proof.
  intros [H0 H1] H. apply twist_theta_some in H. destruct H as [HS [[Hw ->]|[Hw ->]]]; [|lra].
  pose proof (norm6_sq S) as H6. rewrite dot6_split in H6.
  pose proof (norm3_sq (tw_w S)) as Hw2. pose proof (norm3_sq (tw_v S)) as Hv2.
  pose proof (norm3_nonneg (tw_w S)). pose proof (norm3_nonneg (tw_v S)).
  destruct (Rle_lt_or_eq_dec 0 _ H2) as [Hp|Hz]; [exact Hp|]. rewrite <- Hz in Hv2. nra.
Qed.

Lemma irr_v_pos thrS thrw S : 0 < thrw <= thrS -> thrS <= norm6 Rops S -> norm3 Rops (tw_w S) < thrw ->
  0 < norm3 Rops (tw_v S).
Proof.
  intros [H0 H1] HS Hw.
  pose proof (norm6_sq S) as H6. rewrite dot6_split in H6.
  pose proof (norm3_sq (tw_w S)) as Hw2. pose proof (norm3_sq (tw_v S)) as Hv2.
  pose proof (norm3_nonneg (tw_w S)). pose proof (norm3_nonneg (tw_v S)) as Hv.
  destruct (Rle_lt_or_eq_dec 0 _ Hv) as [Hp|Hz]; [exact Hp|]. rewrite <- Hz in Hv2. nra.
Qed.

Lemma unittwist_cases thrS thrw S U : unittwist_m Rops thrS thrw S = Some U ->
  thrS <= norm6 Rops S /\
  ((norm3 Rops (tw_w S) < thrw /\ U = vdiv6 Rops (v6 (tw_v S) (0,0,0)) (norm3 Rops (tw_v S))) \/
   (thrw <= norm3 Rops (tw_w S) /\ U = vdiv6 Rops S (norm3 Rops (tw_w S)))).
Proof.
  unfold unittwist_m, twist_theta_m, twist_num_m. cbn [ltb zero Rops].
  destruct (Rltb (norm6 Rops S) thrS) eqn:E; [discriminate|]. apply Rltb_false in E.
  destruct (Rltb (norm3 Rops (tw_w S)) thrw) eqn:E2; intros H; injection H as <-.
  - apply Rltb_true in E2. split; [lra|left; split; [exact E2|reflexivity]].
  - apply Rltb_false in E2. split; [lra|right; split; [lra|reflexivity]].
Qed.
Lemma unittwist_none thrS thrw S : unittwist_m Rops thrS thrw S = None <-> norm6 Rops S < thrS.
Proof.
  rewrite <- twist_theta_none with (thrw := thrw). unfold unittwist_m.
  destruct (twist_theta_m Rops thrS thrw S); split; intros; try discriminate; reflexivity.
Qed.
Lemma unittwist_norm_agrees thrS thrw S :
  unittwist_norm_m Rops thrS thrw S =
  match unittwist_m Rops thrS thrw S, twist_theta_m Rops thrS thrw S with Some U, Some th => Some (U, th) | _, _ => None end.
Proof. unfold unittwist_norm_m, unittwist_m. destruct (twist_theta_m Rops thrS thrw S); reflexivity. Qed.

Lemma vdiv6_w S th : tw_w (vdiv6 Rops S th) = vdiv3 Rops (tw_w S) th.
Proof. destruct_tuples. reflexivity. Qed.
Lemma vdiv6_v S th : tw_v (vdiv6 Rops S th) = vdiv3 Rops (tw_v S) th.
Proof. destruct_tuples. reflexivity. Qed.
Lemma tw_v_v6 (a b : V3 R) : tw_v (v6 a b) = a.
Proof. destruct_tuples. reflexivity. Qed.
Lemma tw_w_v6 (a b : V3 R) : tw_w (v6 a b) = b.
Proof. destruct_tuples. reflexivity. Qed.
Lemma v6_parts (S : V6 R) : v6 (tw_v S) (tw_w S) = S.
Proof. destruct_tuples. reflexivity. Qed.
Lemma vdiv3_unit v : 0 < norm3 Rops v -> normsq3 Rops (vdiv3 Rops v (norm3 Rops v)) = 1.
Proof.
  intros H. pose proof (norm3_sq v) as Hs. revert H Hs. generalize (norm3 Rops v). intros n H Hs.
  destruct_tuples. revert Hs. nm_simpl. intros Hs. apply div_unit3; assumption.
Qed.
Lemma vdiv3_zero th : vdiv3 Rops (0,0,0) th = (0,0,0).
Proof. nm_simpl. tuple_eq ltac:(unfold Rdiv; ring). Qed.
Lemma vdiv3_scale v th : vdiv3 Rops v th = vscale3 Rops (/ th) v.
Proof. destruct_tuples. nm_simpl. tuple_eq ltac:(unfold Rdiv; ring). Qed.
Lemma vdiv6_one S : vdiv6 Rops S 1 = S.
Proof. destruct_tuples. nm_simpl. tuple_eq ltac:(field). Qed.
Lemma norm6_ge_w S : norm3 Rops (tw_w S) <= norm6 Rops S.
Proof.
  pose proof (norm6_sq S) as H6. rewrite dot6_split in H6.
  pose proof (norm3_sq (tw_w S)). pose proof (normsq3_nonneg (tw_v S)).
  pose proof (norm3_nonneg (tw_w S)). pose proof (norm6_nonneg S). nra.
Qed.
Lemma norm6_ge_v S : norm3 Rops (tw_v S) <= norm6 Rops S.
Proof.
  pose proof (norm6_sq S) as H6. rewrite dot6_split in H6.
  pose proof (norm3_sq (tw_v S)). pose proof (normsq3_nonneg (tw_w S)).
  pose proof (norm3_nonneg (tw_v S)). pose proof (norm6_nonneg S). nra.
Qed.

(* rotational input (|w| >= thr): unit rotational part, positive multiple of the whole twist;
   irrotational input (|w| < thr): unit translational part, a positive multiple of v, rotational part EXACTLY zero *)
Lemma unittwist_parts thrS thrw S U : 0 < thrw <= thrS -> unittwist_m Rops thrS thrw S = Some U ->
  (thrw <= norm3 Rops (tw_w S) ->
     normsq3 Rops (tw_w U) = 1 /\
     exists k, 0 < k /\ U = (let '(a,b,c,d,e,f) := S in (k*a, k*b, k*c, k*d, k*e, k*f))) /\
  (norm3 Rops (tw_w S) < thrw ->
     normsq3 Rops (tw_v U) = 1 /\ tw_w U = (0,0,0) /\ exists k, 0 < k /\ tw_v U = vscale3 Rops k (tw_v S)).
Proof.
  intros Ht H. apply unittwist_cases in H. destruct H as [HS [[Hw ->]|[Hw ->]]]; split; intros Hc; try lra.
  - pose proof (irr_v_pos _ _ _ Ht HS Hw) as Hp. rewrite vdiv6_v, vdiv6_w, tw_v_v6, tw_w_v6. split; [|split].
    + apply vdiv3_unit. exact Hp.
    + apply vdiv3_zero.
    + exists (/ norm3 Rops (tw_v S)). split; [apply Rinv_0_lt_compat; exact Hp|apply vdiv3_scale].
  - assert (Hp : 0 < norm3 Rops (tw_w S)) by lra. split.
    + rewrite vdiv6_w. apply vdiv3_unit. exact Hp.
    + exists (/ norm3 Rops (tw_w S)). split; [apply Rinv_0_lt_compat; exact Hp|].
      generalize (norm3 Rops (tw_w S)). intros n. destruct_tuples. nm_simpl. tuple_eq ltac:(unfold Rdiv; ring).
Qed.

(* a unit twist (unit rotational part; or rotational part exactly zero and unit translational part) is returned unchanged *)
Lemma unittwist_fixed thrS thrw S : 0 < thrw <= thrS -> thrS <= 1 ->
  normsq3 Rops (tw_w S) = 1 \/ (tw_w S = (0,0,0) /\ normsq3 Rops (tw_v S) = 1) ->
  unittwist_m Rops thrS thrw S = Some S.
Proof.
  intros [H0 H1] H2 H. unfold unittwist_m, twist_theta_m, twist_num_m. cbn [ltb zero Rops].
  pose proof (norm6_ge_w S). pose proof (norm6_ge_v S).
  destruct H as [Hw|[Hw Hv]].
  - apply norm3_of_unit in Hw.
    assert (E : Rltb (norm6 Rops S) thrS = false) by (apply Rltb_false; lra). rewrite E.
    assert (E2 : Rltb (norm3 Rops (tw_w S)) thrw = false) by (apply Rltb_false; lra). rewrite E2.
    rewrite Hw, vdiv6_one. reflexivity.
  - apply norm3_of_unit in Hv.
    assert (E : Rltb (norm6 Rops S) thrS = false) by (apply Rltb_false; lra). rewrite E.
    assert (E2 : Rltb (norm3 Rops (tw_w S)) thrw = true) by (apply Rltb_true; rewrite Hw, norm3_zero; lra). rewrite E2.
    rewrite Hv, vdiv6_one. rewrite <- Hw. rewrite v6_parts. reflexivity.
Qed.

(* FULL STRENGTH (since fix 3bd9c1c): every result is a unit twist by the library's own test and a fixed point *)
Lemma unittwist_valid_idem thrS thrw S U : 0 < thrw <= thrS -> thrS <= 1 ->
  unittwist_m Rops thrS thrw S = Some U ->
  unit_twist_spec thrw U /\ unittwist_m Rops thrS thrw U = Some U.
Proof.
  intros Ht H1 H. destruct (unittwist_parts _ _ _ _ Ht H) as [Hr Hi].
  assert (Hfix : normsq3 Rops (tw_w U) = 1 \/ (tw_w U = (0,0,0) /\ normsq3 Rops (tw_v U) = 1)).
  { destruct (Rle_or_lt thrw (norm3 Rops (tw_w S))) as [Hc|Hc].
    - left. apply Hr. exact Hc.
    - right. destruct (Hi Hc) as (A & B & _). split; assumption. }
  split; [|apply unittwist_fixed; assumption].
  unfold unit_twist_spec. destruct Hfix as [Hw|[Hw Hv]].
  - split; [intros; exact Hw|]. apply norm3_of_unit in Hw. lra.
  - split; [rewrite Hw, norm3_zero; lra|intros; exact Hv].
Qed.

(* ------------------------------------------------------------------ unittwist2 *)
Definition unit_twist2_spec (thrw : R) (S : V3 R) : Prop :=
  let '(v0,v1,w) := S in (thrw <= Rabs w -> w*w = 1) /\ (Rabs w < thrw -> v0*v0+v1*v1 = 1).
Lemma norm2_sq v0 v1 : norm2 Rops (v0,v1) * norm2 Rops (v0,v1) = v0*v0+v1*v1.
Proof. nm_simpl. apply sqrt_sqrt. nra. Qed.
Lemma norm2_pos v0 v1 : (v0,v1) <> (0,0) -> 0 < norm2 Rops (v0,v1).
Proof.
  intros H. nm_simpl. apply sqrt_lt_R0.
  destruct (Req_dec v0 0) as [->|H0]; [|nra]. destruct (Req_dec v1 0) as [->|H1]; [|nra]. congruence.
Qed.
Lemma unittwist2_cases thrw v0 v1 w :
  (Rabs w < thrw /\ unittwist2_m Rops thrw (v0,v1,w) =
      (v0 / norm2 Rops (v0,v1), v1 / norm2 Rops (v0,v1), 0 / norm2 Rops (v0,v1))) \/
  (thrw <= Rabs w /\ unittwist2_m Rops thrw (v0,v1,w) = (v0 / Rabs w, v1 / Rabs w, w / Rabs w)).
Proof.
  unfold unittwist2_m, twist2_theta_m, twist2_num_m. cbn [ltb abs_ zero Rops]. destruct (Rltb (Rabs w) thrw) eqn:E.
  - apply Rltb_true in E. left. split; [exact E|reflexivity].
  - apply Rltb_false in E. right. split; [lra|reflexivity].
Qed.
Lemma Rabs_sq w : Rabs w * Rabs w = w * w.
Proof. unfold Rabs; destruct (Rcase_abs w); ring. Qed.
Lemma unittwist2_parts thrw v0 v1 w : 0 < thrw ->
  let '(u0,u1,x) := unittwist2_m Rops thrw (v0,v1,w) in
  (thrw <= Rabs w -> x*x = 1 /\ exists k, 0 < k /\ (u0,u1,x) = (k*v0, k*v1, k*w)) /\
  (Rabs w < thrw -> (v0,v1) <> (0,0) -> u0*u0+u1*u1 = 1 /\ x = 0 /\ exists k, 0 < k /\ (u0,u1) = (k*v0, k*v1)).
Proof.
  intros Ht. destruct (unittwist2_cases thrw v0 v1 w) as [[Hc ->]|[Hc ->]].
  - split; [lra|]. intros _ Hv. pose proof (norm2_pos _ _ Hv) as Hp. split; [|split].
    + apply div_unit2; [exact Hp|apply norm2_sq].
    + unfold Rdiv. ring.
    + exists (/ norm2 Rops (v0,v1)). split; [apply Rinv_0_lt_compat; exact Hp|]. unfold Rdiv. tuple_eq ltac:(ring).
  - split; [|lra]. intros _. assert (Hp : 0 < Rabs w) by lra. pose proof (Rabs_sq w) as Hs. split.
    + field_simplify_eq; [nra|lra].
    + exists (/ Rabs w). split; [apply Rinv_0_lt_compat; exact Hp|]. unfold Rdiv. tuple_eq ltac:(ring).
Qed.
Lemma unittwist2_fixed thrw v0 v1 w : 0 < thrw <= 1 ->
  w*w = 1 \/ (w = 0 /\ v0*v0+v1*v1 = 1) -> unittwist2_m Rops thrw (v0,v1,w) = (v0,v1,w).
Proof.
  intros [H0 H1] H. destruct (unittwist2_cases thrw v0 v1 w) as [[Hc ->]|[Hc ->]]; destruct H as [H|[H H']].
  - assert (Rabs w = 1) by (unfold Rabs in *; destruct (Rcase_abs w); nra). lra.
  - assert (Hn : norm2 Rops (v0,v1) = 1) by (nm_simpl; apply sqrt_eq_1; exact H'). rewrite Hn, H.
    tuple_eq ltac:(field).
  - assert (Ha : Rabs w = 1) by (unfold Rabs in *; destruct (Rcase_abs w); nra). rewrite Ha. tuple_eq ltac:(field).
  - rewrite H, Rabs_R0 in Hc. lra.
Qed.
(* FULL STRENGTH (since fix 3bd9c1c), for every input the code can normalise (|w| >= thr or v <> 0) *)
Lemma unittwist2_valid_idem thrw v0 v1 w : 0 < thrw <= 1 ->
  thrw <= Rabs w \/ (v0,v1) <> (0,0) ->
  unit_twist2_spec thrw (unittwist2_m Rops thrw (v0,v1,w)) /\
  unittwist2_m Rops thrw (unittwist2_m Rops thrw (v0,v1,w)) = unittwist2_m Rops thrw (v0,v1,w).
Proof.
  intros Ht Hc. pose proof (unittwist2_parts thrw v0 v1 w ltac:(lra)) as Hb.
  destruct (unittwist2_m Rops thrw (v0,v1,w)) as [[u0 u1] x]. destruct Hb as [Hb1 Hb2].
  assert (Hfix : x*x = 1 \/ (x = 0 /\ u0*u0+u1*u1 = 1)).
  { destruct (Rle_or_lt thrw (Rabs w)) as [Hw|Hw]; [left; apply Hb1; exact Hw|right].
    destruct Hc as [Hc|Hc]; [lra|]. destruct (Hb2 Hw Hc) as (A & B & _). split; assumption. }
  split; [|apply unittwist2_fixed; assumption].
  unfold unit_twist2_spec. destruct Hfix as [Hw|[Hw Hv]].
  - split; [intros; exact Hw|]. assert (Rabs x = 1) by (unfold Rabs in *; destruct (Rcase_abs x); nra). lra.
  - split; [rewrite Hw, Rabs_R0; lra|intros; exact Hv].
Qed.

(* ------------------------------------------------------------------ angdiff *)
Lemma pymod_range x q : 0 < q -> 0 <= pymod Rops x q < q.
Proof.
  intros Hq. unfold pymod. cbn [sub mul div floor_ Rops]. unfold Rfloor.
  destruct (base_Int_part (x / q)) as [H1 H2]. set (k := IZR (Int_part (x / q))) in *.
  assert (Hx : x = x / q * q) by (field; lra). set (r := x / q) in *. clearbody r k. subst x. split; nra.
Qed.
Lemma pymod_congr x q : exists k : Z, pymod Rops x q = x - IZR k * q.
Proof. exists (Int_part (x / q)). unfold pymod. cbn [sub mul div floor_ Rops]. unfold Rfloor. ring. Qed.
Lemma pymod_fixed x q : 0 < q -> 0 <= x < q -> pymod Rops x q = x.
Proof.
  intros Hq Hx. unfold pymod. cbn [sub mul div floor_ Rops]. unfold Rfloor.
  destruct (base_Int_part (x / q)) as [H1 H2].
  assert (Hr : 0 <= x / q < 1).
  { split; [apply Rmult_le_pos; [lra|left; apply Rinv_0_lt_compat; lra]|].
    apply Rmult_lt_reg_r with q; [lra|]. unfold Rdiv. rewrite Rmult_assoc, Rinv_l by lra. lra. }
  assert (Hk : Int_part (x / q) = 0%Z).
  { assert (IZR (Int_part (x / q)) < IZR 1) by (simpl; lra). assert (IZR (-1) < IZR (Int_part (x / q))) by (simpl; lra).
    apply lt_IZR in H, H0. lia. }
  rewrite Hk. simpl. ring.
Qed.

Lemma angdiff_range p d : 0 < p -> - p <= angdiff_p Rops p d < p.
Proof.
  intros Hp. unfold angdiff_p. cbn [sub Rops]. unfold two. cbn [add one mul Rops].
  pose proof (pymod_range (d + p) ((1+1)*p) ltac:(lra)). cbn [add Rops] in *. lra.
Qed.
Lemma angdiff_congr p d : exists k : Z, angdiff_p Rops p d = d - IZR k * (2 * p).
Proof.
  unfold angdiff_p. unfold two. cbn [sub add one mul Rops].
  destruct (pymod_congr (d + p) ((1+1)*p)) as [k Hk]. exists k. rewrite Hk. ring.
Qed.
Lemma angdiff_fixed p d : 0 < p -> - p <= d < p -> angdiff_p Rops p d = d.
Proof.
  intros Hp Hd. unfold angdiff_p. unfold two. cbn [sub add one mul Rops].
  rewrite pymod_fixed by lra. ring.
Qed.
Lemma angdiff_idem p d : 0 < p -> angdiff_p Rops p (angdiff_p Rops p d) = angdiff_p Rops p d.
Proof. intros Hp. apply angdiff_fixed; [exact Hp|]. apply angdiff_range. exact Hp. Qed.

(* ------------------------------------------------------------------ trnorm2 (2x2 and 3x3) *)
Lemma norm2_nonneg v : 0 <= norm2 Rops v.
Proof. unfold norm2. cbn [sqrt_ Rops]. apply sqrt_pos. Qed.
Lemma unitvec2_some thr v u : unitvec2_m Rops thr v = Some u ->
  thr <= norm2 Rops v /\ u = vdiv2 Rops v (norm2 Rops v).
Proof.
  unfold unitvec2_m. cbn [leb Rops]. destruct (Rleb thr (norm2 Rops v)) eqn:E; [|discriminate].
  apply Rleb_true in E. intros H; injection H as <-. split; [exact E|reflexivity].
Qed.
Lemma unitvec2_defined thr v : thr <= norm2 Rops v -> unitvec2_m Rops thr v = Some (vdiv2 Rops v (norm2 Rops v)).
Proof. intros H. unfold unitvec2_m. cbn [leb Rops]. apply Rleb_true in H. rewrite H. reflexivity. Qed.
Lemma unitvec2_none thr v : unitvec2_m Rops thr v = None <-> norm2 Rops v < thr.
Proof.
  unfold unitvec2_m. cbn [leb Rops]. destruct (Rleb thr (norm2 Rops v)) eqn:E.
  - apply Rleb_true in E. split; [discriminate|lra].
  - apply Rleb_false in E. split; [lra|reflexivity].
Qed.

Lemma trnorm22_some thr r00 r01 r10 r11 R' : trnorm22_m Rops thr ((r00,r01),(r10,r11)) = Some R' ->
  let n := norm2 Rops (r01,r11) in
  thr <= n /\ R' = ((r11/n, r01/n), (- (r01/n), r11/n)).
Proof.
  unfold trnorm22_m. destruct (unitvec2_m Rops thr (r01, r11)) as [[a0 a1]|] eqn:E; [|discriminate].
  apply unitvec2_some in E. destruct E as [Hn E]. cbn [vdiv2 div Rops] in E. injection E as -> ->.
  intros H; injection H as <-. cbv zeta. split; [exact Hn|reflexivity].
Qed.
Lemma trnorm22_none thr r00 r01 r10 r11 :
  trnorm22_m Rops thr ((r00,r01),(r10,r11)) = None <-> norm2 Rops (r01,r11) < thr.
Proof.
  rewrite <- unitvec2_none. unfold trnorm22_m.
  destruct (unitvec2_m Rops thr (r01, r11)) as [[a0 a1]|]; split; intros; try discriminate; reflexivity.
Qed.
Lemma trnorm22_defined thr r00 r01 r10 r11 : thr <= norm2 Rops (r01,r11) ->
  exists R', trnorm22_m Rops thr ((r00,r01),(r10,r11)) = Some R'.
Proof.
  intros H. destruct (trnorm22_m Rops thr ((r00,r01),(r10,r11))) eqn:E; [eexists; reflexivity|].
  apply trnorm22_none in E. lra.
Qed.
(* projects onto SO(2); the second column of the result is a positive multiple of the second column of the input *)
Lemma trnorm22_SO2 thr R R' : 0 < thr -> trnorm22_m Rops thr R = Some R' ->
  SO2 R' /\ (exists k, 0 < k /\ (let '((_,b),(_,d)) := R' in (b,d)) = (let '((_,r01),(_,r11)) := R in (k*r01, k*r11))).
Proof.
  intros Ht H. destruct R as [[r00 r01] [r10 r11]]. apply trnorm22_some in H. cbv zeta in H. destruct H as [Hn ->].
  pose proof (norm2_sq r01 r11) as Hs. revert Hn Hs. generalize (norm2 Rops (r01,r11)). intros n Hn Hs.
  assert (Hn0 : 0 < n) by lra.
  assert (Hu : (r01/n)*(r01/n)+(r11/n)*(r11/n) = 1) by (apply div_unit2; assumption).
  split.
  - unfold SO2. repeat split; nra.
  - exists (/ n). split; [apply Rinv_0_lt_compat; exact Hn0|]. unfold Rdiv. f_equal; ring.
Qed.
Lemma trnorm22_fixed thr R : thr <= 1 -> SO2 R -> trnorm22_m Rops thr R = Some R.
Proof.
  intros Ht H. destruct R as [[a b] [c d]]. pose proof (SO2_columns _ _ _ _ H) as (Had & Hbc & _).
  unfold SO2 in H. destruct H as (H1 & H2 & H3 & H4).
  assert (Hn : norm2 Rops (b,d) = 1).
  { unfold norm2. cbn [sqrt_ Rops]. apply sqrt_eq_1. nm_simpl. subst a b. nra. }
  unfold trnorm22_m. rewrite unitvec2_defined by lra. rewrite Hn. cbn [vdiv2 div neg Rops]. subst a b.
  apply (f_equal Some). tuple_eq ltac:(field).
Qed.
Lemma trnorm22_idem thr R R' : 0 < thr <= 1 -> trnorm22_m Rops thr R = Some R' -> trnorm22_m Rops thr R' = Some R'.
Proof. intros [H0 H1] H. apply trnorm22_fixed; [exact H1|]. eapply trnorm22_SO2; eauto. Qed.

Lemma SE2_rt (Rm : M22 R) (t : V2 R) : SO2 Rm -> SE2 (rt2tr2 Rops Rm t).
Proof. intros H. destruct_tuples. unfold SE2. nm_simpl. split; [exact H|reflexivity]. Qed.
Lemma SE2_decompose A : SE2 A -> A = rt2tr2 Rops (t2r2 A) (transl2 A).
Proof. intros [_ H]. destruct_tuples. nm_simpl. injection H; intros; subst. reflexivity. Qed.
Lemma trnorm23_some thr A A' : trnorm23_m Rops thr A = Some A' ->
  exists R', trnorm22_m Rops thr (t2r2 A) = Some R' /\ A' = rt2tr2 Rops R' (transl2 A).
Proof.
  unfold trnorm23_m. destruct (trnorm22_m Rops thr (t2r2 A)) as [R'|]; [|discriminate].
  intros H; injection H as <-. exists R'. split; reflexivity.
Qed.
Lemma trnorm23_SE2 thr A A' : 0 < thr -> trnorm23_m Rops thr A = Some A' ->
  SE2 A' /\ transl2 A' = transl2 A /\ trnorm22_m Rops thr (t2r2 A) = Some (t2r2 A').
Proof.
  intros Ht H. apply trnorm23_some in H. destruct H as (R' & H & ->). split; [|split].
  - apply SE2_rt. eapply trnorm22_SO2; eauto.
  - destruct_tuples. nm_simpl. reflexivity.
  - rewrite H. f_equal. destruct_tuples. nm_simpl. reflexivity.
Qed.
Lemma trnorm23_fixed thr A : thr <= 1 -> SE2 A -> trnorm23_m Rops thr A = Some A.
Proof.
  intros Ht H. unfold trnorm23_m. destruct H as [HR HL]. rewrite (trnorm22_fixed thr _ Ht HR).
  f_equal. symmetry. apply SE2_decompose. split; assumption.
Qed.
Lemma trnorm23_idem thr A A' : 0 < thr <= 1 -> trnorm23_m Rops thr A = Some A' -> trnorm23_m Rops thr A' = Some A'.
Proof. intros [H0 H1] H. apply trnorm23_fixed; [exact H1|]. eapply trnorm23_SE2; eauto. Qed.
