(* C03 -- Rodrigues' formula IS the exponential power series, entry by entry (Coquelicot power series over Coq's Reals):
   for a unit axis u and every theta,
        Sum_k  theta^k / k! * ([u]x ^ k)_ij   converges to   (rodrigues_th u theta)_ij .
   This closes, for so(3), the gap left by the ODE characterisation (uniqueness of solutions was not available): the closed
   form the code computes equals exp(theta [u]x) as DEFINED by its series.  sin and cos of Coq's Reals are themselves
   defined as the sums of their power series (Rtrigo_def: exist_cos, exist_sin), which is what the proof uses.
   Fixed file, compiled at setup. *)
From Coq Require Import Reals ZArith Lra Lia Nsatz.
From Coquelicot Require Import Coquelicot.
From SM Require Import Base.Ops Base.Lin Base.RInst Base.RLin Model.C03_ExpLog Model.C03_Lemmas Model.C03_Ode.
Open Scope R_scope.

Fixpoint mpow33 (A : M33 R) (k : nat) : M33 R :=
  match k with O => I33 Rops | S k' => mmul33 Rops A (mpow33 A k') end.

(* coefficient of theta^k in entry (i,j) of the exponential series of theta*A :  (A^k)_ij / k! *)
Definition expm_coeff (A : M33 R) (i j k : nat) : R := e33 (mpow33 A k) i j / INR (fact k).

Definition delta (i j : nat) : R := e33 (I33 Rops) i j.

(* ---- matrix side: powers of a unit skew matrix have period 4 up to sign *)
Lemma skew_cube_scaled (u : V3 R) (c : R) : normsq3 Rops u = 1 ->
  mmul33 Rops (skew3 Rops u) (mmul33 Rops (skew3 Rops u) (mscale33 Rops c (skew3 Rops u))) = mscale33 Rops (- c) (skew3 Rops u).
Proof.
  destruct u as [[u0 u1] u2]. autounfold with smlin. sm_simpl. intro H.
  tuple_eq ltac:(nsatz).
Qed.

Lemma skew_sq_cube_scaled (u : V3 R) (c : R) : normsq3 Rops u = 1 ->
  mmul33 Rops (skew3 Rops u) (mmul33 Rops (skew3 Rops u) (mscale33 Rops c (mmul33 Rops (skew3 Rops u) (skew3 Rops u))))
  = mscale33 Rops (- c) (mmul33 Rops (skew3 Rops u) (skew3 Rops u)).
Proof.
  destruct u as [[u0 u1] u2]. autounfold with smlin. sm_simpl. intro H.
  tuple_eq ltac:(nsatz).
Qed.

Lemma mpow_skew_parity (u : V3 R) : normsq3 Rops u = 1 -> forall n,
  mpow33 (skew3 Rops u) (2 * n + 1) = mscale33 Rops ((-1) ^ n) (skew3 Rops u) /\
  mpow33 (skew3 Rops u) (2 * n + 2) = mscale33 Rops ((-1) ^ n) (mmul33 Rops (skew3 Rops u) (skew3 Rops u)).
Proof.
  intros Hu. induction n as [|n [IHo IHe]].
  - split; cbn [Nat.mul Nat.add mpow33 pow]; destruct u as [[u0 u1] u2]; autounfold with smlin; sm_simpl; tuple_eq ltac:(ring).
  - split.
    + replace (2 * S n + 1)%nat with (S (S (2 * n + 1))) by lia. cbn [mpow33]. rewrite IHo.
      rewrite (skew_cube_scaled u _ Hu). f_equal. simpl. ring.
    + replace (2 * S n + 2)%nat with (S (S (2 * n + 2))) by lia. cbn [mpow33]. rewrite IHe.
      rewrite (skew_sq_cube_scaled u _ Hu). f_equal. simpl. ring.
Qed.

Lemma e33_mscale (c : R) (A : M33 R) i j : e33 (mscale33 Rops c A) i j = c * e33 A i j.
Proof.
  destruct A as [[[[a00 a01] a02] [[a10 a11] a12]] [[a20 a21] a22]]. autounfold with smlin. sm_simpl.
  destruct i as [|[|i]]; destruct j as [|[|j]]; cbn [e33]; ring.
Qed.

(* ---- scalar side: the series that DEFINE cos and sin in Coq's Reals, as Coquelicot series *)
Lemma cos_series (th : R) : is_series (fun n => cos_n n * (th ^ 2) ^ n) (cos th).
Proof.
  apply is_series_Reals. unfold cos. destruct (exist_cos (Rsqr th)) as [a Ha]. unfold cos_in in Ha.
  replace (th ^ 2) with (Rsqr th) by (unfold Rsqr; ring). exact Ha.
Qed.

Lemma sin_series (th : R) : exists a, is_series (fun n => sin_n n * (th ^ 2) ^ n) a /\ sin th = th * a.
Proof.
  unfold sin. destruct (exist_sin (Rsqr th)) as [a Ha]. exists a. split; [|reflexivity].
  apply is_series_Reals. unfold sin_in in Ha. replace (th ^ 2) with (Rsqr th) by (unfold Rsqr; ring). exact Ha.
Qed.

(* a sequence supported at 0 *)
Lemma is_series_at0 (v : R) : is_series (fun n => match n with O => v | S _ => 0 end) v.
Proof.
  apply filterlim_ext with (fun _ : nat => v); [|apply filterlim_const].
  intro n. induction n as [|n IH]; [rewrite sum_O; reflexivity|].
  rewrite sum_Sn, <- IH. unfold plus; simpl. ring.
Qed.

Section Entry.
Variables (u : V3 R) (th : R) (i j : nat).
Hypothesis Hu : normsq3 Rops u = 1.
Let K := skew3 Rops u.
Let K2 := mmul33 Rops K K.

Lemma even_part : is_series (fun n => expm_coeff K i j (2 * n) * (th ^ 2) ^ n) (delta i j + (1 - cos th) * e33 K2 i j).
Proof.
  replace (delta i j + (1 - cos th) * e33 K2 i j) with ((delta i j + e33 K2 i j) + (- e33 K2 i j) * cos th) by ring.
  apply is_series_ext with (fun n => plus (match n with O => delta i j + e33 K2 i j | S _ => 0 end)
                                           (scal (- e33 K2 i j) (cos_n n * (th ^ 2) ^ n))).
  - intro n. symmetry. transitivity ((match n with O => delta i j + e33 K2 i j | S _ => 0 end) + (- e33 K2 i j) * (cos_n n * (th ^ 2) ^ n)); [|reflexivity].
    destruct n as [|m].
    + unfold expm_coeff, delta, cos_n. simpl. field.
    + unfold expm_coeff. replace (2 * S m)%nat with (2 * m + 2)%nat by lia.
      destruct (mpow_skew_parity u Hu m) as [_ He]. fold K in He. rewrite He. rewrite e33_mscale. fold K2.
      unfold cos_n. replace (2 * m + 2)%nat with (2 * S m)%nat by lia.
      assert (Hf : INR (fact (2 * S m)) <> 0) by apply INR_fact_neq_0.
      change ((-1) ^ S m) with (-1 * (-1) ^ m).
      generalize dependent (INR (fact (2 * S m))). generalize ((th ^ 2) ^ S m) ((-1) ^ m) (e33 K2 i j).
      intros r0 r1 r2 r3 Hr3. match goal with |- ?a = ?b => change (@eq R a b) end. field. exact Hr3.
  - apply (is_series_plus _ _ (delta i j + e33 K2 i j) ((- e33 K2 i j) * cos th)).
    + apply is_series_at0.
    + apply (is_series_scal (- e33 K2 i j) _ (cos th)). apply cos_series.
Qed.

Lemma odd_part : exists a, is_series (fun n => expm_coeff K i j (2 * n + 1) * (th ^ 2) ^ n) (e33 K i j * a) /\ sin th = th * a.
Proof.
  destruct (sin_series th) as [a [Ha Hs]]. exists a. split; [|exact Hs].
  apply is_series_ext with (fun n => scal (e33 K i j) (sin_n n * (th ^ 2) ^ n)).
  - intro n. symmetry. transitivity (e33 K i j * (sin_n n * (th ^ 2) ^ n)); [|reflexivity]. unfold expm_coeff.
    destruct (mpow_skew_parity u Hu n) as [Ho _]. fold K in Ho. rewrite Ho, e33_mscale. unfold sin_n.
    assert (Hf : INR (fact (2 * n + 1)) <> 0) by apply INR_fact_neq_0.
    match goal with |- ?a = ?b => change (@eq R a b) end. field. exact Hf.
  - apply (is_series_scal (e33 K i j) _ a). exact Ha.
Qed.

Lemma e33_rodrigues : (i < 3)%nat -> (j < 3)%nat ->
  e33 (rodrigues_th Rops u th) i j = delta i j + sin th * e33 K i j + (1 - cos th) * e33 K2 i j.
Proof.
  intros Hi Hj. unfold K2, K, delta, rodrigues_th. destruct u as [[u0 u1] u2]. autounfold with c03 smlin. sm_simpl.
  destruct i as [|[|[|i']]]; try lia; destruct j as [|[|[|j']]]; try lia; cbn [e33]; ring.
Qed.

Theorem rodrigues_is_expm_series : (i < 3)%nat -> (j < 3)%nat ->
  is_pseries (expm_coeff K i j) th (e33 (rodrigues_th Rops u th) i j).
Proof.
  intros Hi Hj. rewrite (e33_rodrigues Hi Hj).
  destruct odd_part as [a [Ho Hs]].
  replace (delta i j + sin th * e33 K i j + (1 - cos th) * e33 K2 i j)
    with ((delta i j + (1 - cos th) * e33 K2 i j) + th * (e33 K i j * a)) by (rewrite Hs; ring).
  apply is_pseries_odd_even; apply is_pseries_R; [exact even_part | exact Ho].
Qed.
End Entry.
