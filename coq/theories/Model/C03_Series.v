(* C03 -- Rodrigues' formula IS the exponential power series, entry by entry (Coquelicot power series over Coq's Reals):
   for a unit axis u and every theta,
        Sum_k  theta^k / k! * ([u]x ^ k)_ij   converges to   (rodrigues_th u theta)_ij .
   This closes, for so(3), the gap left by the ODE characterisation (uniqueness of solutions was not available): the closed
   form the code computes equals exp(theta [u]x) as DEFINED by its series.  sin and cos of Coq's Reals are themselves
   defined as the sums of their power series (Rtrigo_def: exist_cos, exist_sin), which is what the proof uses.
   Fixed file, compiled at setup. *)
From Coq Require Import Reals ZArith Lra Lia Nsatz.
From Coquelicot Require Import Coquelicot.
From SM Require Import Base.Ops Base.Lin Base.RInst Base.RLin Model.C03_ExpLog Model.C03_Lemmas Model.C03_Ode.
Open Scope R_scope.

Fixpoint mpow33 (A : M33 R) (k : nat) : M33 R :=
  match k with O => I33 Rops | S k' => mmul33 Rops A (mpow33 A k') end.

(* coefficient of theta^k in entry (i,j) of the exponential series of theta*A :  (A^k)_ij / k! *)
Definition expm_coeff (A : M33 R) (i j k : nat) : R := e33 (mpow33 A k) i j / INR (fact k).

Definition delta (i j : nat) : R := e33 (I33 Rops) i j.

(* ---- matrix side: powers of a unit skew matrix have period 4 up to sign *)
Lemma skew_cube_scaled (u : V3 R) (c : R) : normsq3 Rops u = 1 ->
  mmul33 Rops (skew3 Rops u) (mmul33 Rops (skew3 Rops u) (mscale33 Rops c (skew3 Rops u))) = mscale33 Rops (- c) (skew3 Rops u).
Proof.
  destruct u as [[u0 u1] u2]. autounfold with smlin. sm_simpl. intro H.
  tuple_eq ltac:(nsatz).
Qed.

Lemma skew_sq_cube_scaled (u : V3 R) (c : R) : normsq3 Rops u = 1 ->
  mmul33 Rops (skew3 Rops u) (mmul33 Rops (skew3 Rops u) (mscale33 Rops c (mmul33 Rops (skew3 Rops u) (skew3 Rops u))))
  = mscale33 Rops (- c) (mmul33 Rops (skew3 Rops u) (skew3 Rops u)).
Proof.
  destruct u as [[u0 u1] u2]. autounfold with smlin. sm_simpl. intro H.
  tuple_eq ltac:(nsatz).
Qed.

Lemma mpow_skew_parity (u : V3 R) : normsq3 Rops u = 1 -> forall n,
  mpow33 (skew3 Rops u) (2 * n + 1) = mscale33 Rops ((-1) ^ n) (skew3 Rops u) /\
  mpow33 (skew3 Rops u) (2 * n + 2) = mscale33 Rops ((-1) ^ n) (mmul33 Rops (skew3 Rops u) (skew3 Rops u)).
Proof.
  intros Hu. induction n as [|n [IHo IHe]].
  - split; cbn [Nat.mul Nat.add mpow33 pow]; destruct u as [[u0 u1] u2]; autounfold with smlin; sm_simpl; tuple_eq ltac:(ring).
  - split.
    + replace (2 * S n + 1)%nat with (S (S (2 * n + 1))) by lia. cbn [mpow33]. rewrite IHo.
      rewrite (skew_cube_scaled u _ Hu). f_equal. simpl. ring.
    + replace (2 * S n + 2)%nat with (S (S (2 * n + 2))) by lia. cbn [mpow33]. rewrite IHe.
      rewrite (skew_sq_cube_scaled u _ Hu). f_equal. simpl. ring.
Qed.

Lemma e33_mscale (c : R) (A : M33 R) i j : e33 (mscale33 Rops c A) i j = c * e33 A i j.
Proof.
  destruct A as [[[[a00 a01] a02] [[a10 a11] a12]] [[a20 a21] a22]]. autounfold with smlin. sm_simpl.
  destruct i as [|[|i]]; destruct j as [|[|j]]; cbn [e33]; ring.
Qed.

(* ---- scalar side: the series that DEFINE cos and sin in Coq's Reals, as Coquelicot series *)
Lemma cos_series (th : R) : is_series (fun n => cos_n n * (th ^ 2) ^ n) (cos th).
Proof.
  apply is_series_Reals. unfold cos. destruct (exist_cos (Rsqr th)) as [a Ha]. unfold cos_in in Ha.
  replace (th ^ 2) with (Rsqr th) by (unfold Rsqr; ring). exact Ha.
Qed.

Lemma sin_series (th : R) : exists a, is_series (fun n => sin_n n * (th ^ 2) ^ n) a /\ sin th = th * a.
Proof.
  unfold sin. destruct (exist_sin (Rsqr th)) as [a Ha]. exists a. split; [|reflexivity].
  apply is_series_Reals. unfold sin_in in Ha. replace (th ^ 2) with (Rsqr th) by (unfold Rsqr; ring). exact Ha.
Qed.

(* a sequence supported at 0 *)
Lemma is_series_at0 (v : R) : is_series (fun n => match n with O => v | S _ => 0 end) v.
Proof.
  apply filterlim_ext with (fun _ : nat => v); [|apply filterlim_const].
  intro n. induction n as [|n IH]; [rewrite sum_O; reflexivity|].
  rewrite sum_Sn, <- IH. unfold plus; simpl. ring.
Qed.

Section Entry.
Variables (u : V3 R) (th : R) (i j : nat).
Hypothesis Hu : normsq3 Rops u = 1.
Let K := skew3 Rops u.
Let K2 := mmul33 Rops K K.

Lemma even_part : is_series (fun n => expm_coeff K i j (2 * n) * (th ^ 2) ^ n) (delta i j + (1 - cos th) * e33 K2 i j).
Proof.
  replace (delta i j + (1 - cos th) * e33 K2 i j) with ((delta i j + e33 K2 i j) + (- e33 K2 i j) * cos th) by ring.
  apply is_series_ext with (fun n => plus (match n with O => delta i j + e33 K2 i j | S _ => 0 end)
                                           (scal (- e33 K2 i j) (cos_n n * (th ^ 2) ^ n))).
  - intro n. symmetry. transitivity ((match n with O => delta i j + e33 K2 i j | S _ => 0 end) + (- e33 K2 i j) * (cos_n n * (th ^ 2) ^ n)); [|reflexivity].
    destruct n as [|m].
    + unfold expm_coeff, delta, cos_n. simpl. field.
    + unfold expm_coeff. replace (2 * S m)%nat with (2 * m + 2)%nat by lia.
      destruct (mpow_skew_parity u Hu m) as [_ He]. fold K in He. rewrite He. rewrite e33_mscale. fold K2.
      unfold cos_n. replace (2 * m + 2)%nat with (2 * S m)%nat by lia.
      assert (Hf : INR (fact (2 * S m)) <> 0) by apply INR_fact_neq_0.
      change ((-1) ^ S m) with (-1 * (-1) ^ m).
      generalize dependent (INR (fact (2 * S m))). generalize ((th ^ 2) ^ S m) ((-1) ^ m) (e33 K2 i j).
      intros r0 r1 r2 r3 Hr3. match goal with |- ?a = ?b => change (@eq R a b) end. field. exact Hr3.
  - apply (is_series_plus _ _ (delta i j + e33 K2 i j) ((- e33 K2 i j) * cos th)).
    + apply is_series_at0.
    + apply (is_series_scal (- e33 K2 i j) _ (cos th)). apply cos_series.
Qed.

Lemma odd_part : exists a, is_series (fun n => expm_coeff K i j (2 * n + 1) * (th ^ 2) ^ n) (e33 K i j * a) /\ sin th = th * a.
Proof.
  destruct (sin_series th) as [a [Ha Hs]]. exists a. split; [|exact Hs].
  apply is_series_ext with (fun n => scal (e33 K i j) (sin_n n * (th ^ 2) ^ n)).
  - intro n. symmetry. transitivity (e33 K i j * (sin_n n * (th ^ 2) ^ n)); [|reflexivity]. unfold expm_coeff.
    destruct (mpow_skew_parity u Hu n) as [Ho _]. fold K in Ho. rewrite Ho, e33_mscale. unfold sin_n.
    assert (Hf : INR (fact (2 * n + 1)) <> 0) by apply INR_fact_neq_0.
    match goal with |- ?a = ?b => change (@eq R a b) end. field. exact Hf.
  - apply (is_series_scal (e33 K i j) _ a). exact Ha.
Qed.

Lemma e33_rodrigues : (i < 3)%nat -> (j < 3)%nat ->
  e33 (rodrigues_th Rops u th) i j = delta i j + sin th * e33 K i j + (1 - cos th) * e33 K2 i j.
Proof.
  intros Hi Hj. unfold K2, K, delta, rodrigues_th. destruct u as [[u0 u1] u2]. autounfold with c03 smlin. sm_simpl.
  destruct i as [|[|[|i']]]; try lia; destruct j as [|[|[|j']]]; try lia; cbn [e33]; ring.
Qed.

Theorem rodrigues_is_expm_series : (i < 3)%nat -> (j < 3)%nat ->
  is_pseries (expm_coeff K i j) th (e33 (rodrigues_th Rops u th) i j).
Proof.
  intros Hi Hj. rewrite (e33_rodrigues Hi Hj).
  destruct odd_part as [a [Ho Hs]].
  replace (delta i j + sin th * e33 K i j + (1 - cos th) * e33 K2 i j)
    with ((delta i j + (1 - cos th) * e33 K2 i j) + th * (e33 K i j * a)) by (rewrite Hs; ring).
  apply is_pseries_odd_even; apply is_pseries_R; [exact even_part | exact Ho].
Qed.
End Entry.

(* ===================================================================================================================
   se(3): trexp on a unit twist S = (v, w), |w| = 1, equals the exponential series of theta [S] (4x4), entry by entry.
   [S]^k = [[K^k, K^(k-1) v], [0, 0]] for k >= 1, so the rotation block is the so(3) series above and the translation
   column is   Sum_{k>=1} theta^k/k! K^(k-1) v = (theta I + (1 - cos theta) K + (theta - sin theta) K^2) v = Vmat v.
   =================================================================================================================== *)
Ltac req := match goal with |- ?a = ?b => change (@eq R a b) end.

Fixpoint mpow44 (A : M44 R) (k : nat) : M44 R :=
  match k with O => I44 Rops | S k' => mmul44 Rops A (mpow44 A k') end.
Definition expm_coeff44 (A : M44 R) (i j k : nat) : R := e44 (mpow44 A k) i j / INR (fact k).
Definition e3 (p : V3 R) (i : nat) : R := let '(p0,p1,p2) := p in match i with 0%nat => p0 | 1%nat => p1 | _ => p2 end.

Lemma hat_mul_Ab v0 v1 v2 w0 w1 w2 (M : M33 R) (p : V3 R) :
  mmul44 Rops (se3_hat (v0,v1,v2,w0,w1,w2)) (Ab2M Rops M p) =
  Ab2M Rops (mmul33 Rops (skew3 Rops (w0,w1,w2)) M) (mv33 Rops (skew3 Rops (w0,w1,w2)) p).
Proof.
  destruct M as [[[[a00 a01] a02] [[a10 a11] a12]] [[a20 a21] a22]]. destruct p as [[p0 p1] p2].
  unfold se3_hat. c03_simpl. tuple_eq ltac:(ring).
Qed.

Lemma mv33_mmul (A B : M33 R) (x : V3 R) : mv33 Rops (mmul33 Rops A B) x = mv33 Rops A (mv33 Rops B x).
Proof. lin_ring. Qed.
Lemma mv33_I (x : V3 R) : mv33 Rops (I33 Rops) x = x.
Proof. lin_ring. Qed.
Lemma mmul33_I_r (A : M33 R) : mmul33 Rops A (I33 Rops) = A.
Proof. lin_ring. Qed.

Lemma mpow44_hat v0 v1 v2 w0 w1 w2 k :
  mpow44 (se3_hat (v0,v1,v2,w0,w1,w2)) (S k) =
  Ab2M Rops (mpow33 (skew3 Rops (w0,w1,w2)) (S k)) (mv33 Rops (mpow33 (skew3 Rops (w0,w1,w2)) k) (v0,v1,v2)).
Proof.
  induction k as [|k IH].
  - cbn [mpow44 mpow33]. rewrite mmul33_I_r, mv33_I. unfold se3_hat. c03_simpl. tuple_eq ltac:(ring).
  - change (mpow44 ?A (S (S k))) with (mmul44 Rops A (mpow44 A (S k))). rewrite IH, hat_mul_Ab.
    f_equal. cbn [mpow33]. rewrite mv33_mmul. reflexivity.
Qed.

Lemma e3_mv_mscale (c : R) (A : M33 R) (x : V3 R) i : e3 (mv33 Rops (mscale33 Rops c A) x) i = c * e3 (mv33 Rops A x) i.
Proof.
  destruct A as [[[[a00 a01] a02] [[a10 a11] a12]] [[a20 a21] a22]]. destruct x as [[x0 x1] x2]. c03_simpl.
  destruct i as [|[|i]]; cbn [e3]; ring.
Qed.

Lemma e44_Ab2M_rot (M : M33 R) (p : V3 R) i j : (i < 3)%nat -> (j < 3)%nat -> e44 (Ab2M Rops M p) i j = e33 M i j.
Proof.
  intros Hi Hj. destruct M as [[[[a00 a01] a02] [[a10 a11] a12]] [[a20 a21] a22]]. destruct p as [[p0 p1] p2]. c03_simpl.
  destruct i as [|[|[|i]]]; try lia; destruct j as [|[|[|j]]]; try lia; reflexivity.
Qed.
Lemma e44_Ab2M_col (M : M33 R) (p : V3 R) i : (i < 3)%nat -> e44 (Ab2M Rops M p) i 3 = e3 p i.
Proof.
  intros Hi. destruct M as [[[[a00 a01] a02] [[a10 a11] a12]] [[a20 a21] a22]]. destruct p as [[p0 p1] p2]. c03_simpl.
  destruct i as [|[|[|i]]]; try lia; reflexivity.
Qed.
Lemma e44_Ab2M_last (M : M33 R) (p : V3 R) j : e44 (Ab2M Rops M p) 3 j = 0.
Proof.
  destruct M as [[[[a00 a01] a02] [[a10 a11] a12]] [[a20 a21] a22]]. destruct p as [[p0 p1] p2]. c03_simpl.
  destruct j as [|[|[|j]]]; reflexivity.
Qed.

(* generic shapes: c0 at n = 0 plus (-d) times the cos / sin coefficients *)
Lemma series_cos_shape (th c0 d : R) (f : nat -> R) :
  f 0%nat = c0 -> (forall m, f (S m) = - d * cos_n (S m)) ->
  is_series (fun n => f n * (th ^ 2) ^ n) (c0 + d * (1 - cos th)).
Proof.
  intros H0 HS. replace (c0 + d * (1 - cos th)) with ((c0 + d) + (- d) * cos th) by ring.
  apply is_series_ext with (fun n => plus (match n with O => c0 + d | S _ => 0 end) (scal (- d) (cos_n n * (th ^ 2) ^ n))).
  - intro n. symmetry. transitivity ((match n with O => c0 + d | S _ => 0 end) + (- d) * (cos_n n * (th ^ 2) ^ n)); [|reflexivity].
    destruct n as [|m]; [rewrite H0; unfold cos_n; req; simpl; field | rewrite HS; req; ring].
  - apply (is_series_plus _ _ (c0 + d) ((- d) * cos th)); [apply is_series_at0|].
    apply (is_series_scal (- d) _ (cos th)). apply cos_series.
Qed.

Lemma series_sin_shape (th c0 d : R) (f : nat -> R) :
  f 0%nat = c0 -> (forall m, f (S m) = - d * sin_n (S m)) ->
  exists a, is_series (fun n => f n * (th ^ 2) ^ n) (c0 + d - d * a) /\ sin th = th * a.
Proof.
  intros H0 HS. destruct (sin_series th) as [a [Ha Hs]]. exists a. split; [|exact Hs].
  replace (c0 + d - d * a) with ((c0 + d) + (- d) * a) by ring.
  apply is_series_ext with (fun n => plus (match n with O => c0 + d | S _ => 0 end) (scal (- d) (sin_n n * (th ^ 2) ^ n))).
  - intro n. symmetry. transitivity ((match n with O => c0 + d | S _ => 0 end) + (- d) * (sin_n n * (th ^ 2) ^ n)); [|reflexivity].
    destruct n as [|m]; [rewrite H0; unfold sin_n; req; simpl; field | rewrite HS; req; ring].
  - apply (is_series_plus _ _ (c0 + d) ((- d) * a)); [apply is_series_at0|].
    apply (is_series_scal (- d) _ a). exact Ha.
Qed.

Section SE3series.
Variables (Kt : thr) (v0 v1 v2 w0 w1 w2 th : R).
Let tw : V6 R := (v0,v1,v2,w0,w1,w2).
Let w : V3 R := (w0,w1,w2).
Let v : V3 R := (v0,v1,v2).
Let K := skew3 Rops w.
Let K2 := mmul33 Rops K K.
Hypothesis HK : thr_ok Kt.
Hypothesis Hw : normsq3 Rops w = 1.

(* translation column, row i < 3 *)
Lemma col_even i : (i < 3)%nat ->
  is_series (fun n => expm_coeff44 (se3_hat tw) i 3 (2 * n) * (th ^ 2) ^ n) (0 + e3 (mv33 Rops K v) i * (1 - cos th)).
Proof.
  intros Hi. apply series_cos_shape.
  - unfold expm_coeff44. cbn [Nat.mul mpow44 fact]. unfold I44. sm_simpl.
    destruct i as [|[|[|i]]]; try lia; cbn [e44]; simpl; field.
  - intro m. unfold expm_coeff44, tw. replace (2 * S m)%nat with (S (2 * m + 1)) by lia. rewrite mpow44_hat.
    rewrite (e44_Ab2M_col _ _ i Hi). destruct (mpow_skew_parity w Hw m) as [Ho _]. fold w. rewrite Ho. fold K v.
    rewrite e3_mv_mscale. unfold cos_n. replace (S (2 * m + 1)) with (2 * S m)%nat by lia.
    assert (Hf : INR (fact (2 * S m)) <> 0) by apply INR_fact_neq_0.
    change ((-1) ^ S m) with (-1 * (-1) ^ m).
    generalize dependent (INR (fact (2 * S m))). generalize ((-1) ^ m) (e3 (mv33 Rops K v) i). intros r1 r2 r3 Hr3. req. field. exact Hr3.
Qed.

Lemma col_odd i : (i < 3)%nat -> exists a,
  is_series (fun n => expm_coeff44 (se3_hat tw) i 3 (2 * n + 1) * (th ^ 2) ^ n) (e3 v i + e3 (mv33 Rops K2 v) i - e3 (mv33 Rops K2 v) i * a)
  /\ sin th = th * a.
Proof.
  intros Hi. apply series_sin_shape.
  - unfold expm_coeff44, tw. cbn [Nat.mul Nat.add]. rewrite mpow44_hat. rewrite (e44_Ab2M_col _ _ i Hi). cbn [mpow33]. rewrite mv33_I.
    fold v. simpl. field.
  - intro m. unfold expm_coeff44, tw. replace (2 * S m + 1)%nat with (S (2 * m + 2)) by lia. rewrite mpow44_hat.
    rewrite (e44_Ab2M_col _ _ i Hi). destruct (mpow_skew_parity w Hw m) as [_ He]. fold w. rewrite He. fold K K2 v.
    rewrite e3_mv_mscale. unfold sin_n. replace (S (2 * m + 2)) with (2 * S m + 1)%nat by lia.
    assert (Hf : INR (fact (2 * S m + 1)) <> 0) by apply INR_fact_neq_0.
    change ((-1) ^ S m) with (-1 * (-1) ^ m).
    generalize dependent (INR (fact (2 * S m + 1))). generalize ((-1) ^ m) (e3 (mv33 Rops K2 v) i). intros r1 r2 r3 Hr3. req. field. exact Hr3.
Qed.

Lemma e3_Vmat_v i : (i < 3)%nat ->
  e3 (mv33 Rops (Vmat Rops w th) v) i = th * e3 v i + (1 - cos th) * e3 (mv33 Rops K v) i + (th - sin th) * e3 (mv33 Rops K2 v) i.
Proof.
  intros Hi. unfold K2, K, v, w, Vmat. cbn [cos_ sin_ Rops]. generalize (cos th) (sin th). intros c s. c03_simpl.
  destruct i as [|[|[|i]]]; try lia; cbn [e3]; ring.
Qed.

Lemma e44_trexp_unit_rot i j : (i < 3)%nat -> (j < 3)%nat -> e44 (trexp_unit Rops Kt tw th) i j = e33 (rodrigues_th Rops w th) i j.
Proof.
  intros Hi Hj. unfold tw, trexp_unit. rewrite rodrigues3_with_unit by assumption. fold w.
  destruct (rodrigues_th Rops w th) as [[[[a00 a01] a02] [[a10 a11] a12]] [[a20 a21] a22]].
  destruct (mv33 Rops (Vmat Rops (w0, w1, w2) th) (v0, v1, v2)) as [[p0 p1] p2]. c03_simpl.
  destruct i as [|[|[|i]]]; try lia; destruct j as [|[|[|j]]]; try lia; reflexivity.
Qed.

(* rotation block: the 4x4 coefficients are the 3x3 ones *)
Lemma coeff44_rot i j k : (i < 3)%nat -> (j < 3)%nat -> expm_coeff44 (se3_hat tw) i j k = expm_coeff K i j k.
Proof.
  intros Hi Hj. unfold expm_coeff44, expm_coeff, tw. destruct k as [|k].
  - cbn [mpow44 mpow33]. unfold I44, I33. sm_simpl.
    destruct i as [|[|[|i]]]; try lia; destruct j as [|[|[|j]]]; try lia; reflexivity.
  - rewrite mpow44_hat. rewrite (e44_Ab2M_rot _ _ i j Hi Hj). reflexivity.
Qed.

Lemma e44_trexp_unit_col i : (i < 3)%nat -> e44 (trexp_unit Rops Kt tw th) i 3 = e3 (mv33 Rops (Vmat Rops w th) v) i.
Proof.
  intros Hi. unfold tw, trexp_unit. fold w v.
  destruct (rodrigues3_with Rops Kt w th) as [[[[a00 a01] a02] [[a10 a11] a12]] [[a20 a21] a22]].
  destruct (mv33 Rops (Vmat Rops w th) v) as [[p0 p1] p2]. c03_simpl.
  destruct i as [|[|[|i]]]; try lia; reflexivity.
Qed.

Lemma e44_trexp_unit_last j : e44 (trexp_unit Rops Kt tw th) 3 j = e44 (I44 Rops) 3 j.
Proof.
  unfold tw, trexp_unit.
  destruct (rodrigues3_with Rops Kt (w0, w1, w2) th) as [[[[a00 a01] a02] [[a10 a11] a12]] [[a20 a21] a22]].
  destruct (mv33 Rops (Vmat Rops (w0, w1, w2) th) (v0, v1, v2)) as [[p0 p1] p2]. c03_simpl.
  destruct j as [|[|[|j]]]; reflexivity.
Qed.

Theorem trexp_unit_is_expm_series i j : (i < 4)%nat -> (j < 4)%nat ->
  is_pseries (expm_coeff44 (se3_hat tw) i j) th (e44 (trexp_unit Rops Kt tw th) i j).
Proof.
  intros Hi Hj.
  destruct (Nat.eq_dec i 3) as [-> | Hi3].
  - (* last row: only the k = 0 term *)
    rewrite e44_trexp_unit_last. apply is_pseries_R.
    apply is_series_ext with (fun n => match n with O => e44 (I44 Rops) 3 j | S _ => 0 end); [|apply is_series_at0].
    intros [|k]; unfold expm_coeff44.
    + cbn [mpow44 fact pow]. req. simpl. field.
    + unfold tw. rewrite mpow44_hat, e44_Ab2M_last. req. unfold Rdiv. ring.
  - assert (Hi' : (i < 3)%nat) by lia. destruct (Nat.eq_dec j 3) as [-> | Hj3].
    + (* translation column *)
      rewrite (e44_trexp_unit_col i Hi'), (e3_Vmat_v i Hi').
      destruct (col_odd i Hi') as [a [Ho Hs]].
      replace (th * e3 v i + (1 - cos th) * e3 (mv33 Rops K v) i + (th - sin th) * e3 (mv33 Rops K2 v) i)
        with ((0 + e3 (mv33 Rops K v) i * (1 - cos th)) + th * (e3 v i + e3 (mv33 Rops K2 v) i - e3 (mv33 Rops K2 v) i * a))
        by (rewrite Hs; ring).
      apply is_pseries_odd_even; apply is_pseries_R; [exact (col_even i Hi') | exact Ho].
    + (* rotation block *)
      assert (Hj' : (j < 3)%nat) by lia. rewrite (e44_trexp_unit_rot i j Hi' Hj').
      apply is_pseries_ext with (expm_coeff K i j); [intro k; symmetry; apply coeff44_rot; assumption|].
      exact (rodrigues_is_expm_series w th i j Hw Hi' Hj').
Qed.
End SE3series.

(* ===================================================================================================================
   Generic form: ANY 3x3 matrix A with A^3 = -A (in the scaled forms below) has
        Sum_k theta^k/k! (A^k)_ij = delta_ij + sin theta A_ij + (1 - cos theta) (A^2)_ij .
   Instance: the 3x3 matrix [S] of a unit se(2) twist S = (t0, t1, w), w = +-1  (trexp2).
   =================================================================================================================== *)
Section Cube.
Variables (A : M33 R) (th : R) (i j : nat).
Let A2 := mmul33 Rops A A.
Hypothesis Hc1 : forall c, mmul33 Rops A (mmul33 Rops A (mscale33 Rops c A)) = mscale33 Rops (- c) A.
Hypothesis Hc2 : forall c, mmul33 Rops A (mmul33 Rops A (mscale33 Rops c A2)) = mscale33 Rops (- c) A2.

Lemma mpow_cube_parity : forall n,
  mpow33 A (2 * n + 1) = mscale33 Rops ((-1) ^ n) A /\ mpow33 A (2 * n + 2) = mscale33 Rops ((-1) ^ n) A2.
Proof.
  induction n as [|n [IHo IHe]].
  - unfold A2. split; cbn [Nat.mul Nat.add mpow33 pow]; destruct A as [[[[a00 a01] a02] [[a10 a11] a12]] [[a20 a21] a22]];
      autounfold with smlin; sm_simpl; tuple_eq ltac:(ring).
  - split.
    + replace (2 * S n + 1)%nat with (S (S (2 * n + 1))) by lia. cbn [mpow33]. rewrite IHo, Hc1. f_equal. simpl. ring.
    + replace (2 * S n + 2)%nat with (S (S (2 * n + 2))) by lia. cbn [mpow33]. rewrite IHe, Hc2. f_equal. simpl. ring.
Qed.

Theorem cube_is_expm_series : (i < 3)%nat -> (j < 3)%nat ->
  is_pseries (expm_coeff A i j) th (delta i j + sin th * e33 A i j + (1 - cos th) * e33 A2 i j).
Proof.
  intros Hi Hj.
  assert (Hev : is_series (fun n => expm_coeff A i j (2 * n) * (th ^ 2) ^ n) (delta i j + e33 A2 i j * (1 - cos th))).
  { apply series_cos_shape.
    - unfold expm_coeff, delta. cbn [Nat.mul mpow33 fact]. req. simpl. field.
    - intro m. unfold expm_coeff. replace (2 * S m)%nat with (2 * m + 2)%nat by lia.
      destruct (mpow_cube_parity m) as [_ He]. rewrite He, e33_mscale. unfold cos_n.
      replace (2 * m + 2)%nat with (2 * S m)%nat by lia.
      assert (Hf : INR (fact (2 * S m)) <> 0) by apply INR_fact_neq_0.
      change ((-1) ^ S m) with (-1 * (-1) ^ m).
      generalize dependent (INR (fact (2 * S m))). generalize ((-1) ^ m) (e33 A2 i j). intros r1 r2 r3 Hr3. req. field. exact Hr3. }
  destruct (sin_series th) as [a [Ha Hs]].
  assert (Hod : is_series (fun n => expm_coeff A i j (2 * n + 1) * (th ^ 2) ^ n) (e33 A i j * a)).
  { apply is_series_ext with (fun n => scal (e33 A i j) (sin_n n * (th ^ 2) ^ n)).
    - intro n. symmetry. transitivity (e33 A i j * (sin_n n * (th ^ 2) ^ n)); [|reflexivity]. unfold expm_coeff.
      destruct (mpow_cube_parity n) as [Ho _]. rewrite Ho, e33_mscale. unfold sin_n.
      assert (Hf : INR (fact (2 * n + 1)) <> 0) by apply INR_fact_neq_0. req. field. exact Hf.
    - apply (is_series_scal (e33 A i j) _ a). exact Ha. }
  replace (delta i j + sin th * e33 A i j + (1 - cos th) * e33 A2 i j)
    with ((delta i j + e33 A2 i j * (1 - cos th)) + th * (e33 A i j * a)) by (rewrite Hs; ring).
  apply is_pseries_odd_even; apply is_pseries_R; assumption.
Qed.
End Cube.

Section SE2series.
Variables (Kt : thr) (t0 t1 w th : R).
Let tw : V3 R := (t0,t1,w).
Hypothesis HK : thr_ok Kt.
Hypothesis Hw : w * w = 1.

Lemma se2_hat_cube1 c : mmul33 Rops (se2_hat tw) (mmul33 Rops (se2_hat tw) (mscale33 Rops c (se2_hat tw))) = mscale33 Rops (- c) (se2_hat tw).
Proof. unfold tw, se2_hat. autounfold with smlin. sm_simpl. tuple_eq ltac:(nsatz). Qed.
Lemma se2_hat_cube2 c :
  mmul33 Rops (se2_hat tw) (mmul33 Rops (se2_hat tw) (mscale33 Rops c (mmul33 Rops (se2_hat tw) (se2_hat tw))))
  = mscale33 Rops (- c) (mmul33 Rops (se2_hat tw) (se2_hat tw)).
Proof. unfold tw, se2_hat. autounfold with smlin. sm_simpl. tuple_eq ltac:(nsatz). Qed.

Lemma e33_trexp2_unit i j : (i < 3)%nat -> (j < 3)%nat ->
  e33 (trexp2_unit Rops Kt tw th) i j =
  delta i j + sin th * e33 (se2_hat tw) i j + (1 - cos th) * e33 (mmul33 Rops (se2_hat tw) (se2_hat tw)) i j.
Proof.
  intros Hi Hj. unfold tw, trexp2_unit. rewrite rodrigues1_with_unit by assumption.
  unfold delta, se2_hat, rodrigues1_th, Vmat2. cbn [cos_ sin_ Rops]. generalize (cos th) (sin th). intros c s. c03_simpl.
  pose proof Hw as Hw'. clear HK.
  destruct i as [|[|[|i]]]; try lia; destruct j as [|[|[|j]]]; try lia; cbn [e33]; clear Hi Hj; nsatz.
Qed.

Theorem trexp2_unit_is_expm_series i j : (i < 3)%nat -> (j < 3)%nat ->
  is_pseries (expm_coeff (se2_hat tw) i j) th (e33 (trexp2_unit Rops Kt tw th) i j).
Proof.
  intros Hi Hj. rewrite (e33_trexp2_unit i j Hi Hj).
  exact (cube_is_expm_series (se2_hat tw) th i j se2_hat_cube1 se2_hat_cube2 Hi Hj).
Qed.
End SE2series.

(* ===================================================================================================================
   Non-unit generators: the exponential of the matrix W = theta * [u] itself (series at x = 1).
   (theta A)^k = theta^k A^k, so  Sum_k (W^k)_ij / k!  is the same series as  Sum_k theta^k (A^k)_ij / k! .
   =================================================================================================================== *)
Lemma mmul33_scale_l (c : R) (A B : M33 R) : mmul33 Rops (mscale33 Rops c A) B = mscale33 Rops c (mmul33 Rops A B).
Proof. lin_ring. Qed.
Lemma mscale33_mscale (c d : R) (A : M33 R) : mscale33 Rops c (mscale33 Rops d A) = mscale33 Rops (c * d) A.
Proof. lin_ring. Qed.
Lemma mmul33_scale_r (c : R) (A B : M33 R) : mmul33 Rops A (mscale33 Rops c B) = mscale33 Rops c (mmul33 Rops A B).
Proof. lin_ring. Qed.
Lemma mscale33_one (A : M33 R) : mscale33 Rops 1 A = A.
Proof. lin_ring. Qed.

Lemma mpow33_scale (c : R) (A : M33 R) k : mpow33 (mscale33 Rops c A) k = mscale33 Rops (c ^ k) (mpow33 A k).
Proof.
  induction k as [|k IH]; cbn [mpow33 pow]; [symmetry; apply mscale33_one|].
  rewrite IH, mmul33_scale_l, mmul33_scale_r, mscale33_mscale. reflexivity.
Qed.

Lemma skew3_scale (c : R) (u : V3 R) : skew3 Rops (vscale3 Rops c u) = mscale33 Rops c (skew3 Rops u).
Proof. destruct u as [[u0 u1] u2]. autounfold with smlin. sm_simpl. tuple_eq ltac:(ring). Qed.

Theorem rodrigues_is_exp_of_scaled_generator (u : V3 R) (th : R) (i j : nat) :
  normsq3 Rops u = 1 -> (i < 3)%nat -> (j < 3)%nat ->
  is_pseries (expm_coeff (skew3 Rops (vscale3 Rops th u)) i j) 1 (e33 (rodrigues_th Rops u th) i j).
Proof.
  intros Hu Hi Hj. apply is_pseries_R.
  apply is_series_ext with (fun n => expm_coeff (skew3 Rops u) i j n * th ^ n).
  - intro n. unfold expm_coeff. rewrite skew3_scale, mpow33_scale, e33_mscale, pow1. req. unfold Rdiv. ring.
  - apply is_pseries_R. exact (rodrigues_is_expm_series u th i j Hu Hi Hj).
Qed.

(* se(3): the exponential series of the 4x4 matrix [theta S] itself (x = 1), S a unit twist *)
Definition mscale44 (c : R) (A : M44 R) : M44 R :=
  let '((a00,a01,a02,a03),(a10,a11,a12,a13),(a20,a21,a22,a23),(a30,a31,a32,a33)) := A in
  ((c*a00,c*a01,c*a02,c*a03),(c*a10,c*a11,c*a12,c*a13),(c*a20,c*a21,c*a22,c*a23),(c*a30,c*a31,c*a32,c*a33)).
Ltac d44 A := destruct A as [[[[[[a00 a01] a02] a03] [[[a10 a11] a12] a13]] [[[a20 a21] a22] a23]] [[[a30 a31] a32] a33]].
Lemma mmul44_scale_l (c : R) (A B : M44 R) : mmul44 Rops (mscale44 c A) B = mscale44 c (mmul44 Rops A B).
Proof. d44 A. destruct B as [[[[[[b00 b01] b02] b03] [[[b10 b11] b12] b13]] [[[b20 b21] b22] b23]] [[[b30 b31] b32] b33]]. unfold mscale44. autounfold with smlin. sm_simpl. tuple_eq ltac:(ring). Qed.
Lemma mmul44_scale_r (c : R) (A B : M44 R) : mmul44 Rops A (mscale44 c B) = mscale44 c (mmul44 Rops A B).
Proof. d44 A. destruct B as [[[[[[b00 b01] b02] b03] [[[b10 b11] b12] b13]] [[[b20 b21] b22] b23]] [[[b30 b31] b32] b33]]. unfold mscale44. autounfold with smlin. sm_simpl. tuple_eq ltac:(ring). Qed.
Lemma mscale44_mscale (c d : R) (A : M44 R) : mscale44 c (mscale44 d A) = mscale44 (c * d) A.
Proof. d44 A. unfold mscale44. tuple_eq ltac:(ring). Qed.
Lemma mscale44_one (A : M44 R) : mscale44 1 A = A.
Proof. d44 A. unfold mscale44. tuple_eq ltac:(ring). Qed.
Lemma e44_mscale (c : R) (A : M44 R) i j : e44 (mscale44 c A) i j = c * e44 A i j.
Proof. d44 A. unfold mscale44. destruct i as [|[|[|i]]]; destruct j as [|[|[|j]]]; cbn [e44]; ring. Qed.
Lemma mpow44_scale (c : R) (A : M44 R) k : mpow44 (mscale44 c A) k = mscale44 (c ^ k) (mpow44 A k).
Proof.
  induction k as [|k IH]; cbn [mpow44 pow]; [symmetry; apply mscale44_one|].
  rewrite IH, mmul44_scale_l, mmul44_scale_r, mscale44_mscale. reflexivity.
Qed.
Definition vscale6r (c : R) (S : V6 R) : V6 R := let '(a0,a1,a2,a3,a4,a5) := S in (c*a0, c*a1, c*a2, c*a3, c*a4, c*a5).
Lemma se3_hat_scale (c : R) (S : V6 R) : se3_hat (vscale6r c S) = mscale44 c (se3_hat S).
Proof. destruct S as [[[[[v0 v1] v2] w0] w1] w2]. unfold se3_hat, vscale6r, mscale44. tuple_eq ltac:(ring). Qed.

Theorem trexp_unit_is_exp_of_scaled_twist (Kt : thr) (v0 v1 v2 w0 w1 w2 th : R) (i j : nat) :
  thr_ok Kt -> normsq3 Rops (w0,w1,w2) = 1 -> (i < 4)%nat -> (j < 4)%nat ->
  is_series (fun k => e44 (mpow44 (se3_hat (vscale6r th (v0,v1,v2,w0,w1,w2))) k) i j / INR (fact k))
            (e44 (trexp_unit Rops Kt (v0,v1,v2,w0,w1,w2) th) i j).
Proof.
  intros HK Hw Hi Hj.
  pose proof (trexp_unit_is_expm_series Kt v0 v1 v2 w0 w1 w2 th HK Hw i j Hi Hj) as H. apply is_pseries_R in H.
  apply is_series_ext with (2 := H). intro n. unfold expm_coeff44. rewrite se3_hat_scale, mpow44_scale, e44_mscale. req. unfold Rdiv. ring.
Qed.
