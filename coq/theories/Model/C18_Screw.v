(* C18 -- reference screw-motion model and its geometry over R.
   [screw_cs S th c s] is the closed form of exp(th [S]) for a twist S = (v, w) with unit w, written with
   (c, s) in place of (cos th, sin th): rotation block Rodrigues(w; c, s), translation V(w; th, c, s) v.
   The generated traces of Twist3.exp / Twist2.exp are proved equal to these closed forms in Props/C18*.v
   (for all inputs on the traced path); the geometric content of the property is proved here once. *)
From Coq Require Import Reals ZArith Lra Nsatz Psatz.
From SM Require Import Base.Ops Base.Lin Base.RInst Base.RLin.
Set Warnings "-notation-overridden".

Section Gen.
Context {T : Type} (O : ops T).
Local Notation "0" := (zero O). Local Notation "1" := (one O).
Local Infix "+" := (add O). Local Infix "-" := (sub O). Local Infix "*" := (mul O).
Local Infix "/" := (div O). Local Notation "- x" := (neg O x).

(* I + s K + (1-c) K^2,  K = skew w *)
Definition rodrigues_cs (w : V3 T) (c s : T) : M33 T :=
  madd33 O (madd33 O (I33 O) (mscale33 O s (skew3 O w))) (mscale33 O (1 - c) (mmul33 O (skew3 O w) (skew3 O w))).
(* th I + (1-c) K + (th - s) K^2 *)
Definition vmat_cs (w : V3 T) (th c s : T) : M33 T :=
  madd33 O (madd33 O (mscale33 O th (I33 O)) (mscale33 O (1 - c) (skew3 O w)))
         (mscale33 O (th - s) (mmul33 O (skew3 O w) (skew3 O w))).
Definition tw_v (S : V6 T) : V3 T := let '(v0,v1,v2,_,_,_) := S in (v0,v1,v2).
Definition tw_w (S : V6 T) : V3 T := let '(_,_,_,w0,w1,w2) := S in (w0,w1,w2).
Definition screw_cs (S : V6 T) (th c s : T) : M44 T :=
  rt2tr3 O (rodrigues_cs (tw_w S) c s) (mv33 O (vmat_cs (tw_w S) th c s) (tw_v S)).
(* the twist of a revolute joint about the line {q + l w}: (v, w) = (-(w x q), w) *)
Definition revolute_tw (w q : V3 T) : V6 T := v6 (vneg3 O (cross3 O w q)) w.
Definition prismatic_tw (d : V3 T) : V6 T := v6 d (0,0,0).
Definition vscale6 (k : T) (S : V6 T) : V6 T :=
  let '(a0,a1,a2,a3,a4,a5) := S in (k*a0, k*a1, k*a2, k*a3, k*a4, k*a5).
(* a / |a| *)
Definition unitv3 (a : V3 T) : V3 T := let '(a0,a1,a2) := a in let n := norm3 O a in (a0/n, a1/n, a2/n).
Definition unitv2 (a : V2 T) : V2 T := let '(a0,a1) := a in let n := sqrt_ O (a0*a0 + a1*a1) in (a0/n, a1/n).
Definition hpoint3 (p : V3 T) : V4 T := let '(x,y,z) := p in (x,y,z,1).
Definition skewa6 (S : V6 T) : M44 T :=
  let '(v0,v1,v2,w0,w1,w2) := S in ((0,-w2,w1,v0),(w2,0,-w0,v1),(-w1,w0,0,v2),(0,0,0,0)).

(* planar: S = (v0, v1, w) with w = 1 *)
Definition screw2_cs (S : V3 T) (c s : T) : M33 T :=
  let '(v0,v1,_) := S in
  rt2tr2 O (rot2_cs O c s) (s*v0 - (1 - c)*v1, (1 - c)*v0 + s*v1).
Definition revolute2_tw (q : V2 T) : V3 T := let '(q0,q1) := q in (q1, -q0, 1).
Definition hpoint2 (p : V2 T) : V3 T := let '(x,y) := p in (x,y,1).
Definition skewa3 (S : V3 T) : M33 T := let '(v0,v1,w) := S in ((0,-w,v0),(w,0,v1),(0,0,0)).
End Gen.

#[export] Hint Unfold rodrigues_cs vmat_cs tw_v tw_w screw_cs revolute_tw prismatic_tw vscale6 hpoint3 skewa6
  screw2_cs revolute2_tw hpoint2 skewa3 unitv3 unitv2 : smlin.

Open Scope R_scope.
Local Ltac start := intros; destruct_tuples; lin_simpl.

(* ------------------------------------------------------------------ normalisation a/|a| *)
Lemma norm3_sq (a : V3 R) : norm3 Rops a * norm3 Rops a = dot3 Rops a a.
Proof. start. apply sqrt_sqrt. nra. Qed.
Lemma unitv3_unit (a : V3 R) : 0 < norm3 Rops a -> dot3 Rops (unitv3 Rops a) (unitv3 Rops a) = 1.
Proof.
  intros H. pose proof (norm3_sq a) as Hn. revert H Hn. destruct_tuples. unfold unitv3.
  generalize (norm3 Rops (r1, r0, r)). intros n H Hn. lin_simpl. field_simplify_eq; [nra | lra].
Qed.
Lemma unitv3_scale (a : V3 R) : 0 < norm3 Rops a -> vscale3 Rops (norm3 Rops a) (unitv3 Rops a) = a.
Proof.
  intros H. revert H. destruct_tuples. unfold unitv3. generalize (norm3 Rops (r1, r0, r)). intros n H.
  lin_simpl. tuple_eq ltac:(field; lra).
Qed.
Lemma unitv2_unit (a : V2 R) : 0 < sqrt (dot2 Rops a a) -> dot2 Rops (unitv2 Rops a) (unitv2 Rops a) = 1.
Proof.
  destruct a as [x y]. lin_simpl. intros H.
  assert (Hn : sqrt (x*x + y*y) * sqrt (x*x + y*y) = x*x + y*y) by (apply sqrt_sqrt; nra).
  revert H Hn. generalize (sqrt (x*x + y*y)). intros n H Hn. field_simplify_eq; [nra | lra].
Qed.

(* ------------------------------------------------------------------ rotation block *)
Lemma rodrigues_SO3 (w : V3 R) c s : dot3 Rops w w = 1 -> c*c + s*s = 1 -> SO3 (rodrigues_cs Rops w c s).
Proof. start. unfold SO3. repeat split; nsatz. Qed.

(* the axis is invariant *)
Lemma rodrigues_axis (w : V3 R) c s : mv33 Rops (rodrigues_cs Rops w c s) w = w.
Proof. start. tuple_eq ltac:(ring). Qed.

(* Rodrigues' rotation formula: R u = c u + s (w x u) + (1-c)(w.u) w  -- rotation by the angle (c,s) about +w *)
Lemma rodrigues_formula (w u : V3 R) c s : dot3 Rops w w = 1 ->
  mv33 Rops (rodrigues_cs Rops w c s) u =
  vadd3 Rops (vadd3 Rops (vscale3 Rops c u) (vscale3 Rops s (cross3 Rops w u)))
             (vscale3 Rops ((1 - c) * dot3 Rops w u) w).
Proof. start. tuple_eq ltac:(nsatz). Qed.

(* angle and sense: trace = 1 + 2c, antisymmetric part = s w *)
Lemma rodrigues_trace (w : V3 R) c s : dot3 Rops w w = 1 -> trace33 Rops (rodrigues_cs Rops w c s) = 1 + 2*c.
Proof. start. nsatz. Qed.
Lemma rodrigues_vex (w : V3 R) c s : vex3 Rops (rodrigues_cs Rops w c s) = vscale3 Rops s w.
Proof. start. tuple_eq ltac:(field). Qed.

(* vectors orthogonal to the axis turn by exactly (c,s) in the plane (u, w x u) *)
Lemma rodrigues_perp (w u : V3 R) c s : dot3 Rops w w = 1 -> dot3 Rops w u = 0 ->
  mv33 Rops (rodrigues_cs Rops w c s) u = vadd3 Rops (vscale3 Rops c u) (vscale3 Rops s (cross3 Rops w u)).
Proof. start. tuple_eq ltac:(nsatz). Qed.

(* ------------------------------------------------------------------ the revolute screw motion *)
Lemma screw_SE3 (S : V6 R) th c s : dot3 Rops (tw_w S) (tw_w S) = 1 -> c*c + s*s = 1 -> SE3 (screw_cs Rops S th c s).
Proof. intros. unfold screw_cs. apply SE3_rt. apply rodrigues_SO3; assumption. Qed.

Lemma screw_rotation_block (S : V6 R) th c s : t2r3 (screw_cs Rops S th c s) = rodrigues_cs Rops (tw_w S) c s.
Proof. start. reflexivity. Qed.

(* the motion is the rotation R about the line through q: p |-> q + R (p - q), for EVERY point p *)
Lemma screw_revolute_action (w q p : V3 R) th c s : dot3 Rops w w = 1 ->
  mv44 Rops (screw_cs Rops (revolute_tw Rops w q) th c s) (hpoint3 Rops p) =
  hpoint3 Rops (vadd3 Rops q (mv33 Rops (rodrigues_cs Rops w c s) (vsub3 Rops p q))).
Proof. start. tuple_eq ltac:(nsatz). Qed.

(* every point q + l w of the axis is fixed, for all l, th (no relation between th, c, s is needed) *)
Lemma screw_axis_fixed (w q : V3 R) th c s l : dot3 Rops w w = 1 ->
  mv44 Rops (screw_cs Rops (revolute_tw Rops w q) th c s) (hpoint3 Rops (vadd3 Rops q (vscale3 Rops l w))) =
  hpoint3 Rops (vadd3 Rops q (vscale3 Rops l w)).
Proof. start. tuple_eq ltac:(nsatz). Qed.

(* one-parameter subgroup (angle addition), hence exp(-th S) exp(th S) = I *)
Lemma screw_add (S : V6 R) t1 c1 s1 t2 c2 s2 : dot3 Rops (tw_w S) (tw_w S) = 1 ->
  mmul44 Rops (screw_cs Rops S t1 c1 s1) (screw_cs Rops S t2 c2 s2) =
  screw_cs Rops S (t1 + t2) (c1*c2 - s1*s2) (s1*c2 + c1*s2).
Proof. start. tuple_eq ltac:(nsatz). Qed.
Lemma screw_zero (S : V6 R) : screw_cs Rops S 0 1 0 = I44 Rops.
Proof. start. tuple_eq ltac:(ring). Qed.
Lemma screw_inverse (S : V6 R) th c s : dot3 Rops (tw_w S) (tw_w S) = 1 -> c*c + s*s = 1 ->
  mmul44 Rops (screw_cs Rops S (-th) c (-s)) (screw_cs Rops S th c s) = I44 Rops.
Proof.
  intros Hw Hc. rewrite screw_add by assumption. rewrite <- screw_zero with (S := S). f_equal; nsatz.
Qed.
(* negating the twist = negating the angle *)
Lemma screw_neg (S : V6 R) th c s :
  screw_cs Rops (vscale6 Rops (-1) S) th c s = screw_cs Rops S (-th) c (-s).
Proof. start. tuple_eq ltac:(ring). Qed.

(* ------------------------------------------------------------------ accessors of a revolute unit twist *)
Lemma revolute_pitch_zero (w q : V3 R) : dot3 Rops w (vneg3 Rops (cross3 Rops w q)) = 0.
Proof. start. ring. Qed.
(* w x v = q - (w.q) w : a point of the axis *)
Lemma revolute_pole_on_axis (w q : V3 R) : dot3 Rops w w = 1 ->
  cross3 Rops (vsub3 Rops (cross3 Rops w (vneg3 Rops (cross3 Rops w q))) q) w = (0,0,0).
Proof. start. tuple_eq ltac:(nsatz). Qed.

(* ------------------------------------------------------------------ planar *)
Lemma screw2_SE2 (S : V3 R) c s : c*c + s*s = 1 -> SE2 (screw2_cs Rops S c s).
Proof. start. unfold SE2, SO2. lin_simpl. split; [repeat split; nsatz | reflexivity]. Qed.
Lemma screw2_action (q p : V2 R) c s :
  mv33 Rops (screw2_cs Rops (revolute2_tw Rops q) c s) (hpoint2 Rops p) =
  hpoint2 Rops (vadd2 Rops q (mv22 Rops (rot2_cs Rops c s) (vsub2 Rops p q))).
Proof. start. tuple_eq ltac:(ring). Qed.
Lemma screw2_pole_fixed (q : V2 R) c s :
  mv33 Rops (screw2_cs Rops (revolute2_tw Rops q) c s) (hpoint2 Rops q) = hpoint2 Rops q.
Proof. start. tuple_eq ltac:(ring). Qed.
Lemma screw2_add (S : V3 R) c1 s1 c2 s2 :
  mmul33 Rops (screw2_cs Rops S c1 s1) (screw2_cs Rops S c2 s2) = screw2_cs Rops S (c1*c2 - s1*s2) (s1*c2 + c1*s2).
Proof. start. tuple_eq ltac:(ring). Qed.
Lemma screw2_zero (S : V3 R) : screw2_cs Rops S 1 0 = I33 Rops.
Proof. start. tuple_eq ltac:(ring). Qed.

(* ------------------------------------------------------------------ tactics shared by Props/C18*.v *)
Lemma sqrt_sq_abs x : sqrt (x * x) = Rabs x.
Proof. rewrite <- (sqrt_Rsqr_abs x); reflexivity. Qed.
Definition tiny : R := 5 / 2251799813685248.     (* 10 * 2^-52, the iszerovec threshold *)
Lemma tiny_pos : 0 < tiny.  Proof. unfold tiny. lra. Qed.
Lemma tiny_small : tiny < 1.  Proof. unfold tiny. lra. Qed.

(* every sqrt argument (and every other occurrence of the same polynomial) equals th*th under the hypotheses *)
Ltac fold_sqrt_arg th :=
  repeat match goal with
  | |- context[sqrt ?e] =>
      lazymatch e with th * th => fail | _ => idtac end;
      let E := fresh "E" in assert (E : e = th * th) by nsatz; rewrite !E; clear E
  end.
Ltac abs_cases th :=
  let Hneg := fresh "Hneg" in let Hpos := fresh "Hpos" in
  destruct (Rcase_abs th) as [Hneg|Hpos];
  [ rewrite !(Rabs_left th Hneg), ?sin_neg, ?cos_neg | rewrite !(Rabs_right th Hpos) ].
(* path conditions: bool conjunctions of Rltb atoms -> Props *)
Ltac pc_props H :=
  repeat (apply andb_prop in H; let H1 := fresh "Hpc" in destruct H as [H1 H]);
  try clear H;       (* the trailing [true = true] (an equation nsatz would trip over) *)
  repeat match goal with
  | K : negb _ = true |- _ => apply Bool.negb_true_iff in K
  | K : Rltb _ _ = true |- _ => apply Rltb_true in K
  | K : Rltb _ _ = false |- _ => apply Rltb_false in K
  | K : Rleb _ _ = true |- _ => apply Rleb_true in K
  | K : Rleb _ _ = false |- _ => apply Rleb_false in K
  end.
