(* Hand-written model of spatialmath.base.quaternions.r2q (rotation matrix -> unit quaternion), branch for
   branch and operation for operation as in the source after /repo commit 1cdf860 (base/quaternions.py r2q):

     qs = math.sqrt(max(0, np.trace(R) + 1)) / 2.0
     kx = R[2,1] - R[1,2]; ky = R[0,2] - R[2,0]; kz = R[1,0] - R[0,1];  k = [kx, ky, kz]      # skew part = 4 s v
     if np.trace(R) > 0:                       # scalar part well conditioned: vector part from it, scalar part from the vector part
         v = k / (4.0 * qs)
         return [math.sqrt(max(0, 1.0 - np.dot(v, v))), v]
     if (R[0,0] >= R[1,1]) and (R[0,0] >= R[2,2]):  kx1 = R00 - R11 - R22 + 1; ky1 = R10 + R01; kz1 = R20 + R02; add = (kx >= 0)
     elif R[1,1] >= R[2,2]:                         kx1 = R10 + R01; ky1 = R11 - R00 - R22 + 1; kz1 = R21 + R12; add = (ky >= 0)
     else:                                          kx1 = R20 + R02; ky1 = R21 + R12; kz1 = R22 - R00 - R11 + 1; add = (kz >= 0)
     if add: kv = k + k1  else: kv = k - k1
     nm = norm(kv)
     if abs(nm) < tol * _eps: return eye()
     else:
         v = (math.sqrt(1.0 - qs ** 2) / nm) * kv
         return [max(0, np.dot(k, v) / (4.0 * np.dot(v, v))), v]

   Tied to the implementation on every run by the numeric correspondence (Gen.model in props/C04.py),
   on rotations of every branch including those within 1e-9 of 0 and of pi and on both sides of trace = 0. *)
From Coq Require Import ZArith Bool.
From SM Require Import Base.Ops Base.Lin.

Section R2q.
Context {T : Type} (O : ops T).
Local Notation "0" := (zero O). Local Notation "1" := (one O).
Local Infix "+" := (add O). Local Infix "-" := (sub O). Local Infix "*" := (mul O). Local Infix "/" := (div O).

(* which of the three "largest diagonal element" branches is taken: 0, 1, 2 *)
Definition r2q_branch (R : M33 T) : nat :=
  let '((r00,_,_),(_,r11,_),(_,_,r22)) := R in
  if leb O r11 r00 && leb O r22 r00 then 0%nat else if leb O r22 r11 then 1%nat else 2%nat.

(* the sign test  add = (k_i >= 0) *)
Definition r2q_add (R : M33 T) : bool :=
  let '((r00,r01,r02),(r10,r11,r12),(r20,r21,r22)) := R in
  match r2q_branch R with
  | 0%nat => leb O 0 (r21 - r12)
  | 1%nat => leb O 0 (r02 - r20)
  | _ => leb O 0 (r10 - r01)
  end.

(* the un-normalised vector part *)
Definition r2q_kv (R : M33 T) : V3 T :=
  let '((r00,r01,r02),(r10,r11,r12),(r20,r21,r22)) := R in
  let kx := r21 - r12 in let ky := r02 - r20 in let kz := r10 - r01 in
  let k1 := match r2q_branch R with
            | 0%nat => (r00 - r11 - r22 + 1, r10 + r01, r20 + r02)
            | 1%nat => (r10 + r01, r11 - r00 - r22 + 1, r21 + r12)
            | _ => (r20 + r02, r21 + r12, r22 - r00 - r11 + 1)
            end in
  let '(kx1, ky1, kz1) := k1 in
  if r2q_add R then (kx + kx1, ky + ky1, kz + kz1) else (kx - kx1, ky - ky1, kz - kz1).

(* qs = sqrt(max(0, trace + 1)) / 2 ; Python's max(0, x) is x if x > 0 else 0 *)
Definition r2q_s (R : M33 T) : T :=
  let '((r00,_,_),(_,r11,_),(_,_,r22)) := R in
  let t1 := r00 + r11 + r22 + 1 in
  sqrt_ O (if ltb O 0 t1 then t1 else 0) / two O.

(* the degenerate exit  abs(nm) < tol*eps  -> eye() *)
Definition r2q_degenerate (tol : T) (R : M33 T) : bool :=
  ltb O (abs_ O (norm3 O (r2q_kv R))) (tol * eps O).

(* Python's max(0, x): x if x > 0 else 0 *)
Definition max0 (x : T) : T := if ltb O 0 x then x else 0.

(* the skew part k *)
Definition r2q_k (R : M33 T) : V3 T :=
  let '((r00,r01,r02),(r10,r11,r12),(r20,r21,r22)) := R in (r21 - r12, r02 - r20, r10 - r01).

(* np.trace(R) > 0 *)
Definition r2q_trpos (R : M33 T) : bool :=
  let '((r00,_,_),(_,r11,_),(_,_,r22)) := R in ltb O 0 (r00 + r11 + r22).

Definition r2q (tol : T) (R : M33 T) : V4 T :=
  let qs := r2q_s R in
  let '(kx, ky, kz) := r2q_k R in
  if r2q_trpos R then
    let d := of_Z O 4 * qs in
    let vx := kx / d in let vy := ky / d in let vz := kz / d in
    (sqrt_ O (max0 (1 - (vx * vx + vy * vy + vz * vz))), vx, vy, vz)
  else if r2q_degenerate tol R then qone O
  else
    let '(ax, ay, az) := r2q_kv R in
    let f := sqrt_ O (1 - qs * qs) / norm3 O (r2q_kv R) in
    let vx := f * ax in let vy := f * ay in let vz := f * az in
    (max0 ((kx * vx + ky * vy + kz * vz) / (of_Z O 4 * (vx * vx + vy * vy + vz * vz))), vx, vy, vz).

Definition r2q_100 (R : M33 T) : V4 T := r2q (of_Z O 100) R.

(* base.unit(q) on a non-degenerate quaternion (the UnitQuaternion constructor applies it to every list element) *)
Definition qunit (q : V4 T) : V4 T :=
  let n := sqrt_ O (dot4 O q q) in let '(s,x,y,z) := q in (s / n, x / n, y / n, z / n).

(* UnitDualQuaternion(SE3 T): real = r2q(R), dual = 0.5 * pure(t) * real *)
Definition udq_of_T (A : M44 T) : V8 T :=
  let r := r2q_100 (t2r3 A) in
  let '(d0,d1,d2,d3) := qmul O (vscale4 O (1 / two O) (qpure O (transl3 A))) r in
  let '(r0,r1,r2,r3) := r in (r0,r1,r2,r3,d0,d1,d2,d3).
End R2q.

#[export] Hint Unfold r2q_branch r2q_add r2q_kv r2q_s r2q_degenerate max0 r2q_k r2q_trpos r2q r2q_100 qunit udq_of_T : smlin.
