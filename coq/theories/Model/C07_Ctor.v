(* C07 (part 2) -- hand-written model of the constructor argument handling of the pose / unit-quaternion / twist
   classes:  SMUserList.arghandler (smuserlist.py:138-225), SMUserList._import (79-83), Twist3/Twist2._import
   (twist.py:348, 1117) and the per-class constructor fall-through (pose3d.py:47-72, 601-643; pose2d.py:52-87,
   247-314; quaternion.py:925-1009; twist.py:312-340, 1062-1100), with checking enabled.

   Kind B (dynamic-language control logic): no real numbers.  An ndarray argument is abstracted to (shape, tag):
   the tag says how the array relates to the group of the class it is handed to.  Which tags the class-level
   validity test accepts (rot_ok, hom_ok, ...) is NOT a free choice: Props/C07_bridge.v proves, over R, that the
   predicate models of C07_Pred.v take exactly these decisions on arrays carrying the tag.
   The model mirrors the code AS IT IS; it is tied to /repo on every run by the exhaustive table run of props/C07.py. *)
From Coq Require Import List Bool Arith.
Import ListNotations.

Inductive cls := cSO2 | cSE2 | cSO3 | cSE3 | cUQ | cTw2 | cTw3.
(* Valid: member of the group / algebra.  NotOrtho: rotation part not orthonormal (unit quaternion: not unit norm),
   defect beyond the 1e-6 band.  Reflect: orthogonal with determinant -1.  BadRow: last row of a homogeneous matrix
   is not (0,..,0,1).  NotAlgebra: 4x4 / 3x3 given to a twist class that is not an augmented skew-symmetric matrix.
   WrongShape: an array of a shape the class has no use for.  AltForm: a documented alternative argument form
   (SO2(vector of angles), SE2(2- or 3-vector), SE3(3-vector), SE3(Nx3 translations), UnitQuaternion(N x 4 array of
   quaternion rows -- including a 4x4 array that is not a valid homogeneous matrix: four rows)) -- not an invalid value.
   ZeroRow: an N x 4 array of quaternion rows one of which has (near-)zero norm, which cannot be normalised. *)
Inductive tag := Valid | NotOrtho | Reflect | BadRow | NotAlgebra | WrongShape | AltForm | ZeroRow.
Inductive shape := Sq (n : nat) | Vec (n : nat) | Rect (r c : nat) | NonArray.   (* NonArray: a list element that is no ndarray *)
Inductive item := Arr (s : shape) (t : tag).
Inductive exc := ValueError | TypeError | IndexError | AssertionError | AttributeError.
Inductive result (A : Type) := Ok (a : A) | Err (e : exc).
Arguments Ok {A} a. Arguments Err {A} e.
(* an element of .data:  Elt: the supplied array itself (or, UnitQuaternion, its renormalisation);  Conv: converted from the
   supplied array (r2q of a matrix, vexa of a twist matrix);  Made: built by the class from an alternative form;
   NoneElt: None;  NormFloat: a float.  Since the fixes f16dbda / 21d6c6d / c16e6a7 the model never produces NoneElt or
   NormFloat; they stay in the vocabulary of the table correspondence so that a regression is reported. *)
Inductive slot := Elt (it : item) | Conv (it : item) | Made | NoneElt | NormFloat.
Inductive argform := Bare (it : item) | Seq (l : list item).   (* Seq: list or tuple *)

Definition ish (it : item) : shape := let '(Arr s _) := it in s.
Definition itag (it : item) : tag := let '(Arr _ t) := it in t.
Definition tag_eqb (a b : tag) : bool :=
  match a, b with
  | Valid, Valid | NotOrtho, NotOrtho | Reflect, Reflect | BadRow, BadRow | NotAlgebra, NotAlgebra
  | WrongShape, WrongShape | AltForm, AltForm | ZeroRow, ZeroRow => true
  | _, _ => false end.

(* ndarray.shape ; [] for a non-array *)
Definition dims (s : shape) : list nat :=
  match s with Sq n => [n; n] | Vec n => [n] | Rect r c => [r; c] | NonArray => [] end.
Fixpoint dims_eqb (a b : list nat) : bool :=
  match a, b with [], [] => true | x :: a', y :: b' => Nat.eqb x y && dims_eqb a' b' | _, _ => false end.
Definition is_array (s : shape) : bool := match s with NonArray => false | _ => true end.
Definition is_sq (s : shape) (n : nat) : bool := dims_eqb (dims s) [n; n].
(* argcheck.isvector(x, n) on an ndarray *)
Definition is_vec (s : shape) (n : nat) : bool :=
  dims_eqb (dims s) [n] || dims_eqb (dims s) [1; n] || dims_eqb (dims s) [n; 1].
(* argcheck.isvector(x) (dim=None) on an ndarray: Some length *)
Definition any_vec (s : shape) : option nat :=
  match dims s with
  | [n] => if 0 <? n then Some n else None
  | [r; c] => if (r =? 1) && (0 <? c) then Some c else if (0 <? r) && (c =? 1) then Some r else None
  | _ => None end.

(* ---- decisions of the class-level validity tests on tagged arrays (justified in Props/C07_bridge.v) ---- *)
(* base.isR tests det(R) > 0 (fix 8457767): reflections are rejected *)
Definition rot_ok (t : tag) : bool := match t with Valid => true | _ => false end.
Definition hom_ok (t : tag) : bool := match t with Valid => true | _ => false end.
Definition unit_ok (t : tag) : bool := match t with Valid => true | _ => false end.
Definition alg_ok (t : tag) : bool := match t with Valid => true | _ => false end.

(* cls.isvalid(x, check=True) followed by the shape test of _import: is the array taken as an element? *)
Definition accept (c : cls) (it : item) : bool :=
  let '(Arr s t) := it in
  match c with
  | cSO2 => is_sq s 2 && rot_ok t
  | cSO3 => is_sq s 3 && rot_ok t
  | cSE2 => is_sq s 3 && hom_ok t
  | cSE3 => is_sq s 4 && hom_ok t
  | cUQ => dims_eqb (dims s) [4] && unit_ok t
  | cTw3 => dims_eqb (dims s) [6] || (is_sq s 4 && alg_ok t)
  | cTw2 => dims_eqb (dims s) [3] || (is_sq s 3 && alg_ok t)
  end.
(* what is stored for an accepted array *)
Definition stored (c : cls) (it : item) : slot :=
  match c with
  | cTw3 => if is_sq (ish it) 4 then Conv it else Elt it
  | cTw2 => if is_sq (ish it) 3 then Conv it else Elt it
  | _ => Elt it end.
Definition is_pose (c : cls) : bool := match c with cSO2 | cSE2 | cSO3 | cSE3 => true | _ => false end.
Definition is_twist (c : cls) : bool := match c with cTw2 | cTw3 => true | _ => false end.

(* SMUserList._import returns None for a rejected value (pose classes, UnitQuaternion) and the list path of arghandler
   raises ValueError when any element came back None (fix f16dbda); Twist._import raises TypeError itself *)

(* UnitQuaternion(N x 4 array): [base.unit(x) for x in s]; base.unit raises ValueError for a row of (near-)zero norm *)
Definition uq_rows (t : tag) (r : nat) : result (list slot) :=
  if tag_eqb t ZeroRow then Err ValueError else Ok (repeat Made r).

(* ---- constructor fall-through after arghandler returned False for a bare ndarray ---- *)
Definition fallthrough (c : cls) (it : item) : result (list slot) :=
  let '(Arr s t) := it in
  match c with
  | cSO3 => Err ValueError
  | cSO2 =>                                   (* isscalar / isvector(arg): one rotation per angle *)
      match any_vec s with Some n => Ok (repeat Made n) | None => Err ValueError end
  | cSE3 =>                                   (* isvector(x,3) -> transl ; x.shape[1] == 3 -> N translations *)
      if is_vec s 3 then Ok [Made]
      else match dims s with
           | [_] => Err IndexError            (* x.shape[1] on a 1-D array *)
           | [r; 3] => Ok (repeat Made r)
           | _ => Err ValueError end
  | cSE2 =>                                   (* dispatch on len(x): 2 -> transl2(x) (raises ValueError for a matrix, fix c16e6a7), 3 -> trot2(x[2], t=x[:2]) *)
      match dims s with
      | [2] => Ok [Made] | [2; 1] => Ok [Made]
      | [3] => Ok [Made] | [3; _] => Err TypeError
      | _ => Err ValueError end
  | cUQ =>                                    (* isrot -> r2q ; ishom -> r2q(t2r) ; s.shape[1] == 4 -> [unit(x) for x in s] (fix 21d6c6d) *)
      match dims s with
      | [4] => uq_rows t 1                       (* a 4-vector that is not of unit length is normalised, like the list form (fix d0fc1b2) *)
      | [_] => Err ValueError
      | [3; 3] => if rot_ok t then Ok [Conv it] else Err ValueError
      | [4; 4] => if hom_ok t then Ok [Conv it]  (* a valid SE(3) matrix: one quaternion from its rotation block *)
                  else uq_rows t 4               (* any other 4x4 array: four quaternion rows (documented N x 4 form) *)
      | [r; 4] => uq_rows t r                    (* N x 4: the normalised rows *)
      | _ => Err ValueError end
  | cTw2 | cTw3 => Err TypeError              (* not reached: _import raised already *)
  end.

Definition ctor (c : cls) (a : argform) : result (list slot) :=
  match a with
  | Bare it =>
      if accept c it then Ok [stored c it]
      else if is_twist c then Err TypeError else fallthrough c it
  | Seq [] => Ok []                            (* an empty list gives an empty object, as Empty() (fix 1105ad0; it was IndexError: arg[0]) *)
  | Seq l =>                                   (* isinstance(arg[0], ndarray):  data = [self._import(x) for x in arg] *)
      if is_twist c then
        if forallb (accept c) l then Ok (map (stored c) l) else Err TypeError       (* Twist._import raises *)
      else if is_pose c then
        if forallb (accept c) l then Ok (map (stored c) l) else Err ValueError      (* any None -> ValueError *)
      else                                     (* UnitQuaternion: isvalid does x.shape on every element first *)
        if negb (forallb (fun it => is_array (ish it)) l) then Err AttributeError
        else if forallb (accept c) l then Ok (map (stored c) l) else Err ValueError
  end.

(* ---- validity of what an object holds: every element is (derived from) a member of the group ---- *)
Definition tag_valid (t : tag) : bool := match t with Valid | AltForm => true | _ => false end.
Definition valid_slot (x : slot) : bool :=
  match x with Elt it | Conv it => tag_valid (itag it) | Made => true | NoneElt | NormFloat => false end.

(* ---- which (shape, tag) combinations are meaningful for a class (the table of props/C07.py enumerates exactly these) ---- *)
Definition grp_tag (hom : bool) (t : tag) : bool :=
  match t with Valid | NotOrtho | Reflect => true | BadRow => hom | _ => false end.
Definition applicable (c : cls) (it : item) : bool :=
  let '(Arr s t) := it in
  match c with
  | cSO3 => if is_sq s 3 then grp_tag false t else tag_eqb t WrongShape
  | cSO2 => if is_sq s 2 then grp_tag false t
            else match any_vec s with Some _ => tag_eqb t AltForm | None => tag_eqb t WrongShape end
  | cSE3 => if is_sq s 4 then grp_tag true t
            else if is_vec s 3 then tag_eqb t AltForm
            else match dims s with [_; 3] => tag_eqb t AltForm | _ => tag_eqb t WrongShape end
  | cSE2 => if is_sq s 3 then grp_tag true t
            else match dims s with [2] | [2; 1] | [3] => tag_eqb t AltForm | _ => tag_eqb t WrongShape end
  | cUQ => match dims s with
           | [4] => tag_eqb t Valid || tag_eqb t AltForm || tag_eqb t ZeroRow
           | [3; 3] => grp_tag false t
           | [4; 4] => tag_eqb t Valid || tag_eqb t AltForm || tag_eqb t ZeroRow
           | [_; 4] => tag_eqb t AltForm || tag_eqb t ZeroRow
           | _ => tag_eqb t WrongShape end
  | cTw3 => if dims_eqb (dims s) [6] then tag_eqb t Valid
            else if is_sq s 4 then tag_eqb t Valid || tag_eqb t NotAlgebra else tag_eqb t WrongShape
  | cTw2 => if dims_eqb (dims s) [3] then tag_eqb t Valid
            else if is_sq s 3 then tag_eqb t Valid || tag_eqb t NotAlgebra else tag_eqb t WrongShape
  end.
Definition wf (c : cls) (a : argform) : bool :=
  match a with
  | Bare it => is_array (ish it) && applicable c it
  | Seq l => match l with [] => true | h :: _ => is_array (ish h) end && forallb (applicable c) l
  end.

(* ---- summary used by the table correspondence: (0 | exception code, slot codes, all elements valid) ---- *)
Definition exc_code (e : exc) : nat := match e with ValueError => 1 | TypeError => 2 | IndexError => 3 | AssertionError => 4 | AttributeError => 5 end.
Definition slot_code (x : slot) : nat := match x with Elt _ | Conv _ | Made => 0 | NoneElt => 1 | NormFloat => 2 end.
Definition summary (c : cls) (a : argform) : nat * list nat * bool :=
  match ctor c a with
  | Err e => (exc_code e, [], true)
  | Ok d => (0, map slot_code d, forallb valid_slot d) end.


(* =====================================================================================================
   Objects as arguments: the list mutators of SMUserList (smuserlist.py:305 __setitem__, 345 append, 374 extend,
   400 insert) and the constructor given an object (arghandler: isinstance(arg, self.__class__) -> copy of arg.data;
   arg.__class__ in convertfrom -> [converter(arg).A]; then the per-class fall-through).
   An operand is an object of class ocl holding olen valid values of ITS class (or a bare ndarray / list: oArr).
   An element of a receiver is tagged with the class whose group it belongs to; anything else is Junk (the empty list
   that `.A` of an empty object returns, a row of a matrix spread by a slice assignment, a list of arrays).
   ===================================================================================================== *)
Inductive ocls := oSO2 | oSE2 | oSO3 | oSE3 | oQ | oUQ | oTw2 | oTw3 | oArr.
Definition ocls_eqb (a b : ocls) : bool :=
  match a, b with
  | oSO2, oSO2 | oSE2, oSE2 | oSO3, oSO3 | oSE3, oSE3 | oQ, oQ | oUQ, oUQ | oTw2, oTw2 | oTw3, oTw3 | oArr, oArr => true
  | _, _ => false end.
(* type(self) == type(x) *)
Definition exact (r o : ocls) : bool := ocls_eqb r o && negb (ocls_eqb o oArr).
(* isinstance(x, type(self)): SE3 is a subclass of SO3, SE2 of SO2, UnitQuaternion of Quaternion *)
Definition subclass_of (o r : ocls) : bool :=
  exact r o || match o, r with oSE3, oSO3 | oSE2, oSO2 | oUQ, oQ => true | _, _ => false end.
Inductive melt := V (c : ocls) | Junk.
(* is the element a member of the receiver's group?  (a unit quaternion is a quaternion; an SE(3) matrix is NOT a member of SO(3)) *)
Definition member (r : ocls) (e : melt) : bool :=
  match e with V c => exact r c || (ocls_eqb r oQ && ocls_eqb c oUQ) | Junk => false end.
Record operand := Opd { ocl : ocls; olen : nat }.
(* x.A / x._A: the single value, or the LIST of values when len(x) <> 1 *)
Definition opd_A (x : operand) : melt := if olen x =? 1 then V (ocl x) else Junk.
(* number of rows a single value of the class spreads into when a list slice is assigned an ndarray *)
Definition nrows (c : ocls) : nat :=
  match c with oSO2 => 2 | oSE2 | oSO3 | oTw2 => 3 | oSE3 | oQ | oUQ => 4 | oTw3 => 6 | oArr => 0 end.
Inductive mutator :=
| SetInt (pos : nat)          (* x[i] = v, i normalised to a position; pos >= len: IndexError *)
| SetSlice (lo hi : nat)      (* x[lo:hi] = v *)
| Append
| Insert (pos : nat)          (* position already clamped to 0..len *)
| Extend.
Fixpoint replace_nth {A} (l : list A) (n : nat) (x : A) : list A :=
  match l, n with [] , _ => [] | _ :: t, 0 => x :: t | h :: t, S k => h :: replace_nth t k x end.

(* the mutators, parametrised by the type guard g r (class of the operand) *)
Definition mutate (g : ocls -> ocls -> bool) (r : ocls) (d : list melt) (m : mutator) (x : operand) : result (list melt) :=
  if negb (g r (ocl x)) then Err ValueError                       (* can't insert / append different type of object *)
  else match m with
  | Extend => Ok (d ++ repeat (V (ocl x)) (olen x))                (* super().extend(iterable.data) *)
  | _ =>
    if negb (olen x =? 1) then Err ValueError                      (* len(value) != 1 (fix b1d6482; it was len(value) > 1) *)
    else match m with
    | SetInt pos => if pos <? length d then Ok (replace_nth d pos (opd_A x)) else Err IndexError
    | SetSlice lo hi => Err ValueError                             (* a slice index is rejected (fix fcdd4db; list slice assignment
                                                                      iterated value.A and stored the rows of the matrix) *)
    | Append => Ok (d ++ [opd_A x])
    | Insert pos => Ok (firstn pos d ++ [opd_A x] ++ skipn pos d)
    | Extend => Ok d
    end
  end.
(* the code as it is uses the exact-type guard *)
Definition mutate_impl := mutate exact.

(* constructor given an object *)
Definition converts (r o : ocls) : bool := match r, o with oTw3, oSE3 | oTw2, oSE2 => true | _, _ => false end.
(* arg.shape == self.shape: the value shapes of SE3 / SO3 and of SE2 / SO2 differ; UnitQuaternion and Quaternion share (4,) *)
Definition same_shape (o r : ocls) : bool := exact r o || match o, r with oUQ, oQ => true | _, _ => false end.
Definition ctor_obj (r : ocls) (x : operand) : result (list melt) :=
  if subclass_of (ocl x) r && same_shape (ocl x) r                                (* isinstance(arg, self.__class__) and arg.shape == self.shape *)
  then Ok (repeat (V (ocl x)) (olen x))                                          (*   (fix ac96bee): copy.copy(arg.data) *)
  else if converts r (ocl x) then Ok (repeat (V r) (olen x))                      (* list(converter(arg).data) (fix 5c063cb) *)
  else match r with
  | oUQ => match ocl x with
           | oSO3 | oSE3 => Ok (repeat (V oUQ) (olen x))                          (* [r2q(x.R) for x in s] *)
           | _ => if olen x =? 0 then Err IndexError else Err ValueError end      (* s[0] on an empty object *)
  | _ => Err ValueError end.

Definition all_member (r : ocls) (d : list melt) : Prop := Forall (fun e => member r e = true) d.
Definition mut_summary (r : ocls) (n : nat) (m : mutator) (x : operand) : nat * list bool :=
  match mutate_impl r (repeat (V r) n) m x with Err e => (exc_code e, []) | Ok d => (0, map (member r) d) end.
Definition obj_summary (r : ocls) (x : operand) : nat * list bool :=
  match ctor_obj r x with Err e => (exc_code e, []) | Ok d => (0, map (member r) d) end.

(* constructor given a LIST of objects whose first element is of the receiver's exact class (arghandler, list path,
   `type(arg[0]) == type(self)`): every element must be of that class (assert) and hold exactly one value (fix 2eab8b7;
   a multi-valued or empty element was stored as a nested list); then self.data = [x.A for x in arg] *)
Definition ctor_objs (r : ocls) (l : list operand) : result (list melt) :=
  match l with
  | [] => Ok []
  | h :: _ =>
    if negb (exact r (ocl h)) then Err TypeError            (* not this path: outside the model (wf_objs) *)
    else if negb (forallb (fun x => exact r (ocl x)) l) then Err AssertionError
    else if negb (forallb (fun x => olen x =? 1) l) then Err ValueError
    else Ok (map opd_A l)
  end.
Definition objs_summary (r : ocls) (l : list operand) : nat * list bool :=
  match ctor_objs r l with Err e => (exc_code e, []) | Ok d => (0, map (member r) d) end.
