(* C03 -- the logarithm of fix 84bd1d7 (atan2 angle, symmetric-part half-turn axis) and the closed-form 2-D logarithm of
   fix c4462a7: theorems over R about the hand model of theories/Model/C03_ExpLog.v (fixed; compiled at setup). *)
From Coq Require Import Reals ZArith Lra Nsatz Psatz List.
From SM Require Import Base.Ops Base.Lin Base.RInst Base.RLin Model.C03_ExpLog Model.C03_Lemmas Model.C05_Trig.
Open Scope R_scope.

(* ---------------- atan2 facts ---------------- *)
Lemma cs_atan2_unit x y : x*x + y*y = 1 -> cos (atan2 y x) = x /\ sin (atan2 y x) = y.
Proof.
  intros H. rewrite cos_atan2, sin_atan2 by lra. rewrite H, sqrt_1. split; field.
Qed.
Lemma atan2_nonneg y x : 0 <= y -> 0 < x*x + y*y -> 0 <= atan2 y x.
Proof.
  intros Hy H. destruct (Rle_dec 0 (atan2 y x)) as [|N]; [assumption|exfalso].
  pose proof (atan2_range y x) as [Hl _]. assert (Hs : sin (atan2 y x) < 0) by (apply sin_lt_0_var; lra).
  rewrite sin_atan2 in Hs by exact H. pose proof (hyp_gt0 x y H) as Hq.
  assert (0 <= y / sqrt (x*x + y*y)) by (apply Rmult_le_pos; [lra | left; apply Rinv_0_lt_compat; lra]). lra.
Qed.
Lemma cos1_sin0_zero x : - (2*PI) < x < 2*PI -> cos x = 1 -> x = 0.
Proof.
  intros Hx Hc. pose proof PI_RGT_0.
  assert (Hs : sin (x/2) = 0).
  { replace x with (2*(x/2)) in Hc by field. rewrite cos_2a_sin in Hc. nra. }
  destruct (Rtotal_order (x/2) 0) as [L|[E|G]]; [|lra|].
  - assert (sin (x/2) < 0) by (apply sin_lt_0_var; lra). lra.
  - assert (0 < sin (x/2)) by (apply sin_gt_0; lra). lra.
Qed.
Lemma atan2_sin_cos th : - PI < th <= PI -> atan2 (sin th) (cos th) = th.
Proof.
  intros Hth. pose proof (cs_unit th) as Hu.
  destruct (cs_atan2_unit (cos th) (sin th) Hu) as [Hc Hs].
  pose proof (atan2_range (sin th) (cos th)) as Hr. set (p := atan2 (sin th) (cos th)) in *.
  assert (p - th = 0); [|lra]. apply cos1_sin0_zero; [lra|].
  rewrite cos_minus, Hc, Hs. exact Hu.
Qed.

Lemma Reqb_false x y : x <> y -> Reqb x y = false.
Proof. intros H. unfold Reqb. destruct (Req_EM_T x y); [contradiction | reflexivity]. Qed.
Lemma st_is_zero_false (Rm : M33 R) : log_st Rops Rm <> 0 -> st_is_zero Rops Rm = false.
Proof. intros H. unfold st_is_zero. cbn [eqb zero Rops]. apply Reqb_false. exact H. Qed.

(* ---------------- the quantities of trlog on an explicit matrix ---------------- *)
Section Explicit.
Variables r00 r01 r02 r10 r11 r12 r20 r21 r22 : R.
Let Rm : M33 R := ((r00,r01,r02),(r10,r11,r12),(r20,r21,r22)).
Let c := (r00 + r11 + r22 - 1) / 2.
Let l0 := (r21 - r12)/2. Let l1 := (r02 - r20)/2. Let l2 := (r10 - r01)/2.

Lemma log_c_eq : log_c Rops Rm = c.
Proof. unfold Rm, c. c03_simpl. field. Qed.
Lemma log_li_eq : log_li Rops Rm = (l0, l1, l2).
Proof. unfold Rm, l0, l1, l2. c03_simpl. tuple_eq ltac:(field). Qed.
Lemma log_st_eq : log_st Rops Rm = sqrt (l0*l0 + l1*l1 + l2*l2).
Proof. unfold log_st. rewrite log_li_eq. reflexivity. Qed.

Hypothesis HR : SO3 Rm.
Lemma li_normsq : l0*l0 + l1*l1 + l2*l2 = 1 - c*c.
Proof. exact (so3_vex_normsq _ _ _ _ _ _ _ _ _ HR). Qed.
Lemma c_range : -1 <= c <= 1.
Proof.
  pose proof li_normsq. pose proof (Rle_0_sqr l0). pose proof (Rle_0_sqr l1). pose proof (Rle_0_sqr l2).
  unfold Rsqr in *. nra.
Qed.
Lemma st_facts : let st := log_st Rops Rm in 0 <= st /\ st*st = 1 - c*c /\ c*c + st*st = 1.
Proof.
  cbv zeta. rewrite log_st_eq, li_normsq. pose proof c_range.
  assert (0 <= 1 - c*c) by nra. split; [apply sqrt_pos|]. rewrite sqrt_sqrt by assumption. split; ring.
Qed.
(* the angle: cos = c, sin = st, in [0, PI] *)
Lemma theta_facts : let th := log_theta Rops Rm in
  cos th = c /\ sin th = log_st Rops Rm /\ 0 <= th <= PI.
Proof.
  cbv zeta. unfold log_theta. rewrite log_c_eq. cbn [atan2_ Rops]. destruct st_facts as (H0 & H1 & H2).
  destruct (cs_atan2_unit c (log_st Rops Rm) H2) as [Hc Hs]. repeat split; try assumption.
  - apply atan2_nonneg; [assumption | lra].
  - apply atan2_range.
Qed.
End Explicit.

(* ---------------- general branch ---------------- *)

(* exp of (theta * u) for a unit u and theta above the unit threshold is rodrigues_th u theta *)
Lemma trexp_so3_scaled K (u0 u1 u2 th : R) :
  thr_ok K -> u0*u0 + u1*u1 + u2*u2 = 1 -> thv Rops (k_unit K) < th ->
  trexp_so3 Rops K (u0*th, u1*th, u2*th) = Ok (rodrigues_th Rops (u0,u1,u2) th).
Proof.
  intros (Kz & Kzu & Kh & Ke & Kiu & Kz1 & Kiu1) Hu Hth. pose proof eps_pos as He. rewrite thv_R in Hth.
  assert (0 <= IZR (k_unit K) * eps Rops) by (apply Rmult_le_pos; lra).
  assert (Hn : norm3 Rops (u0*th, u1*th, u2*th) = th).
  { c03_simpl. replace (_ + _ + _) with (th*th*(u0*u0 + u1*u1 + u2*u2)) by ring. apply sqrt_sq_scale; [lra | exact Hu]. }
  unfold trexp_so3, rodrigues3, iszerovec3, unitvec_norm3. rewrite Hn. cbn [ltb leb Rops].
  replace (Rltb th _) with false by (symmetry; apply Rltb_false; rewrite thv_R; nra).
  replace (Rleb _ th) with true by (symmetry; apply Rleb_true; rewrite thv_R; lra).
  cbn [div Rops]. f_equal. f_equal. repeat apply f_equal2; field; lra.
Qed.

Theorem explog_so3_general (K : thr) (Rm : M33 R) :
  thr_ok K -> SO3 Rm ->
  trlog_so3_branch Rops K Rm = BrGen ->
  thv Rops (k_unit K) < log_theta Rops Rm ->
  trexp_so3 Rops K (trlog_so3_tw Rops K Rm) = Ok Rm /\
  norm3 Rops (trlog_so3_tw Rops K Rm) = log_theta Rops Rm /\ 0 < log_theta Rops Rm <= PI.
Proof.
  intros HK HR Hbr Hth. pose proof HK as (Kz & Kzu & Kh & Ke & Kiu & Kz1 & Kiu1). pose proof eps_pos as He.
  destruct Rm as [[[[r00 r01] r02] [[r10 r11] r12]] [[r20 r21] r22]]. unfold M33, V3 in *.
  destruct (theta_facts _ _ _ _ _ _ _ _ _ HR) as (Hcos & Hsin & Hr0 & HrP). cbv zeta in *.
  destruct (st_facts _ _ _ _ _ _ _ _ _ HR) as (Hst0 & Hst2 & Hcs). cbv zeta in *.
  pose proof (log_li_eq r00 r01 r02 r10 r11 r12 r20 r21 r22) as Hli.
  pose proof (li_normsq _ _ _ _ _ _ _ _ _ HR) as Hn. cbv zeta in *.
  set (Rm := ((r00,r01,r02),(r10,r11,r12),(r20,r21,r22))) in *.
  set (th := log_theta Rops Rm) in *. set (st := log_st Rops Rm) in *. set (c := (r00 + r11 + r22 - 1)/2) in *.
  assert (Hth0 : 0 < th). { rewrite thv_R in Hth. assert (0 <= IZR (k_unit K) * eps Rops) by (apply Rmult_le_pos; lra). lra. }
  assert (Hstpos : 0 < st).
  { destruct (Req_dec st 0) as [E|E]; [|lra]. exfalso. rewrite E in Hsin.
    (* sin th = 0, 0 < th <= PI -> th = PI -> c = -1 : excluded by the branch test *)
    assert (th = PI). { destruct (Req_dec th PI); [assumption|]. assert (0 < sin th) by (apply sin_gt_0; lra). lra. }
    assert (c = -1) by (rewrite <- Hcos; replace th with PI by auto; apply cos_PI).
    unfold trlog_so3_branch in Hbr. destruct (iseye33 Rops K _); [discriminate|].
    match type of Hbr with (if ?b then _ else _) = _ => destruct b eqn:Hb; [discriminate|] end.
    cbn [ltb Rops] in Hb. apply Rltb_false in Hb. apply Hb. rewrite thv_R. unfold Rm. c03_simpl.
    replace (r00 + r11 + r22 + 1) with 0 by (unfold c in *; lra). rewrite Rabs_R0. nra. }
  (* the twist-form log *)
  assert (Hw : trlog_so3_tw Rops K Rm = ((r21 - r12)/2/st*th, (r02 - r20)/2/st*th, (r10 - r01)/2/st*th)).
  { unfold trlog_so3_tw. rewrite Hbr, st_is_zero_false by (fold st; lra). unfold log_general. fold th st. clearbody th st. unfold Rm. c03_simpl.
    tuple_eq ltac:(field; lra). }
  rewrite Hw.
  assert (Hu : ((r21 - r12)/2/st)*((r21 - r12)/2/st) + ((r02 - r20)/2/st)*((r02 - r20)/2/st) + ((r10 - r01)/2/st)*((r10 - r01)/2/st) = 1).
  { transitivity (((r21 - r12)/2*((r21 - r12)/2) + (r02 - r20)/2*((r02 - r20)/2) + (r10 - r01)/2*((r10 - r01)/2))/(st*st)); [field; lra|].
    rewrite Hn, Hst2. field. rewrite <- Hst2. nra. }
  split; [|split; [|lra]].
  - rewrite trexp_so3_scaled by assumption. f_equal. unfold rodrigues_th. cbn [cos_ sin_ Rops]. rewrite Hcos, Hsin.
    apply rodrigues_of_log; [exact HR | exact Hst2 | lra].
  - c03_simpl. replace (_ + _ + _) with (th*th*(((r21 - r12)/2/st)*((r21 - r12)/2/st) + ((r02 - r20)/2/st)*((r02 - r20)/2/st) + ((r10 - r01)/2/st)*((r10 - r01)/2/st))) by ring.
    apply sqrt_sq_scale; [lra | exact Hu].
Qed.

(* log(exp S) = S in the general branch: S = theta u, u unit, 0 < theta < pi *)
Theorem logexp_so3_general K (u : V3 R) th :
  normsq3 Rops u = 1 -> 0 < th < PI ->
  trlog_so3_branch Rops K (rodrigues_th Rops u th) = BrGen ->
  trlog_so3_tw Rops K (rodrigues_th Rops u th) = vscale3 Rops th u.
Proof.
  intros Hu Hth Hbr. unfold trlog_so3_tw. rewrite Hbr.
  assert (Hs : 0 < sin th) by (apply sin_gt_0; lra).
  destruct u as [[u0 u1] u2].
  assert (Hli : log_li Rops (rodrigues_th Rops (u0,u1,u2) th) = (sin th * u0, sin th * u1, sin th * u2)).
  { unfold rodrigues_th. cbn [cos_ sin_ Rops]. generalize (cos th) (sin th). intros c s. c03_simpl. tuple_eq ltac:(field). }
  assert (Hst : log_st Rops (rodrigues_th Rops (u0,u1,u2) th) = sin th).
  { unfold log_st. rewrite Hli. c03_simpl. replace (_ + _ + _) with (sin th * sin th * (u0*u0 + u1*u1 + u2*u2)) by ring.
    apply sqrt_sq_scale; [lra|]. c03_simpl. exact Hu. }
  assert (Hc : log_c Rops (rodrigues_th Rops (u0,u1,u2) th) = cos th).
  { unfold rodrigues_th. cbn [cos_ sin_ Rops]. c03_simpl. generalize (cos th) (sin th). intros c s.
    transitivity ((3 - 2*(1 - c)*(u0*u0 + u1*u1 + u2*u2) - 1)/(1+1)); [f_equal; ring | rewrite Hu; field]. }
  assert (Hlt : log_theta Rops (rodrigues_th Rops (u0,u1,u2) th) = th).
  { unfold log_theta. rewrite Hst, Hc. cbn [atan2_ Rops]. apply atan2_sin_cos. lra. }
  rewrite st_is_zero_false by (rewrite Hst; lra). unfold log_general.
  rewrite Hlt, Hst. unfold rodrigues_th. cbn [cos_ sin_ Rops]. revert Hs.
  generalize (cos th) (sin th). intros c s Hs. c03_simpl. tuple_eq ltac:(field; lra).
Qed.

(* ---------------- half-turn branch: algebra ---------------- *)

(* Rodrigues rebuilt from its parts: unit w, sin*w = l, (1-c) w w' = B  ==>  c I + skew(l) + B *)
Lemma rod_from_parts w0 w1 w2 c st l0 l1 l2 B00 B01 B02 B11 B12 B22 :
  w0*w0 + w1*w1 + w2*w2 = 1 -> st*w0 = l0 -> st*w1 = l1 -> st*w2 = l2 ->
  (1-c)*(w0*w0) = B00 -> (1-c)*(w0*w1) = B01 -> (1-c)*(w0*w2) = B02 ->
  (1-c)*(w1*w1) = B11 -> (1-c)*(w1*w2) = B12 -> (1-c)*(w2*w2) = B22 ->
  rodrigues_cs Rops (w0,w1,w2) c st =
  ((c + B00, - l2 + B01, l1 + B02), (l2 + B01, c + B11, - l0 + B12), (- l1 + B02, l0 + B12, c + B22)).
Proof.
  intros Hw <- <- <- <- <- <- <- <- <-. c03_simpl.
  assert (E : w2*w2 = 1 - w0*w0 - w1*w1) by lra.
  tuple_eq ltac:(try ring).
  all: assert (E2 : w2^2 = 1 - w0^2 - w1^2) by (simpl; lra); ring_simplify; rewrite E2; ring.
Qed.

Lemma sq_eq_nonneg a b : 0 <= a -> 0 <= b -> a*a = b*b -> a = b.
Proof. intros. nra. Qed.

(* the half-turn axis: a column b of the rank-one matrix B = (1-c) n n', normalised by sqrt((1-c) B_kk), sign fixed by l *)
Lemma axis_from_column b0 b1 b2 bkk q l0 l1 l2 st B00 B01 B02 B11 B12 B22 :
  0 < bkk -> 0 < q -> 0 <= st -> st*st = l0*l0 + l1*l1 + l2*l2 ->
  b0*b0 = B00*bkk -> b0*b1 = B01*bkk -> b0*b2 = B02*bkk -> b1*b1 = B11*bkk -> b1*b2 = B12*bkk -> b2*b2 = B22*bkk ->
  b0*(b0*l0 + b1*l1 + b2*l2) = q*bkk*l0 -> b1*(b0*l0 + b1*l1 + b2*l2) = q*bkk*l1 -> b2*(b0*l0 + b1*l1 + b2*l2) = q*bkk*l2 ->
  B00 + B11 + B22 = q ->
  let d := sqrt (q*bkk) in
  let w := (b0/d, b1/d, b2/d) in
  let wf := if Rltb (dot3 Rops w (l0,l1,l2)) 0 then vneg3 Rops w else w in
  let '(f0,f1,f2) := wf in
  f0*f0 + f1*f1 + f2*f2 = 1 /\ st*f0 = l0 /\ st*f1 = l1 /\ st*f2 = l2 /\
  q*(f0*f0) = B00 /\ q*(f0*f1) = B01 /\ q*(f0*f2) = B02 /\ q*(f1*f1) = B11 /\ q*(f1*f2) = B12 /\ q*(f2*f2) = B22.
Proof.
  intros Hb Hq Hst Hst2 A00 A01 A02 A11 A12 A22 L0 L1 L2 Htr. cbv zeta.
  assert (Hd2 : sqrt (q*bkk) * sqrt (q*bkk) = q*bkk) by (apply sqrt_sqrt; nra).
  assert (Hd : 0 < sqrt (q*bkk)) by (apply sqrt_lt_R0; nra).
  set (d := sqrt (q*bkk)) in *. clearbody d.
  set (s := dot3 Rops (b0/d, b1/d, b2/d) (l0,l1,l2)).
  assert (Hs : s = (b0*l0 + b1*l1 + b2*l2)/d) by (unfold s; c03_simpl; field; lra).
  (* w_i * s = l_i *)
  assert (W0 : b0/d*s = l0) by (rewrite Hs; transitivity (b0*(b0*l0 + b1*l1 + b2*l2)/(d*d)); [field; lra | rewrite L0, Hd2; field; lra]).
  assert (W1 : b1/d*s = l1) by (rewrite Hs; transitivity (b1*(b0*l0 + b1*l1 + b2*l2)/(d*d)); [field; lra | rewrite L1, Hd2; field; lra]).
  assert (W2 : b2/d*s = l2) by (rewrite Hs; transitivity (b2*(b0*l0 + b1*l1 + b2*l2)/(d*d)); [field; lra | rewrite L2, Hd2; field; lra]).
  assert (Hss : s*s = st*st).
  { rewrite Hst2. rewrite <- W0 at 1. rewrite <- W1 at 1. rewrite <- W2 at 1.
    replace (b0/d*s*l0 + b1/d*s*l1 + b2/d*s*l2) with (s * ((b0*l0 + b1*l1 + b2*l2)/d)) by (field; lra).
    rewrite <- Hs. reflexivity. }
  (* products *)
  assert (P : forall x y Bxy, x*y = Bxy*bkk -> q*(x/d*(y/d)) = Bxy).
  { intros x y Bxy E. transitivity (q*(x*y)/(d*d)); [field; lra | rewrite E, Hd2; field; lra]. }
  assert (Hww : b0/d*(b0/d) + b1/d*(b1/d) + b2/d*(b2/d) = 1).
  { apply Rmult_eq_reg_l with q; [|lra]. rewrite !Rmult_plus_distr_l.
    rewrite (P _ _ _ A00), (P _ _ _ A11), (P _ _ _ A22). lra. }
  unfold Rltb. destruct (Rlt_dec s 0) as [Neg|Pos]; cbn [vneg3 neg Rops].
  - assert (Es : - s = st) by (apply sq_eq_nonneg; [lra | lra | nra]).
    repeat split.
    + rewrite <- Hww. ring.
    + rewrite <- Es, <- W0. ring.
    + rewrite <- Es, <- W1. ring.
    + rewrite <- Es, <- W2. ring.
    + rewrite <- (P _ _ _ A00). ring.
    + rewrite <- (P _ _ _ A01). ring.
    + rewrite <- (P _ _ _ A02). ring.
    + rewrite <- (P _ _ _ A11). ring.
    + rewrite <- (P _ _ _ A12). ring.
    + rewrite <- (P _ _ _ A22). ring.
  - assert (Es : s = st) by (apply sq_eq_nonneg; [lra | lra | nra]).
    repeat split; try (rewrite <- Es; assumption); try assumption; try (apply P; assumption); rewrite <- Es; [rewrite <- W0 | rewrite <- W1 | rewrite <- W2]; ring.
Qed.

Section P.
Variables r00 r01 r02 r10 r11 r12 r20 r21 r22 : R.
Hypothesis HR : SO3 ((r00,r01,r02),(r10,r11,r12),(r20,r21,r22)).
Let t := r00 + r11 + r22 - 1.
Let b00 := 2*r00 - t. Let b11 := 2*r11 - t. Let b22 := 2*r22 - t.
Let b01 := r01 + r10. Let b02 := r02 + r20. Let b12 := r12 + r21.
Let m0 := r21 - r12. Let m1 := r02 - r20. Let m2 := r10 - r01.
Lemma so3_sym_rank1 :
  b00*b11 = b01*b01 /\ b00*b22 = b02*b02 /\ b11*b22 = b12*b12 /\
  b01*b02 = b00*b12 /\ b01*b12 = b11*b02 /\ b02*b12 = b22*b01.
Proof. unfold b00,b11,b22,b01,b02,b12,t. so3_facts HR. repeat split; nsatz. Qed.
Lemma so3_sym_axis :
  b01*m0 = b00*m1 /\ b02*m0 = b00*m2 /\ b01*m1 = b11*m0 /\ b12*m1 = b11*m2 /\ b02*m2 = b22*m0 /\ b12*m2 = b22*m1.
Proof. unfold b00,b11,b22,b01,b02,b12,m0,m1,m2,t. so3_facts HR. repeat split; nsatz. Qed.

(* the same in terms of B = (R+R')/2 - c I and l = vex((R-R')/2) *)
Let c := (r00 + r11 + r22 - 1)/2.
Let B00 := r00 - c. Let B11 := r11 - c. Let B22 := r22 - c.
Let B01 := (r01 + r10)/2. Let B02 := (r02 + r20)/2. Let B12 := (r12 + r21)/2.
Let l0 := (r21 - r12)/2. Let l1 := (r02 - r20)/2. Let l2 := (r10 - r01)/2.
Lemma so3_B_facts :
  (B00*B11 = B01*B01 /\ B00*B22 = B02*B02 /\ B11*B22 = B12*B12 /\
   B01*B02 = B00*B12 /\ B01*B12 = B11*B02 /\ B02*B12 = B22*B01) /\
  (B01*l0 = B00*l1 /\ B02*l0 = B00*l2 /\ B01*l1 = B11*l0 /\ B12*l1 = B11*l2 /\ B02*l2 = B22*l0 /\ B12*l2 = B22*l1) /\
  B00 + B11 + B22 = 1 - c.
Proof.
  destruct so3_sym_rank1 as (R1&R2&R3&R4&R5&R6). destruct so3_sym_axis as (A1&A2&A3&A4&A5&A6).
  assert (E00 : b00 = 2*B00) by (unfold b00, B00, c, t; field).
  assert (E11 : b11 = 2*B11) by (unfold b11, B11, c, t; field).
  assert (E22 : b22 = 2*B22) by (unfold b22, B22, c, t; field).
  assert (E01 : b01 = 2*B01) by (unfold b01, B01; field).
  assert (E02 : b02 = 2*B02) by (unfold b02, B02; field).
  assert (E12 : b12 = 2*B12) by (unfold b12, B12; field).
  assert (F0 : m0 = 2*l0) by (unfold m0, l0; field).
  assert (F1 : m1 = 2*l1) by (unfold m1, l1; field).
  assert (F2 : m2 = 2*l2) by (unfold m2, l2; field).
  rewrite E00, E11, E22, E01, E02, E12 in *. rewrite F0, F1, F2 in *.
  assert (Htr : B00 + B11 + B22 = 1 - c) by (unfold B00, B11, B22, c; field).
  clearbody B00 B11 B22 B01 B02 B12 l0 l1 l2.
  repeat split; lra.
Qed.
End P.

(* ---------------- half-turn branch: the theorem ---------------- *)

Definition thr_ok2 (K : thr) : Prop := thr_ok K /\ IZR (k_half K) * eps Rops < 2 /\ IZR (k_unit K) * eps Rops < 1.

Lemma sympart_minus_eq r00 r01 r02 r10 r11 r12 r20 r21 r22 c :
  sympart_minus Rops ((r00,r01,r02),(r10,r11,r12),(r20,r21,r22)) c =
  ((r00 - c, (r01 + r10)/2, (r02 + r20)/2), ((r01 + r10)/2, r11 - c, (r12 + r21)/2), ((r02 + r20)/2, (r12 + r21)/2, r22 - c)).
Proof. c03_simpl. tuple_eq ltac:(field). Qed.

Ltac ltype_k lk :=
  match goal with |- ?x * ?S = ?q * ?bkk * ?li =>
    let ES := fresh "ES" in let EX := fresh "EX" in
    match goal with Htr : ?tB = q |- _ =>
      assert (ES : S = tB * lk) by lra; rewrite Htr in ES;
      assert (EX : x * lk = bkk * li) by lra;
      rewrite ES; transitivity (q * (x * lk)); [ring | first [ring | rewrite EX; ring]]
    end
  end.

Theorem explog_so3_halfturn (K : thr) (Rm : M33 R) :
  thr_ok2 K -> SO3 Rm ->
  trlog_so3_branch Rops K Rm = BrHalf ->
  trexp_so3 Rops K (trlog_so3_tw Rops K Rm) = Ok Rm /\
  norm3 Rops (trlog_so3_tw Rops K Rm) = log_theta Rops Rm /\ 0 < log_theta Rops Rm <= PI.
Proof.
  intros (HK & Kh2 & Ku1) HR Hbr. pose proof HK as (Kz & Kzu & Kh & Ke & Kiu & Kz1 & Kiu1). pose proof eps_pos as He.
  destruct Rm as [[[[r00 r01] r02] [[r10 r11] r12]] [[r20 r21] r22]]. unfold M33, V3 in *.
  destruct (theta_facts _ _ _ _ _ _ _ _ _ HR) as (Hcos & Hsin & Hr0 & HrP). cbv zeta in *.
  destruct (st_facts _ _ _ _ _ _ _ _ _ HR) as (Hst0 & Hst2 & Hcs). cbv zeta in *.
  pose proof (log_li_eq r00 r01 r02 r10 r11 r12 r20 r21 r22) as Hli.
  pose proof (log_c_eq r00 r01 r02 r10 r11 r12 r20 r21 r22) as Hc.
  pose proof (li_normsq _ _ _ _ _ _ _ _ _ HR) as Hn. cbv zeta in *.
  destruct (so3_B_facts _ _ _ _ _ _ _ _ _ HR) as ((R1&R2&R3&R4&R5&R6) & (A1&A2&A3&A4&A5&A6) & Htr).
  set (Rm := ((r00,r01,r02),(r10,r11,r12),(r20,r21,r22))) in *.
  set (th := log_theta Rops Rm) in *. set (st := log_st Rops Rm) in *. set (c := (r00 + r11 + r22 - 1)/2) in *.
  set (B00 := r00 - c) in *. set (B11 := r11 - c) in *. set (B22 := r22 - c) in *.
  set (B01 := (r01 + r10)/2) in *. set (B02 := (r02 + r20)/2) in *. set (B12 := (r12 + r21)/2) in *.
  set (l0 := (r21 - r12)/2) in *. set (l1 := (r02 - r20)/2) in *. set (l2 := (r10 - r01)/2) in *.
  (* the band: c < 0 *)
  assert (Hcneg : c < 0).
  { unfold trlog_so3_branch in Hbr. destruct (iseye33 Rops K _); [discriminate|].
    match type of Hbr with (if ?b then _ else _) = _ => destruct b eqn:Hb; [|discriminate] end.
    cbn [ltb Rops] in Hb. apply Rltb_true in Hb. rewrite thv_R in Hb. unfold Rm in Hb. c03_simpl.
    apply Rabs_def2 in Hb. unfold c. lra. }
  assert (Hq : 0 < 1 - c) by lra.
  assert (Hth : PI/2 < th).
  { destruct (Rlt_dec (PI/2) th); [assumption|exfalso]. assert (0 <= cos th) by (apply cos_ge_0; lra). lra. }
  assert (Hthu : thv Rops (k_unit K) < th).
  { rewrite thv_R. pose proof PI2_1. lra. }
  (* the result of the branch *)
  unfold trlog_so3_tw. rewrite Hbr. unfold halfturn_w. fold th.
  assert (HB : sympart_minus Rops Rm c = ((B00,B01,B02),(B01,B11,B12),(B02,B12,B22))) by (unfold Rm; apply sympart_minus_eq).
  unfold halfturn_axis. rewrite Hc, Hli. fold c. rewrite !HB.
  assert (Hst2' : st*st = l0*l0 + l1*l1 + l2*l2) by lra.
  (* whichever column the argmax picks, its diagonal entry is positive *)
  assert (Fin : forall f0 f1 f2 : R,
     f0*f0 + f1*f1 + f2*f2 = 1 /\ st*f0 = l0 /\ st*f1 = l1 /\ st*f2 = l2 /\
     (1-c)*(f0*f0) = B00 /\ (1-c)*(f0*f1) = B01 /\ (1-c)*(f0*f2) = B02 /\ (1-c)*(f1*f1) = B11 /\ (1-c)*(f1*f2) = B12 /\ (1-c)*(f2*f2) = B22 ->
     trexp_so3 Rops K (f0*th, f1*th, f2*th) = Ok Rm /\ norm3 Rops (f0*th, f1*th, f2*th) = th /\ 0 < th <= PI).
  { intros f0 f1 f2 (Hf & S0 & S1 & S2 & P00 & P01 & P02 & P11 & P12 & P22).
    split; [|split; [|lra]].
    - rewrite trexp_so3_scaled by assumption. f_equal. unfold rodrigues_th. cbn [cos_ sin_ Rops]. rewrite Hcos, Hsin.
      rewrite (rod_from_parts f0 f1 f2 c st l0 l1 l2 B00 B01 B02 B11 B12 B22) by assumption.
      unfold Rm, B00, B11, B22, B01, B02, B12, l0, l1, l2. tuple_eq ltac:(field).
    - c03_simpl. replace (_ + _ + _) with (th*th*(f0*f0 + f1*f1 + f2*f2)) by ring. apply sqrt_sq_scale; [lra | exact Hf]. }
  unfold argmax3. cbn [leb Rops]. unfold Rleb.
  destruct (Rle_dec B11 B00) as [H10|H10]; destruct (Rle_dec B22 B00) as [H20|H20]; cbn [andb];
    try (destruct (Rle_dec B22 B11) as [H21|H21]); cbn [col33 mtr33 diag_k].
  all: cbn [one sub mul div ltb zero sqrt_ Rops].
  all: match goal with
       | |- context [sqrt (_ * ?bkk)] => assert (Hbkk : 0 < bkk) by lra
       end.
  all: match goal with
       | |- context [Rltb (dot3 Rops (?b0 / sqrt (_ * ?bkk), ?b1 / _, ?b2 / _) _) 0] =>
         pose proof (axis_from_column b0 b1 b2 bkk (1 - c) l0 l1 l2 st B00 B01 B02 B11 B12 B22 Hbkk Hq Hst0 Hst2') as AX
       end.
  all: repeat match type of AX with
       | (?P -> _) => let H := fresh "Hp" in assert (H : P); [ clear AX; solve [ring | lra | ltype_k l0 | ltype_k l1 | ltype_k l2] | specialize (AX H); clear H ]
       end.
  all: cbv zeta in AX.
  all: match goal with |- context [if ?b then _ else _] => destruct b end.
  all: cbn [vneg3 neg Rops] in *.
  all: cbv beta iota zeta in AX; cbv beta iota zeta; apply Fin; exact AX.
Qed.

(* ---------------- exp(log R) = R on the whole of SO(3) outside the identity band ---------------- *)
Theorem explog_SO3 (K : thr) (Rm : M33 R) :
  thr_ok2 K -> SO3 Rm ->
  trlog_so3_branch Rops K Rm <> BrEye ->
  thv Rops (k_unit K) < log_theta Rops Rm ->
  trexp_so3 Rops K (trlog_so3_tw Rops K Rm) = Ok Rm /\
  norm3 Rops (trlog_so3_tw Rops K Rm) = log_theta Rops Rm /\ 0 < log_theta Rops Rm <= PI.
Proof.
  intros HK HR Hne Hth. destruct (trlog_so3_branch Rops K Rm) eqn:Hbr.
  - contradiction.
  - apply explog_so3_halfturn; assumption.
  - apply explog_so3_general; [exact (proj1 HK) | assumption..].
Qed.


(* ---------------- 2-D: closed-form logarithm (fix c4462a7) ---------------- *)
Definition thr_ok_2d (K : thr) : Prop := thr_ok K /\ IZR (k_iszero K) <= IZR (k_unit K).

(* the value of trexp2 on an se(2) vector with |theta| above the unit threshold *)
Lemma trexp2_se2_value K v0 v1 th :
  thr_ok_2d K -> thv Rops (k_unit K) < Rabs th ->
  trexp2_se2 Rops K (v0, v1, th) =
  Ok ((cos th, - sin th, (sin th * v0 - (1 - cos th) * v1)/th),
      (sin th, cos th, ((1 - cos th) * v0 + sin th * v1)/th), (0, 0, 1)).
Proof.
  intros (HK & Kiz) Hth. pose proof HK as (Kz & Kzu & Kh & Ke & Kiu & Kz1 & Kiu1). pose proof eps_pos as He.
  rewrite thv_R in Hth.
  assert (Hku : 0 <= IZR (k_unit K) * eps Rops) by (apply Rmult_le_pos; lra).
  assert (Hzu : IZR (k_zero K) * eps Rops <= IZR (k_unit K) * eps Rops) by (apply Rmult_le_compat_r; lra).
  assert (Hizu : IZR (k_iszero K) * eps Rops <= IZR (k_unit K) * eps Rops) by (apply Rmult_le_compat_r; lra).
  assert (Hphi : 0 < Rabs th) by lra.
  assert (Hth0 : th <> 0) by (intro E; rewrite E, Rabs_R0 in Hphi; lra).
  unfold trexp2_se2, iszerovec3.
  assert (Hn : ~ norm3 Rops (v0, v1, th) < thv Rops (k_zero K)).
  { rewrite thv_R. c03_simpl. intro H.
    assert (Rabs th <= sqrt (v0*v0 + v1*v1 + th*th)).
    { rewrite <- sqrt_sq_abs. apply sqrt_le_1_alt. nra. }
    lra. }
  cbn [ltb Rops]. apply Rltb_false in Hn. rewrite Hn.
  unfold unittwist2_norm, iszero. cbn [ltb abs_ Rops].
  replace (Rltb (Rabs th) _) with false by (symmetry; apply Rltb_false; rewrite thv_R; lra).
  unfold trexp2_unit, rodrigues1_with, iszerovec1, norm1. cbn [div mul sqrt_ ltb Rops].
  assert (Hs1 : sqrt (th / Rabs th * (th / Rabs th)) = 1).
  { assert (Habs2 : Rabs th * Rabs th = th*th) by (rewrite <- Rabs_mult; apply Rabs_pos_eq; nra).
    replace (th / Rabs th * (th / Rabs th)) with ((th*th)/(Rabs th * Rabs th)) by (field; lra).
    rewrite Habs2. replace (th*th/(th*th)) with 1 by (field; assumption). apply sqrt_1. }
  rewrite Hs1. replace (Rltb 1 _) with false by (symmetry; apply Rltb_false; rewrite thv_R; lra).
  f_equal. unfold rodrigues1_th, Vmat2. cbn [cos_ sin_ Rops].
  destruct (Rle_dec 0 th) as [P|N].
  - rewrite (Rabs_pos_eq th) by lra. replace (th/th) with 1 by (field; lra).
    generalize (cos th) (sin th). intros c s. c03_simpl. tuple_eq ltac:(try (field; lra)).
  - rewrite (Rabs_left th) by lra. replace (th / - th) with (-1) by (field; lra).
    rewrite cos_neg, sin_neg. generalize (cos th) (sin th). intros c s. c03_simpl. tuple_eq ltac:(try (field; lra)).
Qed.

(* the two half-angle identities behind V2(theta)/theta . G(theta) = I, with a = b/tan b, b = theta/2 *)
Lemma half_angle_G th : th <> 0 -> - PI < th < PI ->
  let b := th/2 in let a := b / tan b in
  sin th * a + (1 - cos th) * b = th /\ sin th * b - (1 - cos th) * a = 0.
Proof.
  intros H0 Hr. cbv zeta. pose proof PI_RGT_0.
  assert (Hc : 0 < cos (th/2)) by (apply cos_gt_0; lra).
  assert (Hs : sin (th/2) <> 0).
  { destruct (Rlt_dec 0 th).
    - assert (0 < sin (th/2)) by (apply sin_gt_0; lra). lra.
    - assert (sin (th/2) < 0) by (apply sin_lt_0_var; lra). lra. }
  pose proof (cs_unit (th/2)) as Hu.
  replace (sin th) with (2 * sin (th/2) * cos (th/2)) by (rewrite <- sin_2a; f_equal; field).
  replace (cos th) with (1 - 2 * sin (th/2) * sin (th/2)) by (rewrite <- cos_2a_sin; f_equal; field).
  unfold tan. set (sb := sin (th/2)) in *. set (cb := cos (th/2)) in *. clearbody sb cb.
  assert (E : cb*cb = 1 - sb*sb) by lra.
  split.
  - transitivity (th * (cb*cb + sb*sb)); [field; lra | rewrite E; ring].
  - field. lra.
Qed.

(* exp2(log2 T) = T for T in SE(2), outside the identity band, rotation angle above the unit threshold and not a half turn
   (over R, tan(PI/2) is 1/0: the model's a = b/tan b is unspecified exactly at theta = +-PI; in floats tan(pi/2) ~ 1.6e16) *)
Theorem explog2_se2 K (Tm : M33 R) :
  thr_ok_2d K -> SE2 Tm -> iseye33 Rops K Tm = false ->
  let th := (let '((t00,_,_),(t10,_,_),_) := Tm in atan2 t10 t00) in
  thv Rops (k_unit K) < Rabs th -> Rabs th < PI ->
  trexp2_se2 Rops K (trlog2_se2_tw Rops K Tm) = Ok Tm.
Proof.
  intros HK [HSO Hlast] Heye. destruct Tm as [[[[t00 t01] tx] [[t10 t11] ty]] [[z0 z1] z2]]. unfold M33, V3 in *.
  cbv zeta. intros Hth HthP.
  cbn in Hlast. injection Hlast as -> -> ->.
  cbn [t2r2] in HSO. pose proof (SO2_columns _ _ _ _ HSO) as (E1 & E2 & E3).
  assert (Hu : t00*t00 + t10*t10 = 1) by exact E3.
  destruct (cs_atan2_unit t00 t10 Hu) as [Hc Hs].
  unfold trlog2_se2_tw. rewrite Heye. unfold trlog2_theta. cbn [atan2_ Rops].
  set (th := atan2 t10 t00) in *.
  assert (Hth0 : th <> 0).
  { intro E. rewrite E, Rabs_R0, thv_R in Hth. destruct HK as ((Kz & Kzu & _) & _). pose proof eps_pos.
    assert (0 <= IZR (k_unit K) * eps Rops) by (apply Rmult_le_pos; lra). lra. }
  cbn [eqb zero Rops]. replace (Reqb th 0) with false by (symmetry; unfold Reqb; destruct (Req_EM_T th 0); [contradiction|reflexivity]).
  cbn [div mul add neg tan_ Rops]. change (two Rops) with (1+1).
  replace (th/(1+1)) with (th/2) by field.
  rewrite trexp2_se2_value by assumption.
  assert (HrP : - PI < th < PI) by (destruct (Rabs_def2 _ _ HthP); split; assumption).
  destruct (half_angle_G th Hth0 HrP) as [G1 G2]. cbv zeta in G1, G2.
  set (b := th/2) in *. set (a := b / tan b) in *. rewrite Hc, Hs. rewrite Hc, Hs in G1, G2.
  f_equal. clearbody a b.
  assert (X : (t10 * (a * tx + b * ty) - (1 - t00) * (- b * tx + a * ty)) / th = tx).
  { transitivity (((t10*a + (1 - t00)*b) * tx + (t10*b - (1 - t00)*a) * ty)/th); [field; assumption|]. rewrite G1, G2. field. assumption. }
  assert (Y : ((1 - t00) * (a * tx + b * ty) + t10 * (- b * tx + a * ty)) / th = ty).
  { transitivity ((- (t10*b - (1 - t00)*a) * tx + (t10*a + (1 - t00)*b) * ty)/th); [field; assumption|]. rewrite G1, G2. field. assumption. }
  rewrite X, Y, E2. rewrite <- E1. reflexivity.
Qed.

(* log2(exp2 S) = S for S = (v, theta), |theta| above the unit threshold and below PI, when the result is outside the identity band *)
Theorem logexp2_se2 K v0 v1 th Tm :
  thr_ok_2d K -> thv Rops (k_unit K) < Rabs th -> Rabs th < PI ->
  trexp2_se2 Rops K (v0, v1, th) = Ok Tm -> iseye33 Rops K Tm = false ->
  trlog2_se2_tw Rops K Tm = (v0, v1, th).
Proof.
  intros HK Hth HthP Hexp Heye. rewrite trexp2_se2_value in Hexp by assumption. injection Hexp as <-.
  unfold trlog2_se2_tw. rewrite Heye. unfold trlog2_theta. cbn [atan2_ Rops].
  assert (HrP : - PI < th < PI) by (destruct (Rabs_def2 _ _ HthP); split; assumption).
  rewrite atan2_sin_cos by lra.
  assert (Hth0 : th <> 0).
  { intro E. rewrite E, Rabs_R0, thv_R in Hth. destruct HK as ((Kz & Kzu & _) & _). pose proof eps_pos.
    assert (0 <= IZR (k_unit K) * eps Rops) by (apply Rmult_le_pos; lra). lra. }
  cbn [eqb zero Rops]. replace (Reqb th 0) with false by (symmetry; unfold Reqb; destruct (Req_EM_T th 0); [contradiction|reflexivity]).
  cbn [div mul add neg tan_ Rops]. change (two Rops) with (1+1). replace (th/(1+1)) with (th/2) by field.
  destruct (half_angle_G th Hth0 HrP) as [G1 G2]. cbv zeta in G1, G2.
  set (b := th/2) in *. set (a := b / tan b) in *. clearbody a b.
  set (s := sin th) in *. set (c := cos th) in *. clearbody s c.
  apply f_equal2; [apply f_equal2|reflexivity].
  - transitivity (((s*a + (1 - c)*b) * v0 + (s*b - (1 - c)*a) * v1)/th); [field; assumption|]. rewrite G1, G2. field. assumption.
  - transitivity ((- (s*b - (1 - c)*a) * v0 + (s*a + (1 - c)*b) * v1)/th); [field; assumption|]. rewrite G1, G2. field. assumption.
Qed.

(* SO(2): log2 then exp2, and exp2 then log2 *)
Theorem explog2_so2 K (Rm : M22 R) :
  thr_ok K -> SO2 Rm -> thv Rops (k_unit K) < Rabs (trlog2_so2 Rops Rm) ->
  trexp2_so2 Rops K (trlog2_so2 Rops Rm) = Ok Rm.
Proof.
  intros HK HSO Hth. destruct Rm as [[a b] [c d]]. pose proof (SO2_columns _ _ _ _ HSO) as (E1 & E2 & E3).
  unfold trlog2_so2, trlog2_theta in *. cbn [atan2_ Rops] in *.
  destruct (cs_atan2_unit a c E3) as [Hc Hs]. set (th := atan2 c a) in *.
  pose proof HK as (Kz & Kzu & Kh & Ke & Kiu & Kz1 & Kiu1). pose proof eps_pos as He. rewrite thv_R in Hth.
  assert (Hku : 0 <= IZR (k_unit K) * eps Rops) by (apply Rmult_le_pos; lra).
  assert (Hzu : IZR (k_zero K) * eps Rops <= IZR (k_unit K) * eps Rops) by (apply Rmult_le_compat_r; lra).
  assert (Hth0 : th <> 0) by (intro E; rewrite E, Rabs_R0 in Hth; lra).
  unfold trexp2_so2, rodrigues1, iszerovec1, unitvec_norm1, norm1. cbn [mul sqrt_ ltb leb div Rops].
  rewrite sqrt_sq_abs.
  replace (Rltb (Rabs th) _) with false by (symmetry; apply Rltb_false; rewrite thv_R; lra).
  replace (Rleb _ (Rabs th)) with true by (symmetry; apply Rleb_true; rewrite thv_R; lra).
  f_equal. unfold rodrigues1_th. cbn [cos_ sin_ Rops].
  destruct (Rle_dec 0 th) as [P|N].
  - rewrite (Rabs_pos_eq th) by lra. replace (th/th) with 1 by (field; lra). rewrite Hc, Hs, E1, E2. c03_simpl. tuple_eq ltac:(ring).
  - rewrite (Rabs_left th) by lra. replace (th / - th) with (-1) by (field; lra). rewrite cos_neg, sin_neg, Hc, Hs, E1, E2.
    c03_simpl. tuple_eq ltac:(ring).
Qed.


(* ---------------- log(exp S) = S on every non-identity branch ---------------- *)
Lemma log_li_rodrigues (v : V3 R) c s : log_li Rops (rodrigues_cs Rops v c s) = vscale3 Rops s v.
Proof. destruct v as [[v0 v1] v2]. c03_simpl. tuple_eq ltac:(field). Qed.

Theorem logexp_SO3 K (u : V3 R) th :
  thr_ok2 K -> normsq3 Rops u = 1 -> 0 < th < PI -> thv Rops (k_unit K) < th ->
  trlog_so3_branch Rops K (rodrigues_th Rops u th) <> BrEye ->
  trlog_so3_tw Rops K (rodrigues_th Rops u th) = vscale3 Rops th u.
Proof.
  intros HK Hu Hth Hthu Hbr. pose proof (proj1 HK) as HK1.
  assert (Hs : 0 < sin th) by (apply sin_gt_0; lra).
  set (Rm := rodrigues_th Rops u th) in *.
  assert (HR : SO3 Rm) by (apply rodrigues_cs_SO3; [exact Hu | apply cs_unit]).
  destruct u as [[u0 u1] u2].
  assert (Hli : log_li Rops Rm = (sin th * u0, sin th * u1, sin th * u2)) by (unfold Rm, rodrigues_th; rewrite log_li_rodrigues; reflexivity).
  assert (Hst : log_st Rops Rm = sin th).
  { unfold log_st. rewrite Hli. c03_simpl. replace (_ + _ + _) with (sin th * sin th * (u0*u0 + u1*u1 + u2*u2)) by ring.
    apply sqrt_sq_scale; [lra|]. c03_simpl. exact Hu. }
  assert (Hc : log_c Rops Rm = cos th).
  { unfold Rm, rodrigues_th. cbn [cos_ sin_ Rops]. c03_simpl. generalize (cos th) (sin th). intros c s.
    transitivity ((3 - 2*(1 - c)*(u0*u0 + u1*u1 + u2*u2) - 1)/(1+1)); [f_equal; ring | rewrite Hu; field]. }
  assert (Hlt : log_theta Rops Rm = th).
  { unfold log_theta. rewrite Hst, Hc. cbn [atan2_ Rops]. apply atan2_sin_cos. lra. }
  clearbody Rm.
  destruct (explog_SO3 K Rm HK HR Hbr) as (Hexp & Hnorm & _); [rewrite Hlt; exact Hthu|].
  rewrite Hlt in Hnorm.
  destruct (trlog_so3_tw Rops K Rm) as [[L0 L1] L2] eqn:HL.
  (* L = (L/th) * th with L/th a unit vector *)
  assert (Hsq : L0*L0 + L1*L1 + L2*L2 = th*th).
  { c03_simpl. rewrite <- Hnorm. symmetry. apply sqrt_sqrt. nra. }
  assert (Hun : (L0/th)*(L0/th) + (L1/th)*(L1/th) + (L2/th)*(L2/th) = 1).
  { transitivity ((L0*L0 + L1*L1 + L2*L2)/(th*th)); [field; lra | rewrite Hsq; field; lra]. }
  replace (L0, L1, L2) with (L0/th*th, L1/th*th, L2/th*th) in Hexp by (repeat apply f_equal2; field; lra).
  rewrite (trexp_so3_scaled K _ _ _ th HK1 Hun Hthu) in Hexp. injection Hexp as Hexp.
  assert (E : log_li Rops (rodrigues_th Rops (L0/th, L1/th, L2/th) th) = log_li Rops Rm) by (rewrite Hexp; reflexivity).
  unfold rodrigues_th in E at 1. rewrite log_li_rodrigues, Hli in E. cbn [sin_ Rops] in E. c03_simpl.
  injection E as E0 E1 E2.
  assert (Q : forall a b, sin th * (a/th) = sin th * b -> a = th*b).
  { intros a b H. apply Rmult_eq_reg_l in H; [|lra]. rewrite <- H. field. lra. }
  repeat apply f_equal2; apply Q; assumption.
Qed.


(* ---------------- SE(3): exp(log T) = T ---------------- *)
Lemma vex3_skew3 (x : V3 R) : vex3 Rops (skew3 Rops x) = x.
Proof. destruct x as [[a b] c]. c03_simpl. tuple_eq ltac:(field). Qed.

(* the matrix form of the SO(3) log is the skew matrix of the twist form *)
Lemma trlog_so3_mat_skew K (Rm : M33 R) : log_st Rops Rm <> 0 \/ trlog_so3_branch Rops K Rm <> BrGen ->
  trlog_so3_mat Rops K Rm = skew3 Rops (trlog_so3_tw Rops K Rm).
Proof.
  intros H. unfold trlog_so3_mat, trlog_so3_tw. destruct (trlog_so3_branch Rops K Rm) eqn:Hb.
  - c03_simpl. tuple_eq ltac:(ring).
  - reflexivity.
  - destruct H as [H|H]; [|contradiction]. rewrite st_is_zero_false by exact H. unfold log_general. revert H.
    generalize (log_st Rops Rm) (log_theta Rops Rm). intros st th H.
    destruct Rm as [[[[r00 r01] r02] [[r10 r11] r12]] [[r20 r21] r22]]. c03_simpl. tuple_eq ltac:(field; exact H).
Qed.

Lemma general_st_pos K (Rm : M33 R) :
  thr_ok K -> SO3 Rm -> trlog_so3_branch Rops K Rm = BrGen -> 0 < log_theta Rops Rm -> 0 < log_st Rops Rm.
Proof.
  intros HK HR Hbr Hth0. pose proof HK as (Kz & Kzu & Kh & Ke & Kiu & Kz1 & Kiu1). pose proof eps_pos as He.
  destruct Rm as [[[[r00 r01] r02] [[r10 r11] r12]] [[r20 r21] r22]]. unfold M33, V3 in *.
  destruct (theta_facts _ _ _ _ _ _ _ _ _ HR) as (Hcos & Hsin & Hr0 & HrP). cbv zeta in *.
  destruct (st_facts _ _ _ _ _ _ _ _ _ HR) as (Hst0 & Hst2 & Hcs). cbv zeta in *.
  set (Rm := ((r00,r01,r02),(r10,r11,r12),(r20,r21,r22))) in *.
  set (th := log_theta Rops Rm) in *. set (st := log_st Rops Rm) in *. set (c := (r00 + r11 + r22 - 1)/2) in *.
  destruct (Req_dec st 0) as [E|E]; [|lra]. exfalso. rewrite E in Hsin.
  assert (th = PI). { destruct (Req_dec th PI); [assumption|]. assert (0 < sin th) by (apply sin_gt_0; lra). lra. }
  assert (c = -1) by (rewrite <- Hcos; replace th with PI by auto; apply cos_PI).
  unfold trlog_so3_branch in Hbr. destruct (iseye33 Rops K _); [discriminate|].
  match type of Hbr with (if ?b then _ else _) = _ => destruct b eqn:Hb; [discriminate|] end.
  cbn [ltb Rops] in Hb. apply Rltb_false in Hb. apply Hb. rewrite thv_R. unfold Rm. c03_simpl.
  replace (r00 + r11 + r22 + 1) with 0 by (unfold c in *; lra). rewrite Rabs_R0. nra.
Qed.

Lemma mv33_mmul (A B : M33 R) (t : V3 R) : mv33 Rops (mmul33 Rops A B) t = mv33 Rops A (mv33 Rops B t).
Proof. lin_ring. Qed.
Lemma mv33_scale_in (A : M33 R) (k : R) (t : V3 R) :
  mv33 Rops A (let '(t0,t1,t2) := t in (t0/k, t1/k, t2/k)) = mv33 Rops (mscale33 Rops (1/k) A) t.
Proof. destruct_tuples. c03_simpl. tuple_eq ltac:(unfold Rdiv; ring). Qed.
Lemma mv33_I (t : V3 R) : mv33 Rops (I33 Rops) t = t.
Proof. lin_ring. Qed.

Theorem explog_SE3 K (Tm : M44 R) :
  thr_ok2 K -> SE3 Tm -> trlog_se3_branch Rops K Tm = BrRot ->
  thv Rops (k_unit K) < log_theta Rops (t2r3 Tm) -> log_theta Rops (t2r3 Tm) < PI ->
  trexp_se3 Rops K (trlog_se3_tw Rops K Tm) = Ok Tm.
Proof.
  intros HK HT Hbr Hthu HthP. pose proof (proj1 HK) as HK1. pose proof HK1 as (Kz & Kzu & Kh & Ke & Kiu & Kz1 & Kiu1).
  pose proof eps_pos as He.
  rewrite (SE3_decompose Tm HT) at 2. destruct HT as [HR _].
  unfold trlog_se3_tw. rewrite Hbr.
  assert (Hne : trlog_so3_branch Rops K (t2r3 Tm) <> BrEye).
  { unfold trlog_se3_branch in Hbr. destruct (iseye44 Rops K Tm); [discriminate|].
    destruct (iseye33 Rops K (t2r3 Tm)) eqn:He3; [discriminate|]. unfold trlog_so3_branch. rewrite He3.
    destruct (ltb Rops _ _); discriminate. }
  set (Rm := t2r3 Tm) in *. set (t := transl3 Tm). clearbody Rm t.
  destruct (explog_SO3 K Rm HK HR Hne Hthu) as (Hexp & Hnorm & Hth0 & _).
  assert (Hmat : trlog_so3_mat Rops K Rm = skew3 Rops (trlog_so3_tw Rops K Rm)).
  { apply trlog_so3_mat_skew. destruct (trlog_so3_branch Rops K Rm) eqn:Hb; [contradiction | right; discriminate | left].
    assert (0 < log_st Rops Rm) by (apply (general_st_pos K); assumption). lra. }
  rewrite Hmat, vex3_skew3, Hnorm. cbn [eqb zero Rops]. rewrite (Reqb_false (log_theta Rops Rm) 0) by lra.
  set (th := log_theta Rops Rm) in *. clearbody th.
  destruct (trlog_so3_tw Rops K Rm) as [[L0 L1] L2].
  assert (Hsq : L0*L0 + L1*L1 + L2*L2 = th*th).
  { c03_simpl. rewrite <- Hnorm. symmetry. apply sqrt_sqrt. nra. }
  assert (Hun : normsq3 Rops (L0/th, L1/th, L2/th) = 1).
  { c03_simpl. transitivity ((L0*L0 + L1*L1 + L2*L2)/(th*th)); [field; lra | rewrite Hsq; field; lra]. }
  (* the rotation block *)
  assert (HRot : rodrigues_th Rops (L0/th, L1/th, L2/th) th = Rm).
  { replace (L0, L1, L2) with (L0/th*th, L1/th*th, L2/th*th) in Hexp by (repeat apply f_equal2; field; lra).
    rewrite (trexp_so3_scaled K _ _ _ th HK1) in Hexp; [| c03_simpl; exact Hun | exact Hthu]. clear - Hexp. injection Hexp. auto. }
  (* the skew matrix is theta K(u) *)
  assert (HS : skew3 Rops (L0, L1, L2) = mscale33 Rops th (skew3 Rops (L0/th, L1/th, L2/th))).
  { c03_simpl. tuple_eq ltac:(field; lra). }
  rewrite HS.
  set (G := Ginv Rops (mscale33 Rops th (skew3 Rops (L0/th, L1/th, L2/th))) th).
  destruct (mv33 Rops G t) as [[v0 v1] v2] eqn:Hv.
  unfold v6, trexp_se3, iszerovec6.
  assert (Hn6 : ~ norm6 Rops (v0, v1, v2, L0, L1, L2) < thv Rops (k_zero K)).
  { rewrite thv_R in *. c03_simpl. intro H.
    assert (th <= sqrt (v0*v0 + v1*v1 + v2*v2 + L0*L0 + L1*L1 + L2*L2)).
    { rewrite <- (sqrt_square th) at 1 by lra. apply sqrt_le_1_alt. nra. }
    assert (0 <= IZR (k_unit K) * / 4503599627370496) by (apply Rmult_le_pos; lra). nra. }
  cbn [ltb Rops]. apply Rltb_false in Hn6. rewrite Hn6.
  unfold unittwist_norm, iszerovec3. rewrite Hnorm. cbn [ltb Rops].
  replace (Rltb th _) with false.
  2:{ symmetry. apply Rltb_false. rewrite thv_R in *. assert (0 <= IZR (k_unit K) * eps Rops) by (apply Rmult_le_pos; lra). nra. }
  cbn [div Rops]. f_equal. unfold trexp_unit. rewrite rodrigues3_with_unit by assumption. rewrite HRot.
  f_equal.
  pose proof (mv33_scale_in (Vmat Rops (L0/th, L1/th, L2/th) th) th (v0,v1,v2)) as E. cbv beta iota zeta in E. rewrite E.
  rewrite <- Hv, <- mv33_mmul. unfold G. rewrite V_Ginv_inverse by (try assumption; lra). apply mv33_I.
Qed.

(* ---------------- totality of the so(3) exponential (fix 4dbd011: unitvec_norm tests n >= k_unit eps) ---------------- *)
Theorem trexp_so3_total K (w : V3 R) :
  thr_ok K -> IZR (k_unit K) <= IZR (k_zero K) -> exists Rm, trexp_so3 Rops K w = Ok Rm /\ SO3 Rm.
Proof.
  intros HK Hle. pose proof HK as (Kz & Kzu & _). pose proof eps_pos as He.
  assert (exists Rm, trexp_so3 Rops K w = Ok Rm) as [Rm E].
  { unfold trexp_so3, rodrigues3, iszerovec3. cbn [ltb Rops]. destruct (Rltb (norm3 Rops w) (thv Rops (k_zero K))) eqn:Z.
    - eexists; reflexivity.
    - apply Rltb_false in Z. unfold unitvec_norm3. cbv zeta. cbn [leb Rops].
      replace (Rleb _ _) with true.
      + destruct w as [[w0 w1] w2]. eexists; reflexivity.
      + symmetry. apply Rleb_true. rewrite !thv_R in *.
        assert (IZR (k_unit K) * eps Rops <= IZR (k_zero K) * eps Rops) by (apply Rmult_le_compat_r; lra). lra. }
  exists Rm. split; [exact E | exact (trexp_so3_in_SO3 K w Rm HK E)].
Qed.


(* ---------------- Twist3.exp with a vector theta on one twist ---------------- *)
(* unit rotational twist: element t is the unit-twist exponential at t = trexp(S, t) *)
Theorem twist3_exp_elem_unit K v0 v1 v2 w0 w1 w2 t :
  thr_ok K -> normsq3 Rops (w0,w1,w2) = 1 -> thv Rops (k_zero K) <= t ->
  twist3_exp_elem Rops K (v0,v1,v2,w0,w1,w2) t = Ok (trexp_unit Rops K (v0,v1,v2,w0,w1,w2) t) /\
  twist3_exp_elem Rops K (v0,v1,v2,w0,w1,w2) t = trexp_se3_th Rops K (v0,v1,v2,w0,w1,w2) t.
Proof.
  intros HK Hw Ht. destruct (trexp_se3_scaled_unit K v0 v1 v2 w0 w1 w2 t HK Hw Ht) as [E1 E2].
  unfold twist3_exp_elem, scale6. cbv beta iota. cbn [mul Rops].
  replace (v0*t, v1*t, v2*t, w0*t, w1*t, w2*t) with (t*v0, t*v1, t*v2, t*w0, t*w1, t*w2) by (tuple_eq ltac:(ring)).
  rewrite E1, E2. split; reflexivity.
Qed.

(* prismatic twist (w = 0, any length n of v): element t > 0 is the translation by t v -- never the identity *)
Theorem twist3_exp_elem_prismatic K v0 v1 v2 t :
  thr_ok K -> 0 < t -> thv Rops (k_zero K) <= t * norm3 Rops (v0,v1,v2) ->
  twist3_exp_elem Rops K (v0,v1,v2,0,0,0) t = Ok (rt2tr3 Rops (I33 Rops) (v0*t, v1*t, v2*t)).
Proof.
  intros HK Ht Hn. pose proof HK as (Kz & Kzu & Kh & Ke & Kiu & Kz1 & Kiu1). pose proof eps_pos as He.
  rewrite thv_R in Hn.
  assert (Hkz : 0 < IZR (k_zero K) * eps Rops) by (apply Rmult_lt_0_compat; lra).
  set (n := norm3 Rops (v0,v1,v2)) in *.
  assert (Hn0 : 0 < n). { destruct (Rlt_dec 0 n); [assumption|exfalso]. assert (t*n <= 0) by nra. lra. }
  assert (Hnn : n*n = v0*v0 + v1*v1 + v2*v2) by (unfold n; c03_simpl; apply sqrt_sqrt; nra).
  assert (Hs : norm3 Rops (v0*t, v1*t, v2*t) = t*n).
  { c03_simpl. replace (_ + _ + _) with ((t*n)*(t*n)) by (transitivity (t*t*(v0*v0 + v1*v1 + v2*v2)); [rewrite <- Hnn; ring | ring]). apply sqrt_square. nra. }
  unfold twist3_exp_elem, scale6. cbv beta iota. cbn [mul Rops].
  replace (0*t) with 0 by ring.
  unfold trexp_se3, iszerovec6.
  assert (H6 : norm6 Rops (v0*t, v1*t, v2*t, 0, 0, 0) = t*n).
  { c03_simpl. replace (_ + _ + _ + _ + _ + _) with ((t*n)*(t*n)) by (transitivity (t*t*(v0*v0 + v1*v1 + v2*v2)); [rewrite <- Hnn; ring | ring]). apply sqrt_square. nra. }
  rewrite H6. cbn [ltb Rops]. replace (Rltb (t*n) _) with false by (symmetry; apply Rltb_false; rewrite thv_R; lra).
  unfold unittwist_norm, iszerovec3.
  replace (norm3 Rops (0,0,0)) with 0 by (c03_simpl; replace (0*0+0*0+0*0) with 0 by ring; symmetry; apply sqrt_0).
  cbn [ltb Rops]. replace (Rltb 0 _) with true by (symmetry; apply Rltb_true; rewrite thv_R; lra).
  rewrite Hs. cbn [div zero Rops]. replace (0/(t*n)) with 0 by (field; nra).
  f_equal. rewrite trexp_unit_prismatic by exact HK. f_equal. tuple_eq ltac:(field; nra).
Qed.

(* the whole vector-theta branch on a unit rotational twist *)
Theorem twist3_exp_vec_unit K (tw : V6 R) (thetas : list R) :
  thr_ok K -> (let '(_,_,_,w0,w1,w2) := tw in normsq3 Rops (w0,w1,w2) = 1) ->
  Forall (fun t => thv Rops (k_zero K) <= t) thetas ->
  twist3_exp_vec Rops K tw thetas = map (fun t => Ok (trexp_unit Rops K tw t)) thetas /\
  twist3_exp_vec Rops K tw thetas = map (trexp_se3_th Rops K tw) thetas.
Proof.
  intros HK Hw Hall. destruct tw as [[[[[v0 v1] v2] w0] w1] w2]. unfold twist3_exp_vec.
  split; apply map_ext_in; intros t Hin; rewrite Forall_forall in Hall;
    destruct (twist3_exp_elem_unit K v0 v1 v2 w0 w1 w2 t HK Hw (Hall t Hin)) as [E1 E2]; assumption.
Qed.
