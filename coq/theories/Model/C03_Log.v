(* C03 -- the logarithm of fix 84bd1d7 (atan2 angle, symmetric-part half-turn axis) and the closed-form 2-D logarithm of
   fix c4462a7: theorems over R about the hand model of theories/Model/C03_ExpLog.v (fixed; compiled at setup). *)
From Coq Require Import Reals ZArith Lra Nsatz Psatz.
From SM Require Import Base.Ops Base.Lin Base.RInst Base.RLin Model.C03_ExpLog Model.C03_Lemmas Model.C05_Trig.
Open Scope R_scope.

(* ---------------- atan2 facts ---------------- *)
Lemma cs_atan2_unit x y : x*x + y*y = 1 -> cos (atan2 y x) = x /\ sin (atan2 y x) = y.
Proof.
  intros H. rewrite cos_atan2, sin_atan2 by lra. rewrite H, sqrt_1. split; field.
Qed.
Lemma atan2_nonneg y x : 0 <= y -> 0 < x*x + y*y -> 0 <= atan2 y x.
Proof.
  intros Hy H. destruct (Rle_dec 0 (atan2 y x)) as [|N]; [assumption|exfalso].
  pose proof (atan2_range y x) as [Hl _]. assert (Hs : sin (atan2 y x) < 0) by (apply sin_lt_0_var; lra).
  rewrite sin_atan2 in Hs by exact H. pose proof (hyp_gt0 x y H) as Hq.
  assert (0 <= y / sqrt (x*x + y*y)) by (apply Rmult_le_pos; [lra | left; apply Rinv_0_lt_compat; lra]). lra.
Qed.
Lemma cos1_sin0_zero x : - (2*PI) < x < 2*PI -> cos x = 1 -> x = 0.
Proof.
  intros Hx Hc. pose proof PI_RGT_0.
  assert (Hs : sin (x/2) = 0).
  { replace x with (2*(x/2)) in Hc by field. rewrite cos_2a_sin in Hc. nra. }
  destruct (Rtotal_order (x/2) 0) as [L|[E|G]]; [|lra|].
  - assert (sin (x/2) < 0) by (apply sin_lt_0_var; lra). lra.
  - assert (0 < sin (x/2)) by (apply sin_gt_0; lra). lra.
Qed.
Lemma atan2_sin_cos th : - PI < th <= PI -> atan2 (sin th) (cos th) = th.
Proof.
  intros Hth. pose proof (cs_unit th) as Hu.
  destruct (cs_atan2_unit (cos th) (sin th) Hu) as [Hc Hs].
  pose proof (atan2_range (sin th) (cos th)) as Hr. set (p := atan2 (sin th) (cos th)) in *.
  assert (p - th = 0); [|lra]. apply cos1_sin0_zero; [lra|].
  rewrite cos_minus, Hc, Hs. exact Hu.
Qed.

(* ---------------- the quantities of trlog on an explicit matrix ---------------- *)
Section Explicit.
Variables r00 r01 r02 r10 r11 r12 r20 r21 r22 : R.
Let Rm : M33 R := ((r00,r01,r02),(r10,r11,r12),(r20,r21,r22)).
Let c := (r00 + r11 + r22 - 1) / 2.
Let l0 := (r21 - r12)/2. Let l1 := (r02 - r20)/2. Let l2 := (r10 - r01)/2.

Lemma log_c_eq : log_c Rops Rm = c.
Proof. unfold Rm, c. c03_simpl. field. Qed.
Lemma log_li_eq : log_li Rops Rm = (l0, l1, l2).
Proof. unfold Rm, l0, l1, l2. c03_simpl. tuple_eq ltac:(field). Qed.
Lemma log_st_eq : log_st Rops Rm = sqrt (l0*l0 + l1*l1 + l2*l2).
Proof. unfold log_st. rewrite log_li_eq. reflexivity. Qed.

Hypothesis HR : SO3 Rm.
Lemma li_normsq : l0*l0 + l1*l1 + l2*l2 = 1 - c*c.
Proof. exact (so3_vex_normsq _ _ _ _ _ _ _ _ _ HR). Qed.
Lemma c_range : -1 <= c <= 1.
Proof.
  pose proof li_normsq. pose proof (Rle_0_sqr l0). pose proof (Rle_0_sqr l1). pose proof (Rle_0_sqr l2).
  unfold Rsqr in *. nra.
Qed.
Lemma st_facts : let st := log_st Rops Rm in 0 <= st /\ st*st = 1 - c*c /\ c*c + st*st = 1.
Proof.
  cbv zeta. rewrite log_st_eq, li_normsq. pose proof c_range.
  assert (0 <= 1 - c*c) by nra. split; [apply sqrt_pos|]. rewrite sqrt_sqrt by assumption. split; ring.
Qed.
(* the angle: cos = c, sin = st, in [0, PI] *)
Lemma theta_facts : let th := log_theta Rops Rm in
  cos th = c /\ sin th = log_st Rops Rm /\ 0 <= th <= PI.
Proof.
  cbv zeta. unfold log_theta. rewrite log_c_eq. cbn [atan2_ Rops]. destruct st_facts as (H0 & H1 & H2).
  destruct (cs_atan2_unit c (log_st Rops Rm) H2) as [Hc Hs]. repeat split; try assumption.
  - apply atan2_nonneg; [assumption | lra].
  - apply atan2_range.
Qed.
End Explicit.
