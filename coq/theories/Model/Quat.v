(* Hand-written reference models for the loop- and branch-carrying quaternion kernels. *)
From Coq Require Import ZArith.
From SM Require Import Base.Ops Base.Lin.

Section Quat.
Context {T : Type} (O : ops T).

(* base.qpow: qr = eye(); for _ in range(abs(power)): qr = qqmul(qr, q); if power < 0: qr = conj(qr) *)
Fixpoint qpow_nat (q : V4 T) (n : nat) : V4 T :=
  match n with 0%nat => qone O | S k => qmul O (qpow_nat q k) q end.
Definition qpow_model (q : V4 T) (n : Z) : V4 T :=
  if (n <? 0)%Z then qconj O (qpow_nat q (Z.abs_nat n)) else qpow_nat q (Z.abs_nat n).
End Quat.
