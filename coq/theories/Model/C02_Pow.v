(* C02 -- hand-written model of SMPose.__pow__ (as of /repo fbf47d0) and the integer power laws.

   code:   X ** n:  n < 0 -> X.inv() ** (-n)   (the CLOSED-FORM inverse of the class: transpose for SO(n),
                              [R', -R' t] for SE(n));   else np.linalg.matrix_power(X.A, n)
   numpy:  matrix_power(a, n), n >= 0: identity for 0, then the n-fold product (n = 1,2,3 directly, larger n by binary
           decomposition -- the same value in exact arithmetic by associativity).
   Model:  mpow mul e inv A n = if n < 0 then pow_nat (inv A) |n| else pow_nat A |n|,  pow_nat A (S k) = pow_nat A k * A,
           with inv := mtr22 / mtr33 / sinv_aff3 / sinv_aff4 (the structured inverses of the four pose classes).
   The exact inverses adjugate/determinant (minv22 ...) are kept: Props/C02_a.v, C02_b.v prove that the structured
   inverses coincide with them on the group ("the structured inverse is the true matrix inverse").
   NumPy's matrix_power for n >= 0 is external code that is modelled, not verified (DESIGN.md section 6); the model is
   tied to the implementation on every run (T-num, |n| <= 8) and to the symbolic traces of `X ** n`, |n| <= 4
   (Props/C02_p.v). *)
From Coq Require Import ZArith Lia.
From SM Require Import Base.Ops Base.Lin Model.Quat.

(* ------------------------------------------------------------------ abstract monoid part *)
Section Monoid.
Variables (M : Type) (mul : M -> M -> M) (e : M).
Hypothesis assoc : forall a b c, mul (mul a b) c = mul a (mul b c).
Hypothesis id_l : forall a, mul e a = a.
Hypothesis id_r : forall a, mul a e = a.

Fixpoint pow_nat (A : M) (n : nat) : M :=
  match n with 0%nat => e | S k => mul (pow_nat A k) A end.

Definition mpow (inv : M -> M) (A : M) (n : Z) : M :=
  if (n <? 0)%Z then pow_nat (inv A) (Z.abs_nat n) else pow_nat A (Z.abs_nat n).

Lemma pow_nat_add A m n : pow_nat A (m + n) = mul (pow_nat A m) (pow_nat A n).
Proof.
  induction n as [|n IH].
  - rewrite Nat.add_0_r. cbn [pow_nat]. symmetry. apply id_r.
  - rewrite Nat.add_succ_r. cbn [pow_nat]. rewrite IH. apply assoc.
Qed.

Lemma pow_nat_succ_l A n : pow_nat A (S n) = mul A (pow_nat A n).
Proof.
  change (S n) with (1 + n)%nat. rewrite pow_nat_add. cbn [pow_nat]. rewrite id_l. reflexivity.
Qed.

(* if B is a two-sided inverse of A then B^n is a two-sided inverse of A^n *)
Lemma pow_nat_inverse A B n : mul A B = e -> mul B A = e ->
  mul (pow_nat A n) (pow_nat B n) = e /\ mul (pow_nat B n) (pow_nat A n) = e.
Proof.
  intros HAB HBA. induction n as [|n [IH1 IH2]].
  - cbn [pow_nat]. split; apply id_l.
  - split.
    + rewrite (pow_nat_succ_l B n). cbn [pow_nat]. rewrite assoc, <- (assoc A B), HAB, id_l. exact IH1.
    + rewrite (pow_nat_succ_l A n). cbn [pow_nat]. rewrite assoc, <- (assoc B A), HBA, id_l. exact IH2.
Qed.

Lemma inverse_unique A B C : mul A B = e -> mul C A = e -> B = C.
Proof. intros H1 H2. rewrite <- (id_l B), <- H2, assoc, H1, id_r. reflexivity. Qed.

(* a map that reverses products and fixes e commutes with powers (used for the transpose) *)
Lemma pow_nat_antihom (f : M -> M) A n : f e = e -> (forall a b, f (mul a b) = mul (f b) (f a)) ->
  pow_nat (f A) n = f (pow_nat A n).
Proof.
  intros He Hf. induction n as [|n IH]; cbn [pow_nat]; [symmetry; exact He|].
  rewrite Hf, <- IH. exact (pow_nat_succ_l (f A) n).
Qed.

Variable inv : M -> M.

Lemma mpow_0 A : mpow inv A 0 = e.
Proof. reflexivity. Qed.

Lemma mpow_1 A : mpow inv A 1 = A.
Proof. unfold mpow. cbn. apply id_l. Qed.

Lemma mpow_succ A n : (0 <= n)%Z -> mpow inv A (n + 1) = mul (mpow inv A n) A.
Proof.
  intros Hn. unfold mpow.
  replace (n + 1 <? 0)%Z with false by (symmetry; apply Z.ltb_ge; lia).
  replace (n <? 0)%Z with false by (symmetry; apply Z.ltb_ge; lia).
  replace (Z.abs_nat (n + 1)) with (S (Z.abs_nat n)) by lia. reflexivity.
Qed.

Lemma mpow_nonneg A n : (0 <= n)%Z -> mpow inv A n = pow_nat A (Z.abs_nat n).
Proof. intros Hn. unfold mpow. replace (n <? 0)%Z with false by (symmetry; apply Z.ltb_ge; lia). reflexivity. Qed.

Lemma mpow_neg A n : (0 < n)%Z -> mpow inv A (- n) = pow_nat (inv A) (Z.abs_nat n).
Proof.
  intros Hn. unfold mpow. replace (- n <? 0)%Z with true by (symmetry; apply Z.ltb_lt; lia).
  replace (Z.abs_nat (- n)) with (Z.abs_nat n) by lia. reflexivity.
Qed.

(* the exponent law for non-negative exponents needs no inverse at all: ANY monoid element *)
Lemma mpow_add_nonneg A m n : (0 <= m)%Z -> (0 <= n)%Z ->
  mpow inv A (m + n) = mul (mpow inv A m) (mpow inv A n).
Proof.
  intros Hm Hn. rewrite !mpow_nonneg by lia.
  replace (Z.abs_nat (m + n)) with (Z.abs_nat m + Z.abs_nat n)%nat by lia. apply pow_nat_add.
Qed.

(* a negative power is the positive power of the inverse: X ** -n = X.inv() ** n, by definition of the code *)
Lemma mpow_neg_is_pow_inv A n : (0 < n)%Z -> mpow inv A (- n) = mpow inv (inv A) n.
Proof. intros Hn. rewrite mpow_neg by lia. rewrite mpow_nonneg by lia. reflexivity. Qed.

Lemma mpow_m1 A : mpow inv A (-1) = inv A.
Proof. unfold mpow. cbn. apply id_l. Qed.

(* X ** -n is the two-sided inverse of X ** n, for every n, whenever inv A is the inverse of A *)
Lemma mpow_neg_inverse A n : mul A (inv A) = e -> mul (inv A) A = e -> (0 <= n)%Z ->
  mul (mpow inv A n) (mpow inv A (- n)) = e /\ mul (mpow inv A (- n)) (mpow inv A n) = e.
Proof.
  intros H1 H2 Hn. destruct (Z.eq_dec n 0) as [->|Hnz].
  - cbn. split; apply id_l.
  - rewrite mpow_neg by lia. rewrite mpow_nonneg by lia. apply pow_nat_inverse; assumption.
Qed.

(* the exponent law X**(m+n) = X**m * X**n for ALL integers m n *)
Lemma pow_nat_cancel A B m n : mul A B = e -> mul B A = e -> (n <= m)%nat ->
  mul (pow_nat A m) (pow_nat B n) = pow_nat A (m - n) /\ mul (pow_nat B n) (pow_nat A m) = pow_nat A (m - n).
Proof.
  intros HAB HBA Hle. destruct (pow_nat_inverse A B n HAB HBA) as [I1 I2]. split.
  - replace m with ((m - n) + n)%nat at 1 by lia. rewrite pow_nat_add, assoc, I1. apply id_r.
  - replace m with (n + (m - n))%nat at 1 by lia. rewrite pow_nat_add, <- assoc, I2. apply id_l.
Qed.

Lemma mpow_add A m n : mul A (inv A) = e -> mul (inv A) A = e ->
  mpow inv A (m + n) = mul (mpow inv A m) (mpow inv A n).
Proof.
  intros H1 H2. unfold mpow.
  destruct (Z.ltb_spec m 0) as [Hm|Hm], (Z.ltb_spec n 0) as [Hn|Hn], (Z.ltb_spec (m + n) 0) as [Hs|Hs]; try lia.
  - replace (Z.abs_nat (m + n)) with (Z.abs_nat m + Z.abs_nat n)%nat by lia. apply pow_nat_add.
  - (* m < 0 <= n, m + n < 0 *)
    destruct (pow_nat_cancel (inv A) A (Z.abs_nat m) (Z.abs_nat n) H2 H1) as [E _]; [lia|].
    rewrite E. f_equal. lia.
  - destruct (pow_nat_cancel A (inv A) (Z.abs_nat n) (Z.abs_nat m) H1 H2) as [_ E]; [lia|].
    rewrite E. f_equal. lia.
  - destruct (pow_nat_cancel (inv A) A (Z.abs_nat n) (Z.abs_nat m) H2 H1) as [_ E]; [lia|].
    rewrite E. f_equal. lia.
  - destruct (pow_nat_cancel A (inv A) (Z.abs_nat m) (Z.abs_nat n) H1 H2) as [E _]; [lia|].
    rewrite E. f_equal. lia.
  - replace (Z.abs_nat (m + n)) with (Z.abs_nat m + Z.abs_nat n)%nat by lia. apply pow_nat_add.
Qed.

(* a property closed under the product and holding for e, A and inv A holds for every integer power *)
Lemma mpow_closed (P : M -> Prop) A : P e -> (forall a b, P a -> P b -> P (mul a b)) -> P A -> P (inv A) ->
  forall n, P (mpow inv A n).
Proof.
  intros He Hm HA HI n. unfold mpow.
  assert (Hp : forall B k, P B -> P (pow_nat B k)) by (intros B k HB; induction k; cbn [pow_nat]; auto).
  destruct (n <? 0)%Z; apply Hp; assumption.
Qed.
End Monoid.

Arguments pow_nat {M} mul e A n.
Arguments mpow {M} mul e inv A n.

(* ------------------------------------------------------------------ the concrete inverses, generic over ops *)
Section Inv.
Context {T : Type} (O : ops T).
Local Notation "0" := (zero O). Local Notation "1" := (one O).
Local Infix "+" := (add O). Local Infix "-" := (sub O). Local Infix "*" := (mul O).
Local Infix "/" := (div O). Local Notation "- x" := (neg O x).

(* exact inverse of a 2x2 matrix: adjugate / determinant *)
Definition minv22 (A : M22 T) : M22 T :=
  let '((a,b),(c,d)) := A in let dt := a*d - b*c in ((d/dt, (-b)/dt), ((-c)/dt, a/dt)).

(* exact inverse of a 3x3 matrix: adjugate / determinant *)
Definition adj33 (A : M33 T) : M33 T :=
  let '((a00,a01,a02),(a10,a11,a12),(a20,a21,a22)) := A in
  ((a11*a22 - a12*a21, a02*a21 - a01*a22, a01*a12 - a02*a11),
   (a12*a20 - a10*a22, a00*a22 - a02*a20, a02*a10 - a00*a12),
   (a10*a21 - a11*a20, a01*a20 - a00*a21, a00*a11 - a01*a10)).
Definition minv33 (A : M33 T) : M33 T :=
  let dt := det33 O A in
  let '((b00,b01,b02),(b10,b11,b12),(b20,b21,b22)) := adj33 A in
  ((b00/dt, b01/dt, b02/dt), (b10/dt, b11/dt, b12/dt), (b20/dt, b21/dt, b22/dt)).

(* the affine shapes: last row is the constant (0 .. 0 1), whatever the argument's last row was
   (this is what the traced objects hold: see `pose` in props/C02.py) *)
Definition aff3 (A : M33 T) : M33 T := rt2tr2 O (t2r2 A) (transl2 A).
Definition aff4 (A : M44 T) : M44 T := rt2tr3 O (t2r3 A) (transl3 A).
(* exact inverse of [[R t],[0 1]] = [[R^-1, -R^-1 t],[0 1]] *)
Definition minv_aff3 (A : M33 T) : M33 T :=
  let Ri := minv22 (t2r2 A) in rt2tr2 O Ri (vneg2 O (mv22 O Ri (transl2 A))).
Definition minv_aff4 (A : M44 T) : M44 T :=
  let Ri := minv33 (t2r3 A) in rt2tr3 O Ri (vneg3 O (mv33 O Ri (transl3 A))).

(* 3x3 product for the SE(2) class (Base/Lin.v has mmul33) ; the four power functions *)
(* the closed-form inverses of SE2.inv / SE3.inv (= base.trinv2 / trinv):  [[R', -R' t],[0 1]] *)
Definition sinv_aff3 (A : M33 T) : M33 T :=
  rt2tr2 O (mtr22 (t2r2 A)) (vneg2 O (mv22 O (mtr22 (t2r2 A)) (transl2 A))).
Definition sinv_aff4 (A : M44 T) : M44 T :=
  rt2tr3 O (mtr33 (t2r3 A)) (vneg3 O (mv33 O (mtr33 (t2r3 A)) (transl3 A))).

Definition SO2_pow (A : M22 T) (n : Z) : M22 T := mpow (mmul22 O) (I22 O) mtr22 A n.
Definition SO3_pow (A : M33 T) (n : Z) : M33 T := mpow (mmul33 O) (I33 O) mtr33 A n.
Definition SE2_pow (A : M33 T) (n : Z) : M33 T := mpow (mmul33 O) (I33 O) sinv_aff3 (aff3 A) n.
Definition SE3_pow (A : M44 T) (n : Z) : M44 T := mpow (mmul44 O) (I44 O) sinv_aff4 (aff4 A) n.

(* fixed exponents for the numeric correspondence runs (T-num), |n| <= 8.  They are written with literal `nat`
   exponents so that the extracted OCaml needs nothing from Coq's arithmetic libraries; Props/C02_p.v proves
   pw_<cls>_<n> A = <cls>_pow A n by computation. *)
Definition SO2_pown (A : M22 T) (neg : bool) (k : nat) := pow_nat (mmul22 O) (I22 O) (if neg then mtr22 A else A) k.
Definition SO3_pown (A : M33 T) (neg : bool) (k : nat) := pow_nat (mmul33 O) (I33 O) (if neg then mtr33 A else A) k.
Definition SE2_pown (A : M33 T) (neg : bool) (k : nat) :=
  pow_nat (mmul33 O) (I33 O) (if neg then sinv_aff3 (aff3 A) else aff3 A) k.
Definition SE3_pown (A : M44 T) (neg : bool) (k : nat) :=
  pow_nat (mmul44 O) (I44 O) (if neg then sinv_aff4 (aff4 A) else aff4 A) k.
Definition pw_SO2_m8 A := SO2_pown A true 8.
Definition pw_SO2_m7 A := SO2_pown A true 7.
Definition pw_SO2_m6 A := SO2_pown A true 6.
Definition pw_SO2_m5 A := SO2_pown A true 5.
Definition pw_SO2_m4 A := SO2_pown A true 4.
Definition pw_SO2_m3 A := SO2_pown A true 3.
Definition pw_SO2_m2 A := SO2_pown A true 2.
Definition pw_SO2_m1 A := SO2_pown A true 1.
Definition pw_SO2_p0 A := SO2_pown A false 0.
Definition pw_SO2_p1 A := SO2_pown A false 1.
Definition pw_SO2_p2 A := SO2_pown A false 2.
Definition pw_SO2_p3 A := SO2_pown A false 3.
Definition pw_SO2_p4 A := SO2_pown A false 4.
Definition pw_SO2_p5 A := SO2_pown A false 5.
Definition pw_SO2_p6 A := SO2_pown A false 6.
Definition pw_SO2_p7 A := SO2_pown A false 7.
Definition pw_SO2_p8 A := SO2_pown A false 8.
Definition pw_SO3_m8 A := SO3_pown A true 8.
Definition pw_SO3_m7 A := SO3_pown A true 7.
Definition pw_SO3_m6 A := SO3_pown A true 6.
Definition pw_SO3_m5 A := SO3_pown A true 5.
Definition pw_SO3_m4 A := SO3_pown A true 4.
Definition pw_SO3_m3 A := SO3_pown A true 3.
Definition pw_SO3_m2 A := SO3_pown A true 2.
Definition pw_SO3_m1 A := SO3_pown A true 1.
Definition pw_SO3_p0 A := SO3_pown A false 0.
Definition pw_SO3_p1 A := SO3_pown A false 1.
Definition pw_SO3_p2 A := SO3_pown A false 2.
Definition pw_SO3_p3 A := SO3_pown A false 3.
Definition pw_SO3_p4 A := SO3_pown A false 4.
Definition pw_SO3_p5 A := SO3_pown A false 5.
Definition pw_SO3_p6 A := SO3_pown A false 6.
Definition pw_SO3_p7 A := SO3_pown A false 7.
Definition pw_SO3_p8 A := SO3_pown A false 8.
Definition pw_SE2_m8 A := SE2_pown A true 8.
Definition pw_SE2_m7 A := SE2_pown A true 7.
Definition pw_SE2_m6 A := SE2_pown A true 6.
Definition pw_SE2_m5 A := SE2_pown A true 5.
Definition pw_SE2_m4 A := SE2_pown A true 4.
Definition pw_SE2_m3 A := SE2_pown A true 3.
Definition pw_SE2_m2 A := SE2_pown A true 2.
Definition pw_SE2_m1 A := SE2_pown A true 1.
Definition pw_SE2_p0 A := SE2_pown A false 0.
Definition pw_SE2_p1 A := SE2_pown A false 1.
Definition pw_SE2_p2 A := SE2_pown A false 2.
Definition pw_SE2_p3 A := SE2_pown A false 3.
Definition pw_SE2_p4 A := SE2_pown A false 4.
Definition pw_SE2_p5 A := SE2_pown A false 5.
Definition pw_SE2_p6 A := SE2_pown A false 6.
Definition pw_SE2_p7 A := SE2_pown A false 7.
Definition pw_SE2_p8 A := SE2_pown A false 8.
Definition pw_SE3_m8 A := SE3_pown A true 8.
Definition pw_SE3_m7 A := SE3_pown A true 7.
Definition pw_SE3_m6 A := SE3_pown A true 6.
Definition pw_SE3_m5 A := SE3_pown A true 5.
Definition pw_SE3_m4 A := SE3_pown A true 4.
Definition pw_SE3_m3 A := SE3_pown A true 3.
Definition pw_SE3_m2 A := SE3_pown A true 2.
Definition pw_SE3_m1 A := SE3_pown A true 1.
Definition pw_SE3_p0 A := SE3_pown A false 0.
Definition pw_SE3_p1 A := SE3_pown A false 1.
Definition pw_SE3_p2 A := SE3_pown A false 2.
Definition pw_SE3_p3 A := SE3_pown A false 3.
Definition pw_SE3_p4 A := SE3_pown A false 4.
Definition pw_SE3_p5 A := SE3_pown A false 5.
Definition pw_SE3_p6 A := SE3_pown A false 6.
Definition pw_SE3_p7 A := SE3_pown A false 7.
Definition pw_SE3_p8 A := SE3_pown A false 8.
(* UnitQuaternion.__pow__:  UnitQuaternion([base.qpow(q._A, n) for q in self]) -- iterating `self` re-normalises the
   element (base.unit), base.qpow is the loop model of Model/Quat.v, and the constructor normalises the result *)
Definition qunit (q : V4 T) : V4 T :=
  let '(s,x,y,z) := q in let n := sqrt_ O (s*s + x*x + y*y + z*z) in (s/n, x/n, y/n, z/n).
Definition UQ_pow (q : V4 T) (n : Z) : V4 T := qunit (qpow_model O (qunit q) n).
Definition UQ_pown (q : V4 T) (neg : bool) (k : nat) : V4 T :=
  qunit (let r := qpow_nat O (qunit q) k in if neg then qconj O r else r).
Definition pw_UQ_m8 q := UQ_pown q true 8.
Definition pw_UQ_m7 q := UQ_pown q true 7.
Definition pw_UQ_m6 q := UQ_pown q true 6.
Definition pw_UQ_m5 q := UQ_pown q true 5.
Definition pw_UQ_m4 q := UQ_pown q true 4.
Definition pw_UQ_m3 q := UQ_pown q true 3.
Definition pw_UQ_m2 q := UQ_pown q true 2.
Definition pw_UQ_m1 q := UQ_pown q true 1.
Definition pw_UQ_p0 q := UQ_pown q false 0.
Definition pw_UQ_p1 q := UQ_pown q false 1.
Definition pw_UQ_p2 q := UQ_pown q false 2.
Definition pw_UQ_p3 q := UQ_pown q false 3.
Definition pw_UQ_p4 q := UQ_pown q false 4.
Definition pw_UQ_p5 q := UQ_pown q false 5.
Definition pw_UQ_p6 q := UQ_pown q false 6.
Definition pw_UQ_p7 q := UQ_pown q false 7.
Definition pw_UQ_p8 q := UQ_pown q false 8.
End Inv.

Create HintDb c02 discriminated.
#[export] Hint Unfold minv22 adj33 minv33 aff3 aff4 minv_aff3 minv_aff4 sinv_aff3 sinv_aff4 qunit : c02.
