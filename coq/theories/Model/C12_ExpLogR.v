(* C12 -- lemma library over R for the hand model of Quaternion.exp / Quaternion.log (Model/C12_ExpLog.v).
   Everything here is about the model with an ARBITRARY threshold record K; the property theorems
   (theories/Props/C12_explog.v) instantiate K with the thresholds regenerated from the source. *)
From Coq Require Import Reals ZArith Lra Lia.
From SM Require Import Base.Ops Base.Lin Base.RInst Model.C12_ExpLog.
Open Scope R_scope.

Definition nv3 (x y z : R) : R := sqrt (x*x + y*y + z*z).
Definition nq4 (s x y z : R) : R := sqrt (s*s + x*x + y*y + z*z).

Lemma vnorm3_R x y z : vnorm3 Rops (x,y,z) = nv3 x y z.
Proof. reflexivity. Qed.
Lemma qnorm4_R s x y z : qnorm4 Rops (s,x,y,z) = nq4 s x y z.
Proof. reflexivity. Qed.

Lemma nv3_nonneg x y z : 0 <= nv3 x y z.
Proof. apply sqrt_pos. Qed.
Lemma nv3_sq x y z : nv3 x y z * nv3 x y z = x*x + y*y + z*z.
Proof. unfold nv3. apply sqrt_sqrt. nra. Qed.
Lemma nq4_nonneg s x y z : 0 <= nq4 s x y z.
Proof. apply sqrt_pos. Qed.
Lemma nq4_sq s x y z : nq4 s x y z * nq4 s x y z = s*s + nv3 x y z * nv3 x y z.
Proof. rewrite nv3_sq. unfold nq4. rewrite sqrt_sqrt; nra. Qed.

Lemma nv3_axis a : 0 <= a -> nv3 a 0 0 = a.
Proof. intros H. unfold nv3. apply sqrt_lem_1; nra. Qed.
Lemma nq4_axis a : 0 <= a -> nq4 0 a 0 0 = a.
Proof. intros H. unfold nq4. apply sqrt_lem_1; nra. Qed.
Lemma nv3_zero : nv3 0 0 0 = 0.
Proof. unfold nv3. apply sqrt_lem_1; lra. Qed.

(* a quaternion with non-zero vector part: |s| < |q| *)
Lemma nq4_gt_s s x y z : 0 < nv3 x y z -> 0 < nq4 s x y z /\ -1 < s / nq4 s x y z < 1.
Proof.
  intros Hn. pose proof (nq4_sq s x y z) as HN. pose proof (nq4_nonneg s x y z) as H0.
  set (N := nq4 s x y z) in *. set (n := nv3 x y z) in *.
  assert (HNpos : 0 < N) by nra.
  split; [exact HNpos|].
  assert (Hs : -N < s < N) by (split; nra).
  split.
  - apply Rmult_lt_reg_r with N; [exact HNpos|]. unfold Rdiv. rewrite Rmult_assoc, Rinv_l by lra. lra.
  - apply Rmult_lt_reg_r with N; [exact HNpos|]. unfold Rdiv. rewrite Rmult_assoc, Rinv_l by lra. lra.
Qed.

(* the angle acos(s/|q|) has sine |v|/|q| and is positive *)
Lemma sin_acos_ratio s x y z : 0 < nv3 x y z ->
  sin (acos (s / nq4 s x y z)) = nv3 x y z / nq4 s x y z.
Proof.
  intros Hn. destruct (nq4_gt_s s x y z Hn) as [HN Hc].
  pose proof (nq4_sq s x y z) as Hsq.
  rewrite sin_acos by lra.
  apply sqrt_lem_1.
  - unfold Rsqr. assert (Hc2 : (s / nq4 s x y z) * (s / nq4 s x y z) < 1) by nra. lra.
  - apply Rlt_le, Rdiv_lt_0_compat; assumption.
  - unfold Rsqr. field_simplify_eq; [|lra]. nra.
Qed.

Lemma acos_pos_lt c : -1 < c < 1 -> 0 < acos c < PI.
Proof. apply acos_bound_lt. Qed.

(* norm of a non-negative multiple of the unit vector v/|v| *)
Lemma nv3_scaled th x y z : 0 <= th -> 0 < nv3 x y z ->
  nv3 (th * (x / nv3 x y z)) (th * (y / nv3 x y z)) (th * (z / nv3 x y z)) = th.
Proof.
  intros Ht Hn. pose proof (nv3_sq x y z) as Hsq. set (n := nv3 x y z) in *.
  unfold nv3 at 1. apply sqrt_lem_1; [nra | exact Ht |].
  field_simplify_eq; [|lra]. nra.
Qed.

(* norm of e^s (cos n, v/n sin n) *)
Lemma nq4_exp_form es c sn x y z : 0 < es -> 0 < nv3 x y z -> c*c + sn*sn = 1 ->
  nq4 (es * c) (es * x / nv3 x y z * sn) (es * y / nv3 x y z * sn) (es * z / nv3 x y z * sn) = es.
Proof.
  intros He Hn Hcs. pose proof (nv3_sq x y z) as Hsq. set (n := nv3 x y z) in *.
  unfold nq4. apply sqrt_lem_1; [nra | lra |].
  field_simplify_eq; [|lra].
  replace (es ^ 2 * c ^ 2 * n ^ 2 + es ^ 2 * x ^ 2 * sn ^ 2 + es ^ 2 * sn ^ 2 * y ^ 2 + es ^ 2 * sn ^ 2 * z ^ 2)
    with (es ^ 2 * (c*c * n^2 + sn*sn * (x*x + y*y + z*z))) by ring.
  rewrite <- Hsq. replace (c*c) with (1 - sn*sn) by lra. ring.
Qed.

Lemma nv3_exp_form k x y z : 0 <= k -> 0 < nv3 x y z ->
  nv3 (k * x / nv3 x y z) (k * y / nv3 x y z) (k * z / nv3 x y z) = k.
Proof.
  intros Hk Hn. pose proof (nv3_sq x y z) as Hsq. set (n := nv3 x y z) in *.
  unfold nv3 at 1. apply sqrt_lem_1; [nra | exact Hk |].
  field_simplify_eq; [|lra]. nra.
Qed.

(* |ln N| < t  bounds N: used for the band in which exp() re-normalises its result *)
Lemma ln_band N t : 0 < N -> Rabs (ln N) < t -> t <= 1/2 -> 1 - t < N /\ Rabs (/ N - 1) < 2 * t.
Proof.
  intros HN Hb Ht.
  assert (Ht0 : 0 < t) by (pose proof (Rabs_pos (ln N)); lra).
  apply Rabs_def2 in Hb. destruct Hb as [Hb1 Hb2].
  assert (E1 : exp (- t) < N) by (rewrite <- (exp_ln N HN); apply exp_increasing; lra).
  assert (E2 : N < exp t) by (rewrite <- (exp_ln N HN) at 1; apply exp_increasing; lra).
  assert (L1 : 1 - t < exp (- t)) by (pose proof (exp_ineq1 (- t)); lra).
  assert (L2 : 1 + t < exp t) by (pose proof (exp_ineq1 t); lra).
  assert (P : exp (- t) * exp t = 1) by (rewrite <- exp_plus; replace (- t + t) with 0 by ring; apply exp_0).
  pose proof (exp_pos t) as Pt. pose proof (exp_pos (- t)) as Pmt.
  (* exp t < 1/(1-t) <= 1 + 2t *)
  assert (U : exp t * (1 - t) < 1) by nra.
  split; [lra|].
  assert (HNi : / N * N = 1) by (apply Rinv_l; lra).
  assert (Hip : 0 < / N) by (apply Rinv_0_lt_compat; exact HN).
  apply Rabs_def1.
  - (* 1/N < exp t ... *) assert (/ N < exp t) by nra. nra.
  - assert (exp (- t) < / N) by nra. nra.
Qed.

(* ------------------------------------------------------------------ the model, evaluated over R *)
Section WithK.
Context (K : qthr R).

Lemma qlog_R_ok s x y z : 0 <= t_unitvec K -> t_unitvec K < nv3 x y z ->
  qlog Rops K (s,x,y,z) =
    let n := nv3 x y z in let N := nq4 s x y z in let th := acos (s / N) in
    Ok (ln N, th * (x / n), th * (y / n), th * (z / n)).
Proof.
  intros Hk Hn. assert (Hn0 : 0 < nv3 x y z) by lra.
  destruct (nq4_gt_s s x y z Hn0) as [HN Hc].
  unfold qlog, unitvec3. rewrite qnorm4_R, vnorm3_R. sm_simpl.
  replace (Rleb (nq4 s x y z) 0) with false by (symmetry; apply Rleb_false; lra).
  replace (Rltb 1 (Rabs (s / nq4 s x y z))) with false
    by (symmetry; apply Rltb_false; intro H; unfold Rabs in H; destruct (Rcase_abs _) in H; lra).
  replace (Rltb (t_unitvec K) (nv3 x y z)) with true by (symmetry; apply Rltb_true; exact Hn).
  reflexivity.
Qed.

Lemma qlog_R_none s x y z : nv3 x y z <= t_unitvec K -> 0 < nq4 s x y z ->
  qlog Rops K (s,x,y,z) = TypeErr.
Proof.
  intros Hn HN. unfold qlog, unitvec3. rewrite qnorm4_R, vnorm3_R. sm_simpl.
  replace (Rleb (nq4 s x y z) 0) with false by (symmetry; apply Rleb_false; lra).
  assert (Hc : Rabs (s / nq4 s x y z) <= 1).
  { pose proof (nq4_sq s x y z) as Hsq. pose proof (nv3_nonneg x y z).
    unfold Rdiv. rewrite Rabs_mult, (Rabs_right (/ _)) by (apply Rle_ge, Rlt_le, Rinv_0_lt_compat; exact HN).
    apply Rmult_le_reg_r with (nq4 s x y z); [exact HN|]. rewrite Rmult_assoc, Rinv_l by lra.
    unfold Rabs; destruct (Rcase_abs s); nra. }
  replace (Rltb 1 (Rabs (s / nq4 s x y z))) with false by (symmetry; apply Rltb_false; lra).
  replace (Rltb (t_unitvec K) (nv3 x y z)) with false by (symmetry; apply Rltb_false; lra).
  reflexivity.
Qed.

Lemma qexp_R s x y z : 0 < nv3 x y z ->
  qexp Rops K (s,x,y,z) =
    let n := nv3 x y z in
    let r := (exp s * cos n, exp s * x / n * sin n, exp s * y / n * sin n, exp s * z / n * sin n) in
    if Rltb (Rabs s) (t_exp K) then qbind (qunit Rops K r) (fun u => Ok (true, u)) else Ok (false, r).
Proof.
  intros Hn. unfold qexp. rewrite vnorm3_R. sm_simpl.
  replace (Reqb (nv3 x y z) 0) with false; [reflexivity|].
  unfold Reqb. destruct (Req_EM_T (nv3 x y z) 0); [lra|reflexivity].
Qed.

Lemma qexp_R_nan s x y z : nv3 x y z = 0 -> qexp Rops K (s,x,y,z) = NanRes.
Proof.
  intros Hn. unfold qexp. rewrite vnorm3_R. sm_simpl. rewrite Hn.
  replace (Reqb 0 0) with true by (symmetry; apply Reqb_true; reflexivity). reflexivity.
Qed.

Lemma qunit_R s x y z : t_unit K <= nq4 s x y z ->
  qunit Rops K (s,x,y,z) = let N := nq4 s x y z in Ok (s / N, x / N, y / N, z / N).
Proof.
  intros H. unfold qunit. rewrite qnorm4_R. sm_simpl.
  replace (Rltb (Rabs (nq4 s x y z)) (t_unit K)) with false; [reflexivity|].
  symmetry; apply Rltb_false. rewrite Rabs_right by (apply Rle_ge, nq4_nonneg). lra.
Qed.

(* ---------------- exp(log q) ---------------- *)
(* for every q whose vector part is above the unitvec threshold, exp recovers q exactly from log q
   BEFORE its final branch; the branch then returns q, or q/|q| when | ln|q| | < t_exp *)
Theorem qexp_log_R s x y z : 0 <= t_unitvec K -> t_unitvec K < nv3 x y z ->
  qexp_log Rops K (s,x,y,z) =
    if Rltb (Rabs (ln (nq4 s x y z))) (t_exp K) then qunit Rops K (s,x,y,z) else Ok (s,x,y,z).
Proof.
  intros Hk Hn. assert (Hn0 : 0 < nv3 x y z) by lra.
  destruct (nq4_gt_s s x y z Hn0) as [HN Hc].
  destruct (acos_pos_lt _ Hc) as [Hth _].
  unfold qexp_log. rewrite qlog_R_ok by assumption. cbv zeta. cbn [qbind]. unfold qexp_vec.
  set (n := nv3 x y z) in *. set (N := nq4 s x y z) in *. set (th := acos (s / N)) in *.
  assert (Hnv : nv3 (th * (x / n)) (th * (y / n)) (th * (z / n)) = th)
    by (apply nv3_scaled; [lra | exact Hn0]).
  rewrite qexp_R by (rewrite Hnv; exact Hth). cbv zeta. rewrite Hnv.
  rewrite (exp_ln N HN).
  assert (Hcos : N * cos th = s).
  { unfold th. rewrite cos_acos by lra. field. lra. }
  assert (Hsin : sin th = n / N) by (apply sin_acos_ratio; exact Hn0).
  rewrite Hcos, Hsin.
  replace (N * (th * (x / n)) / th * (n / N)) with x by (field; repeat split; lra).
  replace (N * (th * (y / n)) / th * (n / N)) with y by (field; repeat split; lra).
  replace (N * (th * (z / n)) / th * (n / N)) with z by (field; repeat split; lra).
  destruct (Rltb (Rabs (ln N)) (t_exp K)); [|reflexivity].
  destruct (qunit Rops K (s,x,y,z)); reflexivity.
Qed.

(* ---------------- log(exp q) ---------------- *)
(* exp q = e^s (cos n, v/n sin n) for n = |v| in (0, pi): its logarithm *)
Lemma qlog_of_exp_form es x y z : 0 <= t_unitvec K -> 0 < es ->
  0 < nv3 x y z < PI -> t_unitvec K < es * sin (nv3 x y z) ->
  qlog Rops K (es * cos (nv3 x y z), es * x / nv3 x y z * sin (nv3 x y z),
               es * y / nv3 x y z * sin (nv3 x y z), es * z / nv3 x y z * sin (nv3 x y z)) = Ok (ln es, x, y, z).
Proof.
  intros Hk He [Hn0 Hnpi] Hthr. set (n := nv3 x y z) in *.
  assert (Hsin : 0 < sin n) by (apply sin_gt_0; assumption).
  pose proof (sin2_cos2 n) as Hsc. unfold Rsqr in Hsc.
  (* rewrite the vector part as (k x / n, ...) with k = es sin n *)
  set (k := es * sin n) in *.
  replace (es * x / n * sin n) with (k * x / n) by (unfold k; field; lra).
  replace (es * y / n * sin n) with (k * y / n) by (unfold k; field; lra).
  replace (es * z / n * sin n) with (k * z / n) by (unfold k; field; lra).
  assert (Hk0 : 0 < k) by (unfold k; nra).
  assert (Hv : nv3 (k * x / n) (k * y / n) (k * z / n) = k) by (apply nv3_exp_form; [lra | exact Hn0]).
  assert (HNe : nq4 (es * cos n) (k * x / n) (k * y / n) (k * z / n) = es).
  { unfold k. replace (es * sin n * x / n) with (es * x / n * sin n) by (field; lra).
    replace (es * sin n * y / n) with (es * y / n * sin n) by (field; lra).
    replace (es * sin n * z / n) with (es * z / n * sin n) by (field; lra).
    apply nq4_exp_form; [exact He | exact Hn0 | lra]. }
  rewrite qlog_R_ok by (try exact Hk; rewrite Hv; exact Hthr). cbv zeta. rewrite Hv, HNe.
  replace (es * cos n / es) with (cos n) by (field; lra).
  rewrite acos_cos by lra.
  replace (n * (k * x / n / k)) with x by (field; lra).
  replace (n * (k * y / n / k)) with y by (field; lra).
  replace (n * (k * z / n / k)) with z by (field; lra).
  reflexivity.
Qed.

Theorem qlog_exp_R s x y z : 0 <= t_unitvec K -> 0 < nv3 x y z < PI ->
  t_exp K <= Rabs s -> t_unitvec K < exp s * sin (nv3 x y z) ->
  qlog_exp Rops K (s,x,y,z) = Ok (s,x,y,z).
Proof.
  intros Hk Hn Hs Hthr. unfold qlog_exp, qexp_vec. rewrite qexp_R by lra. cbv zeta.
  replace (Rltb (Rabs s) (t_exp K)) with false by (symmetry; apply Rltb_false; lra).
  cbn [qbind snd].
  rewrite (qlog_of_exp_form (exp s)) by (try assumption; apply exp_pos).
  rewrite ln_exp. reflexivity.
Qed.

(* ... and the same composition raises TypeError (float * None) when e^s sin|v| is at or below the unitvec threshold *)
Theorem qlog_exp_none_R s x y z : 0 < nv3 x y z < PI ->
  t_exp K <= Rabs s -> exp s * sin (nv3 x y z) <= t_unitvec K ->
  qlog_exp Rops K (s,x,y,z) = TypeErr.
Proof.
  intros [Hn0 Hnpi] Hs Hthr. unfold qlog_exp, qexp_vec. rewrite qexp_R by lra. cbv zeta.
  replace (Rltb (Rabs s) (t_exp K)) with false by (symmetry; apply Rltb_false; lra).
  cbn [qbind snd].
  pose proof (exp_pos s) as He.
  assert (Hsin : 0 < sin (nv3 x y z)) by (apply sin_gt_0; assumption).
  pose proof (sin2_cos2 (nv3 x y z)) as Hsc. unfold Rsqr in Hsc.
  apply qlog_R_none.
  - replace (exp s * x / nv3 x y z * sin (nv3 x y z)) with (exp s * sin (nv3 x y z) * x / nv3 x y z) by (field; lra).
    replace (exp s * y / nv3 x y z * sin (nv3 x y z)) with (exp s * sin (nv3 x y z) * y / nv3 x y z) by (field; lra).
    replace (exp s * z / nv3 x y z * sin (nv3 x y z)) with (exp s * sin (nv3 x y z) * z / nv3 x y z) by (field; lra).
    rewrite nv3_exp_form; [exact Hthr | nra | exact Hn0].
  - rewrite nq4_exp_form; [exact He | exact He | exact Hn0 | lra].
Qed.

(* inside the band |s| < t_exp the result of exp is normalised: the scalar part of the logarithm is lost *)
Theorem qlog_exp_band_R s x y z : 0 <= t_unitvec K -> 0 < nv3 x y z < PI ->
  Rabs s < t_exp K -> t_exp K <= 1/2 -> t_unit K <= 1/2 -> t_unitvec K < sin (nv3 x y z) ->
  qlog_exp Rops K (s,x,y,z) = Ok (0,x,y,z).
Proof.
  intros Hk Hn Hs Hte Htu Hthr. unfold qlog_exp, qexp_vec. rewrite qexp_R by lra. cbv zeta.
  replace (Rltb (Rabs s) (t_exp K)) with true by (symmetry; apply Rltb_true; lra).
  set (n := nv3 x y z) in *.
  pose proof (sin2_cos2 n) as Hsc. unfold Rsqr in Hsc.
  pose proof (exp_pos s) as He.
  assert (HNe : nq4 (exp s * cos n) (exp s * x / n * sin n) (exp s * y / n * sin n) (exp s * z / n * sin n) = exp s)
    by (apply nq4_exp_form; [exact He | exact (proj1 Hn) | lra]).
  assert (Hlow : 1/2 < exp s).
  { apply Rabs_def2 in Hs. pose proof (exp_ineq1 s).
    destruct (Req_dec s 0) as [->|Hs0]; [rewrite exp_0; lra | lra]. }
  rewrite qunit_R by (rewrite HNe; lra). cbv zeta. rewrite HNe. cbn [qbind snd].
  replace (exp s * cos n / exp s) with (1 * cos n) by (field; lra).
  replace (exp s * x / n * sin n / exp s) with (1 * x / n * sin n) by (field; lra).
  replace (exp s * y / n * sin n / exp s) with (1 * y / n * sin n) by (field; lra).
  replace (exp s * z / n * sin n / exp s) with (1 * z / n * sin n) by (field; lra).
  subst n. rewrite (qlog_of_exp_form 1 x y z) by (try assumption; lra).
  rewrite ln_1. reflexivity.
Qed.

End WithK.
