(* C12 -- lemma library over R for the hand model of Quaternion.exp / Quaternion.log (Model/C12_ExpLog.v).
   Everything here is about the model with an ARBITRARY threshold record K; the property theorems
   (theories/Props/C12_explog.v) instantiate K with the thresholds regenerated from the source. *)
From Coq Require Import Reals ZArith Lra Lia.
From SM Require Import Base.Ops Base.Lin Base.RInst Model.C05_Trig Model.C12_ExpLog.
Open Scope R_scope.

Definition nv3 (x y z : R) : R := sqrt (x*x + y*y + z*z).
Definition nq4 (s x y z : R) : R := sqrt (s*s + x*x + y*y + z*z).

Lemma vnorm3_R x y z : vnorm3 Rops (x,y,z) = nv3 x y z.
Proof. reflexivity. Qed.
Lemma qnorm4_R s x y z : qnorm4 Rops (s,x,y,z) = nq4 s x y z.
Proof. reflexivity. Qed.

Lemma nv3_nonneg x y z : 0 <= nv3 x y z.
Proof. apply sqrt_pos. Qed.
Lemma nv3_sq x y z : nv3 x y z * nv3 x y z = x*x + y*y + z*z.
Proof. unfold nv3. apply sqrt_sqrt. nra. Qed.
Lemma nq4_nonneg s x y z : 0 <= nq4 s x y z.
Proof. apply sqrt_pos. Qed.
Lemma nq4_sq s x y z : nq4 s x y z * nq4 s x y z = s*s + nv3 x y z * nv3 x y z.
Proof. rewrite nv3_sq. unfold nq4. rewrite sqrt_sqrt; nra. Qed.

Lemma nv3_axis a : 0 <= a -> nv3 a 0 0 = a.
Proof. intros H. unfold nv3. apply sqrt_lem_1; nra. Qed.
Lemma nq4_axis a : 0 <= a -> nq4 0 a 0 0 = a.
Proof. intros H. unfold nq4. apply sqrt_lem_1; nra. Qed.
Lemma nv3_zero : nv3 0 0 0 = 0.
Proof. unfold nv3. apply sqrt_lem_1; lra. Qed.

(* a quaternion with non-zero vector part: |s| < |q| *)
Lemma nq4_gt_s s x y z : 0 < nv3 x y z -> 0 < nq4 s x y z /\ -1 < s / nq4 s x y z < 1.
Proof.
  intros Hn. pose proof (nq4_sq s x y z) as HN. pose proof (nq4_nonneg s x y z) as H0.
  set (N := nq4 s x y z) in *. set (n := nv3 x y z) in *.
  assert (HNpos : 0 < N) by nra.
  split; [exact HNpos|].
  assert (Hs : -N < s < N) by (split; nra).
  split.
  - apply Rmult_lt_reg_r with N; [exact HNpos|]. unfold Rdiv. rewrite Rmult_assoc, Rinv_l by lra. lra.
  - apply Rmult_lt_reg_r with N; [exact HNpos|]. unfold Rdiv. rewrite Rmult_assoc, Rinv_l by lra. lra.
Qed.

(* the angle atan2(|v|, s) of a quaternion with non-zero vector part: in (0, pi), cosine s/|q|, sine |v|/|q| *)
Lemma nq4_as_hyp s x y z : sqrt (s*s + nv3 x y z * nv3 x y z) = nq4 s x y z.
Proof. apply sqrt_lem_1; [pose proof (nv3_nonneg x y z); nra | apply nq4_nonneg | apply nq4_sq]. Qed.

Lemma atan2_pos_lt y x : 0 < y -> 0 < atan2 y x < PI.
Proof.
  intros Hy. assert (H : 0 < x*x + y*y) by nra.
  pose proof (sin_atan2 y x H) as Hs. pose proof (atan2_range y x) as [Hlo Hhi].
  assert (Hp : 0 < sin (atan2 y x)).
  { rewrite Hs. apply Rdiv_lt_0_compat; [exact Hy | apply sqrt_lt_R0; exact H]. }
  split.
  - destruct (Rlt_dec 0 (atan2 y x)) as [|Hn]; [assumption|exfalso].
    assert (Hge : 0 <= sin (- atan2 y x)) by (apply sin_ge_0; lra).
    rewrite sin_neg in Hge. lra.
  - destruct Hhi as [Hlt|Heq]; [exact Hlt | rewrite Heq, sin_PI in Hp; lra].
Qed.

Lemma angle_facts s x y z : 0 < nv3 x y z ->
  let th := atan2 (nv3 x y z) s in
  0 < th < PI /\ cos th = s / nq4 s x y z /\ sin th = nv3 x y z / nq4 s x y z.
Proof.
  intros Hn th. unfold th.
  assert (H : 0 < s*s + nv3 x y z * nv3 x y z) by nra.
  repeat split; try (apply atan2_pos_lt; exact Hn).
  - rewrite cos_atan2 by exact H. rewrite nq4_as_hyp. reflexivity.
  - rewrite sin_atan2 by exact H. rewrite nq4_as_hyp. reflexivity.
Qed.

(* atan2 recovers an angle of (0, pi) from a positive multiple of (sin, cos) *)
Lemma atan2_scaled k n : 0 < k -> 0 < n < PI -> atan2 (k * sin n) (k * cos n) = n.
Proof.
  intros Hk Hn. assert (Hs : 0 < sin n) by (apply sin_gt_0; lra).
  assert (Hy : 0 < k * sin n) by nra.
  destruct (atan2_pos_lt (k * sin n) (k * cos n) Hy) as [H0 Hpi].
  pose proof (sin2_cos2 n) as Hsc. unfold Rsqr in Hsc.
  assert (Hh : 0 < k * cos n * (k * cos n) + k * sin n * (k * sin n)) by nra.
  assert (Hq : sqrt (k * cos n * (k * cos n) + k * sin n * (k * sin n)) = k).
  { apply sqrt_lem_1; [nra | lra | ]. transitivity (k * k * (sin n * sin n + cos n * cos n)); [rewrite Hsc; ring | ring]. }
  pose proof (cos_atan2 (k * sin n) (k * cos n) Hh) as Hc. rewrite Hq in Hc.
  replace (k * cos n / k) with (cos n) in Hc by (field; lra).
  rewrite <- (acos_cos (atan2 (k * sin n) (k * cos n))) by lra.
  rewrite Hc. apply acos_cos. lra.
Qed.

(* norm of a non-negative multiple of the unit vector v/|v| *)
Lemma nv3_scaled th x y z : 0 <= th -> 0 < nv3 x y z ->
  nv3 (th * x / nv3 x y z) (th * y / nv3 x y z) (th * z / nv3 x y z) = th.
Proof.
  intros Ht Hn. pose proof (nv3_sq x y z) as Hsq. set (n := nv3 x y z) in *.
  unfold nv3 at 1. apply sqrt_lem_1; [nra | exact Ht |].
  field_simplify_eq; [|lra]. nra.
Qed.

(* norm of e^s (cos n, v/n sin n) *)
Lemma nq4_exp_form es c sn x y z : 0 < es -> 0 < nv3 x y z -> c*c + sn*sn = 1 ->
  nq4 (es * c) (es * x / nv3 x y z * sn) (es * y / nv3 x y z * sn) (es * z / nv3 x y z * sn) = es.
Proof.
  intros He Hn Hcs. pose proof (nv3_sq x y z) as Hsq. set (n := nv3 x y z) in *.
  unfold nq4. apply sqrt_lem_1; [nra | lra |].
  field_simplify_eq; [|lra].
  replace (es ^ 2 * c ^ 2 * n ^ 2 + es ^ 2 * x ^ 2 * sn ^ 2 + es ^ 2 * sn ^ 2 * y ^ 2 + es ^ 2 * sn ^ 2 * z ^ 2)
    with (es ^ 2 * (c*c * n^2 + sn*sn * (x*x + y*y + z*z))) by ring.
  rewrite <- Hsq. replace (c*c) with (1 - sn*sn) by lra. ring.
Qed.

Lemma nv3_exp_form k x y z : 0 <= k -> 0 < nv3 x y z ->
  nv3 (k * x / nv3 x y z) (k * y / nv3 x y z) (k * z / nv3 x y z) = k.
Proof.
  intros Hk Hn. pose proof (nv3_sq x y z) as Hsq. set (n := nv3 x y z) in *.
  unfold nv3 at 1. apply sqrt_lem_1; [nra | exact Hk |].
  field_simplify_eq; [|lra]. nra.
Qed.

(* |ln N| < t  bounds N: used for the band in which exp() re-normalises its result *)
Lemma ln_band N t : 0 < N -> Rabs (ln N) < t -> t <= 1/2 -> 1 - t < N /\ Rabs (/ N - 1) < 2 * t.
Proof.
  intros HN Hb Ht.
  assert (Ht0 : 0 < t) by (pose proof (Rabs_pos (ln N)); lra).
  apply Rabs_def2 in Hb. destruct Hb as [Hb1 Hb2].
  assert (E1 : exp (- t) < N) by (rewrite <- (exp_ln N HN); apply exp_increasing; lra).
  assert (E2 : N < exp t) by (rewrite <- (exp_ln N HN) at 1; apply exp_increasing; lra).
  assert (L1 : 1 - t < exp (- t)) by (pose proof (exp_ineq1 (- t)); lra).
  assert (L2 : 1 + t < exp t) by (pose proof (exp_ineq1 t); lra).
  assert (P : exp (- t) * exp t = 1) by (rewrite <- exp_plus; replace (- t + t) with 0 by ring; apply exp_0).
  pose proof (exp_pos t) as Pt. pose proof (exp_pos (- t)) as Pmt.
  (* exp t < 1/(1-t) <= 1 + 2t *)
  assert (U : exp t * (1 - t) < 1) by nra.
  split; [lra|].
  assert (HNi : / N * N = 1) by (apply Rinv_l; lra).
  assert (Hip : 0 < / N) by (apply Rinv_0_lt_compat; exact HN).
  apply Rabs_def1.
  - (* 1/N < exp t ... *) assert (/ N < exp t) by nra. nra.
  - assert (exp (- t) < / N) by nra. nra.
Qed.

(* ------------------------------------------------------------------ the model, evaluated over R *)
Lemma Reqb_false_of x : x <> 0 -> Reqb x 0 = false.
Proof. intros H. unfold Reqb. destruct (Req_EM_T x 0); [contradiction | reflexivity]. Qed.
Lemma Reqb_refl0 : Reqb 0 0 = true.
Proof. apply Reqb_true. reflexivity. Qed.

Section WithK.
Context (K : qthr R).

Lemma qlog_R s x y z : 0 < nv3 x y z ->
  qlog Rops (s,x,y,z) =
    let n := nv3 x y z in let th := atan2 n s in
    Ok (ln (nq4 s x y z), th * x / n, th * y / n, th * z / n).
Proof.
  intros Hn. destruct (nq4_gt_s s x y z Hn) as [HN _].
  unfold qlog. rewrite qnorm4_R, vnorm3_R. sm_simpl.
  replace (Rleb (nq4 s x y z) 0) with false by (symmetry; apply Rleb_false; lra).
  rewrite Reqb_false_of by lra. reflexivity.
Qed.

(* real quaternions *)
Lemma nq4_real s : nq4 s 0 0 0 = Rabs s.
Proof. unfold nq4. replace (s*s + 0*0 + 0*0 + 0*0) with (s*s) by ring. apply sqrt_lem_1; [nra | apply Rabs_pos |].
  unfold Rabs; destruct (Rcase_abs s); ring. Qed.

Lemma qlog_R_real_pos s : 0 < s -> qlog Rops (s,0,0,0) = Ok (ln s, 0, 0, 0).
Proof.
  intros Hs. unfold qlog. rewrite qnorm4_R, vnorm3_R, nv3_zero, nq4_real, Rabs_right by lra. sm_simpl.
  replace (Rleb s 0) with false by (symmetry; apply Rleb_false; lra).
  rewrite Reqb_refl0. replace (Rltb s 0) with false by (symmetry; apply Rltb_false; lra). reflexivity.
Qed.

Lemma qlog_R_real_neg s : s <= 0 -> qlog Rops (s,0,0,0) = ValueErr.
Proof.
  intros Hs. unfold qlog. rewrite qnorm4_R, vnorm3_R, nv3_zero, nq4_real. sm_simpl.
  destruct (Rleb (Rabs s) 0) eqn:E; [reflexivity|]. apply Rleb_false in E.
  rewrite Reqb_refl0. replace (Rltb s 0) with true; [reflexivity|]. symmetry; apply Rltb_true.
  destruct Hs as [Hs|Hs]; [exact Hs | subst s; rewrite Rabs_R0 in E; lra].
Qed.

Lemma qexp_R s x y z : 0 < nv3 x y z ->
  qexp Rops K (s,x,y,z) =
    let n := nv3 x y z in
    let r := (exp s * cos n, exp s * x / n * sin n, exp s * y / n * sin n, exp s * z / n * sin n) in
    if Rltb (Rabs s) (t_exp K) then qbind (qunit Rops K r) (fun u => Ok (true, u)) else Ok (false, r).
Proof.
  intros Hn. unfold qexp. rewrite vnorm3_R. sm_simpl. rewrite Reqb_false_of by lra. reflexivity.
Qed.

Lemma qexp_R_real s :
  qexp Rops K (s,0,0,0) =
    if Rltb (Rabs s) (t_exp K) then qbind (qunit Rops K (exp s, 0, 0, 0)) (fun u => Ok (true, u))
    else Ok (false, (exp s, 0, 0, 0)).
Proof.
  unfold qexp. rewrite vnorm3_R, nv3_zero. sm_simpl. rewrite Reqb_refl0, cos_0.
  replace (exp s * 1) with (exp s) by ring. replace (exp s * 0) with 0 by ring. reflexivity.
Qed.

Lemma qunit_R s x y z : t_unit K <= nq4 s x y z ->
  qunit Rops K (s,x,y,z) = let N := nq4 s x y z in Ok (s / N, x / N, y / N, z / N).
Proof.
  intros H. unfold qunit. rewrite qnorm4_R. sm_simpl.
  replace (Rltb (Rabs (nq4 s x y z)) (t_unit K)) with false; [reflexivity|].
  symmetry; apply Rltb_false. rewrite Rabs_right by (apply Rle_ge, nq4_nonneg). lra.
Qed.

(* ---------------- exp(log q) ---------------- *)
(* for EVERY q with non-zero vector part, exp recovers q exactly from log q BEFORE its final branch;
   the branch then returns q, or q/|q| when | ln|q| | < t_exp *)
Theorem qexp_log_R s x y z : 0 < nv3 x y z ->
  qexp_log Rops K (s,x,y,z) =
    if Rltb (Rabs (ln (nq4 s x y z))) (t_exp K) then qunit Rops K (s,x,y,z) else Ok (s,x,y,z).
Proof.
  intros Hn0. destruct (nq4_gt_s s x y z Hn0) as [HN _].
  destruct (angle_facts s x y z Hn0) as ([Hth _] & Hcos & Hsin).
  unfold qexp_log. rewrite qlog_R by assumption. cbv zeta. cbn [qbind]. unfold qexp_vec.
  set (n := nv3 x y z) in *. set (N := nq4 s x y z) in *. set (th := atan2 n s) in *.
  assert (Hnv : nv3 (th * x / n) (th * y / n) (th * z / n) = th)
    by (apply nv3_scaled; [lra | exact Hn0]).
  rewrite qexp_R by (rewrite Hnv; exact Hth). cbv zeta. rewrite Hnv.
  rewrite (exp_ln N HN), Hcos, Hsin.
  replace (N * (s / N)) with s by (field; lra).
  replace (N * (th * x / n) / th * (n / N)) with x by (field; repeat split; lra).
  replace (N * (th * y / n) / th * (n / N)) with y by (field; repeat split; lra).
  replace (N * (th * z / n) / th * (n / N)) with z by (field; repeat split; lra).
  destruct (Rltb (Rabs (ln N)) (t_exp K)); [|reflexivity].
  destruct (qunit Rops K (s,x,y,z)); reflexivity.
Qed.

(* ---------------- log(exp q) ---------------- *)
(* exp q = e^s (cos n, v/n sin n) for n = |v| in (0, pi): its logarithm *)
Lemma qlog_of_exp_form es x y z : 0 < es -> 0 < nv3 x y z < PI ->
  qlog Rops (es * cos (nv3 x y z), es * x / nv3 x y z * sin (nv3 x y z),
               es * y / nv3 x y z * sin (nv3 x y z), es * z / nv3 x y z * sin (nv3 x y z)) = Ok (ln es, x, y, z).
Proof.
  intros He [Hn0 Hnpi]. set (n := nv3 x y z) in *.
  assert (Hsin : 0 < sin n) by (apply sin_gt_0; assumption).
  pose proof (sin2_cos2 n) as Hsc. unfold Rsqr in Hsc.
  set (k := es * sin n) in *.
  replace (es * x / n * sin n) with (k * x / n) by (unfold k; field; lra).
  replace (es * y / n * sin n) with (k * y / n) by (unfold k; field; lra).
  replace (es * z / n * sin n) with (k * z / n) by (unfold k; field; lra).
  assert (Hk0 : 0 < k) by (unfold k; nra).
  assert (Hv : nv3 (k * x / n) (k * y / n) (k * z / n) = k) by (apply nv3_exp_form; [lra | exact Hn0]).
  assert (HNe : nq4 (es * cos n) (k * x / n) (k * y / n) (k * z / n) = es).
  { unfold k. replace (es * sin n * x / n) with (es * x / n * sin n) by (field; lra).
    replace (es * sin n * y / n) with (es * y / n * sin n) by (field; lra).
    replace (es * sin n * z / n) with (es * z / n * sin n) by (field; lra).
    apply nq4_exp_form; [exact He | exact Hn0 | lra]. }
  rewrite qlog_R by (rewrite Hv; exact Hk0). cbv zeta. rewrite Hv, HNe.
  unfold k at 1 4 7. rewrite atan2_scaled by (try exact He; split; assumption). fold k.
  replace (n * (k * x / n) / k) with x by (field; lra).
  replace (n * (k * y / n) / k) with y by (field; lra).
  replace (n * (k * z / n) / k) with z by (field; lra).
  reflexivity.
Qed.

Theorem qlog_exp_R s x y z : 0 < nv3 x y z < PI -> t_exp K <= Rabs s ->
  qlog_exp Rops K (s,x,y,z) = Ok (s,x,y,z).
Proof.
  intros Hn Hs. unfold qlog_exp, qexp_vec. rewrite qexp_R by lra. cbv zeta.
  replace (Rltb (Rabs s) (t_exp K)) with false by (symmetry; apply Rltb_false; lra).
  cbn [qbind snd].
  rewrite (qlog_of_exp_form (exp s)) by (try assumption; apply exp_pos).
  rewrite ln_exp. reflexivity.
Qed.

(* inside the band |s| < t_exp the result of exp is normalised: the scalar part of the logarithm is lost *)
Theorem qlog_exp_band_R s x y z : 0 < nv3 x y z < PI ->
  Rabs s < t_exp K -> t_exp K <= 1/2 -> t_unit K <= 1/2 ->
  qlog_exp Rops K (s,x,y,z) = Ok (0,x,y,z).
Proof.
  intros Hn Hs Hte Htu. unfold qlog_exp, qexp_vec. rewrite qexp_R by lra. cbv zeta.
  replace (Rltb (Rabs s) (t_exp K)) with true by (symmetry; apply Rltb_true; lra).
  set (n := nv3 x y z) in *.
  pose proof (sin2_cos2 n) as Hsc. unfold Rsqr in Hsc.
  pose proof (exp_pos s) as He.
  assert (HNe : nq4 (exp s * cos n) (exp s * x / n * sin n) (exp s * y / n * sin n) (exp s * z / n * sin n) = exp s)
    by (apply nq4_exp_form; [exact He | exact (proj1 Hn) | lra]).
  assert (Hlow : 1/2 < exp s).
  { apply Rabs_def2 in Hs. pose proof (exp_ineq1 s).
    destruct (Req_dec s 0) as [->|Hs0]; [rewrite exp_0; lra | lra]. }
  rewrite qunit_R by (rewrite HNe; lra). cbv zeta. rewrite HNe. cbn [qbind snd].
  replace (exp s * cos n / exp s) with (1 * cos n) by (field; lra).
  replace (exp s * x / n * sin n / exp s) with (1 * x / n * sin n) by (field; lra).
  replace (exp s * y / n * sin n / exp s) with (1 * y / n * sin n) by (field; lra).
  replace (exp s * z / n * sin n / exp s) with (1 * z / n * sin n) by (field; lra).
  subst n. rewrite (qlog_of_exp_form 1 x y z) by (try assumption; lra).
  rewrite ln_1. reflexivity.
Qed.

End WithK.
