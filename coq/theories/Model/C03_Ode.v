(* C03 -- the closed forms of trexp / trexp2 on a unit twist solve the initial value problem Phi' = [S] Phi, Phi(0) = I that
   defines exp(theta [S]) (entrywise derivatives with Coquelicot).  Fixed file, compiled at setup. *)
From Coq Require Import Reals ZArith Lra Nsatz Psatz.
From Coquelicot Require Import Coquelicot.
From SM Require Import Base.Ops Base.Lin Base.RInst Base.RLin Model.C03_ExpLog Model.C03_Lemmas.
Open Scope R_scope.

(* derivative of a fixed linear combination of three differentiable scalar functions *)
Lemma der_lin3 (a b c : R) (f g h : R -> R) (x f' g' h' : R) :
  is_derive f x f' -> is_derive g x g' -> is_derive h x h' ->
  is_derive (fun t => a * f t + b * g t + c * h t) x (a * f' + b * g' + c * h').
Proof.
  intros Hf Hg Hh.
  apply (is_derive_plus (fun t => a * f t + b * g t) (fun t => c * h t)).
  - apply (is_derive_plus (fun t => a * f t) (fun t => b * g t)).
    + apply (is_derive_scal f x a f' Hf).
    + apply (is_derive_scal g x b g' Hg).
  - apply (is_derive_scal h x c h' Hh).
Qed.

Lemma der_sin x : is_derive sin x (cos x).
Proof. auto_derive; [exact I | ring]. Qed.
Lemma der_1mcos x : is_derive (fun t => 1 - cos t) x (sin x).
Proof. auto_derive; [exact I | ring]. Qed.
Lemma der_id x : is_derive (fun t : R => t) x 1.
Proof. auto_derive; [exact I | ring]. Qed.
Lemma der_tmsin x : is_derive (fun t => t - sin t) x (1 - cos x).
Proof. auto_derive; [exact I | ring]. Qed.
Lemma der_const (k x : R) : is_derive (fun _ : R => k) x 0.
Proof. auto_derive; [exact I | ring]. Qed.

Lemma der_lin5 (m0 m1 m2 m3 m4 : R) (f0 f1 f2 f3 f4 : R -> R) (x d0 d1 d2 d3 d4 : R) :
  is_derive f0 x d0 -> is_derive f1 x d1 -> is_derive f2 x d2 -> is_derive f3 x d3 -> is_derive f4 x d4 ->
  is_derive (fun t => m0 * f0 t + m1 * f1 t + m2 * f2 t + m3 * f3 t + m4 * f4 t) x (m0 * d0 + m1 * d1 + m2 * d2 + m3 * d3 + m4 * d4).
Proof.
  intros H0 H1 H2 H3 H4.
  apply (is_derive_plus (fun t => m0 * f0 t + m1 * f1 t + m2 * f2 t + m3 * f3 t) (fun t => m4 * f4 t)); [|apply (is_derive_scal f4 x m4 d4 H4)].
  apply (is_derive_plus (fun t => m0 * f0 t + m1 * f1 t + m2 * f2 t) (fun t => m3 * f3 t)); [|apply (is_derive_scal f3 x m3 d3 H3)].
  apply der_lin3; assumption.
Qed.

(* ---------------- entrywise derivatives of matrix-valued functions ---------------- *)
Definition e33 (A : M33 R) (i j : nat) : R :=
  let '((a00,a01,a02),(a10,a11,a12),(a20,a21,a22)) := A in
  match i, j with
  | 0%nat, 0%nat => a00 | 0%nat, 1%nat => a01 | 0%nat, _ => a02
  | 1%nat, 0%nat => a10 | 1%nat, 1%nat => a11 | 1%nat, _ => a12
  | _, 0%nat => a20 | _, 1%nat => a21 | _, _ => a22
  end.
Definition e44 (A : M44 R) (i j : nat) : R :=
  let '((a00,a01,a02,a03),(a10,a11,a12,a13),(a20,a21,a22,a23),(a30,a31,a32,a33)) := A in
  match i, j with
  | 0%nat, 0%nat => a00 | 0%nat, 1%nat => a01 | 0%nat, 2%nat => a02 | 0%nat, _ => a03
  | 1%nat, 0%nat => a10 | 1%nat, 1%nat => a11 | 1%nat, 2%nat => a12 | 1%nat, _ => a13
  | 2%nat, 0%nat => a20 | 2%nat, 1%nat => a21 | 2%nat, 2%nat => a22 | 2%nat, _ => a23
  | _, 0%nat => a30 | _, 1%nat => a31 | _, 2%nat => a32 | _, _ => a33
  end.
(* F is differentiable at x, entry by entry, with derivative matrix D *)
Definition is_derive_M33 (F : R -> M33 R) (x : R) (D : M33 R) : Prop :=
  forall i j, (i < 3)%nat -> (j < 3)%nat -> is_derive (fun t => e33 (F t) i j) x (e33 D i j).
Definition is_derive_M44 (F : R -> M44 R) (x : R) (D : M44 R) : Prop :=
  forall i j, (i < 4)%nat -> (j < 4)%nat -> is_derive (fun t => e44 (F t) i j) x (e44 D i j).

Lemma is_derive_M33_ext (F G : R -> M33 R) x D : (forall t, F t = G t) -> is_derive_M33 G x D -> is_derive_M33 F x D.
Proof. intros E H i j Hi Hj. apply is_derive_ext with (fun t => e33 (G t) i j); [intros t; rewrite E; reflexivity | auto]. Qed.
Lemma is_derive_M44_ext (F G : R -> M44 R) x D : (forall t, F t = G t) -> is_derive_M44 G x D -> is_derive_M44 F x D.
Proof. intros E H i j Hi Hj. apply is_derive_ext with (fun t => e44 (G t) i j); [intros t; rewrite E; reflexivity | auto]. Qed.

(* M0 f0 + M1 f1 + M2 f2 + M3 f3 + M4 f4 with constant matrices *)
Definition lin5_33 (M0 M1 M2 M3 M4 : M33 R) (f0 f1 f2 f3 f4 : R) : M33 R :=
  let g i j := e33 M0 i j * f0 + e33 M1 i j * f1 + e33 M2 i j * f2 + e33 M3 i j * f3 + e33 M4 i j * f4 in
  ((g 0 0, g 0 1, g 0 2), (g 1 0, g 1 1, g 1 2), (g 2 0, g 2 1, g 2 2))%nat.
Definition lin5_44 (M0 M1 M2 M3 M4 : M44 R) (f0 f1 f2 f3 f4 : R) : M44 R :=
  let g i j := e44 M0 i j * f0 + e44 M1 i j * f1 + e44 M2 i j * f2 + e44 M3 i j * f3 + e44 M4 i j * f4 in
  ((g 0 0, g 0 1, g 0 2, g 0 3), (g 1 0, g 1 1, g 1 2, g 1 3), (g 2 0, g 2 1, g 2 2, g 2 3), (g 3 0, g 3 1, g 3 2, g 3 3))%nat.

Lemma der_lin5_33 M0 M1 M2 M3 M4 (f0 f1 f2 f3 f4 : R -> R) x d0 d1 d2 d3 d4 :
  is_derive f0 x d0 -> is_derive f1 x d1 -> is_derive f2 x d2 -> is_derive f3 x d3 -> is_derive f4 x d4 ->
  is_derive_M33 (fun t => lin5_33 M0 M1 M2 M3 M4 (f0 t) (f1 t) (f2 t) (f3 t) (f4 t)) x (lin5_33 M0 M1 M2 M3 M4 d0 d1 d2 d3 d4).
Proof.
  intros H0 H1 H2 H3 H4 i j Hi Hj.
  destruct i as [|[|[|i]]]; [| | |lia]; (destruct j as [|[|[|j]]]; [| | |lia]);
    unfold lin5_33; cbn [e33]; apply der_lin5; assumption.
Qed.
Lemma der_lin5_44 M0 M1 M2 M3 M4 (f0 f1 f2 f3 f4 : R -> R) x d0 d1 d2 d3 d4 :
  is_derive f0 x d0 -> is_derive f1 x d1 -> is_derive f2 x d2 -> is_derive f3 x d3 -> is_derive f4 x d4 ->
  is_derive_M44 (fun t => lin5_44 M0 M1 M2 M3 M4 (f0 t) (f1 t) (f2 t) (f3 t) (f4 t)) x (lin5_44 M0 M1 M2 M3 M4 d0 d1 d2 d3 d4).
Proof.
  intros H0 H1 H2 H3 H4 i j Hi Hj.
  destruct i as [|[|[|[|i]]]]; [| | | |lia]; (destruct j as [|[|[|[|j]]]]; [| | | |lia]);
    unfold lin5_44; cbn [e44]; apply der_lin5; assumption.
Qed.

(* ---------------- so(3): R(t) = rodrigues_th u t solves R' = [u]x R = R [u]x, R(0) = I ---------------- *)
Lemma rodrigues_as_lin5 (u : V3 R) t :
  rodrigues_th Rops u t =
  lin5_33 (I33 Rops) (skew3 Rops u) (mmul33 Rops (skew3 Rops u) (skew3 Rops u)) (Z33 Rops) (Z33 Rops) 1 (sin t) (1 - cos t) t (t - sin t).
Proof. destruct u as [[u0 u1] u2]. unfold rodrigues_th, lin5_33. c03_simpl. cbn [e33]. tuple_eq ltac:(ring). Qed.

Lemma K_rodrigues_lin5 (u : V3 R) th : normsq3 Rops u = 1 ->
  mmul33 Rops (skew3 Rops u) (rodrigues_th Rops u th) =
  lin5_33 (I33 Rops) (skew3 Rops u) (mmul33 Rops (skew3 Rops u) (skew3 Rops u)) (Z33 Rops) (Z33 Rops) 0 (cos th) (sin th) 1 (1 - cos th).
Proof.
  intros Hu. destruct u as [[u0 u1] u2]. unfold rodrigues_th, lin5_33. cbn [cos_ sin_ Rops]. generalize (cos th) (sin th). intros c s.
  c03_simpl. cbn [e33]. tuple_eq ltac:(nsatz).
Qed.
Lemma K_rodrigues_comm (u : V3 R) th :
  mmul33 Rops (skew3 Rops u) (rodrigues_th Rops u th) = mmul33 Rops (rodrigues_th Rops u th) (skew3 Rops u).
Proof.
  destruct u as [[u0 u1] u2]. unfold rodrigues_th. cbn [cos_ sin_ Rops]. generalize (cos th) (sin th). intros c s.
  c03_simpl. tuple_eq ltac:(ring).
Qed.

Theorem rodrigues_solves_ode (u : V3 R) th : normsq3 Rops u = 1 ->
  is_derive_M33 (fun t => rodrigues_th Rops u t) th (mmul33 Rops (skew3 Rops u) (rodrigues_th Rops u th)) /\
  mmul33 Rops (skew3 Rops u) (rodrigues_th Rops u th) = mmul33 Rops (rodrigues_th Rops u th) (skew3 Rops u) /\
  rodrigues_th Rops u 0 = I33 Rops.
Proof.
  intros Hu. split; [|split; [apply K_rodrigues_comm | apply rodrigues_th_0]].
  rewrite K_rodrigues_lin5 by exact Hu.
  apply is_derive_M33_ext with (1 := rodrigues_as_lin5 u).
  apply der_lin5_33; [apply der_const | apply der_sin | apply der_1mcos | apply der_id | apply der_tmsin].
Qed.

(* ---------------- se(3): Phi(t) = trexp(S, t) on a unit twist solves Phi' = [S] Phi = Phi [S], Phi(0) = I ---------------- *)
(* [S] = skewa(S): the 4x4 matrix form of the twist (v, w) *)
Definition se3_hat (tw : V6 R) : M44 R :=
  let '(v0,v1,v2,w0,w1,w2) := tw in ((0, - w2, w1, v0), (w2, 0, - w0, v1), (- w1, w0, 0, v2), (0, 0, 0, 0)).

Lemma hat_mul_rt v0 v1 v2 w0 w1 w2 (Rm : M33 R) (p : V3 R) :
  mmul44 Rops (se3_hat (v0,v1,v2,w0,w1,w2)) (rt2tr3 Rops Rm p) =
  Ab2M Rops (mmul33 Rops (skew3 Rops (w0,w1,w2)) Rm) (vadd3 Rops (mv33 Rops (skew3 Rops (w0,w1,w2)) p) (v0,v1,v2)).
Proof. destruct Rm as [[[[a00 a01] a02] [[a10 a11] a12]] [[a20 a21] a22]]. destruct p as [[p0 p1] p2]. unfold se3_hat. c03_simpl. tuple_eq ltac:(ring). Qed.
Lemma rt_mul_hat v0 v1 v2 w0 w1 w2 (Rm : M33 R) (p : V3 R) :
  mmul44 Rops (rt2tr3 Rops Rm p) (se3_hat (v0,v1,v2,w0,w1,w2)) =
  Ab2M Rops (mmul33 Rops Rm (skew3 Rops (w0,w1,w2))) (mv33 Rops Rm (v0,v1,v2)).
Proof. destruct Rm as [[[[a00 a01] a02] [[a10 a11] a12]] [[a20 a21] a22]]. destruct p as [[p0 p1] p2]. unfold se3_hat. c03_simpl. tuple_eq ltac:(ring). Qed.
Lemma mv33_KV_plus (A B : M33 R) (x : V3 R) :
  vadd3 Rops (mv33 Rops A (mv33 Rops B x)) x = mv33 Rops (madd33 Rops (mmul33 Rops A B) (I33 Rops)) x.
Proof. lin_ring. Qed.
Lemma K_Vmat (u : V3 R) th c s : normsq3 Rops u = 1 ->
  madd33 Rops (mmul33 Rops (skew3 Rops u) (Vmat_cs Rops u th c s)) (I33 Rops) = rodrigues_cs Rops u c s.
Proof. intros Hu. destruct u as [[u0 u1] u2]. c03_simpl. tuple_eq ltac:(nsatz). Qed.

Section SE3.
Variables (K : thr) (v0 v1 v2 w0 w1 w2 : R).
Let tw : V6 R := (v0,v1,v2,w0,w1,w2).
Let Km := skew3 Rops (w0,w1,w2).
Let K2 := mmul33 Rops Km Km.
Let v : V3 R := (v0,v1,v2).
Let M1 := Ab2M Rops Km (0,0,0).
Let M2 := Ab2M Rops K2 (mv33 Rops Km v).
Let M3 := Ab2M Rops (Z33 Rops) v.
Let M4 := Ab2M Rops (Z33 Rops) (mv33 Rops K2 v).
Hypothesis HK : thr_ok K.
Hypothesis Hw : normsq3 Rops (w0,w1,w2) = 1.

Lemma trexp_unit_as_lin5 t :
  trexp_unit Rops K tw t = lin5_44 (I44 Rops) M1 M2 M3 M4 1 (sin t) (1 - cos t) t (t - sin t).
Proof.
  unfold tw, trexp_unit. rewrite rodrigues3_with_unit by assumption.
  unfold M1, M2, M3, M4, K2, Km, v, rodrigues_th, Vmat, lin5_44. cbn [cos_ sin_ Rops].
  generalize (cos t) (sin t). intros c s. c03_simpl. cbn [e44]. tuple_eq ltac:(ring).
Qed.

Lemma lin5_44_deriv_form (c s : R) :
  lin5_44 (I44 Rops) M1 M2 M3 M4 0 c s 1 (1 - c) =
  Ab2M Rops (lin5_33 (I33 Rops) Km K2 (Z33 Rops) (Z33 Rops) 0 c s 1 (1 - c)) (mv33 Rops (rodrigues_cs Rops (w0,w1,w2) c s) v).
Proof. unfold M1, M2, M3, M4, K2, Km, v, lin5_44, lin5_33. c03_simpl. cbn [e44 e33]. c03_simpl. tuple_eq ltac:(ring). Qed.

Lemma hat_Phi_lin5 th :
  mmul44 Rops (se3_hat tw) (trexp_unit Rops K tw th) = lin5_44 (I44 Rops) M1 M2 M3 M4 0 (cos th) (sin th) 1 (1 - cos th).
Proof.
  rewrite lin5_44_deriv_form. unfold tw, trexp_unit. rewrite rodrigues3_with_unit by assumption.
  rewrite hat_mul_rt. rewrite (K_rodrigues_lin5 (w0,w1,w2) th Hw). fold Km K2. f_equal.
  rewrite mv33_KV_plus. unfold Km, v, Vmat. cbn [cos_ sin_ Rops]. rewrite K_Vmat by exact Hw. reflexivity.
Qed.

Theorem trexp_unit_solves_ode th :
  is_derive_M44 (fun t => trexp_unit Rops K tw t) th (mmul44 Rops (se3_hat tw) (trexp_unit Rops K tw th)) /\
  mmul44 Rops (se3_hat tw) (trexp_unit Rops K tw th) = mmul44 Rops (trexp_unit Rops K tw th) (se3_hat tw) /\
  trexp_unit Rops K tw 0 = I44 Rops.
Proof.
  split; [|split].
  - rewrite hat_Phi_lin5. apply is_derive_M44_ext with (1 := trexp_unit_as_lin5).
    apply der_lin5_44; [apply der_const | apply der_sin | apply der_1mcos | apply der_id | apply der_tmsin].
  - unfold tw, trexp_unit. rewrite rodrigues3_with_unit by assumption.
    rewrite hat_mul_rt, rt_mul_hat. rewrite <- K_rodrigues_comm. f_equal.
    rewrite mv33_KV_plus. unfold Vmat, rodrigues_th. cbn [cos_ sin_ Rops]. rewrite K_Vmat by exact Hw. reflexivity.
  - apply trexp_unit_0; assumption.
Qed.
End SE3.

(* ---------------- se(2): Phi(t) = trexp2(S, t) on a unit twist (w = +-1) ---------------- *)
Definition se2_hat (tw : V3 R) : M33 R := let '(t0,t1,w) := tw in ((0, - w, t0), (w, 0, t1), (0, 0, 0)).

Lemma rodrigues1_with_unit K w t : thr_ok K -> w*w = 1 -> rodrigues1_with Rops K w t = rodrigues1_th Rops w t.
Proof.
  intros (Kz & Kzu & Kh & Ke & Kiu & Kz1 & Kiu1) Hw. unfold rodrigues1_with, iszerovec1, norm1. cbn [mul sqrt_ ltb Rops].
  rewrite Hw, sqrt_1. replace (Rltb 1 _) with false; [reflexivity|]. symmetry. apply Rltb_false. rewrite thv_R. lra.
Qed.

Section SE2.
Variables (K : thr) (t0 t1 w : R).
Let tw : V3 R := (t0,t1,w).
Let N1 : M33 R := ((0, - w, 0), (w, 0, 0), (0, 0, 0)).
Let N2 : M33 R := ((- (w*w), 0, - w * t1), (0, - (w*w), w * t0), (0, 0, 0)).
Let N3 : M33 R := ((0, 0, t0), (0, 0, t1), (0, 0, 0)).
Let N4 : M33 R := ((0, 0, - (w*w) * t0), (0, 0, - (w*w) * t1), (0, 0, 0)).
Hypothesis HK : thr_ok K.
Hypothesis Hw : w*w = 1.

Lemma trexp2_unit_as_lin5 t :
  trexp2_unit Rops K tw t = lin5_33 (I33 Rops) N1 N2 N3 N4 1 (sin t) (1 - cos t) t (t - sin t).
Proof.
  unfold tw, trexp2_unit. rewrite rodrigues1_with_unit by assumption.
  unfold N1, N2, N3, N4, rodrigues1_th, Vmat2, lin5_33. cbn [cos_ sin_ Rops].
  generalize (cos t) (sin t). intros c s. c03_simpl. cbn [e33]. tuple_eq ltac:(ring).
Qed.

Theorem trexp2_unit_solves_ode th :
  is_derive_M33 (fun t => trexp2_unit Rops K tw t) th (mmul33 Rops (se2_hat tw) (trexp2_unit Rops K tw th)) /\
  mmul33 Rops (se2_hat tw) (trexp2_unit Rops K tw th) = mmul33 Rops (trexp2_unit Rops K tw th) (se2_hat tw) /\
  trexp2_unit Rops K tw 0 = I33 Rops.
Proof.
  assert (ED : mmul33 Rops (se2_hat tw) (trexp2_unit Rops K tw th) = lin5_33 (I33 Rops) N1 N2 N3 N4 0 (cos th) (sin th) 1 (1 - cos th)).
  { rewrite trexp2_unit_as_lin5. unfold tw, se2_hat, N1, N2, N3, N4, lin5_33. generalize (cos th) (sin th). intros c s.
    c03_simpl. cbn [e33]. tuple_eq ltac:(nsatz). }
  split; [|split].
  - rewrite ED. apply is_derive_M33_ext with (1 := trexp2_unit_as_lin5).
    apply der_lin5_33; [apply der_const | apply der_sin | apply der_1mcos | apply der_id | apply der_tmsin].
  - rewrite ED. rewrite trexp2_unit_as_lin5. unfold tw, se2_hat, N1, N2, N3, N4, lin5_33. generalize (cos th) (sin th). intros c s.
    c03_simpl. cbn [e33].
    assert (W3 : w*w*w = w) by (rewrite Hw; ring).
    tuple_eq ltac:(try ring; ring_simplify; replace (w^3) with w by (simpl; lra); replace (w^2) with 1 by (simpl; lra); ring).
  - rewrite trexp2_unit_as_lin5. rewrite sin_0, cos_0. unfold N1, N2, N3, N4, lin5_33. c03_simpl. cbn [e33]. tuple_eq ltac:(ring).
Qed.
End SE2.
