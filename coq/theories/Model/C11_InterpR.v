(* C11 -- real-number lemmas about the interpolation models of Model/C11_Interp.v (L-real).
   Everything here is about the hand models with the thresholds as parameters; Props/C11.v instantiates the
   parameters with the constants regenerated from /repo and states the property theorems. *)
From Coq Require Import Reals ZArith Lra Nsatz Psatz Bool.
From SM Require Import Base.Ops Base.Lin Base.RInst Base.RLin Model.C11_Interp.
Open Scope R_scope.

Ltac c11_simpl := autounfold with c11 smlin in *; sm_simpl.

(* ------------------------------------------------------------------ booleans of the R instance *)
Lemma in01_true s : in01 Rops s = true <-> 0 <= s <= 1.
Proof.
  unfold in01. sm_simpl. rewrite andb_true_iff, !Rleb_true. tauto.
Qed.
Lemma in01_false s : in01 Rops s = false <-> (s < 0 \/ 1 < s).
Proof.
  destruct (in01 Rops s) eqn:E.
  - apply in01_true in E. split; [discriminate | lra].
  - split; [intros _ | reflexivity].
    destruct (Rlt_dec s 0); [tauto|]. destruct (Rlt_dec 1 s); [tauto|].
    assert (in01 Rops s = true) by (apply in01_true; lra). congruence.
Qed.
Lemma Reqb_false x y : Reqb x y = false <-> x <> y.
Proof. unfold Reqb; destruct (Req_EM_T x y); split; intros; try discriminate; try tauto. Qed.

Lemma clip11_id x : -1 <= x <= 1 -> clip11 Rops x = x.
Proof.
  intros H. unfold clip11. sm_simpl. unfold Rltb.
  repeat match goal with |- context [Rlt_dec ?a ?b] => destruct (Rlt_dec a b) end; lra.
Qed.
Lemma clip11_range x : -1 <= clip11 Rops x <= 1.
Proof.
  unfold clip11. sm_simpl. unfold Rltb.
  repeat match goal with |- context [Rlt_dec ?a ?b] => destruct (Rlt_dec a b) end; lra.
Qed.

(* ------------------------------------------------------------------ unit quaternions: |p.q| <= 1 *)
Definition unitq (q : V4 R) : Prop := qnormsq Rops q = 1.

Lemma dot4_bounds (p q : V4 R) : unitq p -> unitq q -> -1 <= dot4 Rops p q <= 1.
Proof.
  unfold unitq. intros Hp Hq. destruct_tuples. lin_simpl.
  assert (E1 : (r-r3)*(r-r3) + (r2-r6)*(r2-r6) + (r1-r5)*(r1-r5) + (r0-r4)*(r0-r4) =
               (r*r + r2*r2 + r1*r1 + r0*r0) + (r3*r3 + r6*r6 + r5*r5 + r4*r4) - 2*(r*r3 + r2*r6 + r1*r5 + r0*r4)) by ring.
  assert (E2 : (r+r3)*(r+r3) + (r2+r6)*(r2+r6) + (r1+r5)*(r1+r5) + (r0+r4)*(r0+r4) =
               (r*r + r2*r2 + r1*r1 + r0*r0) + (r3*r3 + r6*r6 + r5*r5 + r4*r4) + 2*(r*r3 + r2*r6 + r1*r5 + r0*r4)) by ring.
  pose proof (Rle_0_sqr (r-r3)); pose proof (Rle_0_sqr (r2-r6)); pose proof (Rle_0_sqr (r1-r5)); pose proof (Rle_0_sqr (r0-r4)).
  pose proof (Rle_0_sqr (r+r3)); pose proof (Rle_0_sqr (r2+r6)); pose proof (Rle_0_sqr (r1+r5)); pose proof (Rle_0_sqr (r0+r4)).
  unfold Rsqr in *. split; lra.
Qed.

Lemma unitq_neg q : unitq q -> unitq (vneg4 Rops q).
Proof. unfold unitq. intros H. destruct_tuples. lin_simpl. lra. Qed.
Lemma dot4_neg_l p q : dot4 Rops (vneg4 Rops p) q = - dot4 Rops p q.
Proof. destruct_tuples. lin_simpl. ring. Qed.

(* the flipped start quaternion is a unit quaternion, and the clipped dot product is exactly <q0', q1> *)
Lemma slerp_q0_unit sh q0 q1 : unitq q0 -> unitq (slerp_q0 Rops sh q0 q1).
Proof. intros H. unfold slerp_q0. destruct (slerp_flip _ _ _); [apply unitq_neg|]; exact H. Qed.
Lemma slerp_dot_is_dot sh q0 q1 : unitq q0 -> unitq q1 ->
  slerp_dot Rops sh q0 q1 = dot4 Rops (slerp_q0 Rops sh q0 q1) q1.
Proof.
  intros H0 H1. unfold slerp_dot, slerp_q0. pose proof (dot4_bounds q0 q1 H0 H1) as B.
  destruct (slerp_flip _ _ _).
  - rewrite dot4_neg_l. change (neg Rops (dot4 Rops q0 q1)) with (- dot4 Rops q0 q1). apply clip11_id. lra.
  - apply clip11_id. lra.
Qed.

(* the hemisphere flip happens exactly when shortest is requested and the dot product is negative *)
Lemma slerp_flip_iff sh d : slerp_flip Rops sh d = true <-> (sh = true /\ d < 0).
Proof. unfold slerp_flip. sm_simpl. rewrite andb_true_iff, Rltb_true. tauto. Qed.
Lemma slerp_dot_shortest_nonneg q0 q1 : unitq q0 -> unitq q1 -> 0 <= slerp_dot Rops true q0 q1.
Proof.
  intros H0 H1. unfold slerp_dot. pose proof (dot4_bounds q0 q1 H0 H1) as B.
  destruct (slerp_flip Rops true (dot4 Rops q0 q1)) eqn:E.
  - apply slerp_flip_iff in E. change (neg Rops (dot4 Rops q0 q1)) with (- dot4 Rops q0 q1). rewrite clip11_id; lra.
  - assert (~ dot4 Rops q0 q1 < 0) by (intros C; assert (slerp_flip Rops true (dot4 Rops q0 q1) = true) by (apply slerp_flip_iff; tauto); congruence).
    rewrite clip11_id; lra.
Qed.
Lemma acos_le_half_pi x : 0 <= x <= 1 -> acos x <= PI/2.
Proof.
  intros H. pose proof (acos_bound x) as B. destruct (Rle_dec (acos x) (PI/2)); [assumption|].
  exfalso. assert (C : cos (acos x) < 0) by (apply cos_lt_0; lra). rewrite cos_acos in C; lra.
Qed.

(* ------------------------------------------------------------------ trigonometric core *)
Section Trig.
Variables th s : R.
Let S := sin th. Let C := cos th. Let s0 := sin ((1 - s) * th). Let s1 := sin (s * th). Let c1 := cos (s * th).

Lemma w0_expand : s0 = S * c1 - C * s1.
Proof. unfold s0, S, C, c1, s1. replace ((1 - s) * th) with (th - s * th) by ring. apply sin_minus. Qed.
(* s0 + s1 cos(th) = sin(th) cos(s th) *)
Lemma weights_scalar : s0 + s1 * C = S * c1.
Proof. rewrite w0_expand. ring. Qed.
(* s0^2 + s1^2 + 2 s0 s1 cos(th) = sin(th)^2 *)
Lemma weights_norm : s0*s0 + s1*s1 + 2*s0*s1*C = S*S.
Proof.
  rewrite w0_expand. pose proof (cs_unit th) as H1. pose proof (cs_unit (s*th)) as H2. fold S C in H1. fold c1 s1 in H2.
  nsatz.
Qed.
(* the weights of UnitQuaternion.interp are those of slerp *)
Lemma uq_weights_eq : S <> 0 -> c1 - C * s1 / S = s0 / S.
Proof. intros H. rewrite w0_expand. field. exact H. Qed.
End Trig.

Lemma sin_acos_pos x : -1 < x < 1 -> 0 < sin (acos x).
Proof. intros H. apply sin_gt_0; apply acos_bound_lt; exact H. Qed.

(* ------------------------------------------------------------------ slerp, general branch *)
Section General.
Variables (a b : V4 R) (th : R).
Hypothesis Ha : unitq a.
Hypothesis Hb : unitq b.
Hypothesis Hd : dot4 Rops a b = cos th.
Hypothesis HS : sin th <> 0.

Lemma slerp_general_unit s : unitq (slerp_general Rops a b th s).
Proof using Ha Hb Hd HS.
  unfold unitq in *. destruct a as [[[a0 a1] a2] a3], b as [[[b0 b1] b2] b3]. c11_simpl.
  pose proof (weights_norm th s) as W. cbv zeta in W.
  set (s0 := sin ((1 - s) * th)) in *. set (s1 := sin (s * th)) in *. set (S := sin th) in *. set (C := cos th) in *.
  replace ((a0*s0 + b0*s1)/S * ((a0*s0 + b0*s1)/S) + (a1*s0 + b1*s1)/S * ((a1*s0 + b1*s1)/S) +
           (a2*s0 + b2*s1)/S * ((a2*s0 + b2*s1)/S) + (a3*s0 + b3*s1)/S * ((a3*s0 + b3*s1)/S))
    with ((s0*s0*(a0*a0 + a1*a1 + a2*a2 + a3*a3) + s1*s1*(b0*b0 + b1*b1 + b2*b2 + b3*b3)
           + 2*s0*s1*(a0*b0 + a1*b1 + a2*b2 + a3*b3)) / (S*S)) by (field; exact HS).
  rewrite Ha, Hb, Hd. replace (s0*s0*1 + s1*s1*1 + 2*s0*s1*C) with (S*S) by lra. field. exact HS.
Qed.

(* endpoints of the general formula (continuity with the two early returns) *)
Lemma slerp_general_0 : slerp_general Rops a b th 0 = a.
Proof using HS. clear Ha Hb Hd.
  destruct a as [[[a0 a1] a2] a3], b as [[[b0 b1] b2] b3]. c11_simpl.
  replace ((1 - 0) * th) with th by ring. replace (0 * th) with 0 by ring. rewrite sin_0.
  tuple_eq ltac:(field; exact HS).
Qed.
Lemma slerp_general_1 : slerp_general Rops a b th 1 = b.
Proof using HS. clear Ha Hb Hd.
  destruct a as [[[a0 a1] a2] a3], b as [[[b0 b1] b2] b3]. c11_simpl.
  replace ((1 - 1) * th) with 0 by ring. replace (1 * th) with th by ring. rewrite sin_0.
  tuple_eq ltac:(field; exact HS).
Qed.

(* the rotation axis: vector part of conj(a) b, divided by sin(th) -- does not mention s *)
Definition slerp_axis : V3 R :=
  let '(x, y, z) := qvec (qmul Rops (qconj Rops a) b) in (x / sin th, y / sin th, z / sin th).

Lemma slerp_axis_unit : normsq3 Rops slerp_axis = 1.
Proof using Ha Hb Hd HS.
  unfold slerp_axis, unitq in *. destruct a as [[[a0 a1] a2] a3], b as [[[b0 b1] b2] b3]. c11_simpl.
  pose proof (cs_unit th) as H1. set (S := sin th) in *. set (C := cos th) in *.
  match goal with |- ?x/S*(?x/S) + ?y/S*(?y/S) + ?z/S*(?z/S) = 1 =>
    assert (E : x*x + y*y + z*z = S*S) by
      (replace (x*x + y*y + z*z) with ((a0*a0 + a1*a1 + a2*a2 + a3*a3)*(b0*b0 + b1*b1 + b2*b2 + b3*b3)
                                        - (a0*b0 + a1*b1 + a2*b2 + a3*b3)*(a0*b0 + a1*b1 + a2*b2 + a3*b3)) by ring;
       rewrite Ha, Hb, Hd; fold C; lra);
    replace (x/S*(x/S) + y/S*(y/S) + z/S*(z/S)) with ((x*x + y*y + z*z)/(S*S)) by (field; exact HS);
    rewrite E; field; exact HS
  end.
Qed.

(* constant rate about a fixed axis, quaternion form:
   conj(a) * slerp(s) = (cos(s th), sin(s th) u),   u = slerp_axis *)
Theorem slerp_general_relative s :
  qmul Rops (qconj Rops a) (slerp_general Rops a b th s) =
  (cos (s * th), sin (s * th) * fst (fst slerp_axis), sin (s * th) * snd (fst slerp_axis), sin (s * th) * snd slerp_axis).
Proof using Ha Hd HS. clear Hb.
  unfold slerp_axis, unitq in *. destruct a as [[[a0 a1] a2] a3], b as [[[b0 b1] b2] b3]. c11_simpl.
  pose proof (weights_scalar th s) as W. cbv zeta in W.
  set (s0 := sin ((1 - s) * th)) in *. set (s1 := sin (s * th)) in *. set (S := sin th) in *. set (C := cos th) in *.
  set (c1 := cos (s * th)) in *.
  apply f_equal2; [apply f_equal2; [apply f_equal2|]|]; try (field; exact HS).
  match goal with |- ?l = c1 =>
    replace l with ((s0*(a0*a0 + a1*a1 + a2*a2 + a3*a3) + s1*(a0*b0 + a1*b1 + a2*b2 + a3*b3))/S) by (field; exact HS) end.
  rewrite Ha, Hd. fold C. replace (s0*1 + s1*C) with (S*c1) by lra. field. exact HS.
Qed.

(* a (conj(a) q) = q for unit a *)
Lemma qmul_conj_cancel (q : V4 R) : qmul Rops a (qmul Rops (qconj Rops a) q) = q.
Proof using Ha. clear Hb Hd HS.
  unfold unitq in *. destruct a as [[[a0 a1] a2] a3], q as [[[q0 q1] q2] q3]. lin_simpl.
  tuple_eq ltac:(nsatz).
Qed.
End General.

(* ------------------------------------------------------------------ rotation about an axis, Rodrigues form *)
Definition rot_aa (u : V3 R) (phi : R) : M33 R :=
  madd33 Rops (madd33 Rops (I33 Rops) (mscale33 Rops (sin phi) (skew3 Rops u)))
         (mscale33 Rops (1 - cos phi) (mmul33 Rops (skew3 Rops u) (skew3 Rops u))).

Lemma rot_aa_0 u : rot_aa u 0 = I33 Rops.
Proof. unfold rot_aa. rewrite sin_0, cos_0. destruct_tuples. lin_simpl. tuple_eq ltac:(ring). Qed.

(* one-parameter subgroup: rot(u, x+y) = rot(u,x) rot(u,y)  (unit u) *)
Lemma rot_aa_add u x y : normsq3 Rops u = 1 -> rot_aa u (x + y) = mmul33 Rops (rot_aa u x) (rot_aa u y).
Proof.
  intros H. unfold rot_aa. rewrite sin_plus, cos_plus. destruct u as [[u0 u1] u2]. lin_simpl.
  generalize (sin x) (cos x) (sin y) (cos y). intros sx cx sy cy.
  tuple_eq ltac:(nsatz).
Qed.
Lemma rot_aa_SO3 u phi : normsq3 Rops u = 1 -> SO3 (rot_aa u phi).
Proof.
  intros H. unfold rot_aa. pose proof (cs_unit phi) as H1. destruct u as [[u0 u1] u2]. lin_simpl.
  revert H1. generalize (sin phi) (cos phi). intros sp cp H1. unfold SO3. repeat split; nsatz.
Qed.

(* the rotation matrix of the quaternion (cos al, sin al u) is the rotation by 2 al about u *)
Lemma q2r_axis_angle (u : V3 R) al :
  q2r_ref Rops (cos al, sin al * fst (fst u), sin al * snd (fst u), sin al * snd u) = rot_aa u (2 * al).
Proof.
  unfold rot_aa. rewrite sin_2a, cos_2a_sin. destruct u as [[u0 u1] u2]. lin_simpl.
  tuple_eq ltac:(ring).
Qed.

(* ------------------------------------------------------------------ rotation form of the constant-rate law *)
Theorem slerp_general_rotation (a b : V4 R) th s :
  unitq a -> unitq b -> dot4 Rops a b = cos th -> sin th <> 0 ->
  q2r_ref Rops (slerp_general Rops a b th s) =
  mmul33 Rops (q2r_ref Rops a) (rot_aa (slerp_axis a b th) (2 * (s * th))).
Proof.
  intros Ha Hb Hd HS.
  rewrite <- (qmul_conj_cancel a Ha (slerp_general Rops a b th s)).
  rewrite (slerp_general_relative a b th Ha Hd HS s).
  rewrite q2r_hom.
  - rewrite q2r_axis_angle. reflexivity.
  - exact Ha.
  - rewrite <- (slerp_general_relative a b th Ha Hd HS s). unfold unitq. rewrite qmul_norm.
    fold (unitq (qconj Rops a)).
    assert (Hc : qnormsq Rops (qconj Rops a) = 1) by (unfold unitq in Ha; destruct a as [[[a0 a1] a2] a3]; lin_simpl; lra).
    rewrite Hc. pose proof (slerp_general_unit a b th Ha Hb Hd HS s) as U. unfold unitq in U. rewrite U. ring.
Qed.

(* ------------------------------------------------------------------ small-angle branch: the two endpoints are within th of each other *)
Lemma one_minus_cos_le x : 1 - cos x <= x*x/2.
Proof.
  replace x with (2*(x/2)) at 1 by field. rewrite cos_2a_sin.
  assert (H : Rabs (sin (x/2)) <= Rabs (x/2)).
  { destruct (Rle_dec 0 (x/2)) as [P|N].
    - destruct (Req_dec (x/2) 0) as [Z|NZ]; [rewrite Z, sin_0; lra|].
      assert (0 < x/2) by lra. pose proof (sin_lt_x (x/2) H).
      destruct (Rle_dec 0 (sin (x/2))).
      + rewrite !Rabs_pos_eq; lra.
      + rewrite (Rabs_pos_eq (x/2)) by lra. rewrite Rabs_left by lra.
        pose proof (SIN_bound (x/2)). destruct (Rle_dec (x/2) 1); [|lra].
        assert (0 < sin (x/2)) by (apply sin_pos_tech; lra). lra.
    - assert (0 < -(x/2)) by lra. pose proof (sin_lt_x (-(x/2)) H) as L. rewrite sin_neg in L.
      rewrite (Rabs_left (x/2)) by lra.
      destruct (Rle_dec 0 (sin (x/2))).
      + rewrite Rabs_pos_eq by lra.
        destruct (Rle_dec (-(x/2)) 1); [|pose proof (SIN_bound (x/2)); lra].
        assert (0 < sin (-(x/2))) by (apply sin_pos_tech; lra). rewrite sin_neg in *. lra.
      + rewrite Rabs_left by lra. lra. }
  assert (H2 : sin (x/2) * sin (x/2) <= (x/2)*(x/2)).
  { apply Rsqr_le_abs_1 in H. unfold Rsqr in H. exact H. }
  lra.
Qed.

Lemma small_angle_endpoints (a b : V4 R) th : unitq a -> unitq b -> dot4 Rops a b = cos th ->
  qnormsq Rops (vsub4 Rops b a) <= th * th.
Proof.
  unfold unitq. intros Ha Hb Hd. pose proof (one_minus_cos_le th) as L.
  destruct a as [[[a0 a1] a2] a3], b as [[[b0 b1] b2] b3]. lin_simpl.
  replace ((b0-a0)*(b0-a0) + (b1-a1)*(b1-a1) + (b2-a2)*(b2-a2) + (b3-a3)*(b3-a3))
    with ((a0*a0 + a1*a1 + a2*a2 + a3*a3) + (b0*b0 + b1*b1 + b2*b2 + b3*b3) - 2*(a0*b0 + a1*b1 + a2*b2 + a3*b3)) by ring.
  rewrite Ha, Hb, Hd. lra.
Qed.

(* ------------------------------------------------------------------ validity of the SE(3) result *)
Lemma trinterp_result_SE3 (q : V4 R) (p : V3 R) : unitq q -> SE3 (rt2tr3 Rops (q2r_m Rops q) p).
Proof. intros H. apply SE3_rt. unfold q2r_m. apply SO3_q2r. exact H. Qed.

(* ------------------------------------------------------------------ facts about the angle of the model *)
Lemma slerp_theta_facts sh q0 q1 : unitq q0 -> unitq q1 ->
  let th := slerp_theta Rops sh q0 q1 in
  0 <= th <= PI /\ cos th = dot4 Rops (slerp_q0 Rops sh q0 q1) q1 /\ (sh = true -> th <= PI/2).
Proof.
  intros H0 H1 th. unfold th, slerp_theta.
  change (acos_ Rops (slerp_dot Rops sh q0 q1)) with (acos (slerp_dot Rops sh q0 q1)).
  pose proof (slerp_q0_unit sh q0 q1 H0) as Ua.
  pose proof (dot4_bounds _ _ Ua H1) as B. rewrite <- (slerp_dot_is_dot sh q0 q1 H0 H1) in B.
  split; [apply acos_bound|]. split.
  - rewrite cos_acos by exact B. apply slerp_dot_is_dot; assumption.
  - intros ->. apply acos_le_half_pi. split; [apply slerp_dot_shortest_nonneg; assumption | lra].
Qed.

(* not antipodal: either the shorter arc is requested or q0.q1 > -1 *)
Definition not_antipodal (sh : bool) (q0 q1 : V4 R) : Prop := sh = true \/ -1 < dot4 Rops q0 q1.

Lemma slerp_theta_lt_pi sh q0 q1 : unitq q0 -> unitq q1 -> not_antipodal sh q0 q1 -> slerp_theta Rops sh q0 q1 < PI.
Proof.
  intros H0 H1 NA. destruct (slerp_theta_facts sh q0 q1 H0 H1) as (B & Hc & Hs).
  destruct NA as [E | D].
  - specialize (Hs E). pose proof PI_RGT_0. lra.
  - destruct (Rlt_dec (slerp_theta Rops sh q0 q1) PI); [assumption|].
    assert (E : slerp_theta Rops sh q0 q1 = PI) by lra. rewrite E, cos_PI in Hc.
    unfold slerp_q0 in Hc. destruct (slerp_flip Rops sh (dot4 Rops q0 q1)) eqn:F.
    + apply slerp_flip_iff in F. rewrite dot4_neg_l in Hc. pose proof (dot4_bounds q0 q1 H0 H1). lra.
    + lra.
Qed.
Lemma slerp_sin_theta_pos sh q0 q1 : unitq q0 -> unitq q1 -> not_antipodal sh q0 q1 ->
  0 < slerp_theta Rops sh q0 q1 -> 0 < sin (slerp_theta Rops sh q0 q1).
Proof. intros H0 H1 NA P. apply sin_gt_0; [exact P | apply slerp_theta_lt_pi; assumption]. Qed.

(* q and -q are the same rotation *)
Lemma q2r_neg (q : V4 R) : q2r_ref Rops (vneg4 Rops q) = q2r_ref Rops q.
Proof. destruct q as [[[a b] c] d]. lin_simpl. tuple_eq ltac:(ring). Qed.
Lemma q2r_slerp_q0 sh q0 q1 : q2r_ref Rops (slerp_q0 Rops sh q0 q1) = q2r_ref Rops q0.
Proof. unfold slerp_q0. destruct (slerp_flip _ _ _); [apply q2r_neg | reflexivity]. Qed.

(* the UnitQuaternion constructor on an exactly-unit vector hands it back *)
Lemma uq_construct_unit ku kv q : unitq q -> ku * eps Rops <= 1 -> 0 < kv * eps Rops -> uq_construct Rops ku kv q = Ok q.
Proof.
  unfold unitq. intros H Hku Hkv. destruct q as [[[a b] c] d]. unfold uq_construct, qunit_m. lin_simpl. sm_simpl.
  rewrite H, sqrt_1. replace (1 - 1) with 0 by ring. rewrite Rabs_R0, Rabs_R1.
  assert (E1 : Rltb 0 (kv * / 4503599627370496) = true) by (apply Rltb_true; exact Hkv). rewrite E1.
  assert (E2 : Rltb 1 (ku * / 4503599627370496) = false) by (apply Rltb_false; lra). rewrite E2.
  apply f_equal. tuple_eq ltac:(field).
Qed.

(* ------------------------------------------------------------------ atan2 of a point of the unit circle *)
Lemma atan2_unit_circle x y : x*x + y*y = 1 -> cos (atan2 y x) = x /\ sin (atan2 y x) = y.
Proof.
  intros H. unfold atan2.
  assert (Hpos : forall x y, x*x + y*y = 1 -> 0 < x -> cos (atan (y/x)) = x /\ sin (atan (y/x)) = y).
  { clear. intros x y H Hx. rewrite cos_atan, sin_atan.
    assert (E : sqrt (1 + (y/x)²) = 1/x).
    { apply sqrt_lem_1.
      - unfold Rsqr. assert (0 <= (y/x)*(y/x)) by nra. lra.
      - apply Rlt_le. apply Rdiv_lt_0_compat; lra.
      - unfold Rsqr. field_simplify; [|lra|lra]. rewrite <- H. field. lra. }
    rewrite E. split; field; lra. }
  destruct (Rlt_dec 0 x) as [Px|Nx]; [apply Hpos; assumption|].
  destruct (Rlt_dec x 0) as [Lx|Zx].
  - (* x < 0: atan(y/x) = atan((-y)/(-x)) *)
    assert (Hn : (-x)*(-x) + (-y)*(-y) = 1) by lra.
    destruct (Hpos (-x) (-y) Hn ltac:(lra)) as [C S].
    replace ((-y)/(-x)) with (y/x) in * by (field; lra).
    destruct (Rle_dec 0 y).
    + rewrite cos_plus, sin_plus, cos_PI, sin_PI, C, S. split; ring.
    + rewrite cos_minus, sin_minus, cos_PI, sin_PI, C, S. split; ring.
  - assert (x = 0) by lra. subst x. assert (Y : y*y = 1) by lra.
    destruct (Rlt_dec 0 y) as [Py|Ny].
    + replace y with 1 by nra. rewrite cos_PI2, sin_PI2. split; reflexivity.
    + destruct (Rlt_dec y 0) as [Ly|Zy].
      * replace y with (-1) by nra. replace (- PI / 2) with (- (PI/2)) by field.
        rewrite cos_neg, sin_neg, cos_PI2, sin_PI2. split; ring.
      * exfalso. assert (y = 0) by lra. subst y. lra.
Qed.
