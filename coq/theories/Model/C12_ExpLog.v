(* C12 -- hand-written reference model of Quaternion.exp / Quaternion.log and of the pieces they call,
   generic over the [ops] record (instantiated with R for the theorems and, after extraction, with OCaml
   floats for the numeric correspondence with the implementation).

   Mirrors, branch for branch and in the same operation order, the code AS IT IS (after the repairs
   b361ecf log by atan2 / zero vector part, dbb1296 exp of a real quaternion) in
     base/vectors.py       norm (the loop sum += x*x, then sqrt)
     base/quaternions.py   qnorm (np.linalg.norm of the 4-vector), unit (ValueError below tol*_eps)
     quaternion.py         Quaternion.norm, Quaternion.log, Quaternion.exp (both branches),
                           UnitQuaternion(s=, v=) (the normalising constructor: base.unit),
                           Quaternion(s=, v=) (np.r_[s, v], no arithmetic)
   The thresholds are NOT literals here: they are the fields of a [qthr] record whose value is regenerated
   from the source AST on every run (coq/gen/Consts_C12.v).
   Python errors are results:
     [ValueErr]  math.log(0); the explicit raise of log for a negative real quaternion; the explicit raise of base.unit
     [TypeErr]   not produced by the current code (kept so that the error codes of the correspondence are stable)
   (math.exp overflowing for s > 709.78 is a floating-point range matter with no counterpart over R.) *)
From Coq Require Import ZArith.
From SM Require Import Base.Ops Base.Lin.

Record qthr (T : Type) := {
  t_exp     : T;   (* Quaternion.exp  : abs(self.s) < t_exp      (source: 100 * _eps) *)
  t_unit    : T    (* quaternions.unit: abs(nm) < t_unit         (source: tol * _eps, default tol=10) *)
}.
Arguments t_exp {T} _. Arguments t_unit {T} _.

Inductive qres (A : Type) := Ok (a : A) | TypeErr | ValueErr.
Arguments Ok {A} a. Arguments TypeErr {A}. Arguments ValueErr {A}.
Definition qres_opt {A} (r : qres A) : option A := match r with Ok a => Some a | _ => None end.
Definition qres_code {T} (O : ops T) {A} (r : qres A) : T :=
  match r with Ok _ => zero O | TypeErr => one O | ValueErr => add O (one O) (one O) end.
Definition qbind {A B} (r : qres A) (f : A -> qres B) : qres B :=
  match r with Ok a => f a | TypeErr => TypeErr | ValueErr => ValueErr end.

Section Model.
Context {T : Type} (O : ops T) (K : qthr T).
Local Notation "0" := (zero O). Local Notation "1" := (one O).
Local Infix "+" := (add O). Local Infix "-" := (sub O). Local Infix "*" := (mul O).
Local Infix "/" := (div O).

(* vectors.norm: sum = 0; for x in v: sum += x * x; return math.sqrt(sum)      (0 + a*a is a*a exactly) *)
Definition vnorm3 (v : V3 T) : T := let '(a,b,c) := v in sqrt_ O (a*a + b*b + c*c).

(* quaternions.qnorm / Quaternion.norm (single element): np.linalg.norm(q) = sqrt(q . q) *)
Definition qnorm4 (q : V4 T) : T := let '(s,x,y,z) := q in sqrt_ O (s*s + x*x + y*y + z*z).

(* quaternions.unit: nm = np.linalg.norm(q); if abs(nm) < tol*_eps: raise ValueError; return q / nm *)
Definition qunit (q : V4 T) : qres (V4 T) :=
  let nm := qnorm4 q in
  if ltb O (abs_ O nm) (t_unit K) then ValueErr
  else let '(s,x,y,z) := q in Ok (s/nm, x/nm, y/nm, z/nm).

(* Quaternion.log:
     norm = self.norm(); s = math.log(norm); norm_v = base.norm(self.v)
     if norm_v == 0:
         if self.s < 0: raise ValueError
         v = np.zeros((3,))
     else:
         v = math.atan2(norm_v, self.s) * self.v / norm_v
     return Quaternion(s=s, v=v) *)
Definition qlog (q : V4 T) : qres (V4 T) :=
  let '(s,x,y,z) := q in
  let nrm := qnorm4 q in
  if leb O nrm 0 then ValueErr                       (* math.log: math domain error *)
  else
    let ls := ln_ O nrm in
    let nv := vnorm3 (x,y,z) in
    if eqb O nv 0 then
      if ltb O s 0 then ValueErr                     (* negative real quaternion *)
      else Ok (ls, 0, 0, 0)
    else
      let th := atan2_ O nv s in
      Ok (ls, th*x/nv, th*y/nv, th*z/nv).

(* Quaternion.exp:
     exp_s = math.exp(self.s); norm_v = base.norm(self.v); s = exp_s * math.cos(norm_v)
     if norm_v == 0: v = exp_s * self.v
     else:           v = exp_s * self.v / norm_v * math.sin(norm_v)
     if abs(self.s) < K: return UnitQuaternion(s=s, v=v)     # normalised by base.unit
     else:               return Quaternion(s=s, v=v)
   the boolean is the class of the result (true = UnitQuaternion) *)
Definition qexp (q : V4 T) : qres (bool * V4 T) :=
  let '(s,x,y,z) := q in
  let es := exp_ O s in
  let nv := vnorm3 (x,y,z) in
  let s' := es * cos_ O nv in
  let r := if eqb O nv 0 then (s', es*x, es*y, es*z)
           else let sn := sin_ O nv in (s', es*x/nv*sn, es*y/nv*sn, es*z/nv*sn) in
  if ltb O (abs_ O s) (t_exp K) then qbind (qunit r) (fun u => Ok (true, u))
  else Ok (false, r).

Definition qexp_vec (q : V4 T) : qres (V4 T) := qbind (qexp q) (fun r => Ok (snd r)).
Definition qexp_is_unit (q : V4 T) : bool := match qexp q with Ok (b, _) => b | _ => false end.

(* the two round trips of the property *)
Definition qexp_log (q : V4 T) : qres (V4 T) := qbind (qlog q) qexp_vec.      (* q.log().exp() *)
Definition qlog_exp (q : V4 T) : qres (V4 T) := qbind (qexp_vec q) qlog.      (* q.exp().log() *)

End Model.
