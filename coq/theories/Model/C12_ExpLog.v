(* C12 -- hand-written reference model of Quaternion.exp / Quaternion.log and of the pieces they call,
   generic over the [ops] record (instantiated with R for the theorems and, after extraction, with OCaml
   floats for the numeric correspondence with the implementation).

   Mirrors, branch for branch and in the same operation order, the code AS IT IS in
     base/vectors.py       norm (the loop sum += x*x, then sqrt), unitvec (None at or below its threshold)
     base/quaternions.py   qnorm (np.linalg.norm of the 4-vector), unit (ValueError below tol*_eps)
     quaternion.py         Quaternion.norm, Quaternion.log, Quaternion.exp (both branches),
                           UnitQuaternion(s=, v=) (the normalising constructor: base.unit),
                           Quaternion(s=, v=) (np.r_[s, v], no arithmetic)
   The thresholds are NOT literals here: they are the fields of a [qthr] record whose value is regenerated
   from the source AST on every run (coq/gen/Consts_C12.v).
   Python errors are results:
     [ValueErr]  math.log(0) / math.acos outside [-1,1] in log; the explicit raise of base.unit
     [TypeErr]   `float * None` in log when unitvec returns None
     [NanRes]    no exception: exp divides the (ndarray) vector part by its norm 0 -> NaN components
   (math.exp overflowing for s > 709.78 is a floating-point range matter with no counterpart over R.) *)
From Coq Require Import ZArith.
From SM Require Import Base.Ops Base.Lin.

Record qthr (T : Type) := {
  t_exp     : T;   (* Quaternion.exp  : abs(self.s) < t_exp      (source: 100 * _eps) *)
  t_unitvec : T;   (* vectors.unitvec : n > t_unitvec            (source: 100 * _eps) *)
  t_unit    : T    (* quaternions.unit: abs(nm) < t_unit         (source: tol * _eps, default tol=10) *)
}.
Arguments t_exp {T} _. Arguments t_unitvec {T} _. Arguments t_unit {T} _.

Inductive qres (A : Type) := Ok (a : A) | TypeErr | ValueErr | NanRes.
Arguments Ok {A} a. Arguments TypeErr {A}. Arguments ValueErr {A}. Arguments NanRes {A}.
Definition qres_opt {A} (r : qres A) : option A := match r with Ok a => Some a | _ => None end.
Definition qres_code {T} (O : ops T) {A} (r : qres A) : T :=
  match r with Ok _ => zero O | TypeErr => one O | ValueErr => add O (one O) (one O)
             | NanRes => add O (add O (one O) (one O)) (one O) end.
Definition qbind {A B} (r : qres A) (f : A -> qres B) : qres B :=
  match r with Ok a => f a | TypeErr => TypeErr | ValueErr => ValueErr | NanRes => NanRes end.

Section Model.
Context {T : Type} (O : ops T) (K : qthr T).
Local Notation "0" := (zero O). Local Notation "1" := (one O).
Local Infix "+" := (add O). Local Infix "-" := (sub O). Local Infix "*" := (mul O).
Local Infix "/" := (div O).

(* vectors.norm: sum = 0; for x in v: sum += x * x; return math.sqrt(sum)      (0 + a*a is a*a exactly) *)
Definition vnorm3 (v : V3 T) : T := let '(a,b,c) := v in sqrt_ O (a*a + b*b + c*c).

(* quaternions.qnorm / Quaternion.norm (single element): np.linalg.norm(q) = sqrt(q . q) *)
Definition qnorm4 (q : V4 T) : T := let '(s,x,y,z) := q in sqrt_ O (s*s + x*x + y*y + z*z).

(* vectors.unitvec: n = norm(v); if n > K: return v / n  else: return None *)
Definition unitvec3 (v : V3 T) : option (V3 T) :=
  let n := vnorm3 v in
  if ltb O (t_unitvec K) n then let '(a,b,c) := v in Some (a/n, b/n, c/n) else None.

(* quaternions.unit: nm = np.linalg.norm(q); if abs(nm) < tol*_eps: raise ValueError; return q / nm *)
Definition qunit (q : V4 T) : qres (V4 T) :=
  let nm := qnorm4 q in
  if ltb O (abs_ O nm) (t_unit K) then ValueErr
  else let '(s,x,y,z) := q in Ok (s/nm, x/nm, y/nm, z/nm).

(* Quaternion.log:
     norm = self.norm(); s = math.log(norm); v = math.acos(self.s / norm) * base.unitvec(self.v)
     return Quaternion(s=s, v=v) *)
Definition qlog (q : V4 T) : qres (V4 T) :=
  let '(s,x,y,z) := q in
  let nrm := qnorm4 q in
  if leb O nrm 0 then ValueErr                       (* math.log: math domain error *)
  else
    let ls := ln_ O nrm in
    let c := s / nrm in
    if ltb O 1 (abs_ O c) then ValueErr              (* math.acos: math domain error *)
    else
      let th := acos_ O c in
      match unitvec3 (x,y,z) with
      | None => TypeErr                              (* float * None *)
      | Some (u0,u1,u2) => Ok (ls, th*u0, th*u1, th*u2)
      end.

(* Quaternion.exp:
     exp_s = math.exp(self.s); norm_v = base.norm(self.v)
     s = exp_s * math.cos(norm_v); v = exp_s * self.v / norm_v * math.sin(norm_v)
     if abs(self.s) < K: return UnitQuaternion(s=s, v=v)     # normalised by base.unit
     else:               return Quaternion(s=s, v=v)
   the boolean is the class of the result (true = UnitQuaternion) *)
Definition qexp (q : V4 T) : qres (bool * V4 T) :=
  let '(s,x,y,z) := q in
  let es := exp_ O s in
  let nv := vnorm3 (x,y,z) in
  let s' := es * cos_ O nv in
  if eqb O nv 0 then NanRes                          (* ndarray / 0.0: NaN, no exception *)
  else
    let sn := sin_ O nv in
    let r := (s', es*x/nv*sn, es*y/nv*sn, es*z/nv*sn) in
    if ltb O (abs_ O s) (t_exp K) then qbind (qunit r) (fun u => Ok (true, u))
    else Ok (false, r).

Definition qexp_vec (q : V4 T) : qres (V4 T) := qbind (qexp q) (fun r => Ok (snd r)).
Definition qexp_is_unit (q : V4 T) : bool := match qexp q with Ok (b, _) => b | _ => false end.

(* the two round trips of the property *)
Definition qexp_log (q : V4 T) : qres (V4 T) := qbind (qlog q) qexp_vec.      (* q.log().exp() *)
Definition qlog_exp (q : V4 T) : qres (V4 T) := qbind (qexp_vec q) qlog.      (* q.exp().log() *)

End Model.
