(* C05 -- hand-written, scalar-generic models of the angle-extraction kernels of
   spatialmath/base/transforms3d.py (tr2rpy, tr2eul) and transforms2d.py (tr2xyt), mirroring the code AS IT IS:
   same branch tests, same formulas, same operation order (so that the float instance agrees with the
   implementation bit for bit, including at the thresholds).  The threshold multipliers (the `10` of
   `10 * _eps`) are PARAMETERS: every run re-reads them from the source AST (coq/gen/Consts_C05.v).
   Since fix dd68bbe the singular branch computes math.asin(np.clip(x, -1.0, 1.0)), so tr2rpy is total (before the fix
   math.asin raised ValueError for |x| = 1 + ulp and the model returned an option). *)
From Coq Require Import ZArith.
From SM Require Import Base.Ops Base.Lin.

Section Angles.
Context {T : Type} (O : ops T).
Local Notation "0" := (zero O). Local Notation "1" := (one O).
Local Infix "+" := (add O). Local Infix "-" := (sub O). Local Infix "*" := (mul O).
Local Infix "/" := (div O). Local Notation "- x" := (neg O x).
Local Notation abs := (abs_ O). Local Notation atan2 := (atan2_ O). Local Notation atan := (atan_ O).
Local Notation asin := (asin_ O). Local Notation cos := (cos_ O). Local Notation sin := (sin_ O).
Local Notation "a <? b" := (ltb O a b) (at level 70).

(* np.argmax(np.abs([a,b,c,d])): index of the FIRST maximum *)
Definition argmax4 (a b c d : T) : nat :=
  let k := Datatypes.O in let m := a in
  let km := if m <? b then (1%nat, b) else (k, m) in
  let km := if snd km <? c then (2%nat, c) else km in
  let km := if snd km <? d then (3%nat, d) else km in
  fst km.

(* np.clip(x, -1.0, 1.0) = minimum(maximum(x, -1), 1), then math.asin *)
Definition clip1 (x : T) : T := if ltb O x (neg O (one O)) then neg O (one O) else if ltb O (one O) x then one O else x.
Definition asin_clip (x : T) : T := asin (clip1 x).

(* rpy *= 180 / math.pi *)
Definition to_deg : T := of_Z O 180 / pi_f O.
Definition scale_unit (deg : bool) (a : V3 T) : V3 T :=
  if deg then let '(a0,a1,a2) := a in (a0 * to_deg, a1 * to_deg, a2 * to_deg) else a.

(* ------------------------------------------------------------------ tr2rpy, order 'zyx' / 'vehicle' *)
Definition is_sing (c x : T) : bool := abs (abs x - 1) <? c * eps O.

(* the four argmax-selected pitch formulas, given roll r and yaw y already extracted *)
Definition pitch_zyx (k : nat) (R : M33 T) (r y : T) : T :=
  let '((r00,r01,r02),(r10,r11,r12),(r20,r21,r22)) := R in
  match k with
  | Datatypes.O => - atan (r20 * cos y / r00)
  | 1%nat => - atan (r20 * sin y / r10)
  | 2%nat => - atan (r20 * sin r / r21)
  | _ => - atan (r20 * cos r / r22)
  end.
Definition argmax_zyx (R : M33 T) : nat :=
  let '((r00,r01,r02),(r10,r11,r12),(r20,r21,r22)) := R in argmax4 (abs r00) (abs r10) (abs r21) (abs r22).
Definition rpy_zyx_sing (R : M33 T) : V3 T :=
  let '((r00,r01,r02),(r10,r11,r12),(r20,r21,r22)) := R in
  let y := if r20 <? 0 then - atan2 r01 r02 else atan2 (- r01) (- r02) in
  (0, - asin_clip r20, y).
Definition rpy_zyx_ns (k : nat) (R : M33 T) : V3 T :=
  let '((r00,r01,r02),(r10,r11,r12),(r20,r21,r22)) := R in
  let r := atan2 r21 r22 in let y := atan2 r10 r00 in
  (r, pitch_zyx k R r y, y).
Definition tr2rpy_zyx (c : T) (R : M33 T) : V3 T :=
  let '((r00,r01,r02),(r10,r11,r12),(r20,r21,r22)) := R in
  if is_sing c r20 then rpy_zyx_sing R else rpy_zyx_ns (argmax_zyx R) R.

(* ------------------------------------------------------------------ order 'xyz' / 'arm' *)
Definition pitch_xyz (k : nat) (R : M33 T) (r y : T) : T :=
  let '((r00,r01,r02),(r10,r11,r12),(r20,r21,r22)) := R in
  match k with
  | Datatypes.O => atan (r02 * cos r / r00)
  | 1%nat => - atan (r02 * sin r / r01)
  | 2%nat => - atan (r02 * sin y / r12)
  | _ => atan (r02 * cos y / r22)
  end.
Definition argmax_xyz (R : M33 T) : nat :=
  let '((r00,r01,r02),(r10,r11,r12),(r20,r21,r22)) := R in argmax4 (abs r00) (abs r01) (abs r12) (abs r22).
Definition rpy_xyz_sing (R : M33 T) : V3 T :=
  let '((r00,r01,r02),(r10,r11,r12),(r20,r21,r22)) := R in
  let y := if 0 <? r02 then atan2 r21 r11 else - atan2 r10 r20 in
  (0, asin_clip r02, y).
Definition rpy_xyz_ns (k : nat) (R : M33 T) : V3 T :=
  let '((r00,r01,r02),(r10,r11,r12),(r20,r21,r22)) := R in
  let r := - atan2 r01 r00 in let y := - atan2 r12 r22 in
  (r, pitch_xyz k R r y, y).
Definition tr2rpy_xyz (c : T) (R : M33 T) : V3 T :=
  let '((r00,r01,r02),(r10,r11,r12),(r20,r21,r22)) := R in
  if is_sing c r02 then rpy_xyz_sing R else rpy_xyz_ns (argmax_xyz R) R.

(* ------------------------------------------------------------------ order 'yxz' / 'camera' *)
Definition pitch_yxz (k : nat) (R : M33 T) (r y : T) : T :=
  let '((r00,r01,r02),(r10,r11,r12),(r20,r21,r22)) := R in
  match k with
  | Datatypes.O => - atan (r12 * sin r / r10)
  | 1%nat => - atan (r12 * cos r / r11)
  | 2%nat => - atan (r12 * sin y / r02)
  | _ => - atan (r12 * cos y / r22)
  end.
Definition argmax_yxz (R : M33 T) : nat :=
  let '((r00,r01,r02),(r10,r11,r12),(r20,r21,r22)) := R in argmax4 (abs r10) (abs r11) (abs r02) (abs r22).
Definition rpy_yxz_sing (R : M33 T) : V3 T :=
  let '((r00,r01,r02),(r10,r11,r12),(r20,r21,r22)) := R in
  let y := if r12 <? 0 then - atan2 r20 r00 else atan2 (- r20) (- r21) in
  (0, - asin_clip r12, y).
Definition rpy_yxz_ns (k : nat) (R : M33 T) : V3 T :=
  let '((r00,r01,r02),(r10,r11,r12),(r20,r21,r22)) := R in
  let r := atan2 r10 r11 in let y := atan2 r02 r22 in
  (r, pitch_yxz k R r y, y).
Definition tr2rpy_yxz (c : T) (R : M33 T) : V3 T :=
  let '((r00,r01,r02),(r10,r11,r12),(r20,r21,r22)) := R in
  if is_sing c r12 then rpy_yxz_sing R else rpy_yxz_ns (argmax_yxz R) R.

(* with the unit option *)
Definition tr2rpy_zyx_u (c : T) (deg : bool) (R : M33 T) : V3 T := scale_unit deg (tr2rpy_zyx c R).
Definition tr2rpy_xyz_u (c : T) (deg : bool) (R : M33 T) : V3 T := scale_unit deg (tr2rpy_xyz c R).
Definition tr2rpy_yxz_u (c : T) (deg : bool) (R : M33 T) : V3 T := scale_unit deg (tr2rpy_yxz c R).

(* ------------------------------------------------------------------ tr2eul *)
(* the last two angles given the first (code lines shared by both branches), sp/cp passed in;
   in the singular branch the code uses the INTEGERS sp = 0, cp = 1, and `-sp` is the integer 0 *)
Definition eul_sing (R : M33 T) : V3 T :=
  let '((r00,r01,r02),(r10,r11,r12),(r20,r21,r22)) := R in
  (0, atan2 (1 * r02 + 0 * r12) r22, atan2 (0 * r00 + 1 * r10) (0 * r01 + 1 * r11)).
Definition eul_ns (flip : bool) (R : M33 T) : V3 T :=
  let '((r00,r01,r02),(r10,r11,r12),(r20,r21,r22)) := R in
  let a := if flip then atan2 (- r12) (- r02) else atan2 r12 r02 in
  let sp := sin a in let cp := cos a in
  (a, atan2 (cp * r02 + sp * r12) r22, atan2 ((- sp) * r00 + cp * r10) ((- sp) * r01 + cp * r11)).
Definition eul_is_sing (c1 c2 : T) (R : M33 T) : bool :=
  let '((r00,r01,r02),(r10,r11,r12),(r20,r21,r22)) := R in
  andb (abs r02 <? c1 * eps O) (abs r12 <? c2 * eps O).
Definition tr2eul (c1 c2 : T) (flip : bool) (R : M33 T) : V3 T :=
  if eul_is_sing c1 c2 R then eul_sing R else eul_ns flip R.
Definition tr2eul_u (c1 c2 : T) (flip deg : bool) (R : M33 T) : V3 T := scale_unit deg (tr2eul c1 c2 flip R).

(* ------------------------------------------------------------------ planar *)
(* tr2xyt(T, unit): angle = atan2(T[1,0], T[0,0]); if unit == 'deg': angle *= 180 / math.pi   (fix 3a3ffa8) *)
Definition tr2xyt (deg : bool) (A : M33 T) : V3 T :=
  let '((a00,a01,a02),(a10,a11,a12),(a20,a21,a22)) := A in
  (a02, a12, if deg then atan2 a10 a00 * to_deg else atan2 a10 a00).
(* SO2.theta(unit) / SE2.theta(unit): conv * atan2(A[1,0], A[0,0]), conv = 180.0/math.pi or 1.0 *)
Definition theta2 (deg : bool) (A : M22 T) : T :=
  let '((a00,a01),(a10,a11)) := A in (if deg then to_deg else 1) * atan2 a10 a00.

(* SE(3) inputs: tr2rpy / tr2eul take the rotation block *)
Definition tr2rpy_zyx_u4 c deg (A : M44 T) := tr2rpy_zyx_u c deg (t2r3 A).
Definition tr2rpy_xyz_u4 c deg (A : M44 T) := tr2rpy_xyz_u c deg (t2r3 A).
Definition tr2rpy_yxz_u4 c deg (A : M44 T) := tr2rpy_yxz_u c deg (t2r3 A).
Definition tr2eul_u4 c1 c2 flip deg (A : M44 T) := tr2eul_u c1 c2 flip deg (t2r3 A).

(* reference constructors in (cos, sin) product form: the documented axis orders *)
Definition Rz a := rotz_cs O (cos a) (sin a).
Definition Ry a := roty_cs O (cos a) (sin a).
Definition Rx a := rotx_cs O (cos a) (sin a).
Definition rpy2r_zyx_ref (a : V3 T) : M33 T := let '(r,p,y) := a in mmul33 O (Rz y) (mmul33 O (Ry p) (Rx r)).
Definition rpy2r_xyz_ref (a : V3 T) : M33 T := let '(r,p,y) := a in mmul33 O (Rx y) (mmul33 O (Ry p) (Rz r)).
Definition rpy2r_yxz_ref (a : V3 T) : M33 T := let '(r,p,y) := a in mmul33 O (Ry y) (mmul33 O (Rx p) (Rz r)).
Definition eul2r_ref (a : V3 T) : M33 T := let '(f,t,p) := a in mmul33 O (Rz f) (mmul33 O (Ry t) (Rz p)).
Definition xyt2tr_ref (a : V3 T) : M33 T := let '(x,y,t) := a in rt2tr2 O (rot2_cs O (cos t) (sin t)) (x,y).
End Angles.

Create HintDb c05 discriminated.
#[export] Hint Unfold argmax4 clip1 asin_clip to_deg scale_unit is_sing pitch_zyx argmax_zyx rpy_zyx_sing rpy_zyx_ns tr2rpy_zyx
  pitch_xyz argmax_xyz rpy_xyz_sing rpy_xyz_ns tr2rpy_xyz pitch_yxz argmax_yxz rpy_yxz_sing rpy_yxz_ns tr2rpy_yxz
  tr2rpy_zyx_u tr2rpy_xyz_u tr2rpy_yxz_u eul_sing eul_ns eul_is_sing tr2eul tr2eul_u tr2xyt theta2
  tr2rpy_zyx_u4 tr2rpy_xyz_u4 tr2rpy_yxz_u4 tr2eul_u4 Rz Ry Rx rpy2r_zyx_ref rpy2r_xyz_ref rpy2r_yxz_ref eul2r_ref xyt2tr_ref : c05.
