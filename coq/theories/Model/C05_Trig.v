(* C05 -- atan2 / atan / asin facts over Coq's Reals used by the angle-extraction theorems.
   atan2 is defined in Base/RInst.v (not in the standard library). *)
From Coq Require Import Reals Lra Psatz.
From SM Require Import Base.Ops Base.RInst.
Open Scope R_scope.

Lemma hyp_pos x y : 0 < x -> sqrt (1 + (y/x)²) = sqrt (x*x+y*y) / x.
Proof.
  intros Hx. unfold Rsqr.
  replace (1 + y/x*(y/x)) with ((x*x+y*y) / (x*x)) by (field; lra).
  rewrite sqrt_div_alt by nra. rewrite sqrt_square by lra. reflexivity.
Qed.

Lemma hyp_neg x y : x < 0 -> sqrt (1 + (y/x)²) = sqrt (x*x+y*y) / (-x).
Proof.
  intros Hx. replace (y/x) with ((-y)/(-x)) by (field; lra). rewrite hyp_pos by lra.
  f_equal. f_equal. ring.
Qed.

Lemma hyp_gt0 x y : 0 < x*x + y*y -> 0 < sqrt (x*x+y*y).
Proof. intros. apply sqrt_lt_R0; lra. Qed.

Lemma sqrt_sq_abs y : sqrt (y*y) = Rabs y.
Proof. replace (y*y) with (y²) by (unfold Rsqr; ring). apply sqrt_Rsqr_abs. Qed.

Lemma cos_atan2 y x : 0 < x*x + y*y -> cos (atan2 y x) = x / sqrt (x*x+y*y).
Proof.
  intros H. pose proof (hyp_gt0 x y H) as Hs. unfold atan2.
  destruct (Rlt_dec 0 x) as [Hx|Hx].
  - rewrite cos_atan, hyp_pos by assumption. field. lra.
  - destruct (Rlt_dec x 0) as [Hx'|Hx'].
    + destruct (Rle_dec 0 y).
      * rewrite cos_plus, cos_PI, sin_PI, cos_atan, hyp_neg by assumption. field. lra.
      * rewrite cos_minus, cos_PI, sin_PI, cos_atan, hyp_neg by assumption. field. lra.
    + assert (x = 0) by lra. subst x.
      destruct (Rlt_dec 0 y); [rewrite cos_PI2; field; lra|].
      destruct (Rlt_dec y 0); [|exfalso; assert (y = 0) by lra; subst; lra].
      replace (-PI/2) with (-(PI/2)) by field. rewrite cos_neg, cos_PI2. field. lra.
Qed.

Lemma sin_atan2 y x : 0 < x*x + y*y -> sin (atan2 y x) = y / sqrt (x*x+y*y).
Proof.
  intros H. pose proof (hyp_gt0 x y H) as Hs. unfold atan2.
  destruct (Rlt_dec 0 x) as [Hx|Hx].
  - rewrite sin_atan, hyp_pos by assumption. field. lra.
  - destruct (Rlt_dec x 0) as [Hx'|Hx'].
    + destruct (Rle_dec 0 y).
      * rewrite sin_plus, cos_PI, sin_PI, sin_atan, hyp_neg by assumption. field. lra.
      * rewrite sin_minus, cos_PI, sin_PI, sin_atan, hyp_neg by assumption. field. lra.
    + assert (x = 0) by lra. subst x.
      replace (0*0+y*y) with (y*y) in * by ring. rewrite sqrt_sq_abs in *.
      destruct (Rlt_dec 0 y); [rewrite sin_PI2, Rabs_right by lra; field; lra|].
      destruct (Rlt_dec y 0); [|exfalso; assert (y = 0) by lra; subst; lra].
      replace (-PI/2) with (-(PI/2)) by field. rewrite sin_neg, sin_PI2, Rabs_left by lra. field. lra.
Qed.

Lemma atan2_0_0 : atan2 0 0 = 0.
Proof.
  unfold atan2. destruct (Rlt_dec 0 0); [lra|]. reflexivity.
Qed.

(* -PI < atan2 y x <= PI for every argument pair (including (0,0)) *)
Lemma atan2_range y x : - PI < atan2 y x <= PI.
Proof.
  pose proof PI_RGT_0. pose proof (atan_bound (y/x)) as [Hl Hu]. unfold atan2.
  destruct (Rlt_dec 0 x) as [Hx|Hx]; [lra|].
  destruct (Rlt_dec x 0) as [Hx'|Hx'].
  - destruct (Rle_dec 0 y) as [Hy|Hy].
    + assert (y / x <= 0).
      { unfold Rdiv. assert (/ x < 0) by (apply Rinv_lt_0_compat; lra). nra. }
      assert (atan (y/x) <= 0).
      { destruct (Req_dec (y/x) 0) as [->|]; [rewrite atan_0; lra|].
        left. rewrite <- atan_0. apply atan_increasing. lra. }
      lra.
    + assert (0 < y / x).
      { unfold Rdiv. assert (/ x < 0) by (apply Rinv_lt_0_compat; lra). nra. }
      assert (0 < atan (y/x)) by (rewrite <- atan_0; apply atan_increasing; lra).
      lra.
  - destruct (Rlt_dec 0 y); [lra|]. destruct (Rlt_dec y 0); lra.
Qed.

Lemma atan2_abs_le_PI y x : Rabs (atan2 y x) <= PI.
Proof. pose proof (atan2_range y x). apply Rabs_le. lra. Qed.

(* cos/sin of atan as algebraic expressions *)
Lemma cos_atan_alg t : cos (atan t) = 1 / sqrt (1 + t*t).
Proof. rewrite cos_atan. unfold Rsqr. reflexivity. Qed.
Lemma sin_atan_alg t : sin (atan t) = t / sqrt (1 + t*t).
Proof. rewrite sin_atan. unfold Rsqr. reflexivity. Qed.

Lemma atan_abs_lt t : Rabs (atan t) < PI/2.
Proof. pose proof (atan_bound t). apply Rabs_def1; lra. Qed.
Lemma asin_abs_le t : Rabs (asin t) <= PI/2.
Proof. pose proof (asin_bound t). apply Rabs_le; lra. Qed.

(* c > 0, c*c = a*a + b*b  ->  sqrt (a*a+b*b) = c *)
Lemma sqrt_unique c s : 0 <= c -> c*c = s -> sqrt s = c.
Proof. intros Hc <-. apply sqrt_square. assumption. Qed.

(* 1/sqrt(1+(u/c)^2) = c / sqrt(c^2+u^2) for c > 0 *)
Lemma inv_hyp c u : 0 < c -> 1 / sqrt (1 + (u/c)*(u/c)) = c / sqrt (c*c+u*u).
Proof.
  intros Hc. pose proof (hyp_pos c u Hc) as E. unfold Rsqr in E. rewrite E.
  assert (0 < sqrt (c*c+u*u)) by (apply sqrt_lt_R0; nra). field. lra.
Qed.
