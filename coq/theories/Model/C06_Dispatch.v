(* C06 -- hand-written model of the argument-shape dispatch of SMPose.__mul__ for (pose) * (list | tuple | ndarray)
   (spatialmath/super_pose.py:956-994), over abstract argument forms.  No arithmetic here: the model says WHICH
   (pose value, point column) pair every output column is computed from, the result shape, or the exception kind.
   It mirrors the code as it is (HEAD after fix 86fcbcb); it is tied to the implementation on every run by evaluating [dispatch] with
   vm_compute on the whole grid {SO2,SE2,SO3,SE3} x pose length 1..5 x {list,tuple,1-D,row,column,d x N, N=1..7}
   and comparing shape, column provenance and exception kind with the real call (props/C06.py: grid).

   branch order of the code (SO and SE variants differ only in the kernel that is applied, R p versus h2e(T e2h(p))):
     1  len(left) == 1 and isvector(right, N)                                  -> kernel on the column form, shape (N,1)
     2  len(left)  > 1 and isvector(right, N)                                  -> one column per pose value, shape (N,len)
     3  len(left) == 1 and ndarray and right.shape[0] == N                     -> left.A @ right, shape (N,M)
     4  ndarray and right.shape[0] == N and len(left) == right.shape[1]        -> column i = left[i] applied to right[:,i], shape (N,len)
                                                                                  (since fix 86fcbcb; before, zip(right, left.T) raised AttributeError)
     5  else                                                                   -> ValueError('bad operands')          *)
From Coq Require Import List Arith Bool Lia.
Import ListNotations.

Inductive form := FList (n : nat) | FTuple (n : nat) | FArr1 (n : nat) | FArr2 (r c : nat).
Inductive err := ValueError.
Record res := { shape : list nat; cols : list (nat * nat) }.   (* cols: (index of the pose value, index of the point column) *)

(* base.isvector(v, dim) for sequences of scalars and arrays *)
Definition isvector (f : form) (dim : nat) : bool :=
  match f with
  | FList n | FTuple n | FArr1 n => n =? dim
  | FArr2 r c => ((r =? 1) && (c =? dim)) || ((r =? dim) && (c =? 1))
  end.
Definition is_ndarray (f : form) : bool := match f with FArr1 _ | FArr2 _ _ => true | _ => false end.
Definition shape0 (f : form) : nat := match f with FArr1 n => n | FArr2 r _ => r | _ => 0 end.
(* right.shape[1]; for a 1-D array it would raise IndexError, but it is only evaluated after shape[0] == N held for an
   array that is not a vector, which excludes 1-D arrays (lemma arr1_never_reaches_shape1) *)
Definition shape1 (f : form) : option nat := match f with FArr2 _ c => Some c | _ => None end.

Definition dispatch (len dim : nat) (f : form) : err + res :=
  if (len =? 1) && isvector f dim then inr {| shape := [dim; 1]; cols := [(0, 0)] |}
  else if (1 <? len) && isvector f dim then inr {| shape := [dim; len]; cols := map (fun i => (i, 0)) (seq 0 len) |}
  else if (len =? 1) && is_ndarray f && (shape0 f =? dim) then
    match shape1 f with
    | Some c => inr {| shape := [dim; c]; cols := map (fun j => (0, j)) (seq 0 c) |}
    | None => inr {| shape := [dim]; cols := [(0, 0)] |}
    end
  else if is_ndarray f && (shape0 f =? dim) && (match shape1 f with Some c => len =? c | None => false end)
    then inr {| shape := [dim; len]; cols := map (fun i => (i, i)) (seq 0 len) |}
  else inl ValueError.

(* value level: the kernel [act] (pose value -> point -> point) applied as the dispatch says *)
Section Apply.
Context {P V : Type} (act : P -> V -> V) (dP : P) (dV : V).
Definition pose_mul (poses : list P) (pts : list V) (f : form) (dim : nat) : err + list V :=
  match dispatch (length poses) dim f with
  | inl e => inl e
  | inr r => inr (map (fun ij => act (nth (fst ij) poses dP) (nth (snd ij) pts dV)) (cols r))
  end.
End Apply.

(* ------------------------------------------------------------------------------------------------ lemmas *)
Lemma arr1_never_reaches_shape1 len dim n : 1 <= len ->
  (len =? 1) && isvector (FArr1 n) dim = false -> (1 <? len) && isvector (FArr1 n) dim = false ->
  shape0 (FArr1 n) =? dim = false.
Proof.
  intros Hl H1 H2. simpl in *. destruct (n =? dim) eqn:E; [|reflexivity].
  rewrite andb_true_r in H1, H2. apply Nat.eqb_neq in H1. apply Nat.ltb_ge in H2. lia.
Qed.

(* one pose, d x N array: for EVERY N >= 1 (N = 1 goes through the vector branch, N = dim is not special) *)
Lemma dispatch_single_array dim N : 2 <= dim -> 1 <= N ->
  dispatch 1 dim (FArr2 dim N) = inr {| shape := [dim; N]; cols := map (fun j => (0, j)) (seq 0 N) |}.
Proof.
  intros Hd HN. unfold dispatch. simpl.
  destruct (Nat.eq_dec N 1) as [->|HN1].
  - replace (dim =? 1) with false by (symmetry; apply Nat.eqb_neq; lia).
    rewrite Nat.eqb_refl. simpl. reflexivity.
  - replace (dim =? 1) with false by (symmetry; apply Nat.eqb_neq; lia).
    replace (N =? 1) with false by (symmetry; apply Nat.eqb_neq; lia).
    rewrite Nat.eqb_refl. simpl. reflexivity.
Qed.

Lemma nth_map_seq {A} (g : nat -> A) (d : A) n j : j < n -> nth j (map g (seq 0 n)) d = g j.
Proof.
  intros H. rewrite (nth_indep _ d (g 0)) by (rewrite map_length, seq_length; exact H).
  change (g 0) with ((fun i => g i) 0). rewrite map_nth. rewrite seq_nth by exact H. reflexivity.
Qed.

Section ApplyLemmas.
Context {P V : Type} (act : P -> V -> V) (dP : P) (dV : V).

(* an N-column array of points is transformed column by column, for every N *)
Lemma pose_mul_columnwise (X : P) (pts : list V) (dim : nat) : 2 <= dim -> 1 <= length pts ->
  exists l, pose_mul act dP dV [X] pts (FArr2 dim (length pts)) dim = inr l /\ length l = length pts /\
            forall j, j < length pts -> nth j l dV = act X (nth j pts dV).
Proof.
  intros Hd HN. unfold pose_mul. simpl length. rewrite (dispatch_single_array dim (length pts) Hd HN). simpl cols.
  eexists. split; [reflexivity|]. split.
  - rewrite !map_length, seq_length. reflexivity.
  - intros j Hj. rewrite map_map. simpl.
    rewrite (nth_map_seq (fun x => act X (nth x pts dV)) dV (length pts) j Hj). reflexivity.
Qed.

(* ... and it is what N separate calls on the columns give (each a d x 1 column argument) *)
Lemma pose_mul_single_column (X : P) (p : V) (dim : nat) (f : form) : isvector f dim = true ->
  pose_mul act dP dV [X] [p] f dim = inr [act X p].
Proof. intros H. unfold pose_mul, dispatch. simpl length. rewrite H. simpl. reflexivity. Qed.

(* a multi-valued pose applied to one point (any vector form) gives one column per pose value, for every length >= 2 *)
Lemma pose_mul_multi (poses : list P) (p : V) (dim : nat) (f : form) : 2 <= length poses -> isvector f dim = true ->
  exists l, pose_mul act dP dV poses [p] f dim = inr l /\ length l = length poses /\
            forall i, i < length poses -> nth i l dV = act (nth i poses dP) p.
Proof.
  intros HL Hv. unfold pose_mul, dispatch. rewrite Hv.
  replace (length poses =? 1) with false by (symmetry; apply Nat.eqb_neq; lia).
  replace (1 <? length poses) with true by (symmetry; apply Nat.ltb_lt; lia). simpl.
  eexists. split; [reflexivity|]. split.
  - rewrite !map_length, seq_length. reflexivity.
  - intros i Hi. rewrite map_map. simpl.
    rewrite (nth_map_seq (fun x => act (nth x poses dP) p) dV (length poses) i Hi). reflexivity.
Qed.
End ApplyLemmas.

(* the result does not depend on which vector form the point is given in *)
Lemma dispatch_form_independent len dim f g : 1 <= len -> isvector f dim = true -> isvector g dim = true ->
  dispatch len dim f = dispatch len dim g.
Proof.
  intros Hl Hf Hg. unfold dispatch. rewrite Hf, Hg. rewrite !andb_true_r.
  destruct (len =? 1) eqn:E1; [reflexivity|]. apply Nat.eqb_neq in E1.
  replace (1 <? len) with true by (symmetry; apply Nat.ltb_lt; lia). reflexivity.
Qed.

(* a multi-valued pose times a d x N array (N >= 2): pose i is applied to column i when N = len(pose); any other N is
   rejected with ValueError *)
Lemma dispatch_multi_array len dim N : 2 <= dim -> 2 <= len -> 2 <= N ->
  dispatch len dim (FArr2 dim N) =
    if len =? N then inr {| shape := [dim; len]; cols := map (fun i => (i, i)) (seq 0 len) |} else inl ValueError.
Proof.
  intros Hd Hl HN. unfold dispatch. simpl.
  replace (len =? 1) with false by (symmetry; apply Nat.eqb_neq; lia).
  replace (dim =? 1) with false by (symmetry; apply Nat.eqb_neq; lia).
  replace (N =? 1) with false by (symmetry; apply Nat.eqb_neq; lia).
  rewrite !andb_false_r. simpl. rewrite Nat.eqb_refl. simpl. destruct (len =? N); reflexivity.
Qed.

Section ApplyLemmas2.
Context {P V : Type} (act : P -> V -> V) (dP : P) (dV : V).
(* value level: for every length >= 2, output column i is pose i applied to point column i *)
Lemma pose_mul_elementwise (poses : list P) (pts : list V) (dim : nat) : 2 <= dim -> 2 <= length poses ->
  length pts = length poses ->
  exists l, pose_mul act dP dV poses pts (FArr2 dim (length pts)) dim = inr l /\ length l = length poses /\
            forall i, i < length poses -> nth i l dV = act (nth i poses dP) (nth i pts dV).
Proof.
  intros Hd HL HE. unfold pose_mul. rewrite HE.
  rewrite (dispatch_multi_array (length poses) dim (length poses) Hd HL HL). rewrite Nat.eqb_refl. simpl cols.
  eexists. split; [reflexivity|]. split.
  - rewrite !map_length, seq_length. reflexivity.
  - intros i Hi. rewrite map_map. simpl.
    rewrite (nth_map_seq (fun x => act (nth x poses dP) (nth x pts dV)) dV (length poses) i Hi). reflexivity.
Qed.
End ApplyLemmas2.

(* wrong sizes are rejected with ValueError *)
Lemma dispatch_wrong_length len dim n : 1 <= len -> n <> dim ->
  dispatch len dim (FList n) = inl ValueError /\ dispatch len dim (FTuple n) = inl ValueError /\
  dispatch len dim (FArr1 n) = inl ValueError.
Proof.
  intros Hl Hn. unfold dispatch. simpl.
  replace (n =? dim) with false by (symmetry; apply Nat.eqb_neq; lia).
  rewrite !andb_false_r. simpl. repeat split; reflexivity.
Qed.
