(* C17 -- effect programs, the write-root checker and its soundness, WITH the call rule.

   Kind-C model (DESIGN.md section 7 C17, Appendix A.4 extended).  No Reals, no axioms.

   Objects live on a heap and are identified by natural numbers; [next s] is the first identity not yet allocated,
   so "the objects that exist when a call starts" are exactly the identities below [next] of the entry state.
   An effect program abstracts ONE Python function:

     Def x Fresh          x = np.zeros(..) / [] / a + b / ...      a new object is bound to x
     Def x New            x = Cls(..)                             a new object is bound to x, then a constructor of
                                                                   the library runs with self = that object
     Def x (FreshCall f)  x = f(..)   (f a library function)      f runs; x is bound to what f returns
     Def x Other          any other binding                        x is bound to ANY object
     Write x              x[..] = v, x.a = v, x op= v, x.fill(..)  the object bound to x receives ANY content
     MutCall x            x.append(..), super().__init__(..) ...   a self-writing method of the library (or an
                                                                   external mutator) runs with self = x's object
     Ret x                return x

   An execution of a function is ANY finite sequence of statements drawn from its body (so every branch, loop,
   order and early exit is covered), interleaved with "idle" steps: allocations by external code and calls of
   ANY pure function of the program with ANY existing objects as arguments (this is how expression-level calls,
   property reads and dynamic dispatch of non-whitelisted method names are covered).  Calls are real: the callee's
   body is executed (relation [run], indexed by call depth), it is not replaced by a summary.

   Functions are of two kinds, decided by the translator from the method NAME: pure ([fself = false]) and
   self-writers ([fself = true]: constructors, arghandler, the documented list mutators) which may write the
   object bound to their first parameter and nothing else.

   The checker accepts a function when every write root is a local variable all of whose definitions are fresh
   (allocation, constructor call, or call of a library function that is itself claimed -- and re-checked -- to
   return a fresh object), or is [self] in a self-writer.

   Theorem [run_sound]: if every function of the program passes the checker then, for every call depth, every
   function, every argument list and every execution, every object that existed at entry is unmodified at exit
   (except the receiver of a self-writer), and functions in the claimed fresh set return an object allocated
   during the call. *)
From Coq Require Import List Arith Bool Lia PeanoNat.
Import ListNotations.

Definition var := nat.
Definition fname := nat.
Definition oid := nat.

Inductive rhs := Fresh | New | FreshCall (f : fname) | Other.
Inductive stmt := Def (x : var) (r : rhs) | Write (x : var) | MutCall (x : var) | Ret (x : var).

(* parameters are the variables 0 .. nparams-1; in a self-writer, self is variable 0 *)
Record func := mkfunc { nparams : nat; fself : bool; fbody : list stmt }.
Definition program := list func.

Record state := mkstate { env : var -> option oid; heap : oid -> nat; next : oid }.

Definition upd {A} (f : nat -> A) (k : nat) (v : A) : nat -> A := fun j => if Nat.eqb j k then v else f j.
Definition args_ok (args : list oid) (n : oid) : Prop := Forall (fun a => a < n) args.
Definition bind (k : nat) (args : list oid) : var -> option oid := fun x => if x <? k then nth_error args x else None.

(* callee f, argument objects, heap and next before, heap and next after, returned object *)
Definition callrel_t := fname -> list oid -> (oid -> nat) -> oid -> (oid -> nat) -> oid -> oid -> Prop.

Definition is_pure (P : program) (f : fname) : bool :=
  match nth_error P f with Some F => negb (fself F) | None => false end.
Definition rhs_alloc (r : rhs) : bool := match r with Fresh | New => true | _ => false end.

Section Semantics.
  Variable P : program.
  Variable cr : callrel_t.

  Inductive step : state -> stmt -> state -> Prop :=
  | SFresh s x r : rhs_alloc r = true ->
      step s (Def x r) (mkstate (upd (env s) x (Some (next s))) (heap s) (S (next s)))
  | SNew s x g args h' n' r : args_ok args (next s) ->
      cr g (next s :: args) (heap s) (S (next s)) h' n' r ->          (* ANY function as constructor, self = the new object *)
      step s (Def x New) (mkstate (upd (env s) x (Some (next s))) h' n')
  | SFreshCall s x f args h' n' r : args_ok args (next s) ->
      cr f args (heap s) (next s) h' n' r ->
      step s (Def x (FreshCall f)) (mkstate (upd (env s) x (Some r)) h' n')
  | SOther s x o :                                                    (* binds ANY object, or nothing *)
      step s (Def x Other) (mkstate (upd (env s) x o) (heap s) (next s))
  | SWrite s x id c : env s x = Some id ->                            (* stores ANY content *)
      step s (Write x) (mkstate (env s) (upd (heap s) id c) (next s))
  | SWriteUnbound s x : env s x = None -> step s (Write x) s          (* NameError: no effect *)
  | SMutCall s x id g args h' n' r : env s x = Some id -> args_ok (id :: args) (next s) ->
      cr g (id :: args) (heap s) (next s) h' n' r ->                  (* ANY function, receiver = x's object *)
      step s (MutCall x) (mkstate (env s) h' n')
  | SMutExt s x id c : env s x = Some id ->                           (* external mutator, e.g. list.append *)
      step s (MutCall x) (mkstate (env s) (upd (heap s) id c) (next s))
  | SMutUnbound s x : env s x = None -> step s (MutCall x) s
  | SRet s x : step s (Ret x) s.

  (* what can happen between / inside statements without being named by one *)
  Inductive idle : state -> state -> Prop :=
  | IAlloc s n' : next s <= n' -> idle s (mkstate (env s) (heap s) n')
  | ICall s g args h' n' r : is_pure P g = true -> args_ok args (next s) ->
      cr g args (heap s) (next s) h' n' r -> idle s (mkstate (env s) h' n').

  Inductive exec (F : func) : state -> state -> Prop :=
  | ENil s : exec F s s
  | EStmt s1 s2 s3 st : In st (fbody F) -> step s1 st s2 -> exec F s2 s3 -> exec F s1 s3
  | EIdle s1 s2 s3 : idle s1 s2 -> exec F s2 s3 -> exec F s1 s3.
End Semantics.

(* the real call relation: depth-indexed execution of the callee's own body *)
Fixpoint run (P : program) (n : nat) : callrel_t :=
  fun f args h nx h' nx' r =>
    match n with
    | 0 => False
    | S m => exists F s', nth_error P f = Some F /\
               exec P (run P m) F (mkstate (bind (nparams F) args) h nx) s' /\
               heap s' = h' /\ next s' = nx' /\
               exists x, In (Ret x) (fbody F) /\ env s' x = Some r
    end.

(* ------------------------------------------------------------------ the checker *)
Definition memb (f : nat) (l : list nat) : bool := existsb (Nat.eqb f) l.
Definition rhs_fresh (FS : list fname) (r : rhs) : bool :=
  match r with Fresh | New => true | FreshCall f => memb f FS | Other => false end.
Definition def_ok (FS : list fname) (x : var) (st : stmt) : bool :=
  match st with Def y r => negb (Nat.eqb y x) || rhs_fresh FS r | _ => true end.
Definition freshonly (FS : list fname) (F : func) (x : var) : bool :=
  negb (x <? nparams F) && forallb (def_ok FS x) (fbody F).
Definition self_ok (F : func) (x : var) : bool := fself F && Nat.eqb x 0.
Definition stmt_ok (P : program) (FS : list fname) (F : func) (st : stmt) : bool :=
  match st with
  | Write x | MutCall x => freshonly FS F x || self_ok F x
  | Def y r => negb (self_ok F y) &&                         (* self is never rebound in a self-writer *)
               match r with FreshCall g => is_pure P g | _ => true end
  | Ret _ => true
  end.
Definition ret_ok (FS : list fname) (F : func) (st : stmt) : bool :=
  match st with Ret x => freshonly FS F x | _ => true end.
Definition check_fun (P : program) (FS : list fname) (f : fname) (F : func) : bool :=
  forallb (stmt_ok P FS F) (fbody F)
  && (negb (memb f FS) || forallb (ret_ok FS F) (fbody F))
  && (negb (fself F) || (0 <? nparams F)).
Fixpoint check_from (P : program) (FS : list fname) (f : fname) (l : list func) : bool :=
  match l with [] => true | F :: t => check_fun P FS f F && check_from P FS (S f) t end.
Definition check_prog (P : program) (FS : list fname) : bool := check_from P FS 0 P.
(* per-function verdicts, for reporting *)
Fixpoint verdicts_from (P : program) (FS : list fname) (f : fname) (l : list func) : list bool :=
  match l with [] => [] | F :: t => check_fun P FS f F :: verdicts_from P FS (S f) t end.
Definition verdicts (P : program) (FS : list fname) : list bool := verdicts_from P FS 0 P.

Lemma check_from_nth P FS l : forall f0 k F, check_from P FS f0 l = true -> nth_error l k = Some F ->
  check_fun P FS (f0 + k) F = true.
Proof.
  induction l as [|G t IH]; intros f0 k F Hc Hn; [destruct k; discriminate|].
  cbn in Hc. apply andb_true_iff in Hc. destruct Hc as [Hg Ht].
  destruct k as [|k]; cbn in Hn.
  - injection Hn as <-. now rewrite Nat.add_0_r.
  - replace (f0 + S k) with (S f0 + k) by lia. eapply IH; eassumption.
Qed.

Lemma check_prog_nth P FS f F : check_prog P FS = true -> nth_error P f = Some F -> check_fun P FS f F = true.
Proof. intros Hc Hn. exact (check_from_nth P FS P 0 f F Hc Hn). Qed.

(* ------------------------------------------------------------------ what is proved of every call *)
Definition spec (P : program) (FS : list fname) (cr : callrel_t) : Prop :=
  forall f args h nx h' nx' r, cr f args h nx h' nx' r -> args_ok args nx ->
    exists F, nth_error P f = Some F /\
      nx <= nx' /\
      (forall id, id < nx -> (fself F = true /\ nth_error args 0 = Some id) \/ h' id = h id) /\
      (In f FS -> nx <= r).

Lemma memb_In f l : memb f l = true <-> In f l.
Proof.
  unfold memb. rewrite existsb_exists. split.
  - intros [x [Hin He]]. apply Nat.eqb_eq in He. now subst.
  - intros H. exists f. split; [assumption|apply Nat.eqb_refl].
Qed.

Lemma args_ok_mono args n m : args_ok args n -> n <= m -> args_ok args m.
Proof. unfold args_ok. intros H Hle. eapply Forall_impl; [|exact H]. cbn. intros; lia. Qed.

Section Soundness.
  Variable P : program.
  Variable FS : list fname.
  Variable cr : callrel_t.
  Hypothesis cr_spec : spec P FS cr.
  Variable F : func.
  Variable f : fname.
  Hypothesis F_ok : check_fun P FS f F = true.
  Variable n0 : oid.                       (* [next] of the entry state *)
  Variable h0 : oid -> nat.                (* heap of the entry state *)
  Variable self : option oid.              (* what parameter 0 is bound to at entry *)

  Definition Inv (s : state) : Prop :=
    n0 <= next s /\
    (forall x id, freshonly FS F x = true -> env s x = Some id -> n0 <= id) /\
    (fself F = true -> env s 0 = self) /\
    (forall id, id < n0 -> (fself F = true /\ self = Some id) \/ heap s id = h0 id).

  Lemma stmts_ok st : In st (fbody F) -> stmt_ok P FS F st = true.
  Proof.
    intros Hin. unfold check_fun in F_ok. apply andb_true_iff in F_ok. destruct F_ok as [H _].
    apply andb_true_iff in H. destruct H as [H _]. rewrite forallb_forall in H. now apply H.
  Qed.

  Lemma freshonly_def x r : freshonly FS F x = true -> In (Def x r) (fbody F) -> rhs_fresh FS r = true.
  Proof.
    unfold freshonly. intros H Hin. apply andb_true_iff in H. destruct H as [_ H].
    rewrite forallb_forall in H. specialize (H _ Hin). cbn in H. now rewrite Nat.eqb_refl in H.
  Qed.

  Lemma write_root_ok s x id : Inv s -> freshonly FS F x || self_ok F x = true -> env s x = Some id ->
    n0 <= id \/ (fself F = true /\ self = Some id).
  Proof.
    intros (Hn & Hf & Hs & Hh) Hok He. apply orb_true_iff in Hok. destruct Hok as [Hok|Hok].
    - left. eapply Hf; eassumption.
    - right. unfold self_ok in Hok. apply andb_true_iff in Hok. destruct Hok as [Hfs Hx].
      apply Nat.eqb_eq in Hx. subst x. split; [assumption|]. rewrite <- (Hs Hfs). assumption.
  Qed.

  Lemma upd_env_inv s x v h' n' :
    Inv s -> next s <= n' ->
    (freshonly FS F x = true -> exists id, v = Some id /\ n0 <= id) ->
    self_ok F x = false ->
    (forall id, id < n0 -> (fself F = true /\ self = Some id) \/ h' id = h0 id) ->
    Inv (mkstate (upd (env s) x v) h' n').
  Proof.
    intros (Hn & Hf & Hs & Hh) Hle Hv Hself Hh'. repeat split; cbn.
    - lia.
    - intros y id Hy. unfold upd. destruct (Nat.eqb y x) eqn:E.
      + apply Nat.eqb_eq in E. subst y. destruct (Hv Hy) as [id' [-> Hid]]. intros [= <-]. exact Hid.
      + apply Hf. exact Hy.
    - intros Hfs. unfold upd. destruct (Nat.eqb 0 x) eqn:E.
      + apply Nat.eqb_eq in E. subst x. unfold self_ok in Hself. rewrite Hfs in Hself. discriminate.
      + now apply Hs.
    - exact Hh'.
  Qed.

  Lemma step_inv s st s' : In st (fbody F) -> Inv s -> step cr s st s' -> Inv s'.
  Proof.
    intros Hin HI Hst. pose proof (stmts_ok st Hin) as Hok.
    pose proof HI as (Hn & Hf & Hs & Hh).
    inversion Hst; subst; cbn in Hok.
    - (* SFresh *)
      apply andb_true_iff in Hok. destruct Hok as [Hso _]. apply negb_true_iff in Hso.
      apply upd_env_inv; try assumption; [lia|].
      intros _. exists (next s). split; [reflexivity|lia].
    - (* SNew *)
      apply andb_true_iff in Hok. destruct Hok as [Hso _]. apply negb_true_iff in Hso.
      assert (args_ok (next s :: args) (S (next s))) as Ha.
      { constructor; [lia|]. eapply args_ok_mono; [eassumption|lia]. }
      destruct (cr_spec _ _ _ _ _ _ _ H0 Ha) as (G & HG & Hle & Hun & _).
      apply upd_env_inv; try assumption; [lia| |].
      + intros _. exists (next s). split; [reflexivity|lia].
      + intros id Hid. destruct (Hun id ltac:(lia)) as [[_ Hx]|Hx].
        * cbn in Hx. injection Hx as Hx. lia.
        * rewrite Hx. now apply Hh.
    - (* SFreshCall *)
      apply andb_true_iff in Hok. destruct Hok as [Hso Hpure]. apply negb_true_iff in Hso.
      destruct (cr_spec _ _ _ _ _ _ _ H0 H) as (G & HG & Hle & Hun & Hfr).
      unfold is_pure in Hpure. rewrite HG in Hpure. apply negb_true_iff in Hpure.
      apply upd_env_inv; try assumption.
      + intros Hx. exists r. split; [reflexivity|].
        pose proof (freshonly_def _ _ Hx Hin) as Hr. cbn in Hr. apply memb_In in Hr.
        specialize (Hfr Hr). lia.
      + intros id Hid. destruct (Hun id ltac:(lia)) as [[Hx _]|Hx]; [congruence|].
        rewrite Hx. now apply Hh.
    - (* SOther *)
      apply andb_true_iff in Hok. destruct Hok as [Hso _]. apply negb_true_iff in Hso.
      apply upd_env_inv; try assumption; [lia|].
      intros Hx. pose proof (freshonly_def _ _ Hx Hin) as Hr. discriminate.
    - (* SWrite *)
      repeat split; cbn; try assumption.
      intros j Hj. unfold upd. destruct (Nat.eqb j id) eqn:E; [|now apply Hh].
      apply Nat.eqb_eq in E. subst j.
      destruct (write_root_ok _ _ _ HI Hok H) as [Hge|Hself]; [lia|now left].
    - (* SWriteUnbound *) exact HI.
    - (* SMutCall *)
      destruct (cr_spec _ _ _ _ _ _ _ H1 H0) as (G & HG & Hle & Hun & _).
      repeat split; cbn; try assumption; [lia|].
      intros j Hj. destruct (Hun j ltac:(lia)) as [[_ Hx]|Hx].
      + cbn in Hx. injection Hx as Hx. subst j.
        destruct (write_root_ok _ _ _ HI Hok H) as [Hge|Hself]; [lia|now left].
      + rewrite Hx. now apply Hh.
    - (* SMutExt *)
      repeat split; cbn; try assumption.
      intros j Hj. unfold upd. destruct (Nat.eqb j id) eqn:E; [|now apply Hh].
      apply Nat.eqb_eq in E. subst j.
      destruct (write_root_ok _ _ _ HI Hok H) as [Hge|Hself]; [lia|now left].
    - (* SMutUnbound *) exact HI.
    - (* SRet *) exact HI.
  Qed.

  Lemma idle_inv s s' : Inv s -> idle P cr s s' -> Inv s'.
  Proof.
    intros HI Hid. pose proof HI as (Hn & Hf & Hs & Hh). inversion Hid; subst.
    - repeat split; cbn; try assumption. lia.
    - destruct (cr_spec _ _ _ _ _ _ _ H1 H0) as (G & HG & Hle & Hun & _).
      unfold is_pure in H. rewrite HG in H. apply negb_true_iff in H.
      repeat split; cbn; try assumption; [lia|].
      intros j Hj. destruct (Hun j ltac:(lia)) as [[Hx _]|Hx]; [congruence|].
      rewrite Hx. now apply Hh.
  Qed.

  Lemma exec_inv s s' : exec P cr F s s' -> Inv s -> Inv s'.
  Proof.
    intros Hex. induction Hex as [s|s1 s2 s3 st Hin Hst _ IH|s1 s2 s3 Hid _ IH]; intros HI.
    - exact HI.
    - apply IH. eapply step_inv; eassumption.
    - apply IH. eapply idle_inv; eassumption.
  Qed.
End Soundness.

(* one call, assuming the callees meet [spec] *)
Lemma call_sound P FS cr f F args h nx s' :
  spec P FS cr -> check_fun P FS f F = true -> args_ok args nx ->
  exec P cr F (mkstate (bind (nparams F) args) h nx) s' ->
  nx <= next s' /\
  (forall id, id < nx -> (fself F = true /\ nth_error args 0 = Some id) \/ heap s' id = h id) /\
  (In f FS -> forall x r, In (Ret x) (fbody F) -> env s' x = Some r -> nx <= r).
Proof.
  intros Hsp Hck Ha Hex.
  assert (Inv FS F nx h (nth_error args 0) (mkstate (bind (nparams F) args) h nx)) as HI.
  { repeat split; cbn.
    - lia.
    - intros x id Hx. unfold freshonly in Hx. apply andb_true_iff in Hx. destruct Hx as [Hx _].
      apply negb_true_iff in Hx. unfold bind. rewrite Hx. discriminate.
    - intros Hfs. unfold check_fun in Hck. apply andb_true_iff in Hck. destruct Hck as [_ Hk].
      unfold bind. destruct (0 <? nparams F) eqn:E; [reflexivity|]. rewrite Hfs in Hk. discriminate.
    - intros id _. now right. }
  pose proof (exec_inv P FS cr Hsp F f Hck nx h (nth_error args 0) _ _ Hex HI) as (Hn & Hf & _ & Hh).
  split; [exact Hn|]. split; [exact Hh|].
  intros Hfs x r Hret He. apply (Hf x r); [|exact He].
  unfold check_fun in Hck. apply andb_true_iff in Hck. destruct Hck as [Hck _].
  apply andb_true_iff in Hck. destruct Hck as [_ Hck].
  apply memb_In in Hfs. rewrite Hfs in Hck. cbn in Hck.
  rewrite forallb_forall in Hck. exact (Hck _ Hret).
Qed.

(* the whole program, real calls, every depth *)
Theorem run_sound P FS : check_prog P FS = true -> forall n, spec P FS (run P n).
Proof.
  intros Hc n. induction n as [|n IH]; intros f args h nx h' nx' r Hrun Ha; cbn in Hrun; [contradiction|].
  destruct Hrun as (F & s' & HF & Hex & <- & <- & x & Hret & He).
  exists F. split; [exact HF|].
  pose proof (check_prog_nth _ _ _ _ Hc HF) as Hck.
  destruct (call_sound P FS (run P n) f F args h nx s' IH Hck Ha Hex) as (H1 & H2 & H3).
  split; [exact H1|]. split; [exact H2|].
  intros Hfs. exact (H3 Hfs x r Hret He).
Qed.

(* the statement of C17 for a pure function: every object existing at entry is unmodified at exit *)
Corollary pure_call_no_mutation P FS n f F args h nx h' nx' r :
  check_prog P FS = true -> nth_error P f = Some F -> fself F = false -> args_ok args nx ->
  run P n f args h nx h' nx' r ->
  forall id, id < nx -> h' id = h id.
Proof.
  intros Hc HF Hp Ha Hrun id Hid.
  destruct (run_sound P FS Hc n _ _ _ _ _ _ _ Hrun Ha) as (G & HG & _ & Hun & _).
  rewrite HF in HG. injection HG as <-.
  destruct (Hun id Hid) as [[Hx _]|Hx]; [congruence|exact Hx].
Qed.

(* ... for a self-writer (constructor / documented mutator): everything but the receiver *)
Corollary selfwriter_call_only_receiver P FS n f F args h nx h' nx' r :
  check_prog P FS = true -> nth_error P f = Some F -> args_ok args nx ->
  run P n f args h nx h' nx' r ->
  forall id, id < nx -> nth_error args 0 <> Some id -> h' id = h id.
Proof.
  intros Hc HF Ha Hrun id Hid Hne.
  destruct (run_sound P FS Hc n _ _ _ _ _ _ _ Hrun Ha) as (G & HG & _ & Hun & _).
  destruct (Hun id Hid) as [[_ Hx]|Hx]; [contradiction|exact Hx].
Qed.

(* ... and functions in the (re-checked) fresh set return an object allocated during the call *)
Corollary fresh_call_returns_new P FS n f args h nx h' nx' r :
  check_prog P FS = true -> In f FS -> args_ok args nx ->
  run P n f args h nx h' nx' r -> nx <= r.
Proof.
  intros Hc Hf Ha Hrun.
  destruct (run_sound P FS Hc n _ _ _ _ _ _ _ Hrun Ha) as (G & _ & _ & _ & Hfr). exact (Hfr Hf).
Qed.

(* ------------------------------------------------------------------ the checker does not reject for nothing:
   a pure function with a write whose root is a parameter really has an execution that changes an object
   that existed at entry (used for the _refuted theorems) *)
Definition is_param_write (F : func) (st : stmt) : bool := match st with Write x => x <? nparams F | _ => false end.
Definition is_fresh_def (v : var) (st : stmt) : bool := match st with Def y Fresh => Nat.eqb y v | _ => false end.
Definition is_fresh_ret (F : func) (st : stmt) : bool :=
  match st with Ret v => existsb (is_fresh_def v) (fbody F) | _ => false end.
Definition mutates_param (F : func) : bool :=
  existsb (is_param_write F) (fbody F) && existsb (is_fresh_ret F) (fbody F).

Lemma nth_error_repeat0 k x : x < k -> nth_error (repeat 0 k) x = Some 0.
Proof. revert x. induction k as [|k IH]; intros x Hx; [lia|]. destruct x as [|x]; cbn; [reflexivity|]. apply IH. lia. Qed.

Lemma param_write_mutates P f F :
  nth_error P f = Some F -> mutates_param F = true ->
  forall h, exists args nx h' nx' r,
    args_ok args nx /\ run P 1 f args h nx h' nx' r /\ exists id, id < nx /\ h' id <> h id.
Proof.
  intros HF Hm h. unfold mutates_param in Hm. apply andb_true_iff in Hm. destruct Hm as [Hw Hr].
  apply existsb_exists in Hw. destruct Hw as [sw [Hinw Hw]].
  apply existsb_exists in Hr. destruct Hr as [sr [Hinr Hr]].
  destruct sw as [| p | |]; cbn in Hw; try discriminate. apply Nat.ltb_lt in Hw.
  destruct sr as [| | | v]; cbn in Hr; try discriminate.
  apply existsb_exists in Hr. destruct Hr as [sd [Hind Hd]].
  destruct sd as [y rr | | |]; cbn in Hd; try discriminate. destruct rr; try discriminate.
  apply Nat.eqb_eq in Hd. subst y.
  exists (repeat 0 (nparams F)), 1, (upd h 0 (S (h 0))), 2, 1.
  split. { unfold args_ok. apply Forall_forall. intros a Ha. apply repeat_spec in Ha. lia. }
  split.
  - cbn. exists F.
    exists (mkstate (upd (bind (nparams F) (repeat 0 (nparams F))) v (Some 1)) (upd h 0 (S (h 0))) 2).
    split; [exact HF|]. split.
    + eapply EStmt; [exact Hinw| |].
      * apply (SWrite (run P 0) (mkstate (bind (nparams F) (repeat 0 (nparams F))) h 1) p 0 (S (h 0))).
        cbn. unfold bind. apply Nat.ltb_lt in Hw. rewrite Hw. apply nth_error_repeat0. now apply Nat.ltb_lt.
      * eapply EStmt; [exact Hind| |apply ENil].
        apply (SFresh (run P 0) (mkstate (bind (nparams F) (repeat 0 (nparams F))) (upd h 0 (S (h 0))) 1) v Fresh).
        reflexivity.
    + cbn. split; [reflexivity|]. split; [reflexivity|]. exists v. split; [exact Hinr|].
      unfold upd. now rewrite Nat.eqb_refl.
  - exists 0. split; [lia|]. unfold upd. cbn. lia.
Qed.

(* ------------------------------------------------------------------ helpers for the data-level theorems *)
From Coq Require Import String.
Fixpoint find_idx (name : string) (ns : list string) (i : nat) : option nat :=
  match ns with [] => None | n :: t => if String.eqb name n then Some i else find_idx name t (S i) end.
Definition in_names (name : string) (l : list string) : bool := existsb (String.eqb name) l.
(* the program in which the functions named in [ex] are re-classified as self-writers: executions of this program
   never call them implicitly (only as constructor / mutator of a fresh receiver) *)
Fixpoint reclassify (ex : list string) (ns : list string) (P : program) : program :=
  match ns, P with
  | n :: ns', F :: P' => (if in_names n ex then mkfunc (nparams F) true (fbody F) else F) :: reclassify ex ns' P'
  | _, _ => P
  end.
Fixpoint all_ok_but (ex : list string) (ns : list string) (vs : list bool) : bool :=
  match ns, vs with
  | n :: ns', v :: vs' => (v || in_names n ex) && all_ok_but ex ns' vs'
  | [], [] => true
  | _, _ => false
  end.
